package c08

import (
	"math"
	"math/rand"
	"reflect"
	"strconv"
	"strings"
	"time"
	"unicode"
)

// gen generates type and value descriptions. It never touches scriggo.
type gen struct {
	r *rand.Rand
	// scopes of open findings: the construct is not generated (or the JSON
	// contexts are dropped for the case) while the finding is listed.
	noProtoKey bool
	// features seen while generating the current case
	featEmbedded    bool // struct with an embedded struct field that has no json name
	featStringerKey bool // map whose key type has a String method
}

var leafKinds = []string{"bool", "int", "int8", "int16", "int32", "int64", "uint", "uint8", "uint16", "uint32", "uint64", "uintptr",
	"float32", "float64", "string"}

var namedLeaf = []string{"MyInt", "MyInt8", "MyUint16", "MyFloat", "MyFloat32", "MyString", "MyBool", "MyBytes", "MyInts", "MyStrMap", "MyArr", "MyU8", "JSer", "JSer"}

var namedStructs = []string{"Inner", "Unexp", "Tagged", "FirstOmit", "Emb", "EmbPtr", "EmbTagged", "EmbNonStruct", "EmbUnexp", "Node", "Times", "Anys", "Mixed", "Opts", "LeadOmit"}

// map key types accepted by checkShowJS/checkShowJSON: string and Bool..Complex128 kinds.
// (uintptr keys are left out: the renderer's toString lacks the case, a defect owned by C09.)
var keyKinds = []string{"string", "string", "string", "int", "int8", "int64", "uint", "uint8", "uint64", "bool", "float64", "float32",
	"complex128", "complex64", "int16", "int32", "uint16", "uint32"}

var fieldNames = []string{"A", "B", "Cc", "D1", "E_x", "Ünï", "Ff", "G", "Hh", "Z9"}

// valid names for encoding/json (letters, digits and !#$%&()*+-./:;<=>?@[]^_{|}~ and space)
var tagNames = []string{"a", "b", "A", "snake_case", "with space", "ünï", "a.b", "$x", "<t>", "a&b", "0", "10", "x-y", "__proto__", "constructor", "c", "d", "e"}

// names that encoding/json does not accept in a tag (isValidTag): it falls back to the Go field name.
// They are written here as they appear inside the Go-quoted tag value.
var invalidTagNames = []string{`x\\y`, `a'b`, `q\"r`, "caf\u00e9\u2028", `tab\tname`}

// validTagName mirrors encoding/json's isValidTag.
func validTagName(s string) bool {
	if s == "" {
		return false
	}
	for _, c := range s {
		switch {
		case strings.ContainsRune("!#$%&()*+-./:;<=>?@[]^_{|}~ ", c):
		case !unicode.IsLetter(c) && !unicode.IsDigit(c):
			return false
		}
	}
	return true
}

func pick[T any](r *rand.Rand, l []T) T { return l[r.Intn(len(l))] }

// genType generates a type description; depth bounds nesting.
func (g *gen) genType(depth int) TDesc {
	r := g.r
	if depth <= 0 || r.Intn(100) < 35 {
		switch n := r.Intn(100); {
		case n < 55:
			return TDesc{K: pick(r, leafKinds)}
		case n < 70:
			return TDesc{K: "named", Name: pick(r, namedLeaf)}
		case n < 80:
			return TDesc{K: "time"}
		case n < 92:
			return TDesc{K: "any"}
		default:
			return g.namedStruct()
		}
	}
	switch n := r.Intn(100); {
	case n < 15:
		e := g.genType(depth - 1)
		return TDesc{K: "ptr", E: &e}
	case n < 35:
		e := g.genType(depth - 1)
		return TDesc{K: "slice", E: &e}
	case n < 45:
		e := g.genType(depth - 1)
		return TDesc{K: "array", N: r.Intn(4), E: &e}
	case n < 65:
		e := g.genType(depth - 1)
		k := g.keyType()
		return TDesc{K: "map", Key: &k, E: &e}
	case n < 90:
		return g.structType(depth)
	default:
		return g.namedStruct()
	}
}

func (g *gen) namedStruct() TDesc {
	n := pick(g.r, namedStructs)
	switch n {
	case "Emb", "EmbPtr", "EmbUnexp":
		g.featEmbedded = true
	}
	return TDesc{K: "named", Name: n}
}

func (g *gen) keyType() TDesc {
	r := g.r
	switch n := r.Intn(100); {
	case n < 8:
		g.featStringerKey = true
		return TDesc{K: "named", Name: pick(r, []string{"StrKey", "IntKey"})}
	case n < 16:
		return TDesc{K: "named", Name: pick(r, []string{"MyString", "MyInt", "MyBool", "MyFloat", "MyUint16"})}
	}
	return TDesc{K: pick(r, keyKinds)}
}

// structType builds a struct description whose effective JSON names are distinct.
func (g *gen) structType(depth int) TDesc {
	r := g.r
	nf := r.Intn(6)
	names := append([]string(nil), fieldNames...)
	r.Shuffle(len(names), func(i, j int) { names[i], names[j] = names[j], names[i] })
	used := map[string]bool{}
	var fs []FDesc
	embedded := false
	for i := 0; i < nf; i++ {
		f := FDesc{N: names[i]}
		if !embedded && r.Intn(100) < 8 {
			// embedded field of a static named type (reflect needs a named type without methods)
			embedded = true
			switch r.Intn(4) {
			case 0:
				f = FDesc{N: "Inner", T: TDesc{K: "named", Name: "Inner"}, Emb: true}
			case 1:
				f = FDesc{N: "Inner", T: TDesc{K: "ptr", E: &TDesc{K: "named", Name: "Inner"}}, Emb: true}
			case 2:
				f = FDesc{N: "MyInt", T: TDesc{K: "named", Name: "MyInt"}, Emb: true}
			case 3:
				f = FDesc{N: "Inner", T: TDesc{K: "named", Name: "Inner"}, Emb: true, Tag: `json:"inner"`}
			}
		} else {
			f.T = g.genType(depth - 1)
		}
		eff := f.N
		if f.Tag == "" {
			var tn string
			for try := 0; ; try++ {
				tn = pick(r, tagNames)
				if g.noProtoKey && tn == "__proto__" {
					continue
				}
				if !used[tn] || try > 20 {
					break
				}
			}
			switch n := r.Intn(100); {
			case n < 26:
			case n < 38:
				f.Tag = `json:"` + tn + `"`
			case n < 54:
				f.Tag = `json:"` + tn + `,omitempty"`
			case n < 60:
				f.Tag = `json:",omitempty"`
			case n < 64:
				f.Tag = `json:"-"`
			case n < 67:
				f.Tag = `json:"-,"`
			case n < 70:
				f.Tag = `json:"` + tn + `,foo,omitempty"`
			case n < 73:
				f.Tag = `xml:"x,attr" json:"` + tn + `"`
			case n < 76:
				f.Tag = `json:"` + tn + `,omitemptyx"`
			case n < 79:
				f.Tag = `yaml:"y"`
			case n < 86:
				// the string option (quotes scalars; ignored by encoding/json for other kinds)
				f.Tag = `json:"` + tn + pick(r, []string{`,string"`, `,string"`, `,omitempty,string"`, `,string,omitzero"`})
			case n < 94:
				// the omitzero option (Go 1.24)
				f.Tag = `json:"` + pick(r, []string{tn, tn, ""}) + pick(r, []string{`,omitzero"`, `,omitzero"`, `,omitempty,omitzero"`, `,omitzero,foo"`})
			default:
				// a name that is not valid for encoding/json, which then uses the Go field name
				f.Tag = `json:"` + pick(r, invalidTagNames) + pick(r, []string{`"`, `"`, `,omitempty"`})
			}
		}
		verbatim := ""
		if tag := reflect.StructTag(f.Tag).Get("json"); tag != "" && tag != "-" {
			if n, _, _ := strings.Cut(tag, ","); n != "" {
				if validTagName(n) {
					eff = n
				} else {
					verbatim = n // scriggo may use it as it is: reserve both names
				}
			}
		}
		if verbatim != "" && used[verbatim] {
			f.Tag = ""
			verbatim = ""
		}
		if used[eff] && reflect.StructTag(f.Tag).Get("json") != "-" {
			// name clash: drop the tag and, if the Go name clashes too, the field
			f.Tag = ""
			eff = f.N
			if used[eff] {
				continue
			}
		}
		if f.Emb && eff == f.N && reflect.StructTag(f.Tag).Get("json") != "-" && f.T.Name != "MyInt" {
			// embedded struct (or pointer to struct) without a json name: encoding/json promotes its fields
			g.featEmbedded = true
		}
		used[eff] = true
		if verbatim != "" {
			used[verbatim] = true
		}
		fs = append(fs, f)
	}
	return TDesc{K: "struct", F: fs}
}

// ---- values ----

var intSpecials = []int64{0, 1, -1, 2, 10, -10, 127, -128, 255, 256, 32767, -32768, 65535, 1<<31 - 1, -1 << 31, 1<<32 - 1, 1 << 53, 1<<53 + 1, -(1<<53 + 1), math.MaxInt64, math.MinInt64, 1e15, 999999999999999999}

var uintSpecials = []uint64{0, 1, 2, 10, 255, 256, 65535, 1<<32 - 1, 1 << 53, 1<<53 + 1, math.MaxInt64, math.MaxUint64, 1 << 63}

var floatSpecials = []float64{0, math.Copysign(0, -1), 1, -1, 0.1, -0.1, 0.5, 1.5, 100, 1e6, 1e20, 1e21, 1e22, 123456789012345680000, 1e-6, 1e-7, 1.5e-7, 1e100, -1e100, 1e-100,
	math.MaxFloat64, -math.MaxFloat64, math.SmallestNonzeroFloat64, 2.2250738585072014e-308, math.MaxFloat32, math.SmallestNonzeroFloat32,
	1 << 53, 1<<53 + 2, 0.1 + 0.2, 1.0 / 3, 3.141592653589793, 2.718281828459045e-10, 4.35, 16777216, 16777217,
	math.Inf(1), math.Inf(-1), math.NaN()}

var stringSpecials = []string{"", "a", "abc", " ", "\"", "'", "\\", "\\\"", "</script>", "</SCRIPT >", "<!--", "-->", "]]>", "<script>", "\u2028", "\u2029", "a\u2028b\u2029c",
	"\n", "\r", "\r\n", "\t", "\x00", "\x01", "\x1f", "\x7f", "\u0080", "é", "\u00a0", "\ufeff", "\ufffd", "\ufffe", "\U0001F600", "\U0010FFFF", "\u0301", "\u200d",
	"\xff", "a\xc3", "\xed\xa0\x80", "\xf4\x90\x80\x80", "\xe2\x82", "&amp;", "&", "<", ">", "${x}", "`", "__proto__", "constructor", "toString", "0", "-1", "1e3", "null", "true", "NaN",
	"/", "*/", "/*", "//", "+", "\\u0041", "\\x41", "%", "\b\f\v", "x\"y'z\\w", "new Date(0)", "[1,2]", "{\"a\":1}", strings.Repeat("x", 300), strings.Repeat("é<", 40)}

func (g *gen) genInt(t reflect.Type) string {
	r := g.r
	var n int64
	switch k := r.Intn(100); {
	case k < 45:
		n = pick(r, intSpecials)
	case k < 75:
		n = int64(r.Intn(2001) - 1000)
	default:
		n = int64(r.Uint64())
	}
	bits := t.Bits()
	if bits < 64 {
		lo, hi := int64(-1)<<(bits-1), int64(1)<<(bits-1)-1
		if n < lo || n > hi {
			switch r.Intn(3) {
			case 0:
				n = lo
			case 1:
				n = hi
			default:
				n = n % (hi + 1)
			}
		}
	}
	return strconv.FormatInt(n, 10)
}

func (g *gen) genUint(t reflect.Type) string {
	r := g.r
	var n uint64
	switch k := r.Intn(100); {
	case k < 45:
		n = pick(r, uintSpecials)
	case k < 75:
		n = uint64(r.Intn(1000))
	default:
		n = r.Uint64()
	}
	bits := t.Bits()
	if bits < 64 {
		hi := uint64(1)<<bits - 1
		if n > hi {
			if r.Intn(2) == 0 {
				n = hi
			} else {
				n &= hi
			}
		}
	}
	return strconv.FormatUint(n, 10)
}

func (g *gen) genFloat(bits int, key bool) string {
	r := g.r
	var f float64
	switch k := r.Intn(100); {
	case k < 50:
		f = pick(r, floatSpecials)
	case k < 65:
		f = float64(r.Intn(2001)-1000) / float64([]int{1, 2, 4, 10, 100, 1000}[r.Intn(6)])
	case k < 80:
		f = math.Float64frombits(r.Uint64())
	case k < 90:
		f = r.NormFloat64() * math.Pow(10, float64(r.Intn(80)-40))
	default:
		f = float64(int64(r.Uint64()))
	}
	if bits == 32 {
		if r.Intn(4) == 0 {
			f = float64(math.Float32frombits(r.Uint32()))
		}
		f = float64(float32(f))
	}
	if key && f != f {
		f = 7.25 // NaN keys are distinct map entries that all render alike; not generated
	}
	return floatDesc(f, bits)
}

func (g *gen) genString(key bool) string {
	r := g.r
	for {
		var s string
		switch k := r.Intn(100); {
		case k < 55:
			s = pick(r, stringSpecials)
		case k < 75:
			n := 1 + r.Intn(3)
			for i := 0; i < n; i++ {
				s += pick(r, stringSpecials)
			}
		case k < 90:
			n := r.Intn(12)
			b := make([]rune, n)
			for i := range b {
				switch r.Intn(5) {
				case 0:
					b[i] = rune(r.Intn(0x80))
				case 1:
					b[i] = rune(r.Intn(0x800))
				case 2:
					b[i] = rune(0x2000 + r.Intn(0x100))
				case 3:
					b[i] = rune(0x10000 + r.Intn(0x100000))
				default:
					b[i] = rune('a' + r.Intn(26))
				}
			}
			s = string(b)
		default:
			n := r.Intn(8)
			b := make([]byte, n)
			for i := range b {
				b[i] = byte(r.Intn(256))
			}
			s = string(b)
		}
		if key {
			// keys: valid UTF-8 only (two invalid keys may collapse to the same U+FFFD string in any decoder)
			s = strings.ToValidUTF8(s, "?")
			if g.noProtoKey && s == "__proto__" {
				continue
			}
		}
		return s
	}
}

func (g *gen) genTime() any {
	r := g.r
	var t time.Time
	switch k := r.Intn(100); {
	case k < 8:
		t = time.Time{}
	case k < 14:
		t = time.Unix(0, 0)
	case k < 60:
		t = time.Unix(r.Int63n(253402300800), 0) // years 1970..9999
	case k < 75:
		t = time.Unix(-r.Int63n(62135596800), 0) // years 1..1969
	case k < 83:
		// negative and small years (JS expanded years; encoding/json rejects years < 0)
		t = time.Date(-r.Intn(270000), time.Month(1+r.Intn(12)), 1+r.Intn(28), r.Intn(24), r.Intn(60), r.Intn(60), 0, time.UTC)
	case k < 91:
		// years > 9999 inside the JavaScript Date range (+275760-09-13)
		t = time.Date(10000+r.Intn(265000), time.Month(1+r.Intn(12)), 1+r.Intn(28), r.Intn(24), r.Intn(60), r.Intn(60), 0, time.UTC)
	default:
		t = time.Date(pick(r, []int{0, 1, 999, 1000, 9999, 1969, 1970, 2000, 2038}), time.Month(pick(r, []int{1, 2, 12})), pick(r, []int{1, 28, 29, 31}), pick(r, []int{0, 23}), pick(r, []int{0, 59}), pick(r, []int{0, 59}), 0, time.UTC)
	}
	switch k := r.Intn(100); {
	case k < 35:
	case k < 50:
		t = t.Add(time.Duration(r.Intn(1000)) * time.Millisecond)
	case k < 70:
		t = t.Add(time.Duration(pick(r, []int64{1, 999, 1000, 999999, 1000000, 500000, 1500000, 999999999, 123456789, 100000000, 120000000, 999000000})))
	default:
		t = t.Add(time.Duration(r.Int63n(1e9)))
	}
	switch k := r.Intn(100); {
	case k < 45:
		t = t.UTC()
	case k < 80:
		t = t.In(time.FixedZone(pick(r, []string{"", "CET", "X", "EST", "+0530"}), pick(r, []int{3600, -3600, 7200, -5 * 3600, 5*3600 + 1800, 14 * 3600, -12 * 3600, 12*3600 + 45*60, -9*3600 - 1800, 0})))
	case k < 90:
		// negative offsets smaller than one hour
		t = t.In(time.FixedZone("", -pick(r, []int{60, 1800, 2640, 3540})))
	case k < 96:
		// offsets that are not whole minutes (local mean times)
		t = t.In(time.FixedZone("LMT", pick(r, []int{3617, -2670, 1, -1, 59, -17762})))
	default:
		t = t.In(time.FixedZone("UTC", pick(r, []int{3600, -7200})))
	}
	return timeDesc(t)
}

// genValue generates a value description for type t.
func (g *gen) genValue(t reflect.Type, depth int) any {
	r := g.r
	if t == timeType {
		return g.genTime()
	}
	deep := depth <= 0
	switch t.Kind() {
	case reflect.Bool:
		return r.Intn(2) == 0
	case reflect.Int, reflect.Int8, reflect.Int16, reflect.Int32, reflect.Int64:
		return g.genInt(t)
	case reflect.Uint, reflect.Uint8, reflect.Uint16, reflect.Uint32, reflect.Uint64, reflect.Uintptr:
		return g.genUint(t)
	case reflect.Float32, reflect.Float64:
		return g.genFloat(t.Bits(), false)
	case reflect.String:
		return stringDesc(g.genString(false))
	case reflect.Pointer:
		if deep || r.Intn(100) < 25 {
			return nil
		}
		return []any{g.genValue(t.Elem(), depth-1)}
	case reflect.Slice:
		if deep || r.Intn(100) < 15 {
			return nil
		}
		n := 0
		if r.Intn(100) >= 15 {
			n = 1 + r.Intn(4)
			if t.Elem().Kind() == reflect.Uint8 && r.Intn(3) == 0 {
				n = r.Intn(40)
			}
			if t.Elem().Kind() == reflect.Uint8 && r.Intn(12) == 0 {
				// a length at a Base64 / buffer boundary (up to 4098 in the random sweep)
				return bytesDesc(byteBoundaryLens[r.Intn(len(byteBoundaryLens)-5)])
			}
		}
		l := make([]any, n)
		for i := range l {
			l[i] = g.genValue(t.Elem(), depth-1)
		}
		return l
	case reflect.Array:
		l := make([]any, t.Len())
		for i := range l {
			l[i] = g.genValue(t.Elem(), depth-1)
		}
		return l
	case reflect.Map:
		if deep || r.Intn(100) < 15 {
			return nil
		}
		n := 0
		if r.Intn(100) >= 15 {
			n = 1 + r.Intn(5)
		}
		l := make([]any, 0, n)
		for i := 0; i < n; i++ {
			l = append(l, []any{g.genKey(t.Key()), g.genValue(t.Elem(), depth-1)})
		}
		return l
	case reflect.Struct:
		l := make([]any, t.NumField())
		zero := r.Intn(100) < 12 // an all-zero struct exercises omitempty on every field
		for i := range l {
			if zero {
				l[i] = g.genValue(t.Field(i).Type, 0)
				if d := zeroDesc(t.Field(i).Type); d != nil {
					l[i] = d
				}
				continue
			}
			ft := t.Field(i).Type
			if r.Intn(100) < 25 {
				if d := zeroDesc(ft); d != nil {
					l[i] = d
					continue
				}
			}
			l[i] = g.genValue(ft, depth-1)
		}
		return l
	case reflect.Interface:
		if deep || r.Intn(100) < 20 {
			return nil
		}
		d := g.genType(min(depth-1, 2))
		return map[string]any{"t": d.String(), "v": g.genValue(typeOf1(d), depth-1)}
	}
	panic("genValue: unsupported kind " + t.Kind().String())
}

// zeroDesc returns the description of the zero ("empty" for omitempty) value
// of simple types, or nil (also the description of nil pointers etc.) when the
// caller should use nil / generate.
func zeroDesc(t reflect.Type) any {
	if t == timeType {
		return nil
	}
	switch t.Kind() {
	case reflect.Bool:
		return false
	case reflect.Int, reflect.Int8, reflect.Int16, reflect.Int32, reflect.Int64,
		reflect.Uint, reflect.Uint8, reflect.Uint16, reflect.Uint32, reflect.Uint64, reflect.Uintptr:
		return "0"
	case reflect.Float32, reflect.Float64:
		return "0"
	case reflect.String:
		return ""
	case reflect.Slice, reflect.Map:
		return []any{}
	}
	return nil
}

func (g *gen) genKey(t reflect.Type) any {
	r := g.r
	switch t.Kind() {
	case reflect.String:
		return g.genString(true)
	case reflect.Float32, reflect.Float64:
		return g.genFloat(t.Bits(), true)
	case reflect.Complex64, reflect.Complex128:
		parts := []string{"0", "1", "-1", "2", "2.5", "-0.5", "1e+21", "1e-07", "3"}
		return []any{pick(r, parts), pick(r, parts)}
	}
	return g.genValue(t, 0)
}
