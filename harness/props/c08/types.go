package c08

import (
	"encoding/json"
	"fmt"
	"reflect"
	"strconv"
	"time"

	"github.com/open2b/scriggo/native"
)

// ---- static library of named types (reflect cannot create named types,
// unexported fields or methods) ----

type MyInt int
type MyInt8 int8
type MyUint16 uint16
type MyFloat float64
type MyFloat32 float32
type MyString string
type MyBool bool
type MyBytes []byte
type MyU8 uint8
type MyInts []int
type MyStrMap map[string]int
type MyArr [2]string

// StrKey is a string-kind map key with a String method: encoding/json uses the
// raw string, scriggo the Stringer.
type StrKey string

func (k StrKey) String() string { return "<" + string(k) + ">" }

// IntKey is an integer-kind map key with a String method (like time.Month).
type IntKey int

func (k IntKey) String() string { return "#" + strconv.Itoa(int(k)) }

// JSer implements native.JSStringer and native.JSONStringer with value
// receivers, so that *JSer implements them too and a nil *JSer is a value of an
// accepted type. MarshalJSON returns the same text as JSON, which makes
// encoding/json the reference for the JSON context (null for a nil pointer).
type JSer struct{ N int }

func (v JSer) JS() native.JS     { return native.JS("[" + strconv.Itoa(v.N) + ",\"js\"]") }
func (v JSer) JSON() native.JSON { return native.JSON("{\"n\":" + strconv.Itoa(v.N) + "}") }
func (v JSer) MarshalJSON() ([]byte, error) {
	return []byte(v.JSON()), nil
}

// Opts carries the json tag options other than omitempty and names that are
// not valid for encoding/json (which then uses the Go field name).
type Opts struct {
	S    string    `json:"s,string"`
	I    int       `json:"i,string"`
	F    float64   `json:"f,string,omitempty"`
	B    bool      `json:",string"`
	U    uint8     `json:"u,omitempty,string"`
	P    *int      `json:"p,string"`
	L    []int     `json:"l,string"`
	M    MyString  `json:"m,string"`
	Z    int       `json:"z,omitzero"`
	ZT   time.Time `json:"zt,omitzero"`
	ZS   Inner     `json:"zs,omitzero"`
	ZP   *int      `json:"zp,omitzero"`
	ZE   []int     `json:"ze,omitzero"`
	ZB   []int     `json:"zb,omitempty,omitzero"`
	Bad1 int       `json:"x\\y"`
	Bad2 string    `json:"a'b,omitempty"`
	Bad3 bool      `json:"q\"r"`
	Last int
}

// LeadOmit has only omitted members before its first shown one: an unexported
// field, a "-" field, an empty omitempty field and a zero omitzero field.
type LeadOmit struct {
	a int
	B int    `json:"-"`
	C string `json:"c,omitempty"`
	D int    `json:"d,omitzero"`
	E string `json:"e"`
	F *int   `json:"f,omitempty"`
	G string
}

type Inner struct {
	A int
	B string `json:"b,omitempty"`
}

type Unexp struct {
	A int
	b string
	C []int
	d *int
	E bool `json:"e"`
}

type Tagged struct {
	Plain      int
	Renamed    string         `json:"renamed"`
	Omit       int            `json:"omit,omitempty"`
	OmitNoName string         `json:",omitempty"`
	Skip       string         `json:"-"`
	Dash       int            `json:"-,"`
	Other      string         `xml:"o" json:"other_tag,omitempty"`
	OptUnknown bool           `json:"opt,foo,omitempty"`
	NotOmit    int            `json:"notomit,omitemptyx"`
	P          *int           `json:"p,omitempty"`
	S          []string       `json:"s,omitempty"`
	M          map[string]int `json:"m,omitempty"`
	I          any            `json:"i,omitempty"`
	F          float64        `json:"f,omitempty"`
	Arr0       [0]int         `json:"arr0,omitempty"`
	Arr2       [2]int         `json:"arr2,omitempty"`
	St         Inner          `json:"st,omitempty"`
	T          time.Time      `json:"t,omitempty"`
	U          uint8          `json:"u,omitempty"`
	Bo         bool           `json:"bo,omitempty"`
}

type FirstOmit struct {
	A int    `json:"a,omitempty"`
	B string `json:"b,omitempty"`
	C int    `json:"c"`
	D []int  `json:"d,omitempty"`
}

type Emb struct {
	Inner
	X int
}

type EmbPtr struct {
	*Inner
	Y string
}

type EmbTagged struct {
	Inner `json:"in"`
	Z     int
}

type EmbNonStruct struct {
	MyInt
	MyString `json:"ms,omitempty"`
	K        bool
}

type inner2 struct{ Q int }

type EmbUnexp struct {
	inner2
	W int
}

type Node struct {
	Val  int
	Next *Node `json:"next,omitempty"`
	Kids []Node
	M    map[string]*Node `json:"m"`
}

type Times struct {
	T time.Time
	P *time.Time
	L []time.Time          `json:"l,omitempty"`
	M map[string]time.Time `json:"m"`
	I any
}

type Anys struct {
	A any
	B []any
	C map[string]any
	D *any
}

type Mixed struct {
	I8  int8
	I64 int64
	U64 uint64
	Up  uintptr
	F32 float32
	F64 float64
	S   string
	By  []byte
	NB  MyBytes
	Ar  [3]byte
	PP  **int
	MI  map[int]string
	MB  map[bool]int
}

var named = map[string]reflect.Type{
	"MyInt":        reflect.TypeFor[MyInt](),
	"MyInt8":       reflect.TypeFor[MyInt8](),
	"MyUint16":     reflect.TypeFor[MyUint16](),
	"MyFloat":      reflect.TypeFor[MyFloat](),
	"MyFloat32":    reflect.TypeFor[MyFloat32](),
	"MyString":     reflect.TypeFor[MyString](),
	"MyBool":       reflect.TypeFor[MyBool](),
	"MyBytes":      reflect.TypeFor[MyBytes](),
	"MyU8":         reflect.TypeFor[MyU8](),
	"MyInts":       reflect.TypeFor[MyInts](),
	"MyStrMap":     reflect.TypeFor[MyStrMap](),
	"MyArr":        reflect.TypeFor[MyArr](),
	"StrKey":       reflect.TypeFor[StrKey](),
	"IntKey":       reflect.TypeFor[IntKey](),
	"Inner":        reflect.TypeFor[Inner](),
	"Unexp":        reflect.TypeFor[Unexp](),
	"Tagged":       reflect.TypeFor[Tagged](),
	"FirstOmit":    reflect.TypeFor[FirstOmit](),
	"Emb":          reflect.TypeFor[Emb](),
	"EmbPtr":       reflect.TypeFor[EmbPtr](),
	"EmbTagged":    reflect.TypeFor[EmbTagged](),
	"EmbNonStruct": reflect.TypeFor[EmbNonStruct](),
	"EmbUnexp":     reflect.TypeFor[EmbUnexp](),
	"Node":         reflect.TypeFor[Node](),
	"Times":        reflect.TypeFor[Times](),
	"Anys":         reflect.TypeFor[Anys](),
	"Mixed":        reflect.TypeFor[Mixed](),
	"JSer":         reflect.TypeFor[JSer](),
	"Opts":         reflect.TypeFor[Opts](),
	"LeadOmit":     reflect.TypeFor[LeadOmit](),
}

var namedByType = func() map[reflect.Type]string {
	m := map[reflect.Type]string{}
	for n, t := range named {
		m[t] = n
	}
	return m
}()

var (
	timeType  = reflect.TypeFor[time.Time]()
	anyType   = reflect.TypeFor[any]()
	bytesType = reflect.TypeFor[[]byte]()
)

var basic = map[string]reflect.Type{
	"bool": reflect.TypeFor[bool](), "int": reflect.TypeFor[int](), "int8": reflect.TypeFor[int8](),
	"int16": reflect.TypeFor[int16](), "int32": reflect.TypeFor[int32](), "int64": reflect.TypeFor[int64](),
	"uint": reflect.TypeFor[uint](), "uint8": reflect.TypeFor[uint8](), "uint16": reflect.TypeFor[uint16](),
	"uint32": reflect.TypeFor[uint32](), "uint64": reflect.TypeFor[uint64](), "uintptr": reflect.TypeFor[uintptr](),
	"float32": reflect.TypeFor[float32](), "float64": reflect.TypeFor[float64](), "string": reflect.TypeFor[string](),
	"complex64": reflect.TypeFor[complex64](), "complex128": reflect.TypeFor[complex128](),
}

// TDesc is the self-contained JSON description of a Go type.
type TDesc struct {
	K    string  `json:"k"` // basic kind name | ptr | slice | array | map | struct | any | time | named
	E    *TDesc  `json:"e,omitempty"`
	Key  *TDesc  `json:"key,omitempty"`
	N    int     `json:"n,omitempty"`    // array length
	Name string  `json:"name,omitempty"` // named: key of the static library
	F    []FDesc `json:"f,omitempty"`
}

// FDesc is one field of a struct type built with reflect.StructOf.
type FDesc struct {
	N   string `json:"n"`
	T   TDesc  `json:"t"`
	Tag string `json:"tag,omitempty"`
	Emb bool   `json:"emb,omitempty"`
}

func (d TDesc) String() string { b, _ := json.Marshal(d); return string(b) }

// typeOf builds the reflect.Type described by d.
func typeOf(d TDesc) (t reflect.Type, err error) {
	defer func() {
		if r := recover(); r != nil {
			err = fmt.Errorf("typeOf(%s): %v", d, r)
		}
	}()
	return typeOf1(d), nil
}

func typeOf1(d TDesc) reflect.Type {
	if t, ok := basic[d.K]; ok {
		return t
	}
	switch d.K {
	case "any":
		return anyType
	case "time":
		return timeType
	case "named":
		t, ok := named[d.Name]
		if !ok {
			panic("unknown named type " + d.Name)
		}
		return t
	case "ptr":
		return reflect.PointerTo(typeOf1(*d.E))
	case "slice":
		return reflect.SliceOf(typeOf1(*d.E))
	case "array":
		return reflect.ArrayOf(d.N, typeOf1(*d.E))
	case "map":
		return reflect.MapOf(typeOf1(*d.Key), typeOf1(*d.E))
	case "struct":
		fs := make([]reflect.StructField, len(d.F))
		for i, f := range d.F {
			fs[i] = reflect.StructField{Name: f.N, Type: typeOf1(f.T), Tag: reflect.StructTag(f.Tag), Anonymous: f.Emb}
		}
		return reflect.StructOf(fs)
	}
	panic("unknown type kind " + d.K)
}
