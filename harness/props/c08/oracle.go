package c08

import (
	"bytes"
	"encoding/base64"
	"encoding/json"
	"fmt"
	"math"
	"math/big"
	"reflect"
	"sort"
	"strconv"
	"strings"
	"unicode/utf16"

	"github.com/open2b/scriggo/native"

	"verif/oracle/jsvalue"
)

// ---------------------------------------------------------------------------
// JavaScript: the rendering must parse as one expression of the literal
// grammar and evaluate to the data model of the Go value:
//
//	nil pointer / slice / map / interface   null
//	bool                                    boolean
//	integers, floats                        the number (as a JavaScript Number, i.e. rounded to float64);
//	                                        NaN, +Inf, -Inf are the Numbers NaN, Infinity, -Infinity
//	string                                  the string (bytes that are not UTF-8 read as U+FFFD)
//	byte slices                             the Base64 string of the bytes, or the array of the numbers
//	slice, array                            array of the element models
//	map                                     object with one own property per entry, written in sorted key order
//	struct                                  object with one own property per exported field, honouring the
//	                                        json tag (name, omitempty, "-"); an embedded struct is one field
//	                                        named after its type (scriggo's documented JS/JSON struct model)
//	time.Time                               Date with the same instant, truncated to milliseconds
//	pointer, interface                      model of the element
// ---------------------------------------------------------------------------

// classes collects value-class signatures while a value is matched.
type classes map[string]struct{}

func (c classes) add(s string) {
	if c != nil {
		c[s] = struct{}{}
	}
}

// toValid mirrors how a UTF-8 decoder reads a Go string (one U+FFFD per bad byte, as Go and jsvalue do).
func toValid(s string) string { return string([]rune(s)) }

func matchJS(rv reflect.Value, got *jsvalue.Value, path string, cl classes) error {
	bad := func(format string, a ...any) error {
		return fmt.Errorf("at %s: %s", path, fmt.Sprintf(format, a...))
	}
	if !rv.IsValid() {
		cl.add("nil-interface")
		if got.Kind != jsvalue.Null {
			return bad("nil must evaluate to null, got %s", describe(got))
		}
		return nil
	}
	t := rv.Type()
	if t.Implements(jsStringerType) && rv.CanInterface() {
		// the type renders itself: the literal is what its JS method returns;
		// a nil pointer has nothing to call the method on and is null
		cl.add("JSStringer")
		if rv.Kind() == reflect.Pointer && rv.IsNil() {
			cl.add("JSStringer:nil-pointer")
			if got.Kind != jsvalue.Null {
				return bad("nil pointer must evaluate to null, got %s", describe(got))
			}
			return nil
		}
		src := string(rv.Interface().(native.JSStringer).JS())
		want, err := jsvalue.Parse(src)
		if err != nil {
			return bad("harness: JS method returned %q: %v", src, err)
		}
		if !sameJSValue(want, got) {
			return bad("want the value of %s (JS method), got %s", src, describe(got))
		}
		return nil
	}
	if t == timeType {
		tt := rv.Interface().(interface{ UnixMilli() int64 })
		ms := tt.UnixMilli()
		cl.add("time")
		if got.Kind != jsvalue.Date {
			return bad("time.Time must evaluate to a Date, got %s", describe(got))
		}
		if got.Num != float64(ms) {
			return bad("Date time value %v ms (%s), want %d ms", got.Num, got.Str, ms)
		}
		return nil
	}
	switch t.Kind() {
	case reflect.Bool:
		cl.add("bool")
		if got.Kind != jsvalue.Bool || got.Bool != rv.Bool() {
			return bad("want %v, got %s", rv.Bool(), describe(got))
		}
	case reflect.Int, reflect.Int8, reflect.Int16, reflect.Int32, reflect.Int64:
		n := rv.Int()
		switch {
		case n < 0:
			cl.add("int:negative")
		case n > 1<<53:
			cl.add("int:beyond-2^53")
		default:
			cl.add("int")
		}
		if got.Kind != jsvalue.Number || got.Num != float64(n) {
			return bad("want number %d, got %s", n, describe(got))
		}
	case reflect.Uint, reflect.Uint8, reflect.Uint16, reflect.Uint32, reflect.Uint64, reflect.Uintptr:
		n := rv.Uint()
		if n > 1<<53 {
			cl.add("uint:beyond-2^53")
		} else {
			cl.add("uint")
		}
		if got.Kind != jsvalue.Number || got.Num != float64(n) {
			return bad("want number %d, got %s", n, describe(got))
		}
	case reflect.Float32, reflect.Float64:
		f := rv.Float()
		cl.add(floatClass(f, t.Bits()))
		if got.Kind != jsvalue.Number {
			return bad("want number %v, got %s", f, describe(got))
		}
		g := got.Num
		if t.Kind() == reflect.Float32 {
			g = float64(float32(g)) // any decimal that reads back as the same float32 is the same data
		}
		if math.IsNaN(f) {
			if !math.IsNaN(g) {
				return bad("want NaN, got %s", describe(got))
			}
		} else if g != f {
			return bad("want number %v, got %s", f, describe(got))
		}
	case reflect.String:
		s := rv.String()
		cl.add(stringClass(s))
		if got.Kind != jsvalue.String || got.Str != toValid(s) || got.LoneSurrogate {
			return bad("want string %q, got %s", s, describe(got))
		}
	case reflect.Pointer:
		if rv.IsNil() {
			cl.add("ptr:nil")
			if got.Kind != jsvalue.Null {
				return bad("nil pointer must evaluate to null, got %s", describe(got))
			}
			return nil
		}
		cl.add("ptr")
		return matchJS(rv.Elem(), got, path, cl)
	case reflect.Interface:
		if rv.IsNil() {
			cl.add("any:nil")
			if got.Kind != jsvalue.Null {
				return bad("nil interface must evaluate to null, got %s", describe(got))
			}
			return nil
		}
		cl.add("any")
		return matchJS(rv.Elem(), got, path, cl)
	case reflect.Slice:
		if t.Elem().Kind() == reflect.Uint8 {
			// bytes: Base64 string or array of numbers; nil may also be null
			b := rv.Bytes()
			if rv.IsNil() {
				// nil at every level is null: a nil byte slice is no exception
				cl.add("bytes:nil")
				if got.Kind != jsvalue.Null {
					return bad("nil byte slice must evaluate to null, got %s", describe(got))
				}
				return nil
			}
			cl.add("bytes")
			if got.Kind == jsvalue.String {
				if got.Str != base64.StdEncoding.EncodeToString(b) {
					return bad("want Base64 of % x, got %s", b, describe(got))
				}
				return nil
			}
		}
		if rv.IsNil() {
			cl.add("slice:nil")
			if got.Kind != jsvalue.Null {
				return bad("nil slice must evaluate to null, got %s", describe(got))
			}
			return nil
		}
		fallthrough
	case reflect.Array:
		if rv.Len() == 0 {
			cl.add(t.Kind().String() + ":empty")
		} else {
			cl.add(t.Kind().String())
		}
		if got.Kind != jsvalue.Array || len(got.Arr) != rv.Len() {
			return bad("want array of %d elements, got %s", rv.Len(), describe(got))
		}
		for i := 0; i < rv.Len(); i++ {
			if err := matchJS(rv.Index(i), got.Arr[i], path+"["+strconv.Itoa(i)+"]", cl); err != nil {
				return err
			}
		}
	case reflect.Map:
		if rv.IsNil() {
			cl.add("map:nil")
			if got.Kind != jsvalue.Null {
				return bad("nil map must evaluate to null, got %s", describe(got))
			}
			return nil
		}
		if rv.Len() == 0 {
			cl.add("map:empty")
		} else {
			cl.add("map:" + t.Key().Kind().String() + "-key")
			if hasStringMethod(t.Key()) {
				cl.add("map:stringer-key")
			}
		}
		if got.Kind != jsvalue.Object {
			return bad("want object, got %s", describe(got))
		}
		if got.Proto != nil {
			return bad("the key \"__proto__\" in an object literal sets the prototype instead of defining a property (ECMA-262 B.3.1); source keys %q", got.SrcKeys)
		}
		if len(got.SrcKeys) != rv.Len() || len(got.Obj) != rv.Len() {
			return bad("map with %d entries evaluates to an object with %d own properties (written keys %q)", rv.Len(), len(got.Obj), got.SrcKeys)
		}
		if !keysSorted(got.SrcKeys) {
			return bad("object keys are not written in sorted order: %q", got.SrcKeys)
		}
		usedKey := make([]bool, len(got.Obj))
		iter := rv.MapRange()
		for iter.Next() {
			k := iter.Key()
			found := -1
			for i, m := range got.Obj {
				if !usedKey[i] && keyMatches(k, m.Key) {
					found = i
					break
				}
			}
			if found < 0 {
				return bad("no property for map key %v (%s); written keys %q", k.Interface(), t.Key(), got.SrcKeys)
			}
			usedKey[found] = true
			if err := matchJS(iter.Value(), got.Obj[found].Val, path+"["+strconv.Quote(got.Obj[found].Key)+"]", cl); err != nil {
				return err
			}
		}
	case reflect.Struct:
		fields := structModel(rv, cl)
		if got.Kind != jsvalue.Object {
			return bad("want object, got %s", describe(got))
		}
		if got.Proto != nil {
			return bad("the field name \"__proto__\" in an object literal sets the prototype instead of defining a property (ECMA-262 B.3.1)")
		}
		matched := make([]bool, len(fields))
		for ki, key := range got.SrcKeys {
			found := -1
			for i, f := range fields {
				if !matched[i] && (f.name == key || f.alt != "" && f.alt == key) {
					found = i
					break
				}
			}
			if found < 0 {
				return bad("struct with fields %q evaluates to an object written with keys %q (key %d is unexpected or repeated)", fieldNamesOf(fields), got.SrcKeys, ki)
			}
			matched[found] = true
			m, ok := got.Get(key)
			if !ok {
				return bad("property %q written but not defined", key)
			}
			if err := matchJS(fields[found].val, m, path+"."+key, cl); err != nil {
				return err
			}
		}
		for i, f := range fields {
			if !matched[i] && !f.optional {
				return bad("missing property %q (fields %q, written keys %q)", f.name, fieldNamesOf(fields), got.SrcKeys)
			}
		}
	default:
		return bad("type %s is not in the data model of the check", t)
	}
	return nil
}

type field struct {
	name string
	// alt is a second acceptable property name ("" if none): a tag name that
	// encoding/json rejects may be used verbatim or replaced by the Go field name.
	alt string
	// optional: the field has the omitzero option and is zero. The property
	// ties json tags to the JSON context; in JavaScript both readings are accepted.
	optional bool
	val      reflect.Value
}

func fieldNamesOf(fs []field) []string {
	var l []string
	for _, f := range fs {
		n := f.name
		if f.alt != "" {
			n += "|" + f.alt
		}
		if f.optional {
			n += "?"
		}
		l = append(l, n)
	}
	return l
}

// structModel lists the properties of a struct value in JavaScript: exported
// fields, json tag name / omitempty / "-" (as documented for encoding/json).
func structModel(rv reflect.Value, cl classes) []field {
	t := rv.Type()
	var fs []field
	if t.NumField() == 0 {
		cl.add("struct:no-fields")
	}
	for i := 0; i < t.NumField(); i++ {
		sf := t.Field(i)
		if !sf.IsExported() {
			cl.add("struct:unexported-field")
			continue
		}
		f := field{name: sf.Name, val: rv.Field(i)}
		if sf.Anonymous {
			cl.add("struct:embedded-field")
		}
		if tag, ok := sf.Tag.Lookup("json"); ok && tag != "" {
			if tag == "-" {
				cl.add("struct:dash-field")
				continue
			}
			n, opts, _ := strings.Cut(tag, ",")
			omit, omitzero := false, false
			for _, o := range strings.Split(opts, ",") {
				switch o {
				case "omitempty":
					omit = true
				case "omitzero":
					omitzero = true
				case "string":
					cl.add("struct:string-option")
				}
			}
			if omit && isEmpty(f.val) {
				if len(fs) == 0 {
					cl.add("struct:first-field-omitted")
				}
				cl.add("struct:omitted-field")
				continue
			}
			if omit {
				cl.add("struct:omitempty-kept")
			}
			if omitzero {
				if isZero(f.val) {
					cl.add("struct:omitzero-zero")
					f.optional = true
				} else {
					cl.add("struct:omitzero-kept")
				}
			}
			if n != "" {
				if validTagName(n) {
					cl.add("struct:renamed-field")
					f.name = n
				} else {
					cl.add("struct:invalid-tag-name")
					f.alt = n
				}
			}
		}
		fs = append(fs, f)
	}
	return fs
}

// isZero: omitzero omits a field whose value is zero. As in encoding/json the
// TYPE OF THE FIELD decides: if it has an IsZero method the method is called
// (a nil pointer or interface is zero without calling it), otherwise the
// value is omitted if it is the zero value of the type; the dynamic type of
// the value of an interface field does not matter.
func isZero(v reflect.Value) bool {
	type isZeroer interface{ IsZero() bool }
	zt := reflect.TypeOf((*isZeroer)(nil)).Elem()
	t := v.Type()
	switch {
	case t.Kind() == reflect.Interface && t.Implements(zt):
		if v.IsNil() || v.Elem().Kind() == reflect.Pointer && v.Elem().IsNil() {
			return true
		}
		return v.Interface().(isZeroer).IsZero()
	case t.Kind() == reflect.Pointer && t.Implements(zt):
		if v.IsNil() {
			return true
		}
		return v.Interface().(isZeroer).IsZero()
	case t.Implements(zt):
		return v.Interface().(isZeroer).IsZero()
	case reflect.PointerTo(t).Implements(zt):
		if !v.CanAddr() {
			tmp := reflect.New(t).Elem()
			tmp.Set(v)
			v = tmp
		}
		return v.Addr().Interface().(isZeroer).IsZero()
	}
	return v.IsZero()
}

// isEmpty: "false, 0, a nil pointer, a nil interface value, and any array,
// slice, map, or string of length zero" (encoding/json documentation).
func isEmpty(v reflect.Value) bool {
	switch v.Kind() {
	case reflect.Bool:
		return !v.Bool()
	case reflect.Int, reflect.Int8, reflect.Int16, reflect.Int32, reflect.Int64:
		return v.Int() == 0
	case reflect.Uint, reflect.Uint8, reflect.Uint16, reflect.Uint32, reflect.Uint64, reflect.Uintptr:
		return v.Uint() == 0
	case reflect.Float32, reflect.Float64:
		return v.Float() == 0
	case reflect.Array, reflect.Slice, reflect.Map, reflect.String:
		return v.Len() == 0
	case reflect.Pointer, reflect.Interface:
		return v.IsNil()
	}
	return false
}

var stringerType = reflect.TypeFor[fmt.Stringer]()
var jsStringerType = reflect.TypeFor[native.JSStringer]()

// sameJSValue reports whether two evaluated literals are the same data.
func sameJSValue(a, b *jsvalue.Value) bool {
	if a.Kind != b.Kind {
		return false
	}
	switch a.Kind {
	case jsvalue.Bool:
		return a.Bool == b.Bool
	case jsvalue.Number, jsvalue.Date:
		return a.Num == b.Num || a.Num != a.Num && b.Num != b.Num
	case jsvalue.String:
		return a.Str == b.Str && a.LoneSurrogate == b.LoneSurrogate
	case jsvalue.Array:
		if len(a.Arr) != len(b.Arr) {
			return false
		}
		for i := range a.Arr {
			if !sameJSValue(a.Arr[i], b.Arr[i]) {
				return false
			}
		}
	case jsvalue.Object:
		if len(a.Obj) != len(b.Obj) || (a.Proto == nil) != (b.Proto == nil) {
			return false
		}
		for _, m := range a.Obj {
			o, ok := b.Get(m.Key)
			if !ok || !sameJSValue(m.Val, o) {
				return false
			}
		}
	}
	return true
}

func hasStringMethod(t reflect.Type) bool { return t.Implements(stringerType) }

// keyMatches reports whether the property name written for map key k denotes k.
func keyMatches(k reflect.Value, name string) bool {
	if hasStringMethod(k.Type()) {
		// scriggo documents Stringer keys; the raw value is accepted too
		if k.Interface().(fmt.Stringer).String() == name {
			return true
		}
	}
	switch k.Kind() {
	case reflect.String:
		return toValid(k.String()) == name
	case reflect.Bool:
		return strconv.FormatBool(k.Bool()) == name
	case reflect.Int, reflect.Int8, reflect.Int16, reflect.Int32, reflect.Int64:
		return strconv.FormatInt(k.Int(), 10) == name
	case reflect.Uint, reflect.Uint8, reflect.Uint16, reflect.Uint32, reflect.Uint64, reflect.Uintptr:
		return strconv.FormatUint(k.Uint(), 10) == name
	case reflect.Float32, reflect.Float64:
		f, err := strconv.ParseFloat(name, k.Type().Bits())
		if err != nil {
			if ne, ok := err.(*strconv.NumError); !ok || ne.Err != strconv.ErrRange {
				return false
			}
		}
		return f == k.Float()
	case reflect.Complex64, reflect.Complex128:
		c, err := strconv.ParseComplex(name, k.Type().Bits())
		return err == nil && c == k.Complex()
	}
	return false
}

// keysSorted reports whether the keys are strictly increasing in UTF-8 byte
// order or in UTF-16 code unit order (the two orders "sorted" can mean).
func keysSorted(keys []string) bool {
	byBytes := sort.SliceIsSorted(keys, func(i, j int) bool { return keys[i] < keys[j] })
	if byBytes {
		return true
	}
	return sort.SliceIsSorted(keys, func(i, j int) bool {
		a, b := utf16.Encode([]rune(keys[i])), utf16.Encode([]rune(keys[j]))
		for x := 0; x < len(a) && x < len(b); x++ {
			if a[x] != b[x] {
				return a[x] < b[x]
			}
		}
		return len(a) < len(b)
	})
}

func floatClass(f float64, bits int) string {
	p := "float" + strconv.Itoa(bits) + ":"
	switch {
	case math.IsNaN(f):
		return p + "NaN"
	case math.IsInf(f, 0):
		return p + "Inf"
	case f == 0 && math.Signbit(f):
		return p + "-0"
	case f == 0:
		return p + "0"
	case math.Abs(f) >= 1e21:
		return p + "huge"
	case math.Abs(f) < 1e-6:
		return p + "tiny"
	case f == math.Trunc(f):
		return p + "integral"
	case f < 0:
		return p + "negative"
	}
	return p + "fraction"
}

func stringClass(s string) string {
	switch {
	case s == "":
		return "string:empty"
	case toValid(s) != s:
		return "string:invalid-utf8"
	case strings.ContainsAny(s, "\u2028\u2029"):
		return "string:LS-PS"
	case strings.Contains(strings.ToLower(s), "</script") || strings.Contains(s, "<!--"):
		return "string:script-breaking"
	case strings.ContainsAny(s, "\"'\\"):
		return "string:quotes"
	case strings.ContainsAny(s, "<>&"):
		return "string:html-special"
	}
	for _, r := range s {
		if r < 0x20 || r == 0x7f {
			return "string:control"
		}
		if r >= 0x10000 {
			return "string:astral"
		}
		if r >= 0x80 {
			return "string:non-ascii"
		}
	}
	return "string:ascii"
}

func describe(v *jsvalue.Value) string {
	switch v.Kind {
	case jsvalue.Bool:
		return fmt.Sprintf("boolean %v", v.Bool)
	case jsvalue.Number:
		return fmt.Sprintf("number %v", v.Num)
	case jsvalue.String:
		s := fmt.Sprintf("string %q", v.Str)
		if v.LoneSurrogate {
			s += " (with a lone surrogate)"
		}
		return s
	case jsvalue.Array:
		return fmt.Sprintf("array of %d elements", len(v.Arr))
	case jsvalue.Object:
		return fmt.Sprintf("object with keys %q", v.SrcKeys)
	case jsvalue.Date:
		return fmt.Sprintf("Date %v ms", v.Num)
	}
	return v.Kind.String()
}

// ---------------------------------------------------------------------------
// JSON: the rendering must be valid JSON (encoding/json.Valid) and, when
// encoding/json.Marshal accepts the value, decode (UseNumber) to the same data
// as the reference: same structure, same strings, numbers equal as exact
// decimals.
// ---------------------------------------------------------------------------

// jsonRef marshals the value with encoding/json. ok is false when encoding/json
// rejects it (NaN, +-Inf, unsupported key kinds, years outside 0..9999).
func jsonRef(rv reflect.Value) (ref []byte, ok bool, reason string) {
	var v any
	if rv.IsValid() {
		v = rv.Interface()
	}
	b, err := json.Marshal(v)
	if err != nil {
		return nil, false, err.Error()
	}
	return b, true, ""
}

func decodeNumber(b []byte) (any, error) {
	dec := json.NewDecoder(bytes.NewReader(b))
	dec.UseNumber()
	var v any
	if err := dec.Decode(&v); err != nil {
		return nil, err
	}
	if dec.More() {
		return nil, fmt.Errorf("more than one JSON value")
	}
	return v, nil
}

// checkJSON judges one JSON rendering. compared reports whether the data was compared with the reference.
func checkJSON(rv reflect.Value, got string) (compared bool, err error) {
	if !json.Valid([]byte(got)) {
		return false, fmt.Errorf("not valid JSON")
	}
	ref, ok, _ := jsonRef(rv)
	if !ok {
		return false, nil
	}
	gv, err := decodeNumber([]byte(got))
	if err != nil {
		return false, fmt.Errorf("valid JSON that does not decode: %v", err)
	}
	wv, err := decodeNumber(ref)
	if err != nil {
		return false, nil
	}
	if err := sameJSON(wv, gv, "$"); err != nil {
		return true, fmt.Errorf("%v; encoding/json gives %s", err, clip(string(ref), 600))
	}
	// encoding/json documents that map keys are written sorted. Where the
	// reference writes the keys of an object in sorted order (every map) and
	// the rendering does not, the rendering depends on map iteration order.
	if err := sameKeyOrder(ref, []byte(got)); err != nil {
		return true, fmt.Errorf("%v; encoding/json gives %s", err, clip(string(ref), 600))
	}
	return true, nil
}

// keyOrders returns, for every object of the JSON text in document order, the keys as written.
func keyOrders(b []byte) [][]string {
	dec := json.NewDecoder(bytes.NewReader(b))
	dec.UseNumber()
	var out [][]string
	type frame struct {
		obj   bool
		idx   int // index in out
		isKey bool
	}
	var stack []frame
	for {
		tok, err := dec.Token()
		if err != nil {
			return out
		}
		top := len(stack) - 1
		switch t := tok.(type) {
		case json.Delim:
			switch t {
			case '{':
				if top >= 0 && stack[top].obj {
					stack[top].isKey = true
				}
				out = append(out, nil)
				stack = append(stack, frame{obj: true, idx: len(out) - 1, isKey: true})
			case '[':
				if top >= 0 && stack[top].obj {
					stack[top].isKey = true
				}
				stack = append(stack, frame{})
			default:
				stack = stack[:top]
			}
		default:
			if top >= 0 && stack[top].obj {
				if s, ok := tok.(string); ok && stack[top].isKey {
					out[stack[top].idx] = append(out[stack[top].idx], s)
					stack[top].isKey = false
				} else {
					stack[top].isKey = true
				}
			}
		}
	}
}

func sameKeyOrder(ref, got []byte) error {
	r, g := keyOrders(ref), keyOrders(got)
	if len(r) != len(g) {
		return nil // shapes already compared by sameJSON (duplicate keys aside)
	}
	for i := range r {
		if len(r[i]) < 2 || len(r[i]) != len(g[i]) {
			continue
		}
		if sort.StringsAreSorted(r[i]) && !sort.StringsAreSorted(g[i]) {
			return fmt.Errorf("object keys are not written in sorted order: %q", g[i])
		}
	}
	return nil
}

func clip(s string, n int) string {
	if len(s) > n {
		return s[:n] + "..."
	}
	return s
}

func sameJSON(want, got any, path string) error {
	switch w := want.(type) {
	case nil:
		if got != nil {
			return fmt.Errorf("at %s: want null, got %s", path, jsonDescribe(got))
		}
	case bool:
		if g, ok := got.(bool); !ok || g != w {
			return fmt.Errorf("at %s: want %v, got %s", path, w, jsonDescribe(got))
		}
	case string:
		g, ok := got.(string)
		if ok && g != w && sameQuotedJSON(w, g) {
			// a field with the ",string" option: the string holds the JSON text of a scalar, and
			// "1e+22" / "10000000000000000000000" or "\"'\"" / "\"\\u0027\"" are the same scalar
			return nil
		}
		if !ok || g != w {
			return fmt.Errorf("at %s: want string %q, got %s", path, w, jsonDescribe(got))
		}
	case json.Number:
		g, ok := got.(json.Number)
		if !ok || !sameNumber(string(w), string(g)) {
			return fmt.Errorf("at %s: want number %s, got %s", path, w, jsonDescribe(got))
		}
	case []any:
		g, ok := got.([]any)
		if !ok || len(g) != len(w) {
			return fmt.Errorf("at %s: want array of %d elements, got %s", path, len(w), jsonDescribe(got))
		}
		for i := range w {
			if err := sameJSON(w[i], g[i], path+"["+strconv.Itoa(i)+"]"); err != nil {
				return err
			}
		}
	case map[string]any:
		g, ok := got.(map[string]any)
		if !ok {
			return fmt.Errorf("at %s: want object with keys %q, got %s", path, sortedKeys(w), jsonDescribe(got))
		}
		if len(g) != len(w) {
			return fmt.Errorf("at %s: want object with keys %q, got keys %q", path, sortedKeys(w), sortedKeys(g))
		}
		for _, k := range sortedKeys(w) {
			gv, ok := g[k]
			if !ok {
				return fmt.Errorf("at %s: want object with keys %q, got keys %q", path, sortedKeys(w), sortedKeys(g))
			}
			if err := sameJSON(w[k], gv, path+"."+k); err != nil {
				return err
			}
		}
	default:
		return fmt.Errorf("at %s: unexpected reference value %T", path, want)
	}
	return nil
}

// sameQuotedJSON reports whether two different strings are both the JSON text
// of one scalar (number, string, boolean) and denote the same scalar.
func sameQuotedJSON(a, b string) bool {
	scalar := func(s string) (any, bool) {
		if s == "" || strings.TrimSpace(s) != s || !strings.ContainsRune("-0123456789\"tf", rune(s[0])) || !json.Valid([]byte(s)) {
			return nil, false
		}
		v, err := decodeNumber([]byte(s))
		return v, err == nil
	}
	va, ok1 := scalar(a)
	vb, ok2 := scalar(b)
	if !ok1 || !ok2 {
		return false
	}
	switch x := va.(type) {
	case json.Number:
		y, ok := vb.(json.Number)
		return ok && sameNumber(string(x), string(y))
	case string:
		y, ok := vb.(string)
		return ok && x == y
	case bool:
		y, ok := vb.(bool)
		return ok && x == y
	}
	return false
}

func sortedKeys(m map[string]any) []string {
	l := make([]string, 0, len(m))
	for k := range m {
		l = append(l, k)
	}
	sort.Strings(l)
	return l
}

func jsonDescribe(v any) string {
	switch v := v.(type) {
	case nil:
		return "null"
	case json.Number:
		return "number " + clip(string(v), 400)
	case string:
		return fmt.Sprintf("string %q", clip(v, 400))
	case []any:
		return fmt.Sprintf("array of %d elements", len(v))
	case map[string]any:
		return fmt.Sprintf("object with keys %q", sortedKeys(v))
	}
	return fmt.Sprint(v)
}

// sameNumber compares two JSON number texts as exact decimals.
func sameNumber(a, b string) bool {
	if a == b {
		return true
	}
	ra, ok1 := ratOf(a)
	rb, ok2 := ratOf(b)
	return ok1 && ok2 && ra.Cmp(rb) == 0
}

func ratOf(s string) (*big.Rat, bool) {
	// bound the exponent so that a hostile text cannot exhaust memory
	if i := strings.IndexAny(s, "eE"); i >= 0 {
		e, err := strconv.Atoi(s[i+1:])
		if err != nil || e > 400 || e < -400 {
			return nil, false
		}
	}
	if len(s) > 2000 {
		return nil, false
	}
	return new(big.Rat).SetString(s)
}
