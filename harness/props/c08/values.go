package c08

import (
	"encoding/hex"
	"encoding/json"
	"fmt"
	"math"
	"reflect"
	"strconv"
	"time"
	"unicode/utf8"
	"unsafe"
)

// A value is described, relative to its type, by a JSON tree ("VDesc"):
//
//	bool                 JSON bool
//	int*, uint*          decimal string
//	float*               strconv 'g' string ("NaN", "+Inf", "-Inf", "-0", "1e+308", ...)
//	complex*             [re, im] strings
//	string               JSON string if valid UTF-8, else {"hex": "..."}
//	pointer              null | [V]
//	slice                null | [V, ...]         ([]byte kinds too: elements are decimal strings, or {"hex": "..."})
//	array                [V, ...]
//	map                  null | [[K, V], ...]   (insertion order irrelevant)
//	struct               [V, ...] one per field, unexported fields included
//	interface (any)      null | {"t": "<TDesc JSON>", "v": V}
//	time.Time            {"s": "<unix seconds>", "n": "<nanoseconds>", "z": "<zone name>", "o": "<offset seconds>"}

// timeDesc describes a time.Time.
func timeDesc(t time.Time) any {
	name, off := t.Zone()
	return map[string]any{"s": strconv.FormatInt(t.Unix(), 10), "n": strconv.Itoa(t.Nanosecond()), "z": name, "o": strconv.Itoa(off)}
}

func str(v any) (string, error) {
	s, ok := v.(string)
	if !ok {
		return "", fmt.Errorf("want string, have %T", v)
	}
	return s, nil
}

// buildValue constructs the value of type t described by d.
func buildValue(t reflect.Type, d any) (rv reflect.Value, err error) {
	defer func() {
		if r := recover(); r != nil {
			err = fmt.Errorf("buildValue(%s): %v", t, r)
		}
	}()
	rv = reflect.New(t).Elem()
	build(rv, d)
	return rv, nil
}

func must(err error) {
	if err != nil {
		panic(err)
	}
}

// build sets the addressable value rv from d.
func build(rv reflect.Value, d any) {
	t := rv.Type()
	if t == timeType {
		m := d.(map[string]any)
		sec, err := strconv.ParseInt(m["s"].(string), 10, 64)
		must(err)
		ns, err := strconv.ParseInt(m["n"].(string), 10, 64)
		must(err)
		off, err := strconv.Atoi(m["o"].(string))
		must(err)
		name := m["z"].(string)
		loc := time.UTC
		if !(name == "UTC" && off == 0) {
			loc = time.FixedZone(name, off)
		}
		rv.Set(reflect.ValueOf(time.Unix(sec, ns).In(loc)))
		return
	}
	switch t.Kind() {
	case reflect.Bool:
		rv.SetBool(d.(bool))
	case reflect.Int, reflect.Int8, reflect.Int16, reflect.Int32, reflect.Int64:
		n, err := strconv.ParseInt(d.(string), 10, 64)
		must(err)
		if rv.OverflowInt(n) {
			panic("int overflow")
		}
		rv.SetInt(n)
	case reflect.Uint, reflect.Uint8, reflect.Uint16, reflect.Uint32, reflect.Uint64, reflect.Uintptr:
		n, err := strconv.ParseUint(d.(string), 10, 64)
		must(err)
		if rv.OverflowUint(n) {
			panic("uint overflow")
		}
		rv.SetUint(n)
	case reflect.Float32, reflect.Float64:
		rv.SetFloat(parseFloat(d.(string), t.Bits()))
	case reflect.Complex64, reflect.Complex128:
		p := d.([]any)
		rv.SetComplex(complex(parseFloat(p[0].(string), t.Bits()/2), parseFloat(p[1].(string), t.Bits()/2)))
	case reflect.String:
		switch s := d.(type) {
		case string:
			rv.SetString(s)
		case map[string]any:
			b, err := hex.DecodeString(s["hex"].(string))
			must(err)
			rv.SetString(string(b))
		default:
			panic(fmt.Sprintf("bad string description %T", d))
		}
	case reflect.Pointer:
		if d == nil {
			return
		}
		p := reflect.New(t.Elem())
		build(p.Elem(), d.([]any)[0])
		rv.Set(p)
	case reflect.Slice:
		if d == nil {
			return
		}
		if m, ok := d.(map[string]any); ok && t.Elem().Kind() == reflect.Uint8 {
			// compact form of a (long) byte slice: {"hex": "..."}
			b, err := hex.DecodeString(m["hex"].(string))
			must(err)
			s := reflect.MakeSlice(t, len(b), len(b))
			for i, c := range b {
				s.Index(i).SetUint(uint64(c))
			}
			rv.Set(s)
			return
		}
		l := d.([]any)
		s := reflect.MakeSlice(t, len(l), len(l))
		for i, e := range l {
			build(s.Index(i), e)
		}
		rv.Set(s)
	case reflect.Array:
		l := d.([]any)
		if len(l) != t.Len() {
			panic("array length mismatch")
		}
		for i, e := range l {
			build(rv.Index(i), e)
		}
	case reflect.Map:
		if d == nil {
			return
		}
		m := reflect.MakeMap(t)
		for _, kv := range d.([]any) {
			p := kv.([]any)
			k := reflect.New(t.Key()).Elem()
			build(k, p[0])
			e := reflect.New(t.Elem()).Elem()
			build(e, p[1])
			m.SetMapIndex(k, e)
		}
		rv.Set(m)
	case reflect.Struct:
		l := d.([]any)
		if len(l) != t.NumField() {
			panic("struct field count mismatch")
		}
		for i, e := range l {
			f := rv.Field(i)
			if !f.CanSet() { // unexported field
				f = reflect.NewAt(f.Type(), unsafe.Pointer(f.UnsafeAddr())).Elem()
			}
			build(f, e)
		}
	case reflect.Interface:
		if d == nil {
			return
		}
		m := d.(map[string]any)
		var td TDesc
		must(json.Unmarshal([]byte(m["t"].(string)), &td))
		dt := typeOf1(td)
		dv := reflect.New(dt).Elem()
		build(dv, m["v"])
		rv.Set(dv)
	default:
		panic("unsupported kind " + t.Kind().String())
	}
}

func parseFloat(s string, bits int) float64 {
	f, err := strconv.ParseFloat(s, bits)
	if err != nil {
		if ne, ok := err.(*strconv.NumError); !ok || ne.Err != strconv.ErrRange {
			panic(err)
		}
	}
	return f
}

func floatDesc(f float64, bits int) string {
	if f == 0 && math.Signbit(f) {
		return "-0"
	}
	return strconv.FormatFloat(f, 'g', -1, bits)
}

func stringDesc(s string) any {
	if utf8.ValidString(s) {
		return s
	}
	return map[string]any{"hex": hex.EncodeToString([]byte(s))}
}

// goSyntax renders a value for witnesses (bounded, deterministic).
func goSyntax(rv reflect.Value) string {
	if !rv.IsValid() {
		return "nil"
	}
	var s string
	func() {
		defer func() {
			if r := recover(); r != nil {
				s = fmt.Sprintf("<%v>", r)
			}
		}()
		s = fmt.Sprintf("%#v", rv.Interface())
	}()
	if len(s) > 1500 {
		s = s[:1500] + "..."
	}
	return s
}

// bytesDesc describes a byte slice of length n with a fixed, position-dependent content.
func bytesDesc(n int) any {
	b := make([]byte, n)
	for i := range b {
		b[i] = byte(i*31 + 7 + i/251)
	}
	return map[string]any{"hex": hex.EncodeToString(b)}
}

// byteBoundaryLens are the lengths around the places where a Base64 encoder can go wrong:
// the three residues mod 3 at small sizes and around buffer sizes 1024, 2048, 4096 and 65536.
var byteBoundaryLens = []int{0, 1, 2, 3, 4, 5, 6, 1021, 1022, 1023, 1024, 1025, 1026, 1027, 2047, 2048, 2049, 2050,
	3071, 3072, 3073, 4094, 4095, 4096, 4097, 4098, 65534, 65535, 65536, 65537, 65538}
