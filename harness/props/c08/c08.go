// Package c08 checks that values shown in JavaScript and JSON contexts are
// valid literals of the same data.
//
// Workload: random nested Go values (described as self-contained JSON: a type
// description rebuilt with reflect plus a value description) are passed to
// templates through a statically typed global and through an `any`-typed
// global, and rendered in every position scriggo classifies as JavaScript
// (.js files, <script> elements with the JS type variants in .html and .md
// files) or JSON (.json files, JSON-LD scripts).
//
// Oracle (JS): the rendering must parse with verif/oracle/jsvalue (one
// expression of the ECMA-262 literal grammar) and evaluate to the data model of
// the Go value (see oracle.go). Oracle (JSON): encoding/json.Valid, and decoding
// must give the same data as decoding json.Marshal(value) whenever
// encoding/json accepts the value.
package c08

import (
	"bytes"
	"encoding/json"
	"errors"
	"fmt"
	"reflect"
	"sort"
	"strconv"
	"strings"
	"time"
	"unicode/utf8"

	"github.com/open2b/scriggo"
	"github.com/open2b/scriggo/native"

	"verif/core"
	"verif/oracle/jsvalue"
)

type prop struct{}

func init() { core.Register(prop{}) }

func (prop) ID() string    { return "C08" }
func (prop) Level() string { return "exploration" }

// Scopes of open findings (see findings.json).
const (
	scopeEmbedded    = "json-embedded-struct-field"
	scopeStringerKey = "json-stringer-map-key"
	scopeProtoKey    = "js-proto-property-name"
)

type caseData struct {
	Type   TDesc `json:"type"`
	Values []any `json:"values"`
	// NoJSON drops the JSON contexts (the type contains a construct in the scope of an open JSON finding).
	NoJSON bool `json:"no_json,omitempty"`
	// Decl additionally writes every value as template source (typed composite literal of types
	// declared in the template), when it is expressible.
	Decl bool   `json:"decl,omitempty"`
	Note string `json:"note,omitempty"`
}

// ---- contexts ----

type hole struct {
	name string // context name for reports and counters
	json bool
	v    string // "v" (static type) or "w" (any)
}

type script struct {
	open, pre, post string
	json            bool
	v               string
	show            bool // {% show v %} instead of {{ v }}
}

var htmlScripts = []script{
	{open: `<script>`, v: "v"},
	{open: `<script type="text/javascript">`, v: "w"},
	{open: `<script type=" Text/JavaScript ">`, v: "v"},
	{open: `<script type="module">`, v: "v"},
	{open: `<script type="">`, v: "w"},
	{open: `<script type=text/javascript>`, v: "v"},
	{open: `<script async type='text/javascript' defer>`, v: "v"},
	{open: `<script>`, pre: "// it's a comment \"\n/* another ' */ var s = 'x\"y', t = \"y'z\"; var a = [1, ", post: ", 2];", v: "v"},
	{open: `<script language="javascript">`, v: "v", show: true},
	{open: `<script type="module" async>`, pre: "f(", post: ")", v: "w"},
	{open: `<script type="application/ld+json">`, v: "v", json: true},
	{open: `<script type=" APPLICATION/LD+JSON ">`, pre: `{"a": `, post: `}`, v: "w", json: true},
	{open: `<script id="x" type='application/ld+json'>`, v: "v", json: true, show: true},
	{open: `<script type=application/ld+json>`, pre: `[`, post: `]`, v: "v", json: true},
}

var mdScripts = []script{
	{open: `<script>`, pre: "var a = ", post: ";", v: "v"},
	{open: `<script type="application/ld+json">`, v: "w", json: true},
}

func buildDoc(prefix, lead string, scripts []script) (string, []hole) {
	var sb strings.Builder
	var holes []hole
	sb.WriteString(lead)
	for i, s := range scripts {
		h := "{{ " + s.v + " }}"
		if s.show {
			h = "{% show " + s.v + " %}"
		}
		b, e := "/*@B"+strconv.Itoa(i)+"@*/", "/*@E"+strconv.Itoa(i)+"@*/"
		sb.WriteString(s.open + s.pre + b + h + e + s.post + "</script>\n")
		holes = append(holes, hole{name: prefix + ":" + s.open + map[bool]string{true: "{%show%}", false: ""}[s.show], json: s.json, v: s.v})
	}
	return sb.String(), holes
}

var (
	htmlSrc, htmlHoles = buildDoc("html", "<!DOCTYPE html>\n<html><head><title>t</title>\n", htmlScripts)
	mdSrc, mdHoles     = buildDoc("md", "# Title\n\nparagraph *text*\n\n", mdScripts)
	jsSrc, jsHoles     = "var x = /*@B0@*/{{ v }}/*@E0@*/;\nvar y = [/*@B1@*/{{ w }}/*@E1@*/];\n/*@B2@*/{% show v %}/*@E2@*/", []hole{{name: "js-file:{{v}}", v: "v"}, {name: "js-file:{{w}}", v: "w"}, {name: "js-file:{%show%}", v: "v"}}
	// the .json document is judged as a whole and by its members
	jsonSrc = `{"x": {{ v }}, "y": [{{ w }}], "z": {% show v %}}`
)

// between extracts the text of hole i from a rendered document.
func between(out string, i int) (string, bool) {
	b, e := "/*@B"+strconv.Itoa(i)+"@*/", "/*@E"+strconv.Itoa(i)+"@*/"
	p := strings.Index(out, b)
	if p < 0 {
		return "", false
	}
	p += len(b)
	q := strings.Index(out[p:], e)
	if q < 0 {
		return "", false
	}
	return out[p : p+q], true
}

// ---- driver ----

func (prop) Drive(d *core.Driver) error {
	g := &gen{r: d.Rand("gen"), noProtoKey: d.InScope(scopeProtoKey)}
	noEmbJSON, noStrKeyJSON := d.InScope(scopeEmbedded), d.InScope(scopeStringerKey)
	valuesPerCase := 8
	d.T.Rule = "cases = (a) one fixed case per basic kind holding every special value of the kind (extreme ints, " +
		"NaN/Inf/-0/denormal/1e21 floats, context-breaking strings), one per static named type; (b) random types of depth <= 4 " +
		"(all basic kinds, pointers, slices, arrays, maps with every accepted key kind, reflect.StructOf structs with json tags/omitempty/-/embedded fields, " +
		"29 static named types incl. unexported fields, recursive structs, a JSStringer type and json tag options string/omitzero/invalid names, time.Time, any) each with 8 random values (nil at every level). " +
		"Every value is rendered through a statically typed global and an any-typed global in 3 .js holes, 10 HTML <script> JS variants, 1 Markdown script, " +
		"4 JSON-LD script variants, 1 Markdown JSON-LD script and a .json file (3 holes). For the fixed cases and every second random case each value is " +
		"additionally written as template source (typed composite literal; the named types declared with {% type %} in the template) and shown in a JS and a JSON-LD script, " +
		"so that values of compiler-created types are rendered too. evaluations = renderings judged. " +
		"distinct_nontrivial = distinct (js|json|json-valid-only, value class) pairs whose rendering was judged, value classes being the kinds/corner classes met while walking the value (e.g. float64:NaN, map:complex128-key, struct:first-field-omitted, string:LS-PS)"
	d.T.Assumptions = []string{
		"JS oracle is the literal grammar of ECMA-262 as implemented (and unit-tested) in verif/oracle/jsvalue, strict-mode (module) grammar",
		"JSON reference is encoding/json of the pinned toolchain; values it rejects (NaN, Inf, bool/float/complex map keys, years outside 0..9999) are judged for validity only",
		"json tags: name, omitempty, omitzero, string, '-', unknown options, names invalid for encoding/json; effective field names distinct inside a struct; no Marshaler/TextMarshaler types other than time.Time and the JSer type of the harness, no error values",
		"time.Time within the JavaScript Date range (years -270000..275000); map keys: no NaN, valid UTF-8, no uintptr (toString defect owned by C09)",
		"in JS an embedded struct is accepted as one property named after its type (scriggo's model); numbers are compared as JavaScript Numbers (float64), float32 after rounding to float32",
	}
	var cases []core.Case
	add := func(id string, cd caseData) {
		cases = append(cases, core.NewCase(id, cd))
	}
	// (a) fixed cases
	for _, k := range leafKinds {
		t := basic[k]
		var vals []any
		switch t.Kind() {
		case reflect.Bool:
			vals = []any{true, false}
		case reflect.String:
			for _, s := range stringSpecials {
				vals = append(vals, stringDesc(s))
			}
		case reflect.Float32, reflect.Float64:
			for _, f := range floatSpecials {
				if t.Bits() == 32 {
					f = float64(float32(f))
				}
				vals = append(vals, floatDesc(f, t.Bits()))
			}
		case reflect.Int, reflect.Int8, reflect.Int16, reflect.Int32, reflect.Int64:
			for _, n := range intSpecials {
				if !reflect.New(t).Elem().OverflowInt(n) {
					vals = append(vals, strconv.FormatInt(n, 10))
				}
			}
		default:
			for _, n := range uintSpecials {
				if !reflect.New(t).Elem().OverflowUint(n) {
					vals = append(vals, strconv.FormatUint(n, 10))
				}
			}
		}
		add("fixed-"+k, caseData{Type: TDesc{K: k}, Values: vals, Note: "every special value of the kind", Decl: true})
		// the same values as elements of a slice and as map values (comma handling, nesting)
		e := TDesc{K: k}
		add("fixed-slice-"+k, caseData{Type: TDesc{K: "slice", E: &e}, Values: []any{vals}})
	}
	namedAll := make([]string, 0, len(named))
	for n := range named {
		namedAll = append(namedAll, n)
	}
	sort.Strings(namedAll)
	for _, n := range namedAll {
		if n == "StrKey" || n == "IntKey" {
			continue
		}
		g.featEmbedded, g.featStringerKey = false, false
		td := TDesc{K: "named", Name: n}
		switch n {
		case "Emb", "EmbPtr", "EmbUnexp":
			g.featEmbedded = true
		}
		t := typeOf1(td)
		var vals []any
		for i := 0; i < valuesPerCase; i++ {
			vals = append(vals, g.genValue(t, 4))
		}
		add("named-"+n, caseData{Type: td, Values: vals, NoJSON: g.featEmbedded && noEmbJSON || g.featStringerKey && noStrKeyJSON, Decl: true})
	}
	{
		var vals []any
		for i := 0; i < 40; i++ {
			vals = append(vals, g.genTime())
		}
		add("fixed-time", caseData{Type: TDesc{K: "time"}, Values: vals})
	}
	{
		// nil byte slices at the top level and nested; nil pointers to a type whose
		// JS/JSON methods have value receivers; bytes that are not UTF-8 in strings and keys
		u8, jser := TDesc{K: "uint8"}, TDesc{K: "named", Name: "JSer"}
		bs := TDesc{K: "slice", E: &u8}
		pj := TDesc{K: "ptr", E: &jser}
		anyT, strT, intT := TDesc{K: "any"}, TDesc{K: "string"}, TDesc{K: "int"}
		add("fixed-nil-bytes", caseData{Type: TDesc{K: "array", N: 2, E: &bs}, Values: []any{[]any{[]any{"1"}, nil}, []any{nil, []any{}}}})
		add("fixed-nil-bytes-top", caseData{Type: bs, Values: []any{nil, []any{}, []any{"0", "255"}}})
		add("fixed-nil-jser", caseData{Type: pj, Values: []any{nil, []any{[]any{"7"}}}})
		add("fixed-nil-jser-in-any", caseData{Type: TDesc{K: "slice", E: &anyT}, Values: []any{
			[]any{map[string]any{"t": pj.String(), "v": nil}, map[string]any{"t": jser.String(), "v": []any{"1"}}, map[string]any{"t": pj.String(), "v": []any{[]any{"2"}}}},
		}})
		add("fixed-nil-jser-in-slice", caseData{Type: TDesc{K: "slice", E: &pj}, Values: []any{[]any{[]any{[]any{"1"}}, nil}}})
		// byte slices of every boundary length, at the top level (exact []byte, named, []MyU8) and nested in
		// a struct, a map, a slice, a pointer and an interface
		var lens []any
		for _, n := range byteBoundaryLens {
			lens = append(lens, bytesDesc(n))
		}
		mybytes, myu8 := TDesc{K: "named", Name: "MyBytes"}, TDesc{K: "named", Name: "MyU8"}
		add("fixed-bytes-lengths", caseData{Type: bs, Values: lens})
		add("fixed-bytes-lengths-named", caseData{Type: mybytes, Values: lens[:len(lens)-5], Decl: false})
		add("fixed-bytes-lengths-u8", caseData{Type: TDesc{K: "slice", E: &myu8}, Values: lens[:len(lens)-5]})
		pbs := TDesc{K: "ptr", E: &bs}
		nest := TDesc{K: "struct", F: []FDesc{
			{N: "A", T: bs}, {N: "M", T: TDesc{K: "map", Key: &strT, E: &bs}}, {N: "L", T: TDesc{K: "slice", E: &bs}},
			{N: "P", T: pbs, Tag: `json:"p,omitempty"`}, {N: "N", T: mybytes}, {N: "I", T: anyT},
		}}
		var nested []any
		for i := 0; i+5 < len(byteBoundaryLens); i += 3 {
			l := byteBoundaryLens
			nested = append(nested, []any{
				bytesDesc(l[i]),
				[]any{[]any{"k1", bytesDesc(l[i+1])}, []any{"k2", bytesDesc(l[i+2])}},
				[]any{bytesDesc(l[i+3]), nil, bytesDesc(l[i+4])},
				[]any{bytesDesc(l[i+5])},
				bytesDesc(l[i+1]),
				map[string]any{"t": bs.String(), "v": bytesDesc(l[i+2])},
			})
		}
		add("fixed-bytes-lengths-nested", caseData{Type: nest, Values: nested})
		// structs whose first one to three exported fields are omitted ("-", empty omitempty, zero omitzero,
		// unexported) before the first shown member, at every nesting level (field, slice, map, pointer, interface)
		lead := TDesc{K: "named", Name: "LeadOmit"}
		plead := TDesc{K: "ptr", E: &lead}
		lv := func(b, c, d, e string) any { return []any{"9", b, c, d, e, nil, "g"} }
		leadVals := []any{
			lv("1", "", "0", "e"),  // all three leading exported fields omitted
			lv("1", "c", "0", "e"), // only "-" omitted, then one shown, then one omitted
			lv("1", "", "5", ""),   // "-" and omitempty omitted, omitzero shown
			lv("0", "c", "5", "e"), // only "-" omitted
		}
		add("fixed-leading-omitted", caseData{Type: lead, Values: leadVals, Decl: true})
		outer := TDesc{K: "struct", F: []FDesc{
			{N: "A", T: intT, Tag: `json:"-"`},
			{N: "B", T: TDesc{K: "slice", E: &lead}, Tag: `json:"b,omitempty"`},
			{N: "Cc", T: lead, Tag: `json:"c"`},
			{N: "D1", T: TDesc{K: "map", Key: &strT, E: &lead}},
			{N: "E_x", T: plead, Tag: `json:",omitzero"`},
			{N: "Ff", T: anyT},
		}}
		var outerVals []any
		for i := range leadVals {
			x, y := leadVals[i], leadVals[(i+1)%len(leadVals)]
			outerVals = append(outerVals,
				[]any{"3", []any{}, x, []any{[]any{"k", y}, []any{"l", x}}, nil, map[string]any{"t": lead.String(), "v": y}},
				[]any{"3", []any{x, y}, y, nil, []any{x}, map[string]any{"t": plead.String(), "v": []any{x}}})
		}
		add("fixed-leading-omitted-nested", caseData{Type: outer, Values: outerVals, Decl: true})
		add("fixed-leading-omitted-slice", caseData{Type: TDesc{K: "slice", E: &outer}, Values: []any{outerVals}})
		zt := timeDesc(time.Time{})
		t20 := timeDesc(time.Date(2020, 1, 2, 3, 4, 5, 0, time.UTC))
		add("fixed-tag-options", caseData{Type: TDesc{K: "named", Name: "Opts"}, Values: []any{
			[]any{"", "0", "0", false, "0", nil, nil, "", "0", zt, []any{"0", ""}, nil, nil, nil, "0", "", false, "0"},
			[]any{"s<'", "4", "1.5", true, "7", []any{"5"}, []any{"1"}, "m", "3", t20, []any{"1", "b"}, []any{"2"}, []any{}, []any{"9"}, "8", "x", true, "1"},
		}})
		add("fixed-invalid-utf8-key", caseData{Type: TDesc{K: "map", Key: &strT, E: &intT}, Values: []any{
			[]any{[]any{stringDesc("\xff"), "1"}, []any{"a", "2"}}, []any{[]any{stringDesc("a\xe2\x82"), "1"}},
		}})
	}
	// (b) random cases
	n := d.N(600, 36000)
	for i := 0; i < n; i++ {
		g.featEmbedded, g.featStringerKey = false, false
		td := g.genType(1 + g.r.Intn(4))
		t, err := typeOf(td)
		if err != nil {
			return fmt.Errorf("generator produced an unbuildable type: %v", err)
		}
		var vals []any
		for j := 0; j < valuesPerCase; j++ {
			vals = append(vals, g.genValue(t, 4))
		}
		cd := caseData{Type: td, Values: vals, NoJSON: g.featEmbedded && noEmbJSON || g.featStringerKey && noStrKeyJSON, Decl: i%2 == 0}
		if i < 4 {
			d.T.Sample(map[string]any{"type": td, "first_value": vals[0], "go_type": t.String()})
		}
		add("rand-"+strconv.Itoa(i), cd)
	}
	d.T.Set("contexts", contextNames())
	d.T.Set("cases", len(cases))
	// the work of a child is sequential: two Ps are enough (GC), and 16 idle Ps per child only burn system time
	d.Run(cases, core.RunOpts{GOMAXPROCS: 2})
	return nil
}

func contextNames() []string {
	var l []string
	for _, hs := range [][]hole{jsHoles, htmlHoles, mdHoles} {
		for _, h := range hs {
			l = append(l, h.name+" ("+h.v+")")
		}
	}
	return append(l, "json-file:x ({{v}})", "json-file:y[0] ({{w}})", "json-file:z ({%show v%})")
}

// ---- worker ----

// ECMAScript source text is a sequence of Unicode code points and JSON text is
// UTF-8 (RFC 8259, 8.1): bytes that are not UTF-8 are neither; what a consumer
// makes of them depends on its decoder (one U+FFFD per byte, or per maximal
// subpart as browsers do), so the literal no longer denotes one value.
var errNotUTF8 = errors.New("the rendering is not valid UTF-8: not source text / JSON text, and the value a consumer reads depends on how its decoder replaces the invalid bytes (encoding/json writes \\ufffd)")

type templates struct {
	html, md, js, json *scriggo.Template
}

var tmplCache = map[string]*templates{}

func buildTemplates(t reflect.Type, key string) (*templates, error) {
	if ts, ok := tmplCache[key]; ok {
		return ts, nil
	}
	opts := &scriggo.BuildOptions{Globals: native.Declarations{
		"v": reflect.Zero(reflect.PointerTo(t)).Interface(),
		"w": (*any)(nil),
	}}
	ts := &templates{}
	for _, f := range []struct {
		name, src string
		dst       **scriggo.Template
	}{{"index.html", htmlSrc, &ts.html}, {"index.md", mdSrc, &ts.md}, {"index.js", jsSrc, &ts.js}, {"index.json", jsonSrc, &ts.json}} {
		var err error
		pv, panicked, stack := core.Guard(func() {
			*f.dst, err = scriggo.BuildTemplate(scriggo.Files{f.name: []byte(f.src)}, f.name, opts)
		})
		if panicked {
			return nil, fmt.Errorf("BuildTemplate(%s) panicked: %v\n%s", f.name, pv, stack)
		}
		if err != nil {
			return nil, fmt.Errorf("BuildTemplate(%s): %v", f.name, err)
		}
	}
	if len(tmplCache) > 512 {
		tmplCache = map[string]*templates{}
	}
	tmplCache[key] = ts
	return ts, nil
}

type state struct {
	res    core.Result
	counts map[string]int64
	sigs   map[string]struct{}
	evals  int64
	nviol  int
	// firstReject is the first build error of a declared-mode source (diagnostics)
	firstReject string
}

func (st *state) violation(ctx string, td TDesc, vd any, rv reflect.Value, rendered string, err error) {
	st.nviol++
	st.counts["violating_renderings"]++
	if st.res.Status == core.Violation {
		return
	}
	st.res.Status = core.Violation
	vj, _ := json.Marshal(vd)
	st.res.Detail = fmt.Sprintf("context %s\nproblem: %s\ngo type: %s\ntype description: %s\nvalue description: %s\nrendered: %s",
		ctx, clip(err.Error(), 1200), typeString(rv, td), clip(td.String(), 1200), clip(string(vj), 1200), clip(strconv.QuoteToASCII(rendered), 1500))
}

func typeString(rv reflect.Value, td TDesc) string {
	if t, err := typeOf(td); err == nil {
		return t.String()
	}
	return "?"
}

func (prop) Work(c core.Case) core.Result {
	var cd caseData
	c.Decode(&cd)
	st := &state{counts: map[string]int64{}, sigs: map[string]struct{}{}}
	st.res.Status = core.OK
	t, err := typeOf(cd.Type)
	if err != nil {
		return core.Result{Status: core.Inconclusive, Detail: err.Error()}
	}
	ts, err := buildTemplates(t, cd.Type.String())
	if err != nil {
		if strings.Contains(err.Error(), "panicked") {
			return core.Result{Status: core.Violation, Detail: err.Error()}
		}
		// a type that is not accepted for the context is outside the property (static admissibility is C09's)
		return core.Result{Status: core.Skip, Detail: "type not accepted: " + err.Error()}
	}
	for _, vd := range cd.Values {
		rv, err := buildValue(t, vd)
		if err != nil {
			return core.Result{Status: core.Inconclusive, Detail: err.Error()}
		}
		st.oneValue(ts, cd, rv, vd)
	}
	if st.firstReject != "" && st.res.Status == core.OK {
		st.res.Detail = "declared mode: source rejected by the compiler: " + st.firstReject
	}
	st.res.Evals = st.evals
	st.res.Counts = st.counts
	for s := range st.sigs {
		st.res.Sigs = append(st.res.Sigs, s)
	}
	sort.Strings(st.res.Sigs)
	return st.res
}

func (st *state) render(t *scriggo.Template, rv reflect.Value) (string, error) {
	// both globals are passed by pointer (a nil interface cannot be passed by value)
	pv := reflect.New(rv.Type())
	pv.Elem().Set(rv)
	var w any = rv.Interface()
	var buf bytes.Buffer
	var err error
	val, panicked, stack := core.Guard(func() {
		err = t.Run(&buf, map[string]any{"v": pv.Interface(), "w": &w}, nil)
	})
	if panicked {
		return buf.String(), fmt.Errorf("Template.Run panicked: %v\n%s", val, clip(stack, 1500))
	}
	if err != nil {
		return buf.String(), fmt.Errorf("Template.Run failed: %v", err)
	}
	return buf.String(), nil
}

func (st *state) oneValue(ts *templates, cd caseData, rv reflect.Value, vd any) {
	cl := classes{}
	jsOK, jsonCompared, jsonValidOnly := false, false, false
	judgeJS := func(ctx, r string) {
		st.evals++
		st.counts["js_renderings"]++
		if !utf8.ValidString(r) {
			st.violation(ctx, cd.Type, vd, rv, r, errNotUTF8)
			return
		}
		jv, err := jsvalue.Parse(r)
		if err != nil {
			st.violation(ctx, cd.Type, vd, rv, r, fmt.Errorf("not a valid JavaScript literal expression: %v", err))
			return
		}
		if err := matchJS(rv, jv, "$", cl); err != nil {
			st.violation(ctx, cd.Type, vd, rv, r, fmt.Errorf("evaluates to different data: %v", err))
			return
		}
		jsOK = true
	}
	judgeJSON := func(ctx, r string) {
		st.evals++
		st.counts["json_renderings"]++
		if !utf8.ValidString(r) {
			st.violation(ctx, cd.Type, vd, rv, r, errNotUTF8)
			return
		}
		compared, err := checkJSON(rv, r)
		if err != nil {
			st.violation(ctx, cd.Type, vd, rv, r, err)
			return
		}
		if compared {
			st.counts["json_compared_with_encoding_json"]++
			jsonCompared = true
		} else {
			st.counts["json_valid_only_reference_rejects_value"]++
			jsonValidOnly = true
		}
	}
	doc := func(name string, t *scriggo.Template, holes []hole) {
		out, err := st.render(t, rv)
		if err != nil {
			st.evals++
			st.violation(name, cd.Type, vd, rv, out, err)
			return
		}
		for i, h := range holes {
			if h.json && cd.NoJSON {
				continue
			}
			r, ok := between(out, i)
			if !ok {
				st.evals++
				st.violation(h.name, cd.Type, vd, rv, out, fmt.Errorf("markers of hole %d not found in the output (the rendering broke out of its context)", i))
				continue
			}
			st.counts["ctx "+h.name]++
			if h.json {
				judgeJSON(h.name, r)
			} else {
				judgeJS(h.name, r)
			}
		}
	}
	doc("js-file", ts.js, jsHoles)
	doc("html", ts.html, htmlHoles)
	doc("md", ts.md, mdHoles)
	if !cd.NoJSON {
		out, err := st.render(ts.json, rv)
		st.counts["ctx json-file"]++
		if err != nil {
			st.evals++
			st.violation("json-file", cd.Type, vd, rv, out, err)
		} else {
			st.jsonFile(cd, rv, vd, out, judgeJSON)
		}
	}
	if cd.Decl {
		st.declared(cd, rv, vd, judgeJS, judgeJSON)
	}
	for c := range cl {
		if jsOK {
			st.sigs["js|"+c] = struct{}{}
		}
		if jsonCompared {
			st.sigs["json|"+c] = struct{}{}
		}
		if jsonValidOnly {
			st.sigs["json-valid-only|"+c] = struct{}{}
		}
	}
}

// jsonFile judges the rendered .json document {"x": V, "y": [V], "z": V}: the
// members are cut out with a json.Decoder (raw messages) when the document is
// valid; otherwise the whole document is the witness.
func (st *state) jsonFile(cd caseData, rv reflect.Value, vd any, out string, judge func(ctx, r string)) {
	var docv struct {
		X json.RawMessage   `json:"x"`
		Y []json.RawMessage `json:"y"`
		Z json.RawMessage   `json:"z"`
	}
	if !json.Valid([]byte(out)) || json.Unmarshal([]byte(out), &docv) != nil || len(docv.Y) != 1 || docv.X == nil || docv.Z == nil {
		st.evals++
		st.violation("json-file", cd.Type, vd, rv, out, fmt.Errorf("the rendered .json file is not valid JSON of the shape {\"x\": V, \"y\": [V], \"z\": V}"))
		return
	}
	judge("json-file:x", string(docv.X))
	judge("json-file:y[0]", string(docv.Y[0]))
	judge("json-file:z", string(docv.Z))
}

// declared shows the value written as template source (see decl.go).
func (st *state) declared(cd caseData, rv reflect.Value, vd any, judgeJS, judgeJSON func(ctx, r string)) {
	src, ok := declSource(rv)
	if !ok {
		st.counts["declared_mode_not_expressible"]++
		return
	}
	var t *scriggo.Template
	var err error
	pv, panicked, stack := core.Guard(func() {
		t, err = scriggo.BuildTemplate(scriggo.Files{"index.html": []byte(src)}, "index.html", nil)
	})
	if panicked {
		st.evals++
		st.violation("declared:build", cd.Type, vd, rv, src, fmt.Errorf("BuildTemplate panicked: %v\n%s", pv, clip(stack, 1500)))
		return
	}
	if err != nil {
		// the generated source is outside what the compiler accepts: nothing was rendered (not judged here)
		st.counts["declared_mode_build_rejected"]++
		if st.res.Status == core.OK && st.counts["declared_mode_build_rejected"] == 1 {
			st.firstReject = fmt.Sprintf("%v; source: %s", err, clip(src[len(declPreamble):], 400))
		}
		return
	}
	var buf bytes.Buffer
	pv, panicked, stack = core.Guard(func() { err = t.Run(&buf, nil, nil) })
	out := buf.String()
	if panicked || err != nil {
		st.evals++
		st.violation("declared:run", cd.Type, vd, rv, src[len(declPreamble):], fmt.Errorf("Template.Run failed: %v %v\n%s", err, pv, clip(stack, 1500)))
		return
	}
	st.counts["declared_mode_values"]++
	for i, js := range []bool{true, false} {
		if !js && cd.NoJSON {
			continue
		}
		r, ok := between(out, i)
		name := "declared:" + map[bool]string{true: "<script>", false: `<script type="application/ld+json">`}[js]
		if !ok {
			st.evals++
			st.violation(name, cd.Type, vd, rv, out, fmt.Errorf("markers of hole %d not found in the output", i))
			continue
		}
		st.counts["ctx "+name]++
		if js {
			judgeJS(name+" source "+clip(src[len(declPreamble):], 300), r)
		} else {
			judgeJSON(name+" source "+clip(src[len(declPreamble):], 300), r)
		}
	}
}
