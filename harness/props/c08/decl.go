package c08

import (
	"fmt"
	"math"
	"reflect"
	"strconv"
	"strings"
)

// Declared mode: the same value is written as source text. The static named
// types of the library are declared in the template ({% type T ... %}) with the
// same definitions, and the value is a typed composite literal, so the value
// shown has a type created by scriggo's own compiler (defined types, structs
// with unexported fields). The Go twin built with reflect gives the expected data.

// declOrder lists the named types that can be declared in a template, in
// dependency order. Excluded: types with methods (StrKey, IntKey), recursive
// types (Node: template type declarations cannot refer to themselves) and types
// containing time.Time (no way to write a time value without native packages).
var declOrder = []string{"MyInt", "MyInt8", "MyUint16", "MyFloat", "MyFloat32", "MyString", "MyBool", "MyU8", "MyBytes", "MyInts", "MyStrMap", "MyArr",
	"Inner", "inner2", "Unexp", "FirstOmit", "Emb", "EmbPtr", "EmbTagged", "EmbNonStruct", "EmbUnexp", "Anys", "Mixed", "LeadOmit"}

var declTypes = func() map[reflect.Type]string {
	m := map[reflect.Type]string{reflect.TypeFor[inner2](): "inner2"}
	for _, n := range declOrder {
		if t, ok := named[n]; ok {
			m[t] = n
		}
	}
	return m
}()

// declPreamble is the source of the type declarations.
var declPreamble = func() string {
	var sb strings.Builder
	for _, n := range declOrder {
		t, ok := named[n]
		if !ok {
			t = reflect.TypeFor[inner2]()
		}
		sb.WriteString("{% type " + n + " " + typeExpr(t, true) + " %}")
	}
	return sb.String()
}()

var errNoSource = fmt.Errorf("not expressible as template source")

// typeExpr prints t as a Go type expression; underlying prints the definition of a named type.
func typeExpr(t reflect.Type, underlying bool) string {
	if !underlying {
		if n, ok := declTypes[t]; ok {
			return n
		}
		if t.Name() != "" && t.PkgPath() != "" {
			panic(errNoSource)
		}
	}
	if t == anyType {
		return "any"
	}
	switch t.Kind() {
	case reflect.Pointer:
		return "*" + typeExpr(t.Elem(), false)
	case reflect.Slice:
		return "[]" + typeExpr(t.Elem(), false)
	case reflect.Array:
		return "[" + strconv.Itoa(t.Len()) + "]" + typeExpr(t.Elem(), false)
	case reflect.Map:
		return "map[" + typeExpr(t.Key(), false) + "]" + typeExpr(t.Elem(), false)
	case reflect.Struct:
		var sb strings.Builder
		sb.WriteString("struct { ")
		for i := 0; i < t.NumField(); i++ {
			f := t.Field(i)
			if f.Anonymous {
				sb.WriteString(typeExpr(f.Type, false))
			} else {
				sb.WriteString(f.Name + " " + typeExpr(f.Type, false))
			}
			if f.Tag != "" {
				sb.WriteString(" " + quoteSrc(string(f.Tag)))
			}
			sb.WriteString("; ")
		}
		sb.WriteString("}")
		return sb.String()
	case reflect.Interface:
		panic(errNoSource)
	}
	if t.PkgPath() != "" { // definition of a named basic type
		return t.Kind().String()
	}
	return t.String()
}

// quoteSrc quotes s as an interpreted string literal that contains only
// ASCII and none of the characters that delimit template statements.
func quoteSrc(s string) string {
	q := strconv.QuoteToASCII(s)
	q = strings.NewReplacer("{", `\x7b`, "}", `\x7d`, "%", `\x25`, "#", `\x23`).Replace(q)
	return q
}

// literal prints rv as a typed expression of exactly its type, or panics with
// errNoSource. top is true for the shown expression itself.
func literal(rv reflect.Value, top bool) string {
	t := rv.Type()
	if t == timeType {
		panic(errNoSource)
	}
	te := func() string { return typeExpr(t, false) }
	paren := func() string {
		s := te()
		if strings.HasPrefix(s, "*") || strings.HasPrefix(s, "[") || strings.HasPrefix(s, "map") || strings.HasPrefix(s, "struct") {
			return "(" + s + ")"
		}
		return s
	}
	switch t.Kind() {
	case reflect.Bool:
		return te() + "(" + strconv.FormatBool(rv.Bool()) + ")"
	case reflect.Int, reflect.Int8, reflect.Int16, reflect.Int32, reflect.Int64:
		return te() + "(" + strconv.FormatInt(rv.Int(), 10) + ")"
	case reflect.Uint, reflect.Uint8, reflect.Uint16, reflect.Uint32, reflect.Uint64, reflect.Uintptr:
		return te() + "(" + strconv.FormatUint(rv.Uint(), 10) + ")"
	case reflect.Float32, reflect.Float64:
		f := rv.Float()
		if math.IsNaN(f) || math.IsInf(f, 0) || f == 0 && math.Signbit(f) {
			panic(errNoSource) // not constants
		}
		s := strconv.FormatFloat(f, 'g', -1, t.Bits())
		if !strings.ContainsAny(s, ".e") {
			s += ".0"
		}
		return te() + "(" + s + ")"
	case reflect.Complex64, reflect.Complex128:
		c := rv.Complex()
		if real(c) != real(c) || imag(c) != imag(c) || math.IsInf(real(c), 0) || math.IsInf(imag(c), 0) {
			panic(errNoSource)
		}
		b := t.Bits() / 2
		return te() + "(complex(" + strconv.FormatFloat(real(c), 'g', -1, b) + ", " + strconv.FormatFloat(imag(c), 'g', -1, b) + "))"
	case reflect.String:
		return te() + "(" + quoteSrc(rv.String()) + ")"
	case reflect.Pointer:
		if rv.IsNil() {
			return paren() + "(nil)"
		}
		switch t.Elem().Kind() {
		case reflect.Struct, reflect.Slice, reflect.Map, reflect.Array:
			if t.Elem() == timeType || (t.Elem().Kind() == reflect.Slice || t.Elem().Kind() == reflect.Map) && rv.Elem().IsNil() {
				panic(errNoSource)
			}
			return "&" + literal(rv.Elem(), false)
		}
		panic(errNoSource) // no address of a constant
	case reflect.Slice:
		if rv.IsNil() {
			return paren() + "(nil)"
		}
		fallthrough
	case reflect.Array:
		var sb strings.Builder
		sb.WriteString(te() + "{")
		for i := 0; i < rv.Len(); i++ {
			if i > 0 {
				sb.WriteString(", ")
			}
			sb.WriteString(literal(rv.Index(i), false))
		}
		sb.WriteString("}")
		return sb.String()
	case reflect.Map:
		if rv.IsNil() {
			return paren() + "(nil)"
		}
		var sb strings.Builder
		sb.WriteString(te() + "{")
		// deterministic order is not needed for correctness, but keeps sources reproducible
		keys := rv.MapKeys()
		strs := make([]string, len(keys))
		for i, k := range keys {
			strs[i] = literal(k, false) + ": " + literal(rv.MapIndex(k), false)
		}
		sortStrings(strs)
		sb.WriteString(strings.Join(strs, ", "))
		sb.WriteString("}")
		return sb.String()
	case reflect.Struct:
		var sb strings.Builder
		sb.WriteString(te() + "{")
		for i := 0; i < t.NumField(); i++ {
			if i > 0 {
				sb.WriteString(", ")
			}
			f := t.Field(i)
			name := f.Name
			sb.WriteString(name + ": " + literal(rv.Field(i), false))
		}
		sb.WriteString("}")
		return sb.String()
	case reflect.Interface:
		if rv.IsNil() {
			if top {
				panic(errNoSource) // "use of untyped nil"
			}
			return "nil"
		}
		return literal(rv.Elem(), false)
	}
	panic(errNoSource)
}

func sortStrings(l []string) {
	for i := 1; i < len(l); i++ {
		for j := i; j > 0 && l[j] < l[j-1]; j-- {
			l[j], l[j-1] = l[j-1], l[j]
		}
	}
}

// declSource returns the HTML template that declares the types and shows the
// value in a JS script and in a JSON-LD script. ok is false when the value
// cannot be written as source.
func declSource(rv reflect.Value) (src string, ok bool) {
	defer func() {
		if r := recover(); r != nil {
			if r == errNoSource {
				src, ok = "", false
				return
			}
			panic(r)
		}
	}()
	lit := literal(rv, true)
	for strings.Contains(lit, "}}") {
		lit = strings.ReplaceAll(lit, "}}", "} }") // "}}" would end the show statement
	}
	return declPreamble + "\n<script>var a = /*@B0@*/{{ " + lit + " }}/*@E0@*/;</script>\n" +
		`<script type="application/ld+json">/*@B1@*/{{ ` + lit + " }}/*@E1@*/</script>\n", true
}
