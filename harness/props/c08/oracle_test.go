package c08

import (
	"encoding/json"
	"math"
	"reflect"
	"strings"
	"testing"
	"time"

	"verif/core"
	"verif/oracle/jsvalue"
)

func js(t *testing.T, v any, src string) error {
	t.Helper()
	jv, err := jsvalue.Parse(src)
	if err != nil {
		t.Fatalf("Parse(%q): %v", src, err)
	}
	return matchJS(reflect.ValueOf(v), jv, "$", classes{})
}

func TestMatchJSAccepts(t *testing.T) {
	one := 1
	var nilp *int
	tm := time.Date(2016, 1, 2, 15, 4, 5, 123456789, time.FixedZone("", -1800))
	cases := []struct {
		v   any
		src string
	}{
		{true, "true"}, {int8(-5), "-5"}, {uint64(math.MaxUint64), "18446744073709551615"}, {int64(math.MinInt64), "-9223372036854775808"},
		{1.5, "1.5"}, {1e21, "1000000000000000000000"}, {1e21, "1e21"}, {math.Inf(1), "Infinity"}, {math.Inf(-1), "-Infinity"}, {math.NaN(), "NaN"},
		{math.Copysign(0, -1), "-0"}, {float32(0.1), "0.1"}, {float32(0.1), "0.10000000149011612"}, {5e-324, "5e-324"},
		{"a<b", `"a<b"`}, {"a\xffb", "\"a\xffb\""}, {"a\xffb", `"a\ufffdb"`}, {"\u2028", `"\u2028"`}, {"", `''`},
		{[]byte{0, 1, 2, 3, 4, 5}, `"AAECAwQF"`}, {[]byte{1, 2}, "[1,2]"}, {[]byte(nil), "null"}, {MyBytes(nil), "null"}, {MyBytes{1}, "[1]"}, {MyBytes{1}, `"AQ=="`},
		{[]int(nil), "null"}, {[]int{}, "[]"}, {[2]bool{}, "[false,false]"}, {[0]int{}, "[]"},
		{map[string]int(nil), "null"}, {map[string]int{}, "{}"}, {map[string]int{"b": 2, "a": 1}, `{"a":1,"b":2}`}, {map[string]int{"b": 2, "a": 1}, `{a:1,b:2,}`},
		{map[int]string{10: "x", 9: "y", -1: "z"}, `{"-1":"z","10":"x","9":"y"}`}, {map[bool]int{true: 1, false: 0}, `{"false":0,"true":1}`},
		{map[float64]int{1.5: 1, math.Inf(1): 2}, `{"+Inf":2,"1.5":1}`}, {map[complex128]int{1 + 2i: 1, 3 + 2i: 2}, `{"1+2i":1,"3+2i":2}`},
		{map[complex128]int{1 + 2i: 1}, `{"(1+2i)":1}`}, {map[StrKey]int{"a": 1}, `{"<a>":1}`}, {map[StrKey]int{"a": 1}, `{"a":1}`},
		{&one, "1"}, {nilp, "null"}, {[]any{nil, 1, "a"}, `[null,1,"a"]`},
		{Inner{A: 1}, `{"A":1}`}, {Inner{A: 1, B: "x"}, `{"A":1,"b":"x"}`}, {Unexp{A: 1, b: "x", E: true}, `{"A":1,"C":null,"e":true}`},
		{FirstOmit{C: 3}, `{"c":3}`}, {Emb{Inner{1, ""}, 2}, `{"Inner":{"A":1},"X":2}`}, {EmbTagged{Inner{1, ""}, 2}, `{"in":{"A":1},"Z":2}`},
		{EmbUnexp{inner2{1}, 2}, `{"W":2}`}, {EmbPtr{nil, "y"}, `{"Inner":null,"Y":"y"}`},
		{struct {
			A int       `json:"-"`
			B int       `json:"-,"`
			C int       `json:",omitempty"`
			D [0]int    `json:"d,omitempty"`
			E *int      `json:"e,omitempty"`
			F time.Time `json:"f,omitempty"`
		}{1, 2, 0, [0]int{}, nil, time.Time{}}, `{"-":2,"f":new Date("0001-01-01T00:00:00.000Z")}`},
		{tm, `new Date("2016-01-02T15:04:05.123-00:30")`}, {tm, `new Date("2016-01-02T15:34:05.123Z")`}, {&tm, `new Date(1451748845123)`},
		{JSer{3}, `[3,"js"]`}, {&JSer{3}, `[ 3 , 'js' ]`}, {(*JSer)(nil), "null"}, {[]any{(*JSer)(nil), JSer{1}}, `[null,[1,"js"]]`},
		{Opts{I: 4, S: "s", Last: 1}, `{"s":"s","i":4,"B":false,"p":null,"l":null,"m":"","z":0,"zt":new Date("0001-01-01T00:00:00.000Z"),"zs":{"A":0},"zp":null,"ze":null,"x\\y":0,"q\"r":false,"Last":1}`},
		{Opts{I: 4, S: "s", Last: 1}, `{"s":"s","i":4,"B":false,"p":null,"l":null,"m":"","Bad1":0,"Bad3":false,"Last":1}`},
	}
	for _, c := range cases {
		if err := js(t, c.v, c.src); err != nil {
			t.Errorf("matchJS(%#v, %s): %v", c.v, c.src, err)
		}
	}
	if err := matchJS(reflect.Value{}, &jsvalue.Value{Kind: jsvalue.Null}, "$", nil); err != nil {
		t.Error(err)
	}
}

func TestMatchJSRejects(t *testing.T) {
	tm := time.Date(2016, 1, 2, 15, 4, 5, 123456789, time.FixedZone("", -1800))
	cases := []struct {
		v   any
		src string
	}{
		{true, "false"}, {true, "1"}, {1, `"1"`}, {1, "2"}, {-1, "1"}, {int64(1 << 60), "1152921504606846977000"}, {1.5, "1.25"}, {0.1, "0.10000000149011612"},
		{math.NaN(), "null"}, {math.Inf(1), "-Infinity"}, {math.Inf(1), "1.7976931348623157e308"}, {float32(0.1), "0.2"},
		{"a", `"b"`}, {"a", `"a "`}, {"", "null"}, {"x", `"\ud800"`}, {[]byte{1, 2}, `"AQI"`}, {[]byte{1, 2}, `"AQM="`}, {[]byte{1, 2}, `[1,3]`}, {[]byte{}, "null"},
		{[]int(nil), "[]"}, {[]int{}, "null"}, {[]int{1, 2}, "[1]"}, {[]int{1, 2}, "[1,2,3]"}, {[]int{1, 2}, "[1,,2]"}, {[]int{1, 2}, "[2,1]"},
		{map[string]int(nil), "{}"}, {map[string]int{}, "null"}, {map[string]int{"b": 2, "a": 1}, `{"b":2,"a":1}`}, {map[string]int{"b": 2, "a": 1}, `{"a":1}`},
		{map[string]int{"a": 1}, `{"a":1,"a":1}`}, {map[string]int{"a": 1}, `{"a":2}`}, {map[string]int{"a": 1}, `{"A":1}`}, {map[string]int{"__proto__": 1}, `{"__proto__":1}`},
		{map[complex128]int{1 + 2i: 1, 3 + 2i: 2}, `{"2i":1,"2i":2}`}, {map[complex128]int{1 + 2i: 1}, `{"2i":1}`}, {map[float64]int{1.5: 1}, `{"1.25":1}`},
		{map[int]int{1: 1}, `{"01":1}`}, {map[StrKey]int{"a": 1}, `{"b":1}`},
		{Inner{A: 1}, `{"A":1,"b":""}`}, {Inner{A: 1, B: "x"}, `{"A":1}`}, {Inner{A: 1, B: "x"}, `{"A":1,"B":"x"}`}, {Unexp{A: 1, b: "x"}, `{"A":1,"b":"x","C":null,"e":false}`},
		{FirstOmit{C: 3}, `{,"c":3}`[0:0] + `{"a":0,"c":3}`}, {Emb{Inner{1, ""}, 2}, `{"X":2}`},
		{tm, `new Date("2016-01-02T15:04:05.123+00:30")`}, {tm, `new Date("2016-01-02T15:04:05.124-00:30")`}, {tm, `"2016-01-02T15:04:05.123-00:30"`}, {tm, `new Date("nonsense")`},
		{[]any{nil}, "[undefined]"}, {[]any{nil}, "[,]"}, {[]byte(nil), `""`}, {[2][]byte{{1}, nil}, `["AQ==",""]`},
		{JSer{3}, `{"N":3}`}, {(*JSer)(nil), `[0,"js"]`}, {&JSer{3}, `[4,"js"]`},
		{Opts{Last: 1}, `{"s":"","i":0,"B":false,"p":null,"l":null,"m":"","Last":1,"Last":1}`}, {Opts{Last: 1}, `{"s":"","i":0,"B":false,"p":null,"l":null,"m":"","Bad1":0,"x\\y":0,"Last":1}`},
		{Opts{Last: 1}, `{"s":"","i":0,"B":false,"p":null,"l":null,"m":""}`},
	}
	for _, c := range cases {
		if err := js(t, c.v, c.src); err == nil {
			t.Errorf("matchJS(%#v, %s) accepted", c.v, c.src)
		}
	}
}

func TestCheckJSON(t *testing.T) {
	tm := time.Date(2016, 1, 2, 15, 4, 5, 123456789, time.UTC)
	ok := []struct {
		v        any
		src      string
		compared bool
	}{
		{1.5, "1.5", true}, {1e21, "1000000000000000000000", true}, {1e-7, "0.0000001", true}, {int64(math.MaxInt64), "9223372036854775807", true},
		{math.NaN(), "null", false}, {math.Inf(1), `"anything valid"`, false}, {map[bool]int{true: 1}, `{"true":1}`, false},
		{"a<b\xff", `"a<b` + "\xff\"", true}, {"a<b", `"a<b"`, true}, {[]byte{1, 2}, `"AQI="`, true}, {MyBytes(nil), "null", true},
		{tm, `"2016-01-02T15:04:05.123456789Z"`, true}, {time.Date(10000, 1, 1, 0, 0, 0, 0, time.UTC), `"whatever"`, false},
		{Emb{Inner{1, "x"}, 2}, `{"X":2,"b":"x","A":1}`, true}, {FirstOmit{C: 1}, ` { "c" : 1 } `, true}, {map[IntKey]int{1: 2}, `{"1":2}`, true},
		{[]any{nil, map[string]any{"a": []int{}}}, `[null,{"a":[]}]`, true}, {[]map[int]any{{1: map[string]int{"x": 1, "y": 2}, 2: "{"}}, `[{"1":{"x":1,"y":2},"2":"{"}]`, true},
		{struct{ B, A int }{1, 2}, `{"B":1,"A":2}`, true}, {(*JSer)(nil), "null", true},
		{struct {
			F float64 `json:",string"`
		}{1e22}, `{"F":"10000000000000000000000"}`, true},
		{struct {
			S string `json:",string"`
		}{"'<"}, `{"S":"\"\\u0027\\u003c\""}`, true}, {[]JSer{{2}}, `[{"n":2}]`, true},
		{Opts{I: 4, S: "s", ZE: []int{}}, `{"s":"\"s\"","i":"4","B":"false","p":null,"l":null,"m":"\"\"","ze":[],"Bad1":0,"Bad3":false,"Last":0}`, true}, {struct{ B, A int }{1, 2}, `{"A":2,"B":1}`, true}, {float32(0.1), "0.1", true}, {math.Copysign(0, -1), "-0", true}, {math.Copysign(0, -1), "0", true},
	}
	for _, c := range ok {
		compared, err := checkJSON(reflect.ValueOf(c.v), c.src)
		if err != nil || compared != c.compared {
			t.Errorf("checkJSON(%#v, %s) = %v, %v; want %v, nil", c.v, c.src, compared, err, c.compared)
		}
	}
	bad := []struct {
		v   any
		src string
	}{
		{math.NaN(), "NaN"}, {math.Inf(1), "+Inf"}, {math.Inf(1), "Infinity"}, {1, "01"}, {1, "1 2"}, {1, ""}, {"a", `'a'`}, {"a", "\"a\n\""}, {[]int{1}, "[1,]"}, {map[string]int{"a": 1}, `{a:1}`},
		{1.5, "1.25"}, {int64(math.MaxInt64), "9223372036854775808"}, {1, `"1"`}, {"1", "1"}, {[]int(nil), "[]"}, {[]int{}, "null"}, {[]byte(nil), `""`}, {MyBytes{1, 2}, "[1,2]"},
		{tm, `"2016-01-02T15:04:05Z"`}, {Emb{Inner{1, "x"}, 2}, `{"Inner":{"A":1,"b":"x"},"X":2}`}, {map[StrKey]int{"a": 1}, `{"<a>":1}`}, {map[IntKey]int{1: 2}, `{"#1":2}`},
		{Inner{A: 1}, `{"A":1,"b":""}`}, {Unexp{A: 1}, `{"A":1,"b":"","C":null,"d":null,"e":false}`}, {map[string]int{"a": 1, "b": 2}, `{"a":1}`}, {true, "false"}, {nil, "0"},
		{1e21, "1e400"}, {"1e3", `"1000.5"`}, {"1e3", `"1000 "`}, {"x1", `"x01"`}, {`"a"`, `"\"b\""`}, {"true", `"false"`},
		{struct {
			F float64 `json:",string"`
		}{1e22}, `{"F":"10000000000000000000001"}`}, {Opts{I: 4}, `{"s":"","i":4,"B":false,"p":null,"l":null,"m":"","z":0,"x\\y":0,"q\"r":false,"Last":0}`}, {[]JSer{{2}}, `[{"N":2}]`}, {map[string]int{"a": 1, "b": 2}, `{"b":2,"a":1}`}, {[]map[int]any{{1: map[string]int{"x": 1, "y": 2}, 2: nil}}, `[{"1":{"y":2,"x":1},"2":null}]`},
	}
	for _, c := range bad {
		rv := reflect.ValueOf(c.v)
		if _, err := checkJSON(rv, c.src); err == nil {
			t.Errorf("checkJSON(%#v, %s) accepted", c.v, c.src)
		}
	}
}

// Every generated case must rebuild, and the generator must be deterministic.
func TestGeneratorRoundTrip(t *testing.T) {
	run := func(seed int64) []string {
		g := &gen{r: core.Rand(seed, "t")}
		var out []string
		for i := 0; i < 400; i++ {
			td := g.genType(1 + g.r.Intn(4))
			typ, err := typeOf(td)
			if err != nil {
				t.Fatal(err)
			}
			vd := g.genValue(typ, 4)
			// through JSON, as a case travels
			b, err := json.Marshal(caseData{Type: td, Values: []any{vd}})
			if err != nil {
				t.Fatal(err)
			}
			var cd caseData
			if err := json.Unmarshal(b, &cd); err != nil {
				t.Fatal(err)
			}
			typ2, err := typeOf(cd.Type)
			if err != nil || typ2 != typ {
				t.Fatalf("type does not rebuild: %v %v %v", err, typ, typ2)
			}
			rv, err := buildValue(typ2, cd.Values[0])
			if err != nil {
				t.Fatalf("value does not rebuild: %v\n%s", err, b)
			}
			// the twin source, when expressible, must mention no package-qualified name
			if src, ok := declSource(rv); ok && strings.Contains(src, "c08.") {
				t.Fatalf("package-qualified name in source: %s", src)
			}
			out = append(out, string(b))
		}
		return out
	}
	a, b := run(5), run(5)
	for i := range a {
		if a[i] != b[i] {
			t.Fatalf("generator is not deterministic at %d", i)
		}
	}
}

func TestBuildValue(t *testing.T) {
	typ := reflect.TypeFor[Unexp]()
	rv, err := buildValue(typ, []any{"7", "x", []any{"1", "2"}, []any{"3"}, true})
	if err != nil {
		t.Fatal(err)
	}
	u := rv.Interface().(Unexp)
	if u.A != 7 || u.b != "x" || len(u.C) != 2 || u.d == nil || *u.d != 3 || !u.E {
		t.Errorf("%+v", u)
	}
	rv, err = buildValue(timeType, timeDesc(time.Date(2020, 1, 2, 3, 4, 5, 6, time.FixedZone("X", -1800))))
	if err != nil {
		t.Fatal(err)
	}
	tt := rv.Interface().(time.Time)
	if n, off := tt.Zone(); n != "X" || off != -1800 || tt.Nanosecond() != 6 || tt.Hour() != 3 {
		t.Errorf("%v", tt)
	}
	rv, _ = buildValue(reflect.TypeFor[string](), map[string]any{"hex": "ff41"})
	if rv.String() != "\xffA" {
		t.Errorf("%q", rv.String())
	}
	rv, _ = buildValue(reflect.TypeFor[float64](), "-0")
	if !math.Signbit(rv.Float()) {
		t.Error("-0")
	}
}
