package c28

import (
	_ "embed"
	"encoding/json"
)

//go:embed findings.json
var findingsJSON []byte

// openScopes lists the scope names (violation classes) of the open findings
// shipped with the check; the driver tolerates a class only while
// known_findings.json still lists it as open.
var openScopes = func() []string {
	var fs []struct {
		Status string `json:"status"`
		Scope  string `json:"scope"`
	}
	if err := json.Unmarshal(findingsJSON, &fs); err != nil {
		panic("c28: bad findings.json: " + err.Error())
	}
	var out []string
	for _, f := range fs {
		if f.Status == "open" && f.Scope != "" {
			out = append(out, f.Scope)
		}
	}
	return out
}()
