// Package c28 checks astutil.CloneTree/CloneNode/CloneExpression (an
// independent, structurally equal copy) and astutil.Walk/Inspect (every node
// exactly once) on every node of the trees parsed from the repository corpora
// and from generated programs and templates.
//
// Oracles (package astrefl, pure reflection, independent of astutil): structural
// comparison ignoring positions; census of every pointer and slice backing
// array reachable from original and clone; exhaustive mutation of the clone
// with a fingerprint (and astutil.Dump) of the original before and after;
// census of the direct children of every node against the nodes Walk hands to
// the visitor, and of the whole tree against a full Walk and Inspect.
//
// Violations are attributed to the smallest node that shows them and keyed by
// a class such as "clone-panic:Break" or "walk-miss:Call.Func".
package c28

import (
	"bytes"
	"fmt"
	"sort"
	"strings"
	"time"

	"github.com/open2b/scriggo/ast"
	"github.com/open2b/scriggo/ast/astutil"

	"verif/core"
	"verif/gen/astgen"
	"verif/oracle/astrefl"
)

type prop struct{}

func init() { core.Register(prop{}) }

func (prop) ID() string    { return "C28" }
func (prop) Level() string { return "exploration" }

// CaseData is one batch of sources.
type CaseData struct {
	Sources []astgen.Source `json:"sources"`
	// Tolerate lists violation classes recorded as open findings: they are
	// counted, not reported.
	Tolerate []string `json:"tolerate,omitempty"`
}

func (prop) Drive(d *core.Driver) error {
	repo := astgen.RepoDir()
	want, err := astgen.NodeTypes(repo)
	if err != nil {
		return err
	}
	corpus, err := astgen.Corpus(repo)
	if err != nil {
		return err
	}
	var tolerate []string
	for _, k := range knownScopes(d) {
		tolerate = append(tolerate, k)
	}
	// corpus: quick takes a seeded sample, thorough everything
	r := d.Rand("corpus")
	nCorpus := d.N(700, len(corpus))
	if nCorpus > len(corpus) {
		nCorpus = len(corpus)
	}
	perm := r.Perm(len(corpus))[:nCorpus]
	sort.Ints(perm)
	var srcs []astgen.Source
	for _, i := range perm {
		srcs = append(srcs, corpus[i])
	}
	g := astgen.NewGen(d.Rand("gen"))
	srcs = append(srcs, g.Generate(d.N(1600, 80000), "gen")...)
	var cases []core.Case
	const batch = 12
	for i := 0; i < len(srcs); i += batch {
		j := i + batch
		if j > len(srcs) {
			j = len(srcs)
		}
		cases = append(cases, core.NewCase(fmt.Sprintf("batch-%d", i/batch), CaseData{Sources: srcs[i:j], Tolerate: tolerate}))
	}
	d.T.Rule = "every tree parsed (VerifParseProgram, VerifParseTemplateSource, BuildTemplate's expanded tree) from a seeded sample of the repository corpora (test/compare/testdata programs and templates, string literals of the *_test.go files) and from grammar-generated programs, templates, statement lists and expressions; on every node of every tree: CloneNode (and CloneExpression) compared reflectively with the node, pointer census original vs clone, exhaustive mutation of the clone against a fingerprint of the original, Walk's direct children against the reflective children; on every tree: CloneTree, full Walk and Inspect census. distinct_nontrivial counts distinct node types cloned (clone:T), node types walked (walk:T) and parent→child edges seen (edge:T.Field)"
	d.T.Assumptions = []string{
		"trees are parse-stage trees: fields filled by the type checker (IR, Upvars, Reflect) are not compared",
		"Walk is documented not to descend the expanded trees of Import, Extends and Render; the census follows that",
		"reflect reaches every field of the ast structs (it does: the traversal is generic over struct fields)",
	}
	d.T.Sample(map[string]any{"source": srcs[0].Name, "kind": srcs[0].Kind})
	if len(srcs) > nCorpus {
		d.T.Sample(srcs[nCorpus])
		d.T.Sample(srcs[nCorpus+2])
	}
	// the largest corpus files have 80 000 nodes: give a case ten minutes of wall
	// clock before the watchdog (whose firing is only ever inconclusive)
	res := d.Run(cases, core.RunOpts{CaseWall: 10 * time.Minute})
	// node-type coverage
	seen := map[string]bool{}
	for _, r := range res {
		for _, s := range r.Sigs {
			if strings.HasPrefix(s, "clone:") {
				seen[strings.TrimPrefix(s, "clone:")] = true
			}
		}
	}
	var missing []string
	for _, w := range want {
		if !seen[w] {
			missing = append(missing, w)
		}
	}
	d.T.Set("ast_node_types", len(want))
	d.T.Set("ast_node_types_observed", len(want)-len(missing))
	d.T.Set("ast_node_types_never_observed", missing)
	d.T.Set("sources", map[string]int{"corpus_total": len(corpus), "corpus_used": nCorpus, "generated": len(srcs) - nCorpus})
	d.T.Set("tolerated_classes", tolerate)
	return nil
}

// knownScopes returns the violation classes listed as open findings.
func knownScopes(d *core.Driver) []string {
	var out []string
	for _, c := range allClasses {
		if d.InScope(c) {
			out = append(out, c)
		}
	}
	return out
}

// allClasses is filled from findings.json scope names (see findings.go).
var allClasses = openScopes

type violation struct {
	class  string
	detail string
}

type worker struct {
	tolerate map[string]bool
	viol     []violation
	seenCls  map[string]bool
	sigs     map[string]struct{}
	counts   map[string]int64
	evals    int64
}

// report records a violation of the given class; it returns false when the
// class is an open finding (counted, not reported).
func (w *worker) report(class, detail string) bool {
	if w.tolerate[class] {
		w.counts["tolerated:"+class]++
		return false
	}
	w.counts["violations"]++
	w.counts["class:"+class]++
	if w.seenCls[class] {
		return true
	}
	w.seenCls[class] = true
	w.viol = append(w.viol, violation{class, detail})
	return true
}

func (prop) Work(c core.Case) core.Result {
	var cd CaseData
	c.Decode(&cd)
	w := &worker{tolerate: map[string]bool{}, seenCls: map[string]bool{}, sigs: map[string]struct{}{}, counts: map[string]int64{}}
	for _, t := range cd.Tolerate {
		w.tolerate[t] = true
	}
	for _, src := range cd.Sources {
		trees, st := astgen.Parse(src)
		w.counts["sources"]++
		w.counts["rejected_interpretations"] += int64(st.Rejected)
		w.counts["parser_panics"] += int64(len(st.ParsePanic))
		for _, p := range trees {
			w.tree(src, p)
		}
	}
	res := core.Result{Status: core.OK, Evals: w.evals, Counts: w.counts}
	for s := range w.sigs {
		res.Sigs = append(res.Sigs, s)
	}
	sort.Strings(res.Sigs)
	if w.evals == 0 {
		res.Status = core.Skip
		res.Detail = "no interpretation of the sources parsed"
	}
	if len(w.viol) > 0 {
		res.Status = core.Violation
		var b strings.Builder
		for i, v := range w.viol {
			if i >= 12 {
				fmt.Fprintf(&b, "… and %d more classes\n", len(w.viol)-i)
				break
			}
			fmt.Fprintf(&b, "[%s] %s\n", v.class, v.detail)
		}
		res.Detail = b.String()
	}
	return res
}

func where(src astgen.Source, p astgen.Parsed, n ast.Node) string {
	pos := "-"
	if !astrefl.IsNilNode(n) {
		if pp := safePos(n); pp != nil {
			pos = pp.String()
		}
	}
	return fmt.Sprintf("source %q (%s) node %s at %s", p.Name, p.Origin, astrefl.TypeName(n), pos)
}

func safePos(n ast.Node) (p *ast.Position) {
	defer func() { recover() }()
	return n.Pos()
}

func snippet(src astgen.Source, p astgen.Parsed) string {
	var s string
	switch src.Kind {
	case "stmts", "expr":
		s = src.Text
	default:
		for name, text := range src.Files {
			if strings.HasSuffix(p.Name, name) || len(src.Files) == 1 {
				s = text
			}
		}
	}
	return core.Truncate(s, 300)
}

var cloneOpts = astrefl.Options{}
var walkOpts = astrefl.Options{SkipTrees: true}

// tree runs every oracle on one parsed tree.
func (w *worker) tree(src astgen.Source, p astgen.Parsed) {
	nodes, _ := astrefl.Nodes(p.Tree, cloneOpts)
	w.counts["trees"]++
	w.counts["nodes"] += int64(len(nodes))

	// --- clone, node by node (bottom-up attribution)
	status := make([]byte, len(nodes)) // 0 ok, 1 bad
	const workBudget = 600000
	work := 0
	for i := len(nodes) - 1; i >= 0; i-- {
		n := nodes[i].Node
		tn := astrefl.TypeName(n)
		w.sigs["clone:"+tn] = struct{}{}
		if nodes[i].Edge != "" {
			w.sigs["edge:"+nodes[i].Edge] = struct{}{}
		}
		w.evals++
		// has a descendant already failed? then this node's failure is not minimal
		childBad := false
		for j := i + 1; j < len(nodes) && nodes[j].Depth > nodes[i].Depth; j++ {
			if status[j] != 0 {
				childBad = true
				break
			}
		}
		if childBad {
			status[i] = 1
			continue
		}
		// Every oracle below costs time proportional to the subtree, so a very
		// deep tree (a chain of thousands of operators) costs the square of its
		// size: once the tree has used its budget only small subtrees and the
		// top levels are still judged node by node; the whole-tree oracles
		// further down always run.
		size := 1
		for j := i + 1; j < len(nodes) && nodes[j].Depth > nodes[i].Depth; j++ {
			size++
		}
		if work > workBudget && size > 64 && nodes[i].Depth > 1 {
			w.counts["nodes_skipped_large_subtree_after_budget"]++
			continue
		}
		work += size
		var clone ast.Node
		val, panicked, stack := core.Guard(func() { clone = astutil.CloneNode(n) })
		if panicked {
			status[i] = 1
			w.report("clone-panic:"+tn, fmt.Sprintf("CloneNode panicked: %v; %s; source: %s\n%s", val, where(src, p, n), snippet(src, p), firstFrames(stack)))
			continue
		}
		w.counts["nodes_cloned"]++
		if diff := astrefl.Diff(n, clone, cloneOpts); diff != "" {
			status[i] = 1
			w.report("clone-diff:"+tn+diffField(diff), fmt.Sprintf("clone differs from original at %s; %s; source: %s", diff, where(src, p, n), snippet(src, p)))
			continue
		}
		if e, ok := n.(ast.Expression); ok {
			var ce ast.Expression
			val, panicked, _ := core.Guard(func() { ce = astutil.CloneExpression(e) })
			if panicked {
				status[i] = 1
				w.report("cloneexpr-panic:"+tn, fmt.Sprintf("CloneExpression panicked: %v; %s; source: %s", val, where(src, p, n), snippet(src, p)))
				continue
			}
			if diff := astrefl.Diff(n, ce, cloneOpts); diff != "" {
				status[i] = 1
				w.report("cloneexpr-diff:"+tn+diffField(diff), fmt.Sprintf("CloneExpression result differs at %s; %s; source: %s", diff, where(src, p, n), snippet(src, p)))
				continue
			}
		}
		if shared := astrefl.Shared(n, clone, cloneOpts); len(shared) > 0 {
			status[i] = 1
			w.report("clone-shared:"+tn, fmt.Sprintf("clone shares memory with the original: %s; %s; source: %s", strings.Join(first(shared, 3), "; "), where(src, p, n), snippet(src, p)))
			continue
		}
		// mutation of the clone must not be visible in the original (only worth
		// doing at the roots of maximal healthy subtrees and on small nodes: the
		// pointer census above already covers every node)
		if nodes[i].Depth <= 2 || i%7 == 0 {
			before := astrefl.Fingerprint(n)
			muts := astrefl.Mutate(clone)
			w.counts["mutations"] += int64(muts)
			if after := astrefl.Fingerprint(n); after != before {
				status[i] = 1
				w.report("clone-mutation:"+tn, fmt.Sprintf("mutating the clone changed the original; %s; first difference at byte %d: %s", where(src, p, n), firstDiff(before, after), core.Truncate(after[firstDiff(before, after):], 120)))
			}
		}
	}

	// --- whole tree clone
	{
		var clone *ast.Tree
		var dumpBefore string
		dumpOK := false
		core.Guard(func() {
			var buf bytes.Buffer
			if astutil.Dump(&buf, p.Tree) == nil {
				dumpBefore, dumpOK = buf.String(), true
			}
		})
		fpBefore := astrefl.Fingerprint(p.Tree)
		val, panicked, _ := core.Guard(func() { clone = astutil.CloneTree(p.Tree) })
		w.evals++
		if panicked {
			if status[0] == 0 {
				w.report("clonetree-panic", fmt.Sprintf("CloneTree panicked (%v) although every node clones: %s", val, where(src, p, p.Tree)))
			}
		} else {
			w.counts["trees_cloned"]++
			if status[0] == 0 {
				if diff := astrefl.Diff(p.Tree, clone, cloneOpts); diff != "" {
					w.report("clonetree-diff", fmt.Sprintf("CloneTree result differs at %s; %s", diff, where(src, p, p.Tree)))
				}
			}
			if shared := astrefl.Shared(p.Tree, clone, cloneOpts); len(shared) > 0 && status[0] == 0 {
				w.report("clonetree-shared", fmt.Sprintf("CloneTree result shares memory with the original: %s; %s", strings.Join(first(shared, 3), "; "), where(src, p, p.Tree)))
			}
			w.counts["mutations"] += int64(astrefl.Mutate(clone))
			if after := astrefl.Fingerprint(p.Tree); after != fpBefore && status[0] == 0 {
				w.report("clonetree-mutation", fmt.Sprintf("mutating the CloneTree result changed the original; %s", where(src, p, p.Tree)))
			}
			if dumpOK {
				core.Guard(func() {
					var buf bytes.Buffer
					if astutil.Dump(&buf, p.Tree) == nil && buf.String() != dumpBefore && status[0] == 0 {
						w.report("clonetree-mutation-dump", fmt.Sprintf("astutil.Dump of the original changed after mutating the clone; %s", where(src, p, p.Tree)))
					}
				})
				w.counts["dump_compared"]++
			}
		}
	}

	// --- walk, node by node: the nodes handed to the visitor when only the
	// root is entered must be exactly the reflective direct children
	wnodes, _ := astrefl.Nodes(p.Tree, walkOpts)
	walkBad := false
	bad := func(class, detail string) {
		if w.report(class, detail) {
			walkBad = true
		}
	}
	walked := map[uintptr][]ast.Node{} // what Walk hands to the visitor below each node
	for _, ref := range wnodes {
		n := ref.Node
		tn := astrefl.TypeName(n)
		w.sigs["walk:"+tn] = struct{}{}
		w.evals++
		want := astrefl.Children(n, walkOpts)
		var got []ast.Node
		v := &rootVisitor{root: n}
		val, panicked, stack := core.Guard(func() { astutil.Walk(v, n) })
		got = v.children
		if panicked {
			bad("walk-panic:"+tn, fmt.Sprintf("Walk panicked on a %s node: %v; %s; source: %s\n%s", tn, val, where(src, p, n), snippet(src, p), firstFrames(stack)))
			continue
		}
		if v.rootVisits != 1 {
			bad("walk-root:"+tn, fmt.Sprintf("Walk called Visit(root) %d times; %s", v.rootVisits, where(src, p, n)))
		}
		gotCount := map[uintptr]int{}
		for _, g := range got {
			if !astrefl.IsNilNode(g) {
				walked[astrefl.NodePointer(n)] = append(walked[astrefl.NodePointer(n)], g)
			}
			if astrefl.IsNilNode(g) {
				edge := nilEdge(want)
				bad("walk-nil:"+edge, fmt.Sprintf("Walk handed a nil %T to the visitor (edge %s is nil); %s; source: %s", g, edge, where(src, p, n), snippet(src, p)))
				continue
			}
			gotCount[astrefl.NodePointer(g)]++
		}
		wantSet := map[uintptr]bool{}
		for _, c := range want {
			if c.NilPtr {
				continue
			}
			ptr := astrefl.NodePointer(c.Node)
			wantSet[ptr] = true
			switch gotCount[ptr] {
			case 1:
			case 0:
				bad("walk-miss:"+c.Edge, fmt.Sprintf("Walk never visits the %s child reached through %s; %s; source: %s", astrefl.TypeName(c.Node), c.Edge, where(src, p, n), snippet(src, p)))
			default:
				bad("walk-twice:"+c.Edge, fmt.Sprintf("Walk visits the %s child reached through %s %d times; %s", astrefl.TypeName(c.Node), c.Edge, gotCount[ptr], where(src, p, n)))
			}
		}
		for _, g := range got {
			if !astrefl.IsNilNode(g) && !wantSet[astrefl.NodePointer(g)] {
				bad("walk-extra:"+tn, fmt.Sprintf("Walk visits a %s that is not a direct child of the %s; %s", astrefl.TypeName(g), tn, where(src, p, n)))
			}
		}
	}

	// --- whole tree: Walk and Inspect census (exactly once)
	if !walkBad {
		w.evals++
		// The nodes a full Walk must reach: the closure, from the root, of the
		// children Walk hands to the visitor node by node. Without open findings
		// this is every node of the tree (the loop above has just checked it);
		// with tolerated walk-miss classes it leaves out what hangs below a
		// never-visited child.
		var expected []astrefl.NodeRef
		{
			byPtr := map[uintptr]astrefl.NodeRef{}
			for _, ref := range wnodes {
				byPtr[astrefl.NodePointer(ref.Node)] = ref
			}
			seen := map[uintptr]bool{}
			var visit func(ptr uintptr)
			visit = func(ptr uintptr) {
				if seen[ptr] {
					return
				}
				seen[ptr] = true
				if ref, ok := byPtr[ptr]; ok {
					expected = append(expected, ref)
				}
				for _, c := range walked[ptr] {
					visit(astrefl.NodePointer(c))
				}
			}
			visit(astrefl.NodePointer(p.Tree))
			w.counts["nodes_below_tolerated_walk_miss"] += int64(len(wnodes) - len(expected))
		}
		for _, mode := range []string{"Walk", "Inspect"} {
			count := map[uintptr]int{}
			nilVisits := 0
			f := func(n ast.Node) bool {
				if n == nil {
					return false
				}
				if astrefl.IsNilNode(n) {
					nilVisits++
					return true
				}
				count[astrefl.NodePointer(n)]++
				return true
			}
			val, panicked, _ := core.Guard(func() {
				if mode == "Walk" {
					astutil.Walk(funcVisitor(f), p.Tree)
				} else {
					astutil.Inspect(p.Tree, f)
				}
			})
			if panicked {
				w.report("walktree-panic", fmt.Sprintf("%s panicked on the whole tree though every node walks: %v; %s", mode, val, where(src, p, p.Tree)))
				continue
			}
			for _, ref := range expected {
				if c := count[astrefl.NodePointer(ref.Node)]; c != 1 {
					w.report("walktree-count", fmt.Sprintf("%s visited the %s node reached through %s %d times; %s", mode, astrefl.TypeName(ref.Node), ref.Edge, c, where(src, p, ref.Node)))
					break
				}
			}
			if len(count) != len(expected) {
				w.report("walktree-count", fmt.Sprintf("%s visited %d distinct nodes, %d are reachable; %s", mode, len(count), len(expected), where(src, p, p.Tree)))
			}
			w.counts["walk_visits"] += int64(len(count))
		}
		w.counts["trees_walked"]++
	}
}

// rootVisitor enters only the root, so that Walk hands it exactly the root's
// direct children.
type rootVisitor struct {
	root       ast.Node
	rootVisits int
	children   []ast.Node
}

func (v *rootVisitor) Visit(n ast.Node) astutil.Visitor {
	if n == nil {
		return nil
	}
	if !astrefl.IsNilNode(n) && n == v.root && v.rootVisits == 0 {
		v.rootVisits++
		return v
	}
	if !astrefl.IsNilNode(n) && n == v.root {
		v.rootVisits++
		return nil
	}
	v.children = append(v.children, n)
	return nil
}

type funcVisitor func(ast.Node) bool

func (f funcVisitor) Visit(n ast.Node) astutil.Visitor {
	if f(n) {
		return f
	}
	return nil
}

func nilEdge(want []astrefl.NodeRef) string {
	for _, c := range want {
		if c.NilPtr {
			return c.Edge
		}
	}
	return "?"
}

// diffField extracts ".Field" of the first path element after the node type.
func diffField(diff string) string {
	// diff looks like "(Assignment).Rhs[0]...: ..."
	i := strings.Index(diff, ").")
	if i < 0 {
		return ""
	}
	rest := diff[i+2:]
	end := strings.IndexAny(rest, ".[(: ")
	if end < 0 {
		end = len(rest)
	}
	return "." + rest[:end]
}

func first(s []string, n int) []string {
	if len(s) > n {
		return s[:n]
	}
	return s
}

func firstDiff(a, b string) int {
	n := len(a)
	if len(b) < n {
		n = len(b)
	}
	for i := 0; i < n; i++ {
		if a[i] != b[i] {
			return i
		}
	}
	return n
}

// firstFrames keeps the scriggo frames of a stack.
func firstFrames(stack string) string {
	var out []string
	for _, l := range strings.Split(stack, "\n") {
		if strings.Contains(l, "/ast/astutil/") || strings.Contains(l, "scriggo/ast.") {
			out = append(out, strings.TrimSpace(l))
			if len(out) >= 4 {
				break
			}
		}
	}
	return strings.Join(out, " | ")
}
