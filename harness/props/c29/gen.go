package c29

import (
	"fmt"
	"math/rand"
	"strings"
)

// Plant is one destination-looking span the generator put in a document.
// Every plant carries a token that is unique in the document and survives URL
// and Markdown escaping unchanged (letters and digits only).
type Plant struct {
	Start int    `json:"start"` // byte span of the destination text in Src
	End   int    `json:"end"`
	Token string `json:"token"`
	// Kind says where the generator meant to put it. The verdict "is this a
	// link destination" is goldmark's, not the generator's; Kind is used for
	// reporting, for the html-content tolerance and to measure how often the
	// generator's intention and goldmark disagree.
	Kind string `json:"kind"`
	// Relative reports whether the generator wrote a destination that the
	// rewriting should make absolute (has a path, no scheme).
	Relative bool `json:"relative"`
}

// Doc is one generated document with the rewriting parameters.
type Doc struct {
	Src    string  `json:"src"`
	Base   string  `json:"base"`
	Dir    string  `json:"dir"`
	Plants []Plant `json:"plants"`
}

type mdGen struct {
	r      *rand.Rand
	b      strings.Builder
	plants []Plant
	n      int
	avoid  map[string]bool
	labels []string
	// noTicks: inside a code span, nothing that contains a backtick may be written
	noTicks bool
	// inHTML: writing the content of an HTML element (no angle-bracket
	// destinations, not even inside code spans)
	inHTML bool
	// climb: the directory of the file is deep enough for "../"
	climb bool
}

func (g *mdGen) pick(xs ...string) string { return xs[g.r.Intn(len(xs))] }
func (g *mdGen) chance(n int) bool        { return g.r.Intn(n) == 0 }

func (g *mdGen) w(s string) { g.b.WriteString(s) }

// dest writes a destination with a fresh token and records the plant.
// angle: the destination is written for the <...> form (may contain spaces).
func (g *mdGen) dest(kind string, angle bool) {
	g.n++
	tok := fmt.Sprintf("zq%dzq", g.n)
	var text string
	rel := true
	switch g.r.Intn(22) {
	case 0:
		text = tok
	case 1:
		text = tok + ".html"
	case 2:
		text = "./" + tok
	case 3:
		if g.climb {
			text = "../" + tok + ".html"
		} else {
			text = "x/../" + tok + ".html"
		}
	case 4:
		text = "/abs/" + tok
	case 5:
		text = "sub/" + tok + "/"
	case 6:
		text = tok + "?q=1#frag"
	case 7:
		text = "img/" + tok + ".png"
	case 8:
		text = tok + ".md#sec"
	case 9:
		text, rel = "https://ex.org/"+tok, false
	case 10:
		text, rel = "#"+tok, false
	case 11:
		text, rel = "?"+tok+"=1", false
	case 12:
		text = "//cdn.ex.org/" + tok + ".js"
	case 13:
		text, rel = "mailto:"+tok+"@ex.org", false
	case 14:
		text = `a\(` + tok + `\).html`
	case 15:
		text = tok + `\_x`
	case 16:
		text = tok + "(x)" // balanced parentheses are legal in a destination
	case 17:
		text = tok + "%20x"
	case 18:
		text = "é/" + tok
	case 19:
		text = tok + "&amp;x"
	case 20:
		text = tok + `\\x`
	default:
		text = "a/b/../" + tok + ".html"
	}
	if angle && g.chance(2) {
		text = strings.Replace(text, tok, "sp ace/"+tok, 1)
	}
	if angle && strings.HasPrefix(text, "?") && g.avoid["angle-query-in-html"] && kind != "link" && kind != "image" && kind != "refdef" {
		// "<?" inside HTML content
		text, rel = tok, true
	}
	start := g.b.Len()
	g.w(text)
	g.plants = append(g.plants, Plant{Start: start, End: g.b.Len(), Token: tok, Kind: kind, Relative: rel})
}

func (g *mdGen) word() string {
	return g.pick("alpha", "beta", "gamma", "delta", "x", "the", "of", "42", "a.b", "e-mail", "it's", "50%", "q&amp;a", "_em_", "**b**", "a*b", "x_y", "~", "(par)", "snake\\_case", "\\*lit\\*", "semi;", "3 < 4", "a > b")
}

func (g *mdGen) words(n int) string {
	var ws []string
	for i := 0; i < n; i++ {
		ws = append(ws, g.word())
	}
	return strings.Join(ws, " ")
}

func (g *mdGen) title() string {
	return g.pick(` "Title"`, ` 'Title'`, ` (Title)`, ` "a \"q\" b"`, ` "with (paren)"`, `  "two spaces"`, ` 'it\'s'`)
}

// linkText is a link text without unbalanced brackets.
func (g *mdGen) linkText() string {
	if g.noTicks {
		return g.pick("API", "te [nested] xt", "esc \\] bracket", "a_b", "x")
	}
	switch g.r.Intn(8) {
	case 0:
		return "te [nested] xt"
	case 1:
		return "*em* `code`"
	case 2:
		return "esc \\] bracket"
	case 3:
		return "a_b"
	case 4:
		return "`]` tick"
	default:
		return g.pick("API", "read me", "x", "the docs", "Guide 2")
	}
}

// inlineLink writes an inline link whose destination is a plant of the given kind.
func (g *mdGen) inlineLink(kind string) {
	if kind == "link" && g.chance(12) {
		g.w("!")
		kind = "image"
	}
	g.w("[" + g.linkText() + "](")
	form := g.r.Intn(7)
	if (form == 0 || form == 4) && (strings.HasPrefix(kind, "html-") || g.inHTML) {
		// inside HTML content the rewriting looks for tags in the raw text and
		// "<a/b>" looks like one: no angle-bracket destinations there
		form = 5
	}
	switch form {
	case 0:
		g.w("<")
		g.dest(kind, true)
		g.w(">")
	case 1:
		g.w(" ")
		g.dest(kind, false)
		g.w(" ")
	case 2, 3:
		g.dest(kind, false)
		g.w(g.title())
	case 4:
		g.w("<")
		g.dest(kind, true)
		g.w(">" + g.title())
	default:
		g.dest(kind, false)
	}
	g.w(")")
}

// inline writes one line of inline content that is outside any HTML.
func (g *mdGen) inline(kind string, n int) {
	if strings.HasPrefix(kind, "html-") {
		g.inHTML = true
		defer func() { g.inHTML = false }()
	}
	for i := 0; i < n; i++ {
		if i > 0 {
			g.w(" ")
		}
		switch g.r.Intn(16) {
		case 0, 1, 2, 3:
			g.inlineLink(kind)
		case 4:
			// code span holding something that looks like a link
			ticks := g.pick("`", "``", "```")
			pad := ""
			if ticks != "`" {
				pad = g.pick(" ", " ` ")
			}
			g.w(ticks + pad)
			g.noTicks = true
			g.inlineLink("code-span")
			g.noTicks = false
			g.w(pad + ticks)
		case 5:
			// escaped opening bracket: no link
			g.w("\\[" + g.word() + "](")
			g.dest("escaped-bracket", false)
			g.w(")")
		case 6:
			g.w("<")
			g.dest("autolink", false)
			// an autolink needs a scheme; rewrite the plant to an absolute URL
			p := &g.plants[len(g.plants)-1]
			s := g.b.String()[:p.Start] + "https://auto.ex.org/" + p.Token
			g.b.Reset()
			g.b.WriteString(s)
			p.End = g.b.Len()
			p.Relative = false
			g.w(">")
		case 7:
			if len(g.labels) > 0 {
				l := g.labels[g.r.Intn(len(g.labels))]
				g.w(g.pick("["+g.linkText()+"]["+l+"]", "["+l+"]", "["+l+"][]"))
			} else {
				g.w(g.word())
			}
		case 8:
			// link directly followed by another link or by brackets
			g.inlineLink(kind)
			g.w(g.pick("", "[x]", "(y)"))
			g.inlineLink(kind)
		case 9:
			if g.noTicks || g.inHTML || kind != "link" {
				g.w(g.word())
				break
			}
			// links cannot contain links: the inner one is a link, the outer
			// brackets and their "destination" are text
			g.w("[outer ")
			g.inlineLink(kind)
			g.w(" more](")
			g.dest("outer-of-nested-link", false)
			g.w(")")
		case 10:
			// link text containing a link-looking code span
			g.w("[see `")
			g.w("[a](")
			g.dest("code-span", false)
			g.w(")` here](")
			g.dest(kind, false)
			g.w(")")
		case 11:
			// brackets that are not links
			g.w(g.pick("[not a link] ", "[x] (", "a](", "]("))
			g.w(g.pick("alpha", "beta", "x", "42"))
		default:
			g.w(g.words(1 + g.r.Intn(3)))
		}
	}
}

// htmlInline writes a paragraph line with inline raw HTML. Links between an
// opening and its closing tag are inside an HTML element for the rewriting
// (left alone by design) and links for goldmark.
func (g *mdGen) htmlInline() {
	g.w(g.words(1) + " ")
	tag := g.pick("span", "b", "em", "a", "kbd")
	attr := g.pick("", ` class="x"`, ` title="a > b"`, ` data-x='[a](y)'`)
	g.w("<" + tag + attr + ">")
	g.inline("html-content", 1+g.r.Intn(2))
	g.w("</" + tag + ">")
	g.w(" ")
	g.inline("link", 1+g.r.Intn(2))
	if g.chance(3) {
		g.w(" <br> ")
		g.inline("link", 1)
		g.w(" <img src=\"i.png\" alt=\"[a](b)\"/> ")
		g.inline("link", 1)
	}
	if g.chance(3) {
		g.w(" <!-- ")
		g.inlineLink("html-comment")
		g.w(" --> ")
		g.inline("link", 1)
	}
}

func (g *mdGen) fence() {
	ch := g.pick("`", "~")
	n := 3 + g.r.Intn(3)
	indent := g.pick("", "", " ", "   ")
	open := indent + strings.Repeat(ch, n)
	info := g.pick("", "go", " md", "text attr")
	if ch == "~" && g.chance(3) {
		info = "a`b"
	}
	g.w(open + info + "\n")
	lines := 1 + g.r.Intn(4)
	for i := 0; i < lines; i++ {
		switch g.r.Intn(6) {
		case 0:
			g.w("[lbl" + fmt.Sprint(g.r.Intn(9)) + "]: ")
			g.dest("fenced-code", false)
		case 1:
			// a shorter or different fence does not close the block
			other := "~"
			if ch == "~" {
				other = "`"
			}
			g.w(g.pick(strings.Repeat(ch, n-1), strings.Repeat(other, n), strings.Repeat(ch, n)+" x"))
		case 2:
			g.w("")
		case 3:
			g.w("    ")
			g.inlineLink("fenced-code")
		default:
			g.w(g.words(1) + " ")
			g.inlineLink("fenced-code")
		}
		g.w("\n")
	}
	g.w(g.pick("", " ", "  ") + strings.Repeat(ch, n+g.r.Intn(2)) + g.pick("", "  ") + "\n")
}

func (g *mdGen) refdef() {
	lbl := fmt.Sprintf("ref%d", len(g.labels)+1)
	if g.chance(4) {
		lbl = fmt.Sprintf("Ref %d \\] x", len(g.labels)+1)
	}
	g.labels = append(g.labels, lbl)
	g.w(g.pick("", "", " ", "   ") + "[" + lbl + "]:" + g.pick(" ", "  ", "\t"))
	switch g.r.Intn(5) {
	case 0:
		g.w("<")
		g.dest("refdef", true)
		g.w(">")
	case 1:
		g.dest("refdef", false)
		g.w(g.title())
	case 2:
		g.dest("refdef", false)
		g.w("  ")
	default:
		g.dest("refdef", false)
	}
	g.w("\n")
}

func (g *mdGen) htmlBlock() {
	switch g.r.Intn(9) {
	case 0:
		g.w("<div>\n")
		g.inline("html-block", 1+g.r.Intn(2))
		g.w("\n</div>\n")
	case 1:
		tag := g.pick("pre", "script", "style", "textarea")
		g.w("<" + tag + g.pick("", ` class="x"`) + ">\n")
		g.inlineLink("raw-text-element")
		g.w("\n")
		if g.chance(2) {
			g.w("\n")
			g.inlineLink("raw-text-element")
			g.w("\n")
		}
		g.w("</" + tag + ">\n")
	case 2:
		g.w("<!--\n")
		g.inlineLink("html-comment")
		g.w("\n\n")
		g.w("[c]: ")
		g.dest("html-comment", false)
		g.w("\n-->\n")
	case 3:
		g.w("<?php ")
		g.inlineLink("html-pi")
		g.w(" ?>\n")
	case 4:
		g.w("<![CDATA[\n")
		g.inlineLink("html-cdata")
		g.w("\n]]>\n")
	case 5:
		g.w("<table>\n<tr><td>")
		g.inlineLink("html-block")
		g.w("</td></tr>\n</table>\n")
	case 6:
		g.w("<p>")
		g.inlineLink("html-block")
		g.w("</p>\n")
	case 7:
		if g.avoid["html-block-ended-by-blank-line"] {
			g.w("<hr>\n")
			return
		}
		// an HTML block ends at the blank line even if the element is still open:
		// what follows is Markdown for goldmark, element content for the rewriting
		g.w("<div>\n\n")
		g.inline("html-content", 1+g.r.Intn(2))
		g.w("\n\n</div>\n")
	default:
		g.w("<script>\nvar s = \"")
		g.inlineLink("raw-text-element")
		g.w("\"; // </notscript>\n</script>\n")
	}
}

// endList closes a list: whatever follows a thematic break that is not
// indented cannot continue a list item.
func (g *mdGen) endList() {
	g.w("\n***\n")
}

// block writes one block followed by a blank line.
func (g *mdGen) block() {
	switch g.r.Intn(21) {
	case 0, 1, 2, 3:
		lines := 1 + g.r.Intn(3)
		for i := 0; i < lines; i++ {
			g.w(g.pick("", "", " ", "   "))
			g.inline("link", 1+g.r.Intn(4))
			g.w("\n")
		}
	case 4:
		g.refdef()
		for g.chance(2) {
			g.refdef()
		}
	case 5:
		g.fence()
	case 6:
		// indented code (always after a blank line)
		lines := 1 + g.r.Intn(2)
		for i := 0; i < lines; i++ {
			g.w(g.pick("    ", "\t", "     ", "  \t"))
			if g.chance(3) {
				g.w("[lbl]: ")
				g.dest("indented-code", false)
			} else {
				g.inlineLink("indented-code")
			}
			g.w("\n")
		}
	case 7, 8:
		g.htmlBlock()
	case 9:
		g.htmlInline()
		g.w("\n")
	case 10:
		g.w(g.pick("# ", "## ", "###### "))
		g.inline("link", 1+g.r.Intn(2))
		g.w(g.pick("", " #", " ##") + "\n")
	case 11:
		g.inline("link", 1+g.r.Intn(2))
		g.w("\n" + g.pick("===", "---", "=") + "\n")
	case 12:
		if g.avoid["container-blocks"] {
			g.w(g.words(3) + "\n")
			break
		}
		g.w("> ")
		g.inline("link", 1+g.r.Intn(2))
		g.w("\n")
	case 13:
		if g.avoid["container-blocks"] {
			g.w(g.words(3) + "\n")
			break
		}
		m := g.pick("- ", "* ", "1. ", "+ ")
		n := 1 + g.r.Intn(3)
		for i := 0; i < n; i++ {
			g.w(m)
			g.inline("link", 1+g.r.Intn(2))
			g.w("\n")
		}
		g.endList()
	case 16:
		if g.avoid["list-item-indented-paragraph"] {
			g.w(g.words(3) + "\n")
			break
		}
		// a second paragraph of a list item, indented by four spaces: a
		// paragraph for goldmark, not indented code
		g.w(g.pick("- ", "* ") + g.words(2) + "\n\n    ")
		g.inlineLink("link")
		g.w(" " + g.words(1) + "\n")
		g.endList()
	case 17:
		if g.avoid["container-refdef"] {
			g.w(g.words(3) + "\n")
			break
		}
		// a reference definition inside a block quote or a list item
		lbl := fmt.Sprintf("cref%d", len(g.labels)+1)
		g.labels = append(g.labels, lbl)
		g.w(g.pick("> ", "- ", "1. ") + "[" + lbl + "]: ")
		g.dest("refdef", false)
		g.w("\n")
		g.endList()
	case 19:
		if g.avoid["refdef-interrupting-paragraph"] {
			g.w(g.words(3) + "\n")
			break
		}
		// a reference definition cannot interrupt a paragraph: this line is
		// paragraph text
		g.w(g.words(2) + "\n[note" + fmt.Sprint(g.r.Intn(9)) + "]: ")
		g.dest("paragraph-text-like-refdef", false)
		g.w("\n")
	case 18:
		// an opening bracket that is never closed, then raw HTML holding
		// something that looks like a link (single line)
		g.w(g.pick("see ", "") + "[unclosed " + g.pick("alpha", "x") + " ")
		if g.chance(2) {
			g.w("<!-- ")
			g.inlineLink("html-comment")
			g.w(" -->")
		} else {
			g.w(`<img src="i.png" alt="`)
			g.noTicks = true
			g.w("[a](")
			g.dest("html-attribute", false)
			g.w(")")
			g.noTicks = false
			g.w(`">`)
		}
		g.w(" ")
		g.inlineLink("link")
		g.w("\n")
	case 14:
		g.w(g.pick("---", "***", "___") + "\n")
	case 15:
		if g.avoid["unmatched-backtick"] {
			g.w(g.words(3) + "\n")
			break
		}
		// a backtick run that is never closed is literal text: the paragraph
		// holds no other backtick
		g.noTicks = true
		g.w(g.pick("alpha ", "") + g.pick("`", "``") + " " + g.pick("beta", "x") + " ")
		g.inlineLink("link")
		g.w(" " + g.pick("gamma", "42") + "\n")
		g.noTicks = false
	default:
		g.w(g.words(2+g.r.Intn(6)) + "\n")
	}
	g.w("\n")
}

var bases = []string{"https://example.com/", "https://h.example/base/", "http://h/p/q", "https://h", "https://example.com/base"}
var dirs = []string{"", ".", "docs", "a/b"}

// GenDoc generates one document.
func GenDoc(r *rand.Rand, avoid map[string]bool) Doc {
	g := &mdGen{r: r, avoid: avoid}
	if g.avoid == nil {
		g.avoid = map[string]bool{}
	}
	base, dir := bases[r.Intn(len(bases))], dirs[r.Intn(len(dirs))]
	g.climb = dir == "docs" || dir == "a/b"
	n := 1 + r.Intn(7)
	for i := 0; i < n; i++ {
		g.block()
	}
	src := g.b.String()
	if g.chance(4) {
		src = strings.TrimRight(src, "\n") // no final newline
	}
	return Doc{Src: src, Base: base, Dir: dir, Plants: g.plants}
}
