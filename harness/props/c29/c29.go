// Package c29 checks the Markdown link-destination rewriting of the build
// command (cmd/scriggo/linkdestination.go, mdescape.go): only link destinations
// change, destinations inside code and raw HTML stay, every rewritten
// destination is absolute against the base, the rewriting is idempotent, and
// markdownUnescape undoes markdownURLEscape.
//
// The code under test lives in package main of cmd/scriggo; built with the tag
// "verif" the command becomes a co-process ("scriggo verif-linkdest") that
// answers one JSON request per line. The worker builds it (from VERIF_REPO or
// /repo) into the per-run scratch directory and talks to it over pipes.
//
// Oracle: goldmark decides what is a link destination (Link, Image and AutoLink
// nodes, reference definitions of the parser context), before and after the
// rewriting; the generator plants a unique token in every destination-looking
// span, so the output can be aligned with the input byte by byte.
package c29

import (
	"bufio"
	"bytes"
	"encoding/json"
	"fmt"
	"io"
	"math/rand"
	"net/url"
	"os"
	"os/exec"
	"path/filepath"
	"sort"
	"strings"
	"sync"

	"github.com/yuin/goldmark"
	gast "github.com/yuin/goldmark/ast"
	"github.com/yuin/goldmark/parser"
	"github.com/yuin/goldmark/text"

	"verif/core"
)

type prop struct{}

func init() { core.Register(prop{}) }

func (prop) ID() string    { return "C29" }
func (prop) Level() string { return "exploration" }

// CaseData is one case: a batch of generated documents (Kind "gen"), one
// explicit document (Kind "one"), or a batch of escape round trips (Kind "escape").
type CaseData struct {
	Kind     string   `json:"kind"`
	Seed     int64    `json:"seed,omitempty"`
	N        int      `json:"n,omitempty"`
	Avoid    []string `json:"avoid,omitempty"`    // generator constructs switched off (open findings)
	Tolerate []string `json:"tolerate,omitempty"` // violation classes recorded as open findings
	Doc      *Doc     `json:"doc,omitempty"`
	Strings  []string `json:"strings,omitempty"` // explicit strings for Kind "escape"
}

func (prop) Drive(d *core.Driver) error {
	var avoid, tolerate []string
	for _, s := range openScopes {
		if d.InScope(s) {
			tolerate = append(tolerate, s)
			if a := avoidFor[s]; a != "" {
				avoid = append(avoid, a)
			}
		}
	}
	bin, err := driverBin(d)
	if err != nil {
		return err
	}
	nDocs := d.N(3000, 150000)
	const per = 50
	var cases []core.Case
	for i := 0; i < nDocs/per; i++ {
		cases = append(cases, core.NewCase(fmt.Sprintf("docs-%d", i), CaseData{Kind: "gen", Seed: d.Seed*1000003 + int64(i), N: per, Avoid: avoid, Tolerate: tolerate}))
	}
	nEsc := d.N(40, 400)
	for i := 0; i < nEsc; i++ {
		cases = append(cases, core.NewCase(fmt.Sprintf("escape-%d", i), CaseData{Kind: "escape", Seed: d.Seed*7919 + int64(i), N: 250}))
	}
	d.T.Rule = "generated Markdown documents (paragraphs with inline links in every destination form, images, autolinks, code spans, escaped brackets, reference definitions and uses, fenced and indented code, HTML blocks of every start condition, raw-text elements, comments, inline HTML, headings, block quotes, lists) with a unique token in every destination-looking span and a random base/dir, sent to the real linkDestinationReplacer through the co-process; goldmark decides what is a destination before and after; plus escape/unescape round trips over random ASCII strings. distinct_nontrivial counts distinct (generator context, destination shape, verdict) triples, verdict being rewritten/untouched × goldmark-link/not"
	d.T.Assumptions = []string{
		"goldmark v1.7.16 with the default (CommonMark) parser is the reference for what is a link destination",
		"a relative destination that goldmark treats as a link and that sits between an HTML opening tag and its closing tag may be left alone (the rewriting skips element content by design; the property only forbids touching non-destinations): counted as left_in_html_content, not a violation",
		"multi-line constructs the line-based scanner does not follow (lazy continuation lines indented by four or more spaces, code spans and link texts that continue on the next line) are not generated",
	}
	r := rand.New(rand.NewSource(d.Seed))
	for i := 0; i < 3; i++ {
		doc := GenDoc(r, nil)
		d.T.Sample(map[string]any{"src": doc.Src, "base": doc.Base, "dir": doc.Dir, "plants": len(doc.Plants)})
	}
	d.T.Set("tolerated_classes", tolerate)
	d.T.Set("generator_constructs_off", avoid)
	d.Run(cases, core.RunOpts{Env: []string{"VERIF_C29_BIN=" + bin}})
	return nil
}

var (
	binOnce sync.Once
	binPath string
	binErr  error
)

// driverBin builds the co-process once per driver run into the run's scratch
// directory; workers get its path through VERIF_C29_BIN.
func driverBin(d *core.Driver) (string, error) {
	binOnce.Do(func() { binPath, binErr = buildCoprocess(d.Scratch) })
	return binPath, binErr
}

// ReplayCase runs one recorded case (finding witnesses, --replay) with the
// co-process built once by the driver instead of once per worker child.
func (prop) ReplayCase(d *core.Driver, c core.Case) core.Result {
	bin, err := driverBin(d)
	if err != nil {
		return core.Result{ID: c.ID, Status: core.Inconclusive, Detail: err.Error()}
	}
	return d.Run([]core.Case{c}, core.RunOpts{Workers: 1, NoTally: true, Env: []string{"VERIF_C29_BIN=" + bin}})[0]
}

// avoidFor maps a finding scope (violation class) to the generator construct
// that produces it.
var avoidFor = map[string]string{
	"left-unrewritten:unmatched-backtick":    "unmatched-backtick",
	"left-unrewritten:container-refdef":      "container-refdef",
	"left-unrewritten:indented-continuation": "list-item-indented-paragraph",
	"left-unrewritten:pi-in-html-block":      "angle-query-in-html",

	"rewrote-non-destination:paragraph-text-like-refdef": "refdef-interrupting-paragraph",
}

// ---------------------------------------------------------------- co-process

func repoDir() string {
	if d := os.Getenv("VERIF_REPO"); d != "" {
		return d
	}
	return "/repo"
}

// buildCoprocess builds cmd/scriggo with the tag verif into dir.
func buildCoprocess(dir string) (string, error) {
	goBin := os.Getenv("VGO")
	if goBin == "" {
		goBin = "go"
	}
	out := filepath.Join(dir, "scriggo-verif")
	cmd := exec.Command(goBin, "build", "-tags", "verif", "-o", out, "./cmd/scriggo")
	cmd.Dir = repoDir()
	if b, err := cmd.CombinedOutput(); err != nil {
		return "", fmt.Errorf("building the link-destination co-process: %v\n%s", err, b)
	}
	return out, nil
}

type coprocess struct {
	cmd    *exec.Cmd
	in     io.WriteCloser
	out    *bufio.Reader
	stderr *bytes.Buffer
}

var (
	coMu  sync.Mutex
	co    *coprocess
	coBin string
)

type request struct {
	Op   string `json:"op"`
	Base string `json:"base,omitempty"`
	Dir  string `json:"dir,omitempty"`
	Src  []byte `json:"src,omitempty"`
	S    []byte `json:"s,omitempty"`
}

type response struct {
	Out   []byte `json:"out"`
	Err   string `json:"err"`
	Panic string `json:"panic"`
}

func startCoprocess() (*coprocess, error) {
	if coBin == "" {
		if b := os.Getenv("VERIF_C29_BIN"); b != "" {
			if _, err := os.Stat(b); err == nil {
				coBin = b
			}
		}
	}
	if coBin == "" {
		dir := os.Getenv("VERIF_SCRATCH")
		if dir == "" {
			var err error
			if dir, err = os.MkdirTemp("", "c29-"); err != nil {
				return nil, err
			}
		}
		b, err := buildCoprocess(dir)
		if err != nil {
			return nil, err
		}
		coBin = b
	}
	cmd := exec.Command(coBin, "verif-linkdest")
	in, err := cmd.StdinPipe()
	if err != nil {
		return nil, err
	}
	outp, err := cmd.StdoutPipe()
	if err != nil {
		return nil, err
	}
	var stderr bytes.Buffer
	cmd.Stderr = &stderr
	if err := cmd.Start(); err != nil {
		return nil, err
	}
	return &coprocess{cmd: cmd, in: in, out: bufio.NewReaderSize(outp, 1<<20), stderr: &stderr}, nil
}

// errDied is returned when the co-process ended while a request was in flight.
type errDied struct{ detail string }

func (e errDied) Error() string { return e.detail }

// call sends one request and waits for the answer; a death of the co-process
// is attributed to the request (errDied).
func call(req request) (response, error) {
	coMu.Lock()
	defer coMu.Unlock()
	if co == nil {
		c, err := startCoprocess()
		if err != nil {
			return response{}, err
		}
		co = c
	}
	// The request in flight is known here (calls are synchronous): if the
	// co-process dies, the death is attributed to it by the caller, which puts
	// the request into the violation detail; if the worker itself dies, the
	// core's journal attributes the death to the case.
	line, _ := json.Marshal(req)
	_, werr := co.in.Write(append(line, '\n'))
	var res response
	var rerr error
	var ans []byte
	if werr == nil {
		ans, rerr = co.out.ReadBytes('\n')
	}
	if werr != nil || rerr != nil {
		co.in.Close()
		waitErr := co.cmd.Wait()
		tail := co.stderr.String()
		co = nil
		return res, errDied{fmt.Sprintf("the co-process died while handling this request (write: %v, read: %v, exit: %v)\n%s", werr, rerr, waitErr, core.Truncate(tail, 3000))}
	}
	if err := json.Unmarshal(ans, &res); err != nil {
		return res, fmt.Errorf("bad answer from the co-process: %v: %q", err, core.Truncate(string(ans), 200))
	}
	return res, nil
}

// ---------------------------------------------------------------- goldmark reference

// destinations returns, for every token, whether goldmark treats the span
// holding it as a link destination, and the destination as goldmark reads it.
func destinations(src []byte) map[string]string {
	md := goldmark.New()
	ctx := parser.NewContext()
	doc := md.Parser().Parse(text.NewReader(src), parser.WithContext(ctx))
	var dests []string
	gast.Walk(doc, func(n gast.Node, entering bool) (gast.WalkStatus, error) {
		if !entering {
			return gast.WalkContinue, nil
		}
		switch n := n.(type) {
		case *gast.Link:
			dests = append(dests, string(n.Destination))
		case *gast.Image:
			dests = append(dests, string(n.Destination))
		case *gast.AutoLink:
			dests = append(dests, string(n.URL(src)))
		}
		return gast.WalkContinue, nil
	})
	for _, r := range ctx.References() {
		dests = append(dests, string(r.Destination()))
	}
	out := map[string]string{}
	for _, d := range dests {
		for _, tok := range tokensIn(d) {
			out[tok] = d
		}
	}
	return out
}

// tokensIn returns the zq<digits>zq tokens of s.
func tokensIn(s string) []string {
	var out []string
	for i := 0; i+4 < len(s); i++ {
		if s[i] == 'z' && s[i+1] == 'q' {
			j := i + 2
			for j < len(s) && s[j] >= '0' && s[j] <= '9' {
				j++
			}
			if j > i+2 && j+1 < len(s) && s[j] == 'z' && s[j+1] == 'q' {
				out = append(out, s[i:j+2])
				i = j + 1
			}
		}
	}
	return out
}

// ---------------------------------------------------------------- oracle

type worker struct {
	tolerate map[string]bool
	viol     []string
	seenCls  map[string]bool
	sigs     map[string]struct{}
	counts   map[string]int64
	evals    int64
}

func (w *worker) report(class, detail string) {
	if w.tolerate[class] {
		w.counts["tolerated:"+class]++
		return
	}
	w.counts["violations"]++
	w.counts["class:"+class]++
	if w.seenCls[class] {
		return
	}
	w.seenCls[class] = true
	w.viol = append(w.viol, "["+class+"] "+detail)
}

func docJSON(d Doc) string {
	b, _ := json.Marshal(d)
	return core.Truncate(string(b), 2500)
}

// align splits out along the plants of doc: the text between plants must be
// unchanged; it returns, per plant, the text now standing in its place.
func align(doc Doc, out string) (repl []string, problem string) {
	src := doc.Src
	pos := 0 // position in out
	prev := 0
	for i, p := range doc.Plants {
		between := src[prev:p.Start]
		if !strings.HasPrefix(out[pos:], between) {
			k := 0
			for k < len(between) && pos+k < len(out) && out[pos+k] == between[k] {
				k++
			}
			return nil, fmt.Sprintf("bytes outside destinations changed: input offset %d (before plant %d, %s): input has %q, output has %q", prev+k, i, p.Token, core.Truncate(src[prev+k:], 60), core.Truncate(out[min(pos+k, len(out)):], 60))
		}
		pos += len(between)
		orig := src[p.Start:p.End]
		rest := src[p.End:]
		switch {
		case strings.HasPrefix(out[pos:], orig) && strings.HasPrefix(out[pos+len(orig):], firstRune(rest)):
			repl = append(repl, orig)
			pos += len(orig)
		default:
			// rewritten: it extends to the delimiter that followed the original
			end := len(out)
			if rest != "" {
				j := strings.Index(out[pos:], firstRune(rest))
				if j < 0 {
					return nil, fmt.Sprintf("cannot find the end of the rewritten destination of plant %d (%s): the delimiter %q that followed it is gone; output from there: %q", i, p.Token, firstRune(rest), core.Truncate(out[pos:], 80))
				}
				end = pos + j
			}
			r := out[pos:end]
			if !strings.Contains(r, p.Token) {
				return nil, fmt.Sprintf("the text standing in place of plant %d (%s, %q) is %q and lost the token: not a rewriting of that destination", i, p.Token, orig, core.Truncate(r, 120))
			}
			repl = append(repl, r)
			pos = end
		}
		prev = p.End
	}
	if out[pos:] != src[prev:] {
		return nil, fmt.Sprintf("bytes outside destinations changed after the last plant: input ends %q, output ends %q", core.Truncate(src[prev:], 80), core.Truncate(out[pos:], 80))
	}
	return repl, ""
}

func firstRune(s string) string {
	if s == "" {
		return ""
	}
	return s[:1]
}

func shape(p Plant, src string) string {
	t := src[p.Start:p.End]
	t = strings.ReplaceAll(t, p.Token, "T")
	return t
}

// checkDoc runs the rewriting on one document and judges the result.
func (w *worker) checkDoc(doc Doc) {
	w.evals++
	w.counts["documents"]++
	w.counts["plants"] += int64(len(doc.Plants))
	res, err := call(request{Op: "replace", Base: doc.Base, Dir: doc.Dir, Src: []byte(doc.Src)})
	if err != nil {
		if _, ok := err.(errDied); ok {
			w.report("crash", err.Error()+"\ndocument: "+docJSON(doc))
		} else {
			panic(err) // harness problem: reported as inconclusive by the core
		}
		return
	}
	if res.Panic != "" {
		w.report("panic", fmt.Sprintf("replace panicked: %s\ndocument: %s", res.Panic, docJSON(doc)))
		return
	}
	if res.Err != "" {
		w.report("error", fmt.Sprintf("replace returned an error: %s\ndocument: %s", res.Err, docJSON(doc)))
		return
	}
	out := string(res.Out)
	base, _ := url.Parse(doc.Base)
	before := destinations([]byte(doc.Src))
	after := destinations(res.Out)
	repl, problem := align(doc, out)
	if problem != "" {
		w.report("outside-changed", fmt.Sprintf("%s\noutput: %q\ndocument: %s", problem, core.Truncate(out, 600), docJSON(doc)))
		return
	}
	for i, p := range doc.Plants {
		orig := doc.Src[p.Start:p.End]
		gdest, isLink := before[p.Token]
		touched := repl[i] != orig
		intended := p.Kind == "link" || p.Kind == "image" || p.Kind == "refdef" || p.Kind == "autolink" || p.Kind == "html-content"
		if intended != isLink {
			w.counts["generator_vs_goldmark_disagree:"+p.Kind]++
		}
		verdict := "untouched"
		if touched {
			verdict = "rewritten"
		}
		if isLink {
			verdict += "/link"
		} else {
			verdict += "/not-link"
		}
		w.sigs[p.Kind+"|"+shape(p, doc.Src)+"|"+verdict] = struct{}{}
		w.counts[verdict]++
		ctx := fmt.Sprintf("plant %d (%s, context %s, written %q, now %q)\noutput: %q\ndocument: %s", i, p.Token, p.Kind, orig, repl[i], core.Truncate(out, 600), docJSON(doc))
		switch {
		case touched && !isLink:
			w.report("rewrote-non-destination:"+p.Kind, "goldmark does not treat this span as a link destination, but it was rewritten: "+ctx)
		case touched && notRelative(gdest):
			// only relative destinations are rewritten (the replacer documents
			// that absolute URLs and query/fragment-only URLs are left unchanged)
			w.report("rewrote-non-relative:"+p.Kind, "this destination has a scheme or is only a query/fragment, but it was rewritten: "+ctx)
		case touched:
			// goldmark must still read a link there, absolute against the base
			adest, still := after[p.Token]
			if !still {
				w.report("link-lost:"+p.Kind, "after the rewriting goldmark no longer sees a link destination there: "+ctx)
				break
			}
			u, err := url.Parse(adest)
			if err != nil {
				w.report("not-absolute:"+p.Kind, fmt.Sprintf("the rewritten destination %q does not parse as a URL (%v): %s", adest, err, ctx))
				break
			}
			ou, _ := url.Parse(gdest)
			bad := ""
			switch {
			case u.Scheme != base.Scheme:
				bad = fmt.Sprintf("scheme %q, base has %q", u.Scheme, base.Scheme)
			case ou != nil && ou.Host == "" && u.Host != base.Host:
				bad = fmt.Sprintf("host %q, base has %q", u.Host, base.Host)
			case ou != nil && ou.Host == "" && !strings.HasPrefix(u.Path, strings.TrimSuffix(base.Path, "/")):
				bad = fmt.Sprintf("path %q lacks the base path %q", u.Path, base.Path)
			case ou != nil && ou.Host != "" && u.Host != ou.Host:
				bad = fmt.Sprintf("host changed from %q to %q", ou.Host, u.Host)
			}
			if bad != "" {
				w.report("not-absolute:"+p.Kind, fmt.Sprintf("the rewritten destination %q is not absolute against the base %q (%s): %s", adest, doc.Base, bad, ctx))
			}
		case isLink:
			// untouched link destination: fine when it is not relative
			u, err := url.Parse(gdest)
			if err != nil || u.Scheme != "" || (u.Host == "" && u.Path == "") {
				w.counts["untouched_not_relative"]++
				break
			}
			if p.Kind == "html-content" || p.Kind == "html-block" {
				w.counts["left_in_html_content"]++
				break
			}
			w.report("left-unrewritten:"+leftClass(doc, p), "goldmark treats this relative destination as a link destination, it was left as it is: "+ctx)
		}
	}
	// links before and after: the same tokens
	for tok := range before {
		if _, ok := after[tok]; !ok {
			w.report("link-lost", fmt.Sprintf("token %s was a link destination before the rewriting and is none after\noutput: %q\ndocument: %s", tok, core.Truncate(out, 600), docJSON(doc)))
		}
	}
	for tok := range after {
		if _, ok := before[tok]; !ok {
			w.report("link-created", fmt.Sprintf("token %s is a link destination only after the rewriting\noutput: %q\ndocument: %s", tok, core.Truncate(out, 600), docJSON(doc)))
		}
	}
	// idempotence
	res2, err := call(request{Op: "replace", Base: doc.Base, Dir: doc.Dir, Src: res.Out})
	if err != nil {
		if _, ok := err.(errDied); ok {
			w.report("crash", err.Error()+"\n(second pass) document: "+docJSON(doc))
			return
		}
		panic(err)
	}
	if res2.Panic != "" || res2.Err != "" {
		w.report("panic", fmt.Sprintf("second pass failed: %s %s\ndocument: %s", res2.Panic, res2.Err, docJSON(doc)))
		return
	}
	if !bytes.Equal(res2.Out, res.Out) {
		k := 0
		for k < len(res.Out) && k < len(res2.Out) && res.Out[k] == res2.Out[k] {
			k++
		}
		w.report("not-idempotent", fmt.Sprintf("replace(replace(x)) != replace(x) at offset %d: first pass %q, second pass %q\ndocument: %s", k, core.Truncate(string(res.Out[k:]), 100), core.Truncate(string(res2.Out[k:]), 100), docJSON(doc)))
	}
}

// notRelative reports whether a destination, as goldmark reads it, is outside
// the rewriting: it has a scheme, or neither host nor path.
func notRelative(dest string) bool {
	u, err := url.Parse(dest)
	return err == nil && (u.Scheme != "" || (u.Host == "" && u.Path == ""))
}

// leftClass names the construct in which a link was left unrewritten.
func leftClass(doc Doc, p Plant) string {
	lineStart := strings.LastIndexByte(doc.Src[:p.Start], '\n') + 1
	line := doc.Src[lineStart:p.Start]
	trimmed := strings.TrimLeft(line, " ")
	switch {
	case strings.HasPrefix(line, "    ") || strings.HasPrefix(line, "\t"):
		return "indented-continuation"
	case strings.Count(line, "`")%2 == 1 || strings.Contains(line, "`` "):
		return "unmatched-backtick"
	case p.Kind == "refdef" && (strings.HasPrefix(trimmed, ">") || strings.HasPrefix(trimmed, "-") || strings.HasPrefix(trimmed, "*") || strings.HasPrefix(trimmed, "+") || (len(trimmed) > 1 && trimmed[1] == '.')):
		return "container-refdef"
	}
	return p.Kind
}

func (w *worker) checkEscape(u string) {
	w.evals++
	w.counts["escape_round_trips"]++
	e, err := call(request{Op: "escape", S: []byte(u)})
	if err == nil && e.Panic == "" {
		var d response
		d, err = call(request{Op: "unescape", S: e.Out})
		if err == nil && d.Panic == "" && d.Err == "" {
			if string(d.Out) != u {
				w.report("escape-round-trip", fmt.Sprintf("markdownUnescape(markdownURLEscape(%q)) = %q (escaped form %q)", u, d.Out, e.Out))
			}
			if bytes.ContainsRune(e.Out, '\\') || strings.ContainsRune(u, '\\') {
				w.sigs["escape|backslashes"] = struct{}{}
			}
			if string(e.Out) != u {
				w.sigs["escape|changed"] = struct{}{}
			} else {
				w.sigs["escape|unchanged"] = struct{}{}
			}
			return
		}
		e = d
	}
	if err != nil {
		if _, ok := err.(errDied); ok {
			w.report("crash", fmt.Sprintf("%v\nstring: %q", err, u))
			return
		}
		panic(err)
	}
	w.report("panic", fmt.Sprintf("escape/unescape of %q failed: %s %s", u, e.Panic, e.Err))
}

func (prop) Work(c core.Case) core.Result {
	var cd CaseData
	c.Decode(&cd)
	w := &worker{tolerate: map[string]bool{}, seenCls: map[string]bool{}, sigs: map[string]struct{}{}, counts: map[string]int64{}}
	for _, t := range cd.Tolerate {
		w.tolerate[t] = true
	}
	avoid := map[string]bool{}
	for _, a := range cd.Avoid {
		avoid[a] = true
	}
	switch cd.Kind {
	case "gen":
		r := rand.New(rand.NewSource(cd.Seed))
		for i := 0; i < cd.N; i++ {
			w.checkDoc(GenDoc(r, avoid))
		}
	case "one":
		if cd.Doc != nil {
			w.checkDoc(*cd.Doc)
		}
	case "escape":
		for _, s := range cd.Strings {
			w.checkEscape(s)
		}
		r := rand.New(rand.NewSource(cd.Seed))
		const special = "\\`*_{}[]()#+-=.!|<>~&\"'$%,/:;?@^ ab1\t"
		for i := 0; i < cd.N; i++ {
			n := r.Intn(24)
			b := make([]byte, n)
			for j := range b {
				switch r.Intn(3) {
				case 0:
					b[j] = '\\'
				case 1:
					b[j] = special[r.Intn(len(special))]
				default:
					b[j] = byte(1 + r.Intn(127)) // any ASCII but NUL
				}
			}
			w.checkEscape(string(b))
		}
	}
	res := core.Result{Status: core.OK, Evals: w.evals, Counts: w.counts}
	for s := range w.sigs {
		res.Sigs = append(res.Sigs, s)
	}
	sort.Strings(res.Sigs)
	if len(w.viol) > 0 {
		res.Status = core.Violation
		if len(w.viol) > 8 {
			w.viol = append(w.viol[:8], fmt.Sprintf("… and %d more classes", len(w.viol)-8))
		}
		res.Detail = strings.Join(w.viol, "\n")
	}
	return res
}
