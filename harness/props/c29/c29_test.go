package c29

import (
	"math/rand"
	"strings"
	"testing"
)

func mkDoc(src string, dests ...string) Doc {
	d := Doc{Src: src, Base: "https://h/p/", Dir: "docs"}
	from := 0
	for _, dest := range dests {
		i := strings.Index(src[from:], dest) + from
		d.Plants = append(d.Plants, Plant{Start: i, End: i + len(dest), Token: tokensIn(dest)[0], Kind: "link", Relative: true})
		from = i + len(dest)
	}
	return d
}

func TestTokensIn(t *testing.T) {
	got := tokensIn("a/zq1zq.html zq22zq zqzq zq3z zq4zqzq5zq")
	want := []string{"zq1zq", "zq22zq", "zq4zq", "zq5zq"}
	if strings.Join(got, ",") != strings.Join(want, ",") {
		t.Fatalf("tokensIn = %v, want %v", got, want)
	}
}

func TestAlign(t *testing.T) {
	doc := mkDoc("[a](zq1zq.html) and `[b](zq2zq)` [c](<zq3zq x> \"t\") [d](zq4zq(x))\n", "zq1zq.html", "zq2zq", "zq3zq x", "zq4zq(x)")
	// nothing changed
	repl, problem := align(doc, doc.Src)
	if problem != "" || len(repl) != 4 || repl[0] != "zq1zq.html" || repl[3] != "zq4zq(x)" {
		t.Fatalf("identity: %v %q", repl, problem)
	}
	// first and third rewritten
	out := "[a](https://h/p/docs/zq1zq.md) and `[b](zq2zq)` [c](<https://h/p/docs/zq3zq%20x.md> \"t\") [d](zq4zq(x))\n"
	repl, problem = align(doc, out)
	if problem != "" || repl[0] != "https://h/p/docs/zq1zq.md" || repl[1] != "zq2zq" || repl[2] != "https://h/p/docs/zq3zq%20x.md" || repl[3] != "zq4zq(x)" {
		t.Fatalf("rewritten: %v %q", repl, problem)
	}
	// a byte outside the destinations changed
	for _, bad := range []string{
		strings.Replace(out, " and ", " und ", 1),
		strings.Replace(out, "\"t\"", "\"T\"", 1),
		strings.Replace(out, "[a]", "[A]", 1),
		out + "x",
		strings.TrimSuffix(out, "\n"),
		strings.Replace(out, "[d](zq4zq(x))", "[d](zq4zq(x)))", 1),
	} {
		if _, problem := align(doc, bad); problem == "" {
			t.Errorf("change outside destinations not detected in %q", bad)
		}
	}
	// a destination replaced by something that is not a rewriting of it
	if _, problem := align(doc, strings.Replace(out, "https://h/p/docs/zq1zq.md", "https://h/p/docs/other.md", 1)); problem == "" {
		t.Errorf("lost token not detected")
	}
}

func TestDestinationsFollowGoldmark(t *testing.T) {
	src := "[a](zq1zq) `[b](zq2zq)` <https://x.org/zq3zq> ![i](zq4zq)\n\n[r]: zq5zq\n\n    [c](zq6zq)\n\n```\n[d](zq7zq)\n```\n\n<pre>\n[e](zq8zq)\n</pre>\n\n<!-- [f](zq9zq) -->\n\n\\[g](zq10zq) <span>[h](zq11zq)</span>\n\ntext\n[n]: zq12zq\n"
	got := destinations([]byte(src))
	for _, tok := range []string{"zq1zq", "zq3zq", "zq4zq", "zq5zq", "zq11zq"} {
		if _, ok := got[tok]; !ok {
			t.Errorf("%s should be a destination for goldmark", tok)
		}
	}
	for _, tok := range []string{"zq2zq", "zq6zq", "zq7zq", "zq8zq", "zq9zq", "zq10zq", "zq12zq"} {
		if _, ok := got[tok]; ok {
			t.Errorf("%s should not be a destination for goldmark", tok)
		}
	}
}

// The generator's intention and goldmark's reading must agree almost always:
// a construct with two readings would make the oracle meaningless.
func TestGeneratorAgreesWithGoldmark(t *testing.T) {
	r := rand.New(rand.NewSource(11))
	plants, disagree := 0, 0
	for i := 0; i < 1500; i++ {
		doc := GenDoc(r, nil)
		got := destinations([]byte(doc.Src))
		for _, p := range doc.Plants {
			plants++
			intended := p.Kind == "link" || p.Kind == "image" || p.Kind == "refdef" || p.Kind == "autolink" || p.Kind == "html-content"
			if _, isLink := got[p.Token]; isLink != intended {
				disagree++
				if disagree <= 3 {
					t.Logf("disagreement on %s (%s) in %q", p.Token, p.Kind, doc.Src)
				}
			}
			if doc.Src[p.Start:p.End] == "" || !strings.Contains(doc.Src[p.Start:p.End], p.Token) {
				t.Fatalf("plant span of %s does not hold its token: %q", p.Token, doc.Src[p.Start:p.End])
			}
		}
		if n := strings.Count(doc.Src, "zq"); n != 2*len(doc.Plants) {
			t.Fatalf("tokens are not unique or not all planted: %d zq for %d plants in %q", n, len(doc.Plants), doc.Src)
		}
	}
	if disagree*200 > plants {
		t.Errorf("generator and goldmark disagree on %d of %d plants (more than 0.5%%)", disagree, plants)
	}
	t.Logf("%d plants, %d disagreements", plants, disagree)
}
