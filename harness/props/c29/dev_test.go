package c29

import (
	"math/rand"
	"os"
	"sort"
	"strings"
	"testing"
)

// TestDevClasses prints the first witness of every violation class
// (development aid; C29_DEV=1 and VERIF_C29_BIN=<co-process binary>).
func TestDevClasses(t *testing.T) {
	if os.Getenv("C29_DEV") == "" {
		t.Skip("set C29_DEV=1")
	}
	w := &worker{tolerate: map[string]bool{}, seenCls: map[string]bool{}, sigs: map[string]struct{}{}, counts: map[string]int64{}}
	r := rand.New(rand.NewSource(5))
	avoid := map[string]bool{}
	for _, a := range strings.Fields(os.Getenv("C29_AVOID")) {
		avoid[a] = true
	}
	for i := 0; i < 3000; i++ {
		w.checkDoc(GenDoc(r, avoid))
	}
	sort.Strings(w.viol)
	only := os.Getenv("C29_ONLY")
	for _, v := range w.viol {
		if only != "" && !strings.Contains(v, only) {
			continue
		}
		if max := 700; len(v) > max && os.Getenv("C29_FULL") == "" {
			v = v[:max]
		}
		t.Logf("%s\n", v)
	}
	var keys []string
	for k, v := range w.counts {
		if strings.HasPrefix(k, "class:") || strings.HasPrefix(k, "generator_vs") {
			keys = append(keys, k+"="+itoa(v))
		}
	}
	sort.Strings(keys)
	t.Logf("%v", keys)
}

func itoa(v int64) string {
	return strings.TrimSpace(strings.Replace(string(rune('0')), "0", "", 1) + sprint(v))
}

func sprint(v int64) string {
	if v == 0 {
		return "0"
	}
	s := ""
	for v > 0 {
		s = string(rune('0'+v%10)) + s
		v /= 10
	}
	return s
}
