package c27

import (
	"reflect"
	"sort"
	"testing"

	"github.com/open2b/scriggo/ast"

	"verif/gen/astgen"
	"verif/oracle/astrefl"
)

// The reflective detection of "declares its own String method" must agree with
// the declarations in ast/ast.go.
func TestHasOwnString(t *testing.T) {
	want, err := astgen.StringTypes(astgen.RepoDir())
	if err != nil {
		t.Fatal(err)
	}
	nodes := []ast.Node{
		&ast.ArrayType{}, &ast.Assignment{}, &ast.BasicLiteral{}, &ast.BinaryOperator{}, &ast.Block{}, &ast.Break{}, &ast.Call{},
		&ast.Case{}, &ast.ChanType{}, &ast.Comment{}, &ast.CompositeLiteral{}, &ast.Const{}, &ast.Continue{}, &ast.Default{},
		&ast.Defer{}, &ast.Extends{}, &ast.Fallthrough{}, &ast.For{}, &ast.ForIn{}, &ast.ForRange{}, &ast.Func{}, &ast.FuncType{},
		&ast.Go{}, &ast.Goto{}, &ast.Identifier{}, &ast.If{}, &ast.Import{}, &ast.Index{}, &ast.Interface{}, &ast.Label{},
		&ast.MapType{}, &ast.Package{}, &ast.Placeholder{}, &ast.Raw{}, &ast.Render{}, &ast.Return{}, &ast.Select{}, &ast.SelectCase{},
		&ast.Selector{}, &ast.Send{}, &ast.Show{}, &ast.SliceType{}, &ast.Slicing{}, &ast.Statements{}, &ast.StructType{}, &ast.Switch{},
		&ast.Text{}, &ast.Tree{}, &ast.TypeAssertion{}, &ast.TypeDeclaration{}, &ast.TypeSwitch{}, &ast.UnaryOperator{}, &ast.URL{},
		&ast.Using{}, &ast.Var{},
	}
	all, _ := astgen.NodeTypes(astgen.RepoDir())
	if len(nodes) != len(all) {
		t.Errorf("test lists %d node types, ast.go declares %d: %v", len(nodes), len(all), all)
	}
	var got []string
	for _, n := range nodes {
		if hasOwnString(n) {
			got = append(got, astrefl.TypeName(n))
		}
	}
	sort.Strings(got)
	// Field, KeyValue, Parameter, Position and the enum types have String but are not nodes
	var wantNodes []string
	isNode := map[string]bool{}
	for _, a := range all {
		isNode[a] = true
	}
	for _, w := range want {
		if isNode[w] {
			wantNodes = append(wantNodes, w)
		}
	}
	if !reflect.DeepEqual(got, wantNodes) {
		t.Errorf("own String detected on %v\nast.go declares String on %v", got, wantNodes)
	}
}
