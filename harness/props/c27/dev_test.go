package c27

import (
	"math/rand"
	"os"
	"sort"
	"testing"

	"github.com/open2b/scriggo/ast"

	"verif/gen/astgen"
)

// TestDevClasses prints the first witness of every violation class found on
// the corpus sample and generated sources (development aid; run with C27_DEV=1).
func TestDevClasses(t *testing.T) {
	if os.Getenv("C27_DEV") == "" {
		t.Skip("set C27_DEV=1")
	}
	corpus, err := astgen.Corpus(astgen.RepoDir())
	if err != nil {
		t.Fatal(err)
	}
	srcs := append(corpus, astgen.NewGen(rand.New(rand.NewSource(7))).Generate(1600, "gen")...)
	ast.VerifSetExpandedPrint(true)
	w := newWorker(nil)
	for _, s := range srcs {
		trees, _ := astgen.Parse(s)
		for _, p := range trees {
			if p.Origin == "template-expanded" {
				continue
			}
			w.tree(s, p)
		}
	}
	sort.Slice(w.viol, func(i, j int) bool { return w.viol[i].class < w.viol[j].class })
	for _, v := range w.viol {
		d := v.detail
		if len(d) > 900 && os.Getenv("C27_FULL") == "" {
			d = d[:900]
		}
		t.Logf("[%s] x%d %s\n", v.class, w.counts["class:"+v.class], d)
	}
}
