// Package c27 checks that the String form of every expression and simple
// statement the parser produces parses back to a structurally identical node.
//
// Domain (DESIGN.md C27): String() is a source form for expressions and simple
// statements, a description for Block and Func ("block statement", "func
// literal", ...); composite literals are printed completely only with the
// package's expandedPrint switch, which the check turns on. Nodes without a
// String method, description nodes and nodes that contain one are counted, not
// judged.
//
// Oracle: the node is printed, the text is wrapped in the smallest source of
// the same syntax family (program or template, same format) in which such a
// node can occur, parsed with the real parser, and the re-parsed node is
// compared with the original by reflection (package astrefl), ignoring
// positions and the number of redundant parentheses.
package c27

import (
	"fmt"
	"reflect"
	"runtime"
	"sort"
	"strings"
	"sync"

	"github.com/open2b/scriggo"
	"github.com/open2b/scriggo/ast"

	"verif/core"
	"verif/gen/astgen"
	"verif/oracle/astrefl"
)

type prop struct{}

func init() { core.Register(prop{}) }

func (prop) ID() string    { return "C27" }
func (prop) Level() string { return "exploration" }

// CaseData is one batch of sources.
type CaseData struct {
	Sources  []astgen.Source `json:"sources"`
	Tolerate []string        `json:"tolerate,omitempty"` // violation classes recorded as open findings
}

func (prop) Drive(d *core.Driver) error {
	repo := astgen.RepoDir()
	want, err := astgen.NodeTypes(repo)
	if err != nil {
		return err
	}
	corpus, err := astgen.Corpus(repo)
	if err != nil {
		return err
	}
	var tolerate []string
	for _, c := range openScopes {
		if d.InScope(c) {
			tolerate = append(tolerate, c)
		}
	}
	r := d.Rand("corpus")
	nCorpus := d.N(900, len(corpus))
	if nCorpus > len(corpus) {
		nCorpus = len(corpus)
	}
	perm := r.Perm(len(corpus))[:nCorpus]
	sort.Ints(perm)
	var srcs []astgen.Source
	for _, i := range perm {
		srcs = append(srcs, corpus[i])
	}
	g := astgen.NewGen(d.Rand("gen"))
	srcs = append(srcs, g.Generate(d.N(2400, 200000), "gen")...)
	var cases []core.Case
	const batch = 12
	// In front of the random batches, identical at every seed and in both tiers:
	// the systematic enumeration of type shapes in every position where String
	// decides on parentheses around a type (conversions, assertions, unary
	// operands, results, parameters, composite literals).
	enum := astgen.EnumTypeShapes()
	for i := 0; i < len(enum); i += 24 {
		j := i + 24
		if j > len(enum) {
			j = len(enum)
		}
		cases = append(cases, core.NewCase(fmt.Sprintf("enum-%d", i/24), CaseData{Sources: enum[i:j], Tolerate: tolerate}))
	}
	d.T.Set("enumerated_type_shape_sources", len(enum))
	for i := 0; i < len(srcs); i += batch {
		j := i + batch
		if j > len(srcs) {
			j = len(srcs)
		}
		cases = append(cases, core.NewCase(fmt.Sprintf("batch-%d", i/batch), CaseData{Sources: srcs[i:j], Tolerate: tolerate}))
	}
	d.T.Rule = "every node of every tree parsed from a seeded sample of the repository corpora (test/compare/testdata programs and templates, string literals of the *_test.go files) and from grammar-generated programs, templates, statement lists and expressions: if the node has a source-form String (expressions and simple statements without function literals), String() is re-parsed inside a minimal wrapper of the same syntax family and the result compared reflectively with the node (positions and redundant parentheses ignored). distinct_nontrivial counts distinct (node type, child edge) pairs among judged nodes plus distinct operator pairings (parent operator, child operator, side)"
	d.T.Rule += "; in front of them, identical at every seed: 6500 statements enumerating type shapes (14 leaves wrapped 1-3 deep in pointer, slice, array, map key, map value, channel directions, func result/parameter/variadic) as conversion callee, assertion type, unary operand, variable/result/parameter type, composite literal type, new/make argument"
	d.T.Assumptions = []string{
		"domain restriction of DESIGN.md C27: nodes without String, Block/Func descriptions and nodes containing them are counted (monitor counts out_of_domain:*) and not judged; expandedPrint is on",
		"the number of parentheses stored on an expression is concrete syntax like positions: String() normalises it, the comparison ignores it, but operator nesting must be identical",
		"Show.Context depends on the text around the statement, not on the statement: ignored",
		"the Assignment of a range clause and the synthetic '_ = x.(type)' of a type switch without binding are parts of compound statements, not statements: not judged (their operands are)",
	}
	d.T.Sample(map[string]any{"source": srcs[0].Name, "kind": srcs[0].Kind})
	if len(srcs) > nCorpus+2 {
		d.T.Sample(srcs[nCorpus])
		d.T.Sample(srcs[nCorpus+2])
	}
	res := d.Run(cases, core.RunOpts{})
	seen := map[string]bool{}
	judged := map[string]bool{}
	for _, r := range res {
		for k := range r.Counts {
			if strings.HasPrefix(k, "seen:") {
				seen[strings.TrimPrefix(k, "seen:")] = true
			}
			if strings.HasPrefix(k, "judged:") {
				judged[strings.TrimPrefix(k, "judged:")] = true
			}
		}
	}
	var missing, judgedTypes []string
	for _, w := range want {
		if !seen[w] {
			missing = append(missing, w)
		}
		if judged[w] {
			judgedTypes = append(judgedTypes, w)
		}
	}
	d.T.Set("ast_node_types", len(want))
	d.T.Set("ast_node_types_observed", len(want)-len(missing))
	d.T.Set("ast_node_types_never_observed", missing)
	d.T.Set("ast_node_types_judged", judgedTypes)
	d.T.Set("sources", map[string]int{"corpus_total": len(corpus), "corpus_used": nCorpus, "generated": len(srcs) - nCorpus})
	d.T.Set("tolerated_classes", tolerate)
	return nil
}

type violation struct{ class, detail string }

type worker struct {
	tolerate map[string]bool
	viol     []violation
	seenCls  map[string]bool
	sigs     map[string]struct{}
	counts   map[string]int64
	evals    int64
}

func (w *worker) report(class, detail string) {
	if w.tolerate[class] {
		w.counts["tolerated:"+class]++
		return
	}
	w.counts["violations"]++
	w.counts["class:"+class]++
	if w.seenCls[class] {
		return
	}
	w.seenCls[class] = true
	w.viol = append(w.viol, violation{class, detail})
}

func newWorker(tolerate []string) *worker {
	w := &worker{tolerate: map[string]bool{}, seenCls: map[string]bool{}, sigs: map[string]struct{}{}, counts: map[string]int64{}}
	for _, t := range tolerate {
		w.tolerate[t] = true
	}
	return w
}

func (prop) Work(c core.Case) core.Result {
	var cd CaseData
	c.Decode(&cd)
	ast.VerifSetExpandedPrint(true)
	w := newWorker(cd.Tolerate)
	for _, src := range cd.Sources {
		trees, st := astgen.Parse(src)
		w.counts["sources"]++
		w.counts["rejected_interpretations"] += int64(st.Rejected)
		w.counts["parser_panics"] += int64(len(st.ParsePanic))
		for _, p := range trees {
			if p.Origin == "template-expanded" {
				continue // same nodes as the unexpanded trees of the same files
			}
			w.tree(src, p)
		}
	}
	res := core.Result{Status: core.OK, Evals: w.evals, Counts: w.counts}
	for s := range w.sigs {
		res.Sigs = append(res.Sigs, s)
	}
	sort.Strings(res.Sigs)
	if w.evals == 0 {
		res.Status = core.Skip
		res.Detail = "nothing in the domain was parsed from these sources"
	}
	if len(w.viol) > 0 {
		res.Status = core.Violation
		var b strings.Builder
		for i, v := range w.viol {
			if i >= 12 {
				fmt.Fprintf(&b, "… and %d more classes\n", len(w.viol)-i)
				break
			}
			fmt.Fprintf(&b, "[%s] %s\n", v.class, v.detail)
		}
		res.Detail = b.String()
	}
	return res
}

var nodesOpts = astrefl.Options{SkipTrees: true}
var cmpOpts = astrefl.Options{SkipTrees: true, IgnoreParen: true, IgnoreFields: map[string]bool{"Show.Context": true}}

type stringer interface{ String() string }

// tree judges every in-domain node of one tree.
func (w *worker) tree(src astgen.Source, p astgen.Parsed) {
	nodes, _ := astrefl.Nodes(p.Tree, nodesOpts)
	w.counts["trees"]++
	// status: 0 fine / not judged, 1 failed, 2 description inside
	status := make([]byte, len(nodes))
	for i := len(nodes) - 1; i >= 0; i-- {
		ref := nodes[i]
		n := ref.Node
		tn := astrefl.TypeName(n)
		w.counts["seen:"+tn]++
		descInside, failedInside := false, false
		for j := i + 1; j < len(nodes) && nodes[j].Depth > ref.Depth; j++ {
			switch status[j] {
			case 1:
				failedInside = true
			case 2:
				descInside = true
			}
		}
		if failedInside {
			status[i] = 1
		}
		st, ok := n.(stringer)
		ok = ok && hasOwnString(n)
		switch {
		case tn == "Block" || tn == "Func":
			status[i] = 2
			w.counts["out_of_domain:description"]++
			continue
		case !ok:
			w.counts["out_of_domain:no_String_method"]++
			if descInside {
				status[i] = 2
			}
			continue
		case descInside:
			status[i] = 2
			w.counts["out_of_domain:contains_description"]++
			continue
		case tn == "Text" || tn == "Placeholder":
			w.counts["out_of_domain:text"]++
			continue
		case tn == "Assignment" && ref.Edge == "ForRange.Assignment":
			w.counts["out_of_domain:range_clause"]++
			continue
		case tn == "Assignment" && ref.Edge == "TypeSwitch.Assignment" && n.(*ast.Assignment).Type == ast.AssignmentSimple:
			w.counts["out_of_domain:synthetic_type_switch_assignment"]++
			continue
		case tn == "FuncType" && n.(*ast.FuncType).Macro && len(n.(*ast.FuncType).Result) == 0:
			// the signature of a macro declaration without result: a macro type
			// literal always has a result, so this has no source form
			w.counts["out_of_domain:macro_declaration_signature"]++
			continue
		case neverValid(n):
			// no valid source contains it; if it prints badly a parent would
			// fail too, so it counts as failed for the attribution
			w.counts["out_of_domain:never_valid_source"]++
			status[i] = 2
			continue
		case tn == "Identifier" && !plainIdentifier(n.(*ast.Identifier).Name):
			w.counts["out_of_domain:special_identifier"]++
			continue
		}
		if failedInside {
			w.counts["propagated_failures"]++
			continue
		}
		w.evals++
		w.counts["judged:"+tn]++
		w.signature(ref)
		var s string
		val, panicked, stack := core.Guard(func() { s = st.String() })
		if panicked {
			status[i] = 1
			culprit := ""
			for _, c := range astrefl.Children(n, nodesOpts) {
				if cs, ok := c.Node.(stringer); ok && !c.NilPtr {
					if _, pp, _ := core.Guard(func() { _ = cs.String() }); pp {
						culprit = fmt.Sprintf(" (the String of its %s child reached through %s panics too; that child was not judged: %s)", astrefl.TypeName(c.Node), c.Edge, core.Truncate(astrefl.Fingerprint(c.Node), 300))
					}
				}
			}
			w.report("string-panic:"+tn+"."+firstNilField(n), fmt.Sprintf("%s.String() panicked: %v%s; %s; source: %s\n%s", tn, val, culprit, where(p, n), snippet(src, p), frames(stack)))
			continue
		}
		got, perr := reparse(p, n, s)
		if got == nil {
			status[i] = 1
			w.report("unparsable:"+tn+hint(n), fmt.Sprintf("String() = %q does not parse back (%v); %s; source: %s", s, perr, where(p, n), snippet(src, p)))
			continue
		}
		if diff := astrefl.Diff(n, got, cmpOpts); diff != "" {
			status[i] = 1
			w.report("differs:"+tn+diffField(diff)+hint(n), fmt.Sprintf("String() = %q parses to a different tree: %s; %s; source: %s", s, diff, where(p, n), snippet(src, p)))
		}
	}
}

func plainIdentifier(name string) bool {
	if name == "" || name == "." || name == "_" || strings.HasPrefix(name, "$") {
		return false
	}
	return true
}

// neverValid reports constructs the parser accepts but no valid source can
// contain, and whose printed form is lexically different from their source: a
// selector or type assertion applied to a number literal ("(1).f" prints as
// "1.f", a float followed by f), and a variadic call whose last argument ends
// in a number literal ("f(5 ...)" prints as "f(5...)"); neither type-checks in
// Go or Scriggo whatever the context.
func neverValid(n ast.Node) bool {
	switch n := n.(type) {
	case *ast.Selector:
		// also below unary operators: "(-(0x1F)).F" (a selector prints a unary
		// operand without parentheses, open finding C27-F9)
		e := n.Expr
		for isUnary(e) {
			e = e.(*ast.UnaryOperator).Expr
		}
		return isNumber(e)
	case *ast.TypeAssertion:
		return isNumber(n.Expr)
	case *ast.Call:
		return n.IsVariadic && len(n.Args) > 0 && endsInNumber(n.Args[len(n.Args)-1])
	case *ast.FuncType:
		// "[]func(int)(x + 1)": the parser reads "(x + 1)" as the result list of
		// the function type; a value expression is never a result type
		for _, r := range n.Result {
			if r.Type != nil && notAType(r.Type) {
				return true
			}
		}
	}
	return false
}

// notAType reports expressions that cannot denote a type whatever they refer to.
func notAType(e ast.Expression) bool {
	switch e := e.(type) {
	case *ast.BasicLiteral, *ast.Render, *ast.Default, *ast.BinaryOperator, *ast.Call, *ast.CompositeLiteral,
		*ast.Func, *ast.Slicing, *ast.TypeAssertion, *ast.Index:
		return true
	case *ast.UnaryOperator:
		return e.Op != ast.OperatorPointer || notAType(e.Expr)
	}
	return false
}

func isUnary(e ast.Expression) bool {
	_, ok := e.(*ast.UnaryOperator)
	return ok
}

func isNumber(e ast.Expression) bool {
	lit, ok := e.(*ast.BasicLiteral)
	return ok && (lit.Type == ast.IntLiteral || lit.Type == ast.FloatLiteral || lit.Type == ast.ImaginaryLiteral)
}

func endsInNumber(e ast.Expression) bool {
	switch e := e.(type) {
	case *ast.BasicLiteral:
		return isNumber(e)
	case *ast.BinaryOperator:
		return endsInNumber(e.Expr2)
	case *ast.UnaryOperator:
		return endsInNumber(e.Expr)
	case *ast.Default:
		return endsInNumber(e.Expr2)
	}
	return false
}

// signature records what kind of construct was judged.
func (w *worker) signature(ref astrefl.NodeRef) {
	n := ref.Node
	tn := astrefl.TypeName(n)
	for _, c := range astrefl.Children(n, nodesOpts) {
		if c.NilPtr {
			continue
		}
		w.sigs[tn+">"+c.Edge+"="+astrefl.TypeName(c.Node)] = struct{}{}
		if po, ok := n.(ast.Operator); ok {
			if co, ok := c.Node.(ast.Operator); ok {
				w.sigs[fmt.Sprintf("op:%s/%s/%s", po.Operator(), co.Operator(), c.Edge)] = struct{}{}
			}
		}
	}
	w.sigs[tn] = struct{}{}
}

// hint narrows a violation class by the construct involved: the type of the
// operand for postfix forms, the operator for operators.
func hint(n ast.Node) string {
	switch n := n.(type) {
	case *ast.Selector:
		return "/operand=" + astrefl.TypeName(n.Expr)
	case *ast.Index:
		return "/operand=" + astrefl.TypeName(n.Expr)
	case *ast.Slicing:
		return "/operand=" + astrefl.TypeName(n.Expr)
	case *ast.TypeAssertion:
		return "/operand=" + astrefl.TypeName(n.Expr)
	case *ast.Call:
		return "/func=" + astrefl.TypeName(n.Func)
	case *ast.UnaryOperator:
		return "/op=" + n.Op.String() + "/operand=" + astrefl.TypeName(n.Expr)
	case *ast.BinaryOperator:
		return "/operands=" + astrefl.TypeName(n.Expr1) + "," + astrefl.TypeName(n.Expr2)
	case *ast.Assignment:
		return fmt.Sprintf("/type=%d", n.Type)
	case *ast.ChanType:
		return "/elem=" + astrefl.TypeName(n.ElementType)
	}
	return ""
}

// firstNilField names the first nil interface or pointer field of n (the usual
// reason for a panic in String).
func firstNilField(n ast.Node) string {
	for _, c := range nilFields(n) {
		return c
	}
	return ""
}

func where(p astgen.Parsed, n ast.Node) string {
	pos := "-"
	func() {
		defer func() { recover() }()
		if pp := n.Pos(); pp != nil {
			pos = pp.String()
		}
	}()
	return fmt.Sprintf("source %q (%s) node %s at %s", p.Name, p.Origin, astrefl.TypeName(n), pos)
}

func snippet(src astgen.Source, p astgen.Parsed) string {
	var s string
	switch src.Kind {
	case "stmts", "expr":
		s = src.Text
	default:
		for name, text := range src.Files {
			if strings.HasSuffix(p.Name, name) || len(src.Files) == 1 {
				s = text
			}
		}
	}
	return core.Truncate(s, 300)
}

func diffField(diff string) string {
	i := strings.Index(diff, ").")
	if i < 0 {
		return ""
	}
	rest := diff[i+2:]
	end := strings.IndexAny(rest, ".[(: ")
	if end < 0 {
		end = len(rest)
	}
	return "." + rest[:end]
}

func frames(stack string) string {
	var out []string
	for _, l := range strings.Split(stack, "\n") {
		if strings.Contains(l, "/ast/ast.go") {
			out = append(out, strings.TrimSpace(l))
			if len(out) >= 3 {
				break
			}
		}
	}
	return strings.Join(out, " | ")
}

// ---------------------------------------------------------------- re-parsing

type wrapper struct {
	pre, post string
	pick      func(t *ast.Tree) ast.Node
}

func safePick(f func() ast.Node) (n ast.Node) {
	defer func() {
		if recover() != nil {
			n = nil
		}
	}()
	return f()
}

// one returns the only element of a list, or panics (caught by safePick): a
// printed form that parses to several nodes is not a round trip.
func one[T any](xs []T) T {
	if len(xs) != 1 {
		panic("not exactly one node")
	}
	return xs[0]
}

func progDecl(t *ast.Tree) ast.Node {
	return one(one(t.Nodes).(*ast.Package).Declarations)
}

func progBody(t *ast.Tree) []ast.Node {
	return []ast.Node{one(progDecl(t).(*ast.Func).Body.Nodes)}
}

func guardOf(n ast.Node, wantAssignment bool) ast.Node {
	ts := n.(*ast.TypeSwitch)
	if wantAssignment {
		return ts.Assignment
	}
	return ts.Assignment.Rhs[0]
}

// wrappers returns the contexts in which the printed form of n may be placed,
// most specific first.
func wrappers(p astgen.Parsed, n ast.Node) []wrapper {
	_, isExpr := n.(ast.Expression)
	_, isAssign := n.(*ast.Assignment)
	var ws []wrapper
	if cl, ok := n.(*ast.CompositeLiteral); ok && cl.Type == nil {
		// a literal with elided type only occurs as element or key of a literal
		elem := func(e ast.Expression) ast.Node { return one(e.(*ast.CompositeLiteral).KeyValues).Value }
		if p.Template {
			return []wrapper{{"{{ []T{", "} }}", func(t *ast.Tree) ast.Node { return elem(one(one(t.Nodes).(*ast.Show).Expressions)) }}}
		}
		return []wrapper{{"package main\nvar _ = []T{", "}\n", func(t *ast.Tree) ast.Node { return elem(one(progDecl(t).(*ast.Var).Rhs)) }}}
	}
	if !p.Template {
		if isExpr {
			ws = append(ws,
				wrapper{"package main\nvar _ = ", "\n", func(t *ast.Tree) ast.Node {
					return one(progDecl(t).(*ast.Var).Rhs)
				}},
				wrapper{"package main\nvar _ ", "\n", func(t *ast.Tree) ast.Node {
					return progDecl(t).(*ast.Var).Type
				}},
				wrapper{"package main\nfunc _() {\nswitch ", " {\n}\n}\n", func(t *ast.Tree) ast.Node { return guardOf(progBody(t)[0], false) }},
			)
			return ws
		}
		if _, ok := n.(*ast.Import); ok {
			return []wrapper{{"package main\n", "\n", progDecl}}
		}
		ws = append(ws, wrapper{"package main\nfunc _() {\n", "\n}\n", func(t *ast.Tree) ast.Node { return progBody(t)[0] }})
		if isAssign {
			ws = append(ws, wrapper{"package main\nfunc _() {\nswitch ", " {\n}\n}\n", func(t *ast.Tree) ast.Node { return guardOf(progBody(t)[0], true) }})
		}
		return ws
	}
	if isExpr {
		ws = append(ws,
			wrapper{"{{ ", " }}", func(t *ast.Tree) ast.Node { return one(one(t.Nodes).(*ast.Show).Expressions) }},
			wrapper{"{% var _ ", " %}", func(t *ast.Tree) ast.Node { return one(t.Nodes).(*ast.Var).Type }},
			wrapper{"{% switch ", " %}{% end %}", func(t *ast.Tree) ast.Node { return guardOf(one(t.Nodes), false) }},
			// an expression that needs the statement syntax
			wrapper{"{% ", " %}", func(t *ast.Tree) ast.Node { return one(t.Nodes) }},
		)
		return ws
	}
	ws = append(ws, wrapper{"{% ", " %}", func(t *ast.Tree) ast.Node { return one(t.Nodes) }})
	// statements only allowed in a function body (goto)
	ws = append(ws, wrapper{"{% _ = func() { ", " } %}", func(t *ast.Tree) ast.Node {
		return one(one(one(t.Nodes).(*ast.Assignment).Rhs).(*ast.Func).Body.Nodes)
	}})
	if isAssign {
		ws = append(ws, wrapper{"{% switch ", " %}{% end %}", func(t *ast.Tree) ast.Node { return guardOf(one(t.Nodes), true) }})
	}
	return ws
}

// reparse parses the printed form s of node n in the syntax family of p and
// returns the corresponding node, or nil and the first parse error.
func reparse(p astgen.Parsed, n ast.Node, s string) (ast.Node, error) {
	var firstErr error
	for _, w := range wrappers(p, n) {
		text := w.pre + s + w.post
		var tree *ast.Tree
		var err error
		val, panicked, _ := core.Guard(func() {
			if p.Template {
				tree, err = scriggo.VerifParseTemplateSource([]byte(text), scriggo.Format(p.Format), false, false)
				if err != nil {
					if t2, err2 := scriggo.VerifParseTemplateSource([]byte(text), scriggo.Format(p.Format), true, false); err2 == nil {
						tree, err = t2, nil
					}
				}
			} else {
				tree, err = scriggo.VerifParseProgram(scriggo.Files{"main.go": []byte(text)})
			}
		})
		if panicked {
			err = fmt.Errorf("parser panicked: %v", val)
		}
		if err != nil || tree == nil {
			if firstErr == nil {
				firstErr = err
			}
			continue
		}
		if got := safePick(func() ast.Node { return w.pick(tree) }); got != nil && !astrefl.IsNilNode(got) {
			return got, nil
		}
		if firstErr == nil {
			firstErr = fmt.Errorf("parsed, but not as one %s in the wrapper %q…%q", astrefl.TypeName(n), w.pre, w.post)
		}
	}
	return nil, firstErr
}

// nilFields lists the exported interface and pointer fields of n that are nil.
func nilFields(n ast.Node) []string {
	v := reflect.ValueOf(n)
	if v.Kind() != reflect.Ptr || v.IsNil() {
		return nil
	}
	v = v.Elem()
	var out []string
	for i := 0; i < v.NumField(); i++ {
		f := v.Type().Field(i)
		if !f.IsExported() || f.Name == "Position" {
			continue
		}
		if k := v.Field(i).Kind(); (k == reflect.Interface || k == reflect.Ptr) && v.Field(i).IsNil() {
			out = append(out, f.Name+"=nil")
		}
	}
	return out
}

var ownString sync.Map // reflect.Type -> bool

// hasOwnString reports whether the type of n declares a String method of its
// own. Every node also has the String method promoted from the embedded
// *Position ("line:column"), which is not a source form; the compiler marks
// such promotion wrappers as autogenerated.
func hasOwnString(n ast.Node) bool {
	t := reflect.TypeOf(n)
	if v, ok := ownString.Load(t); ok {
		return v.(bool)
	}
	own := false
	if m, ok := t.MethodByName("String"); ok {
		pc := m.Func.Pointer()
		if f := runtime.FuncForPC(pc); f != nil {
			file, _ := f.FileLine(pc)
			own = file != "<autogenerated>"
		}
	}
	ownString.Store(t, own)
	return own
}
