package c30

import (
	"fmt"
	"math/rand"
	"strings"
)

// Constant-heavy fragments for the history relation ("the build of P does not
// depend on what the process built before"). What is shared between the
// compilations of one process is, above all, the universe: the predeclared
// constants true / false / nil / iota, the predeclared types and builtins. So
// these sources use the predeclared constants and untyped constants at as many
// different types as possible — defined types over every basic kind (the same
// type NAME stands for different kinds in different sources), nillable defined
// types, interface boxing and assertions, typed and untyped const and iota
// groups used at several types, composite literals, switch cases, channel sends,
// function parameters and results — and print everything they compute.

type ckind struct {
	under string
	class string   // bool | int | float | complex | string
	lits  []string // untyped constant expressions valid for the kind
}

var ckinds = []ckind{
	{"bool", "bool", []string{"true", "false", "!true", "1 < 2", "true && !false"}},
	{"int", "int", []string{"1", "-3", "'a'", "1 << 4", "7 / 2"}},
	{"int8", "int", []string{"1", "-128", "'a' - 'b'", "127"}},
	{"int16", "int", []string{"300", "-3", "1 << 10"}},
	{"int32", "int", []string{"'x'", "1 << 20", "-7"}},
	{"int64", "int", []string{"1 << 40", "-1", "9"}},
	{"uint", "int", []string{"0", "3", "1 << 5"}},
	{"uint8", "int", []string{"255", "'y'", "0"}},
	{"uint16", "int", []string{"65535", "2"}},
	{"uint32", "int", []string{"1 << 31", "5"}},
	{"uint64", "int", []string{"1 << 63", "11"}},
	{"uintptr", "int", []string{"8", "0"}},
	{"float32", "float", []string{"1.5", "2", "1e3", "7 / 2.0", "'a'"}},
	{"float64", "float", []string{"0.25", "3", "1e-3", "1 << 3"}},
	{"complex64", "complex", []string{"2i", "1", "1.5 + 2i"}},
	{"complex128", "complex", []string{"-1i", "4", "0.5 - 0.5i", "'a'"}},
	{"string", "string", []string{`"s"`, "`r`", `"a" + "b"`, `""`}},
}

var nillable = []string{"[]int", "map[string]int", "func()", "*int", "chan int", "interface{}", "[]bool", "func(bool) bool", "error"}

type cdef struct {
	name string
	k    ckind
}

type constGen struct {
	r     *rand.Rand
	n     int
	defs  []cdef // defined types over basic kinds
	nils  []cdef // defined nillable types (k.under is the underlying type)
	decls []string
	body  []string
}

func (g *constGen) id(p string) string { g.n++; return fmt.Sprintf("%s%d", p, g.n) }

var ctypeNames = []string{"B", "T", "Flag", "N", "K", "Level", "Str", "Ratio", "Z", "Bool", "Int", "Number"}

func (g *constGen) makeTypes() {
	r := g.r
	names := append([]string{}, ctypeNames...)
	r.Shuffle(len(names), func(i, j int) { names[i], names[j] = names[j], names[i] })
	n := 2 + r.Intn(6)
	for i := 0; i < n; i++ {
		k := pick(r, ckinds)
		if i == 0 || r.Intn(3) == 0 {
			k = ckinds[0] // bool: the predeclared constants true and false
		}
		g.defs = append(g.defs, cdef{names[i], k})
		g.decls = append(g.decls, fmt.Sprintf("type %s %s", names[i], k.under))
	}
	for i := 0; i < r.Intn(4); i++ {
		u := pick(r, nillable)
		name := names[n+i%(len(names)-n)] + fmt.Sprint("N", i)
		g.nils = append(g.nils, cdef{name, ckind{under: u}})
		g.decls = append(g.decls, fmt.Sprintf("type %s %s", name, u))
	}
}

// typ returns a defined or predeclared type of a random kind.
func (g *constGen) typ() cdef {
	r := g.r
	if r.Intn(4) == 0 {
		k := pick(r, ckinds)
		return cdef{k.under, k}
	}
	return pick(r, g.defs)
}

func (g *constGen) typOf(class string) (cdef, bool) {
	var c []cdef
	for _, d := range g.defs {
		if d.k.class == class {
			c = append(c, d)
		}
	}
	if len(c) == 0 {
		return cdef{}, false
	}
	return pick(g.r, c), true
}

func (g *constGen) p(format string, a ...any)  { g.body = append(g.body, fmt.Sprintf(format, a...)) }
func (g *constGen) d(format string, a ...any)  { g.decls = append(g.decls, fmt.Sprintf(format, a...)) }
func (g *constGen) lit(t cdef) string          { return pick(g.r, t.k.lits) }
func (g *constGen) item() {
	r := g.r
	switch r.Intn(16) {
	case 0: // package-level variable of a defined type from a constant
		t := g.typ()
		v := g.id("gv")
		g.d("var %s %s = %s", v, t.name, g.lit(t))
		g.p("println(%s)", v)
	case 1: // local variables, typed and inferred
		t := g.typ()
		v, w := g.id("v"), g.id("w")
		g.p("var %s %s = %s; %s := %s(%s); println(%s, %s, %s == %s)", v, t.name, g.lit(t), w, t.name, g.lit(t), v, w, v, w)
	case 2: // one untyped constant used at several types
		class := pick(r, []string{"int", "int", "float", "bool", "string"})
		k := g.id("k")
		var lit string
		switch class {
		case "int", "float":
			lit = pick(r, []string{"1", "7", "'a'", "1 << 3", "100"})
		case "bool":
			lit = pick(r, []string{"true", "false", "!false"})
		case "string":
			lit = `"k"`
		}
		if r.Intn(2) == 0 {
			g.d("const %s = %s", k, lit)
		} else {
			g.p("const %s = %s", k, lit)
		}
		for _, dt := range g.defs {
			ok := dt.k.class == class || class == "int" && (dt.k.class == "float" || dt.k.class == "complex") || class == "float" && dt.k.class == "complex"
			if !ok {
				continue
			}
			v := g.id("u")
			g.p("var %s %s = %s; println(%s)", v, dt.name, k, v)
		}
		box := g.id("i")
		g.p("var %s interface{} = %s; println(%s)", box, k, assertChain(box, class))
	case 3: // typed and untyped iota groups
		t, ok := g.typOf("int")
		a, b, c := g.id("e"), g.id("e"), g.id("e")
		if !ok || r.Intn(3) == 0 {
			g.d("const (\n\t%s = iota * 2\n\t%s\n\t%s\n)", a, b, c)
			f, okf := g.typOf("float")
			if okf {
				fv := g.id("f")
				g.p("var %s %s = %s; println(%s)", fv, f.name, c, fv)
			}
		} else {
			g.d("const (\n\t%s %s = iota\n\t%s\n\t%s\n)", a, t.name, b, c)
		}
		g.p("println(%s, %s, %s, %s + %s)", a, b, c, b, c)
	case 4: // boxing of predeclared constants and assertions to predeclared and defined types
		box := g.id("i")
		val := pick(r, []string{"true", "false", "1", "1.5", `"s"`, "'r'", "2i", "nil"})
		g.p("var %s interface{} = %s", box, val)
		if val == "nil" {
			g.p("println(%s == nil)", box)
			return
		}
		for i, dt := range g.defs {
			if i > 2 {
				break
			}
			ok := g.id("ok")
			g.p("_, %s := %s.(%s); println(%s)", ok, box, dt.name, ok)
		}
		ok := g.id("ok")
		g.p("_, %s := %s.(bool); println(%s)", ok, box, ok)
		g.p("switch %s.(type) {\n\tcase bool:\n\t\tprintln(\"bool\")\n\tcase int:\n\t\tprintln(\"int\")\n\tcase float64:\n\t\tprintln(\"float64\")\n\tcase string:\n\t\tprintln(\"string\")\n\tcase rune:\n\t\tprintln(\"rune\")\n\tcase complex128:\n\t\tprintln(\"complex128\")\n\tdefault:\n\t\tprintln(\"other\")\n\t}", box)
	case 5: // boxing of values of defined types
		t := g.typ()
		box := g.id("i")
		g.p("var %s interface{} = %s(%s)", box, t.name, g.lit(t))
		ok1, ok2 := g.id("ok"), g.id("ok")
		g.p("_, %s := %s.(%s); _, %s := %s.(%s); println(%s, %s)", ok1, box, t.name, ok2, box, t.k.under, ok1, ok2)
	case 6: // boolean expressions with inferred and defined types
		x, y := g.id("x"), g.id("y")
		g.p("%s := true; %s := !%s || false; println(%s, %s, %s == true, %s != false)", x, y, x, x, y, x, y)
		if t, ok := g.typOf("bool"); ok {
			z := g.id("z")
			g.p("var %s %s = true; if %s == true && !(%s == false) { println(\"yes\", %s, bool(%s), %s(false)) }", z, t.name, z, z, z, z, t.name)
		}
	case 7: // functions with parameters and results of defined types, called with constants
		t := g.typ()
		f := g.id("fn")
		switch t.k.class {
		case "bool":
			g.d("func %s(a %s, bs ...%s) (%s, int) {\n\tif a == true {\n\t\treturn !a, len(bs)\n\t}\n\treturn true, -len(bs)\n}", f, t.name, t.name, t.name)
			g.p("println(%s(true)); println(%s(false, true, false))", f, f)
		case "string":
			g.d("func %s(a %s, bs ...%s) (%s, int) {\n\treturn a + \"!\", len(bs)\n}", f, t.name, t.name, t.name)
			g.p("println(%s(\"a\")); println(%s(\"\", \"x\", \"y\"))", f, f)
		default:
			g.d("func %s(a %s, bs ...%s) (%s, int) {\n\treturn a + 1, len(bs)\n}", f, t.name, t.name, t.name)
			g.p("println(%s(%s)); println(%s(1, 2, 3))", f, g.lit(t), f)
		}
	case 8: // composite literals with constant elements
		t := g.typ()
		s, m, a, st := g.id("s"), g.id("m"), g.id("a"), g.id("st")
		l1, l2 := g.lit(t), g.lit(t)
		g.p("%s := []%s{%s, %s}; println(len(%s), %s[0], %s[1])", s, t.name, l1, l2, s, s, s)
		g.p("%s := [3]%s{1: %s}; println(%s[0], %s[1])", a, t.name, l1, a, a)
		g.p("%s := struct{ X %s; Y bool }{%s, true}; println(%s.X, %s.Y)", st, t.name, l2, st, st)
		if t.k.class == "bool" || t.k.class == "string" || t.k.class == "int" {
			g.p("%s := map[%s]bool{%s: true}; println(len(%s), %s[%s])", m, t.name, l1, m, m, l1)
		}
	case 9: // switch with constant cases
		t := g.typ()
		v := g.id("sv")
		g.p("var %s %s = %s", v, t.name, g.lit(t))
		switch t.k.class {
		case "bool":
			g.p("switch %s {\n\tcase true:\n\t\tprintln(\"t\")\n\tcase false:\n\t\tprintln(\"f\")\n\t}", v)
		case "string":
			g.p("switch %s {\n\tcase \"s\", \"\":\n\t\tprintln(\"s\")\n\tdefault:\n\t\tprintln(\"d\")\n\t}", v)
		case "complex":
			g.p("switch %s {\n\tcase 1:\n\t\tprintln(\"one\")\n\tdefault:\n\t\tprintln(\"d\")\n\t}", v)
		default:
			g.p("switch %s {\n\tcase 1, 3:\n\t\tprintln(\"a\")\n\tcase 0:\n\t\tprintln(\"z\")\n\tdefault:\n\t\tprintln(\"d\")\n\t}", v)
		}
		g.p("switch {\n\tcase %s == (%s):\n\t\tprintln(\"eq\")\n\tcase true:\n\t\tprintln(\"true\")\n\t}", v, g.lit(t))
	case 10: // channels, pointers, new, append, make with constants
		t := g.typ()
		ch, p, s := g.id("ch"), g.id("p"), g.id("s")
		g.p("%s := make(chan %s, 2); %s <- %s; %s <- %s; println(<-%s, <-%s)", ch, t.name, ch, g.lit(t), ch, g.lit(t), ch, ch)
		g.p("%s := new(%s); *%s = %s; println(*%s)", p, t.name, p, g.lit(t), p)
		g.p("%s := append(make([]%s, 1, 4), %s, %s); println(len(%s), cap(%s), %s[0], %s[2])", s, t.name, g.lit(t), g.lit(t), s, s, s, s)
	case 11: // nil at every nillable type, predeclared and defined
		u := pick(r, nillable)
		v := g.id("n")
		g.p("var %s %s = nil; println(%s == nil)", v, u, v)
		if len(g.nils) > 0 {
			t := pick(r, g.nils)
			w := g.id("n")
			g.p("var %s %s = nil; println(%s == nil, %s(nil) == nil)", w, t.name, w, t.name)
			g.d("var %s %s = nil", g.id("gn"), t.name)
		}
		x := g.id("n")
		g.p("var %s interface{} = nil; var %s error = nil; println(%s == nil, %se == nil)", x, x+"e", x, x)
	case 12: // conversions between defined types of one class, constants on both sides
		t1 := g.typ()
		if t2, ok := g.typOf(t1.k.class); ok && t1.k.class != "bool" {
			v := g.id("c")
			lit := g.lit(t2)
			if t1.k.class == "int" {
				lit = pick(r, []string{"1", "0", "7"})
			}
			g.p("%s := %s(%s(%s)); println(%s)", v, t1.name, t2.name, lit, v)
		} else {
			v := g.id("c")
			g.p("%s := %s(%s); println(%s, %s == (%s))", v, t1.name, g.lit(t1), v, v, g.lit(t1))
		}
	case 13: // constant expressions: shifts, len, complex, real/imag, arrays sized by constants
		k := g.id("k")
		g.p("const %s = 3", k)
		g.p("var arr%s [%s + 1]bool; arr%s[%s] = true; println(len(arr%s), arr%s[0], arr%s[%s])", k, k, k, k, k, k, k, k)
		g.p("println(1 << %s, len(\"abc\") * %s, real(complex(%s, 2)), imag(2i), 'a' + %s, %s > 2, %s == 3.0)", k, k, k, k, k, k)
	case 14: // closures capturing and returning constants of defined types
		t := g.typ()
		f := g.id("cl")
		g.p("%s := func(a %s) (%s, bool) { return a, a == (%s) }; println(%s(%s))", f, t.name, t.name, g.lit(t), f, g.lit(t))
	case 15: // defer/recover with constants, labelled-free loops with constant bounds
		t, ok := g.typOf("bool")
		if !ok {
			t = cdef{"bool", ckinds[0]}
		}
		v := g.id("dv")
		g.p("func() { var %s %s; defer func() { println(%s, recover() == nil) }(); %s = true }()", v, t.name, v, v)
		g.p("for i := 0; i < 2; i++ { println(i == 1, i != 1 == false) }")
	}
}

// assertChain returns an expression that tells the dynamic type of a boxed constant.
func assertChain(box, class string) string {
	switch class {
	case "bool":
		return fmt.Sprintf("%s.(bool)", box)
	case "string":
		return fmt.Sprintf("%s.(string)", box)
	}
	return fmt.Sprintf("%s != nil", box)
}

// genConstProgram returns a constant-heavy program. If broken is true a type
// error is added at the end of main: the build fails after everything else has
// been type checked.
func genConstProgram(r *rand.Rand, broken bool) string {
	g := &constGen{r: r}
	g.makeTypes()
	n := 3 + r.Intn(8)
	for i := 0; i < n; i++ {
		g.item()
	}
	if broken {
		t := pick(r, g.defs)
		switch r.Intn(4) {
		case 0:
			g.p("var bad %s = undefinedName; println(bad)", t.name)
		case 1:
			if t.k.class == "string" {
				g.p("var bad %s = true; println(bad)", t.name)
			} else {
				g.p("var bad %s = \"x\"; println(bad)", t.name)
			}
		case 2:
			g.p("var bad bool = %s(%s); println(bad, true, false, nil)", t.name, g.lit(t))
		case 3:
			g.p("true = false")
		}
	}
	decls := append([]string{}, g.decls...)
	var mb strings.Builder
	mb.WriteString("func main() {\n")
	for _, s := range g.body {
		mb.WriteString("\t" + s + "\n")
	}
	mb.WriteString("}")
	decls = append(decls, mb.String())
	r.Shuffle(len(decls), func(i, j int) { decls[i], decls[j] = decls[j], decls[i] })
	return "package main\n\n" + strings.Join(decls, "\n\n") + "\n"
}

// genConstTemplate returns a constant-heavy template (one file). Types are
// declared in the template itself and taken from the globals (Flag, Level,
// Label, Ratio — Go-defined types over bool, int8, string, float64).
func genConstTemplate(r *rand.Rand, broken bool) (map[string]string, string) {
	ext := pick(r, []string{".html", ".html", ".txt", ".js", ".md"})
	var b strings.Builder
	n := 0
	id := func(p string) string { n++; return fmt.Sprintf("%s%d", p, n) }
	boolT := []string{"bool", "Flag"}
	intT := []string{"int", "Level", "int64", "uint8"}
	// declared types: the same names as in programs, over random kinds
	names := append([]string{}, ctypeNames[:6]...)
	r.Shuffle(len(names), func(i, j int) { names[i], names[j] = names[j], names[i] })
	for i := 0; i < 1+r.Intn(3); i++ {
		if names[i] == "Flag" || names[i] == "Level" {
			continue
		}
		if r.Intn(2) == 0 {
			fmt.Fprintf(&b, "{%% type %s bool %%}", names[i])
			boolT = append(boolT, names[i])
		} else {
			fmt.Fprintf(&b, "{%% type %s %s %%}", names[i], pick(r, []string{"int", "int16", "uint32"}))
			intT = append(intT, names[i])
		}
	}
	items := 3 + r.Intn(8)
	for i := 0; i < items; i++ {
		switch r.Intn(13) {
		case 0:
			v := id("b")
			fmt.Fprintf(&b, "{%% var %s %s = %s %%}[{{ %s }}]", v, pick(r, boolT), pick(r, []string{"true", "false", "not true", "1 < 2"}), v)
		case 1:
			fmt.Fprintf(&b, "<i>{{ true }} {{ false }} {{ not false }} {{ true and false }} {{ true or false }}</i>")
		case 2:
			v := id("n")
			fmt.Fprintf(&b, "{%% var %s %s = %s %%}[{{ %s }} {{ %s + 1 }}]", v, pick(r, intT), pick(r, []string{"1", "'a'", "7", "1 << 3"}), v, v)
		case 3:
			k := id("k")
			fmt.Fprintf(&b, "{%% const %s = %s %%}{{ %s }}", k, pick(r, []string{"5", "'c'", "12"}), k)
			fmt.Fprintf(&b, "{%% var %sa %s = %s %%}{%% var %sb Ratio = %s %%}{%% var %sc float32 = %s %%}[{{ %sa }} {{ %sb }} {{ %sc }}]", k, pick(r, intT), k, k, k, k, k, k, k, k)
		case 4:
			v := id("i")
			fmt.Fprintf(&b, "{%% var %s interface{} = %s %%}", v, pick(r, []string{"true", "false", "1", `"s"`, "1.5"}))
			for _, t := range []string{"bool", pick(r, boolT), "int", "string"} {
				fmt.Fprintf(&b, "{%% if _, ok := %s.(%s); ok %%}%s{%% else %%}-{%% end if %%}", v, t, t)
			}
		case 5:
			v := id("f")
			t := pick(r, boolT)
			fmt.Fprintf(&b, "{%% %s := %s(%s) %%}{%% if %s == true %%}T{%% else if %s == false %%}F{%% end if %%}{{ %s }}", v, t, pick(r, []string{"true", "false"}), v, v, v)
		case 6:
			m := id("M")
			t := pick(r, boolT)
			fmt.Fprintf(&b, "{%% macro %s(f %s, n %s) %%}({{ f }},{{ n }}){%% end macro %%}{{ %s(true, 1) }}{{ %s(false, 'b') }}", m, t, pick(r, intT), m, m)
		case 7:
			t := pick(r, boolT)
			fmt.Fprintf(&b, "{%% switch %s(true) %%}{%% case true %%}t{%% case false %%}f{%% end switch %%}", t)
		case 8:
			v := id("p")
			fmt.Fprintf(&b, "{%% var %s *int = nil %%}{%% var %se error = nil %%}{%% var %si interface{} = nil %%}{{ %s == nil }}{{ %se == nil }}{{ %si == nil }}", v, v, v, v, v, v)
		case 9:
			v := id("s")
			t := pick(r, boolT)
			fmt.Fprintf(&b, "{%% %s := []%s{true, false, true} %%}{{ len(%s) }}{%% for x in %s %%}{{ x }},{%% end for %%}", v, t, v, v)
		case 10:
			fmt.Fprintf(&b, "{{ 5 }} {{ 1.5 }} {{ \"s<\" }} {{ 'a' }} {{ 1 << 10 }} {{ 7 / 2 }} {{ 7 / 2.0 }}")
		case 11:
			v := id("l")
			fmt.Fprintf(&b, "{%% var %s Label = \"x\" %%}{%% var %sr Ratio = 2 %%}[{{ %s }} {{ %sr * 1.5 }} {{ %sr > 1 }}]", v, v, v, v, v)
		case 12:
			v := id("c")
			bt := pick(r, boolT)
			fmt.Fprintf(&b, "{%%%%\n\t%s := func(a %s) (%s, bool) { return a, a == true }\n\tx%s, y%s := %s(false)\n\tshow x%s, \" \", y%s\n%%%%}", v, bt, bt, v, v, v, v, v)
		}
		b.WriteString("\n")
	}
	if broken {
		switch r.Intn(3) {
		case 0:
			b.WriteString("{{ undefinedName }}")
		case 1:
			b.WriteString("{% var bad Flag = \"x\" %}{{ bad }}")
		case 2:
			b.WriteString("{% true = false %}")
		}
	}
	return map[string]string{"index" + ext: b.String()}, "index" + ext
}
