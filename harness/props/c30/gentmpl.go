package c30

import (
	"fmt"
	"math/rand"
	"strings"
)

// Template generator for C30: multi-file templates (extends, import, render),
// macros, many globals (variables with and without a value, constants,
// functions, a type, a package), closures in {%% %%} blocks. The set of globals
// is fixed (see tmplGlobals); each template uses a random subset, so UsedVars is
// non-trivial. Output depends only on the source and the fixed values.

const (
	nGlobInt = 24 // gi0.. : int variables with a value
	nGlobStr = 10 // gs0.. : string variables with a value
	nRunInt  = 6  // ri0.. : int variables whose value comes from the Run vars
	nRunStr  = 4  // rs0.. : string variables whose value comes from the Run vars
	nGlobCon = 5  // gc0.. : integer constants
)

type tmplGen struct {
	r      *rand.Rand
	files  map[string]string
	ext    string
	nPart  int
	macros []tmacro // macros callable in the file being generated
	tmp    int
	goStmt bool
	up     string // prefix of render paths ("" in the root, "../" or "/" in a sub-directory)
}

type tmacro struct {
	call string // callable expression prefix, e.g. "M1" or "m.M1"
	sig  int    // 0: (), 1: (a int), 2: (a int, s string)
}

type tscope struct {
	ints []string
	strs []string
	// noRender: inside contexts where render is fine but we bound recursion
	depth int
}

func (g *tmplGen) intExpr(depth int, sc tscope) string {
	r := g.r
	if depth <= 0 {
		switch n := r.Intn(10); {
		case n < 2:
			return fmt.Sprint(r.Intn(30))
		case n < 5 && len(sc.ints) > 0:
			return pick(r, sc.ints)
		case n < 7:
			return fmt.Sprintf("gi%d", r.Intn(nGlobInt))
		case n < 8:
			return fmt.Sprintf("ri%d", r.Intn(nRunInt))
		case n < 9:
			return fmt.Sprintf("gc%d", r.Intn(nGlobCon))
		}
		return fmt.Sprintf("gi%d", r.Intn(nGlobInt))
	}
	switch r.Intn(8) {
	case 0, 1:
		return "(" + g.intExpr(depth-1, sc) + pick(r, []string{" + ", " - ", " * "}) + g.intExpr(depth-1, sc) + ")"
	case 2:
		return "(" + g.intExpr(depth-1, sc) + pick(r, []string{" % 7", " % 100", " / 3"}) + ")"
	case 3:
		return "add(" + g.intExpr(depth-1, sc) + ", " + g.intExpr(depth-1, sc) + ")"
	case 4:
		return "len(" + g.strExpr(depth-1, sc) + ")"
	case 5:
		return "product.Price"
	case 6:
		return "strings.Count(" + g.strExpr(depth-1, sc) + ", \"a\")"
	}
	return g.intExpr(depth-1, sc)
}

var tmplStrLits = []string{`"a"`, `"ab"`, `"x y"`, `"Scriggo"`, `"<b>"`, `"a&b"`, `"it's"`}

func (g *tmplGen) strExpr(depth int, sc tscope) string {
	r := g.r
	if depth <= 0 {
		switch n := r.Intn(10); {
		case n < 3:
			return pick(r, tmplStrLits)
		case n < 5 && len(sc.strs) > 0:
			return pick(r, sc.strs)
		case n < 8:
			return fmt.Sprintf("gs%d", r.Intn(nGlobStr))
		case n < 9:
			return fmt.Sprintf("rs%d", r.Intn(nRunStr))
		}
		return "siteName"
	}
	switch r.Intn(8) {
	case 0:
		return "(" + g.strExpr(depth-1, sc) + " + " + g.strExpr(depth-1, sc) + ")"
	case 1:
		return "upper(" + g.strExpr(depth-1, sc) + ")"
	case 2:
		return "repeat(" + g.strExpr(depth-1, sc) + ", 2)"
	case 3:
		return "itoa(" + g.intExpr(depth-1, sc) + ")"
	case 4:
		return "sprintf(\"%d-%s\", " + g.intExpr(depth-1, sc) + ", " + g.strExpr(depth-1, sc) + ")"
	case 5:
		return "strings.ToUpper(" + g.strExpr(depth-1, sc) + ")"
	case 6:
		return "product.Name"
	}
	return g.strExpr(depth-1, sc)
}

var words = []string{"alpha", "beta", "gamma", "delta", "lorem ipsum", "dolor", "sit amet"}

func (g *tmplGen) name(prefix string) string {
	g.tmp++
	return fmt.Sprintf("%s%d", prefix, g.tmp)
}

// content generates n items of template content.
func (g *tmplGen) content(n int, sc tscope) string {
	r := g.r
	var b strings.Builder
	sc.ints = append([]string{}, sc.ints...)
	sc.strs = append([]string{}, sc.strs...)
	for k := 0; k < n; k++ {
		switch r.Intn(17) {
		case 16:
			x, y, z := g.name("x"), g.name("y"), g.name("z")
			fmt.Fprintf(&b, "{%% %s, %s, %s := %s, %s, %s %%}[{{ %s }},{{ %s }},{{ %s }}]", x, y, z, g.intExpr(1, sc), g.intExpr(1, sc), g.intExpr(1, sc), x, y, z)
			sc.ints = append(sc.ints, x, y, z)
		case 0:
			fmt.Fprintf(&b, "<p>%s</p>\n", pick(r, words))
		case 1, 2:
			fmt.Fprintf(&b, "<i>{{ %s }}</i>", g.intExpr(2, sc))
		case 3:
			fmt.Fprintf(&b, "<b>{{ %s }}</b>\n", g.strExpr(2, sc))
		case 4:
			if sc.depth > 2 {
				continue
			}
			in := sc
			in.depth++
			fmt.Fprintf(&b, "{%% if %s %% 2 == 0 %%}%s", g.intExpr(1, sc), g.content(1+r.Intn(2), in))
			if r.Intn(2) == 0 {
				fmt.Fprintf(&b, "{%% else if %s > 5 %%}%s", g.intExpr(1, sc), g.content(1, in))
			}
			if r.Intn(2) == 0 {
				fmt.Fprintf(&b, "{%% else %%}%s", g.content(1+r.Intn(2), in))
			}
			b.WriteString("{% end if %}\n")
		case 5:
			if sc.depth > 1 {
				continue
			}
			in := sc
			in.depth += 2
			i := g.name("i")
			in.ints = append(append([]string{}, sc.ints...), i)
			fmt.Fprintf(&b, "{%% for %s := 0; %s < %d; %s++ %%}%s{%% end for %%}\n", i, i, 1+r.Intn(3), i, g.content(1+r.Intn(2), in))
		case 6:
			if sc.depth > 1 {
				continue
			}
			in := sc
			in.depth += 2
			v := g.name("v")
			in.ints = append(append([]string{}, sc.ints...), v)
			fmt.Fprintf(&b, "{%% for %s in seq(%s %% 4) %%}%s{%% end %%}\n", v, g.intExpr(1, sc), g.content(1+r.Intn(2), in))
		case 7:
			x := g.name("x")
			if r.Intn(2) == 0 {
				fmt.Fprintf(&b, "{%% var %s = %s %%}[{{ %s }}]", x, g.intExpr(2, sc), x)
			} else {
				fmt.Fprintf(&b, "{%% %s := %s %%}[{{ %s }}]", x, g.intExpr(2, sc), x)
			}
			sc.ints = append(sc.ints, x)
		case 8:
			x := g.name("s")
			fmt.Fprintf(&b, "{%% %s := %s %%}[{{ %s }}]", x, g.strExpr(2, sc), x)
			sc.strs = append(sc.strs, x)
		case 9, 10:
			if len(g.macros) == 0 {
				continue
			}
			m := pick(r, g.macros)
			switch m.sig {
			case 0:
				fmt.Fprintf(&b, "{{ %s() }}", m.call)
			case 1:
				fmt.Fprintf(&b, "{{ %s(%s) }}", m.call, g.intExpr(1, sc))
			case 2:
				fmt.Fprintf(&b, "{{ %s(%s, %s) }}", m.call, g.intExpr(1, sc), g.strExpr(1, sc))
			}
		case 11:
			if g.nPart > 0 {
				fmt.Fprintf(&b, "{{ render \"%spart%d%s\" }}\n", g.up, r.Intn(g.nPart), g.ext)
			}
		case 12:
			// closure capturing several variables in a block of statements
			acc, f := g.name("acc"), g.name("f")
			var capt []string
			for i := 0; i < 2+r.Intn(5); i++ {
				capt = append(capt, g.intExpr(0, noImported(sc)))
			}
			fmt.Fprintf(&b, "{%%%%\n\t%s := %d\n\t%s := func(a int) int {\n\t\t%s += a\n", acc, r.Intn(9), f, acc)
			for _, c := range capt {
				fmt.Fprintf(&b, "\t\t%s += %s\n", acc, c)
			}
			fmt.Fprintf(&b, "\t\treturn %s\n\t}\n\tshow %s(%s), \" \", %s(%s), \" \", %s\n%%%%}\n", acc, f, g.intExpr(1, sc), f, g.intExpr(1, sc), acc)
			sc.ints = append(sc.ints, acc)
		case 13:
			fmt.Fprintf(&b, "{# %s #}", pick(r, words))
		case 14:
			if sc.depth > 2 {
				continue
			}
			in := sc
			in.depth++
			fmt.Fprintf(&b, "{%% switch %s %% 3 %%}{%% case 0 %%}%s{%% case 1, 2 %%}%s{%% default %%}%s{%% end switch %%}\n",
				g.intExpr(1, sc), g.content(1, in), g.content(1, in), g.content(1, in))
		case 15:
			if g.goStmt {
				ch := g.name("ch")
				fmt.Fprintf(&b, "{%%%%\n\t%s := make(chan int)\n\tgo func() { %s <- %s }()\n\tshow <-%s\n%%%%}\n", ch, ch, g.intExpr(1, noImported(sc)), ch)
			} else {
				fmt.Fprintf(&b, "{%% raw %%}{{ %s }}{%% end raw %%}", pick(r, words))
			}
		}
	}
	return b.String()
}

// macroDecls generates n macros with the given name prefix and returns their
// source and descriptors. Later macros may call earlier ones.
func (g *tmplGen) macroDecls(n int, prefix, qual string) string {
	r := g.r
	var b strings.Builder
	for i := 0; i < n; i++ {
		name := fmt.Sprintf("%s%d", prefix, i)
		sig := r.Intn(3)
		sc := tscope{depth: 1}
		switch sig {
		case 0:
			if r.Intn(2) == 0 {
				fmt.Fprintf(&b, "{%% macro %s %%}", name)
			} else {
				fmt.Fprintf(&b, "{%% macro %s() %%}", name)
			}
		case 1:
			fmt.Fprintf(&b, "{%% macro %s(a int) %%}", name)
			sc.ints = []string{"a"}
		case 2:
			fmt.Fprintf(&b, "{%% macro %s(a int, s string) %%}", name)
			sc.ints, sc.strs = []string{"a"}, []string{"s"}
		}
		b.WriteString(g.content(1+r.Intn(3), sc))
		b.WriteString("{% end macro %}\n")
		g.macros = append(g.macros, tmacro{call: name, sig: sig})
	}
	_ = qual
	return b.String()
}

// genTemplate returns the files of a generated template and the name of the
// main file.
func genTemplate(r *rand.Rand, goStmt bool, size int) (map[string]string, string) {
	g := &tmplGen{r: r, files: map[string]string{}, goStmt: goStmt}
	g.ext = pick(r, []string{".html", ".html", ".html", ".txt", ".md"})
	nPart := r.Intn(4)
	// partials: only globals (and their own imports) are visible
	g.nPart = 0
	for i := 0; i < nPart; i++ {
		g.macros = nil
		var b strings.Builder
		if r.Intn(3) == 0 {
			b.WriteString("{% import \"strconv\" %}{{ strconv.Itoa(" + g.intExpr(1, tscope{}) + ") }}")
		}
		b.WriteString(g.content(1+r.Intn(size), tscope{depth: 1}))
		g.files[fmt.Sprintf("part%d%s", i, g.ext)] = b.String()
		g.nPart = i + 1 // later partials may render earlier ones
	}
	// imported file with exported macros and variables
	var impMacros []tmacro
	hasImp := r.Intn(3) > 0
	impVars := 0
	if hasImp {
		g.macros = nil
		g.up = pick(r, []string{"../", "/"})
		var b strings.Builder
		b.WriteString(g.macroDecls(1+r.Intn(2+size/2), "M", ""))
		impVars = r.Intn(3)
		for i := 0; i < impVars; i++ {
			fmt.Fprintf(&b, "{%% var V%d = %s %%}\n", i, g.intExpr(2, tscope{}))
		}
		impMacros = g.macros
		g.up = ""
		g.files["imp/macros"+g.ext] = b.String()
	}
	// main file
	extends := r.Intn(3) == 0
	g.macros = nil
	var b strings.Builder
	if extends {
		b.WriteString("{% extends \"layout" + g.ext + "\" %}\n")
	}
	impQual := ""
	if hasImp {
		switch r.Intn(3) {
		case 0:
			b.WriteString("{% import \"imp/macros" + g.ext + "\" %}\n")
		case 1:
			b.WriteString("{% import m \"/imp/macros" + g.ext + "\" %}\n")
			impQual = "m."
		case 2:
			b.WriteString("{% import . \"imp/macros" + g.ext + "\" %}\n")
		}
		for _, m := range impMacros {
			g.macros = append(g.macros, tmacro{call: impQual + m.call, sig: m.sig})
		}
	}
	usesConv := r.Intn(2) == 0
	if usesConv {
		b.WriteString("{% import sc \"strconv\" %}\n")
	}
	sc := tscope{}
	for i := 0; i < impVars; i++ {
		sc.ints = append(sc.ints, fmt.Sprintf("%sV%d", impQual, i))
	}
	if extends {
		b.WriteString(g.macroDecls(r.Intn(1+size), "Local", ""))
		// the macros the layout calls
		b.WriteString("{% macro Title %}" + g.content(1+r.Intn(2), tscopeWith(sc, 1)) + "{% end macro %}\n")
		b.WriteString("{% macro Body(n int) %}" + g.content(2+r.Intn(size), tscope{ints: append([]string{"n"}, sc.ints...), depth: 0}) + "{% end macro %}\n")
		if usesConv {
			b.WriteString("{% macro Conv %}{{ sc.Itoa(" + g.intExpr(1, sc) + ") }}{% end macro %}\n")
		}
		g.files["index"+g.ext] = b.String()
		// layout
		g.macros = nil
		var l strings.Builder
		l.WriteString("<html><title>{{ Title() }}</title>\n")
		l.WriteString(g.content(1+r.Intn(size), tscope{depth: 1}))
		fmt.Fprintf(&l, "<body>{{ Body(%s) }}</body>\n", g.intExpr(1, tscope{}))
		if usesConv {
			l.WriteString("{{ Conv() }}")
		}
		l.WriteString(g.content(r.Intn(3), tscope{depth: 1}))
		l.WriteString("</html>\n")
		g.files["layout"+g.ext] = l.String()
	} else {
		if r.Intn(2) == 0 {
			b.WriteString(g.macroDecls(r.Intn(1+size), "Local", ""))
		}
		if usesConv {
			b.WriteString("{{ sc.Itoa(" + g.intExpr(1, sc) + ") }}\n")
		}
		b.WriteString(g.content(3+r.Intn(2*size), sc))
		g.files["index"+g.ext] = b.String()
	}
	return g.files, "index" + g.ext
}

// noImported removes the variables of imported files from the scope: it is used
// inside function literals, because on the pinned tree a closure referring to a
// variable of an imported file (a Scriggo package variable) makes Disassemble
// panic in disassembleVarRef, which would hide the artefact from this check.
func noImported(sc tscope) tscope {
	var ints []string
	for _, n := range sc.ints {
		if !strings.Contains(n, "V") {
			ints = append(ints, n)
		}
	}
	sc.ints = ints
	return sc
}

func tscopeWith(sc tscope, depth int) tscope {
	sc.depth = depth
	return sc
}
