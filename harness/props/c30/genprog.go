package c30

import (
	"fmt"
	"math/rand"
	"sort"
	"strings"
)

// Program generator for C30.
//
// The programs are biased to what could let map iteration order of the compiler
// leak into the emitted code: many package-level constants, variables, types and
// functions that depend on each other and are written in shuffled textual order,
// many native package imports (plain, renamed and dot), closures capturing many
// variables, several Scriggo packages in one module. Every program terminates
// (calls only go to a lower "level", loops are bounded), never iterates a map,
// never prints an address, and prints a trace of every value it computes, so its
// output is a deterministic function of the source.

// natPkg describes how the generator may use a native package.
type natPkg struct {
	path string
	name string
	// int and string producing expression templates: %Q = package qualifier
	// (with dot), %I = int operand, %S = string operand.
	ints []string
	strs []string
}

var natPkgs = []natPkg{
	{"strings", "strings", []string{`%QCount(%S, "a")`, `%QIndex(%S, "b")`, `len(%QFields(%S))`, `%QCompare(%S, %S)`},
		[]string{`%QToUpper(%S)`, `%QRepeat(%S, 2)`, `%QTrimSpace(%S)`, `%QReplace(%S, "a", "bb", -1)`, `%QJoin([]string{%S, %S}, ",")`, `%QTitle(%S)`}},
	{"strconv", "strconv", []string{`len(%QQuote(%S))`, `len(%QFormatInt(int64(%I), 2))`},
		[]string{`%QItoa(%I)`, `%QQuote(%S)`, `%QFormatInt(int64(%I), 16)`, `%QFormatBool(%I > 3)`}},
	{"fmt", "fmt", []string{`len(%QSprint(%I, %S))`},
		[]string{`%QSprintf("%%d-%%s", %I, %S)`, `%QSprint(%I)`, `%QSprintf("%%5d|%%-4s|%%x", %I, %S, %I)`}},
	{"math/bits", "bits", []string{`%QOnesCount(uint(%I))`, `%QLen(uint(%I & 0xffff))`, `%QTrailingZeros16(uint16(%I))`}, nil},
	{"unicode/utf8", "utf8", []string{`%QRuneCountInString(%S)`, `%QRuneLen(rune(%I & 0xffff))`}, nil},
	{"math", "math", []string{`int(%QFloor(%QSqrt(float64(%I & 1023))))`, `int(%QMax(float64(%I & 255), 7))`}, []string{}},
	{"sort", "sort", []string{`%QSearchInts([]int{1, 3, 5, 7, 11}, %I & 15)`}, nil},
	{"unicode", "unicode", []string{`int(%QToUpper(rune(97 + %I & 15)))`}, []string{`string(%QToLower(rune(65 + %I & 15)))`}},
	{"errors", "errors", nil, []string{`%QNew(%S).Error()`}},
	{"bytes", "bytes", []string{`%QCount([]byte(%S), []byte("a"))`, `%QNewBufferString(%S).Len()`}, []string{`%QNewBufferString(%S).String()`, `string(%QToUpper([]byte(%S)))`}},
	{"encoding/hex", "hex", []string{`%QEncodedLen(%I & 63)`}, []string{`%QEncodeToString([]byte(%S))`}},
	{"path", "path", nil, []string{`%QJoin(%S, "x", %S)`, `%QBase(%S)`}},
	{"unicode/utf16", "utf16", []string{`len(%QEncode([]rune(%S)))`}, nil},
	{"regexp", "regexp", []string{`len(%QQuoteMeta(%S))`}, []string{`%QQuoteMeta(%S)`}},
	{"encoding/json", "json", []string{`bool2int(%QValid([]byte(%S)))`}, nil},
	{"time", "time", []string{`int(%QDuration(%I & 1023).Microseconds())`}, []string{`%QDuration(%I & 0xfffff).String()`}},
}

type fnSig int

const (
	sigIS_I fnSig = iota // func(a int, s string) (r int)
	sigI_S               // func(a int) string
	sigV_I               // func(xs ...int) int
	sigI_IS              // func(a int) (int, string)
	numSigs
)

type fnInfo struct {
	name  string
	sig   fnSig
	level int
	pkg   int // index of the Scriggo package that declares it (0 = main)
}

// pkgGen generates one Scriggo package.
type pkgGen struct {
	g        *progGen
	idx      int    // 0 = main
	name     string // package name
	exported bool   // names start with an upper-case letter
	alias    map[string]string
	dot      map[string]bool
	used     map[string]bool
	usedLib  map[int]bool // Scriggo packages used
	libAlias map[int]string
	decls    []string
	intConst []string
	strConst []string
	baseInt  []string
	baseStr  []string
	derInt   []string
	derStr   []string
	structs  []string
	named    []string // named int types
	funcs    []fnInfo
	needB2I  bool
	tmp      int
}

type progGen struct {
	r      *rand.Rand
	goStmt bool
	mod    string
	pkgs   []*pkgGen
	size   int
}

func (p *pkgGen) id(prefix string, n int) string {
	if p.exported {
		return strings.ToUpper(prefix[:1]) + prefix[1:] + fmt.Sprint(n)
	}
	return prefix + fmt.Sprint(n)
}

// q returns the qualifier (with trailing dot, or empty for dot imports) of a
// native package and marks it used.
func (p *pkgGen) q(path string) string {
	p.used[path] = true
	if p.dot[path] {
		return ""
	}
	if a := p.alias[path]; a != "" {
		return a + "."
	}
	for _, np := range natPkgs {
		if np.path == path {
			return np.name + "."
		}
	}
	return path + "."
}

type scope struct {
	ints  []string
	strs  []string
	level int  // functions of lower levels may be called; -1 = none
	derOK bool // derived variables may be referenced
	// inClosure: the expression is inside a function literal. Variables of
	// imported Scriggo packages are then avoided: on the pinned tree a closure
	// referring to one reads a wrong slot and Program.Disassemble panics
	// (disassembleVarRef), which would hide the artefact from this check.
	inClosure bool
}

func pick[T any](r *rand.Rand, s []T) T { return s[r.Intn(len(s))] }

var strLits = []string{`"a"`, `"ab ba"`, `"Scriggo"`, `" x "`, `"ααβ"`, `"a/b/c"`, `"{}"`, `"q\"q"`, "`raw\\n`", `"0123"`}

func (p *pkgGen) native(kind byte, depth int, sc scope) (string, bool) {
	r := p.g.r
	for try := 0; try < 4; try++ {
		np := pick(r, natPkgs)
		list := np.ints
		if kind == 's' {
			list = np.strs
		}
		if len(list) == 0 {
			continue
		}
		t := pick(r, list)
		if strings.Contains(t, "bool2int") {
			p.needB2I = true
		}
		var sb strings.Builder
		for i := 0; i < len(t); i++ {
			if t[i] == '%' && i+1 < len(t) {
				switch t[i+1] {
				case 'Q':
					sb.WriteString(p.q(np.path))
					i++
					continue
				case 'I':
					// "+ zero variable" keeps the operand non-constant, so that
					// conversions such as uint(-3) are never constant overflows
					sb.WriteString("(" + p.intExpr(depth-1, sc) + " + " + p.id("z", 0) + ")")
					i++
					continue
				case 'S':
					sb.WriteString(p.strExpr(depth-1, sc))
					i++
					continue
				case '%':
					sb.WriteByte('%')
					i++
					continue
				}
			}
			sb.WriteByte(t[i])
		}
		return sb.String(), true
	}
	return "", false
}

// callable returns functions that may be called from the scope.
func (p *pkgGen) callable(sc scope, sig fnSig) (string, bool) {
	r := p.g.r
	type cand struct {
		name string
		lib  int
	}
	var cands []cand
	for _, f := range p.funcs {
		if f.level < sc.level && f.sig == sig {
			cands = append(cands, cand{f.name, 0})
		}
	}
	// functions of library packages (only from main, which is generated last)
	if p.idx == 0 {
		for li, lp := range p.g.pkgs {
			if li == 0 {
				continue
			}
			for _, f := range lp.funcs {
				if f.level < sc.level && f.sig == sig {
					cands = append(cands, cand{f.name, li})
				}
			}
		}
	}
	if len(cands) == 0 {
		return "", false
	}
	c := pick(r, cands)
	if c.lib > 0 {
		return p.libQ(c.lib) + c.name, true
	}
	return c.name, true
}

func (p *pkgGen) libQ(li int) string {
	p.usedLib[li] = true
	if a := p.libAlias[li]; a != "" {
		return a + "."
	}
	return p.g.pkgs[li].name + "."
}

func (p *pkgGen) intExpr(depth int, sc scope) string {
	r := p.g.r
	if depth <= 0 {
		switch n := r.Intn(10); {
		case n < 3 || len(sc.ints) == 0 && n < 7:
			return fmt.Sprint(r.Intn(40))
		case n < 7:
			return pick(r, sc.ints)
		case n < 8 && len(p.intConst) > 0:
			return pick(r, p.intConst)
		case n < 9 && len(p.baseInt) > 0:
			return pick(r, p.baseInt)
		case sc.derOK && len(p.derInt) > 0:
			return pick(r, p.derInt)
		case p.idx == 0 && len(p.g.pkgs) > 1:
			li := 1 + r.Intn(len(p.g.pkgs)-1)
			lp := p.g.pkgs[li]
			if len(lp.intConst) > 0 && r.Intn(2) == 0 {
				return p.libQ(li) + pick(r, lp.intConst)
			}
			if len(lp.baseInt) > 0 && !sc.inClosure {
				return p.libQ(li) + pick(r, lp.baseInt)
			}
		}
		return fmt.Sprint(r.Intn(9))
	}
	switch r.Intn(9) {
	case 0, 1:
		op := pick(r, []string{"+", "-", "*", "&", "|", "^"})
		return "(" + p.intExpr(depth-1, sc) + " " + op + " " + p.intExpr(depth-1, sc) + ")"
	case 2:
		return "(" + p.intExpr(depth-1, sc) + pick(r, []string{" % 7", " / 3", " << 2", " >> 1", " % 1000"}) + ")"
	case 3:
		return "len(" + p.strExpr(depth-1, sc) + ")"
	case 4, 5:
		if s, ok := p.native('i', depth, sc); ok {
			return s
		}
	case 6:
		if f, ok := p.callable(sc, sigIS_I); ok {
			return f + "(" + p.intExpr(depth-1, sc) + ", " + p.strExpr(depth-1, sc) + ")"
		}
		if f, ok := p.callable(sc, sigV_I); ok {
			n := r.Intn(4)
			var a []string
			for i := 0; i < n; i++ {
				a = append(a, p.intExpr(depth-1, sc))
			}
			return f + "(" + strings.Join(a, ", ") + ")"
		}
	case 7:
		if len(p.named) > 0 {
			return "int(" + pick(r, p.named) + "(" + p.intExpr(depth-1, sc) + ") + 1)"
		}
	case 8:
		if len(p.structs) > 0 {
			t := pick(r, p.structs)
			return "(" + t + "{A: " + p.intExpr(depth-1, sc) + ", B: " + p.strExpr(depth-1, sc) + "}).A"
		}
	}
	return p.intExpr(depth-1, sc)
}

func (p *pkgGen) strExpr(depth int, sc scope) string {
	r := p.g.r
	if depth <= 0 {
		switch n := r.Intn(10); {
		case n < 3 || len(sc.strs) == 0 && n < 6:
			return pick(r, strLits)
		case n < 6:
			return pick(r, sc.strs)
		case n < 8 && len(p.strConst) > 0:
			return pick(r, p.strConst)
		case n < 9 && len(p.baseStr) > 0:
			return pick(r, p.baseStr)
		case sc.derOK && len(p.derStr) > 0:
			return pick(r, p.derStr)
		case p.idx == 0 && len(p.g.pkgs) > 1:
			li := 1 + r.Intn(len(p.g.pkgs)-1)
			lp := p.g.pkgs[li]
			if len(lp.strConst) > 0 {
				return p.libQ(li) + pick(r, lp.strConst)
			}
		}
		return pick(r, strLits)
	}
	switch r.Intn(6) {
	case 0:
		return "(" + p.strExpr(depth-1, sc) + " + " + p.strExpr(depth-1, sc) + ")"
	case 1, 2, 3:
		if s, ok := p.native('s', depth, sc); ok {
			return s
		}
	case 4:
		if f, ok := p.callable(sc, sigI_S); ok {
			return f + "(" + p.intExpr(depth-1, sc) + ")"
		}
	case 5:
		if len(p.structs) > 0 {
			t := pick(r, p.structs)
			return "(" + t + "{B: " + p.strExpr(depth-1, sc) + "}).B"
		}
	}
	return p.strExpr(depth-1, sc)
}

// body generates a function body. ints/strs are the parameters; the body ends
// by folding every local into the variables named ri (int) and rs (string), so
// that no local is unused.
func (p *pkgGen) body(sc scope, ind string, nStmt int) string {
	r := p.g.r
	var b strings.Builder
	w := func(format string, a ...any) { b.WriteString(ind + fmt.Sprintf(format, a...) + "\n") }
	var li, ls []string // locals declared here
	newInt := func() string { p.tmp++; n := fmt.Sprintf("i%d", p.tmp); return n }
	newStr := func() string { p.tmp++; n := fmt.Sprintf("s%d", p.tmp); return n }
	cur := func() scope {
		s := sc
		s.ints = append(append([]string{}, sc.ints...), li...)
		s.strs = append(append([]string{}, sc.strs...), ls...)
		return s
	}
	for k := 0; k < nStmt; k++ {
		switch r.Intn(15) {
		case 13:
			// several variables of one kind declared at once
			a, b2, c := newInt(), newInt(), newInt()
			if r.Intn(2) == 0 {
				w("%s, %s, %s := %s, %s, %s", a, b2, c, p.intExpr(1, cur()), p.intExpr(1, cur()), p.intExpr(1, cur()))
			} else {
				w("var %s, %s, %s = %s, %s, %s", a, b2, c, p.intExpr(1, cur()), p.intExpr(1, cur()), p.intExpr(1, cur()))
			}
			li = append(li, a, b2, c)
		case 14:
			a, b2 := newStr(), newStr()
			w("%s, %s := %s, %s", a, b2, p.strExpr(1, cur()), p.strExpr(1, cur()))
			ls = append(ls, a, b2)
		case 0, 1:
			n := newInt()
			w("%s := %s", n, p.intExpr(2, cur()))
			li = append(li, n)
		case 2:
			n := newStr()
			w("%s := %s", n, p.strExpr(2, cur()))
			ls = append(ls, n)
		case 3:
			n := newInt()
			w("var %s int", n)
			w("if %s%%2 == 0 {", p.intExpr(1, cur()))
			w("\t%s = %s", n, p.intExpr(2, cur()))
			w("} else {")
			w("\t%s = %s", n, p.intExpr(1, cur()))
			w("}")
			li = append(li, n)
		case 4:
			n := newInt()
			k := newInt()
			w("%s := 0", n)
			w("for %s := 0; %s < %d; %s++ {", k, k, 1+r.Intn(4), k)
			s := cur()
			s.ints = append(s.ints, k, n)
			w("\t%s += %s", n, p.intExpr(2, s))
			w("}")
			li = append(li, n)
		case 5:
			n := newStr()
			w("var %s string", n)
			w("switch %s %% 3 {", p.intExpr(1, cur()))
			w("case 0:")
			w("\t%s = %s", n, p.strExpr(1, cur()))
			w("case 1, -1:")
			w("\t%s = %s", n, p.strExpr(2, cur()))
			w("default:")
			w("\t%s = %s", n, pick(r, strLits))
			w("}")
			ls = append(ls, n)
		case 6, 7:
			// closure capturing many variables
			n := newInt()
			f := fmt.Sprintf("fn%d", p.tmp)
			x := fmt.Sprintf("x%d", p.tmp)
			s := cur()
			capt := append([]string{}, s.ints...)
			r.Shuffle(len(capt), func(i, j int) { capt[i], capt[j] = capt[j], capt[i] })
			if len(capt) > 6 {
				capt = capt[:6]
			}
			acc := newInt()
			w("%s := %d", acc, r.Intn(5))
			w("%s := func(%s int) int {", f, x)
			w("\t%s += %s", acc, x)
			for _, c := range capt {
				w("\t%s += %s", acc, c)
			}
			s2 := s
			s2.inClosure = true
			s2.ints = append(append([]string{}, s.ints...), x, acc)
			if r.Intn(2) == 0 {
				// nested closure
				w("\tinner := func() int { return %s + %s }", acc, p.intExpr(1, s2))
				w("\treturn inner() + %s", p.intExpr(1, s2))
			} else {
				w("\treturn %s + %s", acc, p.intExpr(2, s2))
			}
			w("}")
			w("%s := %s(%s) + %s(%s)", n, f, p.intExpr(1, s), f, p.intExpr(1, s))
			li = append(li, n, acc)
		case 8:
			n := newInt()
			m := fmt.Sprintf("m%d", p.tmp)
			w("%s := map[string]int{%s: %s, %s: %s}", m, pick(r, strLits[:5]), p.intExpr(1, cur()), pick(r, strLits[5:]), p.intExpr(1, cur()))
			w("%s[%s] += %s", m, p.strExpr(1, cur()), p.intExpr(1, cur()))
			w("%s := %s[%s] + len(%s)", n, m, p.strExpr(0, cur()), m)
			li = append(li, n)
		case 9:
			n := newInt()
			l := fmt.Sprintf("l%d", p.tmp)
			w("%s := []int{%s, %s}", l, p.intExpr(1, cur()), p.intExpr(1, cur()))
			w("%s = append(%s, %s)", l, l, p.intExpr(1, cur()))
			w("%s := %s[%s&1] + cap(%s[:2])", n, l, p.intExpr(1, cur()), l)
			li = append(li, n)
		case 10:
			if f, ok := p.callable(sc, sigI_IS); ok {
				n, s := newInt(), newStr()
				w("%s, %s := %s(%s)", n, s, f, p.intExpr(1, cur()))
				li = append(li, n)
				ls = append(ls, s)
			}
		case 11:
			n := newInt()
			v := fmt.Sprintf("v%d", p.tmp)
			var val string
			switch r.Intn(4) {
			case 0:
				val = p.intExpr(1, cur())
			case 1:
				val = p.strExpr(1, cur())
			case 2:
				val = "nil"
			default:
				val = "1.5"
			}
			w("var %s interface{} = %s", v, val)
			w("var %s int", n)
			w("switch t := %s.(type) {", v)
			w("case int:")
			w("\t%s = t + 1", n)
			w("case string:")
			w("\t%s = len(t)", n)
			w("case nil:")
			w("\t%s = -1", n)
			w("default:")
			w("\t%s = -2", n)
			w("}")
			li = append(li, n)
		case 12:
			if p.g.goStmt {
				n := newInt()
				ch := fmt.Sprintf("ch%d", p.tmp)
				w("%s := make(chan int)", ch)
				gs := cur()
				gs.inClosure = true
				w("go func() { %s <- %s }()", ch, p.intExpr(1, gs))
				w("%s := <-%s", n, ch)
				li = append(li, n)
			} else if len(p.structs) > 0 {
				n := newInt()
				t := pick(r, p.structs)
				tv := fmt.Sprintf("tv%d", p.tmp)
				w("%s := &%s{A: %s}", tv, t, p.intExpr(1, cur()))
				w("%s.C = append(%s.C, %s.A, %s)", tv, tv, tv, p.intExpr(1, cur()))
				w("%s := len(%s.C) + %s.C[1]", n, tv, tv)
				li = append(li, n)
			}
		}
	}
	for _, n := range li {
		w("ri += %s", n)
	}
	for _, n := range ls {
		w("rs += %s", n)
	}
	return b.String()
}

func (p *pkgGen) genConsts(n int) {
	r := p.g.r
	vals := map[string]int64{}
	for i := 0; i < n; i++ {
		name := p.id("c", i)
		var expr string
		var v int64
		if len(p.intConst) == 0 || r.Intn(3) == 0 {
			v = int64(r.Intn(50))
			expr = fmt.Sprint(v)
		} else {
			a := pick(r, p.intConst)
			k := int64(1 + r.Intn(9))
			switch r.Intn(4) {
			case 0:
				v, expr = vals[a]+k, fmt.Sprintf("%s + %d", a, k)
			case 1:
				v, expr = vals[a]-k, fmt.Sprintf("%s - %d", a, k)
			case 2:
				b := pick(r, p.intConst)
				v, expr = vals[a]+vals[b], fmt.Sprintf("%s + %s", a, b)
			default:
				v, expr = (vals[a]*k)%1000, fmt.Sprintf("(%s * %d) %% 1000", a, k)
			}
		}
		vals[name] = v
		typ := ""
		if r.Intn(4) == 0 {
			typ = " int"
		}
		p.decls = append(p.decls, fmt.Sprintf("const %s%s = %s", name, typ, expr))
		p.intConst = append(p.intConst, name)
	}
	for i := 0; i < n/2+1; i++ {
		name := p.id("k", i)
		expr := pick(r, strLits)
		if len(p.strConst) > 0 && r.Intn(2) == 0 {
			expr = pick(r, p.strConst) + " + " + expr
		}
		p.decls = append(p.decls, fmt.Sprintf("const %s = %s", name, expr))
		p.strConst = append(p.strConst, name)
	}
	// an iota group
	if n > 2 {
		var b strings.Builder
		b.WriteString("const (\n")
		m := 2 + r.Intn(4)
		for i := 0; i < m; i++ {
			name := p.id("e", i)
			if i == 0 {
				fmt.Fprintf(&b, "\t%s = iota * %d\n", name, 1+r.Intn(5))
			} else {
				fmt.Fprintf(&b, "\t%s\n", name)
			}
			p.intConst = append(p.intConst, name)
		}
		b.WriteString(")")
		p.decls = append(p.decls, b.String())
	}
}

func (p *pkgGen) genTypes(n int) {
	r := p.g.r
	for i := 0; i < n; i++ {
		if r.Intn(3) == 0 {
			name := p.id("n", i)
			p.decls = append(p.decls, fmt.Sprintf("type %s int", name))
			p.named = append(p.named, name)
			continue
		}
		name := p.id("t", i)
		var b strings.Builder
		fmt.Fprintf(&b, "type %s struct {\n\tA int\n\tB string\n\tC []int\n", name)
		if len(p.structs) > 0 && r.Intn(2) == 0 {
			fmt.Fprintf(&b, "\tD *%s\n", pick(r, p.structs))
		}
		if len(p.named) > 0 && r.Intn(2) == 0 {
			fmt.Fprintf(&b, "\tE %s\n", pick(r, p.named))
		}
		if len(p.structs) > 0 && r.Intn(3) == 0 {
			// (a self-referential F map[string][]tN is valid Go but the pinned
			// tree reports a "typechecking loop": C03's business, avoided here)
			fmt.Fprintf(&b, "\tF map[string][]%s\n", pick(r, p.structs))
		}
		b.WriteString("}")
		p.decls = append(p.decls, b.String())
		p.structs = append(p.structs, name)
	}
}

func (p *pkgGen) genBaseVars(n int) {
	r := p.g.r
	sc := scope{level: -1}
	for i := 0; i < n; i++ {
		if r.Intn(3) == 0 {
			name := p.id("bs", i)
			p.decls = append(p.decls, fmt.Sprintf("var %s = %s", name, p.strExpr(1, sc)))
			p.baseStr = append(p.baseStr, name)
		} else {
			name := p.id("b", i)
			typ := ""
			if r.Intn(3) == 0 {
				typ = " int"
			}
			p.decls = append(p.decls, fmt.Sprintf("var %s%s = %s", name, typ, p.intExpr(2, sc)))
			p.baseInt = append(p.baseInt, name)
		}
	}
}

func (p *pkgGen) genFuncs(perLevel, levels int) {
	r := p.g.r
	for lv := 0; lv < levels; lv++ {
		var fresh []fnInfo
		for i := 0; i < perLevel; i++ {
			sig := fnSig(r.Intn(int(numSigs)))
			if i == 0 {
				sig = sigIS_I
			}
			name := p.id("f", lv*100+i)
			sc := scope{level: lv}
			var b strings.Builder
			switch sig {
			case sigIS_I:
				sc.ints, sc.strs = []string{"a"}, []string{"s"}
				fmt.Fprintf(&b, "func %s(a int, s string) (ri int) {\n\trs := \"\"\n", name)
				if r.Intn(3) == 0 {
					b.WriteString("\tdefer func() {\n\t\tri += len(rs)\n\t\tif e := recover(); e != nil {\n\t\t\tri = -1\n\t\t}\n\t}()\n")
				}
				b.WriteString(p.body(sc, "\t", 2+r.Intn(5)))
				b.WriteString("\treturn ri + len(rs)\n}")
			case sigI_S:
				sc.ints = []string{"a"}
				fmt.Fprintf(&b, "func %s(a int) string {\n\tri, rs := 0, \"\"\n", name)
				b.WriteString(p.body(sc, "\t", 2+r.Intn(4)))
				fmt.Fprintf(&b, "\tif len(rs) > 64 {\n\t\trs = rs[:64]\n\t}\n\treturn rs + %sItoa(ri)\n}", p.q("strconv"))
			case sigV_I:
				fmt.Fprintf(&b, "func %s(xs ...int) int {\n\tri, rs := len(xs), \"\"\n\tfor _, x := range xs {\n\t\tri = ri*31 + x\n\t}\n", name)
				b.WriteString(p.body(sc, "\t", 1+r.Intn(4)))
				b.WriteString("\treturn ri + len(rs)\n}")
			case sigI_IS:
				sc.ints = []string{"a"}
				fmt.Fprintf(&b, "func %s(a int) (int, string) {\n\tri, rs := 0, \"\"\n", name)
				b.WriteString(p.body(sc, "\t", 1+r.Intn(4)))
				b.WriteString("\tif len(rs) > 64 {\n\t\trs = rs[:64]\n\t}\n\treturn ri, rs\n}")
			}
			p.decls = append(p.decls, b.String())
			fresh = append(fresh, fnInfo{name: name, sig: sig, level: lv, pkg: p.idx})
		}
		p.funcs = append(p.funcs, fresh...)
	}
}

func (p *pkgGen) genDerivedVars(n, levels int) {
	r := p.g.r
	for i := 0; i < n; i++ {
		sc := scope{level: levels, derOK: true}
		switch r.Intn(4) {
		case 0:
			name := p.id("ds", i)
			p.decls = append(p.decls, fmt.Sprintf("var %s = %s", name, p.strExpr(2, sc)))
			p.derStr = append(p.derStr, name)
		case 1:
			if f, ok := p.callable(sc, sigI_IS); ok {
				n1, n2 := p.id("d", i), p.id("ds", i)
				p.decls = append(p.decls, fmt.Sprintf("var %s, %s = %s(%s)", n1, n2, f, p.intExpr(1, sc)))
				p.derInt = append(p.derInt, n1)
				p.derStr = append(p.derStr, n2)
				continue
			}
			fallthrough
		default:
			name := p.id("d", i)
			p.decls = append(p.decls, fmt.Sprintf("var %s = %s", name, p.intExpr(2, sc)))
			p.derInt = append(p.derInt, name)
		}
	}
}

func (p *pkgGen) source(mainBody string) string {
	r := p.g.r
	var b strings.Builder
	fmt.Fprintf(&b, "package %s\n\n", p.name)
	var imps []string
	var paths []string
	for path := range p.used {
		paths = append(paths, path)
	}
	sort.Strings(paths)
	for _, path := range paths {
		switch {
		case p.dot[path]:
			imps = append(imps, fmt.Sprintf(". %q", path))
		case p.alias[path] != "":
			imps = append(imps, fmt.Sprintf("%s %q", p.alias[path], path))
		default:
			imps = append(imps, fmt.Sprintf("%q", path))
		}
	}
	var libs []int
	for li := range p.usedLib {
		libs = append(libs, li)
	}
	sort.Ints(libs)
	for _, li := range libs {
		path := p.g.mod + "/" + p.g.pkgs[li].name
		if a := p.libAlias[li]; a != "" {
			imps = append(imps, fmt.Sprintf("%s %q", a, path))
		} else {
			imps = append(imps, fmt.Sprintf("%q", path))
		}
	}
	r.Shuffle(len(imps), func(i, j int) { imps[i], imps[j] = imps[j], imps[i] })
	if len(imps) > 0 {
		if r.Intn(2) == 0 {
			b.WriteString("import (\n")
			for _, im := range imps {
				b.WriteString("\t" + im + "\n")
			}
			b.WriteString(")\n\n")
		} else {
			for _, im := range imps {
				b.WriteString("import " + im + "\n")
			}
			b.WriteString("\n")
		}
	}
	decls := append([]string{}, p.decls...)
	decls = append(decls, "var "+p.id("z", 0)+" int")
	if p.needB2I {
		decls = append(decls, "func bool2int(b bool) int {\n\tif b {\n\t\treturn 1\n\t}\n\treturn 0\n}")
	}
	if mainBody != "" {
		decls = append(decls, mainBody)
	}
	r.Shuffle(len(decls), func(i, j int) { decls[i], decls[j] = decls[j], decls[i] })
	for _, d := range decls {
		b.WriteString(d + "\n\n")
	}
	return b.String()
}

func (g *progGen) newPkg(idx int, name string) *pkgGen {
	r := g.r
	p := &pkgGen{g: g, idx: idx, name: name, exported: idx != 0, alias: map[string]string{}, dot: map[string]bool{},
		used: map[string]bool{}, usedLib: map[int]bool{}, libAlias: map[int]string{}}
	dotted := false
	for _, np := range natPkgs {
		switch r.Intn(6) {
		case 0:
			p.alias[np.path] = "p_" + np.name
		case 1:
			// at most one dot import per file, and never of packages whose
			// exported names collide with other dot-imported ones
			if !dotted && (np.path == "math/bits" || np.path == "unicode/utf8" || np.path == "strconv") {
				p.dot[np.path] = true
				dotted = true
			}
		}
	}
	return p
}

// genProgram returns the files of a generated program.
func genProgram(r *rand.Rand, goStmt bool, size int) map[string]string {
	g := &progGen{r: r, goStmt: goStmt, mod: "example.test/m", size: size}
	files := map[string]string{}
	nLib := 0
	if r.Intn(3) == 0 {
		nLib = 1 + r.Intn(3)
	}
	g.pkgs = make([]*pkgGen, 1+nLib)
	levels := 3
	for li := 1; li <= nLib; li++ {
		p := g.newPkg(li, fmt.Sprintf("lib%c", 'a'+li-1))
		g.pkgs[li] = p
		p.genConsts(2 + r.Intn(size))
		p.genTypes(1 + r.Intn(3))
		p.genBaseVars(2 + r.Intn(size))
		p.genFuncs(1+r.Intn(3), levels)
		p.genDerivedVars(1+r.Intn(size), levels)
		files[p.name+"/"+p.name+".go"] = p.source("")
	}
	p := g.newPkg(0, "main")
	g.pkgs[0] = p
	for li := 1; li <= nLib; li++ {
		if r.Intn(3) == 0 {
			p.libAlias[li] = fmt.Sprintf("L%d", li)
		}
	}
	p.genConsts(3 + r.Intn(2*size))
	p.genTypes(1 + r.Intn(size))
	p.genBaseVars(3 + r.Intn(2*size))
	p.genFuncs(2+r.Intn(size), levels)
	p.genDerivedVars(2+r.Intn(2*size), levels)
	// main prints everything
	var b strings.Builder
	b.WriteString("func main() {\n\tri, rs := 0, \"\"\n")
	sc := scope{level: levels, derOK: true}
	b.WriteString(p.body(sc, "\t", 3+r.Intn(6)))
	pr := p.q("fmt") + "Println"
	var all []string
	all = append(all, p.intConst...)
	all = append(all, p.strConst...)
	all = append(all, p.baseInt...)
	all = append(all, p.baseStr...)
	all = append(all, p.derInt...)
	all = append(all, p.derStr...)
	for li := 1; li <= nLib; li++ {
		lp := g.pkgs[li]
		for _, group := range [][]string{lp.intConst, lp.strConst, lp.baseInt, lp.derInt, lp.derStr} {
			for _, n := range group {
				all = append(all, p.libQ(li)+n)
			}
		}
	}
	r.Shuffle(len(all), func(i, j int) { all[i], all[j] = all[j], all[i] })
	for i := 0; i < len(all); i += 4 {
		j := i + 4
		if j > len(all) {
			j = len(all)
		}
		if r.Intn(3) == 0 {
			fmt.Fprintf(&b, "\tprintln(%s)\n", strings.Join(all[i:j], ", "))
		} else {
			fmt.Fprintf(&b, "\t%s(%s)\n", pr, strings.Join(all[i:j], ", "))
		}
	}
	for _, f := range p.funcs {
		switch f.sig {
		case sigIS_I:
			fmt.Fprintf(&b, "\t%s(%q, %s(%d, %s))\n", pr, f.name, f.name, r.Intn(20), pick(r, strLits))
		case sigI_S:
			fmt.Fprintf(&b, "\t%s(%q, %s(%d))\n", pr, f.name, f.name, r.Intn(20))
		case sigV_I:
			fmt.Fprintf(&b, "\t%s(%q, %s(%d, %d))\n", pr, f.name, f.name, r.Intn(20), r.Intn(20))
		case sigI_IS:
			fmt.Fprintf(&b, "\t%s(%q)\n\t%s(%s(%d))\n", pr, f.name, pr, f.name, r.Intn(20))
		}
	}
	for _, t := range p.structs {
		// fields only: a value of a type declared in Scriggo is printed by the
		// native fmt as its internal representation, addresses included
		fmt.Fprintf(&b, "\t%s((%s{A: ri %% 10, B: %q}).A, (&%s{B: %q}).B)\n", pr, t, t, t, t)
	}
	fmt.Fprintf(&b, "\t%s(ri, len(rs))\n}", pr)
	files["main.go"] = p.source(b.String())
	if nLib > 0 {
		files["go.mod"] = "module " + g.mod + "\n"
	}
	return files
}
