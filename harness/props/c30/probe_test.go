package c30

import (
	"fmt"
	"testing"
)

func TestProbe(t *testing.T) {
	srcs := []string{`package main

func f(a int) (int, string) { return a, "x" }

var d4, ds4 = f(1)

func main() {
	println(d4, ds4)
}
`, `package main

func f(a int) int { println("f", a); return a }

var a = f(1)
var b = f(2)
var c = f(3)
var d = f(4)
var e = f(5)

func main() {
	println(a, b, c, d, e)
}
`, `package main

func f(a int) int { println("f", a); return a }

var a = f(1) + c
var b = f(2) + a
var c = f(3)
var d = f(4) + e
var e = f(5)

func main() {
	println(a, b, c, d, e)
}
`}
	for _, src := range srcs {
		seen := map[string]int{}
		var ex []string
		for i := 0; i < 30; i++ {
			cd := &caseData{Kind: "program", Files: map[string]string{"main.go": src}, Run: true}
			o, _ := observe(cd)
			k := o.Asm + "\n#####\n" + o.Output + o.BuildErr
			if seen[k] == 0 {
				ex = append(ex, k)
			}
			seen[k]++
		}
		fmt.Println("distinct:", len(seen))
		if len(ex) > 1 {
			fmt.Println(ex[0])
			fmt.Println("=========")
			fmt.Println(ex[1])
		}
	}
}
