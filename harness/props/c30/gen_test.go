package c30

import (
	"os"
	"strings"
	"testing"

	"verif/core"
)

// TestGeneratorsBuild checks that the generated sources are valid: they must
// build and run (the check itself would stay silent on build failures, but it
// would be trivial).
func TestGeneratorsBuild(t *testing.T) {
	n := 150
	fails := 0
	for i := 0; i < n; i++ {
		r := core.Rand(int64(i), "prog")
		goStmt := r.Intn(3) == 0
		files := genProgram(r, goStmt, 2+r.Intn(6))
		cd := &caseData{Kind: "program", Files: files, GoStmt: goStmt, Run: true}
		o, p := observe(cd)
		if p || o.BuildErr != "" || o.RunErr != "" {
			fails++
			if fails < 6 {
				t.Errorf("program %d: builderr=%q runerr=%q", i, o.BuildErr, o.RunErr)
				if os.Getenv("C30_DUMP") != "" {
					for n, s := range files {
						t.Logf("--- %s\n%s", n, s)
					}
				}
			}
		}
		if i == 0 && len(o.Output) < 20 {
			t.Errorf("program 0 printed almost nothing: %q", o.Output)
		}
	}
	for i := 0; i < n; i++ {
		r := core.Rand(int64(i), "tmpl")
		goStmt := r.Intn(4) == 0
		files, main := genTemplate(r, goStmt, 2+r.Intn(6))
		cd := &caseData{Kind: "template", Files: files, Main: main, GoStmt: goStmt, Run: true}
		o, p := observe(cd)
		if p || o.BuildErr != "" || o.RunErr != "" {
			fails++
			if fails < 12 {
				t.Errorf("template %d: builderr=%q runerr=%q", i, o.BuildErr, o.RunErr)
				if os.Getenv("C30_DUMP") != "" {
					for n, s := range files {
						t.Logf("--- %s\n%s", n, s)
					}
				}
			}
		}
	}
	if fails > 0 {
		t.Errorf("%d of %d generated sources do not build and run", fails, 2*n)
	}
}

// The constant-heavy sources of the history relation must build and run; the
// broken variants must fail to build.
func TestConstGenerators(t *testing.T) {
	bad := 0
	for i := 0; i < 300; i++ {
		r := core.Rand(int64(i), "cp")
		broken := i%5 == 4
		var cd *caseData
		if i%2 == 0 {
			cd = &caseData{Kind: "program", Files: map[string]string{"main.go": genConstProgram(r, broken)}, Run: true}
		} else {
			files, main := genConstTemplate(r, broken)
			cd = &caseData{Kind: "template", Files: files, Main: main, Run: true}
		}
		o, p := observe(cd)
		if p || (o.BuildErr != "") != broken || o.RunErr != "" {
			bad++
			if bad < 6 {
				t.Errorf("source %d (broken=%v): panic=%v builderr=%q runerr=%q\n%v", i, broken, p, o.BuildErr, o.RunErr, cd.Files)
			}
		}
	}
	if bad > 0 {
		t.Errorf("%d of 300 constant-heavy sources misbehave", bad)
	}
}

// The history machinery must see a dependence on the build history: the
// observation of P differs when the digest does.
func TestHistoryCaseShape(t *testing.T) {
	cd := genHistoryCase(7, 0)
	if len(cd.Hist) == 0 || cd.Order != "" {
		t.Fatalf("bad history case: %d predecessors, order %q", len(cd.Hist), cd.Order)
	}
	for _, o := range histOrders {
		x := cd
		x.Order = o
		r := workHistory(&x)
		if r.Status != core.OK || len(r.Out) == 0 {
			t.Fatalf("order %s: %s %s", o, r.Status, r.Detail)
		}
	}
}

func TestStackFuncs(t *testing.T) {
	in := "goroutine 7 [running]:\nruntime/debug.Stack()\n\t/x/stack.go:26 +0x5e\npanic({0x818520?, 0xc00039e120?})\n\t/x/panic.go:783 +0x132\nmain.f(0xc000, {0x1, 0x2})\n\t/x/a.go:1 +0x1\n"
	want := "runtime/debug.Stack\npanic\nmain.f\n"
	if got := stackFuncs(in); got != want {
		t.Fatalf("stackFuncs = %q, want %q", got, want)
	}
}

func TestDiffObs(t *testing.T) {
	a := observation{Asm: "x\ny\n", UsedVars: []string{"a"}, Output: "1"}
	b := a
	if d := diffObs(a, b, true); d != "" {
		t.Fatalf("equal observations differ: %s", d)
	}
	b.Asm = "x\nz\n"
	if d := diffObs(a, b, true); !strings.Contains(d, "line 2") {
		t.Fatalf("asm diff not located: %s", d)
	}
	b = a
	b.UsedVars = []string{"b"}
	if diffObs(a, b, true) == "" || a.digest(true) == b.digest(true) {
		t.Fatal("UsedVars difference not seen")
	}
	b = a
	b.Output = "2"
	if diffObs(a, b, true) == "" || a.digest(true) == b.digest(true) {
		t.Fatal("output difference not seen")
	}
	if diffObs(a, b, false) != "" || a.digest(false) != b.digest(false) {
		t.Fatal("output difference must be ignored when it is not part of the oracle")
	}
}
