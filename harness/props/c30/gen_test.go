package c30

import (
	"os"
	"strings"
	"testing"

	"verif/core"
)

// TestGeneratorsBuild checks that the generated sources are valid: they must
// build and run (the check itself would stay silent on build failures, but it
// would be trivial).
func TestGeneratorsBuild(t *testing.T) {
	n := 150
	fails := 0
	for i := 0; i < n; i++ {
		r := core.Rand(int64(i), "prog")
		goStmt := r.Intn(3) == 0
		files := genProgram(r, goStmt, 2+r.Intn(6))
		cd := &caseData{Kind: "program", Files: files, GoStmt: goStmt, Run: true}
		o, p := observe(cd)
		if p || o.BuildErr != "" || o.RunErr != "" {
			fails++
			if fails < 6 {
				t.Errorf("program %d: builderr=%q runerr=%q", i, o.BuildErr, o.RunErr)
				if os.Getenv("C30_DUMP") != "" {
					for n, s := range files {
						t.Logf("--- %s\n%s", n, s)
					}
				}
			}
		}
		if i == 0 && len(o.Output) < 20 {
			t.Errorf("program 0 printed almost nothing: %q", o.Output)
		}
	}
	for i := 0; i < n; i++ {
		r := core.Rand(int64(i), "tmpl")
		goStmt := r.Intn(4) == 0
		files, main := genTemplate(r, goStmt, 2+r.Intn(6))
		cd := &caseData{Kind: "template", Files: files, Main: main, GoStmt: goStmt, Run: true}
		o, p := observe(cd)
		if p || o.BuildErr != "" || o.RunErr != "" {
			fails++
			if fails < 12 {
				t.Errorf("template %d: builderr=%q runerr=%q", i, o.BuildErr, o.RunErr)
				if os.Getenv("C30_DUMP") != "" {
					for n, s := range files {
						t.Logf("--- %s\n%s", n, s)
					}
				}
			}
		}
	}
	if fails > 0 {
		t.Errorf("%d of %d generated sources do not build and run", fails, 2*n)
	}
}

func TestDiffObs(t *testing.T) {
	a := observation{Asm: "x\ny\n", UsedVars: []string{"a"}, Output: "1"}
	b := a
	if d := diffObs(a, b, true); d != "" {
		t.Fatalf("equal observations differ: %s", d)
	}
	b.Asm = "x\nz\n"
	if d := diffObs(a, b, true); !strings.Contains(d, "line 2") {
		t.Fatalf("asm diff not located: %s", d)
	}
	b = a
	b.UsedVars = []string{"b"}
	if diffObs(a, b, true) == "" || a.digest(true) == b.digest(true) {
		t.Fatal("UsedVars difference not seen")
	}
	b = a
	b.Output = "2"
	if diffObs(a, b, true) == "" || a.digest(true) == b.digest(true) {
		t.Fatal("output difference not seen")
	}
	if diffObs(a, b, false) != "" || a.digest(false) != b.digest(false) {
		t.Fatal("output difference must be ignored when it is not part of the oracle")
	}
}
