package c30

import (
	"encoding/json"
	"fmt"
	"regexp"
	"sort"
	"strings"

	"verif/core"
	"verif/gen/goprog"
)

// The history relation: the build of a source P must not depend on what the
// process built before. A history case is P plus a sequence Q1..Qk of OTHER
// sources (programs and templates mixed, some of which fail to build). The
// driver runs it in two fresh worker processes, one per order:
//
//	"PQP" : P, Q1 .. Qk, P         (the first build is the baseline: nothing was built
//	                                before it; before / after are compared in the worker)
//	"QP"  : Q1 .. Qk, P            (P built for the first time after the others)
//
// and compares disassembly, UsedVars, run output and run error of every build of
// P. The same relation is applied, at no extra cost, to all ordinary cases: the
// three worker configurations run the case list in three different orders, so the
// same source is built after different predecessors; a difference between the
// processes is then confirmed (and reported) as a self-contained history case
// made of the predecessors it had in the deviating process.

// source is one buildable set of files.
type source struct {
	Kind   string            `json:"kind"`
	Files  map[string]string `json:"files"`
	Main   string            `json:"main,omitempty"`
	GoStmt bool              `json:"go_stmt,omitempty"`
}

func (s source) caseData() *caseData {
	return &caseData{Kind: s.Kind, Files: s.Files, Main: s.Main, GoStmt: s.GoStmt, Run: true}
}

func (cd *caseData) source() source {
	return source{Kind: cd.Kind, Files: cd.Files, Main: cd.Main, GoStmt: cd.GoStmt}
}

func payloadOf(o observation, cmpOut bool) outPayload {
	pl := outPayload{SHA: o.digest(cmpOut)}
	ops := map[string]bool{}
	for _, m := range opRE.FindAllStringSubmatch(o.Asm, -1) {
		ops[m[1]] = true
	}
	for op := range ops {
		pl.Ops = append(pl.Ops, op)
	}
	sort.Strings(pl.Ops)
	o.Asm = core.Truncate(o.Asm, maxText)
	o.Output = core.Truncate(o.Output, maxText/4)
	o.BuildErr = core.Truncate(o.BuildErr, 4000)
	pl.Obs = o
	return pl
}

// workHistory executes one order of a history case.
func workHistory(cd *caseData) core.Result {
	res := core.Result{Status: core.OK, Counts: map[string]int64{}}
	noise(cd.Noise)
	runQs := func() {
		for _, q := range cd.Hist {
			o, _ := observe(q.caseData())
			res.Counts["history_builds"]++
			if o.BuildErr != "" {
				res.Counts["history_builds_failed"]++
			}
		}
	}
	p := *cd
	p.Hist, p.Order = nil, ""
	var last observation
	switch cd.Order {
	case "P":
		last, _ = observe(&p)
		res.Evals = 1
	case "QP":
		runQs()
		last, _ = observe(&p)
		res.Evals = int64(1 + len(cd.Hist))
	default: // PQP
		before, _ := observe(&p)
		runQs()
		last, _ = observe(&p)
		res.Evals = int64(2 + len(cd.Hist))
		if d := diffObs(before, last, cd.CmpOut); d != "" {
			res.Status = core.Violation
			res.Detail = fmt.Sprintf("%s %s: built before and after %d other sources in the same process: %s", cd.Kind, cd.Origin, len(cd.Hist), d)
		}
	}
	res.Counts["builds"] += res.Evals
	res.Out = core.MustJSON(payloadOf(last, cd.CmpOut))
	return res
}

// The first build of order PQP is the baseline (nothing was built before it in
// its process), so a separate process for order "P" is not needed.
var histOrders = []string{"PQP", "QP"}

// runHistory runs history cases (Order == "") and judges them.
func (p prop) runHistory(d *core.Driver, cases []core.Case, tally bool) []core.Result {
	var expanded []core.Case
	for _, c := range cases {
		var cd caseData
		c.Decode(&cd)
		for _, o := range histOrders {
			x := cd
			x.Order = o
			expanded = append(expanded, core.NewCase(c.ID+"/"+o, x))
		}
	}
	// one fresh process per order: Chunk 1
	rs := d.Run(expanded, core.RunOpts{NoTally: true, Chunk: 1})
	out := make([]core.Result, len(cases))
	for i, c := range cases {
		out[i] = judgeHistory(c, rs[i*len(histOrders):(i+1)*len(histOrders)])
		if tally {
			d.Judge(c, out[i])
		}
	}
	return out
}

func judgeHistory(c core.Case, rs []core.Result) core.Result {
	var cd caseData
	c.Decode(&cd)
	out := core.Result{ID: c.ID, Status: core.OK, Counts: map[string]int64{}}
	var pls []outPayload
	for i, r := range rs {
		out.Evals += r.Evals
		for k, v := range r.Counts {
			out.Counts[k] += v
		}
		switch r.Status {
		case core.Violation, core.Crash:
			out.Status = r.Status
			out.Detail = fmt.Sprintf("[order %s] %s", histOrders[i], r.Detail)
			return out
		case core.OK:
		default:
			out.Status = r.Status
			if out.Status == "" {
				out.Status = core.Inconclusive
			}
			out.Detail = fmt.Sprintf("[order %s] %s", histOrders[i], r.Detail)
			return out
		}
		var pl outPayload
		if err := json.Unmarshal(r.Out, &pl); err != nil {
			out.Status = core.Inconclusive
			out.Detail = fmt.Sprintf("[order %s] no payload: %v", histOrders[i], err)
			return out
		}
		pls = append(pls, pl)
	}
	for i := 1; i < len(pls); i++ {
		if pls[i].SHA != pls[0].SHA {
			dd := diffObs(pls[0].Obs, pls[i].Obs, cd.CmpOut)
			if dd == "" {
				dd = "digests differ beyond the truncated texts"
			}
			out.Status = core.Violation
			out.Detail = fmt.Sprintf("%s %s: built first in a fresh process vs built after %d other sources in another process (order %s): %s", cd.Kind, cd.Origin, len(cd.Hist), histOrders[i], dd)
			return out
		}
	}
	out.Counts["history_comparisons"] += int64(len(pls))
	p0 := pls[0]
	if p0.Obs.BuildErr != "" {
		out.Counts["history_cases_p_build_failed"]++
		return out
	}
	kinds := map[string]bool{}
	for _, q := range cd.Hist {
		kinds[q.Kind] = true
	}
	var ks []string
	for k := range kinds {
		ks = append(ks, k)
	}
	sort.Strings(ks)
	out.Sigs = append(out.Sigs, fmt.Sprintf("history/%s/after-%s/k%d/%s", cd.Kind, strings.Join(ks, "+"), len(cd.Hist), originClass(cd.Origin)))
	for _, op := range p0.Ops {
		out.Sigs = append(out.Sigs, "op:"+op)
	}
	return out
}

func originClass(o string) string {
	if i := strings.LastIndexByte(o, '-'); i > 0 {
		return o[:i]
	}
	return o
}

// goprogConfig keeps the shared typed-program generator inside what the pinned
// tree builds (open C01 findings: labelled break/continue is not implemented).
func goprogConfig() goprog.Config {
	cfg := goprog.DefaultConfig()
	cfg.Stmts, cfg.Funcs = 8, 3
	cfg.NegShift, cfg.LabelledCtl, cfg.RangePanic, cfg.DeferNative = false, false, false, false
	return cfg
}

var selfAssign = regexp.MustCompile(`(?m)^\s*(\w+) (\+?=) (.*)$`)

// goprogSafe rejects programs in which a variable is assigned an expression that
// mentions the variable itself twice (or once with +=): inside a loop that is
// exponential growth of a string (v = v + v), and the program prints for hours.
// Over-rejection is harmless.
func goprogSafe(src string) bool {
	for _, m := range selfAssign.FindAllStringSubmatch(src, -1) {
		n := len(regexp.MustCompile(`\b`+regexp.QuoteMeta(m[1])+`\b`).FindAllStringIndex(m[3], -1))
		if m[2] == "+=" && n >= 1 || n >= 2 {
			return false
		}
	}
	return true
}

// genSource draws one source for the history relation.
func genSource(seed int64, mayFail bool) (source, string) {
	r := core.Rand(seed, "hist-src")
	broken := mayFail && r.Intn(5) == 0
	switch k := r.Intn(20); {
	case k < 7:
		return source{Kind: "program", Files: map[string]string{"main.go": genConstProgram(r, broken)}}, "const-prog"
	case k < 11:
		files, main := genConstTemplate(r, broken)
		return source{Kind: "template", Files: files, Main: main}, "const-tmpl"
	case k < 15:
		p := goprog.Generate(r, goprogConfig())
		for try := 0; !goprogSafe(p.Source) && try < 8; try++ {
			p = goprog.Generate(r, goprogConfig())
		}
		return source{Kind: "program", Files: map[string]string{"main.go": p.Source}, GoStmt: true}, "goprog"
	case k < 18:
		goStmt := r.Intn(3) == 0
		return source{Kind: "program", Files: genProgram(r, goStmt, 2+r.Intn(3)), GoStmt: goStmt}, "gen-prog"
	default:
		goStmt := r.Intn(4) == 0
		files, main := genTemplate(r, goStmt, 2+r.Intn(3))
		return source{Kind: "template", Files: files, Main: main, GoStmt: goStmt}, "gen-tmpl"
	}
}

// genHistoryCase draws P and Q1..Qk.
func genHistoryCase(seed int64, i int) caseData {
	r := core.Rand(seed, "hist")
	ps, class := genSource(r.Int63(), false)
	cd := caseData{Kind: ps.Kind, Origin: fmt.Sprintf("hist-%s-%d", class, i), Files: ps.Files, Main: ps.Main, GoStmt: ps.GoStmt, Run: true, CmpOut: true, Noise: seed}
	k := 1 + r.Intn(4)
	for j := 0; j < k; j++ {
		q, _ := genSource(r.Int63(), true)
		cd.Hist = append(cd.Hist, q)
	}
	return cd
}
