package c01

import (
	"strings"
	"testing"

	"verif/core"
)

func TestReadMode(t *testing.T) {
	for _, c := range []struct {
		src, mode string
		opts      int
		bad       bool
	}{
		{"// run\n\npackage main\n", "run", 0, false},
		{"\ufeff// run\npackage main\n", "run", 0, false},
		{"// +build !windows\n\n// run -x\n", "run", 1, false},
		{"// skip : method declaration\n\n// run\n", "skip", 0, false},
		{"// errorcheck\n", "errorcheck", 0, false},
		{"// rundir\n", "rundir", 0, false},
		{"// runoutput\n", "runoutput", 0, false},
		{"package main\n", "", 0, true},
		{"", "", 0, true},
	} {
		mode, opts, err := readMode([]byte(c.src))
		if (err != nil) != c.bad || mode != c.mode || len(opts) != c.opts {
			t.Errorf("readMode(%q) = %q, %q, %v", c.src, mode, opts, err)
		}
	}
}

func TestFirstDiffLine(t *testing.T) {
	if n, _, _ := firstDiffLine([]byte("a\nb\n"), []byte("a\nb\n")); n != 0 {
		t.Errorf("equal inputs: line %d", n)
	}
	if n, x, y := firstDiffLine([]byte("a\nb\nc"), []byte("a\nB\nc")); n != 2 || x != "b\n" || y != "B\n" {
		t.Errorf("got %d %q %q", n, x, y)
	}
	if n, x, y := firstDiffLine([]byte("a\n"), []byte("a\nmore\n")); n != 2 || x != "" || y != "more\n" {
		t.Errorf("got %d %q %q", n, x, y)
	}
	if n, _, y := firstDiffLine(nil, []byte("x")); n != 1 || y != "x" {
		t.Errorf("got %d %q", n, y)
	}
}

func TestCompareCorpus(t *testing.T) {
	cd := CaseData{Kind: "corpus", Name: "t.go", Source: "package main\n", WantOut: []byte("1\n2\n"), WantErr: []byte("e\n")}
	ok := ProcOut{Stdout: []byte("1\n2\n"), Stderr: []byte("e\n")}
	if r := CompareCorpus(cd, ok); r.Status != core.OK || r.Counts["corpus_programs_compared"] != 1 || r.Counts["corpus_bytes_compared"] != 6 || len(r.Sigs) != 1 {
		t.Errorf("equal behaviour: %+v", r)
	}
	for name, ob := range map[string]ProcOut{
		"stdout":  {Stdout: []byte("1\n3\n"), Stderr: []byte("e\n")},
		"stderr":  {Stdout: []byte("1\n2\n"), Stderr: []byte("")},
		"exit":    {Stdout: []byte("1\n2\n"), Stderr: []byte("e\n"), Exit: 1},
		"timeout": {Stdout: []byte("1\n2\n"), Stderr: []byte("e\n"), Exit: -1, TimedOut: true},
	} {
		r := CompareCorpus(cd, ob)
		if r.Status != core.Violation || !strings.Contains(r.Detail, "t.go") || r.Counts["corpus_programs_compared"] != 0 {
			t.Errorf("%s: %+v", name, r)
		}
		if name == "stdout" && !strings.Contains(r.Detail, `stdout differs at line 2`) {
			t.Errorf("detail lacks the first differing line: %s", r.Detail)
		}
	}
	if r := CompareCorpus(cd, ProcOut{Err: "exec format error", Exit: -1}); r.Status != core.Inconclusive {
		t.Errorf("unstartable command: %+v", r)
	}
}

func TestEnumerateCorpus(t *testing.T) {
	progs, st, err := EnumerateCorpus(RepoRoot())
	if err != nil {
		t.Skip(err)
	}
	if len(progs) < 500 || st.ModeRun != len(progs) || st.OtherModes["errorcheck"] == 0 || st.OtherModes["skip"] == 0 {
		t.Errorf("%d programs, stats %+v", len(progs), st)
	}
	for _, p := range progs {
		if strings.Contains(p.Rel, ".dir/") || !strings.HasSuffix(p.Rel, ".go") || !strings.HasPrefix(p.Rel, "test/compare/testdata/") {
			t.Errorf("unexpected program %s", p.Rel)
		}
	}
}
