package c01

// The corpus half of C01: every `// run` program of the repository's
// comparison corpus (test/compare/testdata) is built and run by gc (one scratch
// module, one main package per program) and run by the repository's own
// interpreter command (test/compare/cmd, scratch build) exactly as the
// repository's runner test/compare/run.go does in mode "run": the source on
// stdin of `cmd run .go`. Oracle = run.go's: both exit codes 0, stdout equal,
// stderr equal. Everything is executed in child processes of the driver.

import (
	"bytes"
	"context"
	"crypto/sha1"
	"crypto/sha256"
	_ "embed"
	"encoding/hex"
	"errors"
	"fmt"
	"go/build"
	"os"
	"os/exec"
	"path/filepath"
	"regexp"
	"runtime"
	"runtime/debug"
	"sort"
	"strings"
	"sync"
	"time"

	"verif/core"
)

// committedPackages is the output of `scriggo import -o packages.go` for the
// Scriggofile of test/compare/cmd, generated once by corpuscmd/regen.sh.
// committedInputs is the hash of the inputs it was generated from; when the
// inputs of the repository under test differ the file is regenerated in scratch.
//
//go:embed corpuscmd/packages.go.txt
var committedPackages []byte

//go:embed corpuscmd/INPUTS.sha256
var committedInputs string

// RepoRoot returns the repository the harness is linked against: the target of
// the `replace github.com/open2b/scriggo =>` directive this binary was built
// with (./check rewrites it for VERIF_REPO), else $VERIF_REPO, else /repo.
func RepoRoot() string {
	if bi, ok := debug.ReadBuildInfo(); ok {
		for _, dep := range bi.Deps {
			if dep.Path == "github.com/open2b/scriggo" && dep.Replace != nil && filepath.IsAbs(dep.Replace.Path) {
				return dep.Replace.Path
			}
		}
	}
	if r := os.Getenv("VERIF_REPO"); r != "" {
		return r
	}
	return "/repo"
}

// CorpusProgram is one `// run` program of the comparison corpus.
type CorpusProgram struct {
	Rel    string   // path relative to the repository root
	Source []byte   // file content
	Opts   []string // options after the mode keyword, passed to the interpreter command
}

// CorpusStats counts what the enumeration saw.
type CorpusStats struct {
	GoFiles       int
	ModeRun       int
	OtherModes    map[string]int
	NotCompatible int // build constraints not satisfied (run.go: "skipped, not compatible")
}

var bom = []byte("\ufeff")

// readMode is run.go's readMode for .go files.
func readMode(src []byte) (string, []string, error) {
	src = bytes.TrimPrefix(src, bom)
	for _, l := range strings.Split(string(src), "\n") {
		l = strings.TrimSpace(l)
		if l == "" {
			continue
		}
		if t := strings.TrimSpace(strings.TrimPrefix(l, "//")); strings.HasPrefix(l, "//") && strings.HasPrefix(t, "+build") {
			continue
		}
		if !strings.HasPrefix(l, "//") {
			return "", nil, fmt.Errorf("not a valid directive: %s", l)
		}
		l = strings.TrimSpace(strings.TrimPrefix(l, "//"))
		if strings.HasPrefix(l, "skip ") {
			return "skip", nil, nil
		}
		s := strings.Split(l, " ")
		return s[0], s[1:], nil
	}
	return "", nil, errors.New("mode not specified")
}

// EnumerateCorpus lists the single-file `// run` Go programs under
// test/compare/testdata of repo, in path order.
func EnumerateCorpus(repo string) ([]CorpusProgram, CorpusStats, error) {
	st := CorpusStats{OtherModes: map[string]int{}}
	root := filepath.Join(repo, "test", "compare", "testdata")
	// the tags run.go uses: GOOS, GOARCH, cgo, go1.1 … current
	ctxt := build.Default
	ctxt.Compiler = ""
	ctxt.BuildTags = nil
	ctxt.ToolTags = nil
	ctxt.CgoEnabled = true
	var progs []CorpusProgram
	err := filepath.Walk(root, func(path string, info os.FileInfo, err error) error {
		if err != nil {
			return err
		}
		if info.IsDir() || filepath.Ext(path) != ".go" {
			return nil
		}
		if strings.Contains(path, ".dir"+string(filepath.Separator)) {
			return nil
		}
		st.GoFiles++
		src, err := os.ReadFile(path)
		if err != nil {
			return err
		}
		if ok, err := ctxt.MatchFile(filepath.Dir(path), filepath.Base(path)); err != nil || !ok {
			st.NotCompatible++
			return nil
		}
		mode, opts, err := readMode(src)
		if err != nil {
			st.OtherModes["unreadable"]++
			return nil
		}
		if mode != "run" {
			st.OtherModes[mode]++
			return nil
		}
		st.ModeRun++
		rel, _ := filepath.Rel(repo, path)
		var o []string
		for _, x := range opts {
			if x != "" {
				o = append(o, x)
			}
		}
		progs = append(progs, CorpusProgram{Rel: filepath.ToSlash(rel), Source: src, Opts: o})
		return nil
	})
	if err != nil {
		return nil, st, err
	}
	sort.Slice(progs, func(i, j int) bool { return progs[i].Rel < progs[j].Rel })
	return progs, st, nil
}

// ---------------------------------------------------------------- scratch modules

func goEnv() []string {
	return append(os.Environ(), "GOFLAGS=-mod=mod", "GOPROXY=off", "GOTOOLCHAIN=local", "GOWORK=off")
}

func goVersionNumber() string {
	return strings.TrimPrefix(strings.Fields(runtime.Version())[0], "go")
}

func copyFile(dst, src string) error {
	b, err := os.ReadFile(src)
	if err != nil {
		return err
	}
	if err := os.MkdirAll(filepath.Dir(dst), 0o755); err != nil {
		return err
	}
	return os.WriteFile(dst, b, 0o644)
}

// writeTestpkg copies <repo>/test/compare/testpkg into dir/testpkg as the module
// github.com/open2b/scriggo/test/compare/testpkg (what run.go does for gc).
func writeTestpkg(dir, repo string) error {
	src := filepath.Join(repo, "test", "compare", "testpkg")
	ents, err := os.ReadDir(src)
	if err != nil {
		return err
	}
	for _, e := range ents {
		if e.IsDir() || !strings.HasSuffix(e.Name(), ".go") || strings.HasSuffix(e.Name(), "_test.go") {
			continue
		}
		if err := copyFile(filepath.Join(dir, "testpkg", e.Name()), filepath.Join(src, e.Name())); err != nil {
			return err
		}
	}
	mod := "module github.com/open2b/scriggo/test/compare/testpkg\n\ngo " + goVersionNumber() + "\n\nrequire github.com/open2b/scriggo v0.0.0\n\nreplace github.com/open2b/scriggo => " + repo + "\n"
	return os.WriteFile(filepath.Join(dir, "testpkg", "go.mod"), []byte(mod), 0o644)
}

// writeModule writes go.mod/go.sum/testpkg of a scratch module that resolves
// scriggo from repo and testpkg from the copy of <repo>/test/compare/testpkg.
func writeModule(dir, name, repo string) error {
	if err := os.MkdirAll(dir, 0o755); err != nil {
		return err
	}
	mod := "module " + name + "\n\ngo " + goVersionNumber() + "\n\nrequire (\n\tgithub.com/open2b/scriggo v0.0.0\n\tgithub.com/open2b/scriggo/test/compare/testpkg v0.0.0\n)\n\n" +
		"replace github.com/open2b/scriggo => " + repo + "\n\nreplace github.com/open2b/scriggo/test/compare/testpkg => ./testpkg\n"
	if err := os.WriteFile(filepath.Join(dir, "go.mod"), []byte(mod), 0o644); err != nil {
		return err
	}
	if b, err := os.ReadFile(filepath.Join(repo, "go.sum")); err == nil {
		if err := os.WriteFile(filepath.Join(dir, "go.sum"), b, 0o644); err != nil {
			return err
		}
	}
	return writeTestpkg(dir, repo)
}

// CorpusInputsHash hashes what the generated packages.go depends on: the
// Scriggofile, the sources of testpkg and the Go release.
func CorpusInputsHash(repo string) (string, error) {
	h := sha256.New()
	add := func(name string, b []byte) { fmt.Fprintf(h, "%s %d\n", name, len(b)); h.Write(b) }
	b, err := os.ReadFile(filepath.Join(repo, "test", "compare", "cmd", "Scriggofile"))
	if err != nil {
		return "", err
	}
	add("Scriggofile", b)
	dir := filepath.Join(repo, "test", "compare", "testpkg")
	ents, err := os.ReadDir(dir)
	if err != nil {
		return "", err
	}
	for _, e := range ents { // ReadDir sorts by name
		if e.IsDir() || !strings.HasSuffix(e.Name(), ".go") || strings.HasSuffix(e.Name(), "_test.go") {
			continue
		}
		b, err := os.ReadFile(filepath.Join(dir, e.Name()))
		if err != nil {
			return "", err
		}
		add("testpkg/"+e.Name(), b)
	}
	v := goVersionNumber() // packages.go is constrained to one Go minor release
	if p := strings.SplitN(v, ".", 3); len(p) >= 2 {
		v = p[0] + "." + p[1]
	}
	add("go", []byte(v))
	add("os", []byte(runtime.GOOS))
	return hex.EncodeToString(h.Sum(nil)), nil
}

// prepareCmdDir fills dir with the interpreter command of repo without packages.go.
func prepareCmdDir(dir, repo string) error {
	if err := writeModule(dir, "corpuscmd", repo); err != nil {
		return err
	}
	for _, f := range []string{"main.go", "Scriggofile"} {
		if err := copyFile(filepath.Join(dir, f), filepath.Join(repo, "test", "compare", "cmd", f)); err != nil {
			return err
		}
	}
	return nil
}

// GeneratePackages builds cmd/scriggo of repo into scratch and runs
// `scriggo import -o packages.go` in a scratch copy of test/compare/cmd.
func GeneratePackages(goBin, repo, scratch string) ([]byte, error) {
	dir := filepath.Join(scratch, "import")
	defer os.RemoveAll(dir)
	cmdDir := filepath.Join(dir, "cmd")
	if err := prepareCmdDir(cmdDir, repo); err != nil {
		return nil, err
	}
	tool := filepath.Join(dir, "scriggo")
	c := exec.Command(goBin, "build", "-o", tool, "./cmd/scriggo")
	c.Dir = repo
	c.Env = goEnv()
	if out, err := c.CombinedOutput(); err != nil {
		return nil, fmt.Errorf("building %s/cmd/scriggo: %v\n%s", repo, err, core.Truncate(string(out), 3000))
	}
	c = exec.Command(tool, "import", "-o", "packages.go")
	c.Dir = cmdDir
	c.Env = append(goEnv(), "PATH="+filepath.Dir(goBin)+string(os.PathListSeparator)+os.Getenv("PATH"))
	if out, err := c.CombinedOutput(); err != nil {
		return nil, fmt.Errorf("scriggo import: %v\n%s", err, core.Truncate(string(out), 3000))
	}
	return os.ReadFile(filepath.Join(cmdDir, "packages.go"))
}

type corpusTool struct {
	once        sync.Once
	bin         string
	regenerated bool
	err         error
}

var tool corpusTool

// CorpusCmd builds (once per process) the interpreter command of the repository
// under scratch and returns the path of the binary.
func CorpusCmd(scratch string) (string, error) {
	tool.once.Do(func() {
		repo := RepoRoot()
		dir := filepath.Join(scratch, "corpus-cmd")
		if tool.err = prepareCmdDir(dir, repo); tool.err != nil {
			return
		}
		pk := committedPackages
		if h, err := CorpusInputsHash(repo); err != nil {
			tool.err = err
			return
		} else if h != strings.TrimSpace(committedInputs) {
			fmt.Printf("NOTE property=C01 Scriggofile/testpkg/Go release of %s differ from the committed packages.go: running `scriggo import` in scratch\n", repo)
			if pk, tool.err = GeneratePackages(goBin(), repo, scratch); tool.err != nil {
				return
			}
			tool.regenerated = true
		}
		if tool.err = os.WriteFile(filepath.Join(dir, "packages.go"), pk, 0o644); tool.err != nil {
			return
		}
		bin := filepath.Join(scratch, "corpus-cmd.bin")
		c := exec.Command(goBin(), "build", "-o", bin, ".")
		c.Dir = dir
		c.Env = goEnv()
		if out, err := c.CombinedOutput(); err != nil {
			tool.err = fmt.Errorf("building the interpreter command of %s/test/compare/cmd: %v\n%s", repo, err, core.Truncate(string(out), 3000))
			return
		}
		tool.bin = bin
	})
	return tool.bin, tool.err
}

// ---------------------------------------------------------------- execution

// ProcOut is what one child process did.
type ProcOut struct {
	Exit     int
	Stdout   []byte
	Stderr   []byte
	TimedOut bool
	Err      string // could not be started
}

var cwdSeq struct {
	sync.Mutex
	n int
}

// runProc runs bin in a fresh empty working directory under base.
func runProc(base, bin string, args []string, stdin []byte, timeout time.Duration, env []string) ProcOut {
	cwdSeq.Lock()
	cwdSeq.n++
	n := cwdSeq.n
	cwdSeq.Unlock()
	cwd := filepath.Join(base, fmt.Sprintf("cwd%06d", n))
	os.MkdirAll(cwd, 0o755)
	defer os.RemoveAll(cwd)
	ctx, cancel := context.WithTimeout(context.Background(), timeout)
	defer cancel()
	c := exec.CommandContext(ctx, bin, args...)
	c.Dir = cwd
	c.Env = append(os.Environ(), env...)
	c.WaitDelay = 2 * time.Second
	var so, se bytes.Buffer
	c.Stdout, c.Stderr = &so, &se
	if stdin != nil {
		c.Stdin = bytes.NewReader(stdin)
	}
	err := c.Run()
	o := ProcOut{Stdout: so.Bytes(), Stderr: se.Bytes()}
	if ctx.Err() != nil {
		o.TimedOut = true
		o.Exit = -1
		return o
	}
	if ee, ok := err.(*exec.ExitError); ok {
		o.Exit = ee.ExitCode()
	} else if err != nil {
		o.Exit = -1
		o.Err = err.Error()
	}
	return o
}

// GcOutcome is the reference behaviour of one corpus program.
type GcOutcome struct {
	Skip   string // non-empty: why the program cannot serve as a reference (class: text)
	Stdout []byte
	Stderr []byte
}

var gcErrLine = regexp.MustCompile(`(?m)^(?:\./)?p(\d{5})/main\.go:\d+(?::\d+)?: .*$`)
var gcPkgLine = regexp.MustCompile(`(?m)^(?:package )?corpusgc/p(\d{5})\b.*$`)

// RunGcCorpus builds every program as its own main package of ONE scratch module
// with one `go build -o bin/ ./...` and runs every binary twice. It also returns
// the seconds spent building and running (reported in the evidence, never judged).
func RunGcCorpus(dir, repo string, progs []CorpusProgram, parallel int) ([]GcOutcome, [2]float64, error) {
	var spent [2]float64
	t0 := time.Now()
	outs := make([]GcOutcome, len(progs))
	if err := writeModule(dir, "corpusgc", repo); err != nil {
		return nil, spent, err
	}
	alive := make([]bool, len(progs))
	for i, p := range progs {
		alive[i] = true
		if err := os.MkdirAll(filepath.Join(dir, fmt.Sprintf("p%05d", i)), 0o755); err != nil {
			return nil, spent, err
		}
		if err := os.WriteFile(filepath.Join(dir, fmt.Sprintf("p%05d", i), "main.go"), p.Source, 0o644); err != nil {
			return nil, spent, err
		}
	}
	binDir := filepath.Join(dir, "bin")
	for attempt := 0; ; attempt++ {
		os.RemoveAll(binDir)
		os.MkdirAll(binDir, 0o755)
		// -s -w: no symbol table and DWARF, which halves the cost of ~1000 links
		c := exec.Command(goBin(), "build", "-ldflags=-s -w", "-o", binDir+string(filepath.Separator), "./...")
		c.Dir = dir
		c.Env = goEnv()
		out, err := c.CombinedOutput()
		if err == nil {
			break
		}
		bad := map[int]bool{}
		note := func(m []string) {
			var i int
			fmt.Sscanf(m[1], "%d", &i)
			if i < 0 || i >= len(progs) || !alive[i] {
				return
			}
			bad[i] = true
			if len(outs[i].Skip) < 600 {
				if outs[i].Skip == "" {
					outs[i].Skip = "gc-build-failed: "
				}
				outs[i].Skip += strings.TrimSpace(m[0]) + " | "
			}
		}
		for _, m := range gcErrLine.FindAllStringSubmatch(string(out), -1) {
			note(m)
		}
		if len(bad) == 0 {
			for _, m := range gcPkgLine.FindAllStringSubmatch(string(out), -1) {
				note(m)
			}
		}
		if len(bad) == 0 || attempt >= 6 {
			return nil, spent, fmt.Errorf("gc build of the corpus module failed: %v\n%s", err, core.Truncate(string(out), 4000))
		}
		for i := range bad {
			alive[i] = false
			os.RemoveAll(filepath.Join(dir, fmt.Sprintf("p%05d", i)))
		}
	}
	if parallel < 1 {
		parallel = 1
	}
	spent[0] = time.Since(t0).Seconds()
	t0 = time.Now()
	runBase := filepath.Join(dir, "run")
	sem := make(chan struct{}, parallel)
	var wg sync.WaitGroup
	for i := range progs {
		if !alive[i] {
			continue
		}
		bin := filepath.Join(binDir, fmt.Sprintf("p%05d", i))
		if _, err := os.Stat(bin); err != nil {
			outs[i].Skip = "gc-build-failed: no binary produced (not a main package?)"
			continue
		}
		wg.Add(1)
		sem <- struct{}{}
		go func(i int, bin string) {
			defer wg.Done()
			defer func() { <-sem }()
			a := runProc(runBase, bin, nil, nil, 10*time.Second, nil)
			switch {
			case a.Err != "":
				outs[i].Skip = "gc-run-failed: " + a.Err
				return
			case a.TimedOut:
				outs[i].Skip = "gc-timeout: the reference ran longer than 10 s"
				return
			case a.Exit != 0:
				outs[i].Skip = fmt.Sprintf("gc-exit-nonzero: exit %d, stderr %q", a.Exit, core.Truncate(firstLineOf(a.Stderr), 200))
				return
			}
			// second run under another scheduler width: time, randomness, addresses,
			// goroutine scheduling and map order show up as a difference
			b := runProc(runBase, bin, nil, nil, 10*time.Second, []string{"GOMAXPROCS=2"})
			if b.TimedOut || b.Exit != a.Exit || !bytes.Equal(a.Stdout, b.Stdout) || !bytes.Equal(a.Stderr, b.Stderr) {
				which := "stdout"
				x, y := a.Stdout, b.Stdout
				if bytes.Equal(x, y) {
					which, x, y = "stderr", a.Stderr, b.Stderr
				}
				ln, l1, l2 := firstDiffLine(x, y)
				outs[i].Skip = fmt.Sprintf("nondeterministic: two gc runs differ (exit %d/%d, timeout %v) at %s line %d: %q vs %q", a.Exit, b.Exit, b.TimedOut, which, ln, core.Truncate(l1, 80), core.Truncate(l2, 80))
				return
			}
			outs[i].Stdout, outs[i].Stderr = a.Stdout, a.Stderr
		}(i, bin)
	}
	wg.Wait()
	spent[1] = time.Since(t0).Seconds()
	return outs, spent, nil
}

func firstLineOf(b []byte) string {
	if i := bytes.IndexByte(b, '\n'); i >= 0 {
		return string(b[:i])
	}
	return string(b)
}

// firstDiffLine returns the 1-based number of the first line in which a and b
// differ and that line in each ("" past the end).
func firstDiffLine(a, b []byte) (int, string, string) {
	la, lb := strings.SplitAfter(string(a), "\n"), strings.SplitAfter(string(b), "\n")
	for i := 0; i < len(la) || i < len(lb); i++ {
		var x, y string
		if i < len(la) {
			x = la[i]
		}
		if i < len(lb) {
			y = lb[i]
		}
		if x != y {
			return i + 1, x, y
		}
	}
	return 0, "", ""
}

// RunScriggoCorpus runs one corpus program the way run.go does: `cmd [opts] run .go` with the source on stdin.
func RunScriggoCorpus(cmdBin, base string, cd CaseData) ProcOut {
	args := append(append([]string{}, cd.Opts...), "run", ".go")
	return runProc(base, cmdBin, args, []byte(cd.Source), 30*time.Second, nil)
}

// CompareCorpus applies run.go's oracle to one observed execution.
func CompareCorpus(cd CaseData, ob ProcOut) core.Result {
	res := core.Result{Status: core.OK, Counts: map[string]int64{}}
	fail := func(format string, a ...any) core.Result {
		res.Status = core.Violation
		res.Detail = "corpus program " + cd.Name + ": " + fmt.Sprintf(format, a...) + "\n--- source ---\n" + cd.Source
		return res
	}
	if ob.Err != "" {
		res.Status = core.Inconclusive
		res.Detail = "the interpreter command could not be started: " + ob.Err
		return res
	}
	streams := func() string {
		var sb strings.Builder
		for _, s := range []struct {
			name      string
			want, got []byte
		}{{"stdout", cd.WantOut, ob.Stdout}, {"stderr", cd.WantErr, ob.Stderr}} {
			if bytes.Equal(s.want, s.got) {
				fmt.Fprintf(&sb, "\n  %s: equal (%d bytes)", s.name, len(s.want))
				continue
			}
			ln, g, w := firstDiffLine(s.want, s.got)
			fmt.Fprintf(&sb, "\n  %s differs at line %d (gc %d bytes, scriggo %d bytes)\n    gc     : %q\n    scriggo: %q", s.name, ln, len(s.want), len(s.got), core.Truncate(g, 300), core.Truncate(w, 300))
		}
		return sb.String()
	}
	if ob.TimedOut {
		return fail("gc ends with exit code 0 in less than 10 s (twice, same output); under scriggo the program did not end within 30 s%s", streams())
	}
	if ob.Exit != 0 {
		return fail("gc ends with exit code 0; scriggo (test/compare/cmd run .go) ends with exit code %d%s", ob.Exit, streams())
	}
	if !bytes.Equal(ob.Stdout, cd.WantOut) || !bytes.Equal(ob.Stderr, cd.WantErr) {
		return fail("both end with exit code 0 but the output differs%s", streams())
	}
	sum := sha1.Sum(append(append([]byte{}, cd.WantOut...), cd.WantErr...))
	res.Sigs = append(res.Sigs, "corpus-output:"+hex.EncodeToString(sum[:6]))
	res.Counts["corpus_programs_compared"]++
	res.Counts["corpus_bytes_compared"] += int64(len(cd.WantOut) + len(cd.WantErr))
	if len(cd.WantOut)+len(cd.WantErr) == 0 {
		res.Counts["corpus_programs_silent_on_success"]++
	}
	return res
}

// ReplayCase re-executes one recorded case: a corpus case by building the
// interpreter command and running the recorded source through it, any other case
// in a worker child.
func (prop) ReplayCase(d *core.Driver, c core.Case) core.Result {
	var cd CaseData
	c.Decode(&cd)
	if cd.Kind != "corpus" {
		return d.Run([]core.Case{c}, core.RunOpts{Workers: 1, NoTally: true})[0]
	}
	bin, err := CorpusCmd(d.Scratch)
	if err != nil {
		return core.Result{ID: c.ID, Status: core.Inconclusive, Detail: err.Error()}
	}
	r := CompareCorpus(cd, RunScriggoCorpus(bin, filepath.Join(d.Scratch, "corpus-run"), cd))
	r.ID = c.ID
	return r
}

// workCorpus is Work for a corpus case that reaches a worker child.
func workCorpus(cd CaseData) core.Result {
	bin := os.Getenv("VERIF_C01_CORPUSCMD")
	if bin == "" {
		return core.Result{Status: core.Inconclusive, Detail: "corpus cases are executed by the driver (ReplayCase); VERIF_C01_CORPUSCMD is not set"}
	}
	return CompareCorpus(cd, RunScriggoCorpus(bin, os.Getenv("VERIF_SCRATCH"), cd))
}

const corpusScope = "corpus:"

// DriveCorpus is the corpus half of Drive.
func DriveCorpus(d *core.Driver) error {
	repo := RepoRoot()
	all, st, err := EnumerateCorpus(repo)
	if err != nil {
		return fmt.Errorf("corpus: %v", err)
	}
	if len(all) < 100 {
		return fmt.Errorf("corpus: only %d `// run` programs found under %s/test/compare/testdata", len(all), repo)
	}
	d.T.Set("corpus_repo", repo)
	d.T.Set("corpus_go_files", st.GoFiles)
	d.T.Set("corpus_mode_run", st.ModeRun)
	d.T.Set("corpus_other_modes", st.OtherModes)
	d.T.Set("corpus_not_compatible", st.NotCompatible)

	// programs named by a finding: open ones are excluded (the witness is replayed
	// and reported as KNOWN-FINDING), fixed ones are always part of the sample
	findings, _ := core.LoadFindings(d.Root, "C01")
	pinned := map[string]bool{}
	for _, f := range findings {
		if strings.HasPrefix(f.Scope, corpusScope) && f.Status != "open" {
			pinned[strings.TrimPrefix(f.Scope, corpusScope)] = true
		}
	}
	excluded := []string{}
	var eligible []CorpusProgram
	for _, p := range all {
		if d.InScope(corpusScope + p.Rel) {
			excluded = append(excluded, p.Rel)
			continue
		}
		eligible = append(eligible, p)
	}
	d.T.Set("corpus_excluded_open_findings", excluded)
	sel := eligible
	if !d.Thorough() {
		const sample = 80
		pick := map[int]bool{}
		for _, i := range d.Rand("corpus-sample").Perm(len(eligible)) {
			if len(pick) >= sample {
				break
			}
			pick[i] = true
		}
		sel = nil
		for i, p := range eligible {
			if pick[i] || pinned[p.Rel] {
				sel = append(sel, p)
			}
		}
	}
	d.T.Set("corpus_programs_selected", len(sel))

	// the interpreter command is built while gc builds the reference binaries
	var cmdBin string
	var cmdErr error
	var wg sync.WaitGroup
	wg.Add(1)
	go func() {
		defer wg.Done()
		cmdBin, cmdErr = CorpusCmd(d.Scratch)
	}()
	gcDir := filepath.Join(d.Scratch, "corpus-gc")
	par := runtime.NumCPU() - 2
	if par < 1 {
		par = 1
	}
	if par > 14 {
		par = 14
	}
	gc, spent, err := RunGcCorpus(gcDir, repo, sel, par)
	os.RemoveAll(gcDir)
	wg.Wait()
	d.T.Set("corpus_seconds_gc_build", spent[0])
	d.T.Set("corpus_seconds_gc_runs", spent[1])
	if err != nil {
		return fmt.Errorf("corpus: %v", err)
	}
	if cmdErr != nil {
		return fmt.Errorf("corpus: %v", cmdErr)
	}
	d.T.Set("corpus_packages_go", map[bool]string{false: "committed corpuscmd/packages.go.txt (inputs hash matches)", true: "regenerated in scratch with `scriggo import`"}[tool.regenerated])

	type skipped struct {
		File   string `json:"file"`
		Reason string `json:"reason"`
	}
	skips := []skipped{}
	var cases []core.Case
	for i, p := range sel {
		if gc[i].Skip != "" {
			class := gc[i].Skip
			if k := strings.IndexByte(class, ':'); k > 0 {
				class = class[:k]
			}
			if class == "nondeterministic" {
				d.T.Count("corpus_skipped_nondeterministic", 1)
			} else {
				d.T.Count("corpus_skipped_gc_failed", 1)
				d.T.Count("corpus_skipped_"+strings.ReplaceAll(class, "-", "_"), 1)
			}
			skips = append(skips, skipped{p.Rel, core.Truncate(gc[i].Skip, 400)})
			continue
		}
		cases = append(cases, core.NewCase(corpusScope+p.Rel, CaseData{Kind: "corpus", Name: p.Rel, Source: string(p.Source), WantOut: gc[i].Stdout, WantErr: gc[i].Stderr, Opts: p.Opts}))
	}
	d.T.Set("corpus_skipped", skips)
	if len(skips)*10 > len(sel) {
		return fmt.Errorf("corpus: harness defect: %d of %d corpus programs have no usable gc reference (first: %s: %s)", len(skips), len(sel), skips[0].File, skips[0].Reason)
	}
	if len(cases) > 0 {
		var cd CaseData
		cases[len(cases)/2].Decode(&cd)
		d.T.Sample(map[string]any{"id": cases[len(cases)/2].ID, "file": cd.Name, "gc_stdout": core.Truncate(string(cd.WantOut), 300), "gc_stderr": core.Truncate(string(cd.WantErr), 300)})
	}
	results := make([]core.Result, len(cases))
	t0 := time.Now()
	runBase := filepath.Join(d.Scratch, "corpus-run")
	sem := make(chan struct{}, par)
	for i := range cases {
		wg.Add(1)
		sem <- struct{}{}
		go func(i int) {
			defer wg.Done()
			defer func() { <-sem }()
			var cd CaseData
			cases[i].Decode(&cd)
			results[i] = CompareCorpus(cd, RunScriggoCorpus(cmdBin, runBase, cd))
			results[i].ID = cases[i].ID
		}(i)
	}
	wg.Wait()
	d.T.Set("corpus_seconds_scriggo_runs", time.Since(t0).Seconds())
	for i := range cases {
		d.Judge(cases[i], results[i])
	}
	return nil
}
