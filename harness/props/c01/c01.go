// Package c01 checks that interpreted programs behave exactly like the same
// program compiled by gc.
//
// Oracle: gc as executable reference model (oracle/gcref): every generated
// program is compiled by the pinned Go toolchain and run; the worker builds the
// same source with scriggo.Build, runs it with fd 2 redirected to a file (the
// default print path of the VM uses Go's own print) and compares printed bytes,
// the crash header of an unrecovered panic and the final outcome.
package c01

import (
	"context"
	"crypto/sha1"
	"encoding/hex"
	"fmt"
	"os"
	"path/filepath"
	"regexp"
	"sort"
	"strings"
	"syscall"
	"time"
	"unicode/utf8"

	"github.com/open2b/scriggo"

	"verif/core"
	"verif/gen/goprog"
	"verif/oracle/gcref"
)

type prop struct{}

func init() { core.Register(prop{}) }

func (prop) ID() string    { return "C01" }
func (prop) Level() string { return "exploration" }

// CaseData is one program with the behaviour observed under gc.
type CaseData struct {
	Kind      string   `json:"kind"` // gen | corpus
	Name      string   `json:"name"`
	Source    string   `json:"source"`
	WantOut   []byte   `json:"want_out"`           // base64 in JSON: the output may hold invalid UTF-8 (corpus: gc's stdout)
	WantErr   []byte   `json:"want_err,omitempty"` // corpus: gc's stderr
	Opts      []string `json:"opts,omitempty"`     // corpus: options after `// run`, passed to the interpreter command
	WantCrash string   `json:"want_crash"`         // gc's "panic: ..." header or "fatal error: ..." line, "" if the program ended normally
	WantExit  int      `json:"want_exit"`
	Features  []string `json:"features,omitempty"`
	UseCtx    bool     `json:"use_ctx"`
}

// GenConfig derives the generator configuration from the open findings.
func GenConfig(d *core.Driver, r interface{ Intn(int) int }) goprog.Config {
	cfg := goprog.DefaultConfig()
	cfg.NegShift = !d.InScope("negative-shift-count")
	cfg.DeferNative = !d.InScope("deferred-builtin-call")
	cfg.LabelledCtl = !d.InScope("labelled-break-continue")
	cfg.RangePanic = !d.InScope("panic-while-range-active")
	cfg.AssertMsgDT = !d.InScope("assertion-message-defined-type")
	cfg.DeferBuiltinDT = !d.InScope("deferred-builtin-defined-type")
	cfg.PanicDefType = !d.InScope("panic-value-defined-type")
	switch r.Intn(4) {
	case 0:
		cfg.Stmts, cfg.Funcs = 6, 2
	case 1:
		cfg.Stmts, cfg.Funcs = 24, 7
	}
	return cfg
}

func goBin() string {
	if g := os.Getenv("VGO"); g != "" {
		return g
	}
	return "go"
}

// MakeCases generates n programs, runs them under gc and returns the cases.
func MakeCases(d *core.Driver, n int, label string) ([]core.Case, int, error) {
	var sources []string
	var feats [][]string
	for i := 0; i < n; i++ {
		r := d.Rand(fmt.Sprintf("%s-prog-%d", label, i))
		cfg := GenConfig(d, r)
		p := goprog.Generate(r, cfg)
		src := strings.Replace(p.Source, "package main\n\n", "package main\n\n"+gcref.InitMarker+"\n", 1)
		sources = append(sources, src)
		feats = append(feats, p.Features)
	}
	var cases []core.Case
	discarded := 0
	tooLarge := 0
	const batch = 250
	for lo := 0; lo < len(sources); lo += batch {
		hi := lo + batch
		if hi > len(sources) {
			hi = len(sources)
		}
		dir := filepath.Join(d.Scratch, fmt.Sprintf("gc-%s-%d", label, lo))
		outs, err := gcref.Run(goBin(), dir, sources[lo:hi], 12)
		os.RemoveAll(dir)
		if err != nil {
			return nil, 0, err
		}
		for k, o := range outs {
			i := lo + k
			if !o.Built || o.TimedOut {
				discarded++
				why := core.Truncate(strings.ReplaceAll(o.BuildErr, "\n", " | "), 300)
				if o.TimedOut {
					why = "ran longer than 10 s"
				}
				fmt.Printf("NOTE property=C01 generated program %s-%d discarded (gc: %s)\n", label, i, why)
				continue
			}
			if len(o.Out) > 128<<10 {
				tooLarge++
				continue
			}
			crash := o.Panic
			if o.Fatal != "" {
				crash = o.Fatal
			}
			cases = append(cases, core.NewCase(fmt.Sprintf("%s-%d", label, i), CaseData{
				Kind: "gen", Name: fmt.Sprintf("%s-%d", label, i), Source: sources[i], WantOut: []byte(o.Out), WantCrash: crash, WantExit: o.Exit,
				Features: feats[i], UseCtx: i%2 == 0,
			}))
		}
	}
	d.T.Count("programs_dropped_output_over_128KiB", int64(tooLarge))
	return cases, discarded, nil
}

func (prop) Drive(d *core.Driver) error {
	if os.Getenv("VERIF_C01_HALF") == "corpus" { // development aid: only the corpus half
		fmt.Println("NOTE property=C01 VERIF_C01_HALF=corpus: the generated-program half is not run")
		return DriveCorpus(d)
	}
	n := d.N(100, 3000)
	d.T.Rule = "typed random Go programs (gen/goprog: expressions over every basic type and width, shifts, conversions, division, strings, composite values, closures, defer/panic/recover, labelled control flow, shuffled package-level initialisation) are compiled and run by gc (reference) and built and run by scriggo; printed bytes, crash header and outcome must be equal. A case is non-trivial and distinct by the multiset of VM opcodes in its disassembly (sha1 of the sorted opcode histogram)."
	d.T.Assumptions = []string{"gc (pinned go1.25.0, language version go1.21) is the reference semantics", "generated programs avoid behaviour the Go spec leaves implementation-defined (float→int overflow, map order, evaluation order of non-call operands, aliasing after append)"}
	cases, discarded, err := MakeCases(d, n, "g")
	if err != nil {
		return err
	}
	d.T.Set("programs", len(cases))
	d.T.Set("generator_discarded", discarded)
	if discarded*20 > n {
		return fmt.Errorf("generator defect: %d of %d programs rejected by gc", discarded, n)
	}
	for i := 0; i < 2 && i < len(cases); i++ {
		var cd CaseData
		cases[i].Decode(&cd)
		d.T.Sample(map[string]any{"id": cases[i].ID, "source": core.Truncate(cd.Source, 1500), "gc_output": core.Truncate(string(cd.WantOut), 400), "gc_crash": cd.WantCrash})
	}
	results := d.Run(cases, core.RunOpts{CaseWall: 90 * time.Second})
	ops := map[string]bool{}
	feats := map[string]bool{}
	crashes := 0
	for i, r := range results {
		for k := range r.Counts {
			if strings.HasPrefix(k, "op:") {
				ops[k[3:]] = true
			}
		}
		var cd CaseData
		cases[i].Decode(&cd)
		for _, f := range cd.Features {
			feats[f] = true
		}
		if cd.WantCrash != "" {
			crashes++
		}
	}
	d.T.Set("opcodes_covered", sortedKeys(ops))
	d.T.Set("generator_features_covered", len(feats))
	d.T.Set("programs_ending_in_unrecovered_panic", crashes)
	d.T.Set("disagreements_checked", len(cases))
	return DriveCorpus(d)
}

func sortedKeys(m map[string]bool) []string {
	var out []string
	for k := range m {
		out = append(out, k)
	}
	sort.Strings(out)
	return out
}

// Observed is scriggo's behaviour for one program.
type Observed struct {
	BuildErr  string
	Out       string
	Crash     string // "panic: "+PanicError.Error() trimmed, or other error text
	HostPanic string
	ErrType   string
}

// RunScriggo builds and runs src with fd 2 captured.
func RunScriggo(src string, useCtx bool, opts *scriggo.BuildOptions) (ob Observed, prog *scriggo.Program) {
	var err error
	v, panicked, stack := core.Guard(func() {
		prog, err = scriggo.Build(scriggo.Files{"main.go": []byte(src)}, opts)
	})
	if panicked {
		ob.HostPanic = fmt.Sprintf("Build panicked: %v\n%s", v, stack)
		return
	}
	if err != nil {
		ob.BuildErr = err.Error()
		return
	}
	var runErr error
	ro := &scriggo.RunOptions{}
	var cancel context.CancelFunc
	if useCtx {
		ro.Context, cancel = context.WithTimeout(context.Background(), 60*time.Second)
		defer cancel()
	}
	path := filepath.Join(os.Getenv("VERIF_SCRATCH"), "fd2.txt")
	if os.Getenv("VERIF_SCRATCH") == "" {
		path = filepath.Join(os.TempDir(), fmt.Sprintf("fd2-%d.txt", os.Getpid()))
	}
	ob.Out = CaptureFD2(path, func() {
		v, panicked, stack = core.Guard(func() { runErr = prog.Run(ro) })
	})
	if panicked {
		ob.HostPanic = fmt.Sprintf("Run panicked: %v\n%s", v, stack)
		return
	}
	if runErr != nil {
		ob.ErrType = fmt.Sprintf("%T", runErr)
		if pe, ok := runErr.(*scriggo.PanicError); ok {
			ob.Crash = "panic: " + strings.TrimRight(pe.Error(), "\n")
		} else {
			ob.Crash = "error: " + runErr.Error()
		}
	}
	return
}

// CaptureFD2 runs f with file descriptor 2 redirected to path and returns what was written.
func CaptureFD2(path string, f func()) string {
	file, err := os.OpenFile(path, os.O_CREATE|os.O_TRUNC|os.O_RDWR, 0o644)
	if err != nil {
		panic(err)
	}
	defer file.Close()
	saved, err := syscall.Dup(2)
	if err != nil {
		panic(err)
	}
	if err := syscall.Dup2(int(file.Fd()), 2); err != nil {
		panic(err)
	}
	func() {
		defer func() {
			syscall.Dup2(saved, 2)
			syscall.Close(saved)
		}()
		f()
	}()
	b, _ := os.ReadFile(path)
	os.Truncate(path, 0)
	return string(b)
}

var opLine = regexp.MustCompile(`(?m)^\t+([A-Z][A-Za-z0-9]*)\b`)

// OpcodeHistogram extracts the opcode names of a disassembly.
func OpcodeHistogram(asm string) map[string]int {
	h := map[string]int{}
	for _, m := range opLine.FindAllStringSubmatch(asm, -1) {
		h[m[1]]++
	}
	return h
}

func (prop) Work(c core.Case) core.Result {
	var cd CaseData
	c.Decode(&cd)
	if cd.Kind == "corpus" {
		return workCorpus(cd)
	}
	return Compare(cd, &scriggo.BuildOptions{})
}

// Compare runs the program under scriggo and compares with the gc behaviour in cd.
func Compare(cd CaseData, opts *scriggo.BuildOptions) core.Result {
	res := core.Result{Status: core.OK, Counts: map[string]int64{}}
	ob, prog := RunScriggo(cd.Source, cd.UseCtx, opts)
	fail := func(format string, a ...any) core.Result {
		res.Status = core.Violation
		res.Detail = fmt.Sprintf(format, a...) + "\n--- source ---\n" + cd.Source
		return res
	}
	if ob.HostPanic != "" {
		return fail("host panic (gc ran the program: exit %d): %s", cd.WantExit, hostPanicSummary(ob.HostPanic))
	}
	if ob.BuildErr != "" {
		return fail("gc compiles the program but scriggo.Build fails: %s", ob.BuildErr)
	}
	if prog != nil {
		var asm []byte
		_, panicked, _ := core.Guard(func() { asm, _ = prog.Disassemble("main") })
		if !panicked {
			h := OpcodeHistogram(string(asm))
			var keys []string
			for k, n := range h {
				res.Counts["op:"+k] += int64(n)
				keys = append(keys, fmt.Sprintf("%s=%d", k, n))
			}
			sort.Strings(keys)
			sum := sha1.Sum([]byte(strings.Join(keys, ",")))
			res.Sigs = append(res.Sigs, "ops:"+hex.EncodeToString(sum[:6]))
		}
	}
	if want := string(cd.WantOut); ob.Out != want {
		fd := firstDiff(want, ob.Out)
		gl, sl := lineAt(want, fd), lineAt(ob.Out, fd)
		tag := gl
		if i := strings.IndexAny(tag, " :"); i > 0 {
			tag = tag[:i]
		}
		var srcLines []string
		for _, l := range strings.Split(cd.Source, "\n") {
			if tag != "" && (strings.Contains(l, `"`+tag+`"`) || strings.Contains(l, `"`+tag+` `)) {
				srcLines = append(srcLines, strings.TrimSpace(l))
			}
		}
		return fail("printed output differs at byte %d (gc wrote %d bytes, scriggo %d)\n  gc line     : %q\n  scriggo line: %q\n  source of tag: %s\n  gc outcome: %q  scriggo outcome: %q", fd, len(want), len(ob.Out), core.Truncate(gl, 300), core.Truncate(sl, 300), core.Truncate(strings.Join(srcLines, " ;; "), 600), cd.WantCrash, ob.Crash)
	}
	if normCrash(ob.Crash) != normCrash(cd.WantCrash) {
		return fail("final outcome differs: gc %q (exit %d), scriggo %q (%s)", cd.WantCrash, cd.WantExit, ob.Crash, ob.ErrType)
	}
	if cd.WantCrash != "" {
		res.Counts["unrecovered_panics_compared"]++
	}
	res.Counts["output_bytes_compared"] += int64(len(cd.WantOut))
	return res
}

// normCrash normalises formatting that is not part of the observable message.
func normCrash(s string) string {
	s = strings.TrimSpace(s)
	// gc appends " [recovered]" markers and prints goexit info; both sides use the same chain layout.
	// The header recorded from gc travels to the worker as a JSON string, where every byte that is
	// not valid UTF-8 has become U+FFFD: the same is done here for scriggo's message.
	var b strings.Builder
	for i := 0; i < len(s); {
		r, size := utf8.DecodeRuneInString(s[i:])
		if r == utf8.RuneError && size == 1 {
			b.WriteString("\uFFFD")
		} else {
			b.WriteString(s[i : i+size])
		}
		i += size
	}
	return b.String()
}

var repoFrame = regexp.MustCompile(`/repo/[^\s]+:\d+`)

// hostPanicSummary keeps the panic value and the scriggo frames of a stack.
func hostPanicSummary(s string) string {
	first := s
	if i := strings.IndexByte(s, '\n'); i >= 0 {
		first = s[:i]
	}
	fr := repoFrame.FindAllString(s, 8)
	return first + " @ " + strings.Join(fr, " < ") + "\n--- source ---\n(stack)\n" + s
}

func lineAt(s string, pos int) string {
	if pos > len(s) {
		pos = len(s)
	}
	lo := strings.LastIndexByte(s[:pos], '\n') + 1
	hi := strings.IndexByte(s[pos:], '\n')
	if hi < 0 {
		return s[lo:]
	}
	return s[lo : pos+hi]
}

func firstDiff(a, b string) int {
	n := len(a)
	if len(b) < n {
		n = len(b)
	}
	for i := 0; i < n; i++ {
		if a[i] != b[i] {
			return i
		}
	}
	return n
}
