#!/bin/bash
# Regenerates packages.go.txt (the `packages` variable of /repo/test/compare/cmd, which the
# repository does not commit: `scriggo import -v -o packages.go`) and INPUTS.sha256 from the
# repository the harness is linked against (/repo, or $VERIF_REPO). Works offline (~10 s idle).
set -eu
here="$(cd "$(dirname "${BASH_SOURCE[0]}")" && pwd)"
. "$here/../../../../env.sh"
cd "$here/../../.."
"$VGO" run $VERIF_MODFLAG -tags verif ./props/c01/corpuscmd/regen "$here"
