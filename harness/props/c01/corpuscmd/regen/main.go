// Command regen regenerates ../packages.go.txt and ../INPUTS.sha256: it builds
// cmd/scriggo of the repository into a scratch directory, runs
// `scriggo import -o packages.go` in a scratch copy of test/compare/cmd and
// records the hash of the inputs. Run it through ../regen.sh.
package main

import (
	"fmt"
	"os"
	"path/filepath"

	"verif/props/c01"
)

func main() {
	if len(os.Args) != 2 {
		fmt.Fprintln(os.Stderr, "usage: regen <output directory>")
		os.Exit(2)
	}
	goBin := os.Getenv("VGO")
	if goBin == "" {
		goBin = "go"
	}
	repo := c01.RepoRoot()
	scratch, err := os.MkdirTemp("", "c01-regen-")
	if err != nil {
		fmt.Fprintln(os.Stderr, err)
		os.Exit(1)
	}
	defer os.RemoveAll(scratch)
	src, err := c01.GeneratePackages(goBin, repo, scratch)
	if err == nil {
		var h string
		if h, err = c01.CorpusInputsHash(repo); err == nil {
			if err = os.WriteFile(filepath.Join(os.Args[1], "packages.go.txt"), src, 0o644); err == nil {
				err = os.WriteFile(filepath.Join(os.Args[1], "INPUTS.sha256"), []byte(h+"\n"), 0o644)
			}
		}
	}
	if err != nil {
		os.RemoveAll(scratch)
		fmt.Fprintln(os.Stderr, err)
		os.Exit(1)
	}
	fmt.Printf("regenerated from %s: %d bytes\n", repo, len(src))
}
