// Package c24 checks HTMLEscape: it escapes exactly the five HTML-significant
// characters and nothing else, and entity decoding gives back the input.
//
// Oracle: an independent strings.Replacer reference plus html.UnescapeString.
// Workload: exhaustive enumeration of all strings over {< > & " ' a 0xC3} up to
// length 8 (quick) / 10 (thorough), partitioned by 3-symbol prefix into worker
// cases, plus random long strings; both scriggo.HTMLEscape and builtin.HtmlEscape.
package c24

import (
	"fmt"
	"html"
	"strings"

	"github.com/open2b/scriggo"
	"github.com/open2b/scriggo/builtin"

	"verif/core"
)

type prop struct{}

func init() { core.Register(prop{}) }

func (prop) ID() string    { return "C24" }
func (prop) Level() string { return "exploration" }

var alphabet = []byte{'<', '>', '&', '"', '\'', 'a', 0xC3}

var ref = strings.NewReplacer("<", "&lt;", ">", "&gt;", "&", "&amp;", `"`, "&#34;", "'", "&#39;")

type caseData struct {
	Kind   string `json:"kind"`   // "enum" or "random"
	Prefix []int  `json:"prefix"` // alphabet indexes of the fixed prefix (enum)
	MaxLen int    `json:"max_len"`
	Seed   int64  `json:"seed"`
	N      int    `json:"n"`
	Str    string `json:"str,omitempty"` // kind "one": a single string (replays, findings)
}

func (prop) Drive(d *core.Driver) error {
	maxLen := d.N(8, 10)
	d.T.Rule = fmt.Sprintf("every string over the 7-symbol alphabet {< > & \" ' a 0xC3} of length 0..%d is passed to scriggo.HTMLEscape and builtin.HtmlEscape and compared with a strings.Replacer reference and with html.UnescapeString; plus random strings up to 4 KiB over all byte values. distinct_nontrivial counts distinct (length, number of special characters, position class of first special) triples seen among inputs that contain at least one special character", maxLen)
	d.T.Exhaustive = true
	d.T.Assumptions = []string{"html.UnescapeString and strings.Replacer are correct", "exhaustive only over the stated alphabet and length bound"}
	var cases []core.Case
	// strings shorter than the prefix length are enumerated by one dedicated case
	cases = append(cases, core.NewCase("short", caseData{Kind: "enum", Prefix: nil, MaxLen: 2}))
	for a := range alphabet {
		for b := range alphabet {
			for c := range alphabet {
				cases = append(cases, core.NewCase(fmt.Sprintf("enum-%d%d%d", a, b, c), caseData{Kind: "enum", Prefix: []int{a, b, c}, MaxLen: maxLen}))
			}
		}
	}
	nr := d.N(20, 200)
	for i := 0; i < nr; i++ {
		cases = append(cases, core.NewCase(fmt.Sprintf("random-%d", i), caseData{Kind: "random", Seed: d.Seed*1000003 + int64(i), N: 20000}))
	}
	d.T.Sample(map[string]any{"case": "enum-012", "meaning": "all strings starting with <>& up to the length bound"})
	d.Run(cases, core.RunOpts{})
	return nil
}

type state struct {
	evals  int64
	sigs   map[string]struct{}
	viol   string
	sample string
}

func (st *state) check(s string) bool {
	st.evals++
	want := ref.Replace(s)
	got1 := string(scriggo.HTMLEscape(s))
	got2 := string(builtin.HtmlEscape(s))
	if got1 != want {
		st.viol = fmt.Sprintf("scriggo.HTMLEscape(%q) = %q, want %q", s, got1, want)
		return false
	}
	if got2 != want {
		st.viol = fmt.Sprintf("builtin.HtmlEscape(%q) = %q, want %q", s, got2, want)
		return false
	}
	if dec := html.UnescapeString(got1); dec != s {
		st.viol = fmt.Sprintf("html.UnescapeString(HTMLEscape(%q)) = %q", s, dec)
		return false
	}
	if len(want) != len(s) {
		first := strings.IndexAny(s, `<>&"'`)
		pos := "mid"
		if first == 0 {
			pos = "start"
		} else if first == len(s)-1 {
			pos = "end"
		}
		nsp := 0
		for i := 0; i < len(s); i++ {
			switch s[i] {
			case '<', '>', '&', '"', '\'':
				nsp++
			}
		}
		l := len(s)
		if l > 16 {
			l = 16 + l/256
		}
		if nsp > 12 {
			nsp = 12
		}
		st.sigs[fmt.Sprintf("len%d/special%d/%s", l, nsp, pos)] = struct{}{}
	}
	return true
}

func (prop) Work(c core.Case) core.Result {
	var cd caseData
	c.Decode(&cd)
	st := &state{sigs: map[string]struct{}{}}
	var panicVal any
	var panicked bool
	var stack string
	panicVal, panicked, stack = core.Guard(func() {
		switch cd.Kind {
		case "one":
			st.check(cd.Str)
		case "enum":
			buf := make([]byte, 0, cd.MaxLen)
			for _, i := range cd.Prefix {
				buf = append(buf, alphabet[i])
			}
			st.enum(buf, cd.MaxLen, true)
		case "random":
			r := core.Rand(cd.Seed, "c24")
			for i := 0; i < cd.N && st.viol == ""; i++ {
				n := r.Intn(64)
				if i%50 == 0 {
					n = r.Intn(4096)
				}
				b := make([]byte, n)
				for j := range b {
					switch r.Intn(4) {
					case 0:
						b[j] = alphabet[r.Intn(len(alphabet))]
					case 1:
						b[j] = byte(r.Intn(256))
					default:
						b[j] = byte('a' + r.Intn(26))
					}
				}
				st.check(string(b))
			}
		}
	})
	res := core.Result{Status: core.OK, Evals: st.evals, Counts: map[string]int64{"strings_checked": st.evals}}
	for s := range st.sigs {
		res.Sigs = append(res.Sigs, s)
	}
	if panicked {
		res.Status = core.Violation
		res.Detail = fmt.Sprintf("HTMLEscape panicked: %v\n%s", panicVal, stack)
	} else if st.viol != "" {
		res.Status = core.Violation
		res.Detail = st.viol
	}
	return res
}

// enum checks buf and every extension of it up to maxLen.
func (st *state) enum(buf []byte, maxLen int, self bool) {
	if st.viol != "" {
		return
	}
	if self {
		if !st.check(string(buf)) {
			return
		}
	}
	if len(buf) >= maxLen {
		return
	}
	for _, a := range alphabet {
		st.enum(append(buf, a), maxLen, true)
		if st.viol != "" {
			return
		}
	}
}
