// Package c20 checks that exceeding an implementation limit is an error, never wrong code.
//
// For every limit (registers per kind, string/general/int/float constants,
// types, Scriggo and native functions, field indexes) a family of programs and
// templates parameterised by a count n is swept across the limit. For each n the
// worker builds the source and classifies the outcome: either Build succeeds and
// the run prints exactly the closed-form expected output (the closed form itself
// is validated against gc by the driver on sampled n), or Build fails with a
// *BuildError whose message is a "... count exceeded N" limit error. Anything
// else (host panic, other error, wrong output) is a violation.
package c20

import (
	"bytes"
	"context"
	"fmt"
	"os"
	"path/filepath"
	"regexp"
	"strings"
	"time"

	"github.com/open2b/scriggo"
	"github.com/open2b/scriggo/native"

	"verif/core"
	"verif/oracle/gcref"
)

type prop struct{}

func init() { core.Register(prop{}) }

func (prop) ID() string    { return "C20" }
func (prop) Level() string { return "exploration" }

type shape struct {
	name   string
	limit  int                                   // nominal limit of the implementation
	tmpl   bool                                  // a template, not a program
	gostmt bool                                  // the program uses the go statement
	exact  bool                                  // the n entries of the family, plus extra, are all the table holds: every n with n+extra <= limit must build
	extra  int                                   // table entries the program needs besides the n of the family (see the comment of the shape)
	native bool                                  // needs the generated native package (no gc validation)
	gen    func(n int) (src string, want string) // source and expected printed output
}

func joinN(n int, f func(i int) string, sep string) string {
	var sb strings.Builder
	for i := 0; i < n; i++ {
		if i > 0 {
			sb.WriteString(sep)
		}
		sb.WriteString(f(i))
	}
	return sb.String()
}

func prog(body string) string { return "package main\n\n" + body }

func shapes() []shape {
	sumTo := func(n int) int { return n * (n - 1) / 2 }
	return []shape{
		{name: "int-locals", limit: 127, gen: func(n int) (string, string) {
			// n live int variables
			decl := joinN(n, func(i int) string { return fmt.Sprintf("\tv%d := z + %d\n", i, i) }, "")
			sum := joinN(n, func(i int) string { return fmt.Sprintf("v%d", i) }, " + ")
			return prog("var z int\n\nfunc main() {\n" + decl + "\tprintln(" + sum + ")\n}\n"), fmt.Sprintf("%d\n", sumTo(n))
		}},
		{name: "float-locals", limit: 127, gen: func(n int) (string, string) {
			decl := joinN(n, func(i int) string { return fmt.Sprintf("\tv%d := z + %d\n", i, i) }, "")
			sum := joinN(n, func(i int) string { return fmt.Sprintf("v%d", i) }, " + ")
			return prog("var z float64\n\nfunc main() {\n" + decl + "\tprintln(int(" + sum + "))\n}\n"), fmt.Sprintf("%d\n", sumTo(n))
		}},
		{name: "string-locals", limit: 127, gen: func(n int) (string, string) {
			decl := joinN(n, func(i int) string { return fmt.Sprintf("\tv%d := z + \"x\"\n", i) }, "")
			sum := joinN(n, func(i int) string { return fmt.Sprintf("len(v%d)", i) }, " + ")
			return prog("var z string\n\nfunc main() {\n" + decl + "\tprintln(" + sum + ")\n}\n"), fmt.Sprintf("%d\n", n)
		}},
		{name: "general-locals", limit: 127, gen: func(n int) (string, string) {
			decl := joinN(n, func(i int) string { return fmt.Sprintf("\tv%d := []int{z, %d}\n", i, i) }, "")
			sum := joinN(n, func(i int) string { return fmt.Sprintf("v%d[1]", i) }, " + ")
			return prog("var z int\n\nfunc main() {\n" + decl + "\tprintln(" + sum + ")\n}\n"), fmt.Sprintf("%d\n", sumTo(n))
		}},
		{name: "call-arguments", limit: 127, gen: func(n int) (string, string) {
			// temporaries: a call with n int arguments
			params := joinN(n, func(i int) string { return fmt.Sprintf("a%d", i) }, ", ")
			sum := joinN(n, func(i int) string { return fmt.Sprintf("a%d", i) }, " + ")
			args := joinN(n, func(i int) string { return fmt.Sprintf("z + %d", i) }, ", ")
			return prog("var z int\n\nfunc f(" + params + " int) int {\n\treturn " + sum + "\n}\n\nfunc main() {\n\tprintln(f(" + args + "))\n}\n"), fmt.Sprintf("%d\n", sumTo(n))
		}},
		{name: "func-type-parameters", limit: 128, exact: true, extra: 1, gen: func(n int) (string, string) {
			// a function type with n parameters and one result that is never called
			params := joinN(n, func(i int) string { return "int" }, ", ")
			return prog("var f func(" + params + ") int\n\nfunc main() {\n\tprintln(f == nil)\n}\n"), "true\n"
		}},
		{name: "string-constants", limit: 256, exact: true, extra: 1, gen: func(n int) (string, string) {
			// constants of different lengths: two constants that share an index change the sum
			stmts := joinIdx(reuse(n), func(i int) string {
				return fmt.Sprintf("\tt = t + len(z + \"s%04d%s\")\n", i, strings.Repeat("x", i%13))
			}, "")
			return prog("var z string\n\nfunc main() {\n\tt := 0\n" + stmts + "\tprintln(t)\n}\n"), fmt.Sprintf("%d\n", sumIdx(reuse(n), func(i int) int { return 5 + i%13 }))
		}},
		{name: "int-constants", limit: 16384, exact: true, gen: func(n int) (string, string) {
			stmts := joinIdx(reuse(n), func(i int) string { return fmt.Sprintf("\tt = t + %d\n", 100000+i) }, "")
			return prog("func main() {\n\tt := 0\n" + stmts + "\tprintln(t)\n}\n"), fmt.Sprintf("%d\n", sumIdx(reuse(n), func(i int) int { return 100000 + i }))
		}},
		{name: "float-constants", limit: 16384, exact: true, gen: func(n int) (string, string) {
			stmts := joinIdx(reuse(n), func(i int) string { return fmt.Sprintf("\tt = t + %d.5\n", 1000+i) }, "")
			return prog("func main() {\n\tt := 0.0\n" + stmts + "\tprintln(int(t * 2))\n}\n"), fmt.Sprintf("%d\n", sumIdx(reuse(n), func(i int) int { return 2*(1000+i) + 1 }))
		}},
		{name: "general-constants", limit: 256, exact: true, extra: 1, gen: func(n int) (string, string) {
			// complex constants are held as general values
			stmts := joinIdx(reuse(n), func(i int) string { return fmt.Sprintf("\tt = t + complex(%d, 1)\n", i) }, "")
			return prog("func main() {\n\tvar t complex128\n" + stmts + "\tprintln(int(real(t)), int(imag(t)))\n}\n"), fmt.Sprintf("%d %d\n", sumIdx(reuse(n), func(i int) int { return i }), len(reuse(n)))
		}},
		{name: "types", limit: 256, exact: true, extra: 2, gen: func(n int) (string, string) {
			stmts := joinIdx(reuse(n), func(i int) string { return fmt.Sprintf("\t{\n\t\tvar a [%d]int8\n\t\tt = t + len(a)\n\t}\n", i+1) }, "")
			return prog("func main() {\n\tt := 0\n" + stmts + "\tprintln(t)\n}\n"), fmt.Sprintf("%d\n", sumIdx(reuse(n), func(i int) int { return i + 1 }))
		}},
		{name: "scriggo-functions", limit: 256, exact: true, gen: func(n int) (string, string) {
			funcs := joinN(n, func(i int) string { return fmt.Sprintf("func f%d() int { return %d }\n", i, i) }, "\n")
			stmts := joinIdx(reuse(n), func(i int) string { return fmt.Sprintf("\tt = t + f%d()\n", i) }, "")
			return prog(funcs + "\nfunc main() {\n\tt := 0\n" + stmts + "\tprintln(t)\n}\n"), fmt.Sprintf("%d\n", sumIdx(reuse(n), func(i int) int { return i }))
		}},
		{name: "field-indexes", limit: 256, exact: true, gen: func(n int) (string, string) {
			fields := joinN(n, func(i int) string { return fmt.Sprintf("\tF%d int\n", i) }, "")
			// every field is written before any field is read: two field
			// paths that share an index are seen as one lost write
			writes := joinN(n, func(i int) string { return fmt.Sprintf("\ts.F%d = %d\n", i, i+1) }, "")
			reads := joinN(n, func(i int) string { return fmt.Sprintf("\tt = t*3 + s.F%d\n", i) }, "")
			want := 0
			for i := 0; i < n; i++ {
				want = want*3 + i + 1
			}
			return prog("type S struct {\n" + fields + "}\n\nfunc main() {\n\tvar s S\n\tt := 0\n" + writes + reads + "\tprintln(t)\n}\n"), fmt.Sprintf("%d\n", want)
		}},
		{name: "native-functions", limit: 256, exact: true, native: true, gen: func(n int) (string, string) {
			stmts := joinIdx(reuse(n), func(i int) string { return fmt.Sprintf("\tt = t + nat.F%d()\n", i) }, "")
			return prog("import \"nat\"\n\nfunc main() {\n\tt := 0\n" + stmts + "\tprintln(t)\n}\n"), fmt.Sprintf("%d\n", sumIdx(reuse(n), func(i int) int { return i }))
		}},
		{name: "template-string-constants", limit: 256, exact: true, extra: 1, tmpl: true, gen: func(n int) (string, string) {
			stmts := joinIdx(reuse(n), func(i int) string {
				return fmt.Sprintf("{%% t = t + len(z + \"s%04d%s\") %%}", i, strings.Repeat("x", i%13))
			}, "\n")
			return "{% var t = 0 %}{% var z = \"\" %}\n" + stmts + "\n[{{ t }}]", fmt.Sprintf("[%d]", sumIdx(reuse(n), func(i int) int { return 5 + i%13 }))
		}},
		{name: "template-int-locals", limit: 127, tmpl: true, gen: func(n int) (string, string) {
			decl := joinN(n, func(i int) string { return fmt.Sprintf("{%% v%d := z + %d %%}", i, i) }, "\n")
			sum := joinN(n, func(i int) string { return fmt.Sprintf("v%d", i) }, " + ")
			return "{% var z = 0 %}\n" + decl + "\n[{{ " + sum + " }}]", fmt.Sprintf("[%d]", sumTo(n))
		}},
		{name: "select-cases", limit: 65535, exact: true, gen: func(n int) (string, string) {
			// n cases, one of them ready; the run has a context that can be
			// cancelled, whose done channel is one more case for the VM
			cases := strings.Repeat("\tcase <-nilc:\n", n-1)
			return prog("func main() {\n\tch := make(chan int, 1)\n\tch <- 7\n\tvar nilc chan int\n\t_ = nilc\n\tselect {\n\tcase v := <-ch:\n\t\tprintln(v)\n" + cases + "\t}\n}\n"), "7\n"
		}},
		{name: "native-functions-and-complex-negation", limit: 255, exact: true, native: true, gen: func(n int) (string, string) {
			// the negation of a complex value is one more native function of the table
			stmts := joinIdx(reuse(n), func(i int) string { return fmt.Sprintf("\tt = t + nat.F%d()\n", i) }, "")
			return prog("import \"nat\"\n\nvar c = complex(1, 2)\n\nfunc main() {\n\tt := 0\n" + stmts + "\td := -c\n\te := -d\n\tprintln(t, int(real(d)), int(imag(e)))\n}\n"), fmt.Sprintf("%d -1 2\n", sumIdx(reuse(n), func(i int) int { return i }))
		}},
		{name: "go-statement-argument-registers", limit: 125, gostmt: true, gen: func(n int) (string, string) {
			// n live int variables, then a go statement whose arguments take the last registers
			decl := joinN(n, func(i int) string { return fmt.Sprintf("\tv%d := z + %d\n", i, i) }, "")
			sum := joinN(n, func(i int) string { return fmt.Sprintf("v%d", i) }, " + ")
			return prog("var z int\n\nfunc f(x int, ch chan int) {\n\tch <- x\n}\n\nfunc main() {\n\tch := make(chan int)\n" + decl + "\tgo f(v0+7, ch)\n\tprintln(<-ch)\n\tprintln(" + sum + ")\n}\n"), fmt.Sprintf("7\n%d\n", sumTo(n))
		}},
		{name: "template-macros", limit: 256, tmpl: true, gen: func(n int) (string, string) {
			macros := joinN(n, func(i int) string { return fmt.Sprintf("{%% macro M%d %%}%d,{%% end %%}", i, i%10) }, "\n")
			calls := joinIdx(reuse(n), func(i int) string { return fmt.Sprintf("{{ M%d() }}", i) }, "")
			want := joinIdx(reuse(n), func(i int) string { return fmt.Sprintf("%d,", i%10) }, "")
			return macros + "\n[" + calls + "]", "[" + want + "]"
		}},
	}
}

// reuse returns the order in which the n entries of a table are used: each
// one once, then the first and the last again, so that a table that is
// exactly full is also looked up for entries it already holds.
func reuse(n int) []int {
	idx := make([]int, 0, n+2)
	for i := 0; i < n; i++ {
		idx = append(idx, i)
	}
	if n > 0 {
		idx = append(idx, 0, n-1)
	}
	return idx
}

func joinIdx(idx []int, f func(int) string, sep string) string {
	parts := make([]string, len(idx))
	for k, i := range idx {
		parts[k] = f(i)
	}
	return strings.Join(parts, sep)
}

func sumIdx(idx []int, f func(int) int) int {
	t := 0
	for _, i := range idx {
		t += f(i)
	}
	return t
}

func sumMod13(n int) int {
	t := 0
	for i := 0; i < n; i++ {
		t += i % 13
	}
	return t
}

func shapeByName(name string) *shape {
	for _, s := range shapes() {
		if s.name == name {
			s := s
			return &s
		}
	}
	return nil
}

type caseData struct {
	Shape string `json:"shape"`
	Lo    int    `json:"lo"`
	Hi    int    `json:"hi"`
	Step  int    `json:"step"`
}

func goBin() string {
	if g := os.Getenv("VGO"); g != "" {
		return g
	}
	return "go"
}

func (prop) Drive(d *core.Driver) error {
	delta := d.N(4, 12)
	d.T.Rule = fmt.Sprintf("for each limit a family of programs/templates with n locals, call arguments, distinct constants of each kind, types, called Scriggo functions, native functions, struct fields or macros is swept for n in a coarse grid from 1 to limit+%d and densely in [limit-%d, limit+%d] and around the observed accept/reject transition; every n is classified (builds and prints the closed-form expected output | limit-exceeded *BuildError | anything else = violation). The closed form is validated against gc for two n per shape. distinct_nontrivial counts distinct (shape, n, outcome class) triples.", delta, delta, delta)
	d.T.Assumptions = []string{"expected outputs are closed forms validated against gc on sampled n (not every n is run under gc)", "the instructions limit (2^32) is not swept"}
	// validate the closed forms against gc
	var sources []string
	var wants []string
	var names []string
	for _, sh := range shapes() {
		if sh.tmpl || sh.native {
			continue
		}
		for _, n := range []int{3, sh.limit/2 + 7} {
			if sh.limit > 1000 {
				n = map[int]int{3: 3, sh.limit/2 + 7: 2500}[n]
			}
			src, want := sh.gen(n)
			sources = append(sources, strings.Replace(src, "package main\n\n", "package main\n\n"+gcref.InitMarker+"\n", 1))
			wants = append(wants, "=== init\n"+want)
			names = append(names, fmt.Sprintf("%s n=%d", sh.name, n))
		}
	}
	dir := filepath.Join(d.Scratch, "gc")
	outs, err := gcref.Run(goBin(), dir, sources, 8)
	os.RemoveAll(dir)
	if err != nil {
		return err
	}
	validated := 0
	for i, o := range outs {
		if !o.Built {
			return fmt.Errorf("gc rejects the %s program: %s", names[i], o.BuildErr)
		}
		if o.Out != wants[i] || o.Panic != "" {
			return fmt.Errorf("closed form of %s disagrees with gc: gc %q, model %q", names[i], o.Out, wants[i])
		}
		validated++
	}
	d.T.Set("closed_forms_validated_against_gc", validated)
	d.T.Set("programs", validated)
	d.T.Set("disagreements_checked", validated)
	var cases []core.Case
	for _, sh := range shapes() {
		// coarse grid
		step := sh.limit / 8
		if step < 1 {
			step = 1
		}
		cases = append(cases, core.NewCase(sh.name+"-coarse", caseData{Shape: sh.name, Lo: 1, Hi: sh.limit + delta, Step: step}))
		cases = append(cases, core.NewCase(sh.name+"-dense", caseData{Shape: sh.name, Lo: sh.limit - delta - 2, Hi: sh.limit + delta, Step: 1}))
		if sh.limit == 127 {
			// registers are shared with temporaries: the transition may lie lower
			cases = append(cases, core.NewCase(sh.name+"-dense-low", caseData{Shape: sh.name, Lo: sh.limit - 40, Hi: sh.limit - delta - 3, Step: d.N(3, 1)}))
		}
		src, want := sh.gen(3)
		if len(cases) < 8 {
			d.T.Sample(map[string]any{"shape": sh.name, "n": 3, "source": src, "expected_output": want})
		}
	}
	results := d.Run(cases, core.RunOpts{CaseWall: 10 * time.Minute})
	trans := map[string]string{}
	for i, r := range results {
		var cd caseData
		cases[i].Decode(&cd)
		if len(r.Out) > 2 {
			trans[cases[i].ID] = string(r.Out)
		}
	}
	d.T.Set("accept_reject_transitions", trans)
	return nil
}

var limitMsg = regexp.MustCompile(`count exceeded \d+$`)

func natPackage(n int) native.Packages {
	decls := native.Declarations{}
	for i := 0; i < n; i++ {
		i := i
		decls[fmt.Sprintf("F%d", i)] = func() int { return i }
	}
	return native.Packages{"nat": native.Package{Name: "nat", Declarations: decls}}
}

func (prop) Work(c core.Case) core.Result {
	var cd caseData
	c.Decode(&cd)
	sh := shapeByName(cd.Shape)
	res := core.Result{Status: core.OK, Counts: map[string]int64{}}
	if sh == nil {
		res.Status, res.Detail = core.Inconclusive, "unknown shape"
		return res
	}
	if cd.Lo < 1 {
		cd.Lo = 1
	}
	lastOK, firstFail := -1, -1
	firstMsg := ""
	for n := cd.Lo; n <= cd.Hi; n += cd.Step {
		src, want := sh.gen(n)
		res.Evals++
		class, detail := classify(sh, src, want, n)
		res.Sigs = append(res.Sigs, fmt.Sprintf("%s|n=%d|%s", sh.name, n, class))
		res.Counts["class:"+class]++
		switch class {
		case "ok":
			lastOK = n
			if firstFail >= 0 {
				// accepted above a rejected count: not wrong by itself, recorded
				res.Counts["accepted_above_a_rejected_count"]++
			}
		case "limit":
			if sh.exact && n+sh.extra <= sh.limit {
				res.Status = core.Violation
				res.Detail = fmt.Sprintf("shape %s with n=%d (limit %d, the program needs %d entries): limit error for a program within the limit: %s\n--- source ---\n%s", sh.name, n, sh.limit, n+sh.extra, detail, core.Truncate(src, 6000))
				return res
			}
			if firstFail < 0 {
				firstFail = n
				firstMsg = detail
			}
		default:
			res.Status = core.Violation
			res.Detail = fmt.Sprintf("shape %s with n=%d (nominal limit %d): %s\n--- source ---\n%s", sh.name, n, sh.limit, detail, core.Truncate(src, 6000))
			return res
		}
	}
	res.Out = core.MustJSON(fmt.Sprintf("last accepted n=%d, first rejected n=%d (%s)", lastOK, firstFail, firstMsg))
	return res
}

func classify(sh *shape, src, want string, n int) (string, string) {
	var out string
	var runErr, buildErr error
	v, panicked, stack := core.Guard(func() {
		if sh.tmpl {
			var t *scriggo.Template
			t, buildErr = scriggo.BuildTemplate(scriggo.Files{"index.txt": []byte(src)}, "index.txt", nil)
			if buildErr != nil {
				return
			}
			var b bytes.Buffer
			runErr = t.Run(&b, nil, nil)
			out = b.String()
			if i := strings.LastIndexByte(out, '['); i >= 0 {
				out = out[i:]
			}
			return
		}
		opts := &scriggo.BuildOptions{AllowGoStmt: sh.gostmt}
		if sh.native {
			opts.Packages = natPackage(n)
		}
		var p *scriggo.Program
		p, buildErr = scriggo.Build(scriggo.Files{"main.go": []byte(src)}, opts)
		if buildErr != nil {
			return
		}
		var b strings.Builder
		// the run has a context that can be cancelled, as embedders normally give
		ctx, cancel := context.WithCancel(context.Background())
		defer cancel()
		runErr = p.Run(&scriggo.RunOptions{Context: ctx, Print: func(a any) { fmt.Fprint(&b, a) }})
		out = b.String()
	})
	switch {
	case panicked:
		return "host-panic", fmt.Sprintf("host panic: %v\n%s", v, core.Truncate(stack, 1500))
	case buildErr != nil:
		be, ok := buildErr.(*scriggo.BuildError)
		if !ok {
			return "other-error", fmt.Sprintf("Build failed with %T (not a *BuildError): %v", buildErr, buildErr)
		}
		if !limitMsg.MatchString(be.Message()) {
			return "other-build-error", fmt.Sprintf("Build failed with a *BuildError that is not a limit error: %v", be)
		}
		return "limit", be.Message()
	case runErr != nil:
		return "run-error", fmt.Sprintf("the program builds but Run returned %T: %v (expected output %q)", runErr, runErr, want)
	case out != want:
		return "wrong-output", fmt.Sprintf("the program builds but prints %q instead of %q", core.Truncate(out, 300), want)
	}
	return "ok", ""
}
