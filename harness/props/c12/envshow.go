package c12

import (
	"fmt"
	"strings"

	"verif/core"
	"verif/oracle/gcpanic"
)

// Env.Stop and Env.Fatal can also be called by host code that is not a native
// *function*: the String(Env), HTML(Env), CSS(Env), JS(Env), JSON(Env) and
// Markdown(Env) methods of the native.*EnvStringer interfaces run inside a Show
// instruction. The cases below show such a value (pkg.EV(kind, action, idx)) in every
// context that consults the interface, at top level, in macros (local, imported,
// recursive), in rendered files, in a using body and in a deferred macro that runs
// while the template is panicking. The expectation needs no reference run: the event
// log is [T1, STOPi] or [T1, FATALi], Run returns the Stop error itself or panics
// with the Fatal value, nothing is recorded afterwards (a deferred native Tick(9)
// and a Tick(2) after the show are pending), and no text after the show is written.

type envCtx struct {
	name  string
	ext   string   // extension of the file that contains the show
	pre   string   // text before the show (ends with the marker PRE or an attribute prefix)
	post  string   // text after the show (contains AFTER)
	kinds []string // Env-stringer kinds consulted in this context
}

var envCtxs = []envCtx{
	{"html", "html", "<p>PRE", "AFTER</p>", []string{"str", "html"}},
	{"attr_quoted", "html", "<div title=\"PRE", "AFTER\">x</div>", []string{"str", "html"}},
	{"attr_unquoted", "html", "<div title=PRE", "AFTER>x</div>", []string{"str", "html"}},
	{"tag", "html", "<div PRE", " AFTER>x</div>", []string{"str"}},
	{"url", "html", "<a href=\"/PRE?a=", "&AFTER\">x</a>", []string{"str", "html"}},
	{"srcset", "html", "<img srcset=\"PRE", " 1x, AFTER 2x\">", []string{"str", "html"}},
	{"script", "html", "<script>var PRE = ", "; AFTER();</script>", []string{"js"}},
	{"script_string", "html", "<script>var x = \"PRE", "AFTER\";</script>", []string{"str"}},
	{"style", "html", "<style>a { PRE: ", "; AFTER: 1 }</style>", []string{"css", "str"}},
	{"style_string", "html", "<style>a { b: \"PRE", "AFTER\" }</style>", []string{"str"}},
	{"jsonld", "html", "<script type=\"application/ld+json\">{\"PRE\": ", ", \"AFTER\": 1}</script>", []string{"json"}},
	{"jsonld_string", "html", "<script type=\"application/ld+json\">{\"a\": \"PRE", "AFTER\"}</script>", []string{"str"}},
	{"file_md", "md", "para PRE", "AFTER\n", []string{"md", "html", "str"}},
	{"file_md_code", "md", "p\n\n\tcode PRE", "AFTER\n", []string{"str"}},
	{"file_js", "js", "var PRE = ", "; AFTER();", []string{"js"}},
	{"file_css", "css", "a { PRE: ", "; AFTER: 1 }", []string{"css", "str"}},
	{"file_json", "json", "{\"PRE\": ", ", \"AFTER\": 1}", []string{"json"}},
	{"file_txt", "txt", "text PRE", "AFTER", []string{"str"}},
}

// envShowCases builds the cases; rot varies the Stop/Fatal index.
func envShowCases(rot int) []core.Case {
	var out []core.Case
	imp := "{% import \"pkg\" %}"
	n := rot
	for _, cx := range envCtxs {
		for _, kind := range cx.kinds {
			for _, action := range []string{"stop", "fatal"} {
				for _, placement := range []string{"top", "macro", "macro_imported", "macro_recursive", "render", "using", "deferred_macro_panicking", "macro_markdown_in_html"} {
					n++
					idx := n % 4
					hole := fmt.Sprintf("{{ pkg.EV(%q, %q, %d) }}", kind, action, idx)
					body := cx.pre + hole + "{% pkg.Tick(2) %}" + cx.post
					index := "index." + cx.ext
					head := imp + "{%% defer pkg.Tick(9) %%}{% pkg.Tick(1) %}"
					files := map[string]string{}
					suffix := cx.pre
					switch placement {
					case "top":
						files[index] = head + "START" + body + "END"
					case "macro":
						files[index] = head + "{% macro M %}" + body + "{% end %}START{{ M() }}END"
					case "macro_imported":
						files["lib/m."+cx.ext] = imp + "{% macro M %}" + body + "{% end %}"
						files[index] = imp + "{% import \"lib/m." + cx.ext + "\" %}{%% defer pkg.Tick(9) %%}{% pkg.Tick(1) %}START{{ M() }}END"
					case "macro_recursive":
						suffix = "" // a macro called by a show inside a macro is buffered
						files[index] = head + "{% macro R(n int) %}{% if n > 0 %}{{ R(n - 1) }}{% else %}" + body + "{% end %}{% end %}START{{ R(3) }}END"
					case "render":
						files["part."+cx.ext] = imp + body
						files[index] = head + "START{{ render \"part." + cx.ext + "\" }}END"
					case "using":
						if cx.ext != "html" || strings.Contains(cx.name, "script") || strings.Contains(cx.name, "style") || cx.name == "jsonld" || cx.name == "jsonld_string" {
							continue // a using body has the format of the file, not the context of the hole
						}
						files[index] = head + "START{% show itea; using %}" + body + "{% end using %}END"
						suffix = "" // the using body is evaluated into a value first
					case "deferred_macro_panicking":
						files[index] = imp + "{% macro D %}" + body + "{% end %}{%% defer pkg.Tick(9) %%}{%% defer D() %%}{% pkg.Tick(1) %}START{% panic(\"p\") %}END"
					case "macro_markdown_in_html":
						// the macro is buffered and converted at its end: nothing of it is written
						if cx.ext != "md" {
							continue
						}
						index = "index.html"
						files[index] = head + "{% macro K markdown %}" + body + "{% end %}START<div>{{ K() }}</div>END"
						suffix = "START<div>"
					}
					exp := gcpanic.Expected{Events: []string{"T1", strings.ToUpper(action) + fmt.Sprint(idx)}, Outcome: action, Idx: idx}
					out = append(out, core.NewCase(fmt.Sprintf("envshow-%s-%s-%s-%s", cx.name, kind, action, placement), caseData{
						Kind: "scenario", Label: fmt.Sprintf("Env-stringer %s in %s, %s, %s", kind, cx.name, placement, action),
						Files: files, Main: index, Expect: exp,
						CheckOut: true, OutSuffix: suffix, OutForbid: []string{"AFTER", "END"},
					}))
				}
			}
		}
	}
	return out
}
