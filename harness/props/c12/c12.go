// Package c12 checks that Run reports Stop, Fatal and unrecovered panics exactly as
// documented.
//
// Refute: after a native calls env.Stop(err): Run returns anything but err itself, or
// any event (tick native, output byte) of the run is recorded after the call, deferred
// calls included; after env.Fatal(v): Run does not panic with exactly v; unrecovered
// panic: the *PanicError chain (walked with Next() until nil) differs from the chain
// the gc runtime prints for the same program in length, message text or recovered
// flags, or Path()/Position().Line of an entry is not the file and line of the
// statement that raised that panic.
//
// Oracle: the gc reference (oracle/gcpanic): every generated program is compiled with
// the pinned gc toolchain against a reference implementation of package pkg (Stop and
// Fatal end the process, so no deferred call runs), its standard output is the expected
// event log, its crash header is the expected chain and the traceback gives the line of
// every panic of the chain. Template mirrors reuse the expectation of their program
// (same statements inside a {%% %%} block, lines shifted by a constant). Scripted
// multi-file template scenarios (macros in imported, rendered and extending files,
// native callbacks) carry hand-derived expectations.
package c12

import (
	"bytes"
	"fmt"
	"io"
	"os"
	"path/filepath"
	"sort"
	"strings"
	"sync"

	"github.com/open2b/scriggo"
	"github.com/yuin/goldmark"

	"verif/core"
	fp "verif/gen/faultprog"
	"verif/oracle/gcpanic"
)

type prop struct{}

func init() { core.Register(prop{}) }

func (prop) ID() string    { return "C12" }
func (prop) Level() string { return "exploration" }

type caseData struct {
	Kind   string            `json:"kind"` // prog | tmpl | scenario
	Label  string            `json:"label"`
	Src    string            `json:"src,omitempty"`
	Files  map[string]string `json:"files,omitempty"`
	Main   string            `json:"main,omitempty"`
	Expect gcpanic.Expected  `json:"expect"`
	// LineOffset is added to the expected lines (template mirrors).
	LineOffset int `json:"line_offset,omitempty"`
	// Paths are the expected paths of the chain entries, oldest first; empty means
	// the single file of the case.
	Paths []string `json:"paths,omitempty"`
	// NoPosLines are the reference lines of the panics whose position is not judged
	// (open finding: nil pointer dereference).
	NoPosLines []int `json:"no_pos_lines,omitempty"`
	// NoPosPrefixes: panics whose message starts with one of these are raised
	// directly by a deferred builtin or native call; gc attributes them to the end of
	// the function, so their line is never judged, and while finding C12-F8 is open
	// their path is not judged either (PathFree).
	NoPosPrefixes []string `json:"no_pos_prefixes,omitempty"`
	PathFree      bool     `json:"path_free,omitempty"`
	// AllowGo: build with BuildOptions.AllowGoStmt.
	AllowGo bool `json:"allow_go,omitempty"`
	// CheckOut: the output of the template run must end with OutSuffix and contain
	// none of OutForbid (text that follows the Stop/Fatal/panic point).
	CheckOut  bool     `json:"check_out,omitempty"`
	OutSuffix string   `json:"out_suffix,omitempty"`
	OutForbid []string `json:"out_forbid,omitempty"`
}

const (
	scopeDerefPos     = "position of a nil pointer dereference panic"
	scopeDeferFuncVar = "deferred call of a function value held in a captured variable"
	scopeTwoRecovered = "two or more recovered panics still active when the program ends"
	scopeDeferredCall = "position of a panic raised directly by a deferred builtin or native call"
)

func (prop) Drive(d *core.Driver) error {
	d.T.Rule = "programs = seeded random nests (depth <= 3, up to 4 functions) of calls, closures, deferred closures/functions/natives, native callbacks, recover forms, panics of 12 kinds (explicit values and run-time faults, one per line), Stop and Fatal; each is compiled and run with gc to obtain the expected event log, outcome, panic chain and panic lines, then run by scriggo in a worker; closure-only nests are mirrored as templates; plus scripted multi-file template scenarios with varied line padding, plus the Env-stringer matrix (a value whose String/HTML/CSS/JS/JSON/Markdown(Env) method calls Stop or Fatal, shown in every context that consults the interface x top level, macro, imported macro, recursive macro, rendered file, using body, deferred macro while panicking, Markdown macro in HTML). distinct_nontrivial counts distinct (kind, outcome, chain length, recovered-flag pattern, panic kinds) signatures of runs that ended by Stop, Fatal or an unrecovered panic"
	d.T.Assumptions = []string{
		"the gc toolchain pinned by env.sh implements Go's panic/recover semantics and prints the chain of active panics (crash header) and their frames (traceback) correctly",
		"Env.Stop/Env.Fatal are modelled in the gc reference by ending the process, which is their documented effect (no deferred call runs)",
		"Path() of a program panic is accepted as \"main\" or \"main.go\" (a program has a single file)",
		"\"X [recovered, repanicked]\" in a gc crash header stands for two adjacent panics with the identical value whether or not the first was recovered; the number of panics behind such a line is taken from the traceback, the Recovered flag of the first is judged only when its value is unique to one execution (explicit values carry a call counter; not the shared run-time error values nil dereference, division by zero, nil-map write), the flags of the others are not judged; a header with several such lines is compared only in its newest panic",
		"`defer recover()` is not generated: what gc reports for it depends on frame matching in its runtime, not on the language specification",
	}
	goBin := os.Getenv("VGO")
	if goBin == "" {
		return fmt.Errorf("VGO is not set (run through ./check)")
	}
	nProg := d.N(240, 4000)
	r := d.Rand("nests")
	opts := fp.NestOpts{NativeEscape: true, NoDeferFuncVar: d.InScope(scopeDeferFuncVar)}
	skipDerefPos := d.InScope(scopeDerefPos)
	skipTwoRecovered := d.InScope(scopeTwoRecovered)
	pathFree := d.InScope(scopeDeferredCall)
	deferredPrefixes := []string{"dp", "deferred native "}
	scopedOut := 0
	var nests []fp.Nest
	var gcSrcs []string
	for i := 0; i < nProg; i++ {
		o := opts
		o.ClosureOnly = i%3 == 0
		n := fp.GenNest(r, o)
		nests = append(nests, n)
		gcSrcs = append(gcSrcs, fp.GcProgram(n.Src, i))
	}
	ref, err := gcpanic.Build(goBin, filepath.Join(d.Scratch, "gcref"), fp.GcPkg, gcSrcs)
	if err != nil {
		return err
	}
	// run the reference programs (processes of the gc binary, not scriggo) in parallel
	exps := make([]gcpanic.Expected, len(nests))
	errs := make([]error, len(nests))
	var wg sync.WaitGroup
	sem := make(chan struct{}, 8)
	for i := range nests {
		wg.Add(1)
		sem <- struct{}{}
		go func(i int) {
			defer wg.Done()
			exps[i], errs[i] = ref.Run(i)
			<-sem
		}(i)
	}
	wg.Wait()
	var cases []core.Case
	outcomes := map[string]int{}
	for i, n := range nests {
		exp, err := exps[i], errs[i]
		if err != nil {
			return fmt.Errorf("program %d: %v\n%s", i, err, n.Src)
		}
		outcomes[exp.Outcome]++
		if skipTwoRecovered && recoveredEntries(exp) >= 2 {
			scopedOut++
			continue
		}
		var noPos []int
		if skipDerefPos {
			noPos = n.DerefLines
		}
		cases = append(cases, core.NewCase(fmt.Sprintf("prog-%d", i), caseData{Kind: "prog", Label: fmt.Sprintf("nest %d", i), Src: n.Src, Expect: exp, NoPosLines: noPos, NoPosPrefixes: deferredPrefixes, PathFree: pathFree}))
		if n.Tmpl != "" {
			cases = append(cases, core.NewCase(fmt.Sprintf("tmpl-%d", i), caseData{Kind: "tmpl", Label: fmt.Sprintf("nest %d as template", i),
				Files: map[string]string{"index.html": n.Tmpl}, Main: "index.html", Expect: exp, LineOffset: n.TmplOffset, NoPosLines: noPos, NoPosPrefixes: deferredPrefixes, PathFree: pathFree}))
		}
	}
	sc := scenarios(d.Rand("scenarios"), d.N(6, 60))
	cases = append(cases, sc...)
	es := envShowCases(int(d.Seed % 4))
	cases = append(cases, es...)
	d.T.Set("env_stringer_show_cases", len(es))
	d.T.Set("programs", nProg)
	d.T.Set("template_mirrors", (nProg+2)/3)
	d.T.Set("scenario_cases", len(sc))
	d.T.Set("gc_outcomes", outcomes)
	d.T.Set("programs_inside_the_scope_of_an_open_finding", scopedOut)
	for _, i := range []int{0, 1, len(cases) - 1} {
		if i >= 0 && i < len(cases) {
			var cd caseData
			cases[i].Decode(&cd)
			d.T.Sample(map[string]any{"id": cases[i].ID, "src": core.Truncate(cd.Src, 600), "files": cd.Files, "expect": cd.Expect})
		}
	}
	results := d.Run(cases, core.RunOpts{})
	if path := os.Getenv("VERIF_TRIAGE"); path != "" { // development aid: why cases were skipped
		var b strings.Builder
		for i, r := range results {
			if r.Status == core.Skip {
				fmt.Fprintf(&b, "%s: %s\n", cases[i].ID, core.Truncate(r.Detail, 3000))
			}
		}
		os.WriteFile(path, []byte(b.String()), 0o644)
	}
	return nil
}

// recoveredEntries counts the panics of the reference chain that are known to be
// recovered.
func recoveredEntries(e gcpanic.Expected) int {
	n := 0
	for _, c := range e.Chain {
		if c.Recovered && !c.RecUnknown {
			n++
		}
	}
	return n
}

// ---------------------------------------------------------------------------
// scripted template scenarios

func pad(r interface{ Intn(int) int }, max int) (string, int) {
	n := r.Intn(max + 1)
	var b strings.Builder
	for i := 0; i < n; i++ {
		fmt.Fprintf(&b, "{# filler %d #}\n", i)
	}
	return b.String(), n
}

func scenarios(r interface{ Intn(int) int }, rounds int) []core.Case {
	var out []core.Case
	add := func(name string, cd caseData) {
		cd.Kind = "scenario"
		cd.Label = name
		cd.Main = "index.html"
		out = append(out, core.NewCase(fmt.Sprintf("scenario-%s-%d", name, len(out)), cd))
	}
	imp := "{% import \"pkg\" %}"
	for k := 0; k < rounds; k++ {
		p1, n1 := pad(r, 6)
		p2, n2 := pad(r, 6)
		// S1: panic in a macro of an imported file
		add("macro_imported_panic", caseData{
			Files: map[string]string{
				"index.html": p1 + "{% import \"lib/m.html\" %}\nA{{ M(3) }}B\n",
				"lib/m.html": p2 + "{% macro M(n int) %}\nx{{ n }}\n{% if n == 3 %}{% panic(\"boom\") %}{% end %}\ny\n{% end %}\n",
			},
			Expect: gcpanic.Expected{Events: []string{}, Outcome: "panic", LinesOK: true, Chain: []gcpanic.Entry{{Text: "boom", Line: n2 + 3}}},
			Paths:  []string{"lib/m.html"},
		})
		// S2: run-time fault in a rendered partial
		add("render_fault", caseData{
			Files: map[string]string{
				"index.html":   p1 + "AAA{{ render \"parts/p.html\" }}BBB\n",
				"parts/p.html": imp + "\n" + p2 + "PPP\n{% var a = []int{1} %}\n{{ a[pkg.Zero()+4] }}\nQQQ\n",
			},
			Expect:   gcpanic.Expected{Events: []string{}, Outcome: "panic", LinesOK: true, Chain: []gcpanic.Entry{{Text: "runtime error: index out of range [4] with length 1", Line: n2 + 4}}},
			Paths:    []string{"parts/p.html"},
			CheckOut: true, OutSuffix: "PPP\n\n", OutForbid: []string{"QQQ", "BBB"},
		})
		// S3: Stop in a macro of an imported file: output ends at the call
		add("macro_imported_stop", caseData{
			Files: map[string]string{
				"index.html": p1 + "{% import \"lib/m.html\" %}{% import \"pkg\" %}\n{%% defer pkg.Tick(9) %%}AAA{{ M() }}BBB\n",
				"lib/m.html": imp + p2 + "{% macro M %}xxx{% pkg.Tick(1) %}{% pkg.Stop(2) %}{% pkg.Tick(2) %}yyy{% end %}\n",
			},
			Expect:   gcpanic.Expected{Events: []string{"T1", "STOP2"}, Outcome: "stop", Idx: 2},
			CheckOut: true, OutSuffix: "xxx", OutForbid: []string{"yyy", "BBB"},
		})
		// S4: Fatal in a rendered file, with a deferred recover around
		add("render_fatal", caseData{
			Files: map[string]string{
				"index.html": p1 + "{% import \"pkg\" %}{%%\n\tdefer func() {\n\t\tpkg.Got(recover())\n\t}()\n%%}AAA{{ render \"p.html\" }}BBB\n",
				"p.html":     imp + p2 + "ppp{% pkg.Fatal(1) %}qqq\n",
			},
			Expect:   gcpanic.Expected{Events: []string{"FATAL1"}, Outcome: "fatal", Idx: 1},
			CheckOut: true, OutSuffix: "ppp", OutForbid: []string{"qqq", "BBB"},
		})
		// S5: a macro of an imported file panics inside a deferred closure while the
		// template is already panicking: two entries with different paths
		add("deferred_macro_panic_chain", caseData{
			Files: map[string]string{
				"index.html": "{% import \"lib/m.html\" %}{% import \"pkg\" %}\n" + p1 + "{%%\n\tf := func() {\n\t\tdefer func() {\n\t\t\t_ = M()\n\t\t}()\n\t\tpanic(\"first\")\n\t}\n\tf()\n%%}\n",
				"lib/m.html": p2 + "{% macro M string %}\nm{% panic(\"second\") %}\n{% end %}\n",
			},
			Expect: gcpanic.Expected{Events: []string{}, Outcome: "panic", LinesOK: true, Chain: []gcpanic.Entry{{Text: "first", Line: n1 + 7}, {Text: "second", Line: n2 + 2}}},
			Paths:  []string{"index.html", "lib/m.html"},
		})
		// S6: recovered and replaced inside a macro: [recovered] flag across files
		add("macro_recover_replace", caseData{
			Files: map[string]string{
				"index.html": "{% import \"pkg\" %}\n" + p1 + "{% macro M %}\n{%%\n\tdefer func() {\n\t\tpkg.Got(recover())\n\t\tpanic(\"replaced\")\n\t}()\n%%}\nm{{ render \"p.html\" }}\n{% end %}\nA{{ M() }}B\n",
				"p.html":     imp + "\n" + p2 + "{% pkg.NilMap[\"k\"] = 1 %}\n",
			},
			Expect: gcpanic.Expected{Events: []string{"G1"}, Outcome: "panic", LinesOK: true, Chain: []gcpanic.Entry{{Text: "assignment to entry in nil map", Recovered: true, Line: n2 + 2}, {Text: "replaced", Line: n1 + 6}}},
			Paths:  []string{"p.html", "index.html"},
		})
		// S7: extends: the macro of the extending file panics when the layout calls it
		add("extends_panic", caseData{
			Files: map[string]string{
				"index.html":  "{% extends \"layout.html\" %}\n" + p1 + "{% macro Body %}\nbbb{% panic(12) %}\n{% end %}\n",
				"layout.html": p2 + "<html>{{ Body() }}</html>\n",
			},
			Expect:   gcpanic.Expected{Events: []string{}, Outcome: "panic", LinesOK: true, Chain: []gcpanic.Entry{{Text: "12", Line: n1 + 3}}},
			Paths:    []string{"index.html"},
			CheckOut: true, OutSuffix: "bbb", OutForbid: []string{"</html>"},
		})
		// S8: a native calls back a macro that stops
		add("native_callback_macro_stop", caseData{
			Files: map[string]string{
				"index.html": "{% import \"pkg\" %}" + p1 + "{% macro M string %}mmm{% pkg.Stop(0) %}nnn{% end %}AAA{{ pkg.CallStr(M) }}BBB{% pkg.Tick(5) %}\n",
			},
			Expect:   gcpanic.Expected{Events: []string{"CS<", "STOP0"}, Outcome: "stop", Idx: 0},
			CheckOut: true, OutSuffix: "AAA", OutForbid: []string{"mmm", "nnn", "BBB"},
		})
		// S9: Stop inside a deferred closure that runs while panicking
		add("stop_while_panicking", caseData{
			Files: map[string]string{
				"index.html": "{% import \"pkg\" %}" + p1 + "aaa{%%\n\tf := func() {\n\t\tdefer pkg.Tick(7)\n\t\tdefer func() {\n\t\t\tpkg.Tick(1)\n\t\t\tpkg.Stop(3)\n\t\t\tpkg.Tick(2)\n\t\t}()\n\t\tpanic(\"x\")\n\t}\n\tf()\n%%}bbb\n",
			},
			Expect:   gcpanic.Expected{Events: []string{"T1", "STOP3"}, Outcome: "stop", Idx: 3},
			CheckOut: true, OutSuffix: "aaa", OutForbid: []string{"bbb"},
		})
	}
	return out
}

// ---------------------------------------------------------------------------
// worker side

type entry struct {
	Text      string
	Recovered bool
	Path      string
	Line      int
}

func mdConverter(src []byte, out io.Writer) error { return goldmark.Convert(src, out) }

func (prop) Work(c core.Case) core.Result {
	var cd caseData
	c.Decode(&cd)
	log := fp.NewLog()
	res := core.Result{Status: core.OK, Counts: map[string]int64{}}
	var runErr error
	var out bytes.Buffer
	var pv any
	var panicked bool
	var stack string
	src := cd.Src
	switch cd.Kind {
	case "prog":
		var prog *scriggo.Program
		var berr error
		bpv, bp, bst := core.Guard(func() {
			prog, berr = scriggo.Build(scriggo.Files{"main.go": []byte(cd.Src)}, &scriggo.BuildOptions{Packages: fp.Packages(log), AllowGoStmt: cd.AllowGo})
		})
		if bp {
			return core.Result{Status: core.Skip, Detail: fmt.Sprintf("Build panicked (C04 domain): %v\n%s", bpv, bst), Counts: map[string]int64{"build_panics": 1}}
		}
		if berr != nil {
			return core.Result{Status: core.Skip, Detail: "build error: " + berr.Error() + "\n" + cd.Src, Counts: map[string]int64{"build_errors": 1}}
		}
		pv, panicked, stack = core.Guard(func() {
			runErr = prog.Run(&scriggo.RunOptions{Print: func(v any) { log.Add("P") }})
		})
	case "tmpl", "scenario":
		fsys := scriggo.Files{}
		for k, v := range cd.Files {
			fsys[k] = []byte(v)
		}
		src = filesText(cd.Files)
		var tmpl *scriggo.Template
		var berr error
		bpv, bp, bst := core.Guard(func() {
			tmpl, berr = scriggo.BuildTemplate(fsys, cd.Main, &scriggo.BuildOptions{Packages: fp.Packages(log), MarkdownConverter: mdConverter})
		})
		if bp {
			return core.Result{Status: core.Skip, Detail: fmt.Sprintf("BuildTemplate panicked (C04 domain): %v\n%s", bpv, bst), Counts: map[string]int64{"build_panics": 1}}
		}
		if berr != nil {
			return core.Result{Status: core.Skip, Detail: "build error: " + berr.Error() + "\n" + src, Counts: map[string]int64{"build_errors": 1}}
		}
		pv, panicked, stack = core.Guard(func() {
			runErr = tmpl.Run(&out, nil, &scriggo.RunOptions{Print: func(v any) { log.Add("P") }})
		})
	default:
		return core.Result{Status: core.Inconclusive, Detail: "unknown kind " + cd.Kind}
	}
	res.Counts["runs"] = 1
	res.Counts["events"] = int64(len(log.Events))
	res.Counts["outcome_"+cd.Expect.Outcome] = 1
	fail := func(format string, args ...any) core.Result {
		res.Status = core.Violation
		res.Detail = fmt.Sprintf("%s (%s): ", cd.Label, cd.Kind) + fmt.Sprintf(format, args...) +
			fmt.Sprintf("\nexpected (gc): outcome=%s idx=%d events=%v chain=%+v\nscriggo events: %v\n%s", cd.Expect.Outcome, cd.Expect.Idx, cd.Expect.Events, cd.Expect.Chain, log.Events, src)
		return res
	}
	exp := cd.Expect
	// 1. outcome
	switch exp.Outcome {
	case "ok":
		if panicked {
			return fail("Run panicked into the host with %T: %v\n%s", pv, pv, stack)
		}
		if runErr != nil {
			return fail("gc runs to completion, Run returned %T: %v", runErr, runErr)
		}
	case "stop":
		want := fp.StopErrs[exp.Idx%len(fp.StopErrs)]
		if panicked {
			return fail("Stop(%v) was called but Run panicked with %T: %v\n%s", want, pv, pv, stack)
		}
		if runErr != want {
			return fail("Stop(err) was called with %T %q but Run returned %T: %v (not the same value)", want, want.Error(), runErr, runErr)
		}
		if log.AfterStop > 0 {
			return fail("%d event(s) recorded after Stop was called", log.AfterStop)
		}
		res.Sigs = append(res.Sigs, core.SigJoin(cd.Kind, "stop", fmt.Sprint(len(exp.Events))))
		if cd.Kind == "scenario" {
			res.Sigs = append(res.Sigs, core.SigJoin("scenario", "stop", cd.Label))
		}
	case "fatal":
		want := fp.FatalVals[exp.Idx%len(fp.FatalVals)]
		if !panicked {
			return fail("Fatal(%#v) was called but Run returned %T: %v instead of panicking", want, runErr, runErr)
		}
		if !same(pv, want) {
			return fail("Fatal(%#v) was called but Run panicked with %T: %#v", want, pv, pv)
		}
		if log.AfterStop > 0 {
			return fail("%d event(s) recorded after Fatal was called", log.AfterStop)
		}
		res.Sigs = append(res.Sigs, core.SigJoin(cd.Kind, "fatal", fmt.Sprint(len(exp.Events))))
		if cd.Kind == "scenario" {
			res.Sigs = append(res.Sigs, core.SigJoin("scenario", "fatal", cd.Label))
		}
	case "panic":
		if panicked {
			return fail("Run panicked into the host with %T: %v\n%s", pv, pv, stack)
		}
		pe, ok := runErr.(*scriggo.PanicError)
		if !ok {
			return fail("gc ends with an unrecovered panic, Run returned %T: %v", runErr, runErr)
		}
		var ents []entry
		var errText string
		wpv, wp, wst := core.Guard(func() {
			n := 0
			for p := pe; p != nil; p = p.Next() {
				if n++; n > 64 {
					panic("the chain does not end after 64 entries")
				}
				pos := p.Position()
				ents = append(ents, entry{Text: p.String(), Recovered: p.Recovered(), Path: p.Path(), Line: pos.Line})
			}
			errText = pe.Error()
		})
		if wp {
			return fail("walking the chain with Next() until nil panicked after %d entries: %v\n%s", len(ents), wpv, wst)
		}
		// oldest first
		for i, j := 0, len(ents)-1; i < j; i, j = i+1, j-1 {
			ents[i], ents[j] = ents[j], ents[i]
		}
		if exp.Approx {
			// several "[recovered, repanicked]" lines: only the newest panic is known
			res.Counts["chains_approximate"]++
			w := exp.Chain[len(exp.Chain)-1]
			g := ents[len(ents)-1]
			if g.Text != w.Text {
				return fail("newest panic: message %q, want %q; chain %+v", g.Text, w.Text, ents)
			}
			if w.Line > 0 && !derefLine(cd.NoPosLines, w.Line) && g.Line != w.Line+cd.LineOffset {
				return fail("newest panic (%q): Position().Line=%d, want %d; chain %+v", g.Text, g.Line, w.Line+cd.LineOffset, ents)
			}
			res.Sigs = append(res.Sigs, core.SigJoin(cd.Kind, "panic", "approx", kindOf(w.Text)))
			if !equalStrings(log.Events, exp.Events) {
				return fail("event log differs from the reference")
			}
			return res
		}
		if len(ents) != len(exp.Chain) {
			return fail("chain has %d entries %+v, want %d", len(ents), ents, len(exp.Chain))
		}
		flags := ""
		for i, w := range exp.Chain {
			g := ents[i]
			if g.Text != w.Text {
				return fail("chain entry %d (oldest first): message %q, want %q; chain %+v", i, g.Text, w.Text, ents)
			}
			if w.RecUnknown || w.Collapsed && sharedValue(w.Text) {
				// recovered flag not known from the reference
			} else if g.Recovered != w.Recovered {
				return fail("chain entry %d (%q): Recovered()=%v, want %v; chain %+v", i, g.Text, g.Recovered, w.Recovered, ents)
			}
			noPos := false
			for _, l := range cd.NoPosLines {
				if exp.LinesOK && l == w.Line {
					noPos = true
				}
			}
			if noPos {
				res.Counts["positions_not_judged"]++
				flags += "?"
				continue
			}
			deferredCall := false
			for _, pre := range cd.NoPosPrefixes {
				if strings.HasPrefix(w.Text, pre) {
					deferredCall = true
				}
			}
			if deferredCall {
				res.Counts["deferred_call_panics"]++
				if cd.PathFree || g.Path == "main" || g.Path == "main.go" || g.Path == cd.Main {
					flags += "d"
					continue
				}
				return fail("chain entry %d (%q, raised by a deferred call): Path()=%q, want the file of the function", i, g.Text, g.Path)
			}
			if exp.LinesOK && w.Line > 0 && g.Line != w.Line+cd.LineOffset {
				return fail("chain entry %d (%q): Position().Line=%d, want %d (the statement that raised it); chain %+v", i, g.Text, g.Line, w.Line+cd.LineOffset, ents)
			}
			wantPath := cd.Main
			if i < len(cd.Paths) {
				wantPath = cd.Paths[i]
			}
			if cd.Kind == "prog" {
				if g.Path != "main" && g.Path != "main.go" {
					return fail("chain entry %d (%q): Path()=%q, want the program file", i, g.Text, g.Path)
				}
			} else if g.Path != wantPath {
				return fail("chain entry %d (%q): Path()=%q, want %q", i, g.Text, g.Path, wantPath)
			}
			if w.Recovered {
				flags += "R"
			} else {
				flags += "-"
			}
		}
		// the text of Error() is the crash header of the gc runtime without "panic: "
		var hdr strings.Builder
		for i, w := range exp.Chain {
			if i > 0 {
				hdr.WriteString("\tpanic: ")
			}
			hdr.WriteString(w.Text)
			rec := w.Recovered
			if w.RecUnknown || w.Collapsed && sharedValue(w.Text) {
				rec = ents[i].Recovered
			}
			if rec {
				hdr.WriteString(" [recovered]")
			}
			hdr.WriteString("\n")
		}
		if strings.TrimRight(errText, "\n") != strings.TrimRight(hdr.String(), "\n") {
			return fail("Error() = %q, want %q", errText, hdr.String())
		}
		res.Sigs = append(res.Sigs, core.SigJoin(cd.Kind, "panic", flags, kindOf(exp.Chain[len(exp.Chain)-1].Text)))
		res.Counts["chain_entries"] = int64(len(ents))
	}
	// 2. event log
	if !equalStrings(log.Events, exp.Events) {
		return fail("event log differs from the reference")
	}
	// 3. output
	if cd.CheckOut {
		if !strings.HasSuffix(strings.TrimRight(out.String(), " \t\n"), strings.TrimRight(cd.OutSuffix, " \t\n")) {
			return fail("output %q does not end with %q (bytes written at or after the stop point)", out.String(), cd.OutSuffix)
		}
		for _, f := range cd.OutForbid {
			if strings.Contains(out.String(), f) {
				return fail("output %q contains %q, which follows the stop point", out.String(), f)
			}
		}
	}
	return res
}

func derefLine(lines []int, l int) bool {
	for _, x := range lines {
		if x == l {
			return true
		}
	}
	return false
}

// sharedValue reports whether text is the message of a run-time error whose value is
// one shared object of the gc runtime.
func sharedValue(text string) bool {
	switch text {
	case "runtime error: invalid memory address or nil pointer dereference",
		"runtime error: integer divide by zero",
		"assignment to entry in nil map":
		return true
	}
	return false
}

func kindOf(text string) string {
	switch {
	case strings.HasPrefix(text, "runtime error: index"):
		return "index"
	case strings.HasPrefix(text, "runtime error: integer"):
		return "div"
	case strings.HasPrefix(text, "runtime error: invalid memory"):
		return "nil"
	case strings.HasPrefix(text, "interface conversion"):
		return "assert"
	case strings.HasPrefix(text, "assignment to entry"):
		return "nilmap"
	case strings.HasPrefix(text, "native env"):
		return "native"
	case strings.HasPrefix(text, "p"):
		return "string"
	case strings.HasPrefix(text, "e"):
		return "error"
	}
	return "int"
}

func same(a, b any) (eq bool) {
	defer func() {
		if recover() != nil {
			eq = false
		}
	}()
	return a == b
}

func equalStrings(a, b []string) bool {
	if len(a) != len(b) {
		return false
	}
	for i := range a {
		if a[i] != b[i] {
			return false
		}
	}
	return true
}

func filesText(files map[string]string) string {
	var names []string
	for k := range files {
		names = append(names, k)
	}
	sort.Strings(names)
	var b strings.Builder
	for _, n := range names {
		fmt.Fprintf(&b, "--- %s\n%s\n", n, files[n])
	}
	return b.String()
}
