// Package astrefl holds reflection-based oracles over scriggo syntax trees:
// structural comparison, node census, pointer census, fingerprinting and
// exhaustive mutation. Nothing here calls ast String methods, astutil.Walk or
// astutil.Clone*: it is the independent side of the C27/C28 checks.
//
// The traversal is generic over struct fields, so a node type or field added
// to package ast is covered without touching this file.
package astrefl

import (
	"fmt"
	"reflect"
	"sort"
	"strconv"
	"strings"

	"github.com/open2b/scriggo/ast"
)

var (
	posType  = reflect.TypeOf((*ast.Position)(nil))
	nodeType = reflect.TypeOf((*ast.Node)(nil)).Elem()
	exprType = reflect.TypeOf((*ast.Expression)(nil)).Elem()
	treeType = reflect.TypeOf((*ast.Tree)(nil))
)

// annotation fields are filled by the type checker, not by the parser; the
// oracles work on parse-stage trees and leave them alone.
var annotation = map[string]bool{"IR": true, "Upvars": true, "Reflect": true}

// Options selects what a traversal looks at.
type Options struct {
	// IgnoreParen ignores the number of parentheses around expressions.
	IgnoreParen bool
	// IgnoreFields lists "Type.Field" pairs that are not compared.
	IgnoreFields map[string]bool
	// SkipTrees does not descend the expanded trees of Import, Extends and Render.
	SkipTrees bool
}

// isExpandedTree reports whether field f of struct type t is one of the
// Tree fields holding an expanded file.
func isExpandedTree(t reflect.Type, f reflect.StructField) bool {
	return f.Type == treeType && f.Name == "Tree" && (t.Name() == "Import" || t.Name() == "Extends" || t.Name() == "Render")
}

// ---------------------------------------------------------------- Diff

type differ struct {
	o    Options
	seen map[[2]uintptr]bool
}

// Diff compares two trees (or any two values built from ast types)
// structurally. Positions are ignored, nil and empty slices are alike. It
// returns "" when they are equal, otherwise the path of the first difference
// and what differs.
func Diff(a, b any, o Options) string {
	d := &differ{o: o, seen: map[[2]uintptr]bool{}}
	return d.diff(reflect.ValueOf(a), reflect.ValueOf(b), "")
}

func (d *differ) diff(a, b reflect.Value, path string) string {
	if !a.IsValid() || !b.IsValid() {
		if a.IsValid() != b.IsValid() {
			return fmt.Sprintf("%s: one side is absent (nil interface), the other is %s", path, describe(a, b))
		}
		return ""
	}
	if a.Type() != b.Type() {
		return fmt.Sprintf("%s: type %s vs %s", path, a.Type(), b.Type())
	}
	switch a.Kind() {
	case reflect.Interface:
		if a.IsNil() || b.IsNil() {
			if a.IsNil() != b.IsNil() {
				return fmt.Sprintf("%s: %s vs %s", path, ifaceDesc(a), ifaceDesc(b))
			}
			return ""
		}
		ae, be := a.Elem(), b.Elem()
		if ae.Type() != be.Type() {
			return fmt.Sprintf("%s: %s vs %s", path, ae.Type(), be.Type())
		}
		return d.diff(ae, be, path)
	case reflect.Ptr:
		if a.Type() == posType {
			return ""
		}
		if a.IsNil() || b.IsNil() {
			if a.IsNil() != b.IsNil() {
				return fmt.Sprintf("%s: %s vs %s", path, ptrDesc(a), ptrDesc(b))
			}
			return ""
		}
		key := [2]uintptr{a.Pointer(), b.Pointer()}
		if d.seen[key] {
			return ""
		}
		d.seen[key] = true
		return d.diff(a.Elem(), b.Elem(), path+"("+a.Type().Elem().Name()+")")
	case reflect.Struct:
		t := a.Type()
		for i := 0; i < t.NumField(); i++ {
			f := t.Field(i)
			if annotation[f.Name] || f.Type == posType {
				continue
			}
			if d.o.IgnoreFields[t.Name()+"."+f.Name] {
				continue
			}
			if d.o.IgnoreParen && f.Name == "parenthesis" {
				continue
			}
			if d.o.SkipTrees && isExpandedTree(t, f) {
				continue
			}
			if s := d.diff(a.Field(i), b.Field(i), path+"."+f.Name); s != "" {
				return s
			}
		}
		return ""
	case reflect.Slice:
		if a.Len() != b.Len() {
			return fmt.Sprintf("%s: length %d vs %d", path, a.Len(), b.Len())
		}
		if a.Type().Elem().Kind() == reflect.Uint8 {
			if string(a.Bytes()) != string(b.Bytes()) {
				return fmt.Sprintf("%s: %q vs %q", path, trunc(string(a.Bytes())), trunc(string(b.Bytes())))
			}
			return ""
		}
		for i := 0; i < a.Len(); i++ {
			if s := d.diff(a.Index(i), b.Index(i), path+"["+strconv.Itoa(i)+"]"); s != "" {
				return s
			}
		}
		return ""
	case reflect.String:
		if a.String() != b.String() {
			return fmt.Sprintf("%s: %q vs %q", path, trunc(a.String()), trunc(b.String()))
		}
	case reflect.Bool:
		if a.Bool() != b.Bool() {
			return fmt.Sprintf("%s: %v vs %v", path, a.Bool(), b.Bool())
		}
	case reflect.Int, reflect.Int8, reflect.Int16, reflect.Int32, reflect.Int64:
		if a.Int() != b.Int() {
			return fmt.Sprintf("%s: %d vs %d", path, a.Int(), b.Int())
		}
	case reflect.Uint, reflect.Uint8, reflect.Uint16, reflect.Uint32, reflect.Uint64:
		if a.Uint() != b.Uint() {
			return fmt.Sprintf("%s: %d vs %d", path, a.Uint(), b.Uint())
		}
	case reflect.Map:
		if a.Len() != b.Len() {
			return fmt.Sprintf("%s: map length %d vs %d", path, a.Len(), b.Len())
		}
	default:
		panic(fmt.Sprintf("astrefl: unhandled kind %s at %s", a.Kind(), path))
	}
	return ""
}

func describe(a, b reflect.Value) string {
	if a.IsValid() {
		return a.Type().String()
	}
	return b.Type().String()
}

func ifaceDesc(v reflect.Value) string {
	if v.IsNil() {
		return "nil"
	}
	e := v.Elem()
	if e.Kind() == reflect.Ptr && e.IsNil() {
		return "nil " + e.Type().String() + " inside a non-nil interface"
	}
	return e.Type().String()
}

func ptrDesc(v reflect.Value) string {
	if v.IsNil() {
		return "nil " + v.Type().String()
	}
	return "non-nil " + v.Type().String()
}

func trunc(s string) string {
	if len(s) > 80 {
		return s[:80] + "…"
	}
	return s
}

// ---------------------------------------------------------------- node census

// NodeRef is one node found by the reflective traversal.
type NodeRef struct {
	Node   ast.Node
	Parent ast.Node // nil for the root
	Edge   string   // "ParentType.Field[.SubField]" through which it was first reached ("" for the root)
	Depth  int
	NilPtr bool // the edge holds a typed nil pointer inside an interface, or a nil node pointer: not a node
}

type census struct {
	o     Options
	seen  map[uintptr]bool
	nodes []NodeRef
	dups  []NodeRef
}

// Nodes returns every node reachable from root through the fields of the
// tree, in depth-first order, each distinct node once; dups lists the nodes
// reached a second time (the tree is then a DAG).
func Nodes(root ast.Node, o Options) (nodes, dups []NodeRef) {
	c := &census{o: o, seen: map[uintptr]bool{}}
	c.walk(reflect.ValueOf(root), nil, "", 0)
	return c.nodes, c.dups
}

func (c *census) walk(v reflect.Value, parent ast.Node, edge string, depth int) {
	switch v.Kind() {
	case reflect.Interface:
		if !v.IsNil() {
			c.walk(v.Elem(), parent, edge, depth)
		}
	case reflect.Ptr:
		if v.Type() == posType || v.IsNil() {
			return
		}
		if v.Type().Implements(nodeType) && v.CanInterface() {
			n := v.Interface().(ast.Node)
			ref := NodeRef{Node: n, Parent: parent, Edge: edge, Depth: depth}
			if c.seen[v.Pointer()] {
				c.dups = append(c.dups, ref)
				return
			}
			c.seen[v.Pointer()] = true
			c.nodes = append(c.nodes, ref)
			c.fields(v.Elem(), n, v.Type().Elem().Name(), depth+1)
			return
		}
		if v.Elem().Kind() == reflect.Struct {
			// Field, Parameter: not nodes, their children belong to the enclosing node
			c.fields(v.Elem(), parent, edge, depth)
		}
	case reflect.Struct:
		c.fields(v, parent, edge, depth)
	case reflect.Slice:
		if v.Type().Elem().Kind() == reflect.Uint8 {
			return
		}
		for i := 0; i < v.Len(); i++ {
			c.walk(v.Index(i), parent, edge, depth)
		}
	}
}

func (c *census) fields(s reflect.Value, parent ast.Node, prefix string, depth int) {
	t := s.Type()
	for i := 0; i < t.NumField(); i++ {
		f := t.Field(i)
		if annotation[f.Name] || f.Type == posType || !f.IsExported() {
			continue
		}
		if c.o.SkipTrees && isExpandedTree(t, f) {
			continue
		}
		c.walk(s.Field(i), parent, prefix+"."+f.Name, depth)
	}
}

// TypeName returns the concrete type name of a node without the package.
func TypeName(n any) string {
	t := reflect.TypeOf(n)
	for t.Kind() == reflect.Ptr {
		t = t.Elem()
	}
	return t.Name()
}

// IsNilNode reports whether n is nil or a typed nil pointer.
func IsNilNode(n ast.Node) bool {
	if n == nil {
		return true
	}
	v := reflect.ValueOf(n)
	return v.Kind() == reflect.Ptr && v.IsNil()
}

// NodePointer returns the address of the node's struct.
func NodePointer(n ast.Node) uintptr {
	v := reflect.ValueOf(n)
	if v.Kind() != reflect.Ptr {
		return 0
	}
	return v.Pointer()
}

// ---------------------------------------------------------------- pointer census

// Pointers returns every piece of mutable memory reachable from root: the
// address of every struct pointed to (nodes, positions, the unexported
// expression part, Field, Parameter) and of every slice backing array with
// capacity > 0, each with a description of where it was found.
func Pointers(root any, o Options) map[uintptr]string {
	m := map[uintptr]string{}
	pointers(reflect.ValueOf(root), o, m, "")
	return m
}

func pointers(v reflect.Value, o Options, m map[uintptr]string, path string) {
	switch v.Kind() {
	case reflect.Interface:
		if !v.IsNil() {
			pointers(v.Elem(), o, m, path)
		}
	case reflect.Ptr:
		if v.IsNil() {
			return
		}
		if v.Type().Elem().Size() == 0 {
			return
		}
		p := v.Pointer()
		if _, ok := m[p]; ok {
			return
		}
		m[p] = path + " (" + v.Type().String() + ")"
		if v.Elem().Kind() == reflect.Struct {
			pointers(v.Elem(), o, m, path)
		}
	case reflect.Struct:
		t := v.Type()
		if t.PkgPath() == "reflect" {
			return
		}
		for i := 0; i < t.NumField(); i++ {
			f := t.Field(i)
			if annotation[f.Name] {
				continue
			}
			if o.SkipTrees && isExpandedTree(t, f) {
				continue
			}
			pointers(v.Field(i), o, m, path+"."+f.Name)
		}
	case reflect.Slice:
		if v.Cap() > 0 && v.Type().Elem().Size() > 0 {
			p := v.Pointer()
			if _, ok := m[p]; !ok {
				m[p] = path + " (backing array of " + v.Type().String() + ")"
			}
		}
		if v.Type().Elem().Kind() == reflect.Uint8 {
			return
		}
		for i := 0; i < v.Len(); i++ {
			pointers(v.Index(i), o, m, path+"["+strconv.Itoa(i)+"]")
		}
	}
}

// Shared returns the descriptions of the memory reachable from both trees.
func Shared(orig, clone any, o Options) []string {
	a := Pointers(orig, o)
	b := Pointers(clone, o)
	var out []string
	for p, where := range b {
		if w, ok := a[p]; ok {
			out = append(out, fmt.Sprintf("clone%s is original%s", where, w))
		}
	}
	sort.Strings(out)
	return out
}

// ---------------------------------------------------------------- fingerprint

// Fingerprint serialises everything reachable from root, positions and
// parentheses included, so that any change to the tree changes the string.
func Fingerprint(root any) string {
	var b strings.Builder
	fp(reflect.ValueOf(root), &b, map[uintptr]int{})
	return b.String()
}

func fp(v reflect.Value, b *strings.Builder, seen map[uintptr]int) {
	switch v.Kind() {
	case reflect.Invalid:
		b.WriteString("<invalid>")
	case reflect.Interface:
		if v.IsNil() {
			b.WriteString("nil-iface")
			return
		}
		fp(v.Elem(), b, seen)
	case reflect.Ptr:
		if v.IsNil() {
			b.WriteString("nil-" + v.Type().Elem().Name())
			return
		}
		if id, ok := seen[v.Pointer()]; ok && v.Type().Elem().Size() > 0 {
			fmt.Fprintf(b, "^%d", id)
			return
		}
		seen[v.Pointer()] = len(seen)
		b.WriteString("&")
		fp(v.Elem(), b, seen)
	case reflect.Struct:
		t := v.Type()
		if t.PkgPath() == "reflect" {
			b.WriteString("<reflect>")
			return
		}
		b.WriteString(t.Name() + "{")
		for i := 0; i < t.NumField(); i++ {
			f := t.Field(i)
			if annotation[f.Name] {
				continue
			}
			b.WriteString(f.Name + ":")
			fp(v.Field(i), b, seen)
			b.WriteString(" ")
		}
		b.WriteString("}")
	case reflect.Slice:
		if v.Type().Elem().Kind() == reflect.Uint8 {
			b.WriteString(strconv.Quote(string(v.Bytes())))
			return
		}
		fmt.Fprintf(b, "[%d:", v.Len())
		for i := 0; i < v.Len(); i++ {
			fp(v.Index(i), b, seen)
			b.WriteString(",")
		}
		b.WriteString("]")
	case reflect.String:
		b.WriteString(strconv.Quote(v.String()))
	case reflect.Bool:
		b.WriteString(strconv.FormatBool(v.Bool()))
	case reflect.Int, reflect.Int8, reflect.Int16, reflect.Int32, reflect.Int64:
		b.WriteString(strconv.FormatInt(v.Int(), 10))
	case reflect.Uint, reflect.Uint8, reflect.Uint16, reflect.Uint32, reflect.Uint64:
		b.WriteString(strconv.FormatUint(v.Uint(), 10))
	case reflect.Map:
		fmt.Fprintf(b, "map[%d]", v.Len())
	default:
		b.WriteString("<" + v.Kind().String() + ">")
	}
}

// ---------------------------------------------------------------- mutation

// Mutate changes every mutable piece of the tree in place: every string,
// integer, boolean, byte and position field gets another value, the number of
// parentheses of every expression changes, and afterwards every slice element,
// pointer and interface field is overwritten with its zero value (so shared
// backing arrays and shared structs are hit too). It returns the number of
// writes done.
func Mutate(root any) int {
	m := &mutator{seen: map[uintptr]bool{}}
	m.mutate(reflect.ValueOf(root))
	return m.n
}

type mutator struct {
	seen map[uintptr]bool
	n    int
}

func (m *mutator) mutate(v reflect.Value) {
	switch v.Kind() {
	case reflect.Interface:
		if v.IsNil() {
			return
		}
		m.mutate(v.Elem())
		if v.CanSet() {
			v.Set(reflect.Zero(v.Type()))
			m.n++
		}
	case reflect.Ptr:
		if v.IsNil() {
			return
		}
		if v.Type().Elem().Size() > 0 {
			if m.seen[v.Pointer()] {
				return
			}
			m.seen[v.Pointer()] = true
		}
		if v.CanInterface() && v.Type().Implements(exprType) {
			e := v.Interface().(ast.Expression)
			e.SetParenthesis(e.Parenthesis() + 1)
			m.n++
		}
		if v.Elem().Kind() == reflect.Struct && v.Elem().Type().PkgPath() != "reflect" {
			m.mutate(v.Elem())
		}
		if v.CanSet() {
			v.Set(reflect.Zero(v.Type()))
			m.n++
		}
	case reflect.Struct:
		t := v.Type()
		if t.PkgPath() == "reflect" {
			return
		}
		for i := 0; i < t.NumField(); i++ {
			f := t.Field(i)
			if annotation[f.Name] || !f.IsExported() {
				continue
			}
			m.mutate(v.Field(i))
		}
	case reflect.Slice:
		if v.Type().Elem().Kind() == reflect.Uint8 {
			b := v.Bytes()
			for i := range b {
				b[i] ^= 0x55
				m.n++
			}
		} else {
			for i := 0; i < v.Len(); i++ {
				m.mutate(v.Index(i))
			}
		}
		if v.CanSet() {
			v.Set(reflect.Zero(v.Type()))
			m.n++
		}
	case reflect.String:
		if v.CanSet() {
			v.SetString(v.String() + "~mut")
			m.n++
		}
	case reflect.Bool:
		if v.CanSet() {
			v.SetBool(!v.Bool())
			m.n++
		}
	case reflect.Int, reflect.Int8, reflect.Int16, reflect.Int32, reflect.Int64:
		if v.CanSet() {
			v.SetInt(v.Int() + 1)
			m.n++
		}
	case reflect.Uint, reflect.Uint8, reflect.Uint16, reflect.Uint32, reflect.Uint64:
		if v.CanSet() {
			v.SetUint(v.Uint() + 1)
			m.n++
		}
	}
}

// ---------------------------------------------------------------- direct children

// Children returns the nodes that are direct children of n: reachable through
// n's fields (and through Field, Parameter and KeyValue values, which are not
// nodes) without passing through another node. Typed nil pointers stored in
// the fields are returned with NilPtr set; they are not nodes.
func Children(n ast.Node, o Options) []NodeRef {
	v := reflect.ValueOf(n)
	if v.Kind() != reflect.Ptr || v.IsNil() {
		return nil
	}
	c := &childCollector{o: o, parent: n}
	c.fields(v.Elem(), v.Type().Elem().Name())
	return c.out
}

type childCollector struct {
	o      Options
	parent ast.Node
	out    []NodeRef
}

func (c *childCollector) fields(s reflect.Value, prefix string) {
	t := s.Type()
	for i := 0; i < t.NumField(); i++ {
		f := t.Field(i)
		if annotation[f.Name] || f.Type == posType || !f.IsExported() {
			continue
		}
		if c.o.SkipTrees && isExpandedTree(t, f) {
			continue
		}
		c.value(s.Field(i), prefix+"."+f.Name)
	}
}

func (c *childCollector) value(v reflect.Value, edge string) {
	switch v.Kind() {
	case reflect.Interface:
		if !v.IsNil() {
			c.value(v.Elem(), edge)
		}
	case reflect.Ptr:
		if v.Type() == posType {
			return
		}
		if v.Type().Implements(nodeType) && v.CanInterface() {
			if v.IsNil() {
				c.out = append(c.out, NodeRef{Parent: c.parent, Edge: edge, NilPtr: true})
				return
			}
			c.out = append(c.out, NodeRef{Node: v.Interface().(ast.Node), Parent: c.parent, Edge: edge})
			return
		}
		if !v.IsNil() && v.Elem().Kind() == reflect.Struct {
			c.fields(v.Elem(), edge)
		}
	case reflect.Struct:
		c.fields(v, edge)
	case reflect.Slice:
		if v.Type().Elem().Kind() == reflect.Uint8 {
			return
		}
		for i := 0; i < v.Len(); i++ {
			c.value(v.Index(i), edge)
		}
	}
}
