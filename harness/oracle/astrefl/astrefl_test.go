package astrefl

import (
	"strings"
	"testing"

	"github.com/open2b/scriggo/ast"
)

func pos(l, c int) *ast.Position { return &ast.Position{Line: l, Column: c, Start: c, End: c} }

// sample builds  x = f(a, -b)[1:2]  by hand.
func sample() *ast.Assignment {
	call := ast.NewCall(pos(1, 5), ast.NewIdentifier(pos(1, 5), "f"),
		[]ast.Expression{ast.NewIdentifier(pos(1, 7), "a"), ast.NewUnaryOperator(pos(1, 10), ast.OperatorSubtraction, ast.NewIdentifier(pos(1, 11), "b"))}, false)
	sl := ast.NewSlicing(pos(1, 5), call, ast.NewBasicLiteral(pos(1, 14), ast.IntLiteral, "1"), ast.NewBasicLiteral(pos(1, 16), ast.IntLiteral, "2"), nil, false)
	return ast.NewAssignment(pos(1, 1), []ast.Expression{ast.NewIdentifier(pos(1, 1), "x")}, ast.AssignmentSimple, []ast.Expression{sl})
}

func TestDiffEqualIgnoresPositionsAndNilVsEmpty(t *testing.T) {
	a, b := sample(), sample()
	b.Position.Line = 99
	b.Rhs[0].(*ast.Slicing).Expr.(*ast.Call).Position.Start = 1234
	if d := Diff(a, b, Options{}); d != "" {
		t.Fatalf("equal trees differ: %s", d)
	}
	blockA := ast.NewBlock(nil, nil)
	blockB := ast.NewBlock(pos(1, 1), []ast.Node{})
	if d := Diff(blockA, blockB, Options{}); d != "" {
		t.Fatalf("nil and empty slices must be alike: %s", d)
	}
}

func TestDiffFindsEveryKindOfDifference(t *testing.T) {
	mutations := map[string]func(a *ast.Assignment){
		"Name":        func(a *ast.Assignment) { a.Lhs[0].(*ast.Identifier).Name = "y" },
		"Type":        func(a *ast.Assignment) { a.Type = ast.AssignmentDeclaration },
		"length":      func(a *ast.Assignment) { a.Rhs = append(a.Rhs, ast.NewIdentifier(nil, "z")) },
		"IsFull":      func(a *ast.Assignment) { a.Rhs[0].(*ast.Slicing).IsFull = true },
		"vs":          func(a *ast.Assignment) { a.Rhs[0].(*ast.Slicing).Low = nil },
		"Op":          func(a *ast.Assignment) { a.Rhs[0].(*ast.Slicing).Expr.(*ast.Call).Args[1].(*ast.UnaryOperator).Op = ast.OperatorNot },
		"Identifier":  func(a *ast.Assignment) { a.Rhs[0].(*ast.Slicing).Expr.(*ast.Call).Args[1] = ast.NewIdentifier(nil, "b") },
		"parenthesis": func(a *ast.Assignment) { a.Rhs[0].SetParenthesis(2) },
	}
	for want, mut := range mutations {
		a, b := sample(), sample()
		mut(b)
		d := Diff(a, b, Options{})
		if d == "" || !strings.Contains(d, want) {
			t.Errorf("mutation %q: diff = %q", want, d)
		}
	}
	a, b := sample(), sample()
	b.Rhs[0].SetParenthesis(2)
	if d := Diff(a, b, Options{IgnoreParen: true}); d != "" {
		t.Errorf("IgnoreParen: %s", d)
	}
	// typed nil inside an interface is not the same as a nil interface
	var nilIdent *ast.Identifier
	x := ast.NewGo(nil, nilIdent)
	y := ast.NewGo(nil, nil)
	if d := Diff(x, y, Options{}); d == "" {
		t.Errorf("typed nil vs nil interface not reported")
	}
}

func TestNodesAndChildren(t *testing.T) {
	a := sample()
	nodes, dups := Nodes(a, Options{})
	if len(dups) != 0 {
		t.Fatalf("dups %v", dups)
	}
	var names []string
	for _, n := range nodes {
		names = append(names, TypeName(n.Node))
	}
	want := "Assignment Identifier Slicing Call Identifier Identifier UnaryOperator Identifier BasicLiteral BasicLiteral"
	if got := strings.Join(names, " "); got != want {
		t.Fatalf("nodes = %s, want %s", got, want)
	}
	ch := Children(a.Rhs[0], Options{})
	if len(ch) != 3 || ch[0].Edge != "Slicing.Expr" || ch[1].Edge != "Slicing.Low" || ch[2].Edge != "Slicing.High" {
		t.Fatalf("children of slicing: %+v", ch)
	}
	// children through Parameter and Field values, nil label
	ft := ast.NewFuncType(nil, false, []*ast.Parameter{{Ident: ast.NewIdentifier(nil, "a"), Type: ast.NewIdentifier(nil, "int")}}, nil, false)
	if ch := Children(ft, Options{}); len(ch) != 2 || ch[0].Edge != "FuncType.Parameters.Ident" || ch[1].Edge != "FuncType.Parameters.Type" {
		t.Fatalf("children of func type: %+v", ch)
	}
	br := ast.NewBreak(pos(1, 1), nil)
	if ch := Children(br, Options{}); len(ch) != 1 || !ch[0].NilPtr || ch[0].Edge != "Break.Label" {
		t.Fatalf("children of break: %+v", ch)
	}
	// shared node: reported as dup, visited once
	id := ast.NewIdentifier(nil, "s")
	bin := ast.NewBinaryOperator(nil, ast.OperatorAddition, id, id)
	nodes, dups = Nodes(bin, Options{})
	if len(nodes) != 2 || len(dups) != 1 {
		t.Fatalf("shared node: %d nodes %d dups", len(nodes), len(dups))
	}
	// expanded trees
	imp := ast.NewImport(pos(1, 1), nil, "x", nil)
	imp.Tree = ast.NewTree("x", []ast.Node{ast.NewText(pos(1, 1), []byte("t"), ast.Cut{})}, ast.FormatHTML)
	if n, _ := Nodes(imp, Options{}); len(n) != 3 {
		t.Fatalf("import with tree: %d nodes", len(n))
	}
	if n, _ := Nodes(imp, Options{SkipTrees: true}); len(n) != 1 {
		t.Fatalf("import with SkipTrees: %d nodes", len(n))
	}
}

func TestSharedAndMutate(t *testing.T) {
	a := sample()
	b := sample()
	if s := Shared(a, b, Options{}); len(s) != 0 {
		t.Fatalf("independent trees share %v", s)
	}
	// share one position, one node, one backing array
	b.Position = a.Position
	if s := Shared(a, b, Options{}); len(s) != 1 || !strings.Contains(s[0], "Position") {
		t.Fatalf("shared position: %v", s)
	}
	b = sample()
	b.Lhs[0] = a.Lhs[0]
	if s := Shared(a, b, Options{}); len(s) < 2 { // the identifier and its position
		t.Fatalf("shared node: %v", s)
	}
	b = sample()
	b.Rhs = a.Rhs[:1]
	if s := Shared(a, b, Options{}); len(s) == 0 || !strings.Contains(strings.Join(s, ";"), "backing array") {
		t.Fatalf("shared backing array: %v", s)
	}
	// Mutate changes everything in b and nothing in an independent a
	a, b = sample(), sample()
	before := Fingerprint(a)
	fb := Fingerprint(b)
	if n := Mutate(b); n < 30 {
		t.Fatalf("only %d mutations", n)
	}
	if Fingerprint(a) != before {
		t.Fatalf("mutating an independent tree changed the other")
	}
	if Fingerprint(b) == fb {
		t.Fatalf("Mutate changed nothing")
	}
	// ...and is visible through every kind of sharing
	for name, share := range map[string]func(a, b *ast.Assignment){
		"position":      func(a, b *ast.Assignment) { b.Rhs[0].(*ast.Slicing).Low.(*ast.BasicLiteral).Position = a.Position },
		"node":          func(a, b *ast.Assignment) { b.Rhs[0].(*ast.Slicing).Low = a.Rhs[0].(*ast.Slicing).Low },
		"backing array": func(a, b *ast.Assignment) { b.Rhs = a.Rhs[:1] },
		"text bytes": func(a, b *ast.Assignment) {
			a.Rhs = append(a.Rhs[:1:1], nil)
			_ = b
		},
	} {
		a, b := sample(), sample()
		if name == "text bytes" {
			ta := ast.NewText(pos(1, 1), []byte("hello"), ast.Cut{})
			tb := ast.NewText(pos(1, 1), ta.Text, ast.Cut{})
			before := Fingerprint(ta)
			Mutate(tb)
			if Fingerprint(ta) == before {
				t.Errorf("sharing of %s not visible after Mutate", name)
			}
			continue
		}
		share(a, b)
		before := Fingerprint(a)
		Mutate(b)
		if Fingerprint(a) == before {
			t.Errorf("sharing of %s not visible after Mutate", name)
		}
	}
}
