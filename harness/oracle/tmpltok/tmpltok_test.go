package tmpltok

import "testing"

func TestTokenize(t *testing.T) {
	cases := []struct{ src, want string }{
		{"a{{ 5 }}b", `text"a" show"{{ 5 }}" text"b"`},
		{"{% if x %}a{% end %}", `stmt"{% if x %}" text"a" stmt"{% end %}"`},
		{"{%% a\nb %%}x", `block"{%% a\nb %%}" text"x"`},
		{"{# a {# b #} c #}x", `comment"{# a {# b #} c #}" text"x"`},
		{"{# {{ #}x", `comment"{# {{ #}" text"x"`},
		{`{{ "}}" }}x`, `show"{{ \"}}\" }}" text"x"`},
		{"{{ `}}` }}x", "show\"{{ `}}` }}\" text\"x\""},
		{`{{ '}' }}{{ "\"}}" }}`, `show"{{ '}' }}" show"{{ \"\\\"}}\" }}"`},
		{"{% raw %}a{{ b }}{% end if %}{% end raw %}z", `stmt"{% raw %}" rawbody"a{{ b }}{% end if %}" stmt"{% end raw %}" text"z"`},
		{"{% raw %}a{% end %}z", `stmt"{% raw %}" rawbody"a" stmt"{% end %}" text"z"`},
		{"{% raw doc %}a{% end %}{% end raw %}{% end raw doc %}z", `stmt"{% raw doc %}" rawbody"a{% end %}{% end raw %}" stmt"{% end raw doc %}" text"z"`},
		{"{% raw %}{% end raw %}", `stmt"{% raw %}" stmt"{% end raw %}"`},
		{"#!/bin/x\na", `shebang"#!/bin/x\n" text"a"`},
		{"a#!b", `text"a#!b"`},
		{"{ { % } # a", `text"{ { % } # a"`},
		{"a{", `text"a{"`},
	}
	for _, c := range cases {
		ps, err := Tokenize([]byte(c.src))
		if err != nil {
			t.Errorf("%q: %v", c.src, err)
			continue
		}
		if got := Describe([]byte(c.src), ps); got != c.want {
			t.Errorf("%q:\n got  %s\n want %s", c.src, got, c.want)
		}
		// pieces tile the source
		pos := 0
		for _, p := range ps {
			if p.Start != pos || p.End <= p.Start {
				t.Errorf("%q: pieces do not tile the source at %d", c.src, pos)
			}
			pos = p.End
		}
		if pos != len(c.src) {
			t.Errorf("%q: pieces end at %d", c.src, pos)
		}
	}
	for _, bad := range []string{"{{ 5", "{% a", "{# a", "a #} b", "{% raw %}abc", `{{ "a }}`, "{# {# #}"} {
		if _, err := Tokenize([]byte(bad)); err == nil {
			t.Errorf("%q: expected an error", bad)
		}
	}
}

func TestTokenizeHTML(t *testing.T) {
	cases := []struct{ src, want string }{
		{"a<![CDATA[ {{ 1 }} {# c #} ]]>b{{ 2 }}", `text"a<![CDATA[ {{ 1 }} {# c #} ]]>b" show"{{ 2 }}"`},
		{"]]><![CDATA[x]]><![CDATA[ {{ 1 }} ]]>{{ 2 }}", `text"]]><![CDATA[x]]><![CDATA[ {{ 1 }} ]]>" show"{{ 2 }}"`},
		{"<![CDATA[ {{ 1 }}", `text"<![CDATA[ {{ 1 }}"`},
		{"<![CDATA[]]>{{ 1 }}]]>", `text"<![CDATA[]]>" show"{{ 1 }}" text"]]>"`},
		{"<![CDAT[{{ 1 }}]]>", `text"<![CDAT[" show"{{ 1 }}" text"]]>"`},
	}
	for _, c := range cases {
		ps, err := TokenizeHTML([]byte(c.src))
		if err != nil {
			t.Errorf("%q: %v", c.src, err)
			continue
		}
		if got := Describe([]byte(c.src), ps); got != c.want {
			t.Errorf("%q:\n got  %s\n want %s", c.src, got, c.want)
		}
	}
	if ps, _ := Tokenize([]byte("<![CDATA[{{ 1 }}]]>")); len(ps) != 3 {
		t.Errorf("Tokenize must not know CDATA")
	}
}
