// Package tmpltok is an independent reference tokenizer of Scriggo's template
// syntax, written from the documentation (it shares no code with the lexer of
// /repo). It splits a template source into literal text and template tokens:
//
//	{{ expr }}        show
//	{% stmt %}        statement
//	{%% stmts %%}     statements block
//	{# ... #}         comment (comments nest)
//	{% raw [m] %} … {% end raw [m] %}   raw block: the content is literal
//	#!...\n           shebang line (only at offset 0)
//
// Inside {{ }}, {% %} and {%% %%} Go string, raw string and rune literals are
// skipped, so a terminator inside a literal does not end the token.
package tmpltok

import (
	"bytes"
	"fmt"
	"regexp"
	"strings"
)

// Kind is the kind of a piece.
type Kind int

// Kinds.
const (
	Text Kind = iota
	Show
	Stmt
	Block
	Comment
	Shebang
	RawBody
)

func (k Kind) String() string {
	return [...]string{"text", "show", "stmt", "block", "comment", "shebang", "rawbody"}[k]
}

// Piece is a contiguous part of the source.
type Piece struct {
	Kind       Kind
	Start, End int    // byte offsets, End exclusive
	Code       string // inner code of Show/Stmt/Block (without delimiters)
}

// Tokenize splits src. It returns an error for sources that are not
// well-formed according to the documented syntax (unterminated token, "#}"
// outside a comment).
func Tokenize(src []byte) ([]Piece, error) { return tokenize(src, false) }

// TokenizeHTML is Tokenize for a source in HTML format whose text stays in the
// HTML text context: a CDATA section, from "<![CDATA[" to the first following
// "]]>" (or to the end of the source), is literal text in which no template
// syntax is recognised.
func TokenizeHTML(src []byte) ([]Piece, error) { return tokenize(src, true) }

func tokenize(src []byte, cdata bool) ([]Piece, error) {
	var ps []Piece
	pos := 0
	if len(src) > 1 && src[0] == '#' && src[1] == '!' {
		end := bytes.IndexByte(src, '\n')
		if end < 0 {
			end = len(src)
		} else {
			end++
		}
		ps = append(ps, Piece{Kind: Shebang, Start: 0, End: end})
		pos = end
	}
	textStart := pos
	flush := func(to int, kind Kind) {
		if to > textStart {
			ps = append(ps, Piece{Kind: kind, Start: textStart, End: to})
		}
	}
	for pos < len(src) {
		c := src[pos]
		if cdata && c == '<' && bytes.HasPrefix(src[pos:], []byte("<![CDATA[")) {
			end := bytes.Index(src[pos+9:], []byte("]]>"))
			if end < 0 {
				pos = len(src)
			} else {
				pos += 9 + end + 3
			}
			continue
		}
		if c == '#' && pos+1 < len(src) && src[pos+1] == '}' {
			return nil, fmt.Errorf("offset %d: #} outside a comment", pos)
		}
		if c != '{' || pos+1 >= len(src) {
			pos++
			continue
		}
		switch src[pos+1] {
		case '{':
			flush(pos, Text)
			end, err := scanCode(src, pos+2, "}}")
			if err != nil {
				return nil, err
			}
			ps = append(ps, Piece{Kind: Show, Start: pos, End: end, Code: string(src[pos+2 : end-2])})
			pos, textStart = end, end
		case '%':
			flush(pos, Text)
			if pos+2 < len(src) && src[pos+2] == '%' {
				end, err := scanCode(src, pos+3, "%%}")
				if err != nil {
					return nil, err
				}
				ps = append(ps, Piece{Kind: Block, Start: pos, End: end, Code: string(src[pos+3 : end-3])})
				pos, textStart = end, end
				continue
			}
			end, err := scanCode(src, pos+2, "%}")
			if err != nil {
				return nil, err
			}
			code := string(src[pos+2 : end-2])
			ps = append(ps, Piece{Kind: Stmt, Start: pos, End: end, Code: code})
			pos, textStart = end, end
			if isRaw, marker := RawStatement(code); isRaw {
				// The content is literal up to the end statement of the raw block.
				loc := endRaw(marker).FindIndex(src[pos:])
				if loc == nil {
					return nil, fmt.Errorf("offset %d: raw block not terminated", pos)
				}
				if loc[0] > 0 {
					ps = append(ps, Piece{Kind: RawBody, Start: pos, End: pos + loc[0]})
				}
				s, e := pos+loc[0], pos+loc[1]
				ps = append(ps, Piece{Kind: Stmt, Start: s, End: e, Code: string(src[s+2 : e-2])})
				pos, textStart = e, e
			}
		case '#':
			flush(pos, Text)
			end, err := scanComment(src, pos)
			if err != nil {
				return nil, err
			}
			ps = append(ps, Piece{Kind: Comment, Start: pos, End: end})
			pos, textStart = end, end
		default:
			pos++
		}
	}
	flush(len(src), Text)
	return ps, nil
}

var rawStmt = regexp.MustCompile("^\\s*raw(?:\\s+([A-Za-z_][A-Za-z_0-9]*))?(?:\\s*(?:\"[^\"\\\\\n]*\"|`[^`]*`))?\\s*$")

// RawStatement reports whether the code of a {% %} statement opens a raw block
// and returns its marker.
func RawStatement(code string) (bool, string) {
	m := rawStmt.FindStringSubmatch(code)
	if m == nil {
		return false, ""
	}
	return true, m[1]
}

// endRaw returns the pattern of the statement that ends a raw block.
// Without a marker: {% end %} or {% end raw %}. With a marker m: {% end raw m %}.
func endRaw(marker string) *regexp.Regexp {
	if marker == "" {
		return regexp.MustCompile(`\{% *end(?: +raw)? *%\}`)
	}
	return regexp.MustCompile(`\{% *end +raw +` + regexp.QuoteMeta(marker) + ` *%\}`)
}

// scanCode scans Go-like code from pos up to and including the terminator and
// returns the offset after it.
func scanCode(src []byte, pos int, term string) (int, error) {
	start := pos
	for pos < len(src) {
		switch c := src[pos]; c {
		case '"', '\'':
			pos++
			for {
				if pos >= len(src) || src[pos] == '\n' {
					return 0, fmt.Errorf("offset %d: literal not terminated", start)
				}
				if src[pos] == '\\' {
					pos += 2
					continue
				}
				if src[pos] == c {
					pos++
					break
				}
				pos++
			}
		case '`':
			i := bytes.IndexByte(src[pos+1:], '`')
			if i < 0 {
				return 0, fmt.Errorf("offset %d: raw string not terminated", start)
			}
			pos += i + 2
		default:
			if bytes.HasPrefix(src[pos:], []byte(term)) {
				return pos + len(term), nil
			}
			pos++
		}
	}
	return 0, fmt.Errorf("offset %d: %q not found", start, term)
}

// scanComment scans a (possibly nested) comment starting at pos.
func scanComment(src []byte, pos int) (int, error) {
	depth := 0
	i := pos
	for i+1 < len(src) {
		switch {
		case src[i] == '{' && src[i+1] == '#':
			depth++
			i += 2
		case src[i] == '#' && src[i+1] == '}':
			depth--
			i += 2
			if depth == 0 {
				return i, nil
			}
		default:
			i++
		}
	}
	return 0, fmt.Errorf("offset %d: comment not terminated", pos)
}

// Describe prints pieces compactly (for witnesses and tests).
func Describe(src []byte, ps []Piece) string {
	var b strings.Builder
	for _, p := range ps {
		fmt.Fprintf(&b, "%s%q ", p.Kind, src[p.Start:p.End])
	}
	return strings.TrimSpace(b.String())
}
