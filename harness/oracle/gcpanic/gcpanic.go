// Package gcpanic is the gc reference for panic/recover/Stop/Fatal programs: it
// builds generated programs with the pinned gc toolchain, runs them and parses the
// crash header ("panic: A [recovered]\n\tpanic: B") and the traceback printed by the
// gc runtime into a chain of (text, recovered flag, source line).
//
// It runs only in the driver process and never imports scriggo.
package gcpanic

import (
	"bytes"
	"fmt"
	"os"
	"os/exec"
	"path/filepath"
	"regexp"
	"strconv"
	"strings"
)

// Entry is one panic of a chain.
type Entry struct {
	Text      string `json:"text"`
	Recovered bool   `json:"recovered"`
	Line      int    `json:"line"` // 0 = unknown
	// Collapsed: the entry comes from "X [recovered, repanicked]", which the gc
	// runtime prints for two adjacent panics with the identical value whether or not
	// the first was recovered: its Recovered flag is known only if the value of the
	// panic is unique in the program.
	Collapsed bool `json:"collapsed,omitempty"`
	// RecUnknown: the entry is one of the panics hidden behind a "[recovered,
	// repanicked]" line (the runtime prints neither their text again nor their
	// flags): its Recovered flag is not known.
	RecUnknown bool `json:"rec_unknown,omitempty"`
}

// Expected is the observable behaviour of one program under gc.
type Expected struct {
	Events  []string `json:"events"`
	Outcome string   `json:"outcome"` // "ok" | "stop" | "fatal" | "panic"
	Idx     int      `json:"idx"`     // argument of Stop / Fatal
	Chain   []Entry  `json:"chain"`   // oldest panic first (the order of the crash header)
	LinesOK bool     `json:"lines_ok"`
	// Approx: the header has more than one "[recovered, repanicked]" line, so the
	// number of panics behind each of them is not known: only the newest panic (last
	// entry) and its line are reliable.
	Approx bool `json:"approx,omitempty"`
}

// ParseHeader parses the crash header of the gc runtime, one entry per line. A line
// "X [recovered, repanicked]" (go1.23+) stands for two or more adjacent panics with the
// identical value, of which only the first is printed; it is marked Collapsed and is
// expanded by Interpret, which knows the number of panics from the traceback.
func ParseHeader(stderr string) ([]Entry, bool) {
	lines := strings.Split(stderr, "\n")
	var chain []Entry
	started := false
	for _, l := range lines {
		var text string
		switch {
		case !started && strings.HasPrefix(l, "panic: "):
			text = l[len("panic: "):]
			started = true
		case started && strings.HasPrefix(l, "\tpanic: "):
			text = l[len("\tpanic: "):]
		case started && strings.HasPrefix(l, "[signal "):
			continue
		case started:
			return chain, len(chain) > 0
		default:
			continue
		}
		switch {
		case strings.HasSuffix(text, " [recovered, repanicked]"):
			t := strings.TrimSuffix(text, " [recovered, repanicked]")
			chain = append(chain, Entry{Text: t, Recovered: true, Collapsed: true})
		case strings.HasSuffix(text, " [recovered]"):
			chain = append(chain, Entry{Text: strings.TrimSuffix(text, " [recovered]"), Recovered: true})
		default:
			chain = append(chain, Entry{Text: text})
		}
	}
	return chain, len(chain) > 0
}

// Expand replaces every Collapsed header line by the panics it stands for. n is the
// number of panics on the stack (from the traceback). With one collapsed line its
// multiplicity is n minus the other lines; with several, each is expanded to two
// panics and approx is reported.
func Expand(header []Entry, n int) (chain []Entry, approx bool) {
	collapsed := 0
	for _, h := range header {
		if h.Collapsed {
			collapsed++
		}
	}
	mult := 2
	if collapsed == 1 {
		if m := n - (len(header) - 1); m >= 2 {
			mult = m
		} else {
			approx = true
		}
	} else if collapsed > 1 {
		approx = true
	}
	for _, h := range header {
		chain = append(chain, h)
		if h.Collapsed {
			for i := 1; i < mult; i++ {
				chain = append(chain, Entry{Text: h.Text, RecUnknown: true})
			}
		}
	}
	return chain, approx
}

var fileLine = regexp.MustCompile(`^\t(.+):(\d+)( \+0x[0-9a-f]+)?$`)

// PanicLines returns, newest panic first, the line in progFile of the statement that
// raised every panic still on the stack of goroutine 1: the traceback starts in the
// frame that raised the newest panic; every "panic(" frame below it is the runtime
// call of an older panic (it is still on the stack because it runs the deferred
// calls), and the innermost frame of the program below it is the statement that
// raised that panic.
func PanicLines(stderr, progFile string) []int {
	lines := strings.Split(stderr, "\n")
	i := 0
	for i < len(lines) && !strings.HasPrefix(lines[i], "goroutine ") {
		i++
	}
	var out []int
	pending := 1
	for i++; i+1 < len(lines); i++ {
		fn := lines[i]
		if fn == "" {
			break // end of the first goroutine
		}
		m := fileLine.FindStringSubmatch(lines[i+1])
		if m == nil {
			continue
		}
		i++
		if strings.HasPrefix(fn, "panic(") {
			pending++
			continue
		}
		if pending > 0 && m[1] == progFile {
			n, _ := strconv.Atoi(m[2])
			for ; pending > 0; pending-- {
				out = append(out, n)
			}
		}
	}
	return out
}

// Ref is a built reference binary.
type Ref struct {
	Dir string
	Exe string
	n   int
}

// Build writes module verifref (package pkg from pkgSrc, package progs with one
// file per program, a dispatching main) under dir and builds it with the go command
// goBin. progs[i] must be a file of package progs whose entry point is P<i>_main
// (see faultprog.GcProgram).
func Build(goBin, dir, pkgSrc string, progs []string) (*Ref, error) {
	if err := os.MkdirAll(filepath.Join(dir, "pkg"), 0o755); err != nil {
		return nil, err
	}
	w := func(rel, content string) error {
		p := filepath.Join(dir, rel)
		os.MkdirAll(filepath.Dir(p), 0o755)
		return os.WriteFile(p, []byte(content), 0o644)
	}
	if err := w("go.mod", "module verifref\n\ngo 1.25.0\n"); err != nil {
		return nil, err
	}
	w("pkg/pkg.go", pkgSrc)
	var main bytes.Buffer
	main.WriteString("package main\n\nimport (\n\t\"os\"\n\t\"strconv\"\n\n\t\"verifref/progs\"\n)\n\nvar list = []func(){\n")
	for i, src := range progs {
		w(fmt.Sprintf("progs/p%d.go", i), src)
		fmt.Fprintf(&main, "\tprogs.P%d_main,\n", i)
	}
	main.WriteString("}\n\nfunc main() {\n\tn, _ := strconv.Atoi(os.Args[1])\n\tlist[n]()\n\tos.Stdout.WriteString(\"END\\n\")\n}\n")
	w("main.go", main.String())
	exe := filepath.Join(dir, "ref.bin")
	cmd := exec.Command(goBin, "build", "-o", exe, ".")
	cmd.Dir = dir
	cmd.Env = append(os.Environ(), "GOFLAGS=-mod=mod", "GOWORK=off")
	if out, err := cmd.CombinedOutput(); err != nil {
		return nil, fmt.Errorf("gc reference build failed: %v\n%s", err, out)
	}
	return &Ref{Dir: dir, Exe: exe, n: len(progs)}, nil
}

// ProgFile returns the path of program i's source file as it appears in tracebacks.
func (r *Ref) ProgFile(i int) string {
	return filepath.Join(r.Dir, "progs", fmt.Sprintf("p%d.go", i))
}

// Run executes program i and interprets what happened.
func (r *Ref) Run(i int) (Expected, error) {
	cmd := exec.Command(r.Exe, strconv.Itoa(i))
	var stdout, stderr bytes.Buffer
	cmd.Stdout = &stdout
	cmd.Stderr = &stderr
	cmd.Env = append(os.Environ(), "GOTRACEBACK=single", "GOMAXPROCS=1")
	err := cmd.Run()
	return Interpret(stdout.String(), stderr.String(), err == nil, r.ProgFile(i))
}

// Interpret turns the output of a reference run into an Expected.
func Interpret(stdout, stderr string, exitOK bool, progFile string) (Expected, error) {
	var e Expected
	e.Events = []string{}
	for _, l := range strings.Split(stdout, "\n") {
		if l != "" {
			e.Events = append(e.Events, l)
		}
	}
	last := ""
	if len(e.Events) > 0 {
		last = e.Events[len(e.Events)-1]
	}
	switch {
	case exitOK && last == "END":
		e.Outcome = "ok"
		e.Events = e.Events[:len(e.Events)-1]
	case exitOK && strings.HasPrefix(last, "STOP"):
		e.Outcome = "stop"
		e.Idx, _ = strconv.Atoi(last[4:])
	case exitOK && strings.HasPrefix(last, "FATAL"):
		e.Outcome = "fatal"
		e.Idx, _ = strconv.Atoi(last[5:])
	case !exitOK:
		chain, ok := ParseHeader(stderr)
		if !ok {
			return e, fmt.Errorf("gc reference: cannot parse the crash header:\n%s", stderr)
		}
		e.Outcome = "panic"
		lines := PanicLines(stderr, progFile)
		e.Chain, e.Approx = Expand(chain, len(lines))
		if len(lines) == len(e.Chain) && !e.Approx {
			e.LinesOK = true
			for k := range e.Chain {
				e.Chain[k].Line = lines[len(lines)-1-k]
			}
		} else if len(lines) > 0 && len(e.Chain) > 0 {
			// the newest panic is the first frame of the traceback
			e.Chain[len(e.Chain)-1].Line = lines[0]
		}
	default:
		return e, fmt.Errorf("gc reference: unexpected end of output %q", last)
	}
	return e, nil
}
