package gcpanic

import (
	"reflect"
	"testing"
)

const crash1 = "panic: runtime error: index out of range [5] with length 1\n" +
	"\tpanic: main.S(\"first-b\") [recovered]\n" +
	"\tpanic: second\n" +
	"\n" +
	"goroutine 1 [running]:\n" +
	"verifref/p3.Main.func1()\n" +
	"\t/tmp/x/p3/p3.go:32 +0x25\n" +
	"verifref/p3.Main.func0()\n" +
	"\t/tmp/x/p3/p3.go:99 +0x25\n" +
	"panic({0x4772a0?, 0x4a4568?})\n" +
	"\t/go/src/runtime/panic.go:783 +0x132\n" +
	"verifref/pkg.PanicEnv(...)\n" +
	"\t/tmp/x/pkg/pkg.go:50\n" +
	"verifref/p3.g.func2()\n" +
	"\t/tmp/x/p3/p3.go:23 +0x25\n" +
	"panic({0x47fba0?, 0xc000018108?})\n" +
	"\t/go/src/runtime/panic.go:783 +0x132\n" +
	"verifref/p3.g()\n" +
	"\t/tmp/x/p3/p3.go:27 +0x4a\n" +
	"verifref/p3.Main()\n" +
	"\t/tmp/x/p3/p3.go:35 +0x45\n" +
	"main.main()\n" +
	"\t/tmp/x/main.go:12 +0x1\n" +
	"exit status 2\n"

func TestParse(t *testing.T) {
	chain, ok := ParseHeader(crash1)
	want := []Entry{{Text: "runtime error: index out of range [5] with length 1"}, {Text: "main.S(\"first-b\")", Recovered: true}, {Text: "second"}}
	if !ok || !reflect.DeepEqual(chain, want) {
		t.Fatalf("got %#v", chain)
	}
	lines := PanicLines(crash1, "/tmp/x/p3/p3.go")
	if !reflect.DeepEqual(lines, []int{32, 23, 27}) {
		t.Fatalf("lines %v", lines)
	}
	e, err := Interpret("T1\nT2\n", crash1, false, "/tmp/x/p3/p3.go")
	if err != nil || e.Outcome != "panic" || !e.LinesOK || len(e.Events) != 2 || e.Chain[0].Line != 27 || e.Chain[2].Line != 32 {
		t.Fatalf("%+v %v", e, err)
	}
}

func TestRepanicked(t *testing.T) {
	s := "panic: assignment to entry in nil map [recovered, repanicked]\n\tpanic: +1.500000e+000\n[signal SIGSEGV: x]\n\ngoroutine 1 [running]:\n"
	hdr, ok := ParseHeader(s)
	want := []Entry{{Text: "assignment to entry in nil map", Recovered: true, Collapsed: true}, {Text: "+1.500000e+000"}}
	if !ok || !reflect.DeepEqual(hdr, want) {
		t.Fatalf("got %#v", hdr)
	}
	// 4 panics on the stack: the collapsed line stands for 3 of them
	chain, approx := Expand(hdr, 4)
	if approx || len(chain) != 4 || !chain[0].Recovered || !chain[1].RecUnknown || !chain[2].RecUnknown || chain[3].Text != "+1.500000e+000" {
		t.Fatalf("%#v %v", chain, approx)
	}
	// two collapsed lines: approximate
	_, approx = Expand([]Entry{{Text: "a", Collapsed: true}, {Text: "b", Collapsed: true}}, 5)
	if !approx {
		t.Fatal("want approx")
	}
	// fewer frames than lines: approximate
	if _, approx = Expand(hdr, 1); !approx {
		t.Fatal("want approx")
	}
}

func TestOutcomes(t *testing.T) {
	e, err := Interpret("T1\nSTOP2\n", "", true, "x")
	if err != nil || e.Outcome != "stop" || e.Idx != 2 || len(e.Events) != 2 {
		t.Fatalf("%+v %v", e, err)
	}
	e, err = Interpret("T1\nEND\n", "", true, "x")
	if err != nil || e.Outcome != "ok" || len(e.Events) != 1 {
		t.Fatalf("%+v %v", e, err)
	}
	e, err = Interpret("FATAL3\n", "", true, "x")
	if err != nil || e.Outcome != "fatal" || e.Idx != 3 {
		t.Fatalf("%+v %v", e, err)
	}
	if _, err = Interpret("T1\n", "", true, "x"); err == nil {
		t.Fatal("want error")
	}
}
