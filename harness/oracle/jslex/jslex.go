// Package jslex is a lexer for the ECMAScript lexical grammar (ES2020 + Annex B
// HTML-like comments). It is an oracle: it is written from the specification
// (ECMA-262 §12 "Lexical Grammar"), knows nothing about scriggo, and is kept
// deliberately literal.
//
// The one place where the lexical grammar needs syntactic context — whether a
// '/' starts a regular-expression literal or is a division punctuator — is
// decided from the previous significant token (the classic rule: after an
// expression-ending token it is a division, otherwise a regular expression).
// The rule is wrong only after ')' and '}' that end a statement head or a block
// (if (x) /re/.test(y)); workloads judged with this lexer must avoid those.
package jslex

import (
	"strings"
	"unicode"
	"unicode/utf8"
)

// Kind is a token kind.
type Kind int

const (
	EOF Kind = iota
	Error
	LineComment    // // ...   (also Annex B <!-- ... and --> ... in scripts)
	BlockComment   // /* ... */
	Ident          // IdentifierName that is not a reserved word
	Keyword        // reserved word (incl. null, true, false)
	PrivateName    // #name
	Punct          // punctuator
	Numeric        // numeric literal (incl. BigInt)
	String         // '...' or "..."
	Template       // `...` without substitutions
	TemplateHead   // `...${
	TemplateMiddle // }...${
	TemplateTail   // }...`
	Regex          // /body/flags
	Hashbang       // #!... at the very start
)

var kindNames = [...]string{"EOF", "Error", "LineComment", "BlockComment", "Ident", "Keyword", "PrivateName", "Punct",
	"Numeric", "String", "Template", "TemplateHead", "TemplateMiddle", "TemplateTail", "Regex", "Hashbang"}

func (k Kind) String() string { return kindNames[k] }

// Token is a lexical token.
type Token struct {
	Kind  Kind
	Text  string // source text of the token
	Start int    // byte offset
	NL    bool   // a line terminator precedes the token (after the previous token)
	Msg   string // for Error tokens
}

// Options selects the goal.
type Options struct {
	Module bool // module goal: no Annex B HTML-like comments
}

var reserved = map[string]bool{}

func init() {
	for _, w := range strings.Fields(`break case catch class const continue debugger default delete do else enum export
		extends false finally for function if import in instanceof new null return super switch this throw true try
		typeof var void while with yield await`) {
		reserved[w] = true
	}
}

// keywords after which a '/' is a division (they end an expression)
var exprKeyword = map[string]bool{"this": true, "super": true, "null": true, "true": true, "false": true}

var puncts = []string{
	">>>=", "...", "===", "!==", "**=", "<<=", ">>=", ">>>", "&&=", "||=", "??=",
	"=>", "==", "!=", "<=", ">=", "&&", "||", "??", "?.", "++", "--", "+=", "-=", "*=", "/=", "%=", "&=", "|=", "^=", "<<", ">>", "**",
	"{", "}", "(", ")", "[", "]", ";", ",", "<", ">", "+", "-", "*", "/", "%", "&", "|", "^", "!", "~", "?", ":", "=", ".", "@",
}

func isLineTerminator(r rune) bool { return r == '\n' || r == '\r' || r == 0x2028 || r == 0x2029 }

func isWhiteSpace(r rune) bool {
	switch r {
	case '\t', '\v', '\f', ' ', 0xA0, 0xFEFF:
		return true
	}
	return r > 0x7f && unicode.Is(unicode.Zs, r)
}

func isIDStart(r rune) bool {
	if r < utf8.RuneSelf {
		return 'a' <= r && r <= 'z' || 'A' <= r && r <= 'Z' || r == '$' || r == '_'
	}
	return unicode.IsLetter(r) || unicode.Is(unicode.Nl, r) || unicode.Is(unicode.Other_ID_Start, r)
}

func isIDPart(r rune) bool {
	if r < utf8.RuneSelf {
		return 'a' <= r && r <= 'z' || 'A' <= r && r <= 'Z' || r == '$' || r == '_' || '0' <= r && r <= '9'
	}
	return unicode.IsLetter(r) || unicode.Is(unicode.Nl, r) || unicode.Is(unicode.Other_ID_Start, r) ||
		unicode.Is(unicode.Mn, r) || unicode.Is(unicode.Mc, r) || unicode.Is(unicode.Nd, r) || unicode.Is(unicode.Pc, r) ||
		unicode.Is(unicode.Other_ID_Continue, r) || r == 0x200C || r == 0x200D
}

type lexer struct {
	src    string
	pos    int
	opts   Options
	toks   []Token
	prev   Kind   // previous significant token kind (EOF = none)
	prevTx string // its text
	nl     bool   // line terminator seen since the previous token
	// braces: one entry per open '{'; true if it is a template substitution "${"
	braces          []bool
	lineStartOnlyWS bool // only white space / comments since the start of the line (for -->)
}

// Tokenize returns the tokens of src, comments included, white space and line
// terminators excluded. Lexing stops at the first error; the last token is
// then an Error token. Otherwise the last token is EOF.
func Tokenize(src string, opts Options) []Token {
	l := &lexer{src: src, opts: opts, lineStartOnlyWS: true}
	l.run()
	return l.toks
}

func (l *lexer) emit(k Kind, start int) {
	t := Token{Kind: k, Text: l.src[start:l.pos], Start: start, NL: l.nl}
	l.toks = append(l.toks, t)
	l.nl = false
	if k != LineComment && k != BlockComment {
		l.prev, l.prevTx = k, t.Text
		l.lineStartOnlyWS = false
	}
}

func (l *lexer) fail(start int, msg string) {
	l.toks = append(l.toks, Token{Kind: Error, Text: l.src[start:], Start: start, NL: l.nl, Msg: msg})
}

func (l *lexer) peek() (rune, int) {
	if l.pos >= len(l.src) {
		return -1, 0
	}
	c := l.src[l.pos]
	if c < utf8.RuneSelf {
		return rune(c), 1
	}
	return utf8.DecodeRuneInString(l.src[l.pos:])
}

func (l *lexer) regexAllowed() bool {
	switch l.prev {
	case EOF, Hashbang:
		return true
	case Punct:
		switch l.prevTx {
		case ")", "]", "}", "++", "--":
			return false
		}
		return true
	case Keyword:
		return !exprKeyword[l.prevTx]
	case TemplateHead, TemplateMiddle:
		return true
	}
	return false // Ident, PrivateName, Numeric, String, Template, TemplateTail, Regex
}

func (l *lexer) run() {
	if strings.HasPrefix(l.src, "#!") {
		start := 0
		l.skipToLineEnd()
		l.emit(Hashbang, start)
	}
	for {
		r, size := l.peek()
		if r < 0 {
			if len(l.braces) > 0 {
				// unbalanced braces are a syntactic matter, except inside a template
				for _, t := range l.braces {
					if t {
						l.fail(l.pos, "unterminated template literal")
						return
					}
				}
			}
			l.emit(EOF, l.pos)
			return
		}
		start := l.pos
		switch {
		case isLineTerminator(r):
			l.pos += size
			l.nl = true
			l.lineStartOnlyWS = true
			continue
		case isWhiteSpace(r):
			l.pos += size
			continue
		case r == '/':
			if strings.HasPrefix(l.src[l.pos:], "//") {
				l.skipToLineEnd()
				l.emit(LineComment, start)
				continue
			}
			if strings.HasPrefix(l.src[l.pos:], "/*") {
				end := strings.Index(l.src[l.pos+2:], "*/")
				if end < 0 {
					l.fail(start, "unterminated comment")
					return
				}
				body := l.src[l.pos+2 : l.pos+2+end]
				l.pos += 2 + end + 2
				hadNL := strings.ContainsAny(body, "\n\r\u2028\u2029")
				onlyWS := l.lineStartOnlyWS
				l.emit(BlockComment, start)
				if hadNL {
					l.nl = true
					l.lineStartOnlyWS = true
				} else {
					l.lineStartOnlyWS = onlyWS
				}
				continue
			}
			if l.regexAllowed() {
				if !l.regex() {
					return
				}
				continue
			}
			if strings.HasPrefix(l.src[l.pos:], "/=") {
				l.pos += 2
			} else {
				l.pos++
			}
			l.emit(Punct, start)
		case r == '<' && !l.opts.Module && strings.HasPrefix(l.src[l.pos:], "<!--"):
			// Annex B.1.3 SingleLineHTMLOpenComment
			l.skipToLineEnd()
			l.emit(LineComment, start)
		case r == '-' && !l.opts.Module && l.lineStartOnlyWS && strings.HasPrefix(l.src[l.pos:], "-->"):
			// Annex B.1.3 SingleLineHTMLCloseComment (only at the start of a line)
			l.skipToLineEnd()
			l.emit(LineComment, start)
		case r == '"' || r == '\'':
			if !l.str(byte(r)) {
				return
			}
		case r == '`':
			l.pos++
			if !l.template(start, true) {
				return
			}
		case '0' <= r && r <= '9' || r == '.' && l.pos+1 < len(l.src) && '0' <= l.src[l.pos+1] && l.src[l.pos+1] <= '9':
			if !l.number() {
				return
			}
		case r == '#':
			l.pos++
			if !l.identName() {
				l.pos = start
				l.fail(start, "invalid character '#'")
				return
			}
			l.emit(PrivateName, start)
		case isIDStart(r) || r == '\\':
			if !l.identName() {
				l.fail(start, "invalid identifier escape")
				return
			}
			text := l.src[start:l.pos]
			if reserved[text] {
				l.emit(Keyword, start)
			} else {
				l.emit(Ident, start)
			}
		case r == '}':
			if n := len(l.braces); n > 0 {
				isTpl := l.braces[n-1]
				l.braces = l.braces[:n-1]
				if isTpl {
					l.pos++
					if !l.template(start, false) {
						return
					}
					continue
				}
			}
			l.pos++
			l.emit(Punct, start)
		case r == '{':
			l.braces = append(l.braces, false)
			l.pos++
			l.emit(Punct, start)
		default:
			matched := false
			for _, p := range puncts {
				if strings.HasPrefix(l.src[l.pos:], p) {
					if p == "?." && l.pos+2 < len(l.src) && '0' <= l.src[l.pos+2] && l.src[l.pos+2] <= '9' {
						continue // a?.5:1 is a conditional
					}
					l.pos += len(p)
					l.emit(Punct, start)
					matched = true
					break
				}
			}
			if !matched {
				l.fail(start, "invalid character")
				return
			}
		}
	}
}

func (l *lexer) skipToLineEnd() {
	for l.pos < len(l.src) {
		r, size := l.peek()
		if isLineTerminator(r) {
			return
		}
		l.pos += size
	}
}

// identName scans an IdentifierName at pos (with \uXXXX and \u{X} escapes).
func (l *lexer) identName() bool {
	first := true
	for l.pos < len(l.src) {
		r, size := l.peek()
		if r == '\\' {
			cp, n, ok := l.unicodeEscape(l.pos)
			if !ok {
				return false
			}
			if first && !isIDStart(cp) || !first && !isIDPart(cp) {
				return false
			}
			l.pos += n
			first = false
			continue
		}
		if first && !isIDStart(r) || !first && !isIDPart(r) {
			break
		}
		l.pos += size
		first = false
	}
	return !first
}

// unicodeEscape parses \uXXXX or \u{X...} at p.
func (l *lexer) unicodeEscape(p int) (rune, int, bool) {
	s := l.src[p:]
	if !strings.HasPrefix(s, `\u`) {
		return 0, 0, false
	}
	if strings.HasPrefix(s, `\u{`) {
		end := strings.IndexByte(s, '}')
		if end < 0 || end == 3 {
			return 0, 0, false
		}
		var v rune
		for _, c := range s[3:end] {
			d := hexVal(c)
			if d < 0 {
				return 0, 0, false
			}
			v = v*16 + rune(d)
			if v > 0x10FFFF {
				return 0, 0, false
			}
		}
		return v, end + 1, true
	}
	if len(s) < 6 {
		return 0, 0, false
	}
	var v rune
	for _, c := range s[2:6] {
		d := hexVal(c)
		if d < 0 {
			return 0, 0, false
		}
		v = v*16 + rune(d)
	}
	return v, 6, true
}

func hexVal(c rune) int {
	switch {
	case '0' <= c && c <= '9':
		return int(c - '0')
	case 'a' <= c && c <= 'f':
		return int(c-'a') + 10
	case 'A' <= c && c <= 'F':
		return int(c-'A') + 10
	}
	return -1
}

func (l *lexer) digits(ok func(byte) bool) int {
	n := 0
	for l.pos < len(l.src) {
		c := l.src[l.pos]
		if ok(c) {
			n++
			l.pos++
		} else if c == '_' && n > 0 && l.pos+1 < len(l.src) && ok(l.src[l.pos+1]) {
			l.pos++
		} else {
			break
		}
	}
	return n
}

func isDec(c byte) bool { return '0' <= c && c <= '9' }
func isHex(c byte) bool { return hexVal(rune(c)) >= 0 }
func isOct(c byte) bool { return '0' <= c && c <= '7' }
func isBin(c byte) bool { return c == '0' || c == '1' }

func (l *lexer) number() bool {
	start := l.pos
	s := l.src
	bigOK := true
	if s[l.pos] == '0' && l.pos+1 < len(s) && strings.IndexByte("xXoObB", s[l.pos+1]) >= 0 {
		var f func(byte) bool
		switch s[l.pos+1] {
		case 'x', 'X':
			f = isHex
		case 'o', 'O':
			f = isOct
		default:
			f = isBin
		}
		l.pos += 2
		if l.digits(f) == 0 {
			l.pos = start
			l.fail(start, "missing digits after radix prefix")
			return false
		}
	} else {
		if s[l.pos] != '.' {
			legacyOctal := s[l.pos] == '0' && l.pos+1 < len(s) && isDec(s[l.pos+1])
			l.digits(isDec)
			if legacyOctal {
				bigOK = false
			}
		}
		if l.pos < len(s) && s[l.pos] == '.' {
			bigOK = false
			l.pos++
			l.digits(isDec)
		}
		if l.pos < len(s) && (s[l.pos] == 'e' || s[l.pos] == 'E') {
			p := l.pos + 1
			if p < len(s) && (s[p] == '+' || s[p] == '-') {
				p++
			}
			if p < len(s) && isDec(s[p]) {
				bigOK = false
				l.pos = p
				l.digits(isDec)
			} else {
				l.pos = start
				l.fail(start, "missing exponent digits")
				return false
			}
		}
	}
	if bigOK && l.pos < len(s) && s[l.pos] == 'n' {
		l.pos++
	}
	// "The SourceCharacter immediately following a NumericLiteral must not be an
	// IdentifierStart or DecimalDigit."
	if r, _ := l.peek(); r >= 0 && (isIDStart(r) || '0' <= r && r <= '9' || r == '\\') {
		l.pos = start
		l.fail(start, "identifier starts immediately after numeric literal")
		return false
	}
	l.emit(Numeric, start)
	return true
}

func (l *lexer) str(quote byte) bool {
	start := l.pos
	l.pos++
	for {
		if l.pos >= len(l.src) {
			l.pos = start
			l.fail(start, "unterminated string literal")
			return false
		}
		c := l.src[l.pos]
		switch {
		case c == quote:
			l.pos++
			l.emit(String, start)
			return true
		case c == '\\':
			l.pos++
			if l.pos >= len(l.src) {
				l.pos = start
				l.fail(start, "unterminated string literal")
				return false
			}
			r, size := l.peek()
			if r == '\r' && l.pos+1 < len(l.src) && l.src[l.pos+1] == '\n' {
				size = 2
			}
			switch r {
			case 'x':
				if l.pos+2 >= len(l.src) || !isHex(l.src[l.pos+1]) || !isHex(l.src[l.pos+2]) {
					l.pos = start
					l.fail(start, "invalid hexadecimal escape sequence")
					return false
				}
			case 'u':
				if _, _, ok := l.unicodeEscape(l.pos - 1); !ok {
					l.pos = start
					l.fail(start, "invalid Unicode escape sequence")
					return false
				}
			}
			l.pos += size
		case c == '\n' || c == '\r':
			l.pos = start
			l.fail(start, "line terminator in string literal")
			return false
		default:
			// U+2028 and U+2029 are allowed in string literals since ES2019
			l.pos++
		}
	}
}

// template scans template characters up to ` or ${. The opening ` or } has
// already been consumed; start is its offset.
func (l *lexer) template(start int, head bool) bool {
	for {
		if l.pos >= len(l.src) {
			l.pos = start
			l.fail(start, "unterminated template literal")
			return false
		}
		c := l.src[l.pos]
		switch {
		case c == '`':
			l.pos++
			if head {
				l.emit(Template, start)
			} else {
				l.emit(TemplateTail, start)
			}
			return true
		case c == '$' && l.pos+1 < len(l.src) && l.src[l.pos+1] == '{':
			l.pos += 2
			l.braces = append(l.braces, true)
			if head {
				l.emit(TemplateHead, start)
			} else {
				l.emit(TemplateMiddle, start)
			}
			return true
		case c == '\\':
			l.pos++
			if l.pos < len(l.src) {
				_, size := l.peek()
				l.pos += size
			}
		default:
			l.pos++
		}
	}
}

func (l *lexer) regex() bool {
	start := l.pos
	l.pos++ // '/'
	inClass := false
	for {
		r, size := l.peek()
		if r < 0 || isLineTerminator(r) {
			l.pos = start
			l.fail(start, "unterminated regular expression literal")
			return false
		}
		l.pos += size
		switch {
		case r == '\\':
			r2, size2 := l.peek()
			if r2 < 0 || isLineTerminator(r2) {
				l.pos = start
				l.fail(start, "unterminated regular expression literal")
				return false
			}
			l.pos += size2
		case r == '[':
			inClass = true
		case r == ']':
			inClass = false
		case r == '/' && !inClass:
			// flags
			for l.pos < len(l.src) {
				r, size := l.peek()
				if !isIDPart(r) {
					break
				}
				l.pos += size
			}
			l.emit(Regex, start)
			return true
		}
	}
}
