package jslex

import (
	"strings"
	"testing"
)

func render(toks []Token) string {
	var b strings.Builder
	for i, t := range toks {
		if i > 0 {
			b.WriteByte(' ')
		}
		switch t.Kind {
		case EOF:
			b.WriteString("EOF")
		case Error:
			b.WriteString("ERR")
		default:
			b.WriteString(t.Kind.String() + "(" + t.Text + ")")
		}
	}
	return b.String()
}

func TestTokens(t *testing.T) {
	tests := []struct {
		src, want string
		module    bool
	}{
		{"", "EOF", false},
		{"var x = 1;", "Keyword(var) Ident(x) Punct(=) Numeric(1) Punct(;) EOF", false},
		{"a=b/c/d", "Ident(a) Punct(=) Ident(b) Punct(/) Ident(c) Punct(/) Ident(d) EOF", false},
		{"a = /c/g.test(s)", "Ident(a) Punct(=) Regex(/c/g) Punct(.) Ident(test) Punct(() Ident(s) Punct()) EOF", false},
		{`x = /"/; y = 1`, `Ident(x) Punct(=) Regex(/"/) Punct(;) Ident(y) Punct(=) Numeric(1) EOF`, false},
		{`x = /[/"]/; y`, `Ident(x) Punct(=) Regex(/[/"]/) Punct(;) Ident(y) EOF`, false},
		{`x = /a\/b/i`, `Ident(x) Punct(=) Regex(/a\/b/i) EOF`, false},
		{"x = 4 / 2 / 1", "Ident(x) Punct(=) Numeric(4) Punct(/) Numeric(2) Punct(/) Numeric(1) EOF", false},
		{"f(a) / 2", "Ident(f) Punct(() Ident(a) Punct()) Punct(/) Numeric(2) EOF", false},
		{"a[0] / 2 /1", "Ident(a) Punct([) Numeric(0) Punct(]) Punct(/) Numeric(2) Punct(/) Numeric(1) EOF", false},
		{"return /x/", "Keyword(return) Regex(/x/) EOF", false},
		{"typeof /x/", "Keyword(typeof) Regex(/x/) EOF", false},
		{"this / 2", "Keyword(this) Punct(/) Numeric(2) EOF", false},
		{"x /= 2", "Ident(x) Punct(/=) Numeric(2) EOF", false},
		{"x = /=/", "Ident(x) Punct(=) Regex(/=/) EOF", false},
		{"(/x/)", "Punct(() Regex(/x/) Punct()) EOF", false},
		{"a\n/x/g", "Ident(a) Punct(/) Ident(x) Punct(/) Ident(g) EOF", false},
		{"/x", "ERR", false},
		{"/x\n/", "ERR", false},
		{"/[x/", "ERR", false},
		{`"a" 'b'`, `String("a") String('b') EOF`, false},
		{`"a\"b" + 'c\'d'`, `String("a\"b") Punct(+) String('c\'d') EOF`, false},
		{`"a\\" + b`, `String("a\\") Punct(+) Ident(b) EOF`, false},
		{"\"a\\\nb\"", "String(\"a\\\nb\") EOF", false},
		{"\"a\\\r\nb\"", "String(\"a\\\r\nb\") EOF", false},
		{"\"a\nb\"", "ERR", false},
		{"x = \"a\rb\"", "Ident(x) Punct(=) ERR", false},
		{"\"a\u2028b\"", "String(\"a\u2028b\") EOF", false},
		{`"abc`, "ERR", false},
		{`"\x4"`, "ERR", false},
		{`"\x41A\u{41}\0\q"`, `String("\x41A\u{41}\0\q") EOF`, false},
		{`"\u12"`, "ERR", false},
		{"`abc`", "Template(`abc`) EOF", false},
		{"`a\"b` + 1", "Template(`a\"b`) Punct(+) Numeric(1) EOF", false},
		{"`a${b}c`", "TemplateHead(`a${) Ident(b) TemplateTail(}c`) EOF", false},
		{"`a${b}c${d+1}e`", "TemplateHead(`a${) Ident(b) TemplateMiddle(}c${) Ident(d) Punct(+) Numeric(1) TemplateTail(}e`) EOF", false},
		{"`a${ {x:1}.x }b`", "TemplateHead(`a${) Punct({) Ident(x) Punct(:) Numeric(1) Punct(}) Punct(.) Ident(x) TemplateTail(}b`) EOF", false},
		{"`a${`b${c}`}d`", "TemplateHead(`a${) TemplateHead(`b${) Ident(c) TemplateTail(}`) TemplateTail(}d`) EOF", false},
		{"`a\\`b`", "Template(`a\\`b`) EOF", false},
		{"`a\\${b}`", "Template(`a\\${b}`) EOF", false},
		{"`a\nb`", "Template(`a\nb`) EOF", false},
		{"`abc", "ERR", false},
		{"`a${b", "TemplateHead(`a${) Ident(b) ERR", false},
		{"`a${/x/}`", "TemplateHead(`a${) Regex(/x/) TemplateTail(}`) EOF", false},
		{"`a` / 2", "Template(`a`) Punct(/) Numeric(2) EOF", false},
		{"// c\nx", "LineComment(// c) Ident(x) EOF", false},
		{"// c\u2028x", "LineComment(// c) Ident(x) EOF", false},
		{"/* c */x", "BlockComment(/* c */) Ident(x) EOF", false},
		{"/* c \n \" */x", "BlockComment(/* c \n \" */) Ident(x) EOF", false},
		{"/* c", "ERR", false},
		{"x = 1 /* a */ / 2", "Ident(x) Punct(=) Numeric(1) BlockComment(/* a */) Punct(/) Numeric(2) EOF", false},
		{"x = /* a */ /re/", "Ident(x) Punct(=) BlockComment(/* a */) Regex(/re/) EOF", false},
		{"<!-- x\ny", "LineComment(<!-- x) Ident(y) EOF", false},
		{"a <!-- x\ny", "Ident(a) LineComment(<!-- x) Ident(y) EOF", false},
		{"a\n--> x\ny", "Ident(a) LineComment(--> x) Ident(y) EOF", false},
		{"/* */ --> x\ny", "BlockComment(/* */) LineComment(--> x) Ident(y) EOF", false},
		{"a --> x", "Ident(a) Punct(--) Punct(>) Ident(x) EOF", false},
		{"a <!-- x\ny", "Ident(a) Punct(<) Punct(!) Punct(--) Ident(x) Ident(y) EOF", true},
		{"0 1.5 .5 1. 1e3 1E-3 1_000 0x1F 0o7 0b1 10n 0xFFn 017 1.e2", "Numeric(0) Numeric(1.5) Numeric(.5) Numeric(1.) Numeric(1e3) Numeric(1E-3) Numeric(1_000) Numeric(0x1F) Numeric(0o7) Numeric(0b1) Numeric(10n) Numeric(0xFFn) Numeric(017) Numeric(1.e2) EOF", false},
		{"1abc", "ERR", false},
		{"x = 3in", "Ident(x) Punct(=) ERR", false},
		{"0x", "ERR", false},
		{"1e", "ERR", false},
		{"1.5n", "ERR", false},
		{"-1", "Punct(-) Numeric(1) EOF", false},
		{"a--1", "Ident(a) Punct(--) Numeric(1) EOF", false},
		{"a.b?.c ?? d ?.5:1", "Ident(a) Punct(.) Ident(b) Punct(?.) Ident(c) Punct(??) Ident(d) Punct(?) Numeric(.5) Punct(:) Numeric(1) EOF", false},
		{"a >>>= b >>> c ** d => e ... f", "Ident(a) Punct(>>>=) Ident(b) Punct(>>>) Ident(c) Punct(**) Ident(d) Punct(=>) Ident(e) Punct(...) Ident(f) EOF", false},
		{"a ||= b &&= c ??= d", "Ident(a) Punct(||=) Ident(b) Punct(&&=) Ident(c) Punct(??=) Ident(d) EOF", false},
		{"$a _b \\u0061b café π", "Ident($a) Ident(_b) Ident(\\u0061b) Ident(café) Ident(π) EOF", false},
		{"class A { #p = 1 }", "Keyword(class) Ident(A) Punct({) PrivateName(#p) Punct(=) Numeric(1) Punct(}) EOF", false},
		{"#!/usr/bin/env node\nx", "Hashbang(#!/usr/bin/env node) Ident(x) EOF", false},
		{"x # y", "Ident(x) ERR", false},
		{"x \\ y", "Ident(x) ERR", false},
		{"a\u00a0b\ufeffc", "Ident(a) Ident(b) Ident(c) EOF", false},
		{"null true false let of async", "Keyword(null) Keyword(true) Keyword(false) Ident(let) Ident(of) Ident(async) EOF", false},
		{"x = {a: 1}\n/re/", "Ident(x) Punct(=) Punct({) Ident(a) Punct(:) Numeric(1) Punct(}) Punct(/) Ident(re) Punct(/) EOF", false},
		{"@dec class A {}", "Punct(@) Ident(dec) Keyword(class) Ident(A) Punct({) Punct(}) EOF", false},
		{"a\x00b", "Ident(a) ERR", false},
		{"\"a\xffb\"", "String(\"a\xffb\") EOF", false},
		{"a \xff", "Ident(a) ERR", false},
	}
	for _, tc := range tests {
		got := render(Tokenize(tc.src, Options{Module: tc.module}))
		if got != tc.want {
			t.Errorf("Tokenize(%q, module=%v)\n got  %s\n want %s", tc.src, tc.module, got, tc.want)
		}
	}
}

func TestNLFlag(t *testing.T) {
	toks := Tokenize("a\nb /* \n */ c d", Options{})
	var got []bool
	for _, tk := range toks {
		if tk.Kind == Ident {
			got = append(got, tk.NL)
		}
	}
	want := []bool{false, true, true, false}
	for i := range want {
		if got[i] != want[i] {
			t.Fatalf("NL flags = %v, want %v", got, want)
		}
	}
}

func TestOffsets(t *testing.T) {
	src := "var s = \"x\" + `t${1}u`; // c"
	for _, tk := range Tokenize(src, Options{}) {
		if tk.Kind == EOF {
			continue
		}
		if src[tk.Start:tk.Start+len(tk.Text)] != tk.Text {
			t.Fatalf("bad offset for %v", tk)
		}
	}
}
