package jsvalue

import (
	"bytes"
	"encoding/json"
	"fmt"
	"math"
	"math/rand"
	"os"
	"os/exec"
	"sort"
	"strconv"
	"strings"
	"testing"
	"unicode/utf16"
)

// TestAgainstNode is a development aid: when JSVALUE_NODE names a node binary,
// a corpus of literal expressions (valid and invalid) is evaluated by node in
// strict mode and by this package and the results are compared. Nothing depends
// on it (it is skipped when the variable is not set).
func TestAgainstNode(t *testing.T) {
	node := os.Getenv("JSVALUE_NODE")
	if node == "" {
		t.Skip("JSVALUE_NODE not set")
	}
	corpus := []string{
		"null", "true", "false", "undefined", "NaN", "Infinity", "-Infinity", "+Infinity", "-NaN", "0", "-0", "+0", "1", "-1", "1.5", ".5", "5.", "1e3", "1E-3", "1e+3", "0x1F", "0o17", "0b11",
		"1_000", "9007199254740993", "18446744073709551615", "9223372036854775807", "1e21", "1e-7", "123456789012345680000", "1.7976931348623157e308", "1e309", "5e-324", "2e-324",
		"0.1", "0.30000000000000004", "1000000000000000000000", "0.0000001", "0.000001",
		"+Inf", "-Inf", "Inf", "nan", "010", "08", "1__0", "1_", "0x", "3in", "1a", ".", "--1", "- -1", "-+1", "+-1", "- 1", "1 2", "1,", "",
		`""`, `''`, `"a"`, `'a"b'`, `"a'b"`, `"\b\t\n\v\f\r\0"`, `"\x41A\u{41}\u{1F600}"`, `"\U0001f600"`, `"\a\q\/"`, "\"a\\\nb\"", "\"\u2028\u2029\"", `"\u2028"`, `"</script>"`,
		`"<>&'"`, `"\1"`, `"\08"`, `"\x4"`, `"\u{110000}"`, "\"a\nb\"", `"abc`, `"\u00e9\U0001f600"`, `"\\u00e9"`,
		"[]", "[1]", "[1,]", "[,]", "[1,,2]", "[[],[[]]]", "[1 2]", "[1", "[null,true,\"a\",-1.5]",
		"{}", `{"a":1}`, `{a:1}`, `{a:1,}`, `{"a":1,"a":2}`, `{1:1,2:2}`, `{1.5:1}`, `{0x10:1}`, `{1e21:1}`, `{.5:1}`, `{if:1,class:2}`, `{"b":1,"a":2,"10":3,"9":4}`, `{"__proto__":1}`,
		`{"__proto__":{"x":2},"a":1}`, `{"__proto__":null}`, `{"__proto__":1,"__proto__":2}`, `{a}`, `{a:}`, `{,}`, `{"a" 1}`, `{"a":1 "b":2}`, `{"":1}`, `{"a b":{"c":[{}]}}`,
		`new Date("2016-01-02T15:04:05.000Z")`, `new Date("2016-01-02T15:04:05.999+01:30")`, `new Date("2016-01-02T15:04:05.000-00:30")`, `new Date("+012345-06-07T08:09:10.011Z")`,
		`new Date("-000001-01-01T00:00:00.000Z")`, `new Date("-000000-01-01T00:00:00.000Z")`, `new Date("+275760-09-13T00:00:00.000Z")`, `new Date("+275760-09-13T00:00:00.001Z")`,
		`new Date("0000-01-01T00:00:00.000Z")`, `new Date("2016-02-30T00:00:00.000Z")`, `new Date("2016-13-01T00:00:00.000Z")`, `new Date("2016-01-02T24:00:00.000Z")`,
		`new Date("2016-01-02T15:04:05.000+00:-3")`, `new Date("2016-01-02")`, `new Date("2016-01")`, `new Date("2016")`, `new Date(0)`, `new Date(1451747045000.7)`, `new Date(8.64e15)`, `new Date(8.64e15+1)`[:0] + `new Date(8640000000000001)`,
		`new Date(NaN)`, `new  Date ( "2016-01-02T15:04:05.1Z" )`, `new Date("2016-01-02T15:04:05.123456Z")`, `[new Date(0),{"d":new Date(1)}]`,
		"/* c */ 1 // d", "1 /* unterminated", "(1)", "((\"a\"))", "undefined/* scriggo: cannot represent a chan int value */",
	}
	// numbers in the formats a renderer may emit
	r := rand.New(rand.NewSource(1))
	for i := 0; i < 300; i++ {
		f := math.Float64frombits(r.Uint64())
		if math.IsNaN(f) || math.IsInf(f, 0) {
			continue
		}
		corpus = append(corpus, strconv.FormatFloat(f, 'f', -1, 64), strconv.FormatFloat(f, 'g', -1, 64), strconv.FormatFloat(f, 'e', 5, 64),
			strconv.FormatInt(int64(r.Uint64()), 10), "{"+strconv.FormatFloat(math.Abs(f), 'g', -1, 64)+":0}")
	}
	in, _ := json.Marshal(corpus)
	script := `
const srcs = JSON.parse(require('fs').readFileSync(0, 'utf8'));
function canon(v) {
  if (v === undefined) return "u";
  if (v === null) return "n";
  if (typeof v === "boolean") return v ? "t" : "f";
  if (typeof v === "number") return "N" + (Object.is(v, -0) ? "-0" : String(v));
  if (typeof v === "string") { const u = []; for (let i = 0; i < v.length; i++) u.push(v.charCodeAt(i)); return "S" + u.join(","); }
  if (v instanceof Date) return "D" + String(v.getTime());
  if (Array.isArray(v)) { const a = []; for (let i = 0; i < v.length; i++) a.push(canon(v[i])); return "[" + a.join(";") + "]"; }
  const keys = Object.getOwnPropertyNames(v).sort();
  return "{" + keys.map(k => canon(k) + ":" + canon(v[k])).join(";") + "}";
}
const out = srcs.map(s => { try { return canon(new Function('"use strict"; return (' + s + '\n)')()); } catch (e) { return "ERR"; } });
console.log(JSON.stringify(out));
`
	cmd := exec.Command(node, "-e", script)
	cmd.Stdin = bytes.NewReader(in)
	var stderr bytes.Buffer
	cmd.Stderr = &stderr
	outb, err := cmd.Output()
	if err != nil {
		t.Fatalf("node: %v\n%s", err, stderr.String())
	}
	var want []string
	if err := json.Unmarshal(outb, &want); err != nil {
		t.Fatal(err)
	}
	bad := 0
	for i, src := range corpus {
		got := "ERR"
		if v, err := Parse(src); err == nil {
			got = canon(v)
		}
		// an unrecognised date string falls back to implementation-defined parsing in engines
		if strings.HasPrefix(got, "DNaN") && strings.HasPrefix(want[i], "D") {
			continue
		}
		if got != want[i] {
			bad++
			if bad < 30 {
				t.Errorf("%q: jsvalue %s, node %s", src, got, want[i])
			}
		}
	}
	t.Logf("%d sources compared with %s", len(corpus), node)
}

func canon(v *Value) string {
	switch v.Kind {
	case Undefined:
		return "u"
	case Null:
		return "n"
	case Bool:
		if v.Bool {
			return "t"
		}
		return "f"
	case Number:
		if v.Num == 0 && math.Signbit(v.Num) {
			return "N-0"
		}
		return "N" + NumberToString(v.Num)
	case String:
		var u []string
		for _, c := range utf16.Encode([]rune(v.Str)) {
			u = append(u, strconv.Itoa(int(c)))
		}
		return "S" + strings.Join(u, ",")
	case Date:
		return "D" + NumberToString(v.Num)
	case Array:
		var a []string
		for _, e := range v.Arr {
			a = append(a, canon(e))
		}
		return "[" + strings.Join(a, ";") + "]"
	case Object:
		type kv struct {
			k []uint16
			s string
		}
		var l []kv
		for _, m := range v.Obj {
			l = append(l, kv{utf16.Encode([]rune(m.Key)), canon(&Value{Kind: String, Str: m.Key}) + ":" + canon(m.Val)})
		}
		sort.Slice(l, func(i, j int) bool {
			a, b := l[i].k, l[j].k
			for x := 0; x < len(a) && x < len(b); x++ {
				if a[x] != b[x] {
					return a[x] < b[x]
				}
			}
			return len(a) < len(b)
		})
		var a []string
		for _, e := range l {
			a = append(a, e.s)
		}
		return "{" + strings.Join(a, ";") + "}"
	}
	return fmt.Sprint(v.Kind)
}
