// Package jsvalue parses and evaluates the *literal-value* subset of JavaScript
// expressions: null, undefined, true/false, numeric literals (decimal, hex,
// octal, binary, separators), NaN, Infinity, unary + and - on numbers, string
// literals with every escape of ECMA-262, array literals, object literals with
// identifier / string / numeric property names, and `new Date(<string|number>)`.
//
// It is an oracle: it is written from ECMA-262 (2023) section 12 (lexical
// grammar), 13.2 (primary expressions) and 21.4.1.32 (date time string format)
// and is deliberately literal to the text. Everything that is not in the
// subset (identifier references, calls, operators, template literals, regular
// expressions, computed keys, spread, BigInt, legacy octal) is an error, so
// "Parse succeeded" means "one syntactically valid expression of the literal
// grammar that evaluates without a ReferenceError".
package jsvalue

import (
	"fmt"
	"math"
	"strconv"
	"strings"
	"unicode"
	"unicode/utf16"
	"unicode/utf8"
)

// Kind is the type of an evaluated value.
type Kind uint8

const (
	Undefined Kind = iota
	Null
	Bool
	Number
	String
	Array
	Object
	Date
)

func (k Kind) String() string {
	return [...]string{"undefined", "null", "boolean", "number", "string", "array", "object", "Date"}[k]
}

// Member is an own property of an evaluated object literal.
type Member struct {
	Key string
	Val *Value
}

// Value is an evaluated JavaScript value.
type Value struct {
	Kind Kind
	Bool bool
	// Num is the number (Kind Number) or the time value in milliseconds since
	// the epoch (Kind Date; NaN = Invalid Date).
	Num float64
	// Str is the string value. JavaScript strings are UTF-16; lone surrogates
	// are replaced by U+FFFD and reported in LoneSurrogate.
	Str           string
	LoneSurrogate bool
	Arr           []*Value
	// Obj are the own properties after evaluation of the literal: a duplicate
	// key overwrites the value and keeps the position of the first definition.
	// (Integer-like keys are not moved to the front as engines do on enumeration.)
	Obj []Member
	// SrcKeys are the property names in source order, including duplicates and
	// including `__proto__: v` definitions, which set the prototype instead of
	// creating an own property (ECMA-262 B.3.1).
	SrcKeys []string
	// Proto is the value of a `__proto__: v` definition, if any.
	Proto *Value
}

// Get returns the own property key of an object value.
func (v *Value) Get(key string) (*Value, bool) {
	for _, m := range v.Obj {
		if m.Key == key {
			return m.Val, true
		}
	}
	return nil, false
}

// SyntaxError is returned for text outside the literal grammar.
type SyntaxError struct {
	Offset int
	Msg    string
}

func (e *SyntaxError) Error() string { return fmt.Sprintf("offset %d: %s", e.Offset, e.Msg) }

type parser struct {
	src string
	pos int
}

// Parse parses src as exactly one expression of the literal grammar, optionally
// surrounded by white space and comments.
func Parse(src string) (v *Value, err error) {
	p := &parser{src: src}
	defer func() {
		if r := recover(); r != nil {
			if se, ok := r.(*SyntaxError); ok {
				v, err = nil, se
				return
			}
			panic(r)
		}
	}()
	p.skipSpace()
	v = p.expr(0)
	p.skipSpace()
	if p.pos < len(p.src) {
		p.fail("unexpected %q after the expression", p.peekRune())
	}
	return v, nil
}

const maxDepth = 2000

func (p *parser) fail(format string, a ...any) {
	panic(&SyntaxError{Offset: p.pos, Msg: fmt.Sprintf(format, a...)})
}

func (p *parser) peekRune() rune {
	if p.pos >= len(p.src) {
		return -1
	}
	r, _ := utf8.DecodeRuneInString(p.src[p.pos:])
	return r
}

func (p *parser) eof() bool { return p.pos >= len(p.src) }

// isLineTerminator: LF, CR, LS, PS (ECMA-262 12.3).
func isLineTerminator(r rune) bool {
	return r == '\n' || r == '\r' || r == 0x2028 || r == 0x2029
}

// isWhiteSpace: TAB, VT, FF, ZWNBSP, and category Zs (ECMA-262 12.2).
func isWhiteSpace(r rune) bool {
	switch r {
	case '\t', '\v', '\f', 0xFEFF:
		return true
	}
	return unicode.Is(unicode.Zs, r)
}

func (p *parser) skipSpace() {
	for p.pos < len(p.src) {
		r, size := utf8.DecodeRuneInString(p.src[p.pos:])
		if r == utf8.RuneError && size == 1 {
			return
		}
		switch {
		case isWhiteSpace(r) || isLineTerminator(r):
			p.pos += size
		case r == '/' && strings.HasPrefix(p.src[p.pos:], "//"):
			p.pos += 2
			for p.pos < len(p.src) {
				r, size := utf8.DecodeRuneInString(p.src[p.pos:])
				if isLineTerminator(r) {
					break
				}
				p.pos += size
			}
		case r == '/' && strings.HasPrefix(p.src[p.pos:], "/*"):
			end := strings.Index(p.src[p.pos+2:], "*/")
			if end < 0 {
				p.fail("unterminated comment")
			}
			p.pos += 2 + end + 2
		default:
			return
		}
	}
}

func isIDStart(r rune) bool {
	return r == '$' || r == '_' || unicode.IsLetter(r) || unicode.Is(unicode.Nl, r)
}

func isIDPart(r rune) bool {
	return isIDStart(r) || unicode.IsDigit(r) || unicode.Is(unicode.Mn, r) || unicode.Is(unicode.Mc, r) ||
		unicode.Is(unicode.Pc, r) || r == 0x200C || r == 0x200D
}

// identifierName scans an IdentifierName (unicode escapes allowed) or returns "".
func (p *parser) identifierName() string {
	var sb strings.Builder
	first := true
	for p.pos < len(p.src) {
		r, size := utf8.DecodeRuneInString(p.src[p.pos:])
		if r == '\\' {
			if !strings.HasPrefix(p.src[p.pos:], `\u`) {
				p.fail("invalid escape in identifier")
			}
			p.pos += 2
			r = p.unicodeEscapeBody()
			size = 0
			if first && !isIDStart(r) || !first && !isIDPart(r) {
				p.fail("invalid escaped character in identifier")
			}
		} else if r == utf8.RuneError && size == 1 {
			break
		} else if first && !isIDStart(r) || !first && !isIDPart(r) {
			break
		}
		sb.WriteRune(r)
		p.pos += size
		first = false
	}
	return sb.String()
}

// unicodeEscapeBody parses XXXX or {X...} after "\u" and returns the code point
// (possibly a surrogate code unit).
func (p *parser) unicodeEscapeBody() rune {
	if p.pos < len(p.src) && p.src[p.pos] == '{' {
		p.pos++
		start := p.pos
		var n uint64
		for p.pos < len(p.src) && isHex(p.src[p.pos]) {
			n = n*16 + uint64(hexVal(p.src[p.pos]))
			if n > 0x10FFFF {
				p.fail("code point out of range in \\u{...}")
			}
			p.pos++
		}
		if p.pos == start || p.pos >= len(p.src) || p.src[p.pos] != '}' {
			p.fail("malformed \\u{...} escape")
		}
		p.pos++
		return rune(n)
	}
	if p.pos+4 > len(p.src) {
		p.fail("malformed \\u escape")
	}
	var n rune
	for i := 0; i < 4; i++ {
		c := p.src[p.pos+i]
		if !isHex(c) {
			p.fail("malformed \\u escape")
		}
		n = n*16 + rune(hexVal(c))
	}
	p.pos += 4
	return n
}

func isHex(c byte) bool {
	return '0' <= c && c <= '9' || 'a' <= c && c <= 'f' || 'A' <= c && c <= 'F'
}

func hexVal(c byte) int {
	switch {
	case c <= '9':
		return int(c - '0')
	case c >= 'a':
		return int(c-'a') + 10
	}
	return int(c-'A') + 10
}

func (p *parser) expr(depth int) *Value {
	if depth > maxDepth {
		p.fail("nesting too deep")
	}
	if p.eof() {
		p.fail("unexpected end of input, expression expected")
	}
	c := p.src[p.pos]
	switch {
	case c == '[':
		return p.array(depth)
	case c == '{':
		return p.object(depth)
	case c == '"' || c == '\'':
		return p.stringLit()
	case c == '-' || c == '+':
		p.pos++
		if !p.eof() && p.src[p.pos] == c {
			p.fail("%c%c is an update operator, not a sign", c, c)
		}
		p.skipSpace()
		v := p.expr(depth + 1)
		if v.Kind != Number {
			p.fail("unary %c applied to a %s (outside the literal grammar)", c, v.Kind)
		}
		if c == '-' {
			v.Num = -v.Num
		}
		return v
	case '0' <= c && c <= '9' || c == '.':
		return p.number()
	case c == '`':
		p.fail("template literal (outside the literal grammar)")
	case c == '(':
		p.pos++
		p.skipSpace()
		v := p.expr(depth + 1)
		p.skipSpace()
		if p.eof() || p.src[p.pos] != ')' {
			p.fail("missing )")
		}
		p.pos++
		return v
	}
	start := p.pos
	name := p.identifierName()
	switch name {
	case "":
		p.fail("unexpected %q, expression expected", p.peekRune())
	case "null":
		return &Value{Kind: Null}
	case "undefined":
		return &Value{Kind: Undefined}
	case "true":
		return &Value{Kind: Bool, Bool: true}
	case "false":
		return &Value{Kind: Bool}
	case "NaN":
		return &Value{Kind: Number, Num: math.NaN()}
	case "Infinity":
		return &Value{Kind: Number, Num: math.Inf(1)}
	case "new":
		return p.newDate(depth)
	}
	p.pos = start
	p.fail("reference to identifier %q (ReferenceError or not a literal)", name)
	return nil
}

func (p *parser) array(depth int) *Value {
	p.pos++ // [
	v := &Value{Kind: Array, Arr: []*Value{}}
	for {
		p.skipSpace()
		if p.eof() {
			p.fail("unterminated array literal")
		}
		switch p.src[p.pos] {
		case ']':
			p.pos++
			return v
		case ',':
			// elision: a hole, reads as undefined
			p.pos++
			v.Arr = append(v.Arr, &Value{Kind: Undefined})
			continue
		}
		if strings.HasPrefix(p.src[p.pos:], "...") {
			p.fail("spread element (outside the literal grammar)")
		}
		v.Arr = append(v.Arr, p.expr(depth+1))
		p.skipSpace()
		if p.eof() {
			p.fail("unterminated array literal")
		}
		switch p.src[p.pos] {
		case ',':
			p.pos++
		case ']':
		default:
			p.fail("unexpected %q in array literal, expected , or ]", p.peekRune())
		}
	}
}

func (p *parser) object(depth int) *Value {
	p.pos++ // {
	v := &Value{Kind: Object, Obj: []Member{}}
	protoSeen := false
	for {
		p.skipSpace()
		if p.eof() {
			p.fail("unterminated object literal")
		}
		if p.src[p.pos] == '}' {
			p.pos++
			return v
		}
		var key string
		c := p.src[p.pos]
		switch {
		case c == '"' || c == '\'':
			key = p.stringLit().Str
		case '0' <= c && c <= '9' || c == '.':
			key = NumberToString(p.number().Num)
		case c == '[':
			p.fail("computed property name (outside the literal grammar)")
		default:
			if strings.HasPrefix(p.src[p.pos:], "...") {
				p.fail("spread property (outside the literal grammar)")
			}
			key = p.identifierName()
			if key == "" {
				p.fail("unexpected %q, property name expected", p.peekRune())
			}
		}
		p.skipSpace()
		if p.eof() || p.src[p.pos] != ':' {
			p.fail("expected : after property name %q (shorthand and methods are outside the literal grammar)", key)
		}
		p.pos++
		p.skipSpace()
		val := p.expr(depth + 1)
		v.SrcKeys = append(v.SrcKeys, key)
		if key == "__proto__" {
			// B.3.1: `__proto__: v` (non-computed, non-shorthand) sets [[Prototype]]
			// when v is an object or null and is ignored otherwise; it never creates
			// an own property, and two of them are an early SyntaxError.
			if protoSeen {
				p.fail("duplicate __proto__ fields are not allowed in object literals")
			}
			protoSeen = true
			v.Proto = val
		} else {
			found := false
			for i := range v.Obj {
				if v.Obj[i].Key == key {
					v.Obj[i].Val = val
					found = true
					break
				}
			}
			if !found {
				v.Obj = append(v.Obj, Member{Key: key, Val: val})
			}
		}
		p.skipSpace()
		if p.eof() {
			p.fail("unterminated object literal")
		}
		switch p.src[p.pos] {
		case ',':
			p.pos++
		case '}':
		default:
			p.fail("unexpected %q in object literal, expected , or }", p.peekRune())
		}
	}
}

// number parses a NumericLiteral (ECMA-262 12.9.3) in strict-mode grammar.
func (p *parser) number() *Value {
	start := p.pos
	s := p.src
	digits := func(ok func(byte) bool) string {
		// Digits with numeric separators: a separator must be between two digits.
		var sb strings.Builder
		lastSep := true
		for p.pos < len(s) {
			c := s[p.pos]
			if c == '_' {
				if lastSep {
					p.fail("misplaced numeric separator")
				}
				lastSep = true
				p.pos++
				continue
			}
			if !ok(c) {
				break
			}
			sb.WriteByte(c)
			lastSep = false
			p.pos++
		}
		if lastSep && sb.Len() > 0 {
			p.fail("misplaced numeric separator")
		}
		return sb.String()
	}
	isDec := func(c byte) bool { return '0' <= c && c <= '9' }
	var val float64
	if s[p.pos] == '0' && p.pos+1 < len(s) && strings.IndexByte("xXoObB", s[p.pos+1]) >= 0 {
		base := 16
		ok := isHex
		switch s[p.pos+1] {
		case 'o', 'O':
			base, ok = 8, func(c byte) bool { return '0' <= c && c <= '7' }
		case 'b', 'B':
			base, ok = 2, func(c byte) bool { return c == '0' || c == '1' }
		}
		p.pos += 2
		if p.pos < len(s) && s[p.pos] == '_' {
			p.fail("misplaced numeric separator")
		}
		d := digits(ok)
		if d == "" {
			p.fail("missing digits after 0%c", s[start+1])
		}
		// exact value rounded to nearest (ties to even) as the spec requires
		val = parseIntRounded(d, base)
	} else {
		var text strings.Builder
		if s[p.pos] != '.' {
			if s[p.pos] == '0' && p.pos+1 < len(s) && (isDec(s[p.pos+1]) || s[p.pos+1] == '_') {
				p.fail("legacy octal / leading-zero decimal literal")
			}
			text.WriteString(digits(isDec))
		}
		if p.pos < len(s) && s[p.pos] == '.' {
			p.pos++
			if p.pos < len(s) && s[p.pos] == '_' {
				p.fail("misplaced numeric separator")
			}
			frac := digits(isDec)
			if text.Len() == 0 && frac == "" {
				p.pos = start
				p.fail("unexpected '.'")
			}
			if text.Len() == 0 {
				text.WriteByte('0')
			}
			text.WriteByte('.')
			text.WriteString(frac)
			if frac == "" {
				text.WriteByte('0')
			}
		}
		if p.pos < len(s) && (s[p.pos] == 'e' || s[p.pos] == 'E') {
			p.pos++
			text.WriteByte('e')
			if p.pos < len(s) && (s[p.pos] == '+' || s[p.pos] == '-') {
				text.WriteByte(s[p.pos])
				p.pos++
			}
			exp := digits(isDec)
			if exp == "" {
				p.fail("missing exponent digits")
			}
			text.WriteString(exp)
		}
		f, err := strconv.ParseFloat(text.String(), 64)
		if err != nil {
			if ne, ok := err.(*strconv.NumError); !ok || ne.Err != strconv.ErrRange {
				p.pos = start
				p.fail("malformed number %q", text.String())
			}
		}
		val = f
	}
	if p.pos < len(s) {
		r := p.peekRune()
		if r == 'n' {
			p.fail("BigInt literal (not a Number)")
		}
		if isIDStart(r) || unicode.IsDigit(r) || r == '\\' {
			p.fail("identifier or digit %q immediately after a numeric literal", r)
		}
	}
	return &Value{Kind: Number, Num: val}
}

// parseIntRounded converts digits in the given base (2, 8 or 16) to the nearest
// float64 (ties to even).
func parseIntRounded(d string, base int) float64 {
	shift := map[int]uint{2: 1, 8: 3, 16: 4}[base]
	// collect the bits
	var mant uint64
	exp := 0        // number of bits dropped
	sticky := false // any dropped bit after the round bit is 1
	round := false
	started := false
	nbits := 0
	for i := 0; i < len(d); i++ {
		v := uint64(hexVal(d[i]))
		for b := int(shift) - 1; b >= 0; b-- {
			bit := v>>uint(b)&1 == 1
			if !started {
				if !bit {
					continue
				}
				started = true
			}
			if nbits < 53 {
				mant = mant<<1 | b2u(bit)
				nbits++
			} else {
				if exp == 0 {
					round = bit
				} else if bit {
					sticky = true
				}
				exp++
			}
		}
	}
	if exp > 0 && round && (sticky || mant&1 == 1) {
		mant++
	}
	return math.Ldexp(float64(mant), exp)
}

func b2u(b bool) uint64 {
	if b {
		return 1
	}
	return 0
}

// stringLit parses a StringLiteral (ECMA-262 12.9.4), strict-mode grammar.
func (p *parser) stringLit() *Value {
	quote := p.src[p.pos]
	p.pos++
	var units []uint16
	addRune := func(r rune) {
		if r >= 0x10000 {
			r1, r2 := utf16.EncodeRune(r)
			units = append(units, uint16(r1), uint16(r2))
		} else {
			units = append(units, uint16(r))
		}
	}
	for {
		if p.eof() {
			p.fail("unterminated string literal")
		}
		r, size := utf8.DecodeRuneInString(p.src[p.pos:])
		// A byte sequence that is not UTF-8 decodes, as in a browser, to U+FFFD.
		switch {
		case r < 0x80 && byte(r) == quote:
			p.pos++
			v := &Value{Kind: String}
			runes := utf16.Decode(units)
			// detect lone surrogates: utf16.Decode maps them to U+FFFD
			for i := 0; i < len(units); i++ {
				u := units[i]
				if 0xD800 <= u && u < 0xDC00 && i+1 < len(units) && 0xDC00 <= units[i+1] && units[i+1] < 0xE000 {
					i++
					continue
				}
				if 0xD800 <= u && u < 0xE000 {
					v.LoneSurrogate = true
				}
			}
			v.Str = string(runes)
			return v
		case r == '\n' || r == '\r':
			p.fail("line terminator in string literal")
		case r == '\\':
			p.pos++
			if p.eof() {
				p.fail("unterminated string literal")
			}
			e, esize := utf8.DecodeRuneInString(p.src[p.pos:])
			p.pos += esize
			switch e {
			case 'b':
				units = append(units, 8)
			case 't':
				units = append(units, 9)
			case 'n':
				units = append(units, 10)
			case 'v':
				units = append(units, 11)
			case 'f':
				units = append(units, 12)
			case 'r':
				units = append(units, 13)
			case '0':
				if !p.eof() && '0' <= p.src[p.pos] && p.src[p.pos] <= '9' {
					p.fail("legacy octal escape sequence")
				}
				units = append(units, 0)
			case '1', '2', '3', '4', '5', '6', '7':
				p.fail("legacy octal escape sequence")
			case '8', '9':
				p.fail("\\8 and \\9 are not allowed")
			case 'x':
				if p.pos+2 > len(p.src) || !isHex(p.src[p.pos]) || !isHex(p.src[p.pos+1]) {
					p.fail("malformed \\x escape")
				}
				units = append(units, uint16(hexVal(p.src[p.pos])*16+hexVal(p.src[p.pos+1])))
				p.pos += 2
			case 'u':
				cp := p.unicodeEscapeBody()
				addRune2(&units, cp)
			case '\r':
				// line continuation; CR LF counts as one
				if !p.eof() && p.src[p.pos] == '\n' {
					p.pos++
				}
			case '\n', 0x2028, 0x2029:
				// line continuation
			default:
				// NonEscapeCharacter: the character itself
				addRune(e)
			}
			continue
		}
		addRune(r)
		p.pos += size
	}
}

// addRune2 appends a code point that may be a surrogate code unit (from \uXXXX).
func addRune2(units *[]uint16, cp rune) {
	if cp >= 0x10000 {
		r1, r2 := utf16.EncodeRune(cp)
		*units = append(*units, uint16(r1), uint16(r2))
		return
	}
	*units = append(*units, uint16(cp))
}

// newDate parses `new Date(arg)` after the keyword `new` has been consumed.
func (p *parser) newDate(depth int) *Value {
	p.skipSpace()
	name := p.identifierName()
	if name != "Date" {
		p.fail("new %s (only new Date(...) is in the literal grammar)", name)
	}
	p.skipSpace()
	if p.eof() || p.src[p.pos] != '(' {
		p.fail("new Date without arguments is the current time (not a literal)")
	}
	p.pos++
	p.skipSpace()
	if !p.eof() && p.src[p.pos] == ')' {
		p.fail("new Date() is the current time (not a literal)")
	}
	arg := p.expr(depth + 1)
	p.skipSpace()
	if p.eof() || p.src[p.pos] != ')' {
		p.fail("new Date with more than one argument or missing )")
	}
	p.pos++
	switch arg.Kind {
	case String:
		ms, err := ParseDate(arg.Str)
		if err != nil {
			// Unrecognised formats fall back to implementation-defined parsing: not a literal of known data.
			return &Value{Kind: Date, Num: math.NaN(), Str: err.Error()}
		}
		return &Value{Kind: Date, Num: ms}
	case Number:
		return &Value{Kind: Date, Num: timeClip(arg.Num)}
	}
	p.fail("new Date(%s) (outside the literal grammar)", arg.Kind)
	return nil
}

func timeClip(ms float64) float64 {
	if math.IsNaN(ms) || math.IsInf(ms, 0) || math.Abs(ms) > 8.64e15 {
		return math.NaN()
	}
	return math.Trunc(ms) + 0 // +0 turns -0 into +0
}

// ParseDate evaluates a string in the Date Time String Format of ECMA-262
// 21.4.1.32 to a time value (milliseconds since the epoch, UTC). Strings that
// carry a time but no offset denote local time and are rejected (the value would
// depend on the machine). Out-of-range fields are errors; a well-formed string
// outside ±8.64e15 ms evaluates to NaN (Invalid Date) without error.
func ParseDate(s string) (float64, error) {
	i := 0
	num := func(n int) (int, bool) {
		if i+n > len(s) {
			return 0, false
		}
		v := 0
		for k := 0; k < n; k++ {
			c := s[i+k]
			if c < '0' || c > '9' {
				return 0, false
			}
			v = v*10 + int(c-'0')
		}
		i += n
		return v, true
	}
	bad := func(what string) (float64, error) {
		return math.NaN(), fmt.Errorf("date string %q: %s", s, what)
	}
	var year int
	var ok bool
	if i < len(s) && (s[i] == '+' || s[i] == '-') {
		neg := s[i] == '-'
		i++
		if year, ok = num(6); !ok {
			return bad("expanded year needs six digits")
		}
		if neg {
			if year == 0 {
				return bad("-000000 is not a valid year")
			}
			year = -year
		}
	} else if year, ok = num(4); !ok {
		return bad("year needs four digits")
	}
	month, day := 1, 1
	hour, min, sec, ms := 0, 0, 0, 0
	hasTime := false
	offset := 0 // minutes east of UTC
	hasOffset := false
	if i < len(s) && s[i] == '-' {
		i++
		if month, ok = num(2); !ok || month < 1 || month > 12 {
			return bad("month")
		}
		if i < len(s) && s[i] == '-' {
			i++
			if day, ok = num(2); !ok || day < 1 || day > daysIn(year, month) {
				return bad("day")
			}
		}
	}
	if i < len(s) && s[i] == 'T' {
		i++
		hasTime = true
		if hour, ok = num(2); !ok || hour > 24 {
			return bad("hour")
		}
		if i >= len(s) || s[i] != ':' {
			return bad("missing minutes")
		}
		i++
		if min, ok = num(2); !ok || min > 59 {
			return bad("minute")
		}
		if i < len(s) && s[i] == ':' {
			i++
			if sec, ok = num(2); !ok || sec > 59 {
				return bad("second")
			}
			if i < len(s) && s[i] == '.' {
				i++
				nd := 0
				for i < len(s) && '0' <= s[i] && s[i] <= '9' {
					if nd < 3 {
						ms = ms*10 + int(s[i]-'0')
					}
					nd++
					i++
				}
				if nd == 0 {
					return bad("missing fraction digits")
				}
				for ; nd < 3; nd++ {
					ms *= 10
				}
			}
		}
		if hour == 24 && (min != 0 || sec != 0 || ms != 0) {
			return bad("hour 24 only as 24:00:00.000")
		}
		if i < len(s) {
			switch s[i] {
			case 'Z':
				i++
				hasOffset = true
			case '+', '-':
				neg := s[i] == '-'
				i++
				oh, ok1 := num(2)
				if !ok1 || oh > 23 || i >= len(s) || s[i] != ':' {
					return bad("offset")
				}
				i++
				om, ok2 := num(2)
				if !ok2 || om > 59 {
					return bad("offset")
				}
				offset = oh*60 + om
				if neg {
					offset = -offset
				}
				hasOffset = true
			}
		}
	}
	if i != len(s) {
		return bad(fmt.Sprintf("unexpected %q at offset %d", s[i:], i))
	}
	if hasTime && !hasOffset {
		return math.NaN(), fmt.Errorf("date string %q: no UTC offset, denotes local time", s)
	}
	days := daysFromCivil(year, month, day)
	t := float64(days)*86400000 + float64(hour)*3600000 + float64(min)*60000 + float64(sec)*1000 + float64(ms)
	t -= float64(offset) * 60000
	return timeClip(t), nil
}

func isLeap(y int) bool { return y%4 == 0 && (y%100 != 0 || y%400 == 0) }

func daysIn(y, m int) int {
	switch m {
	case 2:
		if isLeap(y) {
			return 29
		}
		return 28
	case 4, 6, 9, 11:
		return 30
	}
	return 31
}

// daysFromCivil returns the number of days from 1970-01-01 to y-m-d in the
// proleptic Gregorian calendar (H. Hinnant's algorithm).
func daysFromCivil(y, m, d int) int64 {
	yy := int64(y)
	if m <= 2 {
		yy--
	}
	var era int64
	if yy >= 0 {
		era = yy / 400
	} else {
		era = (yy - 399) / 400
	}
	yoe := yy - era*400
	mp := int64((m + 9) % 12)
	doy := (153*mp+2)/5 + int64(d) - 1
	doe := yoe*365 + yoe/4 - yoe/100 + doy
	return era*146097 + doe - 719468
}

// NumberToString implements Number::toString(x) with radix 10 (ECMA-262 6.1.6.1.20).
func NumberToString(x float64) string {
	switch {
	case math.IsNaN(x):
		return "NaN"
	case x == 0:
		return "0"
	case math.IsInf(x, 1):
		return "Infinity"
	case math.IsInf(x, -1):
		return "-Infinity"
	case x < 0:
		return "-" + NumberToString(-x)
	}
	// shortest digits d1..dk and exponent n such that x = 0.d1..dk × 10^n
	e := strconv.FormatFloat(x, 'e', -1, 64) // d.ddddde±XX
	mant, expS, _ := strings.Cut(e, "e")
	exp, _ := strconv.Atoi(expS)
	digits := strings.Replace(mant, ".", "", 1)
	k := len(digits)
	n := exp + 1
	switch {
	case k <= n && n <= 21:
		return digits + strings.Repeat("0", n-k)
	case 0 < n && n <= 21:
		return digits[:n] + "." + digits[n:]
	case -6 < n && n <= 0:
		return "0." + strings.Repeat("0", -n) + digits
	}
	sign := "+"
	if n-1 < 0 {
		sign = "-"
	}
	ex := n - 1
	if ex < 0 {
		ex = -ex
	}
	if k == 1 {
		return digits + "e" + sign + strconv.Itoa(ex)
	}
	return digits[:1] + "." + digits[1:] + "e" + sign + strconv.Itoa(ex)
}
