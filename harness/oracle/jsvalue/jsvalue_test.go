package jsvalue

import (
	"math"
	"strconv"
	"strings"
	"testing"
	"time"
)

func num(t *testing.T, src string) float64 {
	t.Helper()
	v, err := Parse(src)
	if err != nil {
		t.Fatalf("Parse(%q): %v", src, err)
	}
	if v.Kind != Number {
		t.Fatalf("Parse(%q): kind %s", src, v.Kind)
	}
	return v.Num
}

func TestNumbers(t *testing.T) {
	cases := map[string]float64{
		"0": 0, "7": 7, "-7": -7, "+7": 7, "- 7": -7, "- -7": 7, "-+7": -7,
		"1.5": 1.5, ".5": .5, "5.": 5, "1e3": 1000, "1E+3": 1000, "1e-3": 0.001, "1.e2": 100,
		"0x10": 16, "0XfF": 255, "0o17": 15, "0b101": 5, "1_000": 1000, "0x1_0": 16, "1.0_1": 1.01,
		"9223372036854775807":  9223372036854775808,
		"18446744073709551615": 18446744073709551616,
		"0.1":                  0.1,
		"1e400":                math.Inf(1),
		"-1e400":               math.Inf(-1),
		"Infinity":             math.Inf(1),
		"-Infinity":            math.Inf(-1),
		"+Infinity":            math.Inf(1),
		"5e-324":               5e-324,
		"1e-400":               0,
		"0x20000000000001":     9007199254740992, // 2^53+1 ties to even
		"0x20000000000003":     9007199254740996, // 2^53+3 rounds up
		"0x1fffffffffffff":     9007199254740991,
		" /*c*/ 1 // x":        1, "(1)": 1, "\u00a0\ufeff1\u2028": 1,
	}
	for src, want := range cases {
		if got := num(t, src); got != want {
			t.Errorf("%q = %v, want %v", src, got, want)
		}
	}
	if got := num(t, strconv.FormatFloat(math.MaxFloat64, 'f', -1, 64)); got != math.MaxFloat64 {
		t.Errorf("MaxFloat64 in 'f' format = %v", got)
	}
	if got := num(t, strconv.FormatFloat(5e-324, 'f', -1, 64)); got != 5e-324 {
		t.Errorf("smallest denormal in 'f' format = %v", got)
	}
	if !math.IsNaN(num(t, "NaN")) || !math.IsNaN(num(t, "-NaN")) {
		t.Error("NaN")
	}
	if z := num(t, "-0"); z != 0 || !math.Signbit(z) {
		t.Error("-0 must be negative zero")
	}
}

func TestErrors(t *testing.T) {
	bad := []string{
		"", " ", "+Inf", "-Inf", "Inf", "nan", "Nan", "infinity", "x", "foo()", "1 2", "1,2", "1;",
		"010", "08", "0_1", "1__0", "1_", "_1", "1._5", "1e", "1e+", "0x", "0b2", "0o8", "1n", "3in", "1a", ".",
		"--1", "++1", "-null", "-\"a\"", "-[]", "!0", "1+1", "a.b",
		`"abc`, `'abc`, "\"a\nb\"", "\"a\rb\"", `"\x1"`, `"\u12"`, `"\u{110000}"`, `"\u{}"`, `"\1"`, `"\07"`, `"\8"`, `"\00"`,
		"[1", "[1 2]", "[1,,", "{", "{a}", "{a:}", "{a:1 b:2}", `{"a" 1}`, "{[a]:1}", "{...a}", "[...a]", "{a:1,,}", "{,}",
		`{"__proto__":1,"__proto__":2}`, `{__proto__:1,"__proto__":null}`,
		"new Date", "new Date()", "new Foo(1)", `new Date("x", 1)`, "new Date(null)", "`a`", "/a/", "/* unterminated", "null null",
		"undefined/* x */ y", "true false",
	}
	for _, src := range bad {
		if v, err := Parse(src); err == nil {
			t.Errorf("Parse(%q) succeeded with kind %s, want error", src, v.Kind)
		}
	}
}

func TestKeywordsAndComments(t *testing.T) {
	for src, k := range map[string]Kind{
		"null": Null, "true": Bool, "false": Bool, "undefined": Undefined, "[]": Array, "{}": Object, `""`: String,
		"undefined/* scriggo: cannot represent a chan int value */": Undefined,
		"// c\nnull": Null, "null// c": Null, "\tnull\r\n": Null,
	} {
		v, err := Parse(src)
		if err != nil || v.Kind != k {
			t.Errorf("Parse(%q) = %v, %v; want kind %s", src, v, err, k)
		}
	}
	if v, _ := Parse("true"); !v.Bool {
		t.Error("true")
	}
}

func TestStrings(t *testing.T) {
	cases := map[string]string{
		`""`: "", `''`: "", `"a"`: "a", `'a"b'`: `a"b`, `"a'b"`: "a'b",
		`"\b\t\n\v\f\r"`: "\b\t\n\v\f\r", `"\0"`: "\x00", `"\0a"`: "\x00a",
		`"\x41\x7f\xff"`: "A\x7f\u00ff", "\"A\u00e9\\u2028\\u2029\"": "A\u00e9\u2028\u2029",
		`"\u{41}\u{1F600}\u{10FFFF}"`: "A\U0001F600\U0010FFFF",
		`"😀"`:                         "\U0001F600", `"😀x"`: "\U0001F600x",
		`"\a\q\/\"\'\\"`: `aq/"'\`,
		"\"a\\\nb\"":     "ab", "\"a\\\r\nb\"": "ab", "\"a\\\rb\"": "ab", "\"a\\\u2028b\"": "ab",
		"\"\u2028\u2029\"": "\u2028\u2029", // allowed unescaped since ES2019
		"\"\t\"":           "\t", "\"\x00\"": "\x00",
		`"<>&'"`:           "<>&'",
		"\"hé\U0001F600\"": "hé\U0001F600",
		"\"\xff\xfe\"":     "\ufffd\ufffd", // bytes that are not UTF-8 decode to U+FFFD
		`"\é"`:             "é",
	}
	for src, want := range cases {
		v, err := Parse(src)
		if err != nil {
			t.Errorf("Parse(%q): %v", src, err)
			continue
		}
		if v.Kind != String || v.Str != want || v.LoneSurrogate {
			t.Errorf("Parse(%q) = %q (lone=%v), want %q", src, v.Str, v.LoneSurrogate, want)
		}
	}
	for _, src := range []string{`"\ud83d"`, `"\ude00\ud83d"`, `"\ud83dx"`, `"\u{D800}"`} {
		v, err := Parse(src)
		if err != nil || !v.LoneSurrogate || !strings.Contains(v.Str, "\ufffd") {
			t.Errorf("Parse(%q) = %+v, %v; want lone surrogate", src, v, err)
		}
	}
}

func TestArraysObjects(t *testing.T) {
	v, err := Parse(` [ 1 , "a" , [ ] , [null,], {} , -2.5, [,] ] `)
	if err != nil {
		t.Fatal(err)
	}
	if len(v.Arr) != 7 || v.Arr[0].Num != 1 || v.Arr[1].Str != "a" || len(v.Arr[2].Arr) != 0 || len(v.Arr[3].Arr) != 1 ||
		v.Arr[3].Arr[0].Kind != Null || v.Arr[4].Kind != Object || v.Arr[5].Num != -2.5 || len(v.Arr[6].Arr) != 1 || v.Arr[6].Arr[0].Kind != Undefined {
		t.Errorf("array: %+v", v)
	}
	v, err = Parse(`{a:1, "b c":2, 'd':3, 1:4, 1.50:5, 0x10:6, if:7, $_:8, ab:9, "a":10, 1e21:11, .5:12, é:13,}`)
	if err != nil {
		t.Fatal(err)
	}
	wantKeys := []string{"a", "b c", "d", "1", "1.5", "16", "if", "$_", "ab", "1e+21", "0.5", "é"}
	if len(v.Obj) != len(wantKeys) {
		t.Fatalf("object: %+v", v.Obj)
	}
	for i, k := range wantKeys {
		if v.Obj[i].Key != k {
			t.Errorf("key %d = %q, want %q", i, v.Obj[i].Key, k)
		}
	}
	if a, _ := v.Get("a"); a.Num != 10 {
		t.Errorf("duplicate key: later definition must win, got %v", a.Num)
	}
	if len(v.SrcKeys) != 13 || v.SrcKeys[9] != "a" {
		t.Errorf("SrcKeys: %q", v.SrcKeys)
	}
	// __proto__ sets the prototype, it is not an own property
	v, err = Parse(`{"a":1,"__proto__":{"x":2},"b":3}`)
	if err != nil {
		t.Fatal(err)
	}
	if len(v.Obj) != 2 || v.Proto == nil || v.Proto.Kind != Object {
		t.Errorf("__proto__: %+v", v)
	}
	// nested
	v, err = Parse(`{"a":{"b":[{"c":null}]}}`)
	if err != nil {
		t.Fatal(err)
	}
	a, _ := v.Get("a")
	b, _ := a.Get("b")
	c, ok := b.Arr[0].Get("c")
	if !ok || c.Kind != Null {
		t.Error("nested")
	}
	// deep nesting does not blow the stack and is bounded
	if _, err := Parse(strings.Repeat("[", 100) + strings.Repeat("]", 100)); err != nil {
		t.Error(err)
	}
	if _, err := Parse(strings.Repeat("[", 100000)); err == nil {
		t.Error("want error")
	}
}

func TestNumberToString(t *testing.T) {
	for x, want := range map[float64]string{
		0: "0", 1: "1", -1: "-1", 1.5: "1.5", 123: "123", 1e21: "1e+21", 1e20: "100000000000000000000", 123456789012345680000: "123456789012345680000",
		1e-6: "0.000001", 1e-7: "1e-7", 1.5e-7: "1.5e-7", 0.1: "0.1", 1.2345e25: "1.2345e+25", 5e-324: "5e-324",
		math.MaxFloat64: "1.7976931348623157e+308", math.Inf(1): "Infinity", math.Inf(-1): "-Infinity", 100: "100", 0.5: "0.5", 12.5: "12.5",
	} {
		if got := NumberToString(x); got != want {
			t.Errorf("NumberToString(%v) = %q, want %q", x, got, want)
		}
	}
	if NumberToString(math.NaN()) != "NaN" {
		t.Error("NaN")
	}
}

func TestDates(t *testing.T) {
	ok := map[string]time.Time{
		"2016-01-02T15:04:05.000Z":      time.Date(2016, 1, 2, 15, 4, 5, 0, time.UTC),
		"2016-01-02T15:04:05.123Z":      time.Date(2016, 1, 2, 15, 4, 5, 123e6, time.UTC),
		"2016-01-02T15:04:05.1Z":        time.Date(2016, 1, 2, 15, 4, 5, 100e6, time.UTC),
		"2016-01-02T15:04:05.123456Z":   time.Date(2016, 1, 2, 15, 4, 5, 123e6, time.UTC),
		"2016-01-02T15:04:05Z":          time.Date(2016, 1, 2, 15, 4, 5, 0, time.UTC),
		"2016-01-02T15:04Z":             time.Date(2016, 1, 2, 15, 4, 0, 0, time.UTC),
		"2016-01-02T15:04:05.000+01:30": time.Date(2016, 1, 2, 13, 34, 5, 0, time.UTC),
		"2016-01-02T15:04:05.000-00:30": time.Date(2016, 1, 2, 15, 34, 5, 0, time.UTC),
		"2016-01-02T15:04:05.000-11:00": time.Date(2016, 1, 3, 2, 4, 5, 0, time.UTC),
		"2016-01-02":                    time.Date(2016, 1, 2, 0, 0, 0, 0, time.UTC),
		"2016-03":                       time.Date(2016, 3, 1, 0, 0, 0, 0, time.UTC),
		"2016":                          time.Date(2016, 1, 1, 0, 0, 0, 0, time.UTC),
		"1970-01-01T00:00:00.000Z":      time.Unix(0, 0),
		"1969-12-31T23:59:59.999Z":      time.Unix(0, -1e6),
		"0000-01-01T00:00:00.000Z":      time.Date(0, 1, 1, 0, 0, 0, 0, time.UTC),
		"0001-01-01T00:00:00.000Z":      time.Time{},
		"2000-02-29T24:00:00.000Z":      time.Date(2000, 3, 1, 0, 0, 0, 0, time.UTC),
		"+012345-06-07T08:09:10.011Z":   time.Date(12345, 6, 7, 8, 9, 10, 11e6, time.UTC),
		"-000001-01-01T00:00:00.000Z":   time.Date(-1, 1, 1, 0, 0, 0, 0, time.UTC),
		"-271821-04-20T00:00:00.000Z":   time.Date(-271821, 4, 20, 0, 0, 0, 0, time.UTC),
		"+275760-09-13T00:00:00.000Z":   time.Date(275760, 9, 13, 0, 0, 0, 0, time.UTC),
		"+002016-01-02T15:04:05.000Z":   time.Date(2016, 1, 2, 15, 4, 5, 0, time.UTC),
		"9999-12-31T23:59:59.999+00:00": time.Date(9999, 12, 31, 23, 59, 59, 999e6, time.UTC),
	}
	for s, want := range ok {
		ms, err := ParseDate(s)
		if err != nil {
			t.Errorf("ParseDate(%q): %v", s, err)
			continue
		}
		// UnixMilli overflows outside ±292e6 years only
		if int64(ms) != want.Unix()*1000+int64(want.Nanosecond())/1e6 {
			t.Errorf("ParseDate(%q) = %v, want %v", s, int64(ms), want.UnixMilli())
		}
	}
	for _, s := range []string{"+275760-09-13T00:00:00.001Z", "-271821-04-19T23:59:59.999Z", "+999999-01-01T00:00:00.000Z"} {
		ms, err := ParseDate(s)
		if err != nil || !math.IsNaN(ms) {
			t.Errorf("ParseDate(%q) = %v, %v; want NaN (out of range), nil", s, ms, err)
		}
	}
	for _, s := range []string{
		"", "16-01-02", "2016-1-2", "2016-13-01", "2016-00-01", "2016-02-30", "2015-02-29", "2016-01-02T25:00:00Z", "2016-01-02T24:00:01Z",
		"2016-01-02T15:60:00Z", "2016-01-02T15:04:60Z", "2016-01-02T15:04:05.Z", "2016-01-02T15Z", "2016-01-02T15:04:05.000", "2016-01-02T15:04:05",
		"2016-01-02T15:04:05.000+1:00", "2016-01-02T15:04:05.000+0100", "2016-01-02T15:04:05.000+24:00", "2016-01-02T15:04:05.000+01:60",
		"2016-01-02T15:04:05.000+01", "2016-01-02t15:04:05.000Z", "2016-01-02 15:04:05.000Z", "2016-01-02T15:04:05.000z", "2016-01-02T15:04:05.000ZZ",
		"-000000-01-01T00:00:00.000Z", "+12345-01-01T00:00:00.000Z", "12345-01-01T00:00:00.000Z", "+0012345-01-01T00:00:00.000Z", "2016-01-02T15:04:05.000+Inf",
		"2016-01-02T15:04:05.000+00:-3", "Sat, 02 Jan 2016", "2016-01-02Z",
	} {
		if ms, err := ParseDate(s); err == nil {
			t.Errorf("ParseDate(%q) = %v, want error", s, ms)
		}
	}
	v, err := Parse(` new  Date ( "2016-01-02T15:04:05.000Z" ) `)
	if err != nil || v.Kind != Date || v.Num != 1451747045000 {
		t.Errorf("new Date: %+v %v", v, err)
	}
	v, err = Parse(`new Date(1451747045000.7)`)
	if err != nil || v.Kind != Date || v.Num != 1451747045000 {
		t.Errorf("new Date(number): %+v %v", v, err)
	}
	v, err = Parse(`new Date("2016-01-02T15:04:05.000+00:-3")`)
	if err != nil || v.Kind != Date || !math.IsNaN(v.Num) {
		t.Errorf("bad date string must evaluate to Invalid Date: %+v %v", v, err)
	}
	v, err = Parse(`[new Date("2016-01-02"),{"d":new Date(0)}]`)
	if err != nil || v.Arr[0].Kind != Date || v.Arr[1].Obj[0].Val.Kind != Date {
		t.Errorf("nested dates: %+v %v", v, err)
	}
}
