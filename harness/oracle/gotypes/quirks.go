package gotypes

import (
	"go/ast"
	"go/constant"
	"go/token"
	"go/types"
	"strings"
)

// MaxShiftCount is the largest constant shift count go/types and gc accept
// (an implementation restriction, 1023-1+52, not a rule of the specification).
const MaxShiftCount = 1074

// NotTrusted returns a non-empty reason if the program touches a point where
// go/types (go1.25) is known to deviate from the language specification, so
// that its verdict must not be used as reference:
//
//   - a constant shift count in (MaxShiftCount, 2^64) is refused by an
//     implementation restriction;
//   - a typed constant of non-integer type (float64(2), string(1)) is
//     accepted as shift count although the specification wants an integer type
//     or an untyped constant;
//   - copy(nil, "string") is accepted (and crashes gc);
//   - "constant result is not representable" is an implementation limit of
//     go/constant for complex division with astronomically large exponents.
func NotTrusted(r *Result) string {
	for _, e := range r.Errs {
		if strings.Contains(e.Error(), "constant result is not representable") {
			return "go/constant complex division limit"
		}
	}
	if r.File == nil || r.Info == nil {
		return ""
	}
	reason := ""
	limit := constant.MakeInt64(MaxShiftCount)
	top := constant.Shift(constant.MakeInt64(1), token.SHL, 64)
	shiftCount := func(y ast.Expr) {
		tv, ok := r.Info.Types[y]
		if !ok || tv.Value == nil || tv.Type == nil {
			return
		}
		if b, ok := tv.Type.Underlying().(*types.Basic); ok && b.Info()&types.IsUntyped == 0 && b.Info()&types.IsInteger == 0 {
			reason = "typed non-integer constant shift count"
			return
		}
		v := constant.ToInt(tv.Value)
		if v.Kind() == constant.Int && constant.Compare(v, token.GTR, limit) && constant.Compare(v, token.LSS, top) {
			reason = "constant shift count above 1074"
		}
	}
	ast.Inspect(r.File, func(n ast.Node) bool {
		switch x := n.(type) {
		case *ast.BinaryExpr:
			if x.Op == token.SHL || x.Op == token.SHR {
				shiftCount(x.Y)
			}
		case *ast.AssignStmt:
			if (x.Tok == token.SHL_ASSIGN || x.Tok == token.SHR_ASSIGN) && len(x.Rhs) == 1 {
				shiftCount(x.Rhs[0])
			}
		case *ast.CallExpr:
			if id, ok := x.Fun.(*ast.Ident); ok && id.Name == "copy" && len(x.Args) == 2 {
				if a, ok := x.Args[0].(*ast.Ident); ok && a.Name == "nil" {
					reason = "copy with untyped nil destination"
				}
			}
		}
		return true
	})
	return reason
}
