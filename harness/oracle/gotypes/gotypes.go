// Package gotypes wraps go/parser + go/types as the reference type checker
// (and, through go/constant, the reference constant evaluator) for C02 and C03.
package gotypes

import (
	"errors"
	"go/ast"
	"go/parser"
	"go/token"
	"go/types"
)

// Result is the outcome of checking one source file as package main.
type Result struct {
	Fset     *token.FileSet
	File     *ast.File // nil if the file does not parse
	Info     *types.Info
	Pkg      *types.Package
	ParseErr error   // first syntax error (nil if the file parses)
	Errs     []error // type errors (hard and soft), in order
}

// Accepted reports whether the source parses and type checks without error.
func (r *Result) Accepted() bool { return r.ParseErr == nil && len(r.Errs) == 0 }

// FirstError returns the first error or "".
func (r *Result) FirstError() string {
	if r.ParseErr != nil {
		return "syntax: " + r.ParseErr.Error()
	}
	if len(r.Errs) > 0 {
		return r.Errs[0].Error()
	}
	return ""
}

// GoVersion is the language version the reference is asked to apply. go1.20
// predates the min/max/clear builtins (go1.21) and range-over-int/func (go1.22,
// go1.23), none of which scriggo implements, so the reference rejects them too.
const GoVersion = "go1.20"

// Check parses and type checks src as the single file of package main.
// imp may be nil if the program has no imports.
func Check(src string, imp types.Importer) *Result {
	r := &Result{Fset: token.NewFileSet()}
	f, err := parser.ParseFile(r.Fset, "main.go", src, parser.SkipObjectResolution)
	if err != nil {
		r.ParseErr = err
		return r
	}
	r.File = f
	r.Info = &types.Info{
		Types: map[ast.Expr]types.TypeAndValue{},
		Defs:  map[*ast.Ident]types.Object{},
		Uses:  map[*ast.Ident]types.Object{},
	}
	conf := types.Config{
		GoVersion: GoVersion,
		Importer:  imp,
		Error:     func(err error) { r.Errs = append(r.Errs, err) },
	}
	r.Pkg, _ = conf.Check("main", r.Fset, []*ast.File{f}, r.Info)
	// go/types checks the signature of main but not its presence; the language
	// specification ("Program execution") and gc require package main to declare
	// a function main.
	// Likewise a program is package main, and gc refuses a function
	// declaration without body (go/types accepts it as externally defined).
	if len(r.Errs) == 0 {
		found := false
		for _, d := range f.Decls {
			if fd, ok := d.(*ast.FuncDecl); ok {
				if fd.Recv == nil && fd.Name.Name == "main" {
					found = true
				}
				if fd.Body == nil {
					r.Errs = append(r.Errs, errors.New("missing function body"))
				}
			}
		}
		if f.Name.Name != "main" {
			r.Errs = append(r.Errs, errors.New("package name must be main"))
		} else if !found {
			r.Errs = append(r.Errs, errors.New("function main is undeclared in the main package"))
		}
	}
	return r
}
