// Package csstok is a tokenizer for CSS written from "CSS Syntax Module Level 3"
// §3.3 (preprocessing) and §4 (tokenization). It is an oracle: it knows nothing
// about scriggo and follows the algorithms of the specification step by step.
// Unlike the specification it also returns comments as tokens, so that a
// checker can see what a comment contains.
package csstok

import (
	"strings"
	"unicode/utf8"
)

// Kind is a token type.
type Kind int

const (
	EOF Kind = iota
	Comment
	Ident
	Function
	AtKeyword
	Hash
	String
	BadString
	URL
	BadURL
	Delim
	Number
	Percentage
	Dimension
	Whitespace
	CDO
	CDC
	Colon
	Semicolon
	Comma
	LBracket
	RBracket
	LParen
	RParen
	LBrace
	RBrace
)

var kindNames = [...]string{"EOF", "Comment", "Ident", "Function", "AtKeyword", "Hash", "String", "BadString", "URL", "BadURL",
	"Delim", "Number", "Percentage", "Dimension", "Whitespace", "CDO", "CDC", "Colon", "Semicolon", "Comma",
	"LBracket", "RBracket", "LParen", "RParen", "LBrace", "RBrace"}

func (k Kind) String() string { return kindNames[k] }

// Token is a CSS token.
type Token struct {
	Kind         Kind
	Value        string // decoded value: name of ident/function/at-keyword/hash, string/url content, delim code point, comment body
	Repr         string // for numeric tokens: the number as written
	Unit         string // for Dimension
	ID           bool   // for Hash: type flag "id"
	Unterminated bool   // Comment or String/URL ended by EOF (parse error)
}

const eof = rune(-1)

type tokenizer struct {
	in  []rune
	pos int
}

// Preprocess implements §3.3: CR, FF and CRLF become LF; NUL and surrogates
// become U+FFFD. Invalid UTF-8 bytes decode to U+FFFD as a decoder would do.
func Preprocess(s string) []rune {
	out := make([]rune, 0, len(s))
	for i := 0; i < len(s); {
		r, size := utf8.DecodeRuneInString(s[i:])
		i += size
		switch {
		case r == '\r':
			if i < len(s) && s[i] == '\n' {
				i++
			}
			r = '\n'
		case r == '\f':
			r = '\n'
		case r == 0:
			r = 0xFFFD
		}
		out = append(out, r)
	}
	return out
}

// Tokenize returns all tokens of s, ending with an EOF token.
func Tokenize(s string) []Token {
	z := &tokenizer{in: Preprocess(s)}
	var toks []Token
	for {
		t := z.next()
		toks = append(toks, t)
		if t.Kind == EOF {
			return toks
		}
	}
}

func (z *tokenizer) peek(n int) rune {
	if z.pos+n < len(z.in) {
		return z.in[z.pos+n]
	}
	return eof
}

func (z *tokenizer) consume() rune {
	if z.pos < len(z.in) {
		r := z.in[z.pos]
		z.pos++
		return r
	}
	z.pos++
	return eof
}

func (z *tokenizer) reconsume() { z.pos-- }

func isDigit(r rune) bool    { return '0' <= r && r <= '9' }
func isHexDigit(r rune) bool { return isDigit(r) || 'a' <= r && r <= 'f' || 'A' <= r && r <= 'F' }
func isLetter(r rune) bool   { return 'a' <= r && r <= 'z' || 'A' <= r && r <= 'Z' }
func isNonASCII(r rune) bool { return r >= 0x80 }
func isIdentStart(r rune) bool {
	return isLetter(r) || isNonASCII(r) || r == '_'
}
func isIdentChar(r rune) bool { return isIdentStart(r) || isDigit(r) || r == '-' }
func isNonPrintable(r rune) bool {
	return 0 <= r && r <= 8 || r == 0xB || 0xE <= r && r <= 0x1F || r == 0x7F
}
func isNewline(r rune) bool    { return r == '\n' }
func isWhitespace(r rune) bool { return r == '\n' || r == '\t' || r == ' ' }

// §4.3.8 check if two code points are a valid escape
func validEscape(a, b rune) bool {
	if a != '\\' {
		return false
	}
	return !isNewline(b)
}

// §4.3.9 check if three code points would start an ident sequence
func startsIdent(a, b, c rune) bool {
	switch {
	case a == '-':
		return isIdentStart(b) || b == '-' || validEscape(b, c)
	case isIdentStart(a):
		return true
	case a == '\\':
		return validEscape(a, b)
	}
	return false
}

// §4.3.10 check if three code points would start a number
func startsNumber(a, b, c rune) bool {
	switch {
	case a == '+' || a == '-':
		if isDigit(b) {
			return true
		}
		return b == '.' && isDigit(c)
	case a == '.':
		return isDigit(b)
	}
	return isDigit(a)
}

// §4.3.1 consume a token
func (z *tokenizer) next() Token {
	// consume comments
	if z.peek(0) == '/' && z.peek(1) == '*' {
		z.pos += 2
		start := z.pos
		for {
			if z.peek(0) == eof {
				body := string(z.in[min(start, len(z.in)):])
				z.pos = len(z.in)
				return Token{Kind: Comment, Value: body, Unterminated: true}
			}
			if z.peek(0) == '*' && z.peek(1) == '/' {
				body := string(z.in[start:z.pos])
				z.pos += 2
				return Token{Kind: Comment, Value: body}
			}
			z.pos++
		}
	}
	c := z.consume()
	switch {
	case isWhitespace(c):
		for isWhitespace(z.peek(0)) {
			z.pos++
		}
		return Token{Kind: Whitespace}
	case c == '"' || c == '\'':
		return z.consumeString(c)
	case c == '#':
		if isIdentChar(z.peek(0)) || validEscape(z.peek(0), z.peek(1)) {
			t := Token{Kind: Hash}
			if startsIdent(z.peek(0), z.peek(1), z.peek(2)) {
				t.ID = true
			}
			t.Value = z.consumeIdentSequence()
			return t
		}
		return Token{Kind: Delim, Value: "#"}
	case c == '(':
		return Token{Kind: LParen}
	case c == ')':
		return Token{Kind: RParen}
	case c == '+':
		if startsNumber(c, z.peek(0), z.peek(1)) {
			z.reconsume()
			return z.consumeNumeric()
		}
		return Token{Kind: Delim, Value: "+"}
	case c == ',':
		return Token{Kind: Comma}
	case c == '-':
		if startsNumber(c, z.peek(0), z.peek(1)) {
			z.reconsume()
			return z.consumeNumeric()
		}
		if z.peek(0) == '-' && z.peek(1) == '>' {
			z.pos += 2
			return Token{Kind: CDC}
		}
		if startsIdent(c, z.peek(0), z.peek(1)) {
			z.reconsume()
			return z.consumeIdentLike()
		}
		return Token{Kind: Delim, Value: "-"}
	case c == '.':
		if startsNumber(c, z.peek(0), z.peek(1)) {
			z.reconsume()
			return z.consumeNumeric()
		}
		return Token{Kind: Delim, Value: "."}
	case c == ':':
		return Token{Kind: Colon}
	case c == ';':
		return Token{Kind: Semicolon}
	case c == '<':
		if z.peek(0) == '!' && z.peek(1) == '-' && z.peek(2) == '-' {
			z.pos += 3
			return Token{Kind: CDO}
		}
		return Token{Kind: Delim, Value: "<"}
	case c == '@':
		if startsIdent(z.peek(0), z.peek(1), z.peek(2)) {
			return Token{Kind: AtKeyword, Value: z.consumeIdentSequence()}
		}
		return Token{Kind: Delim, Value: "@"}
	case c == '[':
		return Token{Kind: LBracket}
	case c == '\\':
		if validEscape(c, z.peek(0)) {
			z.reconsume()
			return z.consumeIdentLike()
		}
		return Token{Kind: Delim, Value: "\\"}
	case c == ']':
		return Token{Kind: RBracket}
	case c == '{':
		return Token{Kind: LBrace}
	case c == '}':
		return Token{Kind: RBrace}
	case isDigit(c):
		z.reconsume()
		return z.consumeNumeric()
	case isIdentStart(c):
		z.reconsume()
		return z.consumeIdentLike()
	case c == eof:
		return Token{Kind: EOF}
	}
	return Token{Kind: Delim, Value: string(c)}
}

// §4.3.3 consume a numeric token
func (z *tokenizer) consumeNumeric() Token {
	repr := z.consumeNumber()
	if startsIdent(z.peek(0), z.peek(1), z.peek(2)) {
		return Token{Kind: Dimension, Repr: repr, Unit: z.consumeIdentSequence()}
	}
	if z.peek(0) == '%' {
		z.pos++
		return Token{Kind: Percentage, Repr: repr}
	}
	return Token{Kind: Number, Repr: repr}
}

// §4.3.12 consume a number
func (z *tokenizer) consumeNumber() string {
	var b strings.Builder
	if c := z.peek(0); c == '+' || c == '-' {
		b.WriteRune(z.consume())
	}
	for isDigit(z.peek(0)) {
		b.WriteRune(z.consume())
	}
	if z.peek(0) == '.' && isDigit(z.peek(1)) {
		b.WriteRune(z.consume())
		for isDigit(z.peek(0)) {
			b.WriteRune(z.consume())
		}
	}
	if c := z.peek(0); c == 'e' || c == 'E' {
		if n := z.peek(1); isDigit(n) || (n == '+' || n == '-') && isDigit(z.peek(2)) {
			b.WriteRune(z.consume())
			b.WriteRune(z.consume())
			for isDigit(z.peek(0)) {
				b.WriteRune(z.consume())
			}
		}
	}
	return b.String()
}

// §4.3.4 consume an ident-like token
func (z *tokenizer) consumeIdentLike() Token {
	s := z.consumeIdentSequence()
	if strings.EqualFold(s, "url") && z.peek(0) == '(' {
		z.pos++
		for isWhitespace(z.peek(0)) && isWhitespace(z.peek(1)) {
			z.pos++
		}
		a, b := z.peek(0), z.peek(1)
		if a == '"' || a == '\'' || isWhitespace(a) && (b == '"' || b == '\'') {
			return Token{Kind: Function, Value: s}
		}
		return z.consumeURL()
	}
	if z.peek(0) == '(' {
		z.pos++
		return Token{Kind: Function, Value: s}
	}
	return Token{Kind: Ident, Value: s}
}

// §4.3.5 consume a string token
func (z *tokenizer) consumeString(end rune) Token {
	var b strings.Builder
	for {
		c := z.consume()
		switch {
		case c == end:
			return Token{Kind: String, Value: b.String()}
		case c == eof:
			return Token{Kind: String, Value: b.String(), Unterminated: true}
		case isNewline(c):
			z.reconsume()
			return Token{Kind: BadString, Value: b.String()}
		case c == '\\':
			n := z.peek(0)
			if n == eof {
				// do nothing
			} else if isNewline(n) {
				z.pos++
			} else {
				b.WriteRune(z.consumeEscaped())
			}
		default:
			b.WriteRune(c)
		}
	}
}

// §4.3.6 consume a url token
func (z *tokenizer) consumeURL() Token {
	var b strings.Builder
	for isWhitespace(z.peek(0)) {
		z.pos++
	}
	for {
		c := z.consume()
		switch {
		case c == ')':
			return Token{Kind: URL, Value: b.String()}
		case c == eof:
			return Token{Kind: URL, Value: b.String(), Unterminated: true}
		case isWhitespace(c):
			for isWhitespace(z.peek(0)) {
				z.pos++
			}
			if z.peek(0) == ')' {
				z.pos++
				return Token{Kind: URL, Value: b.String()}
			}
			if z.peek(0) == eof {
				z.pos++
				return Token{Kind: URL, Value: b.String(), Unterminated: true}
			}
			z.consumeBadURLRemnants()
			return Token{Kind: BadURL}
		case c == '"' || c == '\'' || c == '(' || isNonPrintable(c):
			z.consumeBadURLRemnants()
			return Token{Kind: BadURL}
		case c == '\\':
			if validEscape(c, z.peek(0)) {
				b.WriteRune(z.consumeEscaped())
			} else {
				z.consumeBadURLRemnants()
				return Token{Kind: BadURL}
			}
		default:
			b.WriteRune(c)
		}
	}
}

// §4.3.14 consume the remnants of a bad url
func (z *tokenizer) consumeBadURLRemnants() {
	for {
		c := z.consume()
		if c == ')' || c == eof {
			return
		}
		if validEscape(c, z.peek(0)) {
			z.consumeEscaped()
		}
	}
}

// §4.3.7 consume an escaped code point (the backslash has been consumed)
func (z *tokenizer) consumeEscaped() rune {
	c := z.consume()
	switch {
	case isHexDigit(c):
		v := hexVal(c)
		for i := 0; i < 5 && isHexDigit(z.peek(0)); i++ {
			v = v*16 + hexVal(z.consume())
		}
		if isWhitespace(z.peek(0)) {
			z.pos++
		}
		if v == 0 || 0xD800 <= v && v <= 0xDFFF || v > 0x10FFFF {
			return 0xFFFD
		}
		return v
	case c == eof:
		return 0xFFFD
	}
	return c
}

func hexVal(c rune) rune {
	switch {
	case isDigit(c):
		return c - '0'
	case 'a' <= c && c <= 'f':
		return c - 'a' + 10
	}
	return c - 'A' + 10
}

// §4.3.11 consume an ident sequence
func (z *tokenizer) consumeIdentSequence() string {
	var b strings.Builder
	for {
		c := z.consume()
		switch {
		case isIdentChar(c):
			b.WriteRune(c)
		case validEscape(c, z.peek(0)):
			b.WriteRune(z.consumeEscaped())
		default:
			z.reconsume()
			return b.String()
		}
	}
}
