package csstok

import (
	"strings"
	"testing"
)

func render(toks []Token) string {
	var b strings.Builder
	for i, t := range toks {
		if i > 0 {
			b.WriteByte(' ')
		}
		switch t.Kind {
		case Ident, Function, AtKeyword, String, BadString, URL, Delim, Comment:
			b.WriteString(t.Kind.String() + "(" + t.Value + ")")
		case Hash:
			if t.ID {
				b.WriteString("Hash(id:" + t.Value + ")")
			} else {
				b.WriteString("Hash(" + t.Value + ")")
			}
		case Number, Percentage:
			b.WriteString(t.Kind.String() + "(" + t.Repr + ")")
		case Dimension:
			b.WriteString("Dimension(" + t.Repr + "," + t.Unit + ")")
		case Whitespace:
			b.WriteString("WS")
		default:
			b.WriteString(t.Kind.String())
		}
		if t.Unterminated {
			b.WriteString("!")
		}
	}
	return b.String()
}

func TestTokens(t *testing.T) {
	tests := []struct{ src, want string }{
		{"", "EOF"},
		{"p { color: red; }", "Ident(p) WS LBrace WS Ident(color) Colon WS Ident(red) Semicolon WS RBrace EOF"},
		{"a:hover{margin:0 auto}", "Ident(a) Colon Ident(hover) LBrace Ident(margin) Colon Number(0) WS Ident(auto) RBrace EOF"},
		{`"a b" 'c'`, "String(a b) WS String(c) EOF"},
		{`"a\"b"`, `String(a"b) EOF`},
		{`"a\\" x`, `String(a\) WS Ident(x) EOF`},
		{`"a\22 b"`, `String(a"b) EOF`},
		{`"a\22  b"`, `String(a" b) EOF`},
		{`"\3c c"`, `String(<c) EOF`},
		{`"\3cc"`, "String(ό) EOF"},
		{`"\000041x"`, `String(Ax) EOF`},
		{`"\0000410"`, `String(A0) EOF`},
		{`"\0"`, "String(�) EOF"},
		{`"\110000"`, "String(�) EOF"},
		{`"\d800"`, "String(�) EOF"},
		{"\"a\\\nb\"", "String(ab) EOF"},
		{"\"a\nb\"", "BadString(a) WS Ident(b) String()! EOF"},
		{"\"a\rb", "BadString(a) WS Ident(b) EOF"},
		{"\"a\fb", "BadString(a) WS Ident(b) EOF"},
		{`"abc`, "String(abc)! EOF"},
		{`"abc\`, "String(abc)! EOF"},
		{"/* c */a", "Comment( c ) Ident(a) EOF"},
		{"/* \" */ a", "Comment( \" ) WS Ident(a) EOF"},
		{"/* c", "Comment( c)! EOF"},
		{"/*/ a */b", "Comment(/ a ) Ident(b) EOF"},
		{"a/**/b", "Ident(a) Comment() Ident(b) EOF"},
		{"url(a.png)", "URL(a.png) EOF"},
		{"url( a.png )", "URL(a.png) EOF"},
		{"URL(a.png)", "URL(a.png) EOF"},
		{`url("a.png")`, "Function(url) String(a.png) RParen EOF"},
		{`url( 'a.png')`, "Function(url) WS String(a.png) RParen EOF"},
		{"url(a b)", "BadURL EOF"},
		{"url(a\"b) c", "BadURL WS Ident(c) EOF"},
		{"url(a(b) c", "BadURL WS Ident(c) EOF"},
		{`url(a\)b)`, "URL(a)b) EOF"},
		{"url(a", "URL(a)! EOF"},
		{"url(a\\\nb) c", "BadURL WS Ident(c) EOF"},
		{"url(a\x01) c", "BadURL WS Ident(c) EOF"},
		{"rgb(1,2)", "Function(rgb) Number(1) Comma Number(2) RParen EOF"},
		{"1 1.5 .5 -1 +1 1e3 1e+3 1e-3 1.5e2 1.", "Number(1) WS Number(1.5) WS Number(.5) WS Number(-1) WS Number(+1) WS Number(1e3) WS Number(1e+3) WS Number(1e-3) WS Number(1.5e2) WS Number(1) Delim(.) EOF"},
		{"10px 50% 1.5em -2e3rad 1e 1e- 3n+1", "Dimension(10,px) WS Percentage(50) WS Dimension(1.5,em) WS Dimension(-2e3,rad) WS Dimension(1,e) WS Dimension(1,e-) WS Dimension(3,n) Number(+1) EOF"},
		{"1--5 1-a", "Dimension(1,--5) WS Dimension(1,-a) EOF"},
		{"- + . -a --a -1a", "Delim(-) WS Delim(+) WS Delim(.) WS Ident(-a) WS Ident(--a) WS Dimension(-1,a) EOF"},
		{"#id #1a #-x #- # ##", "Hash(id:id) WS Hash(1a) WS Hash(id:-x) WS Hash(-) WS Delim(#) WS Delim(#) Delim(#) EOF"},
		{"@media @-x @ @1", "AtKeyword(media) WS AtKeyword(-x) WS Delim(@) WS Delim(@) Number(1) EOF"},
		{"<!-- --> <! -- >", "CDO WS CDC WS Delim(<) Delim(!) WS Ident(--) WS Delim(>) EOF"},
		{"a[b=c]{}(),;:", "Ident(a) LBracket Ident(b) Delim(=) Ident(c) RBracket LBrace RBrace LParen RParen Comma Semicolon Colon EOF"},
		{`\61 b \{x a\`, "Ident(ab) WS Ident({x) WS Ident(a�) EOF"},
		{"a\\\nb", "Ident(a) Delim(\\) WS Ident(b) EOF"},
		{"café πx _y", "Ident(café) WS Ident(πx) WS Ident(_y) EOF"},
		{"a\x00b", "Ident(a�b) EOF"},
		{"a\xffb", "Ident(a�b) EOF"},
		{"a\r\nb\rc\fd", "Ident(a) WS Ident(b) WS Ident(c) WS Ident(d) EOF"},
		{"a !important", "Ident(a) WS Delim(!) Ident(important) EOF"},
		{"expression(alert(1))", "Function(expression) Function(alert) Number(1) RParen RParen EOF"},
		{"a\vb", "Ident(a) Delim(\v) Ident(b) EOF"},
		{"u+26", "Ident(u) Number(+26) EOF"},
	}
	for _, tc := range tests {
		got := render(Tokenize(tc.src))
		if got != tc.want {
			t.Errorf("Tokenize(%q)\n got  %s\n want %s", tc.src, got, tc.want)
		}
	}
}
