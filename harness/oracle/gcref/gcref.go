// Package gcref runs Go programs with the gc toolchain as the executable
// reference model: many `package main` sources are compiled into ONE binary
// (each as its own package with main renamed to Main) and the binary is run
// once per program.
package gcref

import (
	"bytes"
	"context"
	"fmt"
	"os"
	"os/exec"
	"path/filepath"
	"regexp"
	"sort"
	"strings"
	"sync"
	"time"
)

// InitMarker is a declaration every program must contain as its first
// declaration; it prints a marker line when the package starts initialising so
// that the init output of one package can be cut out of the combined run.
const InitMarker = "var initMark = initMarker()\n\nfunc initMarker() int {\n\tprintln(\"=== init\")\n\treturn 0\n}\n"

// Outcome is the observed behaviour of one program under gc.
type Outcome struct {
	Built    bool   // false: the program did not compile (generator defect or invalid source)
	BuildErr string // compiler messages for this program
	Out      string // everything printed before a crash header
	Panic    string // "panic: ..." header lines joined with \n (without "[signal" lines), "" if none
	Fatal    string // "fatal error: ..." line, if any
	Exit     int
	TimedOut bool
	Unstable bool // RunN: the runs did not all behave the same (schedule-dependent program)
}

var pkgDecl = regexp.MustCompile(`(?m)^package main\b`)
var mainDecl = regexp.MustCompile(`(?m)^func main\(\)`)

// Run compiles and runs the sources. dir is a scratch directory that Run may fill and the caller removes.
func Run(goBin, dir string, sources []string, parallel int) ([]Outcome, error) {
	return RunN(goBin, dir, sources, parallel, 1)
}

// RunN is like Run but executes every program runs times with different
// GOMAXPROCS values and marks the programs whose behaviour varied.
func RunN(goBin, dir string, sources []string, parallel, runs int) ([]Outcome, error) {
	return RunExtra(goBin, dir, sources, parallel, runs, nil)
}

// RunExtra is like RunN; extra maps paths relative to the module root (module
// "progs") to the content of additional Go files, for example a package that
// mirrors the native package given to scriggo.
func RunExtra(goBin, dir string, sources []string, parallel, runs int, extra map[string]string) ([]Outcome, error) {
	outs := make([]Outcome, len(sources))
	if err := os.MkdirAll(dir, 0o755); err != nil {
		return nil, err
	}
	if err := os.WriteFile(filepath.Join(dir, "go.mod"), []byte("module progs\n\ngo 1.25\n"), 0o644); err != nil {
		return nil, err
	}
	for name, content := range extra {
		p := filepath.Join(dir, name)
		os.MkdirAll(filepath.Dir(p), 0o755)
		if err := os.WriteFile(p, []byte(content), 0o644); err != nil {
			return nil, err
		}
	}
	alive := make([]bool, len(sources))
	for i, src := range sources {
		if !pkgDecl.MatchString(src) || !mainDecl.MatchString(src) {
			outs[i].BuildErr = "source has no `package main` / `func main()`"
			continue
		}
		alive[i] = true
		s := pkgDecl.ReplaceAllString(src, fmt.Sprintf("package p%05d", i))
		s = mainDecl.ReplaceAllString(s, "func Main()")
		d := filepath.Join(dir, fmt.Sprintf("p%05d", i))
		os.MkdirAll(d, 0o755)
		if err := os.WriteFile(filepath.Join(d, "prog.go"), []byte(s), 0o644); err != nil {
			return nil, err
		}
	}
	bin := filepath.Join(dir, "all.bin")
	for attempt := 0; attempt < 6; attempt++ {
		var mb strings.Builder
		mb.WriteString("package main\n\nimport (\n\t\"os\"\n")
		n := 0
		for i := range sources {
			if alive[i] {
				fmt.Fprintf(&mb, "\tp%05d \"progs/p%05d\"\n", i, i)
				n++
			}
		}
		mb.WriteString(")\n\nfunc main() {\n\tprintln(\"=== run\")\n\tswitch os.Args[1] {\n")
		for i := range sources {
			if alive[i] {
				fmt.Fprintf(&mb, "\tcase \"%d\":\n\t\tp%05d.Main()\n", i, i)
			}
		}
		mb.WriteString("\t}\n}\n")
		if n == 0 {
			return outs, nil
		}
		os.WriteFile(filepath.Join(dir, "main.go"), []byte(mb.String()), 0o644)
		cmd := exec.Command(goBin, "build", "-gcflags=-e", "-o", bin, ".")
		cmd.Dir = dir
		cmd.Env = append(os.Environ(), "GOFLAGS=-mod=mod", "GOPROXY=off", "GOTOOLCHAIN=local", "GOWORK=off")
		out, err := cmd.CombinedOutput()
		if err == nil {
			break
		}
		// drop the packages that failed to compile and try again
		bad := map[int]bool{}
		for _, m := range regexp.MustCompile(`(?m)^(?:\./)?p(\d{5})/prog\.go:\d+:\d+: .*$`).FindAllStringSubmatch(string(out), -1) {
			var i int
			fmt.Sscanf(m[1], "%d", &i)
			bad[i] = true
			if len(outs[i].BuildErr) < 2000 {
				outs[i].BuildErr += m[0] + "\n"
			}
		}
		if len(bad) == 0 {
			return nil, fmt.Errorf("gc build failed: %v\n%s", err, truncate(string(out), 4000))
		}
		for i := range bad {
			alive[i] = false
			os.RemoveAll(filepath.Join(dir, fmt.Sprintf("p%05d", i)))
		}
		if attempt == 5 {
			return nil, fmt.Errorf("gc build still failing after dropping packages: %s", truncate(string(out), 2000))
		}
	}
	// order of package initialisation = sorted import paths
	var order []int
	for i := range sources {
		if alive[i] {
			order = append(order, i)
		}
	}
	sort.Ints(order)
	pos := map[int]int{}
	for k, i := range order {
		pos[i] = k
	}
	if parallel < 1 {
		parallel = 1
	}
	sem := make(chan struct{}, parallel)
	var wg sync.WaitGroup
	for _, i := range order {
		wg.Add(1)
		sem <- struct{}{}
		go func(i int) {
			defer wg.Done()
			defer func() { <-sem }()
			outs[i] = runOne(bin, i, pos[i], len(order), 2)
			for k := 1; k < runs; k++ {
				o := runOne(bin, i, pos[i], len(order), []int{1, 4, 16, 3}[k%4])
				if o.Out != outs[i].Out || o.Panic != outs[i].Panic || o.Fatal != outs[i].Fatal || o.TimedOut != outs[i].TimedOut {
					outs[i].Unstable = true
				}
			}
		}(i)
	}
	wg.Wait()
	return outs, nil
}

func truncate(s string, n int) string {
	if len(s) > n {
		return s[:n] + "…"
	}
	return s
}

func runOne(bin string, i, k, n, procs int) Outcome {
	ctx, cancel := context.WithTimeout(context.Background(), 10*time.Second)
	defer cancel()
	cmd := exec.CommandContext(ctx, bin, fmt.Sprint(i))
	// The output goes to a file, not to a pipe: the runtime's print writes a
	// long string with one write call and does not retry a short write, which
	// a pipe gives when the write is interrupted by a preemption signal.
	outf, ferr := os.CreateTemp(filepath.Dir(bin), "out-*")
	if ferr != nil {
		return Outcome{Built: true, Exit: -1}
	}
	defer os.Remove(outf.Name())
	defer outf.Close()
	cmd.Stderr = outf
	cmd.Stdout = outf
	cmd.Env = append(os.Environ(), "GOTRACEBACK=single", fmt.Sprintf("GOMAXPROCS=%d", procs))
	err := cmd.Run()
	data, _ := os.ReadFile(outf.Name())
	buf := bytes.NewBuffer(data)
	o := Outcome{Built: true}
	if ctx.Err() != nil {
		o.TimedOut = true
		return o
	}
	if ee, ok := err.(*exec.ExitError); ok {
		o.Exit = ee.ExitCode()
	} else if err != nil {
		o.Exit = -1
	}
	text := buf.String()
	// cut: init phase | run phase
	runIdx := strings.Index(text, "=== run\n")
	if runIdx < 0 {
		// crashed during initialisation of some package: not attributable
		o.Built = false
		o.BuildErr = "combined binary crashed before main: " + truncate(text, 500)
		return o
	}
	initPart, runPart := text[:runIdx], text[runIdx+len("=== run\n"):]
	blocks := strings.Split(initPart, "=== init\n")
	// blocks[0] is what precedes the first marker (empty); blocks[k+1] is package k's init output
	var initOut string
	if len(blocks) == n+1 {
		initOut = "=== init\n" + blocks[k+1]
	} else {
		o.Built = false
		o.BuildErr = fmt.Sprintf("init markers: got %d blocks for %d packages", len(blocks)-1, n)
		return o
	}
	out, hdr, fatal := SplitCrash(runPart)
	pkg := fmt.Sprintf("p%05d.", i)
	o.Out = strings.ReplaceAll(initOut+out, pkg, "main.")
	o.Panic = strings.ReplaceAll(hdr, pkg, "main.")
	o.Fatal = fatal
	return o
}

// SplitCrash separates program output from a gc crash report.
func SplitCrash(text string) (out, panicHeader, fatal string) {
	lines := strings.SplitAfter(text, "\n")
	for i, l := range lines {
		atLineStart := i == 0 || strings.HasSuffix(lines[i-1], "\n")
		if !atLineStart {
			continue
		}
		if strings.HasPrefix(l, "panic: ") {
			var hdr []string
			for _, h := range lines[i:] {
				h = strings.TrimRight(h, "\n")
				if h == "" {
					break
				}
				if strings.HasPrefix(h, "[signal ") {
					continue
				}
				hdr = append(hdr, h)
			}
			return strings.Join(lines[:i], ""), strings.Join(hdr, "\n"), ""
		}
		if strings.HasPrefix(l, "fatal error: ") {
			return strings.Join(lines[:i], ""), "", strings.TrimRight(l, "\n")
		}
	}
	return text, "", ""
}
