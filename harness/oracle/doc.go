// Package oracle holds the reference models shared by several checks.
package oracle
