package decode

import (
	"encoding/json"
	"net/url"
	"strings"
	"testing"
)

func TestJSString(t *testing.T) {
	tests := []struct {
		src  string
		val  string
		n    int
		fail bool
	}{
		{`"abc";`, "abc", 5, false},
		{`'abc' + x`, "abc", 5, false},
		{`"a\"b"`, `a"b`, 6, false},
		{`'a\'b'`, `a'b`, 6, false},
		{`"a'b"`, `a'b`, 5, false},
		{`"\b\f\n\r\t\v\\"`, "\b\f\n\r\t\v\\", 16, false},
		{`"\0"`, "\x00", 4, false},
		{`"\0a"`, "\x00a", 5, false},
		{`"\x41\x7a"`, "Az", 10, false},
		{`"\u0041\u00e9"`, "A\u00e9", 14, false},
		{`"\u{41}\u{1F600}\u{10FFFF}"`, "A\U0001F600\U0010FFFF", 27, false},
		{`"\ud83d\ude00"`, "\U0001F600", 14, false},
		{`"\u003c\u003e\u0026\u0027"`, "<>&'", 26, false},
		{`"\u2028\u2029"`, "\u2028\u2029", 14, false},
		{"\"a\u2028b\"", "a\u2028b", 7, false}, // raw LS allowed since ES2019
		{"\"a\\\nb\"", "ab", 6, false},         // line continuation
		{"\"a\\\r\nb\"", "ab", 7, false},
		{"\"a\\\u2028b\"", "ab", 8, false},
		{`"\a\c\d\q\-"`, "acdq-", 12, false}, // NonEscapeCharacter
		{`"\é"`, "é", 5, false},
		{`"\101\7\08\377\400"`, "A\x07\x008\u00ff\x200", 19, false}, // Annex B
		{`"\8\9"`, "89", 6, false},
		{"\"a\nb\"", "", 0, true},
		{"\"a\rb\"", "", 0, true},
		{`"abc`, "", 0, true},
		{`"abc\`, "", 0, true},
		{`"\x4"`, "", 0, true},
		{`"\xg1"`, "", 0, true},
		{`"\u12"`, "", 0, true},
		{`"\u{}"`, "", 0, true},
		{`"\u{110000}"`, "", 0, true},
		{`"\u{41"`, "", 0, true},
		{`abc`, "", 0, true},
		{``, "", 0, true},
	}
	for _, tt := range tests {
		val, n, _, err := JSString(tt.src)
		if tt.fail {
			if err == nil {
				t.Errorf("JSString(%q): expected error, got %q", tt.src, val)
			}
			continue
		}
		if err != nil {
			t.Errorf("JSString(%q): unexpected error %v", tt.src, err)
			continue
		}
		if val != tt.val || n != tt.n {
			t.Errorf("JSString(%q) = %q, %d; want %q, %d", tt.src, val, n, tt.val, tt.n)
		}
	}
	// surrogate bookkeeping
	val, _, info, err := JSString(`"\ud83dx\ude00\ud83d"`)
	if err != nil || val != "\ufffdx\ufffd\ufffd" || !info.LoneSurrogate {
		t.Errorf("lone surrogates: %q %v %v", val, info, err)
	}
	_, _, info, _ = JSString(`"\101"`)
	if !info.LegacyOctal {
		t.Error("legacy octal not flagged")
	}
	// bytes that are not escapes are copied as they are (invalid UTF-8 survives)
	val, _, _, err = JSString("\"a\xffb\xc3\"")
	if err != nil || val != "a\xffb\xc3" {
		t.Errorf("byte transparency: %q %v", val, err)
	}
}

// On the subset of literals that are also JSON, the JS decoder must agree with encoding/json.
func TestJSStringAgreesWithJSON(t *testing.T) {
	parts := []string{`a`, `\"`, `\\`, `\/`, `\b`, `\f`, `\n`, `\r`, `\t`, `\u0041`, `\u00e9`, `\ud83d\ude00`, `\u2028`, `é`, ` `, `'`, `<`, `\u0000`, `\u001f`, `0`}
	for i := range parts {
		for j := range parts {
			for k := range parts {
				lit := `"` + parts[i] + parts[j] + parts[k] + `"`
				var want string
				if err := json.Unmarshal([]byte(lit), &want); err != nil {
					t.Fatalf("json rejects %s: %v", lit, err)
				}
				got, n, _, err := JSString(lit)
				if err != nil || got != want || n != len(lit) {
					t.Fatalf("JSString(%s) = %q, %d, %v; encoding/json gives %q", lit, got, n, err, want)
				}
				got2, err := JSON(lit)
				if err != nil || got2 != want {
					t.Fatalf("JSON(%s) = %q, %v", lit, got2, err)
				}
			}
		}
	}
	if _, err := JSON(`"a" x`); err == nil {
		t.Error("JSON accepts trailing data")
	}
	if _, err := JSON(`"a\'"`); err == nil {
		t.Error("JSON accepts \\'")
	}
}

func TestCSSString(t *testing.T) {
	tests := []struct {
		src  string
		val  string
		n    int
		fail bool
	}{
		{`"abc";`, "abc", 5, false},
		{`'abc'`, "abc", 5, false},
		{`"a'b"`, "a'b", 5, false},
		{`"a\"b"`, `a"b`, 6, false},
		{`"\22"`, `"`, 5, false},
		{`"\22 a"`, `"a`, 7, false},   // one whitespace after the escape is swallowed
		{`"\22  a"`, `" a`, 8, false}, // only one
		{"\"\\22\ta\"", `"a`, 7, false},
		{"\"\\22\na\"", `"a`, 7, false},
		{"\"\\22\r\na\"", `"a`, 8, false}, // CR LF is one newline after preprocessing
		{"\"\\22\fa\"", `"a`, 7, false},
		{`"\3c"`, "<", 5, false},
		{`"\3c "`, "<", 6, false},
		{`"\3cc"`, "\u03cc", 6, false}, // the trap: hex digits are consumed greedily
		{`"\3c c"`, "<c", 7, false},
		{`"\3cg"`, "<g", 6, false},
		{`"\3C F"`, "<F", 7, false},
		{`"\00003cc"`, "<c", 10, false}, // at most six hex digits
		{`"\000003c"`, "\x03c", 10, false},
		{`"\10ffff"`, "\U0010FFFF", 9, false},
		{`"\110000"`, "\ufffd", 9, false},
		{`"\d800"`, "\ufffd", 7, false},
		{`"\0"`, "\ufffd", 4, false},
		{`"\0 x"`, "\ufffdx", 6, false},
		{`"\\"`, `\`, 4, false},
		{`"\g\-\ "`, "g- ", 8, false},
		{`"\é"`, "é", 5, false},
		{"\"a\\\nb\"", "ab", 6, false}, // escaped newline: nothing
		{"\"a\\\r\nb\"", "ab", 7, false},
		{"\"a\x00b\"", "a\ufffdb", 5, false},
		{"\"a\nb\"", "", 0, true}, // bad-string
		{"\"a\rb\"", "", 0, true},
		{"\"a\fb\"", "", 0, true},
		{`"abc`, "", 0, true},
		{`"abc\`, "", 0, true},
		{`abc`, "", 0, true},
	}
	for _, tt := range tests {
		val, n, err := CSSString(tt.src)
		if tt.fail {
			if err == nil {
				t.Errorf("CSSString(%q): expected error, got %q", tt.src, val)
			}
			continue
		}
		if err != nil {
			t.Errorf("CSSString(%q): unexpected error %v", tt.src, err)
			continue
		}
		if val != tt.val || n != tt.n {
			t.Errorf("CSSString(%q) = %q, %d; want %q, %d", tt.src, val, n, tt.val, tt.n)
		}
	}
	val, _, err := CSSString("\"a\xffb\"")
	if err != nil || val != "a\xffb" {
		t.Errorf("byte transparency: %q %v", val, err)
	}
}

func TestPercentAndQuery(t *testing.T) {
	for _, s := range []string{"", "abc", "a b", "a+b", "%", "%41", "a&b=c", "é\xff\x00", "?#/"} {
		got, err := Percent(url.QueryEscape(s))
		want := strings.ReplaceAll(s, " ", "+") // QueryEscape writes a space as '+', which RFC 3986 decoding keeps
		if err != nil || got != want {
			t.Errorf("Percent(QueryEscape(%q)) = %q, %v; want %q", s, got, err, want)
		}
		got, err = Percent(url.PathEscape(s))
		if err != nil || got != s {
			t.Errorf("Percent(PathEscape(%q)) = %q, %v", s, got, err)
		}
	}
	for _, bad := range []string{"%", "%4", "%4g", "a%"} {
		if _, err := Percent(bad); err == nil {
			t.Errorf("Percent(%q): expected error", bad)
		}
	}
	form, rfc, err := QueryValue("/p?q=a%20b%26c%3Dd", "q")
	if err != nil || form != "a b&c=d" || rfc != "a b&c=d" {
		t.Errorf("QueryValue: %q %q %v", form, rfc, err)
	}
	form, rfc, err = QueryValue("/p?q=a+b", "q")
	if err != nil || form != "a b" || rfc != "a+b" {
		t.Errorf("QueryValue plus: %q %q %v", form, rfc, err)
	}
	for _, bad := range []string{"/p?q=a&r=b", "/p?q=a#f", "/p?q=%zz", "/p?r=a", "/p?q=a&q=b", "/p"} {
		if _, _, err := QueryValue(bad, "q"); err == nil {
			t.Errorf("QueryValue(%q): expected error", bad)
		}
	}
}

func TestHTMLSlots(t *testing.T) {
	raw, txt, err := ElementText("<div>a &lt; b &amp;amp; c\r\nd</div>", "div", 0)
	if err != nil || raw != "a &lt; b &amp;amp; c\r\nd" || txt != "a < b &amp; c\nd" {
		t.Errorf("ElementText: %q %q %v", raw, txt, err)
	}
	if HTML(raw) != "a < b &amp; c\r\nd" {
		t.Errorf("HTML(raw) = %q", HTML(raw))
	}
	if _, txt, err = ElementText("<textarea><b>&#34;</textarea>", "textarea", 0); err != nil || txt != `<b>"` {
		t.Errorf("RCDATA: %q %v", txt, err)
	}
	if raw, txt, err = ElementText("<script>var a = \"&lt;\";</script>", "script", 0); err != nil || txt != `var a = "&lt;";` || raw != txt {
		t.Errorf("raw text: %q %q %v", raw, txt, err)
	}
	for _, bad := range []string{"<div>a<b>c</div>", "<div>a</div>x", "<div>a", "<div>a</p></div>", "<div>a<!--x--></div>", "<p>a</p>", "<div id=x>a</div>", "<script>a</script></script>"} {
		tag := "div"
		if strings.HasPrefix(bad, "<script") {
			tag = "script"
		}
		if _, _, err := ElementText(bad, tag, 0); err == nil {
			t.Errorf("ElementText(%q): expected error", bad)
		}
	}
	raw, val, err := AttrValue(`<a title="x &#34;y&#34; &amp;lt;">`, "a", "title", '"')
	if err != nil || raw != `x &#34;y&#34; &amp;lt;` || val != `x "y" &lt;` || HTML(raw) != val {
		t.Errorf("AttrValue dq: %q %q %v", raw, val, err)
	}
	raw, val, err = AttrValue(`<a title='it&#39;s "q"'>`, "a", "title", '\'')
	if err != nil || val != `it's "q"` || HTML(raw) != val {
		t.Errorf("AttrValue sq: %q %q %v", raw, val, err)
	}
	raw, val, err = AttrValue(`<a title=a&#32;b&#61;c>`, "a", "title", 0)
	if err != nil || val != `a b=c` || HTML(raw) != val {
		t.Errorf("AttrValue unquoted: %q %q %v", raw, val, err)
	}
	raw, val, err = AttrValue(`<a title=x/>`, "a", "title", 0)
	if err != nil || val != `x/` || raw != val {
		t.Errorf("AttrValue unquoted with trailing slash: %q %q %v", raw, val, err)
	}
	if _, _, err = AttrValue(`<a title="x"/>`, "a", "title", '"'); err == nil {
		t.Errorf("AttrValue accepts a self-closing tag for a quoted value")
	}
	for _, bad := range []string{`<a title="x" id="y">`, `<a title="x"y">`, `<a title="x">z`, `<a title=x y>`, `<a title="x>`, `<b title="x">`, `<a title=x><b>`} {
		q := byte('"')
		if strings.Contains(bad, "title=x") {
			q = 0
		}
		if _, _, err := AttrValue(bad, "a", "title", q); err == nil {
			t.Errorf("AttrValue(%q): expected error", bad)
		}
	}
	if NormalizeNewlines("a\r\nb\rc\n") != "a\nb\nc\n" {
		t.Error("NormalizeNewlines")
	}
}
