// Package decode holds the standard decoders used as reference models by the
// escaping checks (C07 and friends). Every decoder is written from the public
// specification of the target language or delegates to the standard library;
// none of them knows anything about scriggo's escapers.
//
//   - HTML: character references via html.UnescapeString, slot extraction via the
//     WHATWG tokenizer of golang.org/x/net/html
//   - JavaScript: StringLiteral of ECMA-262 §12.9.4 (incl. Annex B legacy octal)
//   - JSON: encoding/json
//   - CSS: "consume a string token" / "consume an escaped code point" of
//     CSS Syntax Level 3 §4.3.5 / §4.3.7 with the §3.3 input preprocessing
//   - URL: percent-decoding (RFC 3986 §2.1) cross-checked with net/url
//
// The decoders are byte transparent: bytes that are not part of an escape are
// copied as they are, so invalid UTF-8 in the input survives (the callers decide
// what the target language could have represented).
package decode

import (
	"bytes"
	"encoding/json"
	"errors"
	"fmt"
	"html"
	"io"
	"net/url"
	"strings"
	"unicode/utf8"

	xhtml "golang.org/x/net/html"
)

// HTML decodes the character references of s (HTML entity decoding).
func HTML(s string) string { return html.UnescapeString(s) }

// NormalizeNewlines applies the newline normalisation of the HTML input stream
// preprocessing (CR LF and lone CR become LF).
func NormalizeNewlines(s string) string {
	if !strings.Contains(s, "\r") {
		return s
	}
	s = strings.ReplaceAll(s, "\r\n", "\n")
	return strings.ReplaceAll(s, "\r", "\n")
}

// ElementText tokenizes doc, which must consist of exactly one element
// <tag attrs...>text</tag> whose content is character data only, and returns the
// raw source of the content and the content as decoded by the tokenizer.
// attrs is the expected number of attributes on the start tag.
func ElementText(doc, tag string, attrs int) (raw, tokText string, err error) {
	z := xhtml.NewTokenizer(strings.NewReader(doc))
	tt := z.Next()
	if tt != xhtml.StartTagToken {
		return "", "", fmt.Errorf("first token is %v, want start tag <%s>", tt, tag)
	}
	tok := z.Token()
	if tok.Data != tag || len(tok.Attr) != attrs {
		return "", "", fmt.Errorf("first token is %s, want <%s> with %d attributes", tok.String(), tag, attrs)
	}
	var rawB, txtB strings.Builder
	for {
		tt = z.Next()
		switch tt {
		case xhtml.TextToken:
			rawB.Write(z.Raw())
			txtB.Write(z.Text())
			continue
		case xhtml.EndTagToken:
			name, _ := z.TagName()
			if string(name) != tag {
				return "", "", fmt.Errorf("unexpected end tag </%s> inside <%s>", name, tag)
			}
		case xhtml.ErrorToken:
			return "", "", fmt.Errorf("document ends inside <%s>: %v", tag, z.Err())
		default:
			return "", "", fmt.Errorf("unexpected %v token %q inside <%s>", tt, z.Raw(), tag)
		}
		break
	}
	if tt = z.Next(); tt != xhtml.ErrorToken || z.Err() != io.EOF {
		return "", "", fmt.Errorf("unexpected %v token %q after </%s>", tt, z.Raw(), tag)
	}
	return rawB.String(), txtB.String(), nil
}

// AttrValue tokenizes doc, which must consist of exactly one start tag
// <tag attr=value> (value quoted with quote, or unquoted if quote is 0), and
// returns the raw source of the value and the value as decoded by the tokenizer.
func AttrValue(doc, tag, attr string, quote byte) (raw, tokVal string, err error) {
	z := xhtml.NewTokenizer(strings.NewReader(doc))
	tt := z.Next()
	// WHATWG §13.2.5.37 (attribute value (unquoted) state) gives '/' no special meaning: in
	// <a title=x/> the value is "x/" and the tag is an ordinary start tag. x/net/html reports
	// the same value but classifies the tag as self-closing because its source ends in "/>";
	// that classification is accepted for unquoted values.
	if tt != xhtml.StartTagToken && !(quote == 0 && tt == xhtml.SelfClosingTagToken) {
		return "", "", fmt.Errorf("first token is %v (%q), want start tag <%s>", tt, z.Raw(), tag)
	}
	rawTag := string(z.Raw())
	tok := z.Token()
	if tok.Data != tag {
		return "", "", fmt.Errorf("first token is %s, want <%s>", tok.String(), tag)
	}
	if len(tok.Attr) != 1 || tok.Attr[0].Key != attr {
		return "", "", fmt.Errorf("start tag has attributes %q, want exactly %q", tok.Attr, attr)
	}
	if tt = z.Next(); tt != xhtml.ErrorToken || z.Err() != io.EOF {
		return "", "", fmt.Errorf("unexpected %v token %q after the start tag", tt, z.Raw())
	}
	prefix := "<" + tag + " " + attr + "="
	suffix := ">"
	if quote != 0 {
		prefix += string(quote)
		suffix = string(quote) + ">"
	}
	if !strings.HasPrefix(rawTag, prefix) || !strings.HasSuffix(rawTag, suffix) || len(rawTag) < len(prefix)+len(suffix) {
		return "", "", fmt.Errorf("raw start tag %q does not have the form %s…%s", rawTag, prefix, suffix)
	}
	raw = rawTag[len(prefix) : len(rawTag)-len(suffix)]
	if quote != 0 {
		if strings.IndexByte(raw, quote) >= 0 {
			return "", "", fmt.Errorf("raw attribute value %q contains its own quote", raw)
		}
	} else if strings.ContainsAny(raw, " \t\n\f\r>") {
		return "", "", fmt.Errorf("raw unquoted attribute value %q contains a terminator", raw)
	}
	return raw, tok.Attr[0].Val, nil
}

// JSON decodes a complete JSON string literal.
func JSON(lit string) (string, error) {
	var s string
	dec := json.NewDecoder(strings.NewReader(lit))
	if err := dec.Decode(&s); err != nil {
		return "", err
	}
	if _, err := dec.Token(); err != io.EOF {
		return "", errors.New("trailing data after the JSON string")
	}
	return s, nil
}

func hexVal(c byte) int {
	switch {
	case '0' <= c && c <= '9':
		return int(c - '0')
	case 'a' <= c && c <= 'f':
		return int(c-'a') + 10
	case 'A' <= c && c <= 'F':
		return int(c-'A') + 10
	}
	return -1
}

// JSInfo reports what the JS decoder met.
type JSInfo struct {
	LoneSurrogate bool // an escape produced a surrogate that has no partner (decoded as U+FFFD)
	LegacyOctal   bool // an Annex B octal or \8 \9 escape was used (an error in strict mode)
}

// JSString decodes the JavaScript StringLiteral that starts at src[0] (which must
// be ' or "). It returns the string value (UTF-8; unpaired surrogate escapes become
// U+FFFD), the number of source bytes the literal occupies, and an error if src
// does not start with a well-formed literal.
func JSString(src string) (val string, n int, info JSInfo, err error) {
	if src == "" || (src[0] != '"' && src[0] != '\'') {
		return "", 0, info, errors.New("not a string literal")
	}
	q := src[0]
	var out []byte
	pendingHigh := -1 // high surrogate produced by an escape, waiting for a low one
	flush := func() {
		if pendingHigh >= 0 {
			out = utf8.AppendRune(out, utf8.RuneError)
			info.LoneSurrogate = true
			pendingHigh = -1
		}
	}
	unit := func(u int) { // one UTF-16 code unit or code point coming from an escape
		switch {
		case 0xD800 <= u && u <= 0xDBFF:
			flush()
			pendingHigh = u
		case 0xDC00 <= u && u <= 0xDFFF:
			if pendingHigh >= 0 {
				r := rune(0x10000 + (pendingHigh-0xD800)<<10 + (u - 0xDC00))
				out = utf8.AppendRune(out, r)
				pendingHigh = -1
			} else {
				out = utf8.AppendRune(out, utf8.RuneError)
				info.LoneSurrogate = true
			}
		default:
			flush()
			out = utf8.AppendRune(out, rune(u))
		}
	}
	i := 1
	for {
		if i >= len(src) {
			return "", 0, info, errors.New("unterminated string literal")
		}
		c := src[i]
		switch {
		case c == q:
			flush()
			return string(out), i + 1, info, nil
		case c == '\n' || c == '\r':
			return "", 0, info, fmt.Errorf("line terminator %q inside string literal at offset %d", c, i)
		case c != '\\':
			// SourceCharacter (U+2028 and U+2029 are allowed since ES2019); bytes are copied as they are.
			flush()
			out = append(out, c)
			i++
			continue
		}
		// escape
		i++
		if i >= len(src) {
			return "", 0, info, errors.New("unterminated escape")
		}
		c = src[i]
		switch c {
		case '\'', '"', '\\':
			unit(int(c))
			i++
		case 'b':
			unit('\b')
			i++
		case 'f':
			unit('\f')
			i++
		case 'n':
			unit('\n')
			i++
		case 'r':
			unit('\r')
			i++
		case 't':
			unit('\t')
			i++
		case 'v':
			unit('\v')
			i++
		case '\n':
			i++ // LineContinuation
		case '\r':
			i++ // LineContinuation; CR LF is one line terminator sequence
			if i < len(src) && src[i] == '\n' {
				i++
			}
		case 'x':
			if i+2 >= len(src) || hexVal(src[i+1]) < 0 || hexVal(src[i+2]) < 0 {
				return "", 0, info, fmt.Errorf("malformed \\x escape at offset %d", i-1)
			}
			unit(hexVal(src[i+1])<<4 | hexVal(src[i+2]))
			i += 3
		case 'u':
			if i+1 < len(src) && src[i+1] == '{' {
				j := i + 2
				v := 0
				digits := 0
				for j < len(src) && hexVal(src[j]) >= 0 {
					v = v<<4 | hexVal(src[j])
					if v > 0x10FFFF {
						return "", 0, info, fmt.Errorf("\\u{} escape out of range at offset %d", i-1)
					}
					digits++
					j++
				}
				if digits == 0 || j >= len(src) || src[j] != '}' {
					return "", 0, info, fmt.Errorf("malformed \\u{} escape at offset %d", i-1)
				}
				if v >= 0x10000 {
					flush()
					out = utf8.AppendRune(out, rune(v))
				} else {
					unit(v)
				}
				i = j + 1
				break
			}
			if i+4 >= len(src) {
				return "", 0, info, fmt.Errorf("malformed \\u escape at offset %d", i-1)
			}
			v := 0
			for k := 1; k <= 4; k++ {
				h := hexVal(src[i+k])
				if h < 0 {
					return "", 0, info, fmt.Errorf("malformed \\u escape at offset %d", i-1)
				}
				v = v<<4 | h
			}
			unit(v)
			i += 5
		case '0', '1', '2', '3', '4', '5', '6', '7':
			// \0 not followed by a decimal digit is the NUL escape; everything else is Annex B legacy octal
			if c == '0' && (i+1 >= len(src) || src[i+1] < '0' || src[i+1] > '9') {
				unit(0)
				i++
				break
			}
			info.LegacyOctal = true
			v := int(c - '0')
			i++
			maxDigits := 2
			if c >= '4' {
				maxDigits = 1
			}
			for k := 0; k < maxDigits && i < len(src) && '0' <= src[i] && src[i] <= '7'; k++ {
				v = v*8 + int(src[i]-'0')
				i++
			}
			unit(v)
		case '8', '9':
			info.LegacyOctal = true
			unit(int(c))
			i++
		default:
			// NonEscapeCharacter: the character itself. U+2028/U+2029 after a backslash are a LineContinuation.
			if strings.HasPrefix(src[i:], "\u2028") || strings.HasPrefix(src[i:], "\u2029") {
				i += 3
				break
			}
			flush()
			out = append(out, c)
			i++
		}
	}
}

// CSSString decodes the CSS string token that starts at src[0] (which must be ' or
// "), following CSS Syntax Level 3 §4.3.5 and §4.3.7 after the §3.3 preprocessing
// (CR, FF and CR LF become LF; NUL becomes U+FFFD). It returns the value and the
// number of source bytes consumed. A bad-string (unescaped newline) or an
// unterminated string is an error.
func CSSString(src string) (val string, n int, err error) {
	if src == "" || (src[0] != '"' && src[0] != '\'') {
		return "", 0, errors.New("not a string token")
	}
	q := src[0]
	// next returns the preprocessed code point (as raw bytes) at i and its source length.
	isNL := func(i int) (bool, int) {
		if i >= len(src) {
			return false, 0
		}
		switch src[i] {
		case '\n', '\f':
			return true, 1
		case '\r':
			if i+1 < len(src) && src[i+1] == '\n' {
				return true, 2
			}
			return true, 1
		}
		return false, 0
	}
	var out []byte
	i := 1
	for {
		if i >= len(src) {
			return "", 0, errors.New("unterminated string (EOF)")
		}
		c := src[i]
		if c == q {
			return string(out), i + 1, nil
		}
		if nl, _ := isNL(i); nl {
			return "", 0, fmt.Errorf("bad-string: unescaped newline at offset %d", i)
		}
		if c == 0 {
			out = utf8.AppendRune(out, utf8.RuneError)
			i++
			continue
		}
		if c != '\\' {
			out = append(out, c)
			i++
			continue
		}
		i++
		if i >= len(src) {
			return "", 0, errors.New("unterminated string (EOF after backslash)")
		}
		if nl, l := isNL(i); nl {
			i += l // escaped newline: consumed, contributes nothing
			continue
		}
		c = src[i]
		if hexVal(c) >= 0 {
			v := 0
			k := 0
			for k < 6 && i < len(src) && hexVal(src[i]) >= 0 {
				v = v<<4 | hexVal(src[i])
				i++
				k++
			}
			// one whitespace after the hex digits belongs to the escape
			if nl, l := isNL(i); nl {
				i += l
			} else if i < len(src) && (src[i] == ' ' || src[i] == '\t') {
				i++
			}
			if v == 0 || (0xD800 <= v && v <= 0xDFFF) || v > 0x10FFFF {
				v = utf8.RuneError
			}
			out = utf8.AppendRune(out, rune(v))
			continue
		}
		if c == 0 {
			out = utf8.AppendRune(out, utf8.RuneError)
			i++
			continue
		}
		// any other code point stands for itself (copy the whole UTF-8 sequence byte-wise)
		out = append(out, c)
		i++
	}
}

// Percent decodes %HH sequences (RFC 3986 §2.1). A '%' that is not followed by
// two hexadecimal digits is an error. '+' is not treated specially.
func Percent(s string) (string, error) {
	if strings.IndexByte(s, '%') < 0 {
		return s, nil
	}
	var b bytes.Buffer
	for i := 0; i < len(s); i++ {
		if s[i] != '%' {
			b.WriteByte(s[i])
			continue
		}
		if i+2 >= len(s) || hexVal(s[i+1]) < 0 || hexVal(s[i+2]) < 0 {
			return "", fmt.Errorf("malformed percent-encoding at offset %d", i)
		}
		b.WriteByte(byte(hexVal(s[i+1])<<4 | hexVal(s[i+2])))
		i += 2
	}
	return b.String(), nil
}

// QueryValue extracts the value of the single query parameter key of the URL u
// the way net/url does (application/x-www-form-urlencoded: '+' is a space) and
// also percent-decodes the raw value per RFC 3986; both results are returned.
// It fails if the query does not consist of exactly that one parameter.
func QueryValue(u, key string) (form, rfc string, err error) {
	pu, err := url.Parse(u)
	if err != nil {
		return "", "", fmt.Errorf("url.Parse: %v", err)
	}
	if pu.Fragment != "" || strings.Contains(u, "#") {
		return "", "", fmt.Errorf("URL %q has a fragment", u)
	}
	vals, err := url.ParseQuery(pu.RawQuery)
	if err != nil {
		return "", "", fmt.Errorf("url.ParseQuery(%q): %v", pu.RawQuery, err)
	}
	if len(vals) != 1 || len(vals[key]) != 1 {
		return "", "", fmt.Errorf("query %q has parameters %v, want exactly %q once", pu.RawQuery, vals, key)
	}
	if !strings.HasPrefix(pu.RawQuery, key+"=") {
		return "", "", fmt.Errorf("query %q does not start with %s=", pu.RawQuery, key)
	}
	rfc, err = Percent(pu.RawQuery[len(key)+1:])
	if err != nil {
		return "", "", err
	}
	return vals[key][0], rfc, nil
}
