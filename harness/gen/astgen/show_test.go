package astgen

import (
	"math/rand"
	"os"
	"strconv"
	"strings"
	"testing"
)

// TestDevShow prints one generated source (ASTGEN_SHOW=seed:index[:line]).
func TestDevShow(t *testing.T) {
	spec := os.Getenv("ASTGEN_SHOW")
	if spec == "" {
		t.Skip()
	}
	parts := strings.Split(spec, ":")
	seed, _ := strconv.Atoi(parts[0])
	idx, _ := strconv.Atoi(parts[1])
	srcs := NewGen(rand.New(rand.NewSource(int64(seed)))).Generate(idx+1, "gen")
	s := srcs[idx]
	text := s.Text
	if s.Files != nil {
		text = s.Files["main.go"] + s.Files[s.Main]
	}
	if len(parts) > 2 {
		ln, _ := strconv.Atoi(parts[2])
		text = strings.Split(text, "\n")[ln-1]
	}
	t.Logf("%s\n%s", s.Name, text)
}
