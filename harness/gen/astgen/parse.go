package astgen

import (
	"errors"
	"fmt"
	"path"
	"runtime/debug"
	"sort"

	"github.com/open2b/scriggo"
	"github.com/open2b/scriggo/ast"
)

// Parsed is one tree obtained from a Source.
type Parsed struct {
	Tree     *ast.Tree
	Origin   string // program | stmts | expr-program | expr-template | template-unexpanded | template-expanded
	Template bool   // parsed with the template syntax
	Format   ast.Format
	Name     string
}

// ParseStats counts what happened to the interpretations of a source.
type ParseStats struct {
	Trees      int
	Rejected   int      // syntax errors and other parse/expansion errors: not in the domain "valid source"
	ParsePanic []string // the parser itself panicked (another property's business; reported, not judged here)
}

// FormatOf maps a file name or a format name to a template format.
func FormatOf(name string) ast.Format {
	switch path.Ext(name) {
	case ".html":
		return ast.FormatHTML
	case ".css":
		return ast.FormatCSS
	case ".js":
		return ast.FormatJS
	case ".json":
		return ast.FormatJSON
	case ".md":
		return ast.FormatMarkdown
	case ".txt":
		return ast.FormatText
	}
	switch name {
	case "html", "":
		return ast.FormatHTML
	case "css":
		return ast.FormatCSS
	case "js":
		return ast.FormatJS
	case "json":
		return ast.FormatJSON
	case "markdown":
		return ast.FormatMarkdown
	case "text":
		return ast.FormatText
	}
	return ast.FormatHTML
}

var errStop = errors.New("astgen: stop after expansion")

func guard(f func()) (panicked string) {
	defer func() {
		if v := recover(); v != nil {
			panicked = fmt.Sprintf("%v\n%s", v, debug.Stack())
		}
	}()
	f()
	return ""
}

// Parse parses every interpretation of src with the real parser.
func Parse(src Source) ([]Parsed, ParseStats) {
	var out []Parsed
	var st ParseStats
	add := func(p Parsed, tree *ast.Tree, err error, panicked string) {
		switch {
		case panicked != "":
			st.ParsePanic = append(st.ParsePanic, p.Name+" ("+p.Origin+"): "+panicked)
		case err != nil || tree == nil:
			st.Rejected++
		default:
			p.Tree = tree
			out = append(out, p)
			st.Trees++
		}
	}
	program := func(origin string, files map[string]string) {
		fsys := scriggo.Files{}
		for n, s := range files {
			fsys[n] = []byte(s)
		}
		var tree *ast.Tree
		var err error
		p := guard(func() { tree, err = scriggo.VerifParseProgram(fsys) })
		add(Parsed{Origin: origin, Name: src.Name}, tree, err, p)
	}
	templateSource := func(origin, name, text string, format ast.Format) {
		var tree *ast.Tree
		var err error
		p := guard(func() { tree, err = scriggo.VerifParseTemplateSource([]byte(text), scriggo.Format(format), false, false) })
		if p == "" && err != nil {
			// a file meant to be imported or extended may only parse as such
			p = guard(func() { tree, err = scriggo.VerifParseTemplateSource([]byte(text), scriggo.Format(format), true, false) })
		}
		add(Parsed{Origin: origin, Name: name, Template: true, Format: format}, tree, err, p)
	}
	switch src.Kind {
	case "program":
		program("program", src.Files)
	case "stmts":
		program("stmts", map[string]string{"main.go": "package main\nfunc main() {\n" + src.Text + "\n}\n"})
	case "expr":
		program("expr-program", map[string]string{"main.go": "package main\nvar _ = " + src.Text + "\n"})
		templateSource("expr-template", src.Name, "{{ "+src.Text+" }}", FormatOf(src.Format))
	case "template":
		var names []string
		for n := range src.Files {
			names = append(names, n)
		}
		sort.Strings(names)
		for _, n := range names {
			templateSource("template-unexpanded", src.Name+n, src.Files[n], FormatOf(n))
		}
		fsys := scriggo.Files{}
		for n, s := range src.Files {
			fsys[n] = []byte(s)
		}
		mains := names
		if src.Main != "" {
			mains = []string{src.Main}
		}
		for _, m := range mains {
			var tree *ast.Tree
			var err error
			p := guard(func() {
				_, err = scriggo.BuildTemplate(fsys, m, &scriggo.BuildOptions{
					ExpandedTransformer: func(t *ast.Tree) error { tree = t; return errStop },
				})
			})
			if errors.Is(err, errStop) {
				err = nil
			}
			add(Parsed{Origin: "template-expanded", Name: src.Name + m, Template: true, Format: FormatOf(m)}, tree, err, p)
		}
	}
	return out, st
}
