package astgen

import (
	"fmt"
	"strings"
)

// EnumTypeShapes returns a small deterministic workload, identical at every
// seed, aimed at the places where String has to decide on parentheses around
// a TYPE: systematically enumerated type shapes (leaves: named, pointer, func
// with 0/1/n results and variadic parameters, the three channel directions,
// channel of receive channel, struct, interface; wrapped 1-3 deep in pointer,
// slice, array, map value, map key, the channel directions, func result, func
// parameter and variadic parameter), each placed as
//
//   - callee of a conversion   (T)(x)        every shape, up to depth 3
//   - type of an assertion     x.(T)
//   - operand of unary <- and * applied to the conversion
//   - variable type, func literal result and parameters, variadic parameter
//   - type of a composite literal (slice, array, map and struct shapes)
//   - argument of new and make
//
// The texts are grouped into "stmts" sources (program syntax) and, for the
// conversions and assertions of depth <= 1, "expr" sources that are parsed both
// as a program and as a template.
func EnumTypeShapes() []Source {
	leaves := []string{
		"int", "pkg.T", "*T", "func()", "func() int", "func() (int, string)", "func(a int, b ...string)", "func(int) (n int, err error)",
		"chan int", "<-chan int", "chan<- int", "chan (<-chan int)", "struct{}", "interface{}",
	}
	type wrapper struct {
		name string
		wrap func(string) string
	}
	paren := func(x string) string {
		if strings.HasPrefix(x, "<-") {
			return "(" + x + ")"
		}
		return x
	}
	wrappers := []wrapper{
		{"slice", func(x string) string { return "[]" + x }},
		{"mapval", func(x string) string { return "map[string]" + x }},
		{"mapkey", func(x string) string { return "map[" + x + "]int" }},
		{"array", func(x string) string { return "[2]" + x }},
		{"ptr", func(x string) string { return "*" + x }},
		{"chan", func(x string) string { return "chan " + paren(x) }},
		{"recv", func(x string) string { return "<-chan " + x }},
		{"send", func(x string) string { return "chan<- " + x }},
		{"result", func(x string) string { return "func() " + resultOf(x) }},
		{"param", func(x string) string { return "func(" + x + ")" }},
		{"variadic", func(x string) string { return "func(s string, rest ..." + x + ")" }},
	}
	depth1, depth2, depth3 := []string{}, []string{}, []string{}
	for _, l := range leaves {
		for _, w := range wrappers {
			t1 := w.wrap(l)
			depth1 = append(depth1, t1)
			for _, w2 := range wrappers {
				t2 := w2.wrap(t1)
				depth2 = append(depth2, t2)
				// depth 3: only the container wrappers outside
				for _, w3 := range wrappers[:4] {
					if w2.name == "slice" || w2.name == "mapval" || w2.name == "mapkey" || w2.name == "array" {
						depth3 = append(depth3, w3.wrap(t2))
					}
				}
			}
		}
	}
	var out []Source
	n := 0
	emit := func(label string, stmts []string) {
		const per = 10
		for i := 0; i < len(stmts); i += per {
			j := i + per
			if j > len(stmts) {
				j = len(stmts)
			}
			n++
			out = append(out, Source{Kind: "stmts", Name: fmt.Sprintf("enum%d-%s", n, label), Text: strings.Join(stmts[i:j], "\n")})
		}
	}
	conv := func(types []string) []string {
		var ss []string
		for _, t := range types {
			ss = append(ss, "_ = ("+t+")(x)")
		}
		return ss
	}
	shallow := append(append([]string{}, leaves...), depth1...)
	emit("conv0", conv(leaves))
	emit("conv1", conv(depth1))
	emit("conv2", conv(depth2))
	emit("conv3", conv(depth3))
	var other []string
	for _, t := range shallow {
		other = append(other,
			"_ = x.("+t+")",
			"_ = <-("+t+")(x)",
			"_ = *("+t+")(x)",
			"var v "+t,
			"_ = func() "+resultOf(t)+" { }",
			"_ = func(a "+t+", rest ..."+t+") ("+t+", error) { }",
			"_ = new("+t+")",
			"_ = make("+t+", 1)",
			"_ = []"+t+"{}",
			"_ = [...]"+t+"{nil}",
			"_ = map[string]"+t+"{\"k\": nil}",
			"_ = map["+t+"]int{}",
			"_ = struct{ f "+t+"; g, h "+t+" }{}",
		)
	}
	emit("positions", other)
	// a few conversions without parentheses where the grammar allows it
	var bare []string
	for _, t := range shallow {
		if strings.HasPrefix(t, "[") || strings.HasPrefix(t, "map[") {
			if !strings.Contains(t, "func") && !strings.Contains(t, "chan") {
				bare = append(bare, "_ = "+t+"(x)")
			}
		}
	}
	emit("bare", bare)
	for i, t := range shallow {
		out = append(out, Source{Kind: "expr", Name: fmt.Sprintf("enumexpr%d-conv", i), Text: "(" + t + ")(x)"})
		out = append(out, Source{Kind: "expr", Name: fmt.Sprintf("enumexpr%d-assert", i), Text: "x.(" + t + ")"})
	}
	return out
}

// resultOf writes t as the single result of a function type: the Scriggo
// parser wants parentheses around a receive-channel result.
func resultOf(t string) string {
	if strings.HasPrefix(t, "<-") {
		return "(" + t + ")"
	}
	return t
}
