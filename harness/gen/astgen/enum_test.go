package astgen

import "testing"

// Every enumerated source must be accepted by the parser (a rejected source
// would silently drop its ten statements from the workload).
func TestEnumTypeShapesParse(t *testing.T) {
	srcs := EnumTypeShapes()
	rejected := 0
	for _, s := range srcs {
		trees, st := Parse(s)
		want := 1
		if s.Kind == "expr" {
			want = 2
		}
		if len(trees) != want || len(st.ParsePanic) > 0 {
			rejected++
			if rejected <= 8 {
				t.Errorf("%s: %d trees, %d rejected, panics %v: %q", s.Name, len(trees), st.Rejected, st.ParsePanic, s.Text)
			}
		}
	}
	t.Logf("%d sources, %d not fully parsed", len(srcs), rejected)
}
