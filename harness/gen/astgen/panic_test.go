package astgen

import (
	"math/rand"
	"os"
	"testing"
)

// TestDevParserPanics lists sources on which the parser itself panics (development aid).
func TestDevParserPanics(t *testing.T) {
	if os.Getenv("ASTGEN_DEV") == "" {
		t.Skip("set ASTGEN_DEV=1")
	}
	corpus, _ := Corpus(RepoDir())
	srcs := append(corpus, NewGen(rand.New(rand.NewSource(1))).Generate(3000, "gen")...)
	for _, s := range srcs {
		_, st := Parse(s)
		for _, p := range st.ParsePanic {
			if len(p) > 1500 {
				p = p[:1500]
			}
			t.Logf("%s\n%q\n%v", p, s.Text, s.Files)
		}
	}
}
