package astgen

import (
	"fmt"
	"math/rand"
	"strings"
)

// Gen is a grammar-based generator of syntactically valid programs and
// templates. It is purely syntactic (nothing has to type-check) and aims at
// every node type and every field of package ast.
type Gen struct {
	r    *rand.Rand
	tmpl bool // template expression syntax (contains, and, or, not, default, render) allowed
	// noLit > 0: inside a statement header, where an unparenthesised composite
	// literal would be read as the block
	noLit int
	// Avoid lists construct names the generator must not produce (open findings).
	Avoid map[string]bool
	lbl   int
}

// NewGen returns a generator drawing from r.
func NewGen(r *rand.Rand) *Gen { return &Gen{r: r, Avoid: map[string]bool{}} }

func (g *Gen) pick(xs ...string) string { return xs[g.r.Intn(len(xs))] }
func (g *Gen) chance(n int) bool        { return g.r.Intn(n) == 0 }

var idents = []string{"a", "b", "c", "x", "y", "z", "foo", "bar", "p", "ch", "f", "g", "s", "m", "v", "ok", "err", "i", "n", "T", "S", "Val", "_"}

func (g *Gen) ident() string {
	for {
		id := idents[g.r.Intn(len(idents))]
		if id != "_" {
			return id
		}
	}
}

func (g *Gen) identOrBlank() string { return idents[g.r.Intn(len(idents))] }

func (g *Gen) typeName() string {
	return g.pick("int", "string", "bool", "byte", "float64", "error", "T", "S", "pkg.T", "uint8", "rune", "any")
}

func (g *Gen) literal() string {
	switch g.r.Intn(6) {
	case 0:
		return g.pick("0", "1", "42", "0x1F", "0o17", "0b101", "1_000", "017", "9223372036854775807")
	case 1:
		return g.pick("1.5", ".5e-3", "1e10", "0x1p-2", "3.", "1_0.2_5")
	case 2:
		return g.pick("2i", "1.5i", "0i", "1e3i")
	case 3:
		return g.pick(`'a'`, `'\n'`, `'\x41'`, `'\u00e9'`, `'\''`, `'\\'`, `'"'`, `'\377'`, `'世'`)
	case 4:
		return g.pick(`"s"`, `""`, `"a\"b\n"`, `"\u00e9\x41\101"`, `"a b"`, `"'"`, `"世界"`, `"%}"`, `"a/b.html"`)
	default:
		return g.pick("`raw`", "``", "`a\"b\\n`", "`x y`")
	}
}

var binOps = []string{"==", "!=", "<", "<=", ">", ">=", "&", "|", "&&", "||", "+", "-", "*", "/", "%", "^", "&^", "<<", ">>"}
var tmplBinOps = []string{"contains", "not contains", "and", "or"}
var unOps = []string{"+", "-", "!", "^", "*", "&", "<-"}

// Type generates a type expression.
func (g *Gen) Type(d int) string {
	if d <= 0 {
		return g.typeName()
	}
	switch g.r.Intn(12) {
	case 0:
		return "*" + g.Type(d-1)
	case 1:
		return "[]" + g.Type(d-1)
	case 2:
		return "[" + g.pick("3", "n", "2+1", "len(s)") + "]" + g.Type(d-1)
	case 3:
		return "map[" + g.Type(d-1) + "]" + g.Type(d-1)
	case 4:
		el := g.Type(d - 1)
		switch g.r.Intn(3) {
		case 0:
			return "chan " + el
		case 1:
			return "<-chan " + el
		default:
			return "chan<- " + el
		}
	case 5:
		return g.funcType(d-1, "func")
	case 6:
		return g.structType(d - 1)
	case 7:
		return "interface{}"
	case 8:
		if !g.Avoid["chan-of-recv-chan"] && g.chance(2) {
			return "chan (<-chan " + g.Type(d-1) + ")"
		}
		return "(" + g.Type(d-1) + ")"
	default:
		return g.typeName()
	}
}

func (g *Gen) params(d int, allowVariadic bool) string {
	n := g.r.Intn(4)
	if n == 0 {
		return ""
	}
	var ps []string
	named := g.chance(2)
	for i := 0; i < n; i++ {
		t := g.Type(d)
		if allowVariadic && i == n-1 && g.chance(3) {
			t = "..." + t
		}
		if named {
			if i < n-1 && g.chance(3) {
				ps = append(ps, g.identOrBlank()) // grouped: a, b int
			} else {
				ps = append(ps, g.identOrBlank()+" "+t)
			}
		} else {
			ps = append(ps, t)
		}
	}
	return strings.Join(ps, ", ")
}

func (g *Gen) funcType(d int, kw string) string {
	s := kw + "(" + g.params(d, true) + ")"
	switch g.r.Intn(5) {
	case 0:
		s += " " + g.Type(d)
	case 1:
		s += " (" + g.Type(d) + ", " + g.Type(d) + ")"
	case 2:
		s += " (" + g.ident() + " " + g.Type(d) + ", " + g.ident() + " " + g.Type(d) + ")"
	case 3:
		s += " (" + g.ident() + ", " + g.ident() + " " + g.Type(d) + ")"
	}
	return s
}

func (g *Gen) structType(d int) string {
	n := g.r.Intn(4)
	if n == 0 {
		return g.pick("struct{}", "struct { }")
	}
	var fs []string
	for i := 0; i < n; i++ {
		var f string
		switch g.r.Intn(6) {
		case 0:
			f = g.pick("T", "*T", "pkg.T", "*pkg.T") // embedded
		case 1:
			f = g.ident() + ", " + g.ident() + " " + g.Type(d)
		default:
			f = g.ident() + " " + g.Type(d)
		}
		if g.chance(3) {
			f += " " + g.pick("`json:\"a\"`", `"tag"`, "`k:\"v\" x:\"y\"`", `"a\"b"`, "\"a`b\"")
		}
		fs = append(fs, f)
	}
	return "struct { " + strings.Join(fs, "; ") + " }"
}

// Expr generates an expression.
func (g *Gen) Expr(d int) string {
	if d <= 0 {
		return g.atom()
	}
	switch g.r.Intn(10) {
	case 0, 1, 2:
		op := binOps[g.r.Intn(len(binOps))]
		if g.tmpl && g.chance(3) {
			op = tmplBinOps[g.r.Intn(len(tmplBinOps))]
		}
		return g.operand(d-1) + " " + op + " " + g.operand(d-1)
	case 3:
		op := unOps[g.r.Intn(len(unOps))]
		if g.tmpl && g.chance(4) {
			op = "not "
		}
		e := g.operand(d - 1)
		// avoid gluing two operator characters into another token (--, ++, &&, <--)
		if len(e) > 0 && strings.ContainsRune("+-&<*^!", rune(e[0])) {
			e = "(" + e + ")"
		}
		return op + e
	case 4:
		if g.tmpl && !g.Avoid["default"] && g.chance(2) {
			lhs := g.ident()
			if g.chance(2) {
				lhs = g.ident() + "(" + g.args(d-1) + ")"
			}
			return lhs + " default " + g.Expr(d-1)
		}
		return g.Primary(d)
	default:
		return g.Primary(d)
	}
}

// operand is an operand of a unary or binary operator: an expression,
// parenthesised more often than needed so every precedence pairing shows up
// both with and without parentheses.
func (g *Gen) operand(d int) string {
	e := g.Expr(d)
	if g.chance(3) {
		return "(" + e + ")"
	}
	return e
}

func (g *Gen) atom() string {
	if g.chance(2) {
		return g.ident()
	}
	return g.literal()
}

func (g *Gen) args(d int) string {
	n := g.r.Intn(4)
	var as []string
	for i := 0; i < n; i++ {
		as = append(as, g.Expr(d))
	}
	s := strings.Join(as, ", ")
	if n > 0 && g.chance(4) && !isNumberLiteral(as[n-1]) {
		s += "..."
	}
	return s
}

// Primary generates a primary expression (something a selector, index, call
// or assertion can be applied to).
func (g *Gen) Primary(d int) string {
	if d <= 0 {
		return g.atom()
	}
	switch g.r.Intn(14) {
	case 0:
		return "(" + g.Expr(d-1) + ")"
	case 1:
		return g.Primary(d-1) + "(" + g.args(d-1) + ")"
	case 2:
		return g.Primary(d-1) + "[" + g.Expr(d-1) + "]"
	case 3:
		x := g.Primary(d - 1)
		lo, hi, mx := g.Expr(d-1), g.Expr(d-1), g.Expr(d-1)
		switch g.r.Intn(6) {
		case 0:
			return x + "[:]"
		case 1:
			return x + "[" + lo + ":]"
		case 2:
			return x + "[:" + hi + "]"
		case 3:
			return x + "[" + lo + ":" + hi + "]"
		case 4:
			return x + "[:" + hi + ":" + mx + "]"
		default:
			return x + "[" + lo + ":" + hi + ":" + mx + "]"
		}
	case 4:
		// (a selector or assertion on a number literal is never valid source)
		x := g.Primary(d - 1)
		if isNumberLiteral(x) {
			x = g.ident()
		}
		return x + "." + g.pick("F", "f", "Name", "x", "String")
	case 5:
		x := g.Primary(d - 1)
		if isNumberLiteral(x) {
			x = g.ident()
		}
		return x + ".(" + g.Type(d-1) + ")"
	case 6:
		return g.compositeLiteral(d - 1)
	case 7:
		return g.funcLiteral(d - 1)
	case 8:
		// conversion
		t := g.Type(d - 1)
		if strings.HasPrefix(t, "*") || strings.HasPrefix(t, "<-") || strings.Contains(t, "func") || strings.Contains(t, "chan") {
			t = "(" + t + ")"
		}
		return t + "(" + g.Expr(d-1) + ")"
	case 9:
		if g.tmpl && !g.Avoid["render"] {
			return "render " + g.pick(`"partial.html"`, "`partial.html`", `"/partial.html"`)
		}
		return g.atom()
	case 10:
		// postfix applied to a parenthesised operator expression
		x := "(" + g.pick("*p", "-x", "a + b", "<-ch", "&v", "!ok", "a * b") + ")"
		switch g.r.Intn(5) {
		case 0:
			return x + ".f"
		case 1:
			return x + "[" + g.Expr(d-1) + "]"
		case 2:
			return x + "[1:2]"
		case 3:
			return x + ".(" + g.Type(d-1) + ")"
		default:
			return x + "(" + g.args(d-1) + ")"
		}
	default:
		return g.atom()
	}
}

func isNumberLiteral(s string) bool {
	return len(s) > 0 && (s[0] >= '0' && s[0] <= '9' || s[0] == '.')
}

func (g *Gen) compositeLiteral(d int) string {
	var t string
	switch g.r.Intn(7) {
	case 0:
		t = "[]" + g.Type(d)
	case 1:
		t = "[...]" + g.Type(d)
	case 2:
		t = "[2]" + g.Type(d)
	case 3:
		t = "map[" + g.Type(d) + "]" + g.Type(d)
	case 4:
		t = g.structType(d)
	case 5:
		t = g.pick("T", "pkg.T", "S")
	default:
		t = "[][]" + g.typeName()
	}
	s := t + "{" + g.elements(d, strings.HasPrefix(t, "[][]")) + "}"
	if g.noLit > 0 {
		return "(" + s + ")"
	}
	return s
}

func (g *Gen) elements(d int, nested bool) string {
	n := g.r.Intn(4)
	var es []string
	saved := g.noLit
	g.noLit = 0 // inside braces a literal is never read as a block
	defer func() { g.noLit = saved }()
	for i := 0; i < n; i++ {
		var v string
		if nested || g.chance(5) {
			v = "{" + g.elements(d-1, false) + "}" // elided type
		} else {
			v = g.Expr(d)
		}
		if g.chance(3) {
			k := g.pick("0", "1", `"k"`, "x", "Name", "2+1")
			if g.chance(6) {
				k = "{" + g.elements(d-1, false) + "}"
			}
			v = k + ": " + v
		}
		es = append(es, v)
	}
	s := strings.Join(es, ", ")
	if n > 0 && g.chance(5) {
		s += ","
	}
	return s
}

func (g *Gen) funcLiteral(d int) string {
	saved := g.noLit
	g.noLit = 0
	defer func() { g.noLit = saved }()
	return g.funcType(d, "func") + " {" + g.inlineStmts(d) + "}"
}

// inlineStmts is a short statement list on one line.
func (g *Gen) inlineStmts(d int) string {
	n := g.r.Intn(3)
	var ss []string
	for i := 0; i < n; i++ {
		ss = append(ss, g.Stmt(d))
	}
	if len(ss) == 0 {
		return ""
	}
	return " " + strings.Join(ss, "; ") + " "
}

func (g *Gen) exprList(d, max int) string {
	n := 1 + g.r.Intn(max)
	var es []string
	for i := 0; i < n; i++ {
		es = append(es, g.Expr(d))
	}
	return strings.Join(es, ", ")
}

func (g *Gen) lhsList(n int) string {
	var es []string
	for i := 0; i < n; i++ {
		switch g.r.Intn(5) {
		case 0:
			es = append(es, g.ident()+"["+g.atom()+"]")
		case 1:
			es = append(es, g.ident()+".f")
		case 2:
			es = append(es, "*"+g.ident())
		default:
			es = append(es, g.identOrBlank())
		}
	}
	return strings.Join(es, ", ")
}

func (g *Gen) identList(n int) string {
	var es []string
	for i := 0; i < n; i++ {
		es = append(es, g.identOrBlank())
	}
	return strings.Join(es, ", ")
}

var assignOps = []string{"=", ":=", "+=", "-=", "*=", "/=", "%=", "&=", "|=", "^=", "&^=", "<<=", ">>="}

// SimpleStmt generates a simple statement (usable as if/for/switch init).
func (g *Gen) SimpleStmt(d int) string {
	switch g.r.Intn(8) {
	case 0:
		n := 1 + g.r.Intn(3)
		if g.chance(2) {
			return g.identList(n) + " := " + g.exprListN(d, n)
		}
		return g.lhsList(n) + " = " + g.exprListN(d, n)
	case 1:
		return g.lhsList(1) + " " + assignOps[2+g.r.Intn(len(assignOps)-2)] + " " + g.Expr(d)
	case 2:
		return g.lhsList(1) + g.pick("++", "--")
	case 3:
		return g.Primary(d) + " <- " + g.Expr(d)
	case 4:
		return g.ident() + "(" + g.args(d) + ")"
	case 5:
		return g.identList(2) + " " + g.pick(":=", "=") + " " + g.pick("<-ch", "m[k]", "x.(T)", "f()")
	default:
		return g.ident() + " " + g.pick("=", ":=") + " " + g.Expr(d)
	}
}

func (g *Gen) exprListN(d, n int) string {
	var es []string
	for i := 0; i < n; i++ {
		es = append(es, g.Expr(d))
	}
	return strings.Join(es, ", ")
}

func (g *Gen) varDecl(d int) string {
	n := 1 + g.r.Intn(3)
	switch g.r.Intn(4) {
	case 0:
		return "var " + g.identList(n) + " " + g.Type(d)
	case 1:
		return "var " + g.identList(n) + " " + g.Type(d) + " = " + g.exprListN(d, n)
	case 2:
		return "var " + g.identList(2) + " = " + g.ident() + "()"
	default:
		return "var " + g.identList(n) + " = " + g.exprListN(d, n)
	}
}

func (g *Gen) constDecl(d int) string {
	n := 1 + g.r.Intn(2)
	if g.chance(2) {
		return "const " + g.identList(n) + " " + g.typeName() + " = " + g.exprListN(d, n)
	}
	return "const " + g.identList(n) + " = " + g.exprListN(d, n)
}

func (g *Gen) typeDecl(d int) string {
	if g.chance(3) {
		return "type " + g.pick("T", "S", "U") + " = " + g.Type(d)
	}
	return "type " + g.pick("T", "S", "U") + " " + g.Type(d)
}

// header generates an expression for a statement header.
func (g *Gen) header(d int) string {
	g.noLit++
	defer func() { g.noLit-- }()
	return g.Expr(d)
}

func (g *Gen) headerSimple(d int) string {
	g.noLit++
	defer func() { g.noLit-- }()
	return g.SimpleStmt(d)
}

func (g *Gen) label() string {
	g.lbl++
	return fmt.Sprintf("L%d", g.lbl)
}

// Stmt generates one statement in brace syntax, on one line.
func (g *Gen) Stmt(d int) string {
	if d <= 0 {
		return g.SimpleStmt(0)
	}
	switch g.r.Intn(24) {
	case 0:
		return g.varDecl(d - 1)
	case 1:
		return g.constDecl(d - 1)
	case 2:
		return g.typeDecl(d - 1)
	case 3:
		s := "if "
		if g.chance(3) {
			s += g.headerSimple(d-1) + "; "
		}
		s += g.header(d-1) + " {" + g.inlineStmts(d-1) + "}"
		for g.chance(3) {
			s += " else if " + g.header(d-1) + " {" + g.inlineStmts(d-1) + "}"
		}
		if g.chance(2) {
			s += " else {" + g.inlineStmts(d-1) + "}"
		}
		return s
	case 4:
		switch g.r.Intn(4) {
		case 0:
			return "for {" + g.inlineStmts(d-1) + "}"
		case 1:
			return "for " + g.header(d-1) + " {" + g.inlineStmts(d-1) + "}"
		case 2:
			return "for " + g.pick("i := 0", "", "i, j = 0, 1") + "; " + g.pick("i < n", "") + "; " + g.pick("i++", "", "i += 2") + " {" + g.inlineStmts(d-1) + "}"
		default:
			return "for " + g.headerSimple(d-1) + "; " + g.header(d-1) + "; " + g.headerSimple(d-1) + " {" + g.inlineStmts(d-1) + "}"
		}
	case 5:
		h := g.pick("range ", "i := range ", "i, v := range ", "_, v = range ", "k = range ", "a[0], b.f = range ")
		return "for " + h + g.header(d-1) + " {" + g.inlineStmts(d-1) + "}"
	case 6:
		s := "switch "
		if g.chance(3) {
			s += g.headerSimple(d-1) + "; "
		}
		if g.chance(4) {
			s = strings.TrimSuffix(s, " ") + " "
		} else {
			s += g.header(d-1) + " "
		}
		s += "{ "
		n := g.r.Intn(3)
		for i := 0; i < n; i++ {
			s += "case " + g.exprList(d-1, 2) + ":" + g.inlineStmts(d-1)
			if i < n-1 && g.chance(3) {
				s += "; fallthrough; "
			} else {
				s += "; "
			}
		}
		if g.chance(2) {
			s += "default:" + g.inlineStmts(d-1) + "; "
		}
		return s + "}"
	case 7:
		s := "switch "
		if g.chance(3) {
			s += g.headerSimple(d-1) + "; "
		}
		s += g.pick("x.(type)", "v := x.(type)", "y := f().(type)", "(x).(type)") + " { "
		n := g.r.Intn(3)
		for i := 0; i < n; i++ {
			s += "case " + g.Type(d-1)
			if g.chance(3) {
				s += ", " + g.pick("nil", g.Type(d-1))
			}
			s += ":" + g.inlineStmts(d-1) + "; "
		}
		if g.chance(2) {
			s += "default:" + g.inlineStmts(d-1) + "; "
		}
		return s + "}"
	case 8:
		s := "select { "
		n := g.r.Intn(3)
		for i := 0; i < n; i++ {
			s += "case " + g.pick("<-ch", "v := <-ch", "v, ok := <-ch", "ch <- "+g.Expr(d-1), "x = <-ch", "a[0], ok = <-ch") + ":" + g.inlineStmts(d-1) + "; "
		}
		if g.chance(2) {
			s += "default:" + g.inlineStmts(d-1) + "; "
		}
		return s + "}"
	case 9:
		return g.pick("break", "continue")
	case 10:
		l := g.label()
		return l + ": for { " + g.pick("break ", "continue ", "goto ") + l + " }"
	case 11:
		return "goto " + g.label()
	case 12:
		switch g.r.Intn(3) {
		case 0:
			return "return"
		default:
			return "return " + g.exprList(d-1, 3)
		}
	case 13:
		return g.pick("defer ", "go ") + g.Primary(d-1) + "(" + g.args(d-1) + ")"
	case 14:
		return g.pick("defer ", "go ") + g.funcLiteral(d-1) + "(" + g.args(d-1) + ")"
	case 15:
		return "{" + g.inlineStmts(d-1) + "}"
	case 16:
		return g.label() + ": " + g.SimpleStmt(d-1)
	default:
		return g.SimpleStmt(d - 1)
	}
}

// Program generates a Go program (one main package, optionally a second
// package imported from it).
func (g *Gen) Program(d int) Source {
	g.tmpl = false
	var b strings.Builder
	b.WriteString("package main\n\n")
	files := map[string]string{}
	withPkg := g.chance(3)
	nImp := g.r.Intn(4)
	if withPkg || nImp > 0 {
		if g.chance(2) {
			b.WriteString("import (\n")
			for i := 0; i < nImp; i++ {
				b.WriteString("\t" + g.pick("", "", "m ", ". ", "_ ") + g.pick(`"fmt"`, `"strings"`, `"math"`, `"os"`) + "\n")
			}
			if withPkg {
				b.WriteString("\t" + g.pick("", "q ") + `"example.com/mod/pkg"` + "\n")
			}
			b.WriteString(")\n")
		} else {
			for i := 0; i < nImp; i++ {
				b.WriteString("import " + g.pick("", "", "m ", ". ", "_ ") + g.pick(`"fmt"`, `"strings"`, `"math"`, `"os"`) + "\n")
			}
			if withPkg {
				b.WriteString(`import "example.com/mod/pkg"` + "\n")
			}
		}
	}
	if withPkg {
		files["go.mod"] = "module example.com/mod\n"
		files["pkg/pkg.go"] = "package pkg\n\n" + g.decls(d, 1+g.r.Intn(3))
	}
	b.WriteString(g.decls(d, 2+g.r.Intn(5)))
	b.WriteString("func main() {\n")
	n := 1 + g.r.Intn(6)
	for i := 0; i < n; i++ {
		b.WriteString("\t" + g.Stmt(d) + "\n")
	}
	b.WriteString("}\n")
	files["main.go"] = b.String()
	return Source{Kind: "program", Files: files}
}

func (g *Gen) decls(d, n int) string {
	var b strings.Builder
	for i := 0; i < n; i++ {
		switch g.r.Intn(7) {
		case 0:
			b.WriteString(g.varDecl(d) + "\n")
		case 1:
			b.WriteString(g.constDecl(d) + "\n")
		case 2:
			b.WriteString(g.typeDecl(d) + "\n")
		case 3:
			b.WriteString("const (\n\t" + g.ident() + " = iota\n\t" + g.ident() + "\n\t" + g.ident() + " " + g.typeName() + " = " + g.Expr(1) + "\n\t" + g.ident() + "\n)\n")
		case 4:
			b.WriteString("var (\n\t" + g.ident() + " = " + g.Expr(d) + "\n\t" + g.ident() + ", " + g.ident() + " " + g.Type(1) + "\n)\n")
		case 5:
			b.WriteString("type (\n\t" + g.pick("A", "B") + " " + g.Type(d) + "\n\t" + g.pick("C", "D") + " = " + g.Type(1) + "\n)\n")
		default:
			sig := g.funcType(1, "func")
			b.WriteString("func " + g.pick("F", "G", "h", "k") + strings.TrimPrefix(sig, "func") + " {\n")
			m := g.r.Intn(4)
			for j := 0; j < m; j++ {
				b.WriteString("\t" + g.Stmt(d) + "\n")
			}
			b.WriteString("}\n")
		}
	}
	return b.String()
}

// ---------------------------------------------------------------- templates

func (g *Gen) text() string {
	return g.pick("hello ", "\n", "<b>bold</b>", " a b c ", "<p>", "</p>\n", "text\n\n", "  ", "<br>", "x=1; ", "* item\n", "# Title\n", "-", "{ }", "% ")
}

// tmplStmt is a statement usable inside {% %}: simple statements and
// declarations, with template expression syntax.
func (g *Gen) tmplSimple(d int) string {
	switch g.r.Intn(8) {
	case 0:
		return g.varDecl(d)
	case 1:
		return g.constDecl(d)
	case 2:
		return g.typeDecl(d)
	case 3:
		return "show " + g.exprList(d, 3)
	case 4:
		return g.pick("defer ", "go ") + g.ident() + "(" + g.args(d) + ")"
	default:
		return g.SimpleStmt(d)
	}
}

// Nodes generates template content. inLoop/inMacro enable break/continue and
// return.
func (g *Gen) Nodes(d int, n int) string {
	var b strings.Builder
	for i := 0; i < n; i++ {
		b.WriteString(g.text())
		b.WriteString(g.tmplNode(d))
	}
	b.WriteString(g.text())
	return b.String()
}

func (g *Gen) end(kw string) string {
	switch g.r.Intn(3) {
	case 0:
		return "{% end " + kw + " %}"
	default:
		return "{% end %}"
	}
}

func (g *Gen) tmplNode(d int) string {
	if d <= 0 {
		return "{{ " + g.Expr(1) + " }}"
	}
	switch g.r.Intn(22) {
	case 0, 1, 2:
		return "{{ " + g.Expr(d) + " }}"
	case 3:
		return "{% " + g.tmplSimple(d-1) + " %}"
	case 4:
		s := "{% if "
		if g.chance(3) {
			s += g.headerSimple(d-1) + "; "
		}
		s += g.header(d-1) + " %}" + g.Nodes(d-1, g.r.Intn(2))
		for g.chance(3) {
			s += "{% else if " + g.header(d-1) + " %}" + g.Nodes(d-1, g.r.Intn(2))
		}
		if g.chance(2) {
			s += "{% else %}" + g.Nodes(d-1, g.r.Intn(2))
		}
		return s + g.end("if")
	case 5:
		s := "{% for " + g.ident() + " in " + g.header(d-1) + " %}" + g.Nodes(d-1, g.r.Intn(2)) + g.pick("", "{% break %}", "{% continue %}")
		if g.chance(3) {
			s += "{% else %}" + g.Nodes(d-1, 1)
		}
		return s + g.end("for")
	case 6:
		h := g.pick("range ", "i := range ", "i, v := range ", "_, v = range ")
		s := "{% for " + h + g.header(d-1) + " %}" + g.Nodes(d-1, g.r.Intn(2))
		if g.chance(3) {
			s += "{% else %}" + g.Nodes(d-1, 1)
		}
		return s + g.end("for")
	case 7:
		return "{% for " + g.pick("i := 0; i < n; i++", "", "x < 3", "; ;") + " %}" + g.Nodes(d-1, 1) + g.end("for")
	case 8:
		s := "{% switch "
		if g.chance(3) {
			s += g.headerSimple(d-1) + "; "
		}
		if !g.chance(4) {
			s += g.header(d - 1)
		}
		s += " %}" + g.pick("", " ", "\n")
		n := g.r.Intn(3)
		for i := 0; i < n; i++ {
			s += "{% case " + g.exprList(d-1, 2) + " %}" + g.Nodes(d-1, g.r.Intn(2))
			if i < n-1 && g.chance(4) {
				s += "{% fallthrough %}"
			}
		}
		if g.chance(2) {
			s += "{% default %}" + g.Nodes(d-1, 1)
		}
		return s + g.end("switch")
	case 9:
		s := "{% switch " + g.pick("x.(type)", "v := x.(type)") + " %}" + g.pick("", "\n  ")
		n := g.r.Intn(3)
		for i := 0; i < n; i++ {
			s += "{% case " + g.Type(d-1) + " %}" + g.Nodes(d-1, 1)
		}
		if g.chance(2) {
			s += "{% default %}" + g.Nodes(d-1, 1)
		}
		return s + g.end("switch")
	case 10:
		s := "{% select %}" + g.pick("", " \n")
		n := g.r.Intn(3)
		for i := 0; i < n; i++ {
			s += "{% case " + g.pick("<-ch", "v := <-ch", "v, ok = <-ch", "ch <- "+g.Expr(d-1)) + " %}" + g.Nodes(d-1, 1)
		}
		if g.chance(2) {
			s += "{% default %}" + g.Nodes(d-1, 1)
		}
		return s + g.end("select")
	case 11:
		name := g.pick("M", "Item", "Box", "Main2")
		s := "{% macro " + name
		if g.chance(2) {
			s += "(" + g.params(1, true) + ")"
			if g.chance(2) {
				s += " " + g.pick("html", "string", "markdown", "css", "js", "json")
			}
		}
		s += " %}" + g.Nodes(d-1, g.r.Intn(3)) + g.pick("", "{% return %}")
		return s + g.end("macro")
	case 12:
		marker := g.pick("", "code", "doc")
		tag := g.pick("", ` "go"`, " `x`")
		s := "{% raw " + marker + tag + " %}" + g.pick("", "{{ not parsed }} {% if %}", "plain", "\n{# no #}\n")
		if marker != "" && g.chance(2) {
			return s + "{% end raw " + marker + " %}"
		}
		return s + g.pick("{% end %}", "{% end raw %}")
	case 13:
		if g.Avoid["using"] {
			return "{{ " + g.Expr(d) + " }}"
		}
		stmt := g.pick("show itea", "var x = itea", "x := itea", "x = itea", "f(itea)", "ch <- itea", "show f(itea), itea", "x := len(itea)")
		typ := g.pick("", "", " html", " string", " markdown", " macro()", " macro(a int) html", " macro(s string)")
		return "{% " + stmt + "; using" + typ + " %}" + g.Nodes(d-1, 1) + g.end("using")
	case 14:
		return "{# " + g.pick("comment", "", "{{ x }}", "multi\nline") + " #}"
	case 15:
		saved := g.noLit
		g.noLit = 0
		var ss []string
		n := 1 + g.r.Intn(4)
		for i := 0; i < n; i++ {
			ss = append(ss, g.Stmt(d-1))
		}
		g.noLit = saved
		return "{%%\n" + strings.Join(ss, "\n") + "\n%%}"
	case 16:
		// URL attribute and other contexts
		return g.pick(
			`<a href="/p/{{ `+g.ident()+` }}?q={{ `+g.Expr(1)+` }}">`,
			`<img src={{ `+g.ident()+` }} alt="{{ `+g.ident()+` }}">`,
			`<script>var v = {{ `+g.Expr(1)+` }}; var s = "{{ `+g.ident()+` }}";</script>`,
			`<style>a { color: {{ `+g.ident()+` }}; b: "{{ `+g.ident()+` }}" }</style>`,
			`<div {{ `+g.ident()+` }} class="{{ `+g.ident()+` }}">`,
			`<script type="application/ld+json">{"a": {{ `+g.ident()+` }}, "b": "{{ `+g.ident()+` }}"}</script>`,
		)
	case 17:
		l := g.label()
		return "{% " + l + ": for %}" + g.Nodes(d-1, 1) + "{% " + g.pick("break ", "continue ") + l + " %}" + g.end("for")
	case 18:
		return "{% " + g.ident() + "(" + g.args(d-1) + ") %}"
	case 19:
		return "{% show " + g.exprList(d-1, 3) + " %}"
	default:
		return "{{ " + g.Expr(d) + " }}"
	}
}

// Template generates a template file set.
func (g *Gen) Template(d int) Source {
	g.tmpl = true
	defer func() { g.tmpl = false }()
	ext := g.pick(".html", ".html", ".html", ".md", ".txt", ".js", ".css", ".json")
	files := map[string]string{}
	files["partial.html"] = "partial {{ 1 + 2 }} text"
	files["imp"+ext] = "{% macro A %}a{% end %}{% macro B(s string) %}{{ s }}{% end macro %}{% var V = 5 %}{% const C = 1 %}{% type Ty int %}"
	files["layout"+ext] = "<html>{{ Title() }}{{ Body() }}" + g.Nodes(1, 1) + "</html>"
	var b strings.Builder
	extending := g.chance(3)
	if ext != ".html" {
		g.Avoid["render"] = true
		defer delete(g.Avoid, "render")
	}
	if extending {
		b.WriteString(`{% extends "layout` + ext + `" %}`)
	}
	switch g.r.Intn(5) {
	case 0:
		b.WriteString(`{% import "imp` + ext + `" %}`)
	case 1:
		b.WriteString(`{% import m "imp` + ext + `" %}`)
	case 2:
		b.WriteString(`{% import "imp` + ext + `" for A, B %}` + g.pick("", "\n"))
	case 3:
		b.WriteString(`{% import . "imp` + ext + `" %}`)
	}
	if extending {
		// only declarations are allowed
		b.WriteString("{% macro Title %}" + g.Nodes(d, 1) + "{% end %}\n")
		if g.chance(2) {
			b.WriteString("{% Body %}" + g.Nodes(d, 2))
		} else {
			b.WriteString("{% macro Body %}" + g.Nodes(d, 2) + "{% end macro %}")
			b.WriteString("{% " + g.varDecl(1) + " %}")
		}
	} else {
		b.WriteString(g.Nodes(d, 2+g.r.Intn(5)))
	}
	main := "index" + ext
	files[main] = b.String()
	return Source{Kind: "template", Files: files, Main: main}
}

// ExprSource generates a single expression source.
func (g *Gen) ExprSource(d int, tmpl bool) Source {
	g.tmpl = tmpl
	defer func() { g.tmpl = false }()
	if tmpl {
		g.Avoid["render"] = true
		defer delete(g.Avoid, "render")
		return Source{Kind: "template", Files: map[string]string{"index.html": "{{ " + g.Expr(d) + " }}"}, Main: "index.html"}
	}
	return Source{Kind: "expr", Text: g.Expr(d)}
}

// StmtsSource generates a statement list source.
func (g *Gen) StmtsSource(d int) Source {
	var ss []string
	n := 1 + g.r.Intn(4)
	for i := 0; i < n; i++ {
		ss = append(ss, g.Stmt(d))
	}
	return Source{Kind: "stmts", Text: strings.Join(ss, "\n")}
}

// Generate returns n generated sources of mixed kinds.
func (g *Gen) Generate(n int, prefix string) []Source {
	out := make([]Source, 0, n)
	for i := 0; i < n; i++ {
		var s Source
		d := 2 + g.r.Intn(3)
		switch i % 8 {
		case 0, 1:
			s = g.Program(d)
		case 2, 3:
			s = g.Template(d)
		case 4:
			s = g.ExprSource(d+1, false)
		case 5:
			s = g.ExprSource(d+1, true)
		default:
			s = g.StmtsSource(d)
		}
		s.Name = fmt.Sprintf("%s%d-%s", prefix, i, s.Kind)
		out = append(out, s)
	}
	return out
}
