// Package astgen supplies the syntax-tree workload of C27 and C28: the
// repository corpora (programs and templates of test/compare/testdata, string
// literals of the repository's *_test.go files) and a grammar-based generator
// of programs and templates that aims at every node type of package ast.
//
// Everything here is text generation and file reading; only parse.go calls
// scriggo and is used from worker children only.
package astgen

import (
	goast "go/ast"
	goparser "go/parser"
	gotoken "go/token"
	"os"
	"path/filepath"
	"sort"
	"strconv"
	"strings"
)

// Source is one self-contained parse job.
type Source struct {
	// Kind: "program" (Files is a Go file set, main package in the root),
	// "template" (Files is a template file set; Main, or every file in turn if
	// Main is empty, is built for the expanded tree, and every file is also
	// parsed on its own), "stmts" (Text is a statement list wrapped in a
	// program function body), "expr" (Text is an expression, wrapped in a
	// program variable declaration and in a template show).
	Kind   string            `json:"kind"`
	Name   string            `json:"name"`
	Files  map[string]string `json:"files,omitempty"`
	Main   string            `json:"main,omitempty"`
	Text   string            `json:"text,omitempty"`
	Format string            `json:"format,omitempty"` // template format of Text ("" = by extension / HTML)
}

// RepoDir returns the scriggo tree the workload is read from.
func RepoDir() string {
	if d := os.Getenv("VERIF_REPO"); d != "" {
		return d
	}
	return "/repo"
}

// NodeTypes lists the node types declared in ast/ast.go: the struct types that
// embed *Position.
func NodeTypes(repo string) ([]string, error) {
	fset := gotoken.NewFileSet()
	f, err := goparser.ParseFile(fset, filepath.Join(repo, "ast", "ast.go"), nil, 0)
	if err != nil {
		return nil, err
	}
	var names []string
	for _, d := range f.Decls {
		gd, ok := d.(*goast.GenDecl)
		if !ok || gd.Tok != gotoken.TYPE {
			continue
		}
		for _, s := range gd.Specs {
			ts := s.(*goast.TypeSpec)
			st, ok := ts.Type.(*goast.StructType)
			if !ok {
				continue
			}
			for _, fld := range st.Fields.List {
				if len(fld.Names) != 0 {
					continue
				}
				if star, ok := fld.Type.(*goast.StarExpr); ok {
					if id, ok := star.X.(*goast.Ident); ok && id.Name == "Position" {
						names = append(names, ts.Name.Name)
					}
				}
			}
		}
	}
	sort.Strings(names)
	return names, nil
}

// StringTypes lists the types of ast/ast.go that declare their own String
// method (every node also has a promoted Position.String, which is not a
// source form).
func StringTypes(repo string) ([]string, error) {
	fset := gotoken.NewFileSet()
	f, err := goparser.ParseFile(fset, filepath.Join(repo, "ast", "ast.go"), nil, 0)
	if err != nil {
		return nil, err
	}
	var names []string
	for _, d := range f.Decls {
		fd, ok := d.(*goast.FuncDecl)
		if !ok || fd.Recv == nil || fd.Name.Name != "String" || len(fd.Recv.List) != 1 {
			continue
		}
		t := fd.Recv.List[0].Type
		if star, ok := t.(*goast.StarExpr); ok {
			t = star.X
		}
		if id, ok := t.(*goast.Ident); ok {
			names = append(names, id.Name)
		}
	}
	sort.Strings(names)
	return names, nil
}

var templateExt = map[string]bool{".html": true, ".md": true, ".txt": true, ".css": true, ".js": true, ".json": true}

// Corpus reads the repository corpora. The result is sorted by name.
func Corpus(repo string) ([]Source, error) {
	var out []Source
	root := filepath.Join(repo, "test", "compare", "testdata")
	// templates are grouped by directory so that extends/import/render paths resolve
	dirFiles := map[string]map[string]string{}
	err := filepath.Walk(root, func(path string, info os.FileInfo, err error) error {
		if err != nil || info.IsDir() {
			return err
		}
		ext := filepath.Ext(path)
		if ext != ".go" && !templateExt[ext] {
			return nil
		}
		b, err := os.ReadFile(path)
		if err != nil {
			return err
		}
		rel, _ := filepath.Rel(repo, path)
		rel = filepath.ToSlash(rel)
		src := string(b)
		if ext == ".go" {
			out = append(out, Source{Kind: "program", Name: rel, Files: map[string]string{"main.go": src}})
		} else {
			dir := filepath.Dir(path)
			if dirFiles[dir] == nil {
				dirFiles[dir] = map[string]string{}
			}
			dirFiles[dir][filepath.Base(path)] = src
		}
		// error-check files hold one independent case per line
		if strings.Contains(src, "// ERROR") && ext != ".go" {
			for i, line := range strings.Split(src, "\n") {
				if j := strings.Index(line, "// ERROR"); j >= 0 {
					line = line[:j]
				}
				line = strings.TrimSpace(line)
				if strings.Contains(line, "{%") || strings.Contains(line, "{{") {
					out = append(out, Source{Kind: "template", Name: rel + ":" + strconv.Itoa(i+1),
						Files: map[string]string{"index" + ext: line}, Main: "index" + ext})
				}
			}
		}
		return nil
	})
	if err != nil {
		return nil, err
	}
	var dirs []string
	for d := range dirFiles {
		dirs = append(dirs, d)
	}
	sort.Strings(dirs)
	for _, d := range dirs {
		files := dirFiles[d]
		var names []string
		for n := range files {
			names = append(names, n)
		}
		sort.Strings(names)
		rel, _ := filepath.Rel(repo, d)
		// Main is empty: every file of the directory is built as the main file in turn
		out = append(out, Source{Kind: "template", Name: filepath.ToSlash(rel) + "/", Files: files})
		_ = names
	}
	lits, err := testLiterals(repo)
	if err != nil {
		return nil, err
	}
	out = append(out, lits...)
	sort.SliceStable(out, func(i, j int) bool { return out[i].Name < out[j].Name })
	return out, nil
}

// testLiterals extracts the string literals of the repository's test files
// and offers each one under every interpretation it could have: a template
// source, a statement list, an expression, a whole program.
func testLiterals(repo string) ([]Source, error) {
	var files []string
	for _, dir := range []string{".", "internal/compiler", "ast", "ast/astutil", "test/misc", "builtin", "cmd/scriggo", "internal/runtime", "native", "scripts"} {
		m, _ := filepath.Glob(filepath.Join(repo, dir, "*_test.go"))
		sort.Strings(m)
		files = append(files, m...)
	}
	var out []Source
	seen := map[string]bool{}
	for _, file := range files {
		fset := gotoken.NewFileSet()
		f, err := goparser.ParseFile(fset, file, nil, 0)
		if err != nil {
			continue // not this check's business
		}
		rel, _ := filepath.Rel(repo, file)
		rel = filepath.ToSlash(rel)
		goast.Inspect(f, func(n goast.Node) bool {
			bl, ok := n.(*goast.BasicLit)
			if !ok || bl.Kind != gotoken.STRING {
				return true
			}
			s, err := strconv.Unquote(bl.Value)
			if err != nil || len(s) == 0 || len(s) > 20000 || seen[s] {
				return true
			}
			seen[s] = true
			name := rel + ":" + strconv.Itoa(fset.Position(bl.Pos()).Line)
			trimmed := strings.TrimSpace(s)
			switch {
			case strings.HasPrefix(trimmed, "package "):
				out = append(out, Source{Kind: "program", Name: name, Files: map[string]string{"main.go": s}})
			case strings.Contains(s, "{{") || strings.Contains(s, "{%") || strings.Contains(s, "{#"):
				out = append(out, Source{Kind: "template", Name: name, Files: map[string]string{"index.html": s}, Main: "index.html"})
			default:
				if !plausibleCode(s) {
					return true
				}
				out = append(out, Source{Kind: "stmts", Name: name + "/stmts", Text: s})
				if !strings.ContainsAny(s, "\n;") {
					out = append(out, Source{Kind: "expr", Name: name + "/expr", Text: s})
				}
			}
			return true
		})
	}
	return out, nil
}

// plausibleCode filters out literals that cannot be Go-like code (messages,
// paths), to keep the skipped count meaningful.
func plausibleCode(s string) bool {
	if len(s) < 1 || strings.Contains(s, "%s") || strings.Contains(s, "%v") || strings.Contains(s, "%d") || strings.Contains(s, "%q") {
		return false
	}
	if strings.ContainsAny(s, "=([{+-*/<>!&|.\"'`") {
		return true
	}
	// single identifiers and literals
	return !strings.Contains(s, " ")
}
