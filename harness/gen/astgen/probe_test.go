package astgen

import (
	"fmt"
	"math/rand"
	"os"
	"sort"
	"testing"

	"verif/oracle/astrefl"
)

// TestProbe reports acceptance and coverage of the generator (development aid
// and regression test: the generator must keep reaching every node type).
func TestProbe(t *testing.T) {
	want, err := NodeTypes(RepoDir())
	if err != nil {
		t.Fatal(err)
	}
	g := NewGen(rand.New(rand.NewSource(1)))
	srcs := g.Generate(1600, "gen")
	seen := map[string]int{}
	edges := map[string]int{}
	byKind := map[string][2]int{}
	shown := map[string]int{}
	for _, s := range srcs {
		trees, st := Parse(s)
		k := byKind[s.Kind]
		k[0] += st.Trees
		k[1] += st.Rejected
		byKind[s.Kind] = k
		for _, p := range st.ParsePanic {
			t.Logf("PARSE PANIC %s", p[:200])
		}
		if st.Rejected > 0 && shown[s.Kind] < 6 && os.Getenv("PROBE_V") != "" {
			shown[s.Kind]++
			t.Logf("rejected %s: %q %v", s.Kind, s.Text, s.Files[s.Main])
		}
		for _, p := range trees {
			nodes, _ := astrefl.Nodes(p.Tree, astrefl.Options{})
			for _, n := range nodes {
				seen[astrefl.TypeName(n.Node)]++
				edges[n.Edge]++
			}
		}
	}
	t.Logf("by kind (trees, rejected): %v", byKind)
	var missing []string
	for _, w := range want {
		if seen[w] == 0 {
			missing = append(missing, w)
		}
	}
	var names []string
	for k, v := range seen {
		names = append(names, fmt.Sprintf("%s=%d", k, v))
	}
	sort.Strings(names)
	t.Logf("node types seen: %v", names)
	t.Logf("edges seen: %d", len(edges))
	if len(missing) > 1 || (len(missing) == 1 && missing[0] != "Placeholder") {
		t.Errorf("node types never generated: %v", missing)
	}
}
