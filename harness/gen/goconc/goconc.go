// Package goconc generates deterministic concurrent Go programs: goroutines
// that communicate only through channels, whose printed output does not depend
// on the schedule (commutative aggregation, hand-offs, close+range, select over
// several ready channels whose choice cannot change the output). Every program
// is data-race-free at source level by construction and checks conservation and
// per-producer FIFO order of the values it sends in-program.
package goconc

import (
	"fmt"
	"math/rand"
	"strings"
)

// Program is a generated program.
type Program struct {
	Source   string
	Patterns []string
}

// HostLibPath is the import path of the host package that generated programs may import.
const HostLibPath = "progs/hostlib"

// HostLibSource is the Go source of that package (the gc side); the scriggo side
// supplies the same functions as a native package.
const HostLibSource = `package hostlib

import "sync"

func Send(ch chan int, v int) { ch <- v }

func SendAll(ch chan int, vs ...int) {
	for _, v := range vs {
		ch <- v
	}
}

func Add(a, b int) int { return a + b }

func Label(s string, n int) string { return s + string(rune('a'+n%26)) }

func Apply(f func(int) int, v int) int { return f(v) }

// Acc is an accumulator that is safe for concurrent use.
type Acc struct {
	mu sync.Mutex
	n  int
}

func NewAcc() *Acc { return &Acc{} }

func (a *Acc) Add(v int) {
	a.mu.Lock()
	a.n += v
	a.mu.Unlock()
}

func (a *Acc) Get() int {
	a.mu.Lock()
	defer a.mu.Unlock()
	return a.n
}
`

type gen struct {
	usesHost bool
	r        *rand.Rand
	funcs    []string
	calls    []string
	pats     []string
	n        int
}

func (g *gen) id(p string) string { g.n++; return fmt.Sprintf("%s%d", p, g.n) }

// Generate returns a program made of 2–5 pattern instances run one after the other.
func Generate(r *rand.Rand) Program {
	g := &gen{r: r}
	np := 2 + r.Intn(4)
	pats := []func(){g.pipeline, g.fanInOut, g.pingPong, g.semaphore, g.selectMerge, g.slots, g.closeBroadcast, g.mutexMap, g.generatorClosure, g.nestedSpawn, g.nativeGo, g.closeSentinel, g.nativeGo, g.selectSend, g.sharedFuncValues, g.deepGo, g.selectBreak, g.selectSendTypes, g.goWithResults}
	for i := 0; i < np; i++ {
		pats[r.Intn(len(pats))]()
	}
	var sb strings.Builder
	sb.WriteString("package main\n\n")
	if g.usesHost {
		sb.WriteString("import \"" + HostLibPath + "\"\n\n")
	}
	for _, f := range g.funcs {
		sb.WriteString(f)
		sb.WriteString("\n\n")
	}
	sb.WriteString("func main() {\n")
	for _, c := range g.calls {
		sb.WriteString("\t" + c + "\n")
	}
	sb.WriteString("\tprintln(\"end\")\n}\n")
	return Program{Source: sb.String(), Patterns: g.pats}
}

func (g *gen) add(pat, name, body string) {
	g.funcs = append(g.funcs, body)
	g.calls = append(g.calls, name+"()")
	g.pats = append(g.pats, pat)
}

func (g *gen) buf() string {
	switch g.r.Intn(3) {
	case 0:
		return ""
	case 1:
		return ", 1"
	}
	return fmt.Sprintf(", %d", 2+g.r.Intn(6))
}

// pipeline: source -> k stages -> sink; close+range; order preserved.
func (g *gen) pipeline() {
	name := g.id("pipeline")
	n := 3 + g.r.Intn(20)
	k := 1 + g.r.Intn(4)
	var b strings.Builder
	fmt.Fprintf(&b, "func %s() {\n", name)
	fmt.Fprintf(&b, "\tc0 := make(chan int%s)\n", g.buf())
	fmt.Fprintf(&b, "\tgo func() {\n\t\tfor i := 0; i < %d; i++ {\n\t\t\tc0 <- i*%d + 1\n\t\t}\n\t\tclose(c0)\n\t}()\n", n, 1+g.r.Intn(5))
	for s := 1; s <= k; s++ {
		op := []string{"v*2 + 1", "v ^ 21", "v + 1000", "v - 3", "v*v%1009"}[g.r.Intn(5)]
		fmt.Fprintf(&b, "\tc%d := make(chan int%s)\n", s, g.buf())
		fmt.Fprintf(&b, "\tgo func(in <-chan int, out chan<- int) {\n\t\tfor v := range in {\n\t\t\tout <- %s\n\t\t}\n\t\tclose(out)\n\t}(c%d, c%d)\n", op, s-1, s)
	}
	fmt.Fprintf(&b, "\tcount, sum := 0, 0\n\tfor v := range c%d {\n\t\tcount++\n\t\tsum += v\n\t\tif count <= 4 {\n\t\t\tprintln(%q, v)\n\t\t}\n\t}\n\tprintln(%q, count, sum)\n}", k, name, name+" total")
	g.add("pipeline", name, b.String())
}

// fanInOut: producers tag values with (producer, seq); workers square; the
// collector checks per-producer FIFO on a dedicated channel pair and sums.
func (g *gen) fanInOut() {
	name := g.id("fan")
	np := 1 + g.r.Intn(4)
	nw := 1 + g.r.Intn(5)
	per := 2 + g.r.Intn(10)
	var b strings.Builder
	fmt.Fprintf(&b, "func %s() {\n", name)
	fmt.Fprintf(&b, "\tjobs := make(chan [2]int%s)\n\tres := make(chan [2]int%s)\n\tpdone := make(chan bool)\n", g.buf(), g.buf())
	fmt.Fprintf(&b, "\tfor p := 0; p < %d; p++ {\n\t\tgo func(p int) {\n\t\t\tfor s := 0; s < %d; s++ {\n\t\t\t\tjobs <- [2]int{p, s}\n\t\t\t}\n\t\t\tpdone <- true\n\t\t}(p)\n\t}\n", np, per)
	fmt.Fprintf(&b, "\tgo func() {\n\t\tfor p := 0; p < %d; p++ {\n\t\t\t<-pdone\n\t\t}\n\t\tclose(jobs)\n\t}()\n", np)
	fmt.Fprintf(&b, "\twdone := make(chan int)\n")
	fmt.Fprintf(&b, "\tfor w := 0; w < %d; w++ {\n\t\tgo func() {\n\t\t\tn := 0\n\t\t\tfor j := range jobs {\n\t\t\t\tres <- [2]int{j[0], j[1]*j[1] + j[0]}\n\t\t\t\tn++\n\t\t\t}\n\t\t\twdone <- n\n\t\t}()\n\t}\n", nw)
	fmt.Fprintf(&b, "\tgo func() {\n\t\ttotal := 0\n\t\tfor w := 0; w < %d; w++ {\n\t\t\ttotal += <-wdone\n\t\t}\n\t\tres <- [2]int{-1, total}\n\t\tclose(res)\n\t}()\n", nw)
	fmt.Fprintf(&b, "\tcount, sum, handled := 0, 0, -1\n\tseen := map[int]int{}\n\tfor r := range res {\n\t\tif r[0] < 0 {\n\t\t\thandled = r[1]\n\t\t\tcontinue\n\t\t}\n\t\tcount++\n\t\tsum += r[1]\n\t\tseen[r[0]]++\n\t}\n")
	fmt.Fprintf(&b, "\tprintln(%q, count, sum, handled, len(seen))\n\tfor p := 0; p < %d; p++ {\n\t\tprintln(%q, p, seen[p])\n\t}\n}", name, np, name+" producer")
	g.add("fan-in-out", name, b.String())
}

// pingPong: two goroutines hand a token back and forth; strictly ordered prints.
func (g *gen) pingPong() {
	name := g.id("pingpong")
	n := 2 + g.r.Intn(12)
	var b strings.Builder
	fmt.Fprintf(&b, "func %s() {\n\tping, pong := make(chan int), make(chan int)\n\tdone := make(chan string)\n", name)
	fmt.Fprintf(&b, "\tgo func() {\n\t\tfor v := range ping {\n\t\t\tpong <- v + 1\n\t\t}\n\t\tclose(pong)\n\t\tdone <- \"ponger\"\n\t}()\n")
	fmt.Fprintf(&b, "\tv := 0\n\tfor i := 0; i < %d; i++ {\n\t\tping <- v\n\t\tv = <-pong\n\t\tv *= 2\n\t}\n\tclose(ping)\n\t_, ok := <-pong\n\tprintln(%q, v, ok, <-done)\n}", n, name)
	g.add("ping-pong", name, b.String())
}

// semaphore: a buffered channel limits concurrency; a 1-token channel is a mutex for a shared counter.
func (g *gen) semaphore() {
	name := g.id("sem")
	n := 2 + g.r.Intn(12)
	k := 1 + g.r.Intn(3)
	var b strings.Builder
	fmt.Fprintf(&b, "func %s() {\n\tsem := make(chan struct{}, %d)\n\tmu := make(chan bool, 1)\n\tmu <- true\n\tdone := make(chan int)\n\tcounter, maxIn, in := 0, 0, 0\n", name, k)
	fmt.Fprintf(&b, "\tfor i := 0; i < %d; i++ {\n\t\tgo func(i int) {\n\t\t\tsem <- struct{}{}\n\t\t\t<-mu\n\t\t\tin++\n\t\t\tif in > maxIn {\n\t\t\t\tmaxIn = in\n\t\t\t}\n\t\t\tcounter += i * i\n\t\t\tmu <- true\n\t\t\t<-mu\n\t\t\tin--\n\t\t\tmu <- true\n\t\t\t<-sem\n\t\t\tdone <- i\n\t\t}(i)\n\t}\n", n)
	fmt.Fprintf(&b, "\tsum := 0\n\tfor i := 0; i < %d; i++ {\n\t\tsum += <-done\n\t}\n\t<-mu\n\tprintln(%q, counter, sum, maxIn <= %d, in)\n}", n, name, k)
	g.add("semaphore", name, b.String())
}

// selectMerge: select over several channels that are all ready; the sum and the
// per-channel order check do not depend on which case is chosen.
func (g *gen) selectMerge() {
	name := g.id("merge")
	nc := 2 + g.r.Intn(3)
	per := 2 + g.r.Intn(8)
	withSend := g.r.Intn(2) == 0
	var b strings.Builder
	fmt.Fprintf(&b, "func %s() {\n", name)
	for c := 0; c < nc; c++ {
		fmt.Fprintf(&b, "\tc%d := make(chan int%s)\n", c, g.buf())
		fmt.Fprintf(&b, "\tgo func() {\n\t\tfor i := 0; i < %d; i++ {\n\t\t\tc%d <- %d + i\n\t\t}\n\t\tclose(c%d)\n\t}()\n", per, c, (c+1)*1000, c)
	}
	if withSend {
		fmt.Fprintf(&b, "\tout := make(chan int, %d)\n", nc*per+1)
	}
	fmt.Fprintf(&b, "\topen, sum, ordered := %d, 0, true\n\tlast := make([]int, %d)\n", nc, nc)
	fmt.Fprintf(&b, "\tfor open > 0 {\n\t\tselect {\n")
	for c := 0; c < nc; c++ {
		fmt.Fprintf(&b, "\t\tcase v, ok := <-c%d:\n\t\t\tif !ok {\n\t\t\t\tc%d = nil\n\t\t\t\topen--\n\t\t\t\tcontinue\n\t\t\t}\n\t\t\tif v <= last[%d] {\n\t\t\t\tordered = false\n\t\t\t}\n\t\t\tlast[%d] = v\n\t\t\tsum += v\n", c, c, c, c)
		if withSend {
			fmt.Fprintf(&b, "\t\t\tout <- v\n")
		}
	}
	fmt.Fprintf(&b, "\t\t}\n\t}\n")
	if withSend {
		fmt.Fprintf(&b, "\tclose(out)\n\tx := 0\n\tfor v := range out {\n\t\tx ^= v\n\t}\n\tprintln(%q, x)\n", name+" xor")
	}
	fmt.Fprintf(&b, "\tprintln(%q, sum, ordered)\n}", name)
	g.add("select-merge", name, b.String())
}

// slots: N goroutines each write their own slot of a slice and signal a done channel.
func (g *gen) slots() {
	name := g.id("slots")
	n := 2 + g.r.Intn(14)
	typ := []string{"int", "string", "float64", "[]int"}[g.r.Intn(4)]
	val := map[string]string{"int": "i*i + 1", "string": "string(rune('a'+i%26)) + \"x\"", "float64": "float64(i) / 4", "[]int": "[]int{i, i + 1}"}[typ]
	pr := map[string]string{"int": "v", "string": "v", "float64": "v", "[]int": "len(v), v[1]"}[typ]
	var b strings.Builder
	fmt.Fprintf(&b, "func %s() {\n\tres := make([]%s, %d)\n\tdone := make(chan struct{}%s)\n", name, typ, n, g.buf())
	fmt.Fprintf(&b, "\tfor i := 0; i < %d; i++ {\n\t\tgo func(i int) {\n\t\t\tres[i] = %s\n\t\t\tdone <- struct{}{}\n\t\t}(i)\n\t}\n\tfor i := 0; i < %d; i++ {\n\t\t<-done\n\t}\n", n, val, n)
	fmt.Fprintf(&b, "\tfor i, v := range res {\n\t\tif i%%%d == 0 {\n\t\t\tprintln(%q, i, %s)\n\t\t}\n\t}\n}", 1+g.r.Intn(4), name, pr)
	g.add("slots", name, b.String())
}

// closeBroadcast: closing a channel releases all waiters; they report through a results channel.
func (g *gen) closeBroadcast() {
	name := g.id("bcast")
	n := 2 + g.r.Intn(10)
	var b strings.Builder
	fmt.Fprintf(&b, "func %s() {\n\tstart := make(chan struct{})\n\tready := make(chan int)\n\tres := make(chan int, %d)\n", name, n)
	fmt.Fprintf(&b, "\tfor i := 0; i < %d; i++ {\n\t\tgo func(i int) {\n\t\t\tready <- i\n\t\t\t<-start\n\t\t\tselect {\n\t\t\tcase <-start:\n\t\t\t\tres <- i * 3\n\t\t\tdefault:\n\t\t\t\tres <- -1000000\n\t\t\t}\n\t\t}(i)\n\t}\n", n)
	fmt.Fprintf(&b, "\tr := 0\n\tfor i := 0; i < %d; i++ {\n\t\tr += <-ready\n\t}\n\tclose(start)\n\tsum := 0\n\tfor i := 0; i < %d; i++ {\n\t\tsum += <-res\n\t}\n\tprintln(%q, r, sum)\n}", n, n, name)
	g.add("close-broadcast", name, b.String())
}

// mutexMap: goroutines update a shared map under a channel mutex.
func (g *gen) mutexMap() {
	name := g.id("mmap")
	n := 2 + g.r.Intn(8)
	k := 1 + g.r.Intn(5)
	var b strings.Builder
	fmt.Fprintf(&b, "func %s() {\n\tm := map[string]int{}\n\tmu := make(chan struct{}, 1)\n\tdone := make(chan bool)\n", name)
	fmt.Fprintf(&b, "\tfor i := 0; i < %d; i++ {\n\t\tgo func(i int) {\n\t\t\tfor j := 0; j < %d; j++ {\n\t\t\t\tmu <- struct{}{}\n\t\t\t\tm[string(rune('a'+j))] += i + j\n\t\t\t\t<-mu\n\t\t\t}\n\t\t\tdone <- true\n\t\t}(i)\n\t}\n", n, k)
	fmt.Fprintf(&b, "\tfor i := 0; i < %d; i++ {\n\t\t<-done\n\t}\n\tfor j := 0; j < %d; j++ {\n\t\tprintln(%q, j, m[string(rune('a'+j))])\n\t}\n\tprintln(%q, len(m))\n}", n, k, name, name+" len")
	g.add("mutex-map", name, b.String())
}

// generatorClosure: a function returns a receive-only channel fed by a goroutine (generator idiom) with an early stop through a quit channel.
func (g *gen) generatorClosure() {
	name := g.id("gener")
	take := 1 + g.r.Intn(9)
	var b strings.Builder
	fmt.Fprintf(&b, "func %s() {\n\tquit := make(chan struct{})\n\tstopped := make(chan int)\n", name)
	fmt.Fprintf(&b, "\tgen := func(step int) <-chan int {\n\t\tc := make(chan int%s)\n\t\tgo func() {\n\t\t\tn := 0\n\t\t\tfor i := 0; ; i += step {\n\t\t\t\tselect {\n\t\t\t\tcase c <- i:\n\t\t\t\t\tn++\n\t\t\t\tcase <-quit:\n\t\t\t\t\tstopped <- 1\n\t\t\t\t\treturn\n\t\t\t\t}\n\t\t\t}\n\t\t}()\n\t\treturn c\n\t}\n", g.buf())
	fmt.Fprintf(&b, "\ta, b := gen(%d), gen(%d)\n\tsum := 0\n\tfor i := 0; i < %d; i++ {\n\t\tsum += <-a\n\t\tsum -= <-b\n\t}\n\tclose(quit)\n\tprintln(%q, sum, <-stopped+<-stopped)\n}", 1+g.r.Intn(4), 1+g.r.Intn(4), take, name)
	g.add("generator", name, b.String())
}

// nestedSpawn: goroutines that start goroutines (tree), results reduced through channels.
func (g *gen) nestedSpawn() {
	name := g.id("tree")
	depth := 1 + g.r.Intn(3)
	fan := 2 + g.r.Intn(2)
	var b strings.Builder
	fmt.Fprintf(&b, "func %s() {\n\tvar node func(d, id int, out chan<- int)\n\tnode = func(d, id int, out chan<- int) {\n\t\tif d == 0 {\n\t\t\tout <- id\n\t\t\treturn\n\t\t}\n\t\tsub := make(chan int)\n\t\tfor k := 0; k < %d; k++ {\n\t\t\tgo node(d-1, id*%d+k, sub)\n\t\t}\n\t\ts := 0\n\t\tfor k := 0; k < %d; k++ {\n\t\t\ts += <-sub\n\t\t}\n\t\tout <- s + id\n\t}\n", name, fan, fan, fan)
	fmt.Fprintf(&b, "\tout := make(chan int)\n\tgo node(%d, 1, out)\n\tprintln(%q, <-out)\n}", depth, name)
	g.add("spawn-tree", name, b.String())
}

// nativeGo: go statements on native (host) functions with arguments, several in
// flight at once, plus synchronous calls of the same natives in between.
func (g *gen) nativeGo() {
	g.usesHost = true
	name := g.id("natgo")
	k := 2 + g.r.Intn(12)
	var b strings.Builder
	fmt.Fprintf(&b, "func %s() {\n\tch := make(chan int%s)\n", name, g.buf())
	fmt.Fprintf(&b, "\tfor i := 0; i < %d; i++ {\n\t\tgo hostlib.Send(ch, i*i+1)\n\t\tif i%%3 == 0 {\n\t\t\tgo hostlib.SendAll(ch, i, i+1)\n\t\t}\n\t}\n", k)
	extra := 2 * ((k + 2) / 3)
	fmt.Fprintf(&b, "\tsum, x, lab := 0, 0, \"\"\n\tfor i := 0; i < %d; i++ {\n\t\tv := <-ch\n\t\tsum = hostlib.Add(sum, v)\n\t\tx ^= v\n\t\tif i < 3 {\n\t\t\tlab = hostlib.Label(lab, i)\n\t\t}\n\t}\n\tprintln(%q, sum, x, lab)\n}", k+extra, name)
	g.add("native-go", name, b.String())
}

// closeSentinel: a select receive case on a channel that gets closed; the
// received zero value is used (close as a zero sentinel).
func (g *gen) closeSentinel() {
	name := g.id("sentinel")
	k := 2 + g.r.Intn(9)
	var b strings.Builder
	fmt.Fprintf(&b, "func %s() {\n\tdata := make(chan int)\n\tquit := make(chan int)\n\tnames := make(chan string)\n", name)
	fmt.Fprintf(&b, "\tgo func() {\n\t\tfor i := 1; i <= %d; i++ {\n\t\t\tdata <- i * 7\n\t\t\tnames <- \"n\"\n\t\t}\n\t\tclose(quit)\n\t}()\n", k)
	fmt.Fprintf(&b, "\tsum, done, s := 0, false, \"\"\n\tfor !done {\n\t\tselect {\n\t\tcase v := <-data:\n\t\t\tsum += v\n\t\tcase n := <-names:\n\t\t\ts += n\n\t\tcase code := <-quit:\n\t\t\tsum += code * 1000\n\t\t\tdone = true\n\t\t}\n\t}\n")
	fmt.Fprintf(&b, "\tcode, ok := <-quit\n\tprintln(%q, sum, len(s), code, ok)\n}", name)
	g.add("close-sentinel", name, b.String())
}

// selectSend: a select with several send cases carrying different values to
// different channels; each consumer checks that it only sees its own values.
func (g *gen) selectSend() {
	name := g.id("selsend")
	nc := 2 + g.r.Intn(3)
	rounds := 3 + g.r.Intn(12)
	var b strings.Builder
	fmt.Fprintf(&b, "func %s() {\n\tres := make(chan [2]int)\n", name)
	for c := 0; c < nc; c++ {
		fmt.Fprintf(&b, "\tc%d := make(chan int%s)\n", c, g.buf())
		fmt.Fprintf(&b, "\tgo func() {\n\t\tn, bad := 0, 0\n\t\tfor v := range c%d {\n\t\t\tn++\n\t\t\tif v/1000 != %d {\n\t\t\t\tbad++\n\t\t\t}\n\t\t}\n\t\tres <- [2]int{n, bad}\n\t}()\n", c, c+1)
	}
	fmt.Fprintf(&b, "\tfor i := 0; i < %d; i++ {\n\t\tselect {\n", rounds)
	for c := 0; c < nc; c++ {
		fmt.Fprintf(&b, "\t\tcase c%d <- %d + i:\n", c, (c+1)*1000)
	}
	fmt.Fprintf(&b, "\t\t}\n\t}\n")
	for c := 0; c < nc; c++ {
		fmt.Fprintf(&b, "\tclose(c%d)\n", c)
	}
	fmt.Fprintf(&b, "\ttotal, bad := 0, 0\n\tfor i := 0; i < %d; i++ {\n\t\tr := <-res\n\t\ttotal += r[0]\n\t\tbad += r[1]\n\t}\n\tprintln(%q, total, bad)\n}", nc, name)
	g.add("select-send", name, b.String())
}

// sharedFuncValues: a native method value and a closure are shared by several
// goroutines that call them, send them on a channel and pass them to native
// code at the same time.
func (g *gen) sharedFuncValues() {
	g.usesHost = true
	name := g.id("shfn")
	k := 2 + g.r.Intn(6)
	var b strings.Builder
	fmt.Fprintf(&b, "func %s() {\n\tacc := hostlib.NewAcc()\n\tadd := acc.Add\n\tbase := %d\n\tdbl := func(x int) int { return 2*x + base }\n", name, g.r.Intn(5))
	fmt.Fprintf(&b, "\tstart := make(chan bool)\n\tfs := make(chan func(int) int%s)\n\tres := make(chan int)\n", g.buf())
	fmt.Fprintf(&b, "\tfor i := 0; i < %d; i++ {\n\t\tgo func(f func(int), h func(int) int, i int) {\n\t\t\t<-start\n\t\t\tf(i + 1)\n\t\t\tfs <- h\n\t\t\tres <- hostlib.Apply(h, i)\n\t\t}(add, dbl, i)\n\t}\n\tclose(start)\n", k)
	fmt.Fprintf(&b, "\ts, t := 0, 0\n\tfor i := 0; i < %d; i++ {\n\t\th := <-fs\n\t\ts += h(i)\n\t\tt += <-res\n\t}\n", k)
	fmt.Fprintf(&b, "\tprintln(%q, acc.Get(), s, t, hostlib.Apply(dbl, 4))\n}", name)
	g.add("shared-func-values", name, b.String())
}

// deepGo: a go statement executed at every depth of a recursion, so that the
// frame of the statement lies at every offset around the sizes at which the
// register stacks of the VM grow.
func (g *gen) deepGo() {
	name := g.id("deepgo")
	extra := g.r.Intn(4)
	var b strings.Builder
	fmt.Fprintf(&b, "func %sRec(n int, ch chan int) int {\n\tif n == 0 {\n", name)
	switch g.r.Intn(3) {
	case 0:
		g.usesHost = true
		b.WriteString("\t\tgo hostlib.Send(ch, 7)\n")
	case 1:
		b.WriteString("\t\tgo func(v int) {\n\t\t\tch <- v\n\t\t}(7)\n")
	default:
		b.WriteString("\t\tf := func(c chan int, v int) {\n\t\t\tc <- v\n\t\t}\n\t\tgo f(ch, 7)\n")
	}
	b.WriteString("\t\treturn 0\n\t}\n\ta := n * 2\n")
	sum := "a"
	for i := 0; i < extra; i++ {
		fmt.Fprintf(&b, "\tb%d := a + %d\n", i, i+1)
		sum += fmt.Sprintf(" + b%d", i)
	}
	fmt.Fprintf(&b, "\treturn %sRec(n-1, ch) + %s\n}\n\n", name, sum)
	hi := 600/(3+extra) + 30
	fmt.Fprintf(&b, "func %s() {\n\tt, u := 0, 0\n\tfor d := 1; d < %d; d++ {\n\t\tch := make(chan int)\n\t\tu += %sRec(d, ch)\n\t\tt += <-ch\n\t}\n\tprintln(%q, t, u)\n}", name, hi, name, name)
	g.add("deep-go", name, b.String())
}

// selectBreak: break statements in the cases of a select statement inside a
// loop leave the select statement only.
func (g *gen) selectBreak() {
	name := g.id("selbrk")
	k := 3 + g.r.Intn(8)
	var b strings.Builder
	fmt.Fprintf(&b, "func %s() {\n\tch := make(chan int, %d)\n\tfor i := 0; i < %d; i++ {\n\t\tch <- i\n\t}\n", name, k, k)
	fmt.Fprintf(&b, "\tsum, after := 0, 0\n\tfor i := 0; i < %d; i++ {\n\t\tselect {\n\t\tcase v := <-ch:\n\t\t\tif v%%3 == 1 {\n\t\t\t\tbreak\n\t\t\t}\n\t\t\tsum += v\n\t\tdefault:\n\t\t\tif i >= 0 {\n\t\t\t\tbreak\n\t\t\t}\n\t\t\tsum = -1\n\t\t}\n\t\tafter++\n\t}\n", k+2)
	fmt.Fprintf(&b, "\tprintln(%q, sum, after)\n}", name)
	g.add("select-break", name, b.String())
}

// selectSendTypes: the same goroutine executes selects whose send cases, at
// the same case index, send values of different types of the same kind.
func (g *gen) selectSendTypes() {
	name := g.id("seltypes")
	pairs := [][2][2]string{
		{{"[]int", "[]int{1, 2}"}, {"[]string", "[]string{\"a\", \"b\", \"c\"}"}},
		{{"map[string]int", "map[string]int{\"k\": 1}"}, {"map[int]bool", "map[int]bool{1: true, 2: false}"}},
		{{"*int", "new(int)"}, {"*string", "new(string)"}},
		{{"[2]int", "[2]int{3, 4}"}, {"[3]string", "[3]string{\"x\", \"y\", \"z\"}"}},
		{{"func() int", "func() int { return 5 }"}, {"func(int) string", "func(int) string { return \"q\" }"}},
		{{"chan int", "make(chan int, 4)"}, {"chan string", "make(chan string, 2)"}},
		{{"interface{}", "7"}, {"error", "nil"}},
	}
	p := pairs[g.r.Intn(len(pairs))]
	if g.r.Intn(2) == 0 {
		p[0], p[1] = p[1], p[0]
	}
	var b strings.Builder
	fmt.Fprintf(&b, "func %s() {\n\ta := make(chan %s, 2)\n\tb := make(chan %s, 2)\n\tother := make(chan int)\n\tn := 0\n", name, p[0][0], p[1][0])
	fmt.Fprintf(&b, "\tfor i := 0; i < %d; i++ {\n", 1+g.r.Intn(2))
	fmt.Fprintf(&b, "\t\tselect {\n\t\tcase a <- %s:\n\t\t\tn += 1\n\t\tcase <-other:\n\t\t\tn += 100\n\t\t}\n", p[0][1])
	fmt.Fprintf(&b, "\t\tselect {\n\t\tcase b <- %s:\n\t\t\tn += 10\n\t\tcase <-other:\n\t\t\tn += 1000\n\t\t}\n", p[1][1])
	b.WriteString("\t\t<-a\n\t\t<-b\n\t}\n")
	fmt.Fprintf(&b, "\tprintln(%q, n, len(a), len(b))\n}", name)
	g.add("select-send-types", name, b.String())
}

// goWithResults: go statements on functions, function values and closures
// that have results (discarded) of the same kinds as their parameters.
func (g *gen) goWithResults() {
	name := g.id("gores")
	k := 2 + g.r.Intn(5)
	var b strings.Builder
	fmt.Fprintf(&b, "func %sSq(ch chan int, x int, s string, f float64) (int, string, float64, chan int) {\n\tch <- x*x + len(s) + int(f)\n\treturn x, s, f, ch\n}\n\n", name)
	fmt.Fprintf(&b, "func %s() {\n\tch := make(chan int%s)\n\tfv := %sSq\n\tcl := func(c chan int, a, b int) (int, int) {\n\t\tc <- a*10 + b\n\t\treturn a, b\n\t}\n", name, g.buf(), name)
	fmt.Fprintf(&b, "\tfor i := 0; i < %d; i++ {\n\t\tgo %sSq(ch, i+3, \"ab\", 2.5)\n\t\tgo fv(ch, i, \"c\", 1.0)\n\t\tgo cl(ch, i, 7)\n\t}\n", k, name)
	fmt.Fprintf(&b, "\tsum := 0\n\tfor i := 0; i < %d; i++ {\n\t\tsum += <-ch\n\t}\n\tprintln(%q, sum)\n}", 3*k, name)
	g.add("go-with-results", name, b.String())
}
