// Package tmplgen generates scriggo template documents with show holes at every
// syntactic position, and typed values (benign markers and context-breaking
// hostile values) for the holes. It is deterministic in the *rand.Rand it is given.
package tmplgen

import (
	"errors"
	"fmt"
	"math"
	"math/rand"
	"reflect"
	"strconv"
	"strings"

	"github.com/open2b/scriggo/native"
)

// Type keys of hole variables.
const (
	TString   = "string"
	TInt      = "int"
	TFloat    = "float"
	TBool     = "bool"
	TStringer = "stringer" // Str, implements fmt.Stringer
	TError    = "error"
	TAny      = "any"   // interface{} holding a string
	TStrs     = "strs"  // []string
	TMap      = "smap"  // map[string]string
	TRec      = "rec"   // Rec struct
	TAnys     = "anys"  // []any holding strings, ints, bools, nested maps
	TBytes    = "bytes" // []byte: a slice of numbers, but written raw in HTML context
	// trusted types (negative control)
	THTML     = "html"
	TCSS      = "css"
	TJS       = "js"
	TJSON     = "json"
	TMarkdown = "markdown"
	THTMLStr  = "htmlstringer"
	TJSStr    = "jsstringer"
	TCSSStr   = "cssstringer"
)

// Str is a Stringer.
type Str struct{ S string }

func (s Str) String() string { return s.S }

// Rec is a struct shown in JS and JSON contexts.
type Rec struct {
	A string
	N int `json:"n"`
	L []string
	M map[string]string `json:"m,omitempty"`
}

// HTMLStr implements native.HTMLStringer.
type HTMLStr struct{ S string }

func (s HTMLStr) HTML() native.HTML { return native.HTML(s.S) }

// JSStr implements native.JSStringer.
type JSStr struct{ S string }

func (s JSStr) JS() native.JS { return native.JS(s.S) }

// CSSStr implements native.CSSStringer.
type CSSStr struct{ S string }

func (s CSSStr) CSS() native.CSS { return native.CSS(s.S) }

// Decl returns the global declaration (a typed nil pointer) of a variable of
// the given type key.
func Decl(t string) native.Declaration {
	switch t {
	case TString:
		return (*string)(nil)
	case TInt:
		return (*int)(nil)
	case TFloat:
		return (*float64)(nil)
	case TBool:
		return (*bool)(nil)
	case TStringer:
		return (*Str)(nil)
	case TError:
		return (*error)(nil)
	case TAny:
		return (*any)(nil)
	case TStrs:
		return (*[]string)(nil)
	case TMap:
		return (*map[string]string)(nil)
	case TRec:
		return (*Rec)(nil)
	case TAnys:
		return (*[]any)(nil)
	case TBytes:
		return (*[]byte)(nil)
	case THTML:
		return (*native.HTML)(nil)
	case TCSS:
		return (*native.CSS)(nil)
	case TJS:
		return (*native.JS)(nil)
	case TJSON:
		return (*native.JSON)(nil)
	case TMarkdown:
		return (*native.Markdown)(nil)
	case THTMLStr:
		return (*HTMLStr)(nil)
	case TJSStr:
		return (*JSStr)(nil)
	case TCSSStr:
		return (*CSSStr)(nil)
	}
	panic("tmplgen: unknown type key " + t)
}

// TypeExpr returns the type expression usable in template source (macro
// parameters) for a type key. Named harness types are declared by TypeDecls.
func TypeExpr(t string) string {
	switch t {
	case TString, TInt, TBool, TError, THTML, TCSS, TJS, TJSON, TMarkdown:
		return t
	case TFloat:
		return "float64"
	case TStringer:
		return "Str"
	case TAny:
		return "interface{}"
	case TStrs:
		return "[]string"
	case TMap:
		return "map[string]string"
	case TRec:
		return "Rec"
	case TAnys:
		return "[]interface{}"
	case TBytes:
		return "[]byte"
	case THTMLStr:
		return "HTMLStr"
	case TJSStr:
		return "JSStr"
	case TCSSStr:
		return "CSSStr"
	}
	panic("tmplgen: unknown type key " + t)
}

// Value is a JSON-serialisable typed value. Strings travel as []byte (base64)
// so that invalid UTF-8 survives; Q is a readable rendition for humans.
type Value struct {
	T     string   `json:"t"`
	S     []byte   `json:"s,omitempty"`
	Q     string   `json:"q,omitempty"`
	I     int64    `json:"i,omitempty"`
	F     float64  `json:"f,omitempty"`
	B     bool     `json:"b,omitempty"`
	L     [][]byte `json:"l,omitempty"` // elements (strs, anys), key/value pairs (smap), A + L... (rec)
	Class string   `json:"class,omitempty"`
}

// Str builds a string-like value of type t.
func StrVal(t, s, class string) Value {
	return Value{T: t, S: []byte(s), Q: strconv.QuoteToASCII(s), Class: class}
}

// Go returns the Go value passed to Template.Run for v. Interface-typed
// variables get a pointer to the interface value.
func (v Value) Go() any {
	s := string(v.S)
	switch v.T {
	case TString:
		return s
	case TInt:
		return int(v.I)
	case TFloat:
		return v.F
	case TBool:
		return v.B
	case TStringer:
		return Str{s}
	case TError:
		var e error = errors.New(s)
		return &e
	case TAny:
		var a any = s
		return &a
	case TStrs:
		out := make([]string, len(v.L))
		for i, b := range v.L {
			out[i] = string(b)
		}
		return out
	case TMap:
		out := map[string]string{}
		for i := 0; i+1 < len(v.L); i += 2 {
			out[string(v.L[i])] = string(v.L[i+1])
		}
		return out
	case TRec:
		r := Rec{N: int(v.I)}
		if len(v.L) > 0 {
			r.A = string(v.L[0])
		}
		for _, b := range v.L[min(1, len(v.L)):] {
			r.L = append(r.L, string(b))
		}
		if len(r.L) >= 2 {
			r.M = map[string]string{r.L[0]: r.L[1]}
		}
		return r
	case TAnys:
		out := make([]any, 0, len(v.L)+2)
		for i, b := range v.L {
			if i%2 == 1 {
				out = append(out, map[string]any{string(b): string(b)})
			} else {
				out = append(out, string(b))
			}
		}
		out = append(out, int(v.I), v.B)
		return out
	case TBytes:
		return []byte(s)
	case THTML:
		return native.HTML(s)
	case TCSS:
		return native.CSS(s)
	case TJS:
		return native.JS(s)
	case TJSON:
		return native.JSON(s)
	case TMarkdown:
		return native.Markdown(s)
	case THTMLStr:
		return HTMLStr{s}
	case TJSStr:
		return JSStr{s}
	case TCSSStr:
		return CSSStr{s}
	}
	panic("tmplgen: unknown type key " + v.T)
}

// Marker returns the benign marker string of hole i; it is alphanumeric, so no
// escaper changes it, and no marker is a substring of another.
func Marker(i int) string { return fmt.Sprintf("Zq%02dx", i) }

// IntMarker is the benign value of int and float holes.
func IntMarker(i int) int64 { return 73100 + int64(i) }

// Benign returns the benign value of hole i with type t, and the texts by which
// (parts of) the value can be recognised in the rendered output.
func Benign(i int, t string) (Value, []string) {
	m := Marker(i)
	n := IntMarker(i)
	ns := strconv.FormatInt(n, 10)
	switch t {
	case TInt:
		return Value{T: t, I: n, Class: "benign"}, []string{ns}
	case TFloat:
		return Value{T: t, F: float64(n) + 0.5, Class: "benign"}, []string{ns} // the dot may be escaped (Markdown, URLs)
	case TBool:
		return Value{T: t, B: true, Class: "benign"}, []string{"true"}
	case TStrs:
		return Value{T: t, L: [][]byte{[]byte(m + "a"), []byte(m + "b")}, Class: "benign"}, []string{m}
	case TMap:
		return Value{T: t, L: [][]byte{[]byte(m + "k"), []byte(m + "v")}, Class: "benign"}, []string{m}
	case TRec:
		return Value{T: t, I: n, L: [][]byte{[]byte(m + "a"), []byte(m + "b"), []byte(m + "c")}, Class: "benign"}, []string{m, ns}
	case TAnys:
		return Value{T: t, I: n, B: true, L: [][]byte{[]byte(m + "a"), []byte(m + "b")}, Class: "benign"}, []string{m, ns, "true"}
	}
	v := StrVal(t, m, "benign")
	return v, []string{m}
}

// Entry is a dictionary entry: a context-breaking string and its class.
type Entry struct {
	S     string
	Class string
}

// Dictionary is the context-breaking dictionary. Every entry is aimed at one
// way of leaving a syntactic slot.
var Dictionary = []Entry{
	{"</script>", "script-close"},
	{"</SCRIPT >", "script-close"},
	{"</script\t><img src=x onerror=alert(1)>", "script-close"},
	{"</style><script>alert(1)</script>", "style-close"},
	{"</title><script>alert(1)</script>", "rcdata-close"},
	{"</textarea><b>", "rcdata-close"},
	{"</xmp></noscript></iframe><i>", "rawtext-close"},
	{"<script>alert(1)</script>", "tag"},
	{"<b>x</b>", "tag"},
	{"<!--", "comment-open"},
	{"<!-- <script>", "comment-open"},
	{"-->", "comment-close"},
	{"--!><b>", "comment-close"},
	{"--><script>alert(1)</script>", "comment-close"},
	{"]]>", "cdata-close"},
	{"<![CDATA[", "cdata-open"},
	{"?><b>", "pi-close"},
	{`"`, "dquote"},
	{`'`, "squote"},
	{`" onmouseover="alert(1)`, "dquote"},
	{`' onmouseover='alert(1)`, "squote"},
	{`"><script>alert(1)</script>`, "dquote"},
	{`'><script>alert(1)</script>`, "squote"},
	{`";alert(1);//`, "dquote"},
	{`';alert(1);//`, "squote"},
	{`"}; body { color: red`, "dquote"},
	{`\`, "backslash"},
	{`\"`, "backslash"},
	{`\';alert(1)//`, "backslash"},
	{`a\`, "backslash"},
	{`\\`, "backslash"},
	{`"`, "backslash"},
	{`\22 `, "backslash"},
	{"\n", "newline"},
	{"a\nb", "newline"},
	{"a\r\nb", "newline"},
	{"a\rb", "newline"},
	{"a\n\nb", "blankline"},
	{"x\nalert(1)//", "newline"},
	{"a\u2028alert(1)", "ls-ps"},
	{"a\u2029b", "ls-ps"},
	{"a\u0085b", "nel"},
	{"a\vb\fc", "vt-ff"},
	{"*/", "comment-end"},
	{"*/alert(1)/*", "comment-end"},
	{"/*", "comment-start"},
	{"//", "comment-start"},
	{"${alert(1)}", "template-subst"},
	{"`", "backtick"},
	{"`+alert(1)+`", "backtick"},
	{"javascript:alert(1)", "scheme"},
	{"data:text/html,<script>alert(1)</script>", "scheme"},
	{"&amp;", "entity"},
	{"&lt;b&gt;", "entity"},
	{"&#x3c;script&#62;", "entity"},
	{"&quot; x=&quot;", "entity"},
	{"&", "amp"},
	{"%", "percent"},
	{"%22%3E", "percent"},
	{"%zz", "percent"},
	{"?", "url-delim"},
	{"?a=b&c=d", "url-delim"},
	{"a&b=c", "url-delim"},
	{"#frag", "url-delim"},
	{"a b", "space"},
	{" ", "space"},
	{" onclick=alert(1) ", "space"},
	{"a\tb", "space"},
	{"x y=z", "space"},
	{"=", "equals"},
	{"a=b", "equals"},
	{">", "gt"},
	{"><b>", "gt"},
	{"/>", "gt"},
	{"/", "slash"},
	{"a/b", "slash"},
	{"<", "lt"},
	{"a<b", "lt"},
	{"\x00", "nul"},
	{"a\x00b", "nul"},
	{"\ufeff", "bom"},
	{"a\ufeffb", "bom"},
	{"\xff", "invalid-utf8"},
	{"a\xc3(b\xed\xa0\x80", "invalid-utf8"},
	{"￾￿", "nonchar"},
	{"", "empty"},
	{",", "comma"},
	{"a, b 2x", "comma"},
	{";", "semicolon"},
	{"red; background: url(javascript:alert(1))", "semicolon"},
	{"1;alert(1)", "semicolon"},
	{"(", "paren"},
	{")", "paren"},
	{"expression(alert(1))", "paren"},
	{"url(x)", "paren"},
	{"alert(1)", "code"},
	{"x+y", "code"},
	{"a:b", "colon"},
	{"{", "brace"},
	{"}", "brace"},
	{"} body { color: red", "brace"},
	{"[1,2]", "bracket"},
	{"]", "bracket"},
	{`{"a":1}`, "brace"},
	{"null", "literal-word"},
	{"true", "literal-word"},
	{"-1", "minus"},
	{"--", "minus"},
	{"- x", "minus"},
	{"+", "plus"},
	{"1e999", "number-like"},
	{"0x10", "number-like"},
	{"# h", "md-heading"},
	{"* item", "md-list"},
	{"1. item", "md-list"},
	{"- item", "md-list"},
	{"> quote", "md-quote"},
	{"*em*", "md-emph"},
	{"**strong**", "md-emph"},
	{"_em_", "md-emph"},
	{"~~del~~", "md-emph"},
	{"[link](http://evil.example/)", "md-link"},
	{"![img](http://evil.example/x.png)", "md-link"},
	{"<http://evil.example/>", "md-link"},
	{"[ref]: http://evil.example/", "md-link"},
	{"`code`", "md-code"},
	{"```\ncode\n```", "md-code"},
	{"    code", "md-code"},
	{"\tcode", "md-code"},
	{"a  \nb", "md-break"},
	{"---", "md-rule"},
	{"===", "md-rule"},
	{"| a | b |", "md-table"},
	{"&copy;", "entity"},
	{"\\*", "md-escape"},
	{"é", "unicode"},
	{"日本語", "unicode"},
	{"\U0001F600", "unicode"},
	{"á", "unicode"},
	{"‮", "unicode"},
}

// Restriction names understood by HostileString.
const (
	RNonEmpty     = "nonempty"     // the rendered value must not be empty
	RNoSpace      = "nospace"      // no ASCII white space
	RNoNewline    = "nonewline"    // no line terminators (LF, CR)
	RNoCommentEnd = "nocommentend" // no "*/"
	RNoBacktick   = "nobacktick"   // neither ` nor ${
	RNonBlank     = "nonblank"     // at least one character that is not white space
	RLetterFirst  = "letterfirst"  // the first byte is an ASCII letter (a value that is a whole tag name)
)

func violates(s string, restrict []string) bool {
	for _, r := range restrict {
		switch r {
		case RNonEmpty:
			if s == "" {
				return true
			}
		case RLetterFirst:
			if s == "" || !('a' <= s[0]|0x20 && s[0]|0x20 <= 'z') {
				return true
			}
		case RNonBlank:
			if strings.TrimSpace(s) == "" {
				return true
			}
		case RNoSpace:
			for i := 0; i < len(s); i++ {
				switch s[i] {
				case ' ', '\t', '\n', '\r', '\f':
					return true
				}
			}
		case RNoNewline:
			for i := 0; i < len(s); i++ {
				if s[i] == '\n' || s[i] == '\r' {
					return true
				}
			}
		case RNoCommentEnd:
			for i := 0; i+1 < len(s); i++ {
				if s[i] == '*' && s[i+1] == '/' {
					return true
				}
			}
		case RNoBacktick:
			for i := 0; i < len(s); i++ {
				if s[i] == '`' || s[i] == '$' {
					return true
				}
			}
		}
	}
	return false
}

var successors = []rune{'a', 'Z', '0', ' ', '"', '\'', '<', '>', '&', '\\', '/', '-', '!', ';', ':', '=', '#', '?', '%', '\n', '\t', '(', ')', '{', '}', '*', '`', '$', '.', ',',
	0xe9, 0x3c0, 0x2028, 0x65e5, 0x1F600, 0xA0}

// HostileString draws a hostile string: a dictionary entry, optionally wrapped
// in benign text and followed by a successor character, or random Unicode.
func HostileString(r *rand.Rand, restrict []string) (string, string) {
	for try := 0; ; try++ {
		var s, class string
		switch k := r.Intn(20); {
		case k < 15 || try > 50:
			e := Dictionary[r.Intn(len(Dictionary))]
			s, class = e.S, e.Class
			switch r.Intn(6) {
			case 0:
				s = "ab" + s
			case 1:
				s = s + "yz"
			case 2:
				s = "ab" + s + "yz"
			case 3:
				s = s + string(successors[r.Intn(len(successors))])
			}
			if try > 200 {
				return "Hh", "fallback"
			}
		case k < 18:
			// two dictionary entries
			a := Dictionary[r.Intn(len(Dictionary))]
			b := Dictionary[r.Intn(len(Dictionary))]
			s, class = a.S+b.S, a.Class+"+"+b.Class
		default:
			s, class = randomUnicode(r), "random-unicode"
		}
		if !violates(s, restrict) {
			return s, class
		}
	}
}

func randomUnicode(r *rand.Rand) string {
	n := 1 + r.Intn(12)
	out := make([]rune, 0, n)
	for i := 0; i < n; i++ {
		switch r.Intn(6) {
		case 0:
			out = append(out, rune(r.Intn(0x80)))
		case 1:
			out = append(out, rune(0x80+r.Intn(0x780)))
		case 2:
			out = append(out, rune(0x800+r.Intn(0xD000)))
		case 3:
			out = append(out, rune(0x10000+r.Intn(0x10000)))
		case 4:
			out = append(out, successors[r.Intn(len(successors))])
		default:
			out = append(out, rune(0x2000+r.Intn(0x70)))
		}
	}
	return string(out)
}

var hostileInts = []int64{-1, 0, math.MinInt64, math.MaxInt64, -73100, 1e15}
var hostileFloats = []float64{-1.5, 0, 1e21, -1e21, 1e-7, -1e-7, math.MaxFloat64, math.SmallestNonzeroFloat64, math.Copysign(0, -1), 0.1}

// Hostile draws a hostile value for a hole of type t. NaN and infinities are
// not drawn: their renderings are the subject of C08.
func Hostile(r *rand.Rand, t string, restrict []string) Value {
	switch t {
	case TInt:
		n := hostileInts[r.Intn(len(hostileInts))]
		return Value{T: t, I: n, Class: intClass(float64(n))}
	case TFloat:
		f := hostileFloats[r.Intn(len(hostileFloats))]
		return Value{T: t, F: f, Class: intClass(f)}
	case TBool:
		return Value{T: t, B: false, Class: "false"}
	case TStrs:
		a, c1 := HostileString(r, restrict)
		b, c2 := HostileString(r, restrict)
		return Value{T: t, L: [][]byte{[]byte(a), []byte(b)}, Q: strconv.QuoteToASCII(a) + "," + strconv.QuoteToASCII(b), Class: c1 + "," + c2}
	case TMap:
		a, c1 := HostileString(r, restrict)
		b, c2 := HostileString(r, restrict)
		return Value{T: t, L: [][]byte{[]byte(a), []byte(b)}, Q: strconv.QuoteToASCII(a) + ":" + strconv.QuoteToASCII(b), Class: "key:" + c1 + ",val:" + c2}
	case TRec:
		a, c1 := HostileString(r, restrict)
		b, _ := HostileString(r, restrict)
		c, _ := HostileString(r, restrict)
		return Value{T: t, I: hostileInts[r.Intn(len(hostileInts))], L: [][]byte{[]byte(a), []byte(b), []byte(c)},
			Q: strconv.QuoteToASCII(a) + "," + strconv.QuoteToASCII(b) + "," + strconv.QuoteToASCII(c), Class: "rec:" + c1}
	case TAnys:
		a, c1 := HostileString(r, restrict)
		b, _ := HostileString(r, restrict)
		return Value{T: t, I: hostileInts[r.Intn(len(hostileInts))], B: false, L: [][]byte{[]byte(a), []byte(b)},
			Q: strconv.QuoteToASCII(a) + "," + strconv.QuoteToASCII(b), Class: "anys:" + c1}
	}
	s, class := HostileString(r, restrict)
	return StrVal(t, s, class)
}

func intClass(f float64) string {
	switch {
	case f < 0 || f == 0 && math.Signbit(f):
		return "negative"
	case f == 0:
		return "zero"
	case f > 1e15 || f < 1e-3:
		return "extreme"
	}
	return "positive"
}

// TypeDecls returns the declarations of the named harness types used in macro
// parameter lists.
func TypeDecls() native.Declarations {
	return native.Declarations{
		"Str":     reflect.TypeFor[Str](),
		"Rec":     reflect.TypeFor[Rec](),
		"HTMLStr": reflect.TypeFor[HTMLStr](),
		"JSStr":   reflect.TypeFor[JSStr](),
		"CSSStr":  reflect.TypeFor[CSSStr](),
	}
}
