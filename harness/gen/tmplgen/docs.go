package tmplgen

import (
	"fmt"
	"math/rand"
	"sort"
	"strings"
)

// Hole classes: what kind of slot the generator intends the hole to be. The
// class only selects admissible variable types and value restrictions; the
// oracle derives the true context from the rendered output on its own.
const (
	CText   = "text"   // HTML text, RCDATA, comment, quoted attribute value, string interiors
	CUAttr  = "uattr"  // unquoted attribute value
	CName   = "name"   // tag name suffix or attribute name
	CJSExpr = "jsx"    // JavaScript expression
	CJSStr  = "jss"    // inside a JavaScript string literal
	CCSSVal = "cssx"   // CSS value
	CCSSStr = "csss"   // inside a CSS string
	CJSONV  = "jsonx"  // JSON value
	CJSONS  = "jsons"  // inside a JSON string
	CMD     = "md"     // Markdown inline text
	CMDCode = "mdcode" // Markdown indented code block
	CMDURL  = "mdurl"  // URL in Markdown
)

// Hole describes one show hole of a document.
type Hole struct {
	Var      string   `json:"var"`
	Type     string   `json:"type"`
	Class    string   `json:"class"`
	Via      string   `json:"via"` // direct | macro | macro:<result type> | import | render:<ext> | var
	Restrict []string `json:"restrict,omitempty"`
	Note     string   `json:"note,omitempty"` // construct the hole sits in
}

// Doc is a generated multi-file template.
type Doc struct {
	Main     string            `json:"main"`
	Files    map[string]string `json:"files"`
	Holes    []Hole            `json:"holes"`
	Features []string          `json:"features,omitempty"`
}

// Scopes are the named constructs a caller can ask the generator to stay away
// from (one per recorded open finding).
const (
	ScopeRenderOtherFormat = "render-other-format"
	ScopeRegexQuote        = "js-regex-quote"
	ScopeTemplateQuote     = "js-template-quote"
	ScopeTemplateHole      = "js-template-hole"
	ScopeCSSCommentQuote   = "css-comment-quote"
	ScopeEventAttr         = "event-attr"
	ScopeStyleAttr         = "style-attr"
	ScopeTagSpace          = "tag-space"
	ScopeDoubleEscaped     = "script-double-escaped"
	ScopeEscapedBackslash  = "string-escaped-backslash"
	ScopeUnquotedEmpty     = "unquoted-attr-empty"
	ScopeJSCommentHole     = "js-comment-hole"
	ScopeMinusAdjacent     = "js-minus-adjacent"
	ScopeScriptTypeJS      = "script-type-js-mime"
	ScopeMDBareURL         = "md-bare-url"
	ScopeMDAutolink        = "md-autolink"
	ScopeMDURLMacro        = "md-url-macro"
	ScopeMDEmphasisAdj     = "md-emphasis-adjacent"
	ScopeCommentQuote      = "html-comment-quote"
	ScopeImportMap         = "script-type-importmap"
	ScopeTypedMacroTag     = "typed-macro-tag"
	ScopeRawTextTagQuote   = "rawtext-tag-quote"
	ScopeRawLabelled       = "macro-raw-labelled"
	ScopeTagNameWhole      = "tag-name-whole"
	ScopeDupType           = "script-duplicate-type"
	ScopeRegexHole         = "js-regex-hole"
	ScopeMDCodeSpan        = "md-code-span"
	ScopeBytesHTML         = "bytes-in-html"
)

// Gen generates documents.
type Gen struct {
	R     *rand.Rand
	Avoid func(scope string) bool // reports whether a construct must be avoided

	doc      *Doc
	macros   map[string]string // key -> macro name
	macroSrc []string          // macro declarations of the main file
	libSrc   []string          // macro declarations of the imported library
	format   string            // format of the file being generated: html css js json md
	nfile    int
	seq      int
	noVia    bool // inside partials: holes are direct only
}

func (g *Gen) avoid(s string) bool { return g.Avoid != nil && g.Avoid(s) }

func (g *Gen) feature(f string) {
	for _, x := range g.doc.Features {
		if x == f {
			return
		}
	}
	g.doc.Features = append(g.doc.Features, f)
}

func (g *Gen) pick(xs ...string) string { return xs[g.R.Intn(len(xs))] }

func (g *Gen) n() int { g.seq++; return g.seq }

var scalarTypes = []string{TString, TString, TString, TInt, TFloat, TBool, TStringer, TError, TAny}
var compositeTypes = []string{TStrs, TMap, TRec, TAnys}

func (g *Gen) typeFor(class string) string {
	switch class {
	case CJSExpr, CJSONV:
		if g.R.Intn(3) == 0 {
			return compositeTypes[g.R.Intn(len(compositeTypes))]
		}
		return scalarTypes[g.R.Intn(len(scalarTypes))]
	case CCSSVal, CCSSStr:
		for {
			t := scalarTypes[g.R.Intn(len(scalarTypes))]
			if t != TBool {
				return t
			}
		}
	case CName:
		return g.pick(TString, TString, TStringer, TError, TAny)
	}
	return scalarTypes[g.R.Intn(len(scalarTypes))]
}

const maxHoles = 24

// hole allocates a hole and returns the template source that shows it.
func (g *Gen) hole(class, note string, restrict ...string) string {
	if len(g.doc.Holes) >= maxHoles {
		// enough holes: literal text instead
		if class == CJSExpr || class == CJSONV || class == CCSSVal {
			return "12"
		}
		return "Lit"
	}
	t := g.typeFor(class)
	if class == CText && strings.HasPrefix(note, "html.text") && !g.noVia && g.R.Intn(12) == 0 && !g.avoid(ScopeBytesHTML) {
		t = TBytes
		g.feature(ScopeBytesHTML)
	}
	i := len(g.doc.Holes)
	h := Hole{Var: fmt.Sprintf("v%d", i), Type: t, Class: class, Via: "direct", Restrict: restrict, Note: note}
	switch class {
	case CName:
		h.Restrict = append(h.Restrict, RNonEmpty)
		if g.avoid(ScopeTagSpace) {
			h.Restrict = append(h.Restrict, RNoSpace)
		}
	case CUAttr:
		if g.avoid(ScopeUnquotedEmpty) {
			h.Restrict = append(h.Restrict, RNonEmpty)
		}
	case CMD, CMDURL:
		h.Restrict = append(h.Restrict, RNoNewline)
	case CMDCode:
		// an indented code block that holds nothing but an empty value is no code block at all
		h.Restrict = append(h.Restrict, RNonBlank)
	}
	src := "{{ " + h.Var + " }}"
	wholeSlot := class == CJSExpr || class == CCSSVal || class == CJSONV || class == CMD || (class == CText && strings.HasPrefix(note, "html.text"))
	composite := t == TStrs || t == TMap || t == TRec || t == TAnys || t == TBytes
	if !g.noVia {
		k := g.R.Intn(12)
		if composite && k < 4 {
			k = 11 // composite values can be shown in JavaScript and JSON contexts only, a macro body of another format rejects them
		}
		if class == CMDURL && k < 4 {
			if g.avoid(ScopeMDURLMacro) {
				k = 11
			} else {
				g.feature(ScopeMDURLMacro)
			}
		}
		switch {
		case k == 0 || k == 1: // macro of the main file, result type = file format
			name := g.macro(t, "", false)
			h.Via = "macro"
			src = "{{ " + name + "(" + h.Var + ") }}"
		case k == 2: // macro with explicit result type
			rt := g.pick("string", "string", "html", "js", "css", "json", "markdown")
			if t == TBool && rt == "css" {
				rt = "string"
			}
			if rt == "markdown" {
				// the result is converted to HTML where it is shown in HTML text: blank lines
				// and emptiness of the value decide about <p> elements like white space does
				h.Restrict = append(h.Restrict, RNoNewline, RNonEmpty)
			}
			name := g.macro(t, rt, false)
			h.Via = "macro:" + rt
			src = "{{ " + name + "(" + h.Var + ") }}"
		case k == 3: // imported macro
			name := g.macro(t, "", true)
			h.Via = "import"
			src = "{{ " + name + "(" + h.Var + ") }}"
		case k == 4 && wholeSlot && t != TBytes: // rendered partial of the same format as the slot
			ext := map[string]string{CJSExpr: "js", CCSSVal: "css", CJSONV: "json", CMD: "md", CText: "html"}[class]
			if class == CText && !g.avoid(ScopeRenderOtherFormat) && g.R.Intn(2) == 0 {
				ext = "txt"
			}
			g.nfile++
			name := fmt.Sprintf("part%d.%s", g.nfile, ext)
			body := "{{ " + h.Var + " }}"
			if ext == "html" && g.R.Intn(2) == 0 {
				body = "<i>" + body + "</i>"
			}
			g.doc.Files[name] = body
			h.Via = "render:" + ext
			src = `{{ render "` + name + `" }}`
		case k == 5:
			h.Via = "var"
			src = fmt.Sprintf("{%% var loc%d = %s %%}{{ loc%d }}", i, h.Var, i)
		case k == 6 && wholeSlot: // using: the body has the type of the format of the slot
			// The variable is referenced once outside the body first: on the pinned tree a
			// global whose first reference is inside a function literal ignores the value
			// passed to Run (subject of C17).
			h.Via = "using"
			slotFormat := map[string]string{CJSExpr: "js", CCSSVal: "css", CJSONV: "json", CMD: "md", CText: "html"}[class]
			src = "{% var _ = " + h.Var + " %}{% show itea; using %}" + g.blockPrefix(slotFormat) + "{{ " + h.Var + " }}{% end using %}"
		case k == 7 && wholeSlot && !composite: // using with an explicit string type: the body is text, the string is escaped at the show
			h.Via = "using:string"
			src = "{% var _ = " + h.Var + " %}{% show itea; using string %}" + g.blockPrefix("string") + "{{ " + h.Var + " }}{% end using %}"
		}
	}
	g.doc.Holes = append(g.doc.Holes, h)
	return src
}

// macro returns the name of an identity macro for parameter type t.
func (g *Gen) macro(t, result string, imported bool) string {
	key := fmt.Sprintf("%s/%s/%v", t, result, imported)
	if name, ok := g.macros[key]; ok {
		return name
	}
	name := fmt.Sprintf("Show%d", len(g.macros)+1)
	g.macros[key] = name
	decl := "{% macro " + name + "(p " + TypeExpr(t) + ")"
	if result != "" {
		decl += " " + result
	}
	// The body of a macro with an explicit result type is lexed in that format's
	// context; some bodies put the parameter inside a string or an attribute.
	body := "{{ p }}"
	if g.R.Intn(2) == 0 {
		switch result {
		case "html":
			if g.format != "html" {
				// a tag in the body of a macro whose result type is not the format of the file
				if g.format == "md" || g.avoid(ScopeTypedMacroTag) {
					break // (Markdown documents carry no raw HTML at all, see C26)
				}
				g.feature(ScopeTypedMacroTag)
			}
			body = g.pick("<b title=\"{{ p }}\">{{ p }}</b>", "<i class=c>{{ p }}</i>", "<a href=\"/q?x={{ p }}\">l</a>")
		case "js":
			body = g.pick("\"pre {{ p }} post\"", "'{{ p }}'", "[{{ p }}, \"it's\"]")
		case "css":
			body = g.pick("\"pre {{ p }}\"", "'{{ p }}'")
		case "json":
			body = g.pick("\"pre {{ p }}\"", "[{{ p }}, \"a\\\"b\"]", "{\"k\": {{ p }}}")
		}
	}
	bodyFormat := result
	if bodyFormat == "" {
		bodyFormat = g.format
	}
	if bodyFormat == "markdown" {
		bodyFormat = "md"
	}
	decl += " %}" + g.blockPrefix(bodyFormat) + body + "{% end macro %}"
	if imported {
		g.libSrc = append(g.libSrc, decl)
	} else {
		g.macroSrc = append(g.macroSrc, decl)
	}
	return name
}

// blockPrefix returns, one time in three, a statement closed by {% end %} (raw,
// if, for, switch, also labeled) around a filler that is valid at the start of a
// value of the given format. It is placed in macro and using bodies before the
// show: every such statement must leave the context of the body as it was.
func (g *Gen) blockPrefix(format string) string {
	if g.R.Intn(3) != 0 {
		return ""
	}
	filler := "r "
	switch format {
	case "js", "css", "json":
		filler = " " // code is shown in comments, url() and strings too: only white space is valid everywhere
	}
	k := g.R.Intn(6)
	if (k == 0 || k == 3 || k == 5) && g.avoid(ScopeRawLabelled) {
		k = 1
	}
	if k == 0 || k == 3 || k == 5 {
		g.feature(ScopeRawLabelled)
	}
	n := fmt.Sprint(g.n())
	switch k {
	case 0:
		return "{% raw %}" + filler + "{% end raw %}"
	case 1:
		return "{% if true %}" + filler + "{% end if %}"
	case 2:
		return "{% for i := 0; i < 1; i++ %}" + filler + "{% end for %}"
	case 3:
		return "{% L" + n + ": for i := 0; i < 1; i++ %}" + filler + "{% break L" + n + " %}{% end for %}"
	case 4:
		return "{% switch %}{% case true %}" + filler + "{% end switch %}"
	default:
		return "{% L" + n + ": switch %}{% case true %}" + filler + "{% break L" + n + " %}{% end switch %}"
	}
}

// expand replaces @X@-style placeholders in a pattern by holes.
func (g *Gen) expand(pat string, classes map[string]string, note string, restrict ...string) string {
	var b strings.Builder
	for {
		i := strings.IndexByte(pat, '@')
		if i < 0 {
			b.WriteString(pat)
			break
		}
		if i+2 >= len(pat) || pat[i+2] != '@' {
			b.WriteString(pat[:i+1])
			pat = pat[i+1:]
			continue
		}
		b.WriteString(pat[:i])
		cl, ok := classes[pat[i+1:i+2]]
		if !ok {
			b.WriteString(pat[i : i+3])
		} else if g.R.Intn(4) == 0 {
			// not every position is a hole in every document
			if cl == CJSExpr || cl == CJSONV || cl == CCSSVal {
				b.WriteString("12")
			} else {
				b.WriteString("lit")
			}
		} else {
			b.WriteString(g.hole(cl, note, restrict...))
		}
		pat = pat[i+3:]
	}
	s := b.String()
	if strings.Contains(s, "%d") {
		s = strings.ReplaceAll(s, "%d", fmt.Sprint(g.n()))
	}
	return s
}

type pattern struct {
	src      string
	scope    string   // construct belongs to this scope ("" = none)
	restrict []string // value restrictions applied when the scope is avoided (instead of dropping the pattern)
	always   []string // value restrictions that always apply (the slot itself needs them, see the comment at the pattern)
}

var jsClasses = map[string]string{"X": CJSExpr, "S": CJSStr}

var jsPatterns = []pattern{
	{src: "var a%d = @X@;"},
	{src: "var a%d = @X@;"},
	{src: "let s%d = \"pre @S@ post\";"},
	{src: "const t%d = '@S@';"},
	{src: "f(@X@, @X@);"},
	{src: "var arr%d = [@X@, 1, @X@];"},
	{src: "var o%d = {k: @X@, \"k2\": @X@, 'k3': [@X@]};"},
	{src: "if (a == @X@) { g(@X@); }"},
	{src: "function fn%d(p) { return @X@; }"},
	{src: "// note: @X@ and \"@S@\"\n"},
	{src: "// it's a \"comment\" here\nvar c%d = @X@;"},
	{src: "/* it's \"quoted\" */ var c%d = '@S@';"},
	{src: "/* c @X@ */", scope: ScopeJSCommentHole, restrict: []string{RNoCommentEnd}},
	{src: "var re%d = /ab+c/gi; var z%d = @X@;"},
	{src: "var re%d = /[a-z/]+\\/x/.test(s); var z%d = \"@S@\";"},
	{src: "var q%d = x / 2 / @X@;"},
	{src: "var d%d = (a + b) / c; var e%d = \"@S@\"; var h%d = 4 / 2;"},
	{src: "var re%d = /\"/; var z%d = @X@;", scope: ScopeRegexQuote},
	{src: "var re%d = /'+/g; var z%d = '@S@';", scope: ScopeRegexQuote},
	{src: "var tl%d = `plain template`; var z%d = @X@;"},
	{src: "var tl%d = `a ${x + 1} b ${y}`; var z%d = @X@;"},
	{src: "var tl%d = `it's`; var z%d = @X@;", scope: ScopeTemplateQuote},
	{src: "var tl%d = `say \"hi`; var z%d = \"@S@\";", scope: ScopeTemplateQuote},
	{src: "var tl%d = `v: @X@ w`;", scope: ScopeTemplateHole, restrict: []string{RNoBacktick}},
	{src: "var u%d = \"http://example.com/@S@\";"},
	{src: "var rh%d = /a@X@b/;", scope: ScopeRegexHole},
	{src: "var e%d = \"a\\\"b @S@\";"},
	{src: "var e%d = 'it\\'s @S@';"},
	{src: "var e%d = \"c:\\\\dir\\\\@S@\";"},
	{src: "var e%d = \"x\\\\\"; var y%d = @X@;", scope: ScopeEscapedBackslash},
	{src: "var e%d = 'x\\\\'; var y%d = '@S@';", scope: ScopeEscapedBackslash},
	{src: "var m%d = \"it's\"; var n%d = 'say \"x\" @S@';"},
	{src: "x = y - @X@;"},
	{src: "x = y -@X@;", scope: ScopeMinusAdjacent},
	{src: "x = @X@ / 2;"},
	{src: "x = a < b && b > @X@;"},
	{src: "var big%d = {\"a\": [1, 2, {\"b\": @X@}], c: \"@S@\"};"},
	{src: "el.innerHTML = \"<b>@S@</b>\";"},
	{src: "label%d: for (;;) { break label%d; }"},
}

var cssClasses = map[string]string{"X": CCSSVal, "S": CCSSStr}

var cssPatterns = []pattern{
	{src: "p { color: @X@; }"},
	{src: "p { color: @X@; }"},
	{src: "a::before { content: \"pre @S@ post\"; }"},
	{src: "a::after { content: '@S@'; }"},
	{src: ".c%d { width: @X@px; margin: 0 auto; }"},
	{src: ".u%d { background: url(@X@); }"},
	{src: ".u%d { background: url(\"img/@S@.png\") no-repeat; }"},
	{src: ".u%d { background: url('@S@'); }"},
	{src: ".u%d { background: url(img/static.png); top: @X@; }"},
	{src: "@import \"@S@\";"},
	{src: "@media (min-width: @X@px) { b { top: 0 } }"},
	{src: "/* plain comment */ i { left: @X@; }"},
	{src: "/* it's a \"comment\" */ i { left: @X@; }", scope: ScopeCSSCommentQuote},
	{src: "/* c @X@ */"},
	{src: "a[title=\"@S@\"] { x: y }"},
	{src: "#id%d > li + li ~ p { font: 12px/1.5 \"A B\", serif; }"},
	{src: "s { content: \"a\\\"b @S@\"; }"},
	{src: "s { content: \"x\\\\\"; left: @X@; }", scope: ScopeEscapedBackslash},
	{src: "s { content: \"it's\"; right: @X@; }"},
	{src: "s { content: 'say \"x\" @S@'; }"},
	{src: "<!-- i { top: @X@ } -->"},
	{src: "s { width: calc(100% - @X@px); }"},
}

func (g *Gen) fromPatterns(pats []pattern, classes map[string]string, note string, n int, sep string) string {
	var b strings.Builder
	for i := 0; i < n; i++ {
		p := pats[g.R.Intn(len(pats))]
		restrict := p.always
		if p.scope != "" {
			if g.avoid(p.scope) {
				if p.restrict == nil {
					continue
				}
				restrict = append(append([]string{}, p.always...), p.restrict...)
			} else {
				g.feature(p.scope)
			}
		}
		b.WriteString(g.expand(p.src, classes, note+":"+p.scope, restrict...))
		b.WriteString(sep)
	}
	return b.String()
}

// JS returns JavaScript code with holes.
func (g *Gen) JS(n int) string { return g.fromPatterns(jsPatterns, jsClasses, "js", n, "\n") }

// CSS returns CSS code with holes.
func (g *Gen) CSS(n int) string { return g.fromPatterns(cssPatterns, cssClasses, "css", n, "\n") }

// JSON returns a JSON value with holes.
func (g *Gen) JSON(depth int) string {
	switch k := g.R.Intn(10); {
	case depth > 2 || k < 2:
		if g.R.Intn(2) == 0 {
			return g.hole(CJSONV, "json.value")
		}
		return g.pick(`"lit"`, "12", "-1.5e3", "true", "null", `"a\"b"`, `"é\u00e9"`)
	case k < 4:
		return `"pre ` + g.hole(CJSONS, "json.string") + ` post"`
	case k == 4:
		return `"a\"b ` + g.hole(CJSONS, "json.string.escquote") + `"`
	case k == 5 && !g.avoid(ScopeEscapedBackslash):
		g.feature(ScopeEscapedBackslash)
		return `["x\\", ` + g.hole(CJSONV, "json.value:"+ScopeEscapedBackslash) + `]`
	case k < 8:
		n := 1 + g.R.Intn(3)
		parts := make([]string, n)
		for i := range parts {
			key := fmt.Sprintf(`"k%d"`, g.n())
			if g.R.Intn(4) == 0 {
				key = `"` + g.hole(CJSONS, "json.key") + `"`
			}
			parts[i] = key + ": " + g.JSON(depth+1)
		}
		return "{" + strings.Join(parts, ", ") + "}"
	default:
		n := g.R.Intn(4)
		parts := make([]string, n)
		for i := range parts {
			parts[i] = g.JSON(depth + 1)
		}
		return "[" + strings.Join(parts, ", ") + "]"
	}
}

var mdClasses = map[string]string{"T": CMD, "C": CMDCode, "U": CMDURL}

var mdPatterns = []pattern{
	{src: "Para text @T@ more text.\n\n"},
	{src: "@T@\n\n", always: []string{RNonEmpty}}, // a paragraph that is nothing but an empty value is no paragraph
	{src: "Line one @T@\nline two @T@.\n\n"},
	{src: "# Heading @T@\n\n"},
	{src: "## @T@ heading\n\n"},
	{src: "* item @T@\n* second @T@\n\n"},
	{src: "1. first @T@\n2. second\n\n"},
	{src: "> quote @T@\n\n"},
	{src: "Some *emph @T@* and **strong @T@** text.\n\n", scope: ScopeMDEmphasisAdj},
	{src: "Some *emph @T@ end* and **strong @T@ end** and _under @T@ line_ text.\n\n"},
	{src: "[link @T@](http://example.com/)\n\n"},
	{src: "[link](http://example.com/p/@U@?q=@U@&r=1)\n\n"},
	{src: "Auto <http://example.com/@U@> link.\n\n", scope: ScopeMDAutolink},
	{src: "Auto <http://example.com/static> link and text @T@.\n\n"},
	{src: "Visit http://example.com/@U@ now.\n\n", scope: ScopeMDBareURL},
	{src: "Text before code.\n\n\t@C@\n\nAfter.\n\n"},
	{src: "Text before code.\n\n    @C@\n\nAfter.\n\n"},
	{src: "Text.\n\n\tline1\n\t@C@\n\tline3\n\nAfter.\n\n"},
	{src: "Static *emphasis*, `code span`, and a [link](http://example.com/).\n\n"},
	{src: "---\n\n"},
	{src: "Inline `a @T@ b` code.\n\n", scope: ScopeMDCodeSpan},
}

// Markdown returns Markdown blocks with holes.
func (g *Gen) Markdown(n int) string { return g.fromPatterns(mdPatterns, mdClasses, "md", n, "") }

type attrSpec struct {
	tag, attr string
}

var plainAttrs = []attrSpec{{"div", "title"}, {"div", "class"}, {"span", "id"}, {"input", "value"}, {"div", "data-x"}, {"img", "alt"},
	{"p", "lang"}, {"td", "headers"}, {"div", "TITLE"}, {"a", "data-info"}, {"input", "placeholder"}, {"meta", "content"}, {"div", "aria-label"}}
var urlAttrs = []attrSpec{{"a", "href"}, {"img", "src"}, {"form", "action"}, {"link", "href"}, {"iframe", "src"}, {"blockquote", "cite"},
	{"video", "poster"}, {"a", "HREF"}, {"div", "data-src"}, {"div", "data-url"}, {"button", "formaction"}, {"object", "data"}, {"svg", "xmlns"},
	{"area", "href"}, {"q", "cite"}, {"source", "src"}, {"a", "xlink:href"}}
var eventAttrs = []string{"onclick", "onmouseover", "onload", "onerror", "onClick", "onfocus"}
var voidTags = map[string]bool{"img": true, "input": true, "link": true, "meta": true, "area": true, "source": true, "br": true}

func (g *Gen) quote() (string, string) {
	switch g.R.Intn(5) {
	case 0:
		return "'", "'"
	case 1:
		return "", ""
	}
	return `"`, `"`
}

// attr builds one attribute with a hole in its value.
func (g *Gen) attrValueHole(note string, q string, restrict ...string) string {
	if q == "" {
		return g.hole(CUAttr, note+".unquoted", restrict...)
	}
	return g.hole(CText, note+".quoted", restrict...)
}

func closeTag(tag string) string {
	if voidTags[strings.ToLower(tag)] {
		return ""
	}
	return "</" + tag + ">"
}

func (g *Gen) otherAttr() string {
	return g.pick("", "", ` class="c"`, ` id=x1`, ` hidden`, ` data-k='v'`, ` title="it's"`, ` title='say "x"'`, ` lang = "en"`, ` DISABLED`)
}

// htmlFragment returns one HTML fragment.
func (g *Gen) htmlFragment() string {
	switch k := g.R.Intn(38); k {
	case 34, 35, 36, 37:
		return g.rawSequence()
	case 0, 1:
		return "<p>Some text " + g.hole(CText, "html.text") + " and more.</p>"
	case 2:
		return "<div><span>" + g.hole(CText, "html.text") + "</span> &amp; <b>" + g.hole(CText, "html.text") + "</b></div>"
	case 3:
		return g.pick("<title>", "<TITLE>") + "Page " + g.hole(CText, "html.rcdata.title") + " title</title>"
	case 4:
		return "<textarea name=t>" + g.hole(CText, "html.rcdata.textarea") + "</textarea>"
	case 5:
		tag := g.pick("xmp", "noscript", "iframe", "noembed", "noframes")
		return "<" + tag + ">raw " + g.hole(CText, "html.rawtext."+tag) + " text</" + tag + ">"
	case 6:
		return "<!-- comment " + g.hole(CText, "html.comment") + " end -->"
	case 7:
		switch g.R.Intn(5) {
		case 0:
			return "<!--" + g.hole(CText, "html.comment") + "-->"
		case 1:
			return "<?pi " + g.hole(CText, "html.bogus-comment") + " ?>"
		case 2:
			return "<![CDATA[ static cdata ]]>"
		case 3:
			return "<!DOCTYPE html>"
		}
		if g.R.Intn(2) == 0 && !g.avoid(ScopeCommentQuote) {
			g.feature(ScopeCommentQuote)
			// a comment is not markup: quotes and tags inside it mean nothing to a browser
			return "<!-- don't <a title=\"x> here --><p>Say \"" + g.hole(CText, "html.text.after-comment-with-quote") + "\" now</p>"
		}
		return "<!-- static <b> comment -->"
	case 8, 9: // plain attribute
		a := plainAttrs[g.R.Intn(len(plainAttrs))]
		q, _ := g.quote()
		pre := g.pick("", "", "x", "it's ", "a b ")
		if q == "" {
			pre = g.pick("", "", "x")
		} else if q == "'" && strings.Contains(pre, "'") {
			pre = `say "x" `
		}
		eq := g.pick("=", "=", " = ", "=\n")
		if q == "" {
			eq = "="
		}
		return "<" + a.tag + g.otherAttr() + " " + a.attr + eq + q + pre + g.attrValueHole("html.attr", q) + q + g.otherAttr() + ">x" + closeTag(a.tag)
	case 10, 11, 12: // URL attribute
		a := urlAttrs[g.R.Intn(len(urlAttrs))]
		q, _ := g.quote()
		var val string
		switch g.R.Intn(6) {
		case 0:
			val = g.attrValueHole("html.urlattr.whole", q)
		case 1:
			val = "/path/" + g.attrValueHole("html.urlattr.path", q)
		case 2:
			val = "/p?q=" + g.attrValueHole("html.urlattr.query", q) + "&amp;r=" + g.attrValueHole("html.urlattr.query", q)
		case 3:
			val = "http://example.com/" + g.attrValueHole("html.urlattr.path", q) + "?" + g.attrValueHole("html.urlattr.query", q) + "#" + g.attrValueHole("html.urlattr.fragment", q)
		case 4:
			val = g.attrValueHole("html.urlattr.whole", q) + "?x=1"
		default:
			val = "/a/" + g.attrValueHole("html.urlattr.path", q) + "/b"
		}
		return "<" + a.tag + " " + a.attr + "=" + q + val + q + g.otherAttr() + ">x" + closeTag(a.tag)
	case 13: // srcset
		q, _ := g.quote()
		tag := g.pick("img", "source")
		if q == "" {
			return "<" + tag + " srcset=" + g.attrValueHole("html.srcset", q) + ">"
		}
		return "<" + tag + " srcset=" + q + g.attrValueHole("html.srcset", q) + " 1x, /img/" + g.attrValueHole("html.srcset", q) + ".png 2x" + q + ">"
	case 14: // attribute name / tag context
		switch g.R.Intn(4) {
		case 0:
			return "<div " + g.hole(CName, "html.tag") + ">x</div>"
		case 1:
			return "<input type=text " + g.hole(CName, "html.tag") + " value=\"1\">"
		case 2:
			return "<div " + g.hole(CName, "html.tag.attrname") + "=\"x\" title='t'>x</div>"
		default:
			return "<div class=\"c\" " + g.hole(CName, "html.tag") + " " + g.hole(CName, "html.tag") + ">x</div>"
		}
	case 15: // tag name suffix
		lv := g.hole(CName, "html.tagname")
		if strings.Contains(lv, "{%") { // the {% var %} form cannot sit inside a tag name
			lv = "{{ " + g.doc.Holes[len(g.doc.Holes)-1].Var + " }}"
			g.doc.Holes[len(g.doc.Holes)-1].Via = "direct"
		}
		if g.R.Intn(3) == 0 && !g.avoid(ScopeTagNameWhole) {
			// the whole tag name is a value (it must start with a letter to be a tag at all)
			g.feature(ScopeTagNameWhole)
			h := &g.doc.Holes[len(g.doc.Holes)-1]
			h.Restrict = append(h.Restrict, RLetterFirst)
			h.Note = "html.tagname.whole"
			return "<" + lv + " class=c title=\"" + g.hole(CText, "html.attr.quoted") + "\">body</div>"
		}
		return "<h" + lv + " class=c>head</h1>"
	case 16: // event handler attribute
		ev := eventAttrs[g.R.Intn(len(eventAttrs))]
		if g.avoid(ScopeEventAttr) {
			return "<button " + ev + "=\"go('static', 1)\">b</button>"
		}
		g.feature(ScopeEventAttr)
		switch g.R.Intn(3) {
		case 0:
			return "<button " + ev + "=\"go(" + g.hole(CText, "html.eventattr.expr") + ")\">b</button>"
		case 1:
			return "<button " + ev + "=\"go('" + g.hole(CText, "html.eventattr.string") + "')\">b</button>"
		}
		return "<button " + ev + "='var x = \"" + g.hole(CText, "html.eventattr.string") + "\"; go(x)'>b</button>"
	case 17: // style attribute
		if g.avoid(ScopeStyleAttr) {
			return "<p style=\"color: red; background: url('a.png')\">s</p>"
		}
		g.feature(ScopeStyleAttr)
		switch g.R.Intn(3) {
		case 0:
			return "<p style=\"color: " + g.hole(CText, "html.styleattr.value") + "\">s</p>"
		case 1:
			return "<p style=\"background: url('" + g.hole(CText, "html.styleattr.string") + "')\">s</p>"
		}
		return "<p style='width: " + g.hole(CText, "html.styleattr.value") + "px; top: 0'>s</p>"
	case 18, 19, 20, 21, 22: // script element
		return g.scriptElement()
	case 23, 24, 25: // style element
		typ := g.pick("", "", ` type="text/css"`, ` type=" TEXT/CSS "`, ` media="screen"`)
		end := g.pick("</style>", "</style>", "</STYLE>", "</style >")
		body := g.CSS(1 + g.R.Intn(4))
		if g.R.Intn(3) == 0 {
			body = strings.TrimRight(body, "\n") + g.pick(" /* tail */", " /* tail ", "")
			if strings.HasSuffix(body, "tail ") {
				g.feature(FeatureOpenEnded)
			}
		}
		return "<style" + typ + ">" + g.pick("\n", "\n", "", " ") + body + end
	case 26: // style with a non-CSS type: its content is not CSS for a browser
		return "<style type=\"text/x-less\">@c: " + g.hole(CText, "html.style.unknown-type") + ";</style>"
	case 27:
		return "<ul>\n<li>" + g.hole(CText, "html.text") + "</li>\n<li class=\"" + g.hole(CText, "html.attr.quoted") + "\">two</li>\n</ul>"
	case 28:
		return "<br/><img src=\"" + g.hole(CText, "html.urlattr.whole.quoted") + "\"/><hr />"
	case 29:
		return "<a href='/x' title=\"" + g.hole(CText, "html.attr.quoted") + "\">" + g.hole(CText, "html.text") + "</a>"
	case 30:
		if g.noVia {
			return "<p>plain</p>"
		}
		g.nfile++
		name := fmt.Sprintf("doc%d.md", g.nfile)
		saved := g.noVia
		g.noVia = true
		g.doc.Files[name] = g.Markdown(1 + g.R.Intn(2))
		g.noVia = saved
		g.feature("render-md-in-html")
		return "<section>{{ render \"" + name + "\" }}</section>"
	case 31:
		return "<table><tr><td colspan=2 " + g.pick("", "nowrap ") + "title=" + g.hole(CUAttr, "html.attr.unquoted") + ">c</td></tr></table>"
	case 32:
		return "<p>Entities &lt;b&gt; &amp;amp; &#39; " + g.hole(CText, "html.text") + " &copy;</p>"
	default:
		return "<select><option value=\"" + g.hole(CText, "html.attr.quoted") + "\" selected>" + g.hole(CText, "html.text") + "</option></select>"
	}
}

func (g *Gen) scriptElement() string {
	end := g.pick("</script>", "</script>", "</SCRIPT>", "</script >", "</script\n>")
	switch k := g.R.Intn(16); {
	case k < 7:
		typ := g.pick("", "", ` type="text/javascript"`, ` type='text/javascript'`, ` type=text/javascript`, ` type="module"`, ` type=module`,
			` type=""`, ` type=" text/javascript "`, ` type="TEXT/JavaScript"`, ` defer`, ` async type="module"`, ` nonce="n1" type="text/javascript"`)
		open := g.pick("<script", "<script", "<SCRIPT")
		body := g.JS(1 + g.R.Intn(5))
		if g.R.Intn(3) == 0 {
			body = strings.TrimRight(body, "\n") + g.pick(" // tail", " // it's the \"end\"", " /* tail */", " //")
		}
		return open + typ + ">" + g.pick("\n", "\n", "", " ") + body + end
	case k < 9:
		return "<script type=\"application/ld+json\">" + g.JSON(0) + end
	case k == 9:
		return "<script type=" + g.pick(`"APPLICATION/LD+JSON"`, `" application/ld+json"`, `'application/ld+json'`) + ">" + g.JSON(0) + end
	case k == 10: // data block: not a script for a browser
		typ := g.pick("text/template", "text/x-handlebars-template", "application/json", "text/plain", "text/javascript; charset=utf-8")
		return "<script type=\"" + typ + "\"><div class=\"" + g.hole(CText, "html.script.datablock") + "\">" + g.hole(CText, "html.script.datablock") + "</div>" + end
	case k == 11 && g.R.Intn(2) == 0 && !g.avoid(ScopeImportMap):
		g.feature(ScopeImportMap)
		return "<script type=\"" + g.pick("importmap", "speculationrules") + "\">{\"imports\": {\"a\": \"/x/" + g.hole(CJSONS, "html.script.importmap") + "\", \"b\": \"/y/" + g.hole(CJSONS, "html.script.importmap") + ".js\"}}" + end
	case k == 11:
		return "<script src=\"" + g.hole(CText, "html.urlattr.whole.quoted") + "\"></script>"
	case k == 12: // legacy comment hiding
		return "<script>\n<!-- hide\nvar hid" + fmt.Sprint(g.n()) + " = " + g.hole(CJSExpr, "js.html-comment") + ";\n//-->\n</script>"
	case k == 13:
		if g.avoid(ScopeDoubleEscaped) {
			return "<script>var s = \"<!-- x -->\"; var t = " + g.hole(CJSExpr, "js.after-html-comment-in-string") + ";</script>"
		}
		g.feature(ScopeDoubleEscaped)
		return "<script>\n<!-- <script> </script>\nvar de = " + g.hole(CJSExpr, "js.double-escaped:"+ScopeDoubleEscaped) + ";\n--></script>"
	case k == 14:
		if g.avoid(ScopeScriptTypeJS) {
			return "<script type=\"text/javascript\">var lt = " + g.hole(CJSExpr, "js") + ";</script>"
		}
		g.feature(ScopeScriptTypeJS)
		typ := g.pick("application/javascript", "text/ecmascript", "application/x-javascript", "MODULE", " module ", "text/javascript1.5", "application/ecmascript")
		return "<script type=\"" + typ + "\">" + g.JS(1+g.R.Intn(3)) + end
	case k == 15 && !g.avoid(ScopeDupType):
		// an HTML tokenizer drops an attribute that duplicates an earlier one
		g.feature(ScopeDupType)
		if g.R.Intn(3) != 0 {
			return "<script type=\"" + g.pick("text/javascript", "module", "") + "\" type=\"" + g.pick("text/plain", "text/plain", "application/ld+json", "text/template") + "\">" + g.JS(1+g.R.Intn(3)) + end
		}
		return "<script type=\"text/plain\" type=\"" + g.pick("text/javascript", "module") + "\"><b>" + g.hole(CText, "html.script.datablock") + "</b>" + end
	default:
		return "<script>" + g.JS(1) + "</script><script>" + g.JS(1) + "</script>"
	}
}

// FeatureOpenEnded marks documents in which a raw-text element deliberately ends
// inside a comment, string, template or regular-expression literal: its content
// does not tokenize cleanly even with benign values.
const FeatureOpenEnded = "open-ended-raw-text"

// openEndedElement returns a script, style or other raw-text element whose
// content ends in one of the sub-states a lexer can be in (open line or block
// comment, open string, open template or regular-expression literal, CSS
// comment, string or url), or in no sub-state (control).
func (g *Gen) openEndedElement() string {
	endScript := g.pick("</script>", "</script>", "</SCRIPT>", "</script >")
	endStyle := g.pick("</style>", "</style>", "</STYLE>", "</style >")
	k := g.R.Intn(22)
	pre := g.pick("", "", "\n", "@")
	if pre == "@" {
		pre = ""
		if k <= 10 { // a hole before the dangling part of a JavaScript element
			pre = "var a0 = " + g.hole(CJSExpr, "js.before-open-end") + "; "
		}
	}
	broken := true
	var out string
	switch k {
	case 0, 1:
		out, broken = "<script>"+pre+"init(); // start"+endScript, false
	case 2:
		out, broken = "<script>"+pre+"init(); // it's \"quoted"+endScript, false
	case 3:
		out, broken = "<script type=\"module\">"+pre+"init(); //"+endScript, false
	case 4:
		out = "<script>" + pre + "init(); /* start" + endScript
	case 5:
		out = "<script>" + pre + "init(); /* it's \"x" + endScript
	case 6:
		out = "<script>" + pre + "var s = \"abc" + endScript
	case 7:
		out = "<script>" + pre + "var s = 'abc" + endScript
	case 8:
		out = "<script>" + pre + "var s = \"a\\" + endScript
	case 9:
		out = "<script>" + pre + "var t = `abc ${x} d" + endScript
	case 10:
		out = "<script>" + pre + "var r = /ab[c" + endScript
	case 11:
		out = "<script type=\"application/ld+json\">{\"a\": \"x" + endScript
	case 12:
		out, broken = "<script type=\"application/ld+json\">{\"a\": [1, \"x\"]}"+endScript, false
	case 13:
		out = "<style>p { top: 0 } /* c" + endStyle
	case 14:
		out = "<style>a::before { content: \"x" + endStyle
	case 15:
		out = "<style>a::before { content: 'x" + endStyle
	case 16:
		out = "<style>p { background: url(x" + endStyle
	case 17:
		out, broken = "<style>p { top: 0; color: "+g.hole(CCSSVal, "css.before-end")+" }"+endStyle, false
	case 18:
		out, broken = "<textarea>it's \"x</textarea>", false
	case 19:
		out, broken = "<title>a \"b 'c</title>", false
	default:
		if g.avoid(ScopeRawTextTagQuote) {
			out, broken = "<xmp><a title=x></xmp>", false
		} else {
			g.feature(ScopeRawTextTagQuote)
			tag := g.pick("textarea", "title", "xmp", "noscript")
			out, broken = "<"+tag+"><a title="+g.pick("\"", "'")+"x</"+tag+">", false
		}
	}
	if broken {
		g.feature(FeatureOpenEnded)
	}
	return out
}

// firstLineElement returns an element whose holes sit on the first line right
// after the start tag, in string and in code positions, or in attributes.
func (g *Gen) firstLineElement() string {
	switch g.R.Intn(12) {
	case 0, 1:
		return "<script>var s = \"" + g.hole(CJSStr, "js.first-line.string") + "\"; var c = " + g.hole(CJSExpr, "js.first-line.expr") + ";</script>"
	case 2:
		return "<script>var c = " + g.hole(CJSExpr, "js.first-line.expr") + "; var s = '" + g.hole(CJSStr, "js.first-line.string") + "';</script>"
	case 3:
		return "<script type=\"module\">f(\"" + g.hole(CJSStr, "js.first-line.string") + "\", " + g.hole(CJSExpr, "js.first-line.expr") + ");</script>"
	case 4, 5:
		return "<style>a::before { content: \"" + g.hole(CCSSStr, "css.first-line.string") + "\"; color: " + g.hole(CCSSVal, "css.first-line.value") + " }</style>"
	case 6:
		return "<style>p { width: " + g.hole(CCSSVal, "css.first-line.value") + "px; background: url('" + g.hole(CCSSStr, "css.first-line.string") + "') }</style>"
	case 7:
		return "<script type=\"application/ld+json\">{\"a\": \"" + g.hole(CJSONS, "json.first-line.string") + "\", \"b\": " + g.hole(CJSONV, "json.first-line.value") + "}</script>"
	case 8:
		return "<p title=" + g.hole(CUAttr, "html.attr.unquoted.after-rawtext") + " class=\"" + g.hole(CText, "html.attr.quoted.after-rawtext") + "\">" + g.hole(CText, "html.text.after-rawtext") + "</p>"
	case 9:
		return "<a href=" + g.hole(CUAttr, "html.urlattr.whole.unquoted.after-rawtext") + " title='" + g.hole(CText, "html.attr.quoted.after-rawtext") + "'>x</a>"
	case 10:
		return "<p>Say \"" + g.hole(CText, "html.text.after-rawtext") + "\" and '" + g.hole(CText, "html.text.after-rawtext") + "' now</p>"
	default:
		return "<div " + g.hole(CName, "html.tag.after-rawtext") + ">x</div><p>" + g.hole(CText, "html.text.after-rawtext") + "</p>"
	}
}

// rawSequence returns several raw-text elements in a row: the earlier ones end in
// a lexer sub-state, the later ones have their holes on the first line, so that
// state leaking across an element boundary shows.
func (g *Gen) rawSequence() string {
	var b strings.Builder
	for i, n := 0, 1+g.R.Intn(2); i < n; i++ {
		b.WriteString(g.openEndedElement())
		b.WriteString(g.pick("", "", "\n", " "))
	}
	for i, n := 0, 1+g.R.Intn(2); i < n; i++ {
		b.WriteString(g.firstLineElement())
	}
	return b.String()
}

// HTML returns HTML markup with holes.
func (g *Gen) HTML(n int) string {
	var b strings.Builder
	for i := 0; i < n; i++ {
		b.WriteString(g.htmlFragment())
		b.WriteString(g.pick("\n", "\n", "", " "))
	}
	return b.String()
}

// Formats a document can have.
var Formats = []string{"html", "html", "html", "html", "html", "html", "js", "css", "json", "md"}

// Document generates one document of the given format ("" = random).
func (g *Gen) Document(format string) *Doc {
	if format == "" {
		format = Formats[g.R.Intn(len(Formats))]
	}
	g.doc = &Doc{Files: map[string]string{}}
	g.macros = map[string]string{}
	g.macroSrc, g.libSrc = nil, nil
	g.format = format
	g.nfile, g.seq = 0, 0
	g.noVia = false
	ext := format
	g.doc.Main = "index." + ext
	var body string
	switch format {
	case "html":
		body = g.HTML(2 + g.R.Intn(6))
	case "js":
		body = g.JS(2 + g.R.Intn(8))
	case "css":
		body = g.CSS(2 + g.R.Intn(8))
	case "json":
		body = g.JSON(0)
	case "md":
		body = g.Markdown(2 + g.R.Intn(6))
	}
	prelude := ""
	if len(g.libSrc) > 0 {
		lib := "lib." + ext
		g.doc.Files[lib] = strings.Join(g.libSrc, "\n")
		prelude += `{% import "` + lib + `" %}`
		g.feature("import")
	}
	if len(g.macroSrc) > 0 {
		prelude += strings.Join(g.macroSrc, "")
		g.feature("macro")
	}
	if format == "html" && g.R.Intn(5) == 0 {
		// extends: the body becomes a macro of the extending file
		g.feature("extends")
		layout := "<!DOCTYPE html>\n<html><head><meta charset=\"utf-8\">{{ Head() }}</head>\n<body class=\"l\">{{ Body() }}</body></html>\n"
		g.doc.Files["layout.html"] = layout
		head := "<link rel=stylesheet href=\"/s.css\">"
		g.doc.Files[g.doc.Main] = `{% extends "layout.html" %}` + prelude + "{% macro Head %}" + head + "{% end macro %}{% macro Body %}" + body + "{% end macro %}"
	} else {
		if format == "md" && prelude != "" {
			prelude += "\n\n"
		}
		g.doc.Files[g.doc.Main] = prelude + body
	}
	sort.Strings(g.doc.Features)
	return g.doc
}
