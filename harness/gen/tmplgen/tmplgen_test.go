package tmplgen

import (
	"encoding/json"
	"math/rand"
	"strings"
	"testing"
)

func TestDeterministic(t *testing.T) {
	for seed := int64(0); seed < 200; seed++ {
		a := (&Gen{R: rand.New(rand.NewSource(seed))}).Document("")
		b := (&Gen{R: rand.New(rand.NewSource(seed))}).Document("")
		ja, _ := json.Marshal(a)
		jb, _ := json.Marshal(b)
		if string(ja) != string(jb) {
			t.Fatalf("seed %d: two generations differ", seed)
		}
		for _, h := range a.Holes {
			found := false
			for _, src := range a.Files {
				if strings.Contains(src, h.Var+" ") || strings.Contains(src, h.Var+")") {
					found = true
				}
			}
			if !found {
				t.Fatalf("seed %d: hole %s is declared but appears in no file", seed, h.Var)
			}
		}
	}
}

func TestAvoid(t *testing.T) {
	avoid := func(string) bool { return true }
	for seed := int64(0); seed < 500; seed++ {
		d := (&Gen{R: rand.New(rand.NewSource(seed)), Avoid: avoid}).Document("")
		for _, f := range d.Features {
			switch f {
			case "import", "macro", "extends", "render-md-in-html", FeatureOpenEnded:
			default:
				t.Fatalf("seed %d: avoided construct %s was generated", seed, f)
			}
		}
	}
}

func TestRestrictions(t *testing.T) {
	r := rand.New(rand.NewSource(1))
	for i := 0; i < 5000; i++ {
		s, _ := HostileString(r, []string{RNonEmpty, RNoSpace, RNoNewline, RNoCommentEnd, RNoBacktick})
		if s == "" || strings.ContainsAny(s, " \t\n\r\f`$") || strings.Contains(s, "*/") {
			t.Fatalf("restrictions violated by %q", s)
		}
	}
}

func TestValueRoundTrip(t *testing.T) {
	v := StrVal(TString, "a\xffb\x00", "x")
	b, _ := json.Marshal(v)
	var w Value
	if err := json.Unmarshal(b, &w); err != nil || w.Go().(string) != "a\xffb\x00" {
		t.Fatalf("invalid UTF-8 does not survive the JSON round trip: %q %v", w.S, err)
	}
}
