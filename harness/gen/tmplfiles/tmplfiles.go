// Package tmplfiles holds helpers shared by the template-engine checks
// C15..C18: building and running a file set under the host-panic sentinel, a
// recording file system, and a goldmark Markdown converter.
package tmplfiles

import (
	"bytes"
	"errors"
	"fmt"
	"io"
	"io/fs"
	"sort"
	"strings"
	"sync"
	"time"

	"github.com/open2b/scriggo"
	"github.com/open2b/scriggo/native"
	"github.com/yuin/goldmark"
	ghtml "github.com/yuin/goldmark/renderer/html"

	"verif/core"
)

// Files is a file set: rooted slash-separated name -> content.
type Files map[string][]byte

// FromStrings converts a map of strings.
func FromStrings(m map[string]string) Files {
	f := Files{}
	for k, v := range m {
		f[k] = []byte(v)
	}
	return f
}

// Names returns the sorted file names.
func (f Files) Names() []string {
	var n []string
	for k := range f {
		n = append(n, k)
	}
	sort.Strings(n)
	return n
}

// String prints the file set for witnesses.
func (f Files) String() string {
	var b strings.Builder
	for _, n := range f.Names() {
		fmt.Fprintf(&b, "--- %s\n%q\n", n, f[n])
	}
	return b.String()
}

var md = goldmark.New(goldmark.WithRendererOptions(ghtml.WithUnsafe()))

// MarkdownConverter converts Markdown to HTML with goldmark.
func MarkdownConverter(src []byte, out io.Writer) error { return md.Convert(src, out) }

// Outcome is what one build+run produced.
type Outcome struct {
	BuildErr   string // "" if the build succeeded
	BuildIsBE  bool   // the build error is a *scriggo.BuildError
	NotExist   bool   // errors.Is(buildErr, fs.ErrNotExist)
	RunErr     string
	Out        []byte
	Panic      string // host panic (value + stack) in BuildTemplate or Run
	PanicIn    string // "build" | "run"
	UsedVars   []string
	BuildError error `json:"-"`
}

// Failed reports whether no output was produced.
func (o Outcome) Failed() bool { return o.BuildErr != "" || o.RunErr != "" || o.Panic != "" }

// Class is a coarse class of the outcome used by metamorphic comparisons.
func (o Outcome) Class() string {
	switch {
	case o.Panic != "":
		return "panic"
	case o.BuildErr != "":
		return "build-error"
	case o.RunErr != "":
		return "run-error"
	}
	return "ok"
}

// Build builds the template under the host-panic sentinel.
func Build(fsys fs.FS, name string, opts *scriggo.BuildOptions) (t *scriggo.Template, o Outcome) {
	var err error
	v, panicked, stack := core.Guard(func() { t, err = scriggo.BuildTemplate(fsys, name, opts) })
	if panicked {
		o.Panic = fmt.Sprintf("BuildTemplate panicked: %v\n%s", v, stack)
		o.PanicIn = "build"
		return nil, o
	}
	if err != nil {
		o.BuildErr = err.Error()
		o.BuildError = err
		var be *scriggo.BuildError
		o.BuildIsBE = errors.As(err, &be)
		o.NotExist = errors.Is(err, fs.ErrNotExist)
		return nil, o
	}
	return t, o
}

// Run runs a built template under the host-panic sentinel, adding to o.
func Run(t *scriggo.Template, vars map[string]any, o *Outcome) {
	var b bytes.Buffer
	var err error
	v, panicked, stack := core.Guard(func() { err = t.Run(&b, vars, nil) })
	o.Out = b.Bytes()
	if panicked {
		o.Panic = fmt.Sprintf("Run panicked: %v\n%s", v, stack)
		o.PanicIn = "run"
		return
	}
	if err != nil {
		o.RunErr = err.Error()
	}
}

// BuildRun builds name in files with the given globals and runs it once.
func BuildRun(files Files, name string, globals native.Declarations, vars map[string]any) Outcome {
	opts := &scriggo.BuildOptions{Globals: globals, MarkdownConverter: MarkdownConverter}
	t, o := Build(ToScriggo(files), name, opts)
	if t == nil {
		return o
	}
	core.Guard(func() { o.UsedVars = t.UsedVars() })
	Run(t, vars, &o)
	return o
}

// ToScriggo converts to the in-memory file system of scriggo.
func ToScriggo(files Files) scriggo.Files {
	f := scriggo.Files{}
	for k, v := range files {
		f[k] = v
	}
	return f
}

// ---------------------------------------------------------------------------
// Recording file system (independent of scriggo.Files).

// Event is one observed call on the file system.
type Event struct {
	Op   string // "open" | "format" | "read" | "close" | "stat"
	Name string
	Err  string
}

// RecFS is an in-memory fs.FS that records every call. It does not implement
// fs.ReadFileFS on purpose, so that every read goes through Open.
type RecFS struct {
	mu     sync.Mutex
	files  Files
	Events []Event
	// Limit, if > 0, makes Open panic with a "recfs:" message when one name is
	// opened more than Limit times: a loader that recurses without bound is
	// stopped at once instead of overflowing the stack.
	Limit int
	count map[string]int
}

// NewRecFS returns a recording file system over files.
func NewRecFS(files Files) *RecFS { return &RecFS{files: files} }

func (r *RecFS) log(op, name string, err error) {
	e := Event{Op: op, Name: name}
	if err != nil {
		e.Err = err.Error()
	}
	r.mu.Lock()
	r.Events = append(r.Events, e)
	r.mu.Unlock()
}

// Open implements fs.FS.
func (r *RecFS) Open(name string) (fs.File, error) {
	if r.Limit > 0 {
		r.mu.Lock()
		if r.count == nil {
			r.count = map[string]int{}
		}
		r.count[name]++
		n := r.count[name]
		r.mu.Unlock()
		if n > r.Limit {
			panic(fmt.Sprintf("recfs: %q opened %d times in one build", name, n))
		}
	}
	if !fs.ValidPath(name) {
		err := &fs.PathError{Op: "open", Path: name, Err: fs.ErrInvalid}
		r.log("open", name, err)
		return nil, err
	}
	data, ok := r.files[name]
	if !ok {
		// a directory?
		isDir := name == "."
		if !isDir {
			for k := range r.files {
				if strings.HasPrefix(k, name+"/") {
					isDir = true
					break
				}
			}
		}
		if isDir {
			r.log("open", name, nil)
			return &recDir{name: name}, nil
		}
		err := &fs.PathError{Op: "open", Path: name, Err: fs.ErrNotExist}
		r.log("open", name, err)
		return nil, err
	}
	r.log("open", name, nil)
	return &recFile{r: r, name: name, rd: bytes.NewReader(data), size: int64(len(data))}, nil
}

// Opens returns the names passed to Open, in order.
func (r *RecFS) Opens() []string {
	var n []string
	for _, e := range r.Events {
		if e.Op == "open" {
			n = append(n, e.Name)
		}
	}
	return n
}

// Formats returns the names passed to Format, in order.
func (r *RecFS) Formats() []string {
	var n []string
	for _, e := range r.Events {
		if e.Op == "format" {
			n = append(n, e.Name)
		}
	}
	return n
}

type recFile struct {
	r    *RecFS
	name string
	rd   *bytes.Reader
	size int64
}

func (f *recFile) Stat() (fs.FileInfo, error) { return info{f.name, f.size, false}, nil }
func (f *recFile) Read(p []byte) (int, error) { return f.rd.Read(p) }
func (f *recFile) Close() error                { f.r.log("close", f.name, nil); return nil }

type recDir struct{ name string }

func (d *recDir) Stat() (fs.FileInfo, error) { return info{d.name, 0, true}, nil }
func (d *recDir) Read([]byte) (int, error) {
	return 0, &fs.PathError{Op: "read", Path: d.name, Err: errors.New("is a directory")}
}
func (d *recDir) Close() error { return nil }

type info struct {
	name string
	size int64
	dir  bool
}

func (i info) Name() string {
	if j := strings.LastIndexByte(i.name, '/'); j >= 0 {
		return i.name[j+1:]
	}
	return i.name
}
func (i info) Size() int64 { return i.size }
func (i info) Mode() fs.FileMode {
	if i.dir {
		return fs.ModeDir | 0o555
	}
	return 0o444
}
func (i info) ModTime() time.Time { return time.Time{} }
func (i info) IsDir() bool        { return i.dir }
func (i info) Sys() any           { return nil }

// RecFormatFS is a RecFS that also implements scriggo.FormatFS with an explicit
// name -> format table (names missing from the table are Text).
type RecFormatFS struct {
	*RecFS
	Table map[string]scriggo.Format
}

// Format implements scriggo.FormatFS.
func (r RecFormatFS) Format(name string) (scriggo.Format, error) {
	r.log("format", name, nil)
	return r.Table[name], nil
}

// FormatOfExt mirrors the documented extension table of BuildTemplate.
func FormatOfExt(name string) scriggo.Format {
	ext := ""
	if i := strings.LastIndexByte(name, '.'); i >= 0 && !strings.Contains(name[i:], "/") {
		ext = name[i:]
	}
	switch ext {
	case ".html":
		return scriggo.FormatHTML
	case ".css":
		return scriggo.FormatCSS
	case ".js":
		return scriggo.FormatJS
	case ".json":
		return scriggo.FormatJSON
	case ".md", ".mdx", ".mkd", ".mkdn", ".mdown", ".markdown":
		return scriggo.FormatMarkdown
	}
	return scriggo.FormatText
}
