package typedprog

// LibSource is the Go source of the package "lib" that generated programs may
// import. The harness compiles the same declarations natively (props/c03) for
// scriggo and type-checks this text for go/types.
const LibSource = `package lib

const K = 42
const KS = "ks"
const KT int64 = 7

var V int

func F(x int) int { return x + 1 }
func S(s string) string { return s + "!" }
func P(n int, s string) (int, error) { return n, nil }
func Sum(xs ...int) int { return len(xs) }
func Err(s string) error { return libErr(s) }

type libErr string

func (e libErr) Error() string { return string(e) }

type T struct {
	A int
	B string
}

func (t T) M() int { return t.A }
`
