package typedprog

import (
	"fmt"
	"go/ast"
	"go/parser"
	"go/token"
	"math/rand"
	"strings"
)

// Mutation is one single-point change of a program.
type Mutation struct {
	Kind string // class of the change
	Desc string // what was changed
	Src  string // mutated source
}

// MutationKinds lists the classes Mutate can produce.
var MutationKinds = []string{
	"replace-expr", "rename-ident", "delete-stmt", "dup-stmt", "call-arity", "swap-args", "return-arity",
	"change-op", "change-type", "define-assign", "wrap-conversion", "insert-snippet", "insert-jump",
	"delete-decl", "dup-decl", "assign-to-expr", "nil-misuse", "drop-use", "insert-family",
}

type edit struct {
	from, to int // byte offsets
	text     string
}

type mutator struct {
	r     *rand.Rand
	src   string
	fset  *token.FileSet
	file  *ast.File
	exprs []ast.Expr   // expressions inside function bodies and initialisers
	ids   []*ast.Ident // identifier uses inside function bodies
	lists [][]ast.Stmt // statement lists (blocks, case clauses)
	calls []*ast.CallExpr
	rets  []*ast.ReturnStmt
	bins  []*ast.BinaryExpr
	asgs  []*ast.AssignStmt
	types []ast.Expr // type expressions
	lhs   []ast.Expr // assignment targets
	uses  []ast.Stmt // statements that only read variables: _ = x, _, _ = x, y
}

func (m *mutator) off(p token.Pos) int { return m.fset.Position(p).Offset }

func (m *mutator) text(n ast.Node) string { return m.src[m.off(n.Pos()):m.off(n.End())] }

func (m *mutator) apply(e edit) string { return m.src[:e.from] + e.text + m.src[e.to:] }

func (m *mutator) replace(n ast.Node, text string) string {
	return m.apply(edit{m.off(n.Pos()), m.off(n.End()), text})
}

func (m *mutator) collect() {
	var inFunc int
	var visit func(n ast.Node) bool
	visit = func(n ast.Node) bool {
		switch x := n.(type) {
		case *ast.FuncDecl:
			if x.Body != nil {
				m.collectTypes(x.Type)
				inFunc++
				ast.Inspect(x.Body, visit)
				inFunc--
			}
			return false
		case *ast.BlockStmt:
			if len(x.List) > 0 {
				m.lists = append(m.lists, x.List)
			}
		case *ast.CaseClause:
			if len(x.Body) > 0 {
				m.lists = append(m.lists, x.Body)
			}
		case *ast.CommClause:
			if len(x.Body) > 0 {
				m.lists = append(m.lists, x.Body)
			}
		case *ast.CallExpr:
			m.calls = append(m.calls, x)
		case *ast.ReturnStmt:
			m.rets = append(m.rets, x)
		case *ast.BinaryExpr:
			m.bins = append(m.bins, x)
		case *ast.AssignStmt:
			m.asgs = append(m.asgs, x)
			m.lhs = append(m.lhs, x.Lhs...)
			if x.Tok == token.ASSIGN {
				blank := true
				for _, l := range x.Lhs {
					if id, ok := l.(*ast.Ident); !ok || id.Name != "_" {
						blank = false
					}
				}
				for _, r := range x.Rhs {
					if _, ok := r.(*ast.Ident); !ok {
						blank = false
					}
				}
				if blank {
					m.uses = append(m.uses, x)
				}
			}
		case *ast.IncDecStmt:
			m.lhs = append(m.lhs, x.X)
		case *ast.ValueSpec:
			if x.Type != nil {
				m.types = append(m.types, x.Type)
			}
		case *ast.CompositeLit:
			if x.Type != nil {
				m.types = append(m.types, x.Type)
			}
		case *ast.FuncLit:
			m.collectTypes(x.Type)
		case *ast.TypeAssertExpr:
			if x.Type != nil {
				m.types = append(m.types, x.Type)
			}
		case *ast.Ident:
			if inFunc > 0 && x.Name != "_" {
				m.ids = append(m.ids, x)
			}
		}
		if e, ok := n.(ast.Expr); ok && e != nil {
			switch e.(type) {
			case *ast.ArrayType, *ast.MapType, *ast.StructType, *ast.FuncType, *ast.InterfaceType, *ast.ChanType, *ast.KeyValueExpr, *ast.Ellipsis:
			default:
				m.exprs = append(m.exprs, e)
			}
		}
		return true
	}
	ast.Inspect(m.file, visit)
}

func (m *mutator) collectTypes(ft *ast.FuncType) {
	for _, fl := range []*ast.FieldList{ft.Params, ft.Results} {
		if fl == nil {
			continue
		}
		for _, f := range fl.List {
			m.types = append(m.types, f.Type)
		}
	}
}

var replacementExprs = []string{`"s"`, "1", "1.5", "true", "nil", "'c'", "struct{}{}", "[]int{}", "-1", "map[string]int{}", "func() {}", "new(int)", "0", `""`, "1 << 70", "2i", "[2]int{}", "make(chan int)", "any(1)", "error(nil)", "x_undefined", "len", "int", "_"}

var replacementTypes = []string{"int", "string", "bool", "float64", "[]int", "map[string]int", "*int", "func()", "interface{}", "error", "uint8", "[2]string", "chan int", "struct{}", "undefinedType", "complex128", "rune", "[]interface{}", "map[[]int]int", "[n]int", "[-1]int", "*undefinedType"}

var operators = []string{"+", "-", "*", "/", "%", "&", "|", "^", "&^", "<<", ">>", "==", "!=", "<", "<=", ">", ">=", "&&", "||"}

// Mutate applies one random single-point change to src (which must parse).
// ok is false if the program offers no site for the drawn change.
func Mutate(r *rand.Rand, src string) (Mutation, bool) {
	m := &mutator{r: r, src: src, fset: token.NewFileSet()}
	f, err := parser.ParseFile(m.fset, "main.go", src, parser.SkipObjectResolution)
	if err != nil {
		return Mutation{}, false
	}
	m.file = f
	m.collect()
	for try := 0; try < 8; try++ {
		kind := MutationKinds[r.Intn(len(MutationKinds))]
		if mu, ok := m.mutate(kind); ok && mu.Src != src {
			mu.Kind = kind
			return mu, true
		}
	}
	return Mutation{}, false
}

// MutateKind applies a change of the given class.
func MutateKind(r *rand.Rand, src, kind string) (Mutation, bool) {
	m := &mutator{r: r, src: src, fset: token.NewFileSet()}
	f, err := parser.ParseFile(m.fset, "main.go", src, parser.SkipObjectResolution)
	if err != nil {
		return Mutation{}, false
	}
	m.file = f
	m.collect()
	mu, ok := m.mutate(kind)
	mu.Kind = kind
	return mu, ok && mu.Src != src
}

func (m *mutator) pos(n ast.Node) string {
	p := m.fset.Position(n.Pos())
	return fmt.Sprintf("%d:%d", p.Line, p.Column)
}

func (m *mutator) mutate(kind string) (Mutation, bool) {
	r := m.r
	switch kind {
	case "replace-expr":
		if len(m.exprs) == 0 {
			return Mutation{}, false
		}
		e := m.exprs[r.Intn(len(m.exprs))]
		rep := replacementExprs[r.Intn(len(replacementExprs))]
		return Mutation{Desc: fmt.Sprintf("expression %q at %s replaced by %s", trunc(m.text(e)), m.pos(e), rep), Src: m.replace(e, rep)}, true
	case "nil-misuse":
		if len(m.exprs) == 0 {
			return Mutation{}, false
		}
		e := m.exprs[r.Intn(len(m.exprs))]
		return Mutation{Desc: fmt.Sprintf("expression %q at %s replaced by nil", trunc(m.text(e)), m.pos(e)), Src: m.replace(e, "nil")}, true
	case "rename-ident":
		if len(m.ids) == 0 {
			return Mutation{}, false
		}
		id := m.ids[r.Intn(len(m.ids))]
		nn := id.Name + "_u"
		switch r.Intn(4) {
		case 0:
			// a name that exists but denotes something else
			nn = []string{"main", "len", "int", "nil", "true", "iota", "string", "append", "_"}[r.Intn(9)]
		case 1:
			// another identifier of the program
			nn = m.ids[r.Intn(len(m.ids))].Name
		}
		return Mutation{Desc: fmt.Sprintf("identifier %s at %s renamed to %s", id.Name, m.pos(id), nn), Src: m.replace(id, nn)}, true
	case "delete-stmt", "dup-stmt", "insert-snippet", "insert-jump":
		if len(m.lists) == 0 {
			return Mutation{}, false
		}
		l := m.lists[r.Intn(len(m.lists))]
		i := r.Intn(len(l))
		s := l[i]
		switch kind {
		case "delete-stmt":
			return Mutation{Desc: fmt.Sprintf("statement %q at %s deleted", trunc(m.text(s)), m.pos(s)), Src: m.replace(s, "")}, true
		case "dup-stmt":
			t := m.text(s)
			return Mutation{Desc: fmt.Sprintf("statement %q at %s duplicated", trunc(t), m.pos(s)), Src: m.replace(s, t+"\n"+t)}, true
		case "insert-snippet":
			sn := Snippets[r.Intn(len(Snippets))]
			at := m.off(s.Pos())
			if r.Intn(3) == 0 {
				at = m.off(s.End())
				return Mutation{Desc: fmt.Sprintf("snippet %q inserted after %s", trunc(sn), m.pos(s)), Src: m.apply(edit{at, at, "\n" + sn + "\n"})}, true
			}
			return Mutation{Desc: fmt.Sprintf("snippet %q inserted before %s", trunc(sn), m.pos(s)), Src: m.apply(edit{at, at, sn + "\n"})}, true
		default:
			j := []string{"break", "continue", "fallthrough", "return", "return 1", "goto Lundefined", "break Lundefined", "continue Lundefined", "Lunused:", "return 1, 2", "defer recover()", "go println()", "defer 1", "goto Lfwd\n\tvar jumped int\n\t_ = jumped\nLfwd:", "panic()", "recover(1)"}[r.Intn(16)]
			at := m.off(s.Pos())
			return Mutation{Desc: fmt.Sprintf("%q inserted before %s", j, m.pos(s)), Src: m.apply(edit{at, at, j + "\n"})}, true
		}
	case "drop-use":
		// remove a statement whose only purpose is to read variables
		if len(m.uses) == 0 {
			return Mutation{}, false
		}
		u := m.uses[r.Intn(len(m.uses))]
		return Mutation{Desc: fmt.Sprintf("use %q at %s removed", trunc(m.text(u)), m.pos(u)), Src: m.replace(u, "")}, true
	case "insert-family":
		// a member of one of the generated snippet families (shadowed types, redeclarations, constant groups)
		if len(m.lists) == 0 || len(Snippets) <= HandWritten {
			return Mutation{}, false
		}
		l := m.lists[r.Intn(len(m.lists))]
		st := l[r.Intn(len(l))]
		sn := Snippets[HandWritten+r.Intn(len(Snippets)-HandWritten)]
		at := m.off(st.Pos())
		return Mutation{Desc: fmt.Sprintf("snippet %q inserted before %s", trunc(sn), m.pos(st)), Src: m.apply(edit{at, at, sn + "\n"})}, true
	case "call-arity":
		if len(m.calls) == 0 {
			return Mutation{}, false
		}
		c := m.calls[r.Intn(len(m.calls))]
		if len(c.Args) > 0 && r.Intn(2) == 0 {
			i := r.Intn(len(c.Args))
			var as []string
			for k, a := range c.Args {
				if k != i {
					as = append(as, m.text(a))
				}
			}
			ell := ""
			if c.Ellipsis.IsValid() && i != len(c.Args)-1 {
				ell = "..."
			}
			return Mutation{Desc: fmt.Sprintf("argument %d of call %q at %s removed", i, trunc(m.text(c.Fun)), m.pos(c)),
				Src: m.apply(edit{m.off(c.Lparen) + 1, m.off(c.Rparen), strings.Join(as, ", ") + ell})}, true
		}
		extra := []string{"0", `"x"`, "nil", "true"}[r.Intn(4)]
		at := m.off(c.Rparen)
		if c.Ellipsis.IsValid() {
			return Mutation{}, false
		}
		if len(c.Args) > 0 {
			extra = ", " + extra
		}
		return Mutation{Desc: fmt.Sprintf("extra argument added to call %q at %s", trunc(m.text(c.Fun)), m.pos(c)), Src: m.apply(edit{at, at, extra})}, true
	case "swap-args":
		var cs []*ast.CallExpr
		for _, c := range m.calls {
			if len(c.Args) >= 2 {
				cs = append(cs, c)
			}
		}
		if len(cs) == 0 {
			return Mutation{}, false
		}
		c := cs[r.Intn(len(cs))]
		i := r.Intn(len(c.Args) - 1)
		a, b := m.text(c.Args[i]), m.text(c.Args[i+1])
		return Mutation{Desc: fmt.Sprintf("arguments %d and %d of call at %s swapped", i, i+1, m.pos(c)),
			Src: m.apply(edit{m.off(c.Args[i].Pos()), m.off(c.Args[i+1].End()), b + ", " + a})}, true
	case "return-arity":
		if len(m.rets) == 0 {
			return Mutation{}, false
		}
		rt := m.rets[r.Intn(len(m.rets))]
		if len(rt.Results) > 0 && r.Intn(2) == 0 {
			var rs []string
			for _, x := range rt.Results[:len(rt.Results)-1] {
				rs = append(rs, m.text(x))
			}
			return Mutation{Desc: fmt.Sprintf("last result of return at %s removed", m.pos(rt)), Src: m.replace(rt, strings.TrimSpace("return "+strings.Join(rs, ", ")))}, true
		}
		t := m.text(rt)
		if len(rt.Results) == 0 {
			return Mutation{Desc: fmt.Sprintf("result added to return at %s", m.pos(rt)), Src: m.replace(rt, "return 0")}, true
		}
		return Mutation{Desc: fmt.Sprintf("result added to return at %s", m.pos(rt)), Src: m.replace(rt, t+", 0")}, true
	case "change-op":
		if len(m.bins) == 0 {
			return Mutation{}, false
		}
		b := m.bins[r.Intn(len(m.bins))]
		op := operators[r.Intn(len(operators))]
		from, to := m.off(b.OpPos), m.off(b.OpPos)+len(b.Op.String())
		return Mutation{Desc: fmt.Sprintf("operator %s at %s changed to %s", b.Op, m.pos(b), op), Src: m.apply(edit{from, to, op})}, true
	case "change-type":
		if len(m.types) == 0 {
			return Mutation{}, false
		}
		t := m.types[r.Intn(len(m.types))]
		nt := replacementTypes[r.Intn(len(replacementTypes))]
		return Mutation{Desc: fmt.Sprintf("type %q at %s changed to %s", trunc(m.text(t)), m.pos(t), nt), Src: m.replace(t, nt)}, true
	case "define-assign":
		if len(m.asgs) == 0 {
			return Mutation{}, false
		}
		a := m.asgs[r.Intn(len(m.asgs))]
		from := m.off(a.TokPos)
		to := from + len(a.Tok.String())
		nt := ":="
		if a.Tok == token.DEFINE {
			nt = "="
		} else if a.Tok != token.ASSIGN && r.Intn(2) == 0 {
			nt = "="
		}
		return Mutation{Desc: fmt.Sprintf("%s at %s changed to %s", a.Tok, m.pos(a), nt), Src: m.apply(edit{from, to, nt})}, true
	case "wrap-conversion":
		if len(m.exprs) == 0 {
			return Mutation{}, false
		}
		e := m.exprs[r.Intn(len(m.exprs))]
		t := []string{"int", "string", "bool", "float64", "[]int", "[]byte", "(*int)", "uint8", "interface{}", "error", "(func())", "map[int]int", "[2]int", "complex128", "struct{}", "rune", "[]rune"}[r.Intn(17)]
		return Mutation{Desc: fmt.Sprintf("expression %q at %s wrapped in conversion to %s", trunc(m.text(e)), m.pos(e), t), Src: m.replace(e, t+"("+m.text(e)+")")}, true
	case "assign-to-expr":
		if len(m.lhs) == 0 {
			return Mutation{}, false
		}
		l := m.lhs[r.Intn(len(m.lhs))]
		rep := []string{"1", `"s"`, "nil", "len", "main", "f_undefined", "true", "int", "(1 + 2)", "struct{}{}", "[]int{1}[0]", "map[int]int{}[0]", "[1]int{}[0]", "new(int)", "*new(int)", `"abc"[0]`, "func() int { return 0 }()", "struct{ x int }{}.x", "map[int]struct{ x int }{}[0].x", "(&struct{ x int }{}).x"}[r.Intn(20)]
		return Mutation{Desc: fmt.Sprintf("assignment target %q at %s replaced by %s", trunc(m.text(l)), m.pos(l), rep), Src: m.replace(l, rep)}, true
	case "delete-decl", "dup-decl":
		if len(m.file.Decls) == 0 {
			return Mutation{}, false
		}
		d := m.file.Decls[r.Intn(len(m.file.Decls))]
		if gd, ok := d.(*ast.GenDecl); ok && gd.Tok == token.IMPORT {
			if kind == "dup-decl" {
				return Mutation{Desc: "unused import added", Src: m.apply(edit{m.off(d.End()), m.off(d.End()), "\nimport lib2 \"lib\"\n"})}, true
			}
		}
		if kind == "delete-decl" {
			return Mutation{Desc: fmt.Sprintf("declaration %q at %s deleted", trunc(m.text(d)), m.pos(d)), Src: m.replace(d, "")}, true
		}
		t := m.text(d)
		return Mutation{Desc: fmt.Sprintf("declaration %q at %s duplicated", trunc(t), m.pos(d)), Src: m.replace(d, t+"\n\n"+t)}, true
	}
	return Mutation{}, false
}

func trunc(s string) string {
	s = strings.Join(strings.Fields(s), " ")
	if len(s) > 50 {
		return s[:50] + "…"
	}
	return s
}
