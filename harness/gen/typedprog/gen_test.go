package typedprog

import (
	"errors"
	"go/ast"
	"go/parser"
	"go/token"
	"go/types"
	"math/rand"
	"testing"
)

var errNoPackage = errors.New("no such package")

type libImporter struct{ lib *types.Package }

func (li libImporter) Import(path string) (*types.Package, error) {
	if path == "lib" {
		return li.lib, nil
	}
	return nil, errNoPackage
}

func checkLib(t *testing.T) *types.Package {
	fset := token.NewFileSet()
	f, err := parser.ParseFile(fset, "lib.go", LibSource, 0)
	if err != nil {
		t.Fatal(err)
	}
	pkg, err := (&types.Config{}).Check("lib", fset, []*ast.File{f}, nil)
	if err != nil {
		t.Fatal(err)
	}
	return pkg
}

// TestGeneratedProgramsTypeCheck: the generator is type-directed; at least 97% of
// its programs must be accepted by go/types (the checks drop the rest).
func TestGeneratedProgramsTypeCheck(t *testing.T) {
	lib := checkLib(t)
	bad := 0
	const n = 600
	for i := 0; i < n; i++ {
		src := Generate(rand.New(rand.NewSource(int64(i))), Options{Lib: true})
		fset := token.NewFileSet()
		f, err := parser.ParseFile(fset, "main.go", src, 0)
		if err != nil {
			bad++
			if bad <= 5 {
				t.Logf("seed %d: parse error: %v\n%s", i, err, src)
			}
			continue
		}
		var first error
		conf := types.Config{GoVersion: "go1.20", Importer: libImporter{lib}, Error: func(err error) {
			if first == nil {
				first = err
			}
		}}
		conf.Check("main", fset, []*ast.File{f}, nil)
		if first != nil {
			bad++
			if bad <= 8 {
				t.Logf("seed %d: %v", i, first)
			}
		}
	}
	t.Logf("%d of %d generated programs rejected by go/types", bad, n)
	if bad*100 > n*3 {
		t.Errorf("too many ill-typed programs: %d of %d", bad, n)
	}
}
