package typedprog

import (
	"fmt"
	"strings"
)

// Snippet families are generated, not written out: they vary one idea over
// type positions, underlying types and relations. Like the hand-written
// snippets they contain valid and invalid members; the reference decides.

func init() {
	Snippets = append(Snippets, shadowedTypeSnippets()...)
	Snippets = append(Snippets, redeclarationSnippets()...)
	Snippets = append(Snippets, constGroupSnippets()...)
}

// typePositions are composite types in which a defined type T can occur.
var typePositions = []string{
	"func(T)", "func() T", "func(T) T", "func(int, T)", "func(...T)", "func(T, T) (T, error)",
	"struct{ a T }", "map[string]T", "map[T]int", "chan T", "[]T", "[2]T", "*T", "func(func(T))", "map[string]func(T)", "[]struct{ a T }",
}

// ShadowBlock returns a block in which an outer and an inner defined type have
// the same name T and the same underlying type u, and values of the composite
// type pos over both are declared (o over the outer T, i over the inner T) and
// then related by rel. All names are suffixed with id.
func ShadowBlock(id int, u, pos, rel string) string {
	T := fmt.Sprintf("T%d", id)
	p := strings.ReplaceAll(pos, "T", T)
	var b strings.Builder
	fmt.Fprintf(&b, "{ type %s %s; var o %s; var ox %s; _, _ = o, ox; { type %s %s; var i %s; var ix %s; _, _ = i, ix; ", T, u, p, T, T, u, p, T)
	switch rel {
	case "assign-composite":
		b.WriteString("o = i")
	case "assign-composite-back":
		b.WriteString("i = o")
	case "assign-value":
		b.WriteString("ox = ix")
	case "convert-value":
		fmt.Fprintf(&b, "ix = %s(ox)", T)
	case "compare-composite":
		b.WriteString("_ = o == i")
	case "use-both":
		// well typed: each value is only used with its own type
		b.WriteString("o2 := o; i2 := i; o2, i2 = o, i; _, _ = o2, i2")
	case "interface":
		b.WriteString("var e interface{} = o; _, ok := e.(" + p + "); _ = ok")
	case "call-inner":
		if strings.HasPrefix(pos, "func(T)") {
			b.WriteString("if i != nil { i(ix) }")
		} else {
			b.WriteString("_ = i")
		}
	case "call-cross":
		if strings.HasPrefix(pos, "func(T)") {
			b.WriteString("if i != nil { i(ox) }")
		} else {
			b.WriteString("ix = ox")
		}
	}
	b.WriteString(" } }")
	return b.String()
}

var shadowRelations = []string{"assign-composite", "assign-composite-back", "assign-value", "convert-value", "compare-composite", "use-both", "interface", "call-inner", "call-cross"}

func shadowedTypeSnippets() []string {
	var out []string
	id := 900
	for pi, pos := range typePositions {
		for ui, u := range []string{"int", "string", "struct{ x int }", "[]int"} {
			if (pi+ui)%2 == 1 && pi > 5 {
				continue // thin out the non-function positions
			}
			for _, rel := range shadowRelations {
				id++
				out = append(out, ShadowBlock(id, u, pos, rel))
			}
		}
	}
	return out
}

// redeclarationSnippets: variables redeclared by a multi-variable := and then
// read or not, in the same and in nested scopes.
func redeclarationSnippets() []string {
	var out []string
	for _, first := range []string{"a, e := 1, 2", "var e int; a := 1", "a, e := f2()", "e := 0; a := 1"} {
		for _, second := range []string{"b, e := 3, 4", "e, b := 3, 4", "b, e := f2()", "b, e, c := 3, 4, 5; _ = c", "{ b, e := 3, 4; _ = b; _ = e }; b := 0", "if b, e := 3, 4; b > 0 { _ = e }; b := 0", "b := 3; e = 4", "b, e := 3, \"s\"", "e, e := 3, 4; b := 0", "a, e := 3, 4; b := 0"} {
			for _, use := range []string{"", "_ = e", "e++", "e = 5", "func() { _ = e }()", "func() { e = 1 }()"} {
				out = append(out, fmt.Sprintf("{ f2 := func() (int, int) { return 1, 2 }; _ = f2; %s; _ = a; %s; _ = b; %s }", first, second, use))
			}
		}
	}
	return out
}

// constGroupSnippets: constant groups that mix typed, untyped, implicit and iota specifications.
func constGroupSnippets() []string {
	var out []string
	for _, first := range []string{"a int8 = 1", "a float64 = 1", "a = 1.5", "a string = \"s\"", "a = iota", "a uint8 = iota + 254", "a, a2 = 1, \"x\"", "a int8 = 127"} {
		for _, second := range []string{"b = 500", "b", "b = a + 1", "b = 2.5", "b int = 3", "b = \"t\"", "b = iota * 300", "b, b2 = 2, 3", "b = 1 << 10"} {
			for _, third := range []string{"", "c", "c = b"} {
				specs := []string{first, second}
				if third != "" {
					specs = append(specs, third)
				}
				names := "_ = a; _ = b"
				if third != "" {
					names += "; _ = c"
				}
				out = append(out, "{ const ( "+strings.Join(specs, "; ")+" ); "+names+"; var i int = b; _ = i }")
				out = append(out, "{ const ( "+strings.Join(specs, "; ")+" ); "+names+" }")
			}
		}
	}
	return out
}
