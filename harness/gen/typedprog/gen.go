package typedprog

import (
	"fmt"
	"math/rand"
	"strings"
)

// Options controls the size of a generated program.
type Options struct {
	Funcs int  // number of functions besides main (default 3)
	Stmts int  // statements per block at the top level of a function (default 6)
	Depth int  // expression depth (default 3)
	Lib   bool // may import the native package "lib"
	// NoLabelledContinue keeps labelled continue statements, and labelled break
	// statements directly inside a for-range body, out of the program (scope of
	// an open finding of C03: the emitter does not implement them).
	NoLabelledContinue bool
}

type variable struct {
	name       string
	t          *Type
	assignable bool
	isConst    bool
}

type function struct {
	name     string
	t        *Type
	variadic bool // last parameter is ...Elem (Params[last] is the slice type)
}

// Gen generates one program.
type Gen struct {
	r       *rand.Rand
	opt     Options
	structs []*Type
	named   []*Type
	funcs   []function
	scopes  [][]variable
	n       int // name counter
	loops   int
	labels  []string
	results []*Type
	inFunc  bool
	lib     bool
	libUsed bool
	lines   []string
	ind     int
}

// Generate returns the source of a random well-typed program.
func Generate(r *rand.Rand, opt Options) string {
	if opt.Funcs == 0 {
		opt.Funcs = 3
	}
	if opt.Stmts == 0 {
		opt.Stmts = 6
	}
	if opt.Depth == 0 {
		opt.Depth = 3
	}
	g := &Gen{r: r, opt: opt}
	g.lib = opt.Lib && r.Intn(2) == 0
	return g.program()
}

func (g *Gen) name(prefix string) string {
	g.n++
	return fmt.Sprintf("%s%d", prefix, g.n)
}

func (g *Gen) emit(format string, a ...any) {
	g.lines = append(g.lines, strings.Repeat("\t", g.ind)+fmt.Sprintf(format, a...))
}

func (g *Gen) push()                  { g.scopes = append(g.scopes, nil) }
func (g *Gen) pop()                   { g.scopes = g.scopes[:len(g.scopes)-1] }
func (g *Gen) declare(v variable)     { g.scopes[len(g.scopes)-1] = append(g.scopes[len(g.scopes)-1], v) }
func (g *Gen) chance(pct int) bool    { return g.r.Intn(100) < pct }
func (g *Gen) pick(s []string) string { return s[g.r.Intn(len(s))] }

// varsOf returns the visible variables whose type is identical to t.
func (g *Gen) varsOf(t *Type, needAssignable bool) []variable {
	var out []variable
	seen := map[string]bool{}
	for i := len(g.scopes) - 1; i >= 0; i-- {
		for j := len(g.scopes[i]) - 1; j >= 0; j-- {
			v := g.scopes[i][j]
			if seen[v.name] {
				continue
			}
			seen[v.name] = true
			if v.t.Equal(t) && (!needAssignable || v.assignable) {
				out = append(out, v)
			}
		}
	}
	return out
}

// varsWhere returns visible variables satisfying pred.
func (g *Gen) varsWhere(pred func(v variable) bool) []variable {
	var out []variable
	seen := map[string]bool{}
	for i := len(g.scopes) - 1; i >= 0; i-- {
		for j := len(g.scopes[i]) - 1; j >= 0; j-- {
			v := g.scopes[i][j]
			if seen[v.name] {
				continue
			}
			seen[v.name] = true
			if pred(v) {
				out = append(out, v)
			}
		}
	}
	return out
}

// ---- types ----

func (g *Gen) basicType() *Type {
	// weighted towards int, string, bool
	switch n := g.r.Intn(100); {
	case n < 28:
		return tInt
	case n < 42:
		return tString
	case n < 52:
		return tBool
	case n < 60:
		return tFloat64
	case n < 65:
		return tInt8
	case n < 70:
		return tUint8
	case n < 75:
		return tInt64
	case n < 80:
		return tUint
	case n < 84:
		return tUint32
	case n < 88:
		return tRune
	case n < 91:
		return tFloat32
	case n < 93:
		return tComplex128
	default:
		if len(g.named) > 0 {
			return g.named[g.r.Intn(len(g.named))]
		}
		return tInt
	}
}

func (g *Gen) keyType() *Type {
	return []*Type{tInt, tString, tRune, tUint8, tBool, tInt64}[g.r.Intn(6)]
}

func (g *Gen) randType(depth int) *Type {
	if depth <= 0 || g.chance(55) {
		return g.basicType()
	}
	switch n := g.r.Intn(100); {
	case n < 25:
		return &Type{K: KSlice, Elem: g.randType(depth - 1)}
	case n < 35:
		return &Type{K: KArray, N: 1 + g.r.Intn(4), Elem: g.randType(depth - 1)}
	case n < 50:
		return &Type{K: KMap, Key: g.keyType(), Elem: g.randType(depth - 1)}
	case n < 65:
		if len(g.structs) > 0 {
			return g.structs[g.r.Intn(len(g.structs))]
		}
		return g.basicType()
	case n < 75:
		if len(g.structs) > 0 && g.chance(50) {
			return &Type{K: KPtr, Elem: g.structs[g.r.Intn(len(g.structs))]}
		}
		return &Type{K: KPtr, Elem: g.basicType()}
	case n < 83:
		ft := &Type{K: KFunc}
		for i := g.r.Intn(3); i > 0; i-- {
			ft.Params = append(ft.Params, g.basicType())
		}
		for i := g.r.Intn(3); i > 0; i-- {
			ft.Results = append(ft.Results, g.basicType())
		}
		return ft
	case n < 90:
		return tAny
	case n < 94:
		return tError
	default:
		return &Type{K: KChan, Elem: g.basicType()}
	}
}

// ---- expressions ----

type ex struct {
	s       string
	isConst bool
}

func (g *Gen) intLit(t *Type) string {
	if t.base().K == KRune {
		return g.pick([]string{"'a'", "'b'", "'z'", "'0'", "'\\n'", "'é'"})
	}
	return fmt.Sprint(g.r.Intn(10))
}

// literal returns a literal (or literal-like) expression of type t.
func (g *Gen) literal(t *Type, depth int) ex {
	switch t.K {
	case KNamed:
		l := g.literal(t.Under, depth)
		return ex{t.Name + "(" + l.s + ")", l.isConst}
	case KInt, KInt8, KInt64, KUint, KUint8, KUint32, KRune:
		return ex{g.intLit(t), true}
	case KFloat64, KFloat32:
		return ex{g.pick([]string{"1.5", "0.25", "2.0", "3", "0.5", "1e2"}), true}
	case KComplex128:
		return ex{g.pick([]string{"(1 + 2i)", "2i", "(0.5 - 1i)", "3"}), true}
	case KString:
		return ex{g.pick([]string{`"a"`, `"bc"`, `""`, "`r`", `"x\ny"`, `"é"`}), true}
	case KBool:
		return ex{g.pick([]string{"true", "false"}), true}
	case KSlice:
		if g.chance(25) {
			return ex{fmt.Sprintf("make(%s, %d)", t, g.r.Intn(4)), false}
		}
		var es []string
		for i := g.r.Intn(3); i > 0; i-- {
			es = append(es, g.expr(t.Elem, depth-1).s)
		}
		return ex{t.String() + "{" + strings.Join(es, ", ") + "}", false}
	case KArray:
		var es []string
		for i := g.r.Intn(t.N + 1); i > 0; i-- {
			es = append(es, g.expr(t.Elem, depth-1).s)
		}
		return ex{t.String() + "{" + strings.Join(es, ", ") + "}", false}
	case KMap:
		if g.chance(30) {
			return ex{"make(" + t.String() + ")", false}
		}
		keys := g.distinctKeys(t.Key, g.r.Intn(3))
		var es []string
		for _, k := range keys {
			es = append(es, k+": "+g.expr(t.Elem, depth-1).s)
		}
		return ex{t.String() + "{" + strings.Join(es, ", ") + "}", false}
	case KStruct:
		if g.chance(30) {
			return ex{t.Name + "{}", false}
		}
		var es []string
		if g.chance(50) {
			for _, f := range t.Fields {
				if g.chance(70) {
					es = append(es, f.Name+": "+g.expr(f.T, depth-1).s)
				}
			}
		} else {
			for _, f := range t.Fields {
				es = append(es, g.expr(f.T, depth-1).s)
			}
		}
		return ex{t.Name + "{" + strings.Join(es, ", ") + "}", false}
	case KPtr:
		if vs := g.varsOf(t.Elem, true); len(vs) > 0 && g.chance(50) {
			return ex{"&" + vs[g.r.Intn(len(vs))].name, false}
		}
		if t.Elem.K == KStruct && g.chance(60) {
			return ex{"&" + g.literal(t.Elem, depth-1).s, false}
		}
		return ex{"new(" + t.Elem.String() + ")", false}
	case KFunc:
		return ex{g.funcLit(t, depth), false}
	case KAny:
		inner := g.expr(g.basicType(), depth-1)
		if g.chance(50) {
			return ex{"interface{}(" + inner.s + ")", false}
		}
		return ex{"any(" + inner.s + ")", false}
	case KError:
		if g.lib && g.chance(30) {
			g.libUsed = true
			return ex{"lib.Err(" + g.expr(tString, depth-1).s + ")", false}
		}
		return ex{"error(nil)", false}
	case KChan:
		return ex{fmt.Sprintf("make(%s, %d)", t, g.r.Intn(3)), false}
	}
	return ex{"nil", false}
}

func (g *Gen) distinctKeys(t *Type, n int) []string {
	var pool []string
	switch t.K {
	case KString:
		pool = []string{`"k0"`, `"k1"`, `"k2"`, `""`}
	case KBool:
		pool = []string{"true", "false"}
	case KRune:
		pool = []string{"'a'", "'b'", "'c'", "'d'"}
	default:
		pool = []string{"0", "1", "2", "3", "7"}
	}
	g.r.Shuffle(len(pool), func(i, j int) { pool[i], pool[j] = pool[j], pool[i] })
	if n > len(pool) {
		n = len(pool)
	}
	return pool[:n]
}

// funcLit returns a function literal of type t.
func (g *Gen) funcLit(t *Type, depth int) string {
	var ps []string
	g.push()
	for _, p := range t.Params {
		n := g.name("p")
		ps = append(ps, n+" "+p.String())
		g.declare(variable{name: n, t: p, assignable: true})
	}
	savedLines, savedInd, savedResults, savedLoops, savedLabels := g.lines, g.ind, g.results, g.loops, g.labels
	g.lines, g.results, g.loops, g.labels = nil, t.Results, 0, nil
	g.ind = savedInd + 1
	if g.chance(50) && depth > 0 {
		g.stmt(1)
	}
	g.emitReturn(depth - 1)
	body := g.lines
	g.lines, g.ind, g.results, g.loops, g.labels = savedLines, savedInd, savedResults, savedLoops, savedLabels
	g.pop()
	head := "func(" + strings.Join(ps, ", ") + ")"
	rt := &Type{K: KFunc, Results: t.Results}
	if s := strings.TrimPrefix(rt.sig(), "()"); s != "" {
		head += s
	}
	return head + " {\n" + strings.Join(body, "\n") + "\n" + strings.Repeat("\t", g.ind) + "}"
}

// leaf returns a variable of type t if there is one, else a literal.
func (g *Gen) leaf(t *Type, depth int) ex {
	if vs := g.varsOf(t, false); len(vs) > 0 && g.chance(70) {
		v := vs[g.r.Intn(len(vs))]
		return ex{v.name, v.isConst}
	}
	return g.literal(t, depth)
}

// nonConst returns a non-constant expression of type t, or ok=false.
func (g *Gen) nonConst(t *Type) (string, bool) {
	vs := g.varsWhere(func(v variable) bool { return v.t.Equal(t) && !v.isConst })
	if len(vs) == 0 {
		return "", false
	}
	return vs[g.r.Intn(len(vs))].name, true
}

// expr returns an expression assignable to (and, except for any, of type) t.
func (g *Gen) expr(t *Type, depth int) ex {
	if depth <= 0 || g.chance(25) {
		return g.leaf(t, depth)
	}
	// generic forms available for every type
	switch n := g.r.Intn(100); {
	case n < 8:
		// call of a declared function whose single result is t
		if s, ok := g.callReturning(t, depth); ok {
			return ex{s, false}
		}
	case n < 14:
		// element of a slice/array/map variable
		if s, ok := g.elementOf(t, depth); ok {
			return ex{s, false}
		}
	case n < 19:
		// field of a struct variable
		if s, ok := g.fieldOf(t); ok {
			return ex{s, false}
		}
	case n < 22:
		// dereference
		if vs := g.varsOf(&Type{K: KPtr, Elem: t}, false); len(vs) > 0 {
			return ex{"*" + vs[g.r.Intn(len(vs))].name, false}
		}
	case n < 25:
		// type assertion on an interface variable
		if vs := g.varsOf(tAny, false); len(vs) > 0 && t.K != KAny {
			return ex{vs[g.r.Intn(len(vs))].name + ".(" + t.String() + ")", false}
		}
	case n < 28:
		// immediately invoked function literal
		if t.K != KFunc {
			ft := &Type{K: KFunc, Results: []*Type{t}}
			return ex{g.funcLit(ft, depth-1) + "()", false}
		}
	case n < 30:
		// parenthesised
		e := g.expr(t, depth-1)
		return ex{"(" + e.s + ")", e.isConst}
	}
	switch {
	case t.isNumeric():
		return g.numExpr(t, depth)
	case t.base().K == KString:
		return g.strExpr(t, depth)
	case t.base().K == KBool:
		return g.boolExpr(t, depth)
	case t.K == KSlice:
		switch g.r.Intn(4) {
		case 0:
			var es []string
			for i := 1 + g.r.Intn(2); i > 0; i-- {
				es = append(es, g.expr(t.Elem, depth-1).s)
			}
			return ex{"append(" + g.expr(t, depth-1).s + ", " + strings.Join(es, ", ") + ")", false}
		case 1:
			if s, ok := g.nonConst(t); ok {
				return ex{fmt.Sprintf("%s[%d:]", s, g.r.Intn(3)), false}
			}
		case 2:
			if t.Elem.K == KUint8 {
				return ex{"[]uint8(" + g.expr(tString, depth-1).s + ")", false}
			}
			if t.Elem.K == KRune {
				return ex{"[]rune(" + g.expr(tString, depth-1).s + ")", false}
			}
		}
	}
	return g.leaf(t, depth)
}

func (g *Gen) callReturning(t *Type, depth int) (string, bool) {
	var cands []function
	for _, f := range g.funcs {
		if len(f.t.Results) == 1 && f.t.Results[0].Equal(t) {
			cands = append(cands, f)
		}
	}
	// function-typed variables
	for _, v := range g.varsWhere(func(v variable) bool {
		return v.t.K == KFunc && len(v.t.Results) == 1 && v.t.Results[0].Equal(t)
	}) {
		cands = append(cands, function{name: v.name, t: v.t})
	}
	if g.lib {
		switch {
		case t.Equal(tInt):
			cands = append(cands, function{name: "lib.F", t: &Type{K: KFunc, Params: []*Type{tInt}, Results: []*Type{tInt}}},
				function{name: "lib.Sum", t: &Type{K: KFunc, Params: []*Type{{K: KSlice, Elem: tInt}}, Results: []*Type{tInt}}, variadic: true})
		case t.Equal(tString):
			cands = append(cands, function{name: "lib.S", t: &Type{K: KFunc, Params: []*Type{tString}, Results: []*Type{tString}}})
		}
	}
	if len(cands) == 0 {
		return "", false
	}
	f := cands[g.r.Intn(len(cands))]
	if strings.HasPrefix(f.name, "lib.") {
		g.libUsed = true
	}
	return f.name + "(" + g.args(f, depth-1) + ")", true
}

func (g *Gen) args(f function, depth int) string {
	var as []string
	for i, p := range f.t.Params {
		if f.variadic && i == len(f.t.Params)-1 {
			if g.chance(30) {
				as = append(as, g.expr(p, depth).s+"...")
			} else {
				for k := g.r.Intn(3); k > 0; k-- {
					as = append(as, g.expr(p.Elem, depth).s)
				}
			}
			continue
		}
		as = append(as, g.expr(p, depth).s)
	}
	return strings.Join(as, ", ")
}

func (g *Gen) elementOf(t *Type, depth int) (string, bool) {
	vs := g.varsWhere(func(v variable) bool {
		switch v.t.K {
		case KSlice, KArray, KMap:
			return v.t.Elem.Equal(t)
		case KString:
			return t.K == KUint8 && !v.isConst
		}
		return false
	})
	if len(vs) == 0 {
		return "", false
	}
	v := vs[g.r.Intn(len(vs))]
	switch v.t.K {
	case KMap:
		return v.name + "[" + g.expr(v.t.Key, depth-1).s + "]", true
	case KArray:
		if s, ok := g.nonConst(tInt); ok && g.chance(50) {
			return v.name + "[" + s + "]", true
		}
		return fmt.Sprintf("%s[%d]", v.name, g.r.Intn(v.t.N)), true
	default:
		if s, ok := g.nonConst(tInt); ok && g.chance(50) {
			return v.name + "[" + s + "]", true
		}
		return fmt.Sprintf("%s[%d]", v.name, g.r.Intn(3)), true
	}
}

func (g *Gen) fieldOf(t *Type) (string, bool) {
	type cand struct{ s string }
	var cands []string
	for _, v := range g.varsWhere(func(v variable) bool {
		return v.t.K == KStruct || v.t.K == KPtr && v.t.Elem.K == KStruct
	}) {
		st := v.t
		if st.K == KPtr {
			st = st.Elem
		}
		for _, f := range st.Fields {
			if f.T.Equal(t) {
				cands = append(cands, v.name+"."+f.Name)
			}
		}
	}
	if len(cands) == 0 {
		return "", false
	}
	return cands[g.r.Intn(len(cands))], true
}

func (g *Gen) numExpr(t *Type, depth int) ex {
	switch n := g.r.Intn(100); {
	case n < 45:
		// binary arithmetic; at most one operand is constant so that nothing
		// can overflow or divide by zero at compile time
		a := g.expr(t, depth-1)
		b := g.expr(t, depth-1)
		ops := []string{"+", "-", "*"}
		if t.isInteger() {
			ops = append(ops, "&", "|", "^", "&^")
		}
		op := g.pick(ops)
		if g.chance(15) && t.base().K != KComplex128 {
			// division or remainder by a non-zero literal
			op = "/"
			if t.isInteger() && g.chance(50) {
				op = "%"
			}
			lit := fmt.Sprint(1 + g.r.Intn(9))
			if t.K == KNamed {
				lit = t.Name + "(" + lit + ")"
			}
			if a.isConst {
				if s, ok := g.nonConst(t); ok {
					a = ex{s, false}
				}
			}
			return ex{"(" + a.s + " " + op + " " + lit + ")", a.isConst}
		}
		if a.isConst && b.isConst {
			if s, ok := g.nonConst(t); ok {
				a = ex{s, false}
			} else {
				return a
			}
		}
		return ex{"(" + a.s + " " + op + " " + b.s + ")", false}
	case n < 55:
		if !t.isUnsigned() {
			a := g.expr(t, depth-1)
			if !a.isConst {
				return ex{"(-" + a.s + ")", false}
			}
			return a
		}
		if t.isInteger() {
			if s, ok := g.nonConst(t); ok {
				return ex{"(^" + s + ")", false}
			}
		}
	case n < 65:
		if t.isInteger() {
			// shift by a small constant or an unsigned variable
			if s, ok := g.nonConst(t); ok {
				cnt := fmt.Sprint(g.r.Intn(4))
				if c, ok := g.nonConst(tUint); ok && g.chance(40) {
					cnt = c
				}
				return ex{"(" + s + " " + g.pick([]string{"<<", ">>"}) + " " + cnt + ")", false}
			}
		}
	case n < 80:
		// conversion from another numeric type (non-constant operand)
		if t.base().K != KComplex128 {
			from := []*Type{tInt, tInt8, tInt64, tUint, tUint8, tUint32, tFloat64, tFloat32, tRune}[g.r.Intn(9)]
			if s, ok := g.nonConst(from); ok {
				return ex{t.String() + "(" + s + ")", false}
			}
		}
	case n < 88:
		if t.Equal(tInt) {
			vs := g.varsWhere(func(v variable) bool {
				switch v.t.K {
				case KSlice, KArray, KMap, KString, KChan:
					return true
				}
				return false
			})
			if len(vs) > 0 {
				v := vs[g.r.Intn(len(vs))]
				fn := "len"
				if (v.t.K == KSlice || v.t.K == KArray || v.t.K == KChan) && g.chance(30) {
					fn = "cap"
				}
				return ex{fn + "(" + v.name + ")", v.isConst || v.t.K == KArray}
			}
		}
		if t.Equal(tFloat64) {
			if s, ok := g.nonConst(tComplex128); ok {
				return ex{g.pick([]string{"real", "imag"}) + "(" + s + ")", false}
			}
		}
		if t.Equal(tComplex128) {
			return ex{"complex(" + g.expr(tFloat64, depth-1).s + ", " + g.expr(tFloat64, depth-1).s + ")", false}
		}
	}
	return g.leaf(t, depth)
}

func (g *Gen) strExpr(t *Type, depth int) ex {
	switch n := g.r.Intn(100); {
	case n < 45:
		a, b := g.expr(t, depth-1), g.expr(t, depth-1)
		return ex{"(" + a.s + " + " + b.s + ")", a.isConst && b.isConst}
	case n < 55:
		if s, ok := g.nonConst(tRune); ok && t.K == KString {
			return ex{"string(" + s + ")", false}
		}
	case n < 65:
		if s, ok := g.nonConst(&Type{K: KSlice, Elem: tUint8}); ok && t.K == KString {
			return ex{"string(" + s + ")", false}
		}
	case n < 75:
		if s, ok := g.nonConst(t); ok {
			return ex{fmt.Sprintf("%s[%d:]", s, g.r.Intn(2)), false}
		}
	case n < 80:
		if vs := g.varsOf(tError, false); len(vs) > 0 && t.K == KString {
			return ex{vs[g.r.Intn(len(vs))].name + ".Error()", false}
		}
	}
	return g.leaf(t, depth)
}

func (g *Gen) boolExpr(t *Type, depth int) ex {
	switch n := g.r.Intn(100); {
	case n < 40:
		// comparison of two operands of one comparable type
		ct := g.basicType()
		if g.chance(25) {
			if vs := g.varsWhere(func(v variable) bool { return v.t.comparable() && v.t.K != KAny && v.t.K != KFunc }); len(vs) > 0 {
				ct = vs[g.r.Intn(len(vs))].t
			}
		}
		ops := []string{"==", "!="}
		if ct.isOrdered() {
			ops = append(ops, "<", "<=", ">", ">=")
		}
		a, b := g.expr(ct, depth-1), g.expr(ct, depth-1)
		if a.isConst && b.isConst {
			// constant comparisons are fine, but keep one side variable when possible
			if s, ok := g.nonConst(ct); ok {
				a = ex{s, false}
			}
		}
		return ex{"(" + a.s + " " + g.pick(ops) + " " + b.s + ")", a.isConst && b.isConst}
	case n < 60:
		a, b := g.expr(t, depth-1), g.expr(t, depth-1)
		return ex{"(" + a.s + " " + g.pick([]string{"&&", "||"}) + " " + b.s + ")", a.isConst && b.isConst}
	case n < 72:
		a := g.expr(t, depth-1)
		return ex{"(!" + a.s + ")", a.isConst}
	case n < 80:
		// nil comparisons
		if vs := g.varsWhere(func(v variable) bool {
			switch v.t.K {
			case KSlice, KMap, KPtr, KFunc, KAny, KError, KChan:
				return true
			}
			return false
		}); len(vs) > 0 {
			return ex{"(" + vs[g.r.Intn(len(vs))].name + " " + g.pick([]string{"==", "!="}) + " nil)", false}
		}
	}
	return g.leaf(t, depth)
}

// ---- statements ----

func (g *Gen) block(n, depth int) {
	g.push()
	g.ind++
	for i := 0; i < n; i++ {
		g.stmt(depth)
	}
	g.ind--
	g.pop()
}

func (g *Gen) use(name string) {
	if g.chance(70) {
		g.emit("_ = %s", name)
	} else {
		g.emit("println(%s)", name)
	}
}

// printable reports whether println accepts a value of the type.
func printable(t *Type) bool {
	switch t.K {
	case KStruct, KArray:
		return false
	}
	return true
}

func (g *Gen) declLocal(depth int) {
	t := g.randType(2)
	n := g.name("v")
	switch g.r.Intn(4) {
	case 0:
		g.emit("var %s %s", n, t)
	case 1:
		g.emit("var %s %s = %s", n, t, g.expr(t, depth).s)
	case 2:
		e := g.expr(t, depth)
		// x := e gives x the default type of e: keep the declared type exact
		g.emit("%s := %s(%s)", n, paren(t), e.s)
	default:
		if t.K == KAny || t.K == KError {
			g.emit("var %s %s = %s", n, t, g.expr(t, depth).s)
		} else {
			g.emit("var %s = %s(%s)", n, paren(t), g.expr(t, depth).s)
		}
	}
	g.declare(variable{name: n, t: t, assignable: true})
	if printable(t) {
		g.use(n)
	} else {
		g.emit("_ = %s", n)
	}
}

// paren returns the type in a form usable as conversion operator.
func paren(t *Type) string {
	switch t.K {
	case KPtr, KFunc, KChan:
		return "(" + t.String() + ")"
	}
	if s := t.String(); strings.Contains(s, "func") {
		return "(" + s + ")"
	}
	return t.String()
}

func (g *Gen) assignStmt(depth int) bool {
	vs := g.varsWhere(func(v variable) bool { return v.assignable })
	if len(vs) == 0 {
		return false
	}
	v := vs[g.r.Intn(len(vs))]
	switch n := g.r.Intn(100); {
	case n < 40:
		g.emit("%s = %s", v.name, g.expr(v.t, depth).s)
	case n < 55:
		if v.t.isNumeric() {
			ops := []string{"+=", "-=", "*="}
			if v.t.isInteger() {
				ops = append(ops, "&=", "|=", "^=", "<<=", ">>=")
			}
			op := g.pick(ops)
			rhs := g.expr(v.t, depth).s
			if op == "<<=" || op == ">>=" {
				rhs = fmt.Sprint(g.r.Intn(4))
			}
			g.emit("%s %s %s", v.name, op, rhs)
		} else if v.t.base().K == KString {
			g.emit("%s += %s", v.name, g.expr(v.t, depth).s)
		} else {
			g.emit("%s = %s", v.name, g.expr(v.t, depth).s)
		}
	case n < 65:
		if v.t.isNumeric() {
			g.emit("%s%s", v.name, g.pick([]string{"++", "--"}))
		} else {
			g.emit("%s = %s", v.name, g.expr(v.t, depth).s)
		}
	case n < 75:
		// swap with another variable of the same type
		ws := g.varsOf(v.t, true)
		w := ws[g.r.Intn(len(ws))]
		g.emit("%s, %s = %s, %s", v.name, w.name, w.name, v.name)
	case n < 87:
		// element / field / pointee assignment
		switch v.t.K {
		case KSlice:
			g.emit("%s[%d] = %s", v.name, g.r.Intn(3), g.expr(v.t.Elem, depth).s)
		case KArray:
			g.emit("%s[%d] = %s", v.name, g.r.Intn(v.t.N), g.expr(v.t.Elem, depth).s)
		case KMap:
			g.emit("%s[%s] = %s", v.name, g.expr(v.t.Key, depth-1).s, g.expr(v.t.Elem, depth).s)
		case KStruct:
			if len(v.t.Fields) > 0 {
				f := v.t.Fields[g.r.Intn(len(v.t.Fields))]
				g.emit("%s.%s = %s", v.name, f.Name, g.expr(f.T, depth).s)
				break
			}
			fallthrough
		case KPtr:
			if v.t.K == KPtr {
				g.emit("*%s = %s", v.name, g.expr(v.t.Elem, depth).s)
				break
			}
			fallthrough
		default:
			g.emit("%s = %s", v.name, g.expr(v.t, depth).s)
		}
	default:
		g.emit("%s, _ = %s, %s", v.name, g.expr(v.t, depth).s, g.expr(g.basicType(), depth-1).s)
	}
	return true
}

func (g *Gen) stmt(depth int) {
	if depth <= 0 {
		if !g.chance(50) || !g.assignStmt(1) {
			g.declLocal(1)
		}
		return
	}
	switch n := g.r.Intn(100); {
	case n < 17:
		g.declLocal(g.opt.Depth)
	case n < 20:
		g.redeclStmt()
	case n < 22:
		g.shadowStmt()
	case n < 40:
		if !g.assignStmt(g.opt.Depth) {
			g.declLocal(g.opt.Depth)
		}
	case n < 50:
		g.ifStmt(depth)
	case n < 60:
		g.forStmt(depth)
	case n < 68:
		g.switchStmt(depth)
	case n < 76:
		g.callStmt(depth)
	case n < 80:
		g.multiValue(depth)
	case n < 83:
		g.emit("{")
		g.block(1+g.r.Intn(2), depth-1)
		g.emit("}")
	case n < 86:
		if g.loops > 0 {
			kw := g.pick([]string{"break", "continue"})
			if len(g.labels) > 0 && g.chance(40) && !(kw == "continue" && g.opt.NoLabelledContinue) {
				kw += " " + g.labels[g.r.Intn(len(g.labels))]
			}
			g.emit("if %s {", g.expr(tBool, 1).s)
			g.emit("\t%s", kw)
			g.emit("}")
		} else {
			g.declLocal(g.opt.Depth)
		}
	case n < 89:
		g.deferStmt(depth)
	case n < 92:
		g.constDecl()
	case n < 94:
		g.chanStmt(depth)
	case n < 96:
		if g.inFunc && g.chance(50) {
			g.emit("if %s {", g.expr(tBool, 2).s)
			g.ind++
			g.emitReturn(2)
			g.ind--
			g.emit("}")
		} else {
			g.emit("if %s {", g.expr(tBool, 2).s)
			g.emit("\tpanic(%s)", g.expr(g.basicType(), 1).s)
			g.emit("}")
		}
	default:
		// closure assigned to a variable and called
		ft := &Type{K: KFunc}
		for i := g.r.Intn(3); i > 0; i-- {
			ft.Params = append(ft.Params, g.basicType())
		}
		n := g.name("fn")
		g.emit("%s := %s", n, g.funcLit(ft, depth-1))
		g.declare(variable{name: n, t: ft, assignable: true})
		g.emit("%s(%s)", n, g.args(function{name: n, t: ft}, 1))
	}
}

// redeclStmt declares two variables, then redeclares the second one together
// with a new variable in a multi-variable :=, and reads each of them in a
// statement of its own (so that removing one read leaves a variable that is
// assigned twice but never used).
func (g *Gen) redeclStmt() {
	t1, t2, t3 := g.basicType(), g.basicType(), g.basicType()
	a, b, c := g.name("v"), g.name("v"), g.name("v")
	e1, e2, e3, e4 := g.expr(t1, 1).s, g.expr(t2, 1).s, g.expr(t3, 1).s, g.expr(t2, 1).s
	g.emit("%s, %s := %s(%s), %s(%s)", a, b, paren(t1), e1, paren(t2), e2)
	g.emit("_ = %s", a)
	if g.chance(50) {
		g.emit("%s, %s := %s(%s), %s(%s)", c, b, paren(t3), e3, paren(t2), e4)
	} else {
		g.emit("%s, %s := %s(%s), %s(%s)", b, c, paren(t2), e4, paren(t3), e3)
	}
	g.emit("_ = %s", c)
	g.emit("_ = %s", b)
	g.declare(variable{name: a, t: t1, assignable: true})
	g.declare(variable{name: b, t: t2, assignable: true})
	g.declare(variable{name: c, t: t3, assignable: true})
}

// shadowStmt emits a well-typed block in which an inner defined type shadows
// an outer one of the same name and underlying type, both used in the same
// composite type position.
func (g *Gen) shadowStmt() {
	g.n++
	u := g.pick([]string{"int", "string", "struct{ x int }", "[]int", "float64"})
	pos := typePositions[g.r.Intn(len(typePositions))]
	if strings.Contains(pos, "map[T]") && u == "[]int" {
		u = "int" // a slice type is not a valid map key
	}
	rel := g.pick([]string{"use-both", "call-inner", "interface"})
	g.emit("%s", ShadowBlock(g.n, u, pos, rel))
}

func (g *Gen) ifStmt(depth int) {
	if g.chance(25) {
		t := g.basicType()
		n := g.name("v")
		g.push()
		g.emit("if %s := %s(%s); %s {", n, paren(t), g.expr(t, 2).s, func() string {
			g.declare(variable{name: n, t: t, assignable: true})
			ct := t
			if ct.comparable() {
				return "(" + n + " == " + g.expr(ct, 1).s + ")"
			}
			return g.expr(tBool, 2).s
		}())
		g.block(1+g.r.Intn(2), depth-1)
		g.pop()
	} else {
		g.emit("if %s {", g.expr(tBool, g.opt.Depth).s)
		g.block(1+g.r.Intn(2), depth-1)
	}
	for g.chance(25) {
		g.emit("} else if %s {", g.expr(tBool, 2).s)
		g.block(1, depth-1)
	}
	if g.chance(40) {
		g.emit("} else {")
		g.block(1+g.r.Intn(2), depth-1)
	}
	g.emit("}")
}

func (g *Gen) forStmt(depth int) {
	label := ""
	if g.chance(25) {
		label = g.name("L")
	}
	head := ""
	var rangeVars []string
	isRange := false
	g.push()
	switch n := g.r.Intn(100); {
	case n < 35:
		i := g.name("i")
		g.declare(variable{name: i, t: tInt, assignable: true})
		head = fmt.Sprintf("for %s := 0; %s < %d; %s++ {", i, i, 1+g.r.Intn(4), i)
	case n < 45:
		head = "for " + g.expr(tBool, 2).s + " {"
	case n < 80:
		// range over a slice, array, string, map or channel variable
		vs := g.varsWhere(func(v variable) bool {
			switch v.t.K {
			case KSlice, KArray, KMap, KString:
				return true
			}
			return false
		})
		if len(vs) == 0 {
			head = "for {"
			break
		}
		v := vs[g.r.Intn(len(vs))]
		isRange = true
		var kt, et *Type
		switch v.t.K {
		case KSlice, KArray:
			kt, et = tInt, v.t.Elem
		case KMap:
			kt, et = v.t.Key, v.t.Elem
		case KString:
			kt, et = tInt, tRune
		}
		switch g.r.Intn(4) {
		case 0:
			head = "for range " + v.name + " {"
		case 1:
			k := g.name("k")
			g.declare(variable{name: k, t: kt, assignable: true})
			head = fmt.Sprintf("for %s := range %s {", k, v.name)
			rangeVars = []string{k}
		case 2:
			e := g.name("e")
			g.declare(variable{name: e, t: et, assignable: true})
			head = fmt.Sprintf("for _, %s := range %s {", e, v.name)
			rangeVars = []string{e}
		default:
			k, e := g.name("k"), g.name("e")
			g.declare(variable{name: k, t: kt, assignable: true})
			g.declare(variable{name: e, t: et, assignable: true})
			head = fmt.Sprintf("for %s, %s := range %s {", k, e, v.name)
			rangeVars = []string{k, e}
		}
	default:
		head = "for {"
	}
	savedLabels := g.labels
	if isRange && g.opt.NoLabelledContinue {
		// no labelled branch may have this loop as innermost enclosing statement
		label = ""
		g.labels = nil
	}
	if label != "" {
		g.emit("%s:", label)
		g.labels = append(g.labels, label)
	}
	g.emit("%s", head)
	for _, rv := range rangeVars {
		g.emit("\t_ = %s", rv)
	}
	g.loops++
	g.block(1+g.r.Intn(3), depth-1)
	if label != "" {
		// make sure the label is used
		g.emit("\tbreak %s", label)
	} else if head == "for {" {
		g.emit("\tbreak")
	}
	g.labels = savedLabels
	g.loops--
	g.emit("}")
	g.pop()
}

func (g *Gen) switchStmt(depth int) {
	switch n := g.r.Intn(100); {
	case n < 45:
		t := []*Type{tInt, tString, tRune, tUint8, tInt64}[g.r.Intn(5)]
		tag := g.expr(t, 2)
		if tag.isConst {
			if s, ok := g.nonConst(t); ok {
				tag = ex{s, false}
			}
		}
		g.emit("switch %s {", tag.s)
		keys := g.distinctKeys(t, 1+g.r.Intn(3))
		for i, k := range keys {
			g.emit("case %s:", k)
			g.block(1, depth-1)
			if i < len(keys)-1 && g.chance(20) {
				g.emit("\tfallthrough")
			}
		}
		if g.chance(50) {
			g.emit("default:")
			g.block(1, depth-1)
		}
		g.emit("}")
	case n < 70:
		g.emit("switch {")
		for i := 1 + g.r.Intn(3); i > 0; i-- {
			g.emit("case %s:", g.expr(tBool, 2).s)
			g.block(1, depth-1)
		}
		if g.chance(50) {
			g.emit("default:")
			g.block(1, depth-1)
		}
		g.emit("}")
	default:
		vs := g.varsOf(tAny, false)
		if len(vs) == 0 {
			x := g.name("v")
			g.emit("var %s interface{} = %s", x, g.expr(g.basicType(), 2).s)
			g.declare(variable{name: x, t: tAny, assignable: true})
			vs = g.varsOf(tAny, false)
		}
		v := vs[g.r.Intn(len(vs))]
		bind := g.chance(60)
		y := g.name("y")
		if bind {
			g.emit("switch %s := %s.(type) {", y, v.name)
		} else {
			g.emit("switch %s.(type) {", v.name)
		}
		types := []*Type{tInt, tString, tBool, tFloat64, {K: KSlice, Elem: tInt}, tError, tUint8}
		g.r.Shuffle(len(types), func(i, j int) { types[i], types[j] = types[j], types[i] })
		for _, ct := range types[:1+g.r.Intn(3)] {
			g.emit("case %s:", ct)
			g.push()
			if bind {
				g.declare(variable{name: y, t: ct, assignable: true})
				g.emit("\t_ = %s", y)
			}
			g.block(1, depth-1)
			g.pop()
		}
		if g.chance(30) {
			g.emit("case nil:")
			if bind {
				g.emit("\t_ = %s", y)
			}
		}
		g.emit("default:")
		if bind {
			g.emit("\t_ = %s", y)
		}
		g.emit("}")
	}
}

func (g *Gen) callStmt(depth int) {
	switch n := g.r.Intn(100); {
	case n < 35:
		var as []string
		for i := 1 + g.r.Intn(3); i > 0; i-- {
			t := g.basicType()
			as = append(as, g.expr(t, 2).s)
		}
		g.emit("%s(%s)", g.pick([]string{"println", "print"}), strings.Join(as, ", "))
	case n < 80:
		if len(g.funcs) > 0 {
			f := g.funcs[g.r.Intn(len(g.funcs))]
			g.emit("%s(%s)", f.name, g.args(f, 2))
			return
		}
		fallthrough
	default:
		// builtins with side effects
		if vs := g.varsWhere(func(v variable) bool { return v.t.K == KMap }); len(vs) > 0 && g.chance(50) {
			v := vs[g.r.Intn(len(vs))]
			g.emit("delete(%s, %s)", v.name, g.expr(v.t.Key, 1).s)
			return
		}
		if vs := g.varsWhere(func(v variable) bool { return v.t.K == KSlice && v.assignable }); len(vs) > 0 {
			v := vs[g.r.Intn(len(vs))]
			g.emit("copy(%s, %s)", v.name, g.expr(v.t, 1).s)
			return
		}
		g.emit("println(%s)", g.expr(tInt, 2).s)
	}
}

func (g *Gen) multiValue(depth int) {
	switch n := g.r.Intn(100); {
	case n < 30:
		// comma-ok map index
		if vs := g.varsWhere(func(v variable) bool { return v.t.K == KMap }); len(vs) > 0 {
			v := vs[g.r.Intn(len(vs))]
			a, ok := g.name("v"), g.name("ok")
			g.emit("%s, %s := %s[%s]", a, ok, v.name, g.expr(v.t.Key, 1).s)
			g.declare(variable{name: a, t: v.t.Elem, assignable: true})
			g.declare(variable{name: ok, t: tBool, assignable: true})
			g.emit("_, _ = %s, %s", a, ok)
			return
		}
		fallthrough
	case n < 55:
		// comma-ok type assertion
		if vs := g.varsOf(tAny, false); len(vs) > 0 {
			v := vs[g.r.Intn(len(vs))]
			t := g.basicType()
			a, ok := g.name("v"), g.name("ok")
			g.emit("%s, %s := %s.(%s)", a, ok, v.name, t)
			g.declare(variable{name: a, t: t, assignable: true})
			g.declare(variable{name: ok, t: tBool, assignable: true})
			g.emit("_, _ = %s, %s", a, ok)
			return
		}
		fallthrough
	default:
		// call of a function with several results
		var cands []function
		for _, f := range g.funcs {
			if len(f.t.Results) >= 2 {
				cands = append(cands, f)
			}
		}
		if g.lib {
			cands = append(cands, function{name: "lib.P", t: &Type{K: KFunc, Params: []*Type{tInt, tString}, Results: []*Type{tInt, tError}}})
		}
		if len(cands) == 0 {
			g.declLocal(g.opt.Depth)
			return
		}
		f := cands[g.r.Intn(len(cands))]
		if strings.HasPrefix(f.name, "lib.") {
			g.libUsed = true
		}
		var names []string
		for _, rt := range f.t.Results {
			n := g.name("r")
			names = append(names, n)
			defer func(n string, rt *Type) { g.declare(variable{name: n, t: rt, assignable: true}) }(n, rt)
		}
		g.emit("%s := %s(%s)", strings.Join(names, ", "), f.name, g.args(f, 2))
		g.emit("%s = %s", strings.Repeat("_, ", len(names)-1)+"_", strings.Join(names, ", "))
	}
}

func (g *Gen) deferStmt(depth int) {
	switch g.r.Intn(3) {
	case 0:
		g.emit("defer func() {")
		g.emit("\tif r := recover(); r != nil {")
		g.emit("\t\tprintln(%s)", g.expr(tString, 1).s)
		g.emit("\t}")
		g.emit("}()")
	case 1:
		if len(g.funcs) > 0 {
			f := g.funcs[g.r.Intn(len(g.funcs))]
			g.emit("defer %s(%s)", f.name, g.args(f, 1))
			return
		}
		fallthrough
	default:
		g.emit("defer println(%s)", g.expr(g.basicType(), 2).s)
	}
}

func (g *Gen) constDecl() {
	n := g.name("c")
	switch g.r.Intn(4) {
	case 0:
		g.emit("const %s = %d", n, g.r.Intn(100))
		g.declare(variable{name: n, t: tInt, isConst: true})
		// an untyped constant is only used where an int is wanted; record it as int
	case 1:
		g.emit("const %s string = %s", n, g.pick([]string{`"c"`, `"cd"`}))
		g.declare(variable{name: n, t: tString, isConst: true})
	case 2:
		t := []*Type{tInt8, tUint8, tInt64, tFloat64, tUint}[g.r.Intn(5)]
		g.emit("const %s %s = %d", n, t, g.r.Intn(10))
		g.declare(variable{name: n, t: t, isConst: true})
	default:
		m := g.name("c")
		g.emit("const (")
		g.emit("\t%s = iota", n)
		g.emit("\t%s", m)
		g.emit(")")
		g.declare(variable{name: n, t: tInt, isConst: true})
		g.declare(variable{name: m, t: tInt, isConst: true})
		g.emit("_ = %s", m)
	}
	g.emit("_ = %s", n)
}

func (g *Gen) chanStmt(depth int) {
	vs := g.varsWhere(func(v variable) bool { return v.t.K == KChan })
	if len(vs) == 0 {
		t := &Type{K: KChan, Elem: g.basicType()}
		n := g.name("ch")
		g.emit("%s := make(%s, 1)", n, t)
		g.declare(variable{name: n, t: t, assignable: true})
		vs = append(vs, variable{name: n, t: t})
	}
	v := vs[g.r.Intn(len(vs))]
	switch g.r.Intn(5) {
	case 0:
		g.emit("%s <- %s", v.name, g.expr(v.t.Elem, 2).s)
	case 1:
		x, ok := g.name("v"), g.name("ok")
		g.emit("%s, %s := <-%s", x, ok, v.name)
		g.declare(variable{name: x, t: v.t.Elem, assignable: true})
		g.declare(variable{name: ok, t: tBool, assignable: true})
		g.emit("_, _ = %s, %s", x, ok)
	case 2:
		g.emit("select {")
		x := g.name("v")
		g.emit("case %s := <-%s:", x, v.name)
		g.emit("\t_ = %s", x)
		g.emit("case %s <- %s:", v.name, g.expr(v.t.Elem, 1).s)
		g.emit("default:")
		g.emit("}")
	case 3:
		g.emit("go func() {")
		g.emit("\t%s <- %s", v.name, g.expr(v.t.Elem, 1).s)
		g.emit("}()")
	default:
		g.emit("close(%s)", v.name)
	}
}

func (g *Gen) emitReturn(depth int) {
	if len(g.results) == 0 {
		if g.chance(30) {
			g.emit("return")
		}
		return
	}
	var es []string
	for _, rt := range g.results {
		es = append(es, g.expr(rt, depth).s)
	}
	g.emit("return %s", strings.Join(es, ", "))
}

// ---- program ----

func (g *Gen) program() string {
	g.push() // package scope
	var head []string
	// named types and structs
	for i := g.r.Intn(3); i > 0; i-- {
		nt := &Type{K: KNamed, Name: g.name("N"), Under: []*Type{tInt, tString, tFloat64, tUint8, tBool}[g.r.Intn(5)]}
		g.named = append(g.named, nt)
		g.emit("type %s %s", nt.Name, nt.Under)
	}
	for i := 1 + g.r.Intn(3); i > 0; i-- {
		st := &Type{K: KStruct, Name: g.name("S")}
		for k := g.r.Intn(4); k > 0; k-- {
			st.Fields = append(st.Fields, Field{Name: g.name("f"), T: g.randType(2)})
		}
		g.emit("type %s struct {", st.Name)
		for _, f := range st.Fields {
			g.emit("\t%s %s", f.Name, f.T)
		}
		g.emit("}")
		g.structs = append(g.structs, st)
	}
	g.emit("")
	// package-level constants and variables (initialisers use literals only: no initialisation cycles)
	for i := 1 + g.r.Intn(3); i > 0; i-- {
		g.constDeclTop()
	}
	for i := 1 + g.r.Intn(4); i > 0; i-- {
		t := g.randType(2)
		n := g.name("g")
		saved := g.scopes
		g.scopes = [][]variable{nil} // initialisers must not refer to other globals
		savedFuncs := g.funcs
		g.funcs = nil
		savedLib := g.lib
		g.lib = false
		init := g.literal(t, 1).s
		g.scopes, g.funcs, g.lib = saved, savedFuncs, savedLib
		if g.chance(30) {
			g.emit("var %s %s", n, t)
		} else {
			g.emit("var %s %s = %s", n, t, init)
		}
		g.declare(variable{name: n, t: t, assignable: true})
	}
	g.emit("")
	// functions
	for i := 0; i < g.opt.Funcs; i++ {
		g.funcDecl()
	}
	// main
	g.emit("func main() {")
	g.results = nil
	g.inFunc = false
	if g.lib {
		g.ind++
		g.emit("_ = lib.K")
		g.ind--
	}
	g.block(g.opt.Stmts, 2)
	g.emit("}")
	g.pop()
	body := g.lines
	head = append(head, "package main", "")
	if g.lib {
		head = append(head, `import "lib"`, "")
	}
	return strings.Join(append(head, body...), "\n") + "\n"
}

func (g *Gen) constDeclTop() {
	n := g.name("K")
	switch g.r.Intn(3) {
	case 0:
		g.emit("const %s int = %d", n, g.r.Intn(50))
		g.declare(variable{name: n, t: tInt, isConst: true})
	case 1:
		g.emit("const %s string = %s", n, g.pick([]string{`"k"`, `"kk"`}))
		g.declare(variable{name: n, t: tString, isConst: true})
	default:
		g.emit("const %s float64 = %s", n, g.pick([]string{"1.5", "2", "0.25"}))
		g.declare(variable{name: n, t: tFloat64, isConst: true})
	}
}

func (g *Gen) funcDecl() {
	ft := &Type{K: KFunc}
	name := g.name("fun")
	g.push()
	var ps []string
	np := g.r.Intn(4)
	variadic := false
	for i := 0; i < np; i++ {
		pt := g.randType(1)
		pn := g.name("a")
		if i == np-1 && g.chance(25) {
			variadic = true
			ps = append(ps, pn+" ..."+pt.String())
			pt = &Type{K: KSlice, Elem: pt}
		} else {
			ps = append(ps, pn+" "+pt.String())
		}
		ft.Params = append(ft.Params, pt)
		g.declare(variable{name: pn, t: pt, assignable: true})
	}
	named := g.chance(20)
	var rs []string
	for i := g.r.Intn(3); i > 0; i-- {
		rt := g.randType(1)
		ft.Results = append(ft.Results, rt)
		if named {
			rn := g.name("res")
			rs = append(rs, rn+" "+rt.String())
			g.declare(variable{name: rn, t: rt, assignable: true})
		} else {
			rs = append(rs, rt.String())
		}
	}
	res := ""
	switch {
	case len(rs) == 1 && !named:
		res = " " + rs[0]
	case len(rs) > 0:
		res = " (" + strings.Join(rs, ", ") + ")"
	}
	g.emit("func %s(%s)%s {", name, strings.Join(ps, ", "), res)
	g.results = ft.Results
	g.inFunc = true
	g.loops, g.labels = 0, nil
	g.push()
	g.ind++
	for i := 0; i < g.opt.Stmts; i++ {
		g.stmt(2)
	}
	if len(ft.Results) > 0 {
		if named && g.chance(50) {
			g.emit("return")
		} else {
			g.emitReturn(g.opt.Depth)
		}
	}
	g.ind--
	g.pop()
	g.emit("}")
	g.emit("")
	g.pop()
	g.inFunc = false
	g.results = nil
	// declared after its body: no recursion, hence no unbounded call chains in initialisers
	g.funcs = append(g.funcs, function{name: name, t: ft, variadic: variadic})
}
