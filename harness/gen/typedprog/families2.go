package typedprog

import (
	"fmt"
	"strings"
)

func init() {
	Snippets = append(Snippets, terminatingSnippets()...)
	Snippets = append(Snippets, indexBoundSnippets()...)
	Snippets = append(Snippets, compositeLiteralSnippets()...)
}

// finalStatements are statement lists put at the end of a function with a
// result: every statement kind, every loop, switch and select form with and
// without break, labels, nested blocks. Whether the function then needs a
// return is decided by the reference.
var finalStatements = []string{
	"println(x)", "print(x)", "ch <- 1", "<-ch", "_ = <-ch", "type T int", "const c = 1", "var v int; _ = v", "x = 1", "x++", "_ = x", "x, y := 1, 2; _, _ = x, y",
	"{ }", "{ return 1 }", "{ { return 1 } }", "{ return 1; x++ }", ";", "L1: ;", "L1: x++; goto L1", "L1: return 1; goto L1", "goto L1; L1:", "goto L1; L1: return 1",
	"for { }", "for { break }", "for ; ; { }", "for i := 0; ; i++ { }", "for x > 0 { return 1 }", "for i := 0; i < 1; i++ { return 1 }", "for true { }",
	"for range xs { return 1 }", "for _, v := range xs { return v }", "for k := range m { return k }", "for range ch { return 1 }", "for range \"ab\" { panic(1) }",
	"for { if x > 0 { break } }", "for { switch { case true: break } }", "for { select { default: break } }", "for { for { break } }", "for { func() { for { break } }() }",
	"L1: for { }", "L1: for { break L1 }", "L1: for { for { break L1 } }", "L1: for { for { break } }", "L1: for { switch { case true: break L1 } }", "L1: for { select { default: break L1 } }", "L1: for { continue L1 }",
	"if x > 0 { return 1 }", "if x > 0 { return 1 } else { return 2 }", "if x > 0 { return 1 } else if x < 0 { return 2 }", "if x > 0 { return 1 } else if x < 0 { return 2 } else { panic(3) }", "if x > 0 { return 1 } else { x++ }", "if x > 0 { } else { return 2 }", "if true { return 1 }",
	"switch x { case 1: return 1; default: return 2 }", "switch x { case 1: return 1 }", "switch x { case 1: return 1; default: }", "switch x { case 1: return 1; default: break }", "switch x { case 1: fallthrough; default: return 2 }", "switch { default: return 1 }", "switch { case true: return 1 }",
	"switch x { case 1: return 1; default: if x > 0 { break }; return 2 }", "switch x { case 1: return 1; default: for { break }; return 2 }", "L1: switch x { default: for { break L1 } }", "L1: switch x { default: for { break } }", "switch x { default: return 1; case 2: panic(2) }",
	"switch v := interface{}(x).(type) { case int: return v; default: return 2 }", "switch interface{}(x).(type) { case int: return 1 }", "switch interface{}(x).(type) { default: return 1; case int: break }",
	"select { }", "select { case <-ch: return 1 }", "select { case <-ch: return 1; default: return 2 }", "select { case <-ch: return 1; default: }", "select { case <-ch: break; default: return 2 }", "select { case ch <- 1: return 1; case v := <-ch: return v }", "L1: select { case <-ch: for { break L1 } }",
	"go println(x)", "defer println(x)", "defer func() { recover() }()", "panic(x)", "panic(\"s\")", "return x", "return", "func() { return }()", "_ = func() int { return 1 }()", "func() { panic(1) }()",
	"f2 := func() int { return 1 }; f2()", "var e error; _ = e", "xs = append(xs, 1)", "delete(m, 1)", "close(ch)", "copy(xs, xs)", "recover()", "new(int)", "x == 1", "*new(int) = 1",
}

var terminatingPrefixes = []string{"", "return 1; ", "panic(1); ", "for { }; ", "if x > 0 { return 1 } else { return 2 }; ", "x++; ", "switch { default: return 3 }; ", "select { }; ", "goto L0; L0: return 4; "}

func terminatingSnippets() []string {
	var out []string
	for _, p := range terminatingPrefixes {
		for _, f := range finalStatements {
			out = append(out, "{ f := func(x int, ch chan int, xs []int, m map[int]int) int { "+p+f+" }; _ = f }")
		}
	}
	return out
}

// indexBoundSnippets index and slice arrays, pointers to arrays, slices,
// strings and constant strings with constants at and around the length.
func indexBoundSnippets() []string {
	type operand struct {
		decl    string
		name    string
		isStr   bool
		canSet  bool
		isConst bool
	}
	ops := []operand{
		{"var a [3]int", "a", false, true, false},
		{"var a [3]int; p := &a", "p", false, true, false},
		{"a := []int{1, 2, 3}", "a", false, true, false},
		{"a := \"abc\"", "a", true, false, false},
		{"const a = \"abc\"", "a", true, false, true},
		{"var a [0]int", "a", false, true, false},
		{"type A [3]int; var a A", "a", false, true, false},
		{"a := [...]string{\"x\", \"y\", \"z\"}", "a", false, true, false},
		{"f := func() [3]int { return [3]int{} }; a := f", "a()", false, false, false},
	}
	idx := []string{"-1", "0", "2", "3", "4", "2.0", "3.0", "2.5", "1<<62", "1<<64", "int8(3)", "uint(3)", "len(a)", "len(a)-1", "len(a)+1", "i"}
	var out []string
	for _, o := range ops {
		pre := "{ i := 1; _ = i; " + o.decl + "; "
		use := "; _ = " + strings.TrimSuffix(o.name, "()")
		if strings.HasSuffix(o.name, "()") {
			idx2 := []string{"-1", "0", "2", "3", "4", "i"}
			for _, i := range idx2 {
				out = append(out, pre+"_ = "+o.name+"["+i+"]"+use+" }")
			}
			out = append(out, pre+"_ = "+o.name+"[1:2]"+use+" }")
			continue
		}
		for _, i := range idx {
			if strings.Contains(i, "len(a)") && o.name == "p" {
				i = strings.ReplaceAll(i, "len(a)", "len(p)")
			}
			out = append(out, pre+"_ = "+o.name+"["+i+"]"+use+" }")
			out = append(out, pre+"_ = "+o.name+"["+i+":]"+use+" }")
			out = append(out, pre+"_ = "+o.name+"[:"+i+"]"+use+" }")
			if o.canSet {
				out = append(out, pre+o.name+"["+i+"] = 0"+use+" }")
			}
		}
		for _, pr := range [][2]string{{"1", "3"}, {"1", "4"}, {"3", "3"}, {"4", "4"}, {"2", "1"}, {"0", "0"}, {"i", "4"}, {"3", "i"}, {"4", "i"}} {
			out = append(out, pre+"_ = "+o.name+"["+pr[0]+":"+pr[1]+"]"+use+" }")
		}
		if !o.isStr {
			for _, tr := range [][3]string{{"0", "3", "3"}, {"0", "3", "4"}, {"1", "0", "3"}, {"0", "4", "4"}, {"", "2", "3"}, {"0", "2", "1"}, {"0", "", "3"}, {"i", "3", "4"}} {
				out = append(out, pre+"_ = "+o.name+"["+tr[0]+":"+tr[1]+":"+tr[2]+"]"+use+" }")
			}
		}
	}
	return out
}

// compositeLiteralSnippets mix keyed and unkeyed elements in array and slice
// literals: duplicate, descending, negative, fractional, non-constant and
// out-of-range indexes.
func compositeLiteralSnippets() []string {
	pieces := []string{"7", "0: 7", "1: 7", "2: 7", "3: 7", "-1: 7", "1.0: 7", "1.5: 7", "'\\x01': 7", "i: 7", "c1: 7", "1 + 1: 7", "uint8(1): 7", "\"a\": 7"}
	types := []string{"[]int", "[3]int", "[...]int", "[2]int"}
	var out []string
	for _, t := range types {
		for ai, a := range pieces {
			for bi, b := range pieces {
				out = append(out, fmt.Sprintf("{ i := 1; _ = i; const c1 = 1; _ = %s{%s, %s} }", t, a, b))
				if ai < 5 && bi < 5 {
					for _, c := range pieces[:6] {
						out = append(out, fmt.Sprintf("{ i := 1; _ = i; const c1 = 1; _ = %s{%s, %s, %s} }", t, a, b, c))
					}
				}
			}
		}
	}
	return out
}

// DependencyPrograms are whole programs in which a package-level variable is
// initialised by a function whose body mentions the variable (or a local
// entity of the same name) inside every kind of statement, directly and through
// a second function or variable: initialisation cycles must be reported, and
// shadowed names must not be taken for the package-level one.
func DependencyPrograms() []string {
	stmts := []string{
		"_ = a", "{ _ = a }", "L: for { _ = a; break L }", "L: _ = a; goto M; M: ; if false { goto L }", "goto L; L: _ = a", "if a > 0 { }", "if x := a; x > 0 { }", "for a > 0 { }", "for i := a; i < 1; i++ { }", "for i := 0; i < 1; i += a { }",
		"for range [1]int{a} { }", "for _, v := range []int{1} { _ = v + a }", "switch a { }", "switch x := a; x { }", "switch { case a > 0: }", "switch 1 { case a: }", "switch interface{}(a).(type) { }", "switch v := interface{}(1).(type) { case int: _ = v + a }",
		"ch := make(chan int, 1); select { case ch <- a: default: }", "ch := make(chan int, 1); select { case <-ch: _ = a; default: }", "ch := make(chan int, 1); ch <- a", "defer println(a)", "go println(a)", "defer func() { _ = a }()",
		"func() { _ = a }()", "g := func() int { return a }; _ = g", "x := []int{a}; _ = x", "x := map[int]int{a: 1}; _ = x", "x := map[int]int{1: a}; _ = x", "var x = a; _ = x", "var x, y = 1, a; _, _ = x, y", "x := struct{ f int }{a}; _ = x", "x := struct{ f int }{f: a}; _ = x",
		"type T [1]int; _ = T{a}", "_ = len([]int{a})", "a++", "a = 1", "a += 1", "p := &a; _ = p", "_ = [1]int{}[a]", "_ = []int{1}[a:]", "_ = interface{}(a).(int)", "_ = -a", "_ = a == 1 && true", "println(a)", "panic(a)", "const c = 1; _ = c + a",
		// shadowing: no cycle
		"a := 1; _ = a", "var a int; _ = a", "const a = 1; _ = a", "for a := 0; a < 1; a++ { }", "func(a int) { _ = a }(1)", "type a int; var v a; _ = v", "a: for { break a }", "for a := range []int{1} { _ = a }", "if a := 1; a > 0 { }", "switch a := 1; a { }",
		"switch a := interface{}(1).(type) { case int: _ = a }", "ch := make(chan int, 1); select { case a := <-ch: _ = a; default: }", "x := struct{ a int }{a: 1}; _ = x.a", "var a, b = 1, 2; _, _ = a, b", "a, b := 1, 2; _, _ = a, b", "{ a := 1; _ = a }; x := 0; _ = x",
		"{ a := 1; _ = a }; _ = a", "a := a; _ = a", "var a = a; _ = a", "const c = len([1]int{}); _ = c",
	}
	var out []string
	for _, s := range stmts {
		out = append(out, "package main\n\nvar a = f()\n\nfunc f() int {\n\t"+s+"\n\treturn 0\n}\n\nfunc main() { _ = a }\n")
		out = append(out, "package main\n\nvar b = a\nvar a = f()\n\nfunc f() int { return g() }\n\nfunc g() int {\n\t"+s+"\n\treturn b\n}\n\nfunc main() { _ = b }\n")
		out = append(out, "package main\n\nfunc main() { _ = a }\n\nfunc g() int {\n\t"+s+"\n\treturn 0\n}\n\nvar a = h\n\nvar h = g()\n")
		out = append(out, "package main\n\nvar a = 1\nvar c = f()\n\nfunc f() int {\n\t"+s+"\n\treturn 0\n}\n\nfunc main() { _, _ = a, c }\n")
	}
	return out
}
