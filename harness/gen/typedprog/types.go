// Package typedprog generates random well-typed Go programs inside the subset
// of Go that scriggo implements: no method declarations, no interface types
// with methods, no generics, no unsafe, no range-over-int/func, no min/max/clear.
// The only import a program may use is the tiny native package "lib" that the
// harness supplies to both scriggo and go/types.
//
// Programs are generated type-directed, so they type check by construction;
// the checks that use them still verify every base program with go/types and
// drop the (rare) ones that do not.
package typedprog

import (
	"fmt"
	"strings"
)

// Kind of a generated type.
type Kind int

const (
	KInt Kind = iota
	KInt8
	KInt64
	KUint
	KUint8
	KUint32
	KFloat64
	KFloat32
	KComplex128
	KString
	KBool
	KRune
	KSlice
	KArray
	KMap
	KStruct // always named
	KPtr
	KFunc
	KAny
	KError
	KChan
	KNamed // named type with a basic underlying type
)

// Type is a generated type.
type Type struct {
	K       Kind
	Elem    *Type
	Key     *Type
	N       int
	Name    string
	Fields  []Field
	Params  []*Type
	Results []*Type
	Under   *Type // KNamed
}

// Field of a struct type.
type Field struct {
	Name string
	T    *Type
}

var (
	tInt        = &Type{K: KInt}
	tInt8       = &Type{K: KInt8}
	tInt64      = &Type{K: KInt64}
	tUint       = &Type{K: KUint}
	tUint8      = &Type{K: KUint8}
	tUint32     = &Type{K: KUint32}
	tFloat64    = &Type{K: KFloat64}
	tFloat32    = &Type{K: KFloat32}
	tComplex128 = &Type{K: KComplex128}
	tString     = &Type{K: KString}
	tBool       = &Type{K: KBool}
	tRune       = &Type{K: KRune}
	tAny        = &Type{K: KAny}
	tError      = &Type{K: KError}
)

var basicTypes = []*Type{tInt, tInt8, tInt64, tUint, tUint8, tUint32, tFloat64, tFloat32, tComplex128, tString, tBool, tRune}

func (t *Type) String() string {
	switch t.K {
	case KInt:
		return "int"
	case KInt8:
		return "int8"
	case KInt64:
		return "int64"
	case KUint:
		return "uint"
	case KUint8:
		return "uint8"
	case KUint32:
		return "uint32"
	case KFloat64:
		return "float64"
	case KFloat32:
		return "float32"
	case KComplex128:
		return "complex128"
	case KString:
		return "string"
	case KBool:
		return "bool"
	case KRune:
		return "rune"
	case KSlice:
		return "[]" + t.Elem.String()
	case KArray:
		return fmt.Sprintf("[%d]%s", t.N, t.Elem)
	case KMap:
		return "map[" + t.Key.String() + "]" + t.Elem.String()
	case KStruct, KNamed:
		return t.Name
	case KPtr:
		return "*" + t.Elem.String()
	case KFunc:
		return "func" + t.sig()
	case KAny:
		return "interface{}"
	case KError:
		return "error"
	case KChan:
		return "chan " + t.Elem.String()
	}
	return "?"
}

func (t *Type) sig() string {
	var ps []string
	for _, p := range t.Params {
		ps = append(ps, p.String())
	}
	s := "(" + strings.Join(ps, ", ") + ")"
	switch len(t.Results) {
	case 0:
	case 1:
		s += " " + t.Results[0].String()
	default:
		var rs []string
		for _, r := range t.Results {
			rs = append(rs, r.String())
		}
		s += " (" + strings.Join(rs, ", ") + ")"
	}
	return s
}

// Equal reports type identity.
func (t *Type) Equal(u *Type) bool {
	if t == u {
		return true
	}
	if t.K != u.K {
		return false
	}
	switch t.K {
	case KSlice, KPtr, KChan:
		return t.Elem.Equal(u.Elem)
	case KArray:
		return t.N == u.N && t.Elem.Equal(u.Elem)
	case KMap:
		return t.Key.Equal(u.Key) && t.Elem.Equal(u.Elem)
	case KStruct, KNamed:
		return t.Name == u.Name
	case KFunc:
		if len(t.Params) != len(u.Params) || len(t.Results) != len(u.Results) {
			return false
		}
		for i := range t.Params {
			if !t.Params[i].Equal(u.Params[i]) {
				return false
			}
		}
		for i := range t.Results {
			if !t.Results[i].Equal(u.Results[i]) {
				return false
			}
		}
		return true
	}
	return true
}

// base returns the underlying basic type of a named type, or t.
func (t *Type) base() *Type {
	if t.K == KNamed {
		return t.Under
	}
	return t
}

func (t *Type) isInteger() bool {
	switch t.base().K {
	case KInt, KInt8, KInt64, KUint, KUint8, KUint32, KRune:
		return true
	}
	return false
}

func (t *Type) isUnsigned() bool {
	switch t.base().K {
	case KUint, KUint8, KUint32:
		return true
	}
	return false
}

func (t *Type) isFloat() bool {
	k := t.base().K
	return k == KFloat64 || k == KFloat32
}

func (t *Type) isNumeric() bool {
	return t.isInteger() || t.isFloat() || t.base().K == KComplex128
}

func (t *Type) isOrdered() bool {
	return t.isInteger() || t.isFloat() || t.base().K == KString
}

// comparable reports whether == is defined on t.
func (t *Type) comparable() bool {
	switch t.K {
	case KSlice, KMap, KFunc:
		return false
	case KArray:
		return t.Elem.comparable()
	case KStruct:
		for _, f := range t.Fields {
			if !f.T.comparable() {
				return false
			}
		}
	}
	return true
}

// small reports whether constants of the type must stay small (narrow types).
func (t *Type) small() bool {
	switch t.base().K {
	case KInt8, KUint8:
		return true
	}
	return false
}
