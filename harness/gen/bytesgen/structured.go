package bytesgen

import (
	"fmt"
	"math/rand"
	"strings"
)

// This file holds the structured (grammar-directed) families added to the byte
// level ones: template-only syntax in every file role, deep nesting of every
// recursive construct, and small inputs that amplify resources (chains of
// dependent constant declarations and the like).

// ---------------------------------------------------------------- template-only syntax

// calleeShapes are the operand shapes tried on the left of "default" and as
// callee elsewhere.
var calleeShapes = []string{
	"M()", "M(1)", "N(\"a\")", "a.b()", "t.String()", "M()()", "list[0]()", "m[\"k\"]()", "(M)()", "(M())", "((M))()",
	"func() html { return \"\" }()", "len(s)", "int(1)", "html(\"a\")", "T{}.String()", "p.M()", "undefinedMacro()", "undefinedName",
	"x", "s", "M", "itea", "_", "nil", "iota", "true", "render \"part.html\"", "render \"missing.html\"", "-M()", "*M()", "M().x",
	"M(N(\"a\"))", "sprintf(\"%d\", 1)", "[]int{1}[0]", "struct{}{}", "<-c", "&x", "x.(int)", "M()[0]", "M() default \"\"",
}

var exprShapes = []string{
	"\"\"", "\"x\"", "1", "1.5", "nil", "x", "s", "html(\"<b>\")", "M()", "a + 1", "[]int{1, 2}", "T{}", "itea", "render \"part.html\"",
	"N(\"a\")", "func() {}", "true", "'c'", "s contains \"a\"", "not ok", "a and b", "x default 1",
}

// templateStatements are template-only statement forms with holes: C = callee
// shape, E = expression, B = body text.
var templateStatements = []string{
	"{{ C default E }}", "{{ C default E default E }}", "{% show C default E %}", "{% v := C default E %}{{ v }}", "{% var v = C default E %}",
	"{% if v := C default E; v != nil %}B{% end %}", "{% for _ = range []int{1} %}{{ C default E }}{% end %}", "{% switch C default E %}{% case E %}B{% end %}",
	"<a href=\"{{ C default E }}\">", "<script>var a = {{ C default E }};</script>", "{% show C, E, E %}", "{% show E, E default E %}", "{% show %}",
	"{% show itea; using %}B{% end using %}", "{% show itea; using html %}B{% end %}", "{% var v = itea; using %}B{% end using %}{{ v }}",
	"{% v := itea; using markdown %}# B{% end %}{{ v }}", "{% show C(itea); using %}B{% end %}", "{% show itea(); using macro %}B{% end %}",
	"{% show itea(\"a\"); using macro(s string) %}{{ s }}{% end %}", "{% show itea(1, 2); using macro(a, b int) html %}{{ a }}{% end using %}",
	"{% show itea; using %}{% show itea; using %}B{% end %}{% end %}", "{% itea := 1 %}{{ itea }}", "{{ itea }}", "{% show E; using %}B{% end %}",
	"{% show itea, itea; using %}B{% end %}", "{% return itea; using %}B{% end %}", "{% x = itea; using js %}var a;{% end %}", "{% defer C; using %}B{% end %}",
	"{% macro L %}B{% end %}{{ L() }}", "{% macro L(a int, b ...string) html %}{{ a }}{{ b }}{% end macro %}{{ L(1) }}{{ L(1, \"a\", \"b\") }}",
	"{% macro L(a, b int) string %}B{% end %}{{ L(1, 2) }}", "{% macro L(s string) css %}a{ {{ s }} }{% end %}<style>{{ L(\"b\") }}</style>",
	"{% macro L() js %}1{% end %}{% macro L %}2{% end %}", "{% macro L(T) %}B{% end %}", "{% macro L(a int) E %}B{% end %}", "{% macro L %}{% macro K %}B{% end %}{% end %}",
	"{% macro %}B{% end %}", "{% macro L(a int = 1) %}B{% end %}", "{% macro L %}{% return %}B{% end %}{{ L() }}", "{% macro L %}{{ L() }}{% end %}{{ L() }}",
	"{% raw %}{{ C }}{% E %}{% end raw %}", "{% raw marker %}{% end raw %}{% end raw marker %}", "{% raw %}B", "{% raw a b %}B{% end %}", "{% raw %}{% raw %}{% end %}{% end %}",
	"{% end raw %}", "{% raw code %}{% end raw other %}{% end raw code %}", "{%% raw %%}", "{% if true %}{% raw %}{% end if %}{% end raw %}{% end %}",
	"{% extends \"layout.html\" %}", "{% import \"imp.html\" %}{{ C }}", "{% import p \"imp.html\" %}{{ p.M() }}{{ C default E }}", "{% import . \"imp.html\" for M %}",
	"{% import \"imp.html\" for M, N %}{{ N(\"a\") }}", "{{ render \"part.html\" }}", "{{ render \"part.html\" default E }}", "{{ render \"missing.html\" default E }}",
	"{% show render \"part.html\" %}", "{% v := render \"part.html\" %}{{ v }}", "{{ render C }}", "{{ render \"part.html\" + E }}", "{{ (render \"part.html\") default E }}",
	"{% for v in E %}{{ v }}{% else %}B{% end for %}", "{% for i, v in E %}B{% break %}{% end %}", "{% for v in C default E %}B{% end %}", "{% select %}{% case <-c %}B{% default %}B{% end %}",
	"{% if E %}B{% else if C default E %}B{% else %}B{% end if %}", "{% L: for %}{% break L %}{% end %}", "{% type X struct{ A C } %}", "{% const k = C default E %}",
	"{%%\n\tv := C default E\n\tshow v, E\n%%}", "{%%\n\tvar v = itea; using\n%%}B{% end %}", "{%% macro L %%}B{%% end %%}", "{%% show itea; using %%}",
}

var bodyTexts = []string{"text", "<b>{{ 1 }}</b>", "{{ s }}", "{# c #}", "{% if true %}x{% end %}", "", "é日本", "{{ itea }}", "{{ M() }}", "{% show 1 %}"}

func fill(r *rand.Rand, tpl string) string {
	var b strings.Builder
	for i := 0; i < len(tpl); i++ {
		c := tpl[i]
		prevWord := i > 0 && (tpl[i-1] >= 'a' && tpl[i-1] <= 'z' || tpl[i-1] >= 'A' && tpl[i-1] <= 'Z')
		nextWord := i+1 < len(tpl) && (tpl[i+1] >= 'a' && tpl[i+1] <= 'z' || tpl[i+1] >= 'A' && tpl[i+1] <= 'Z')
		switch {
		case c == 'C' && !prevWord && !nextWord:
			b.WriteString(pick(r, calleeShapes))
		case c == 'E' && !prevWord && !nextWord:
			b.WriteString(pick(r, exprShapes))
		case c == 'B' && !prevWord && !nextWord:
			b.WriteString(pick(r, bodyTexts))
		default:
			b.WriteByte(c)
		}
	}
	return b.String()
}

// TemplateSyntax returns a template set that exercises one or two template-only
// constructs (default with every callee shape, using/itea, show with several
// operands, typed macro declarations, raw blocks, import/extends/render forms) in
// one of the file roles: plain, extended, extending, imported, rendered.
func (g *Gen) TemplateSyntax(r *rand.Rand) Input {
	s := fill(r, pick(r, templateStatements))
	if r.Intn(3) == 0 {
		s += "\n" + fill(r, pick(r, templateStatements))
	}
	if r.Intn(6) == 0 {
		s, _ = func() (string, string) { d, op := Mutate(r, []byte(s), true, nil); return string(d), op }()
	}
	ext := ".html"
	if r.Intn(5) == 0 {
		ext = Exts[r.Intn(len(Exts))]
	}
	macros := "{% macro M %}m{% end %}{% macro N(s string) %}{{ s }}{% end %}"
	imp := File{"imp.html", []byte("{% macro M %}im{% end macro %}\n{% macro N(s string) %}{{ s }}{% end %}\n{% var V = 5 %}\n")}
	part := File{"part.html", []byte("<p>part {{ 1 + 2 }}</p>\n")}
	in := Input{Kind: "template", Main: "index" + ext}
	role := []string{"plain", "extended", "extending", "imported", "rendered", "extended", "plain-macros"}[r.Intn(7)]
	switch role {
	case "plain":
		in.Files = []File{{in.Main, []byte(s)}}
	case "plain-macros":
		in.Files = []File{{in.Main, []byte(macros + s)}}
	case "extended":
		in.Main = "index.html"
		in.Files = []File{{"index.html", []byte("{% extends \"layout" + ext + "\" %}" + macros)}, {"layout" + ext, []byte(s)}}
	case "extending":
		in.Main = "index.html"
		body := "{% macro Body %}" + s + "{% end macro %}"
		if r.Intn(3) == 0 {
			body = s // declarations only are allowed here: most statements are errors
		}
		in.Files = []File{{"index.html", []byte("{% extends \"layout.html\" %}" + macros + body)}, {"layout.html", []byte("<html>{{ Body() }}{{ M() default \"\" }}</html>")}}
	case "imported":
		in.Main = "index.html"
		decl := "{% macro Q %}" + s + "{% end macro %}"
		if r.Intn(3) == 0 {
			decl = s
		}
		in.Files = []File{{"index.html", []byte("{% import \"lib" + ext + "\" %}{{ Q() }}")}, {"lib" + ext, []byte(macros + decl)}}
	case "rendered":
		in.Main = "index.html"
		in.Files = []File{{"index.html", []byte(macros + "<div>{{ render \"sub/r" + ext + "\" }}</div>")}, {"sub/r" + ext, []byte(s)}}
	}
	have := map[string]bool{}
	for _, f := range in.Files {
		have[f.Name] = true
	}
	for _, f := range []File{imp, part, {"layout.html", []byte("<html>{{ M() default \"d\" }}</html>")}} {
		if !have[f.Name] && r.Intn(5) != 0 {
			in.Files = append(in.Files, f)
			if strings.HasPrefix(in.Files[0].Name, "index") && role == "rendered" {
				// the rendered file resolves relative paths from its own directory
				in.Files = append(in.Files, File{"sub/" + f.Name, f.Data})
			}
		}
	}
	in.Fam = "tmplsyntax:" + role
	in.Mut = in.Files[len(in.Files)-1].Name
	return in
}

// ---------------------------------------------------------------- deep nesting

// nestKinds are the recursive constructs: pre + open*n + mid + close*n + post.
// cost is a divisor applied to the depth for constructs whose build time grows
// much faster than linearly with the depth.
var nestKinds = []struct {
	name                        string
	program                     bool
	pre, open, mid, close, post string
	cost                        int
}{
	{"paren", true, "package main\n\nfunc main() {\n\t_ = ", "(", "1", ")", "\n}\n", 1},
	{"unary", true, "package main\n\nfunc main() {\n\tx := 1\n\t_ = ", "- ", "x", "", "\n}\n", 1},
	{"not", true, "package main\n\nfunc main() {\n\t_ = ", "!", "true", "", "\n}\n", 1},
	{"deref", true, "package main\n\nfunc main() {\n\tvar p *int\n\t_ = ", "*", "p", "", "\n}\n", 1},
	{"binary", true, "package main\n\nfunc main() {\n\t_ = ", "1+", "1", "", "\n}\n", 1},
	{"binary-right", true, "package main\n\nfunc main() {\n\t_ = ", "1+(", "1", ")", "\n}\n", 1},
	{"complit", true, "package main\n\nfunc main() {\n\t_ = ", "[]any{", "", "}", "\n}\n", 1},
	{"block", true, "package main\n\nfunc main() {\n", "{", "", "}", "\n}\n", 1},
	{"if", true, "package main\n\nfunc main() {\n", "if true {", "", "}", "\n}\n", 3},
	{"for", true, "package main\n\nfunc main() {\n", "for {", "break", "}", "\n}\n", 3},
	{"switch", true, "package main\n\nfunc main() {\n", "switch { default: ", "", "}", "\n}\n", 3},
	{"slicetype", true, "package main\n\nvar x ", "[]", "int", "", "\n\nfunc main() {}\n", 1},
	{"arraytype", true, "package main\n\nvar x ", "[1]", "int", "", "\n\nfunc main() {}\n", 1},
	{"maptype", true, "package main\n\nvar x ", "map[int]", "int", "", "\n\nfunc main() {}\n", 2},
	{"chantype", true, "package main\n\nvar x ", "chan ", "int", "", "\n\nfunc main() {}\n", 2},
	{"ptrtype", true, "package main\n\ntype T int\n\nvar x ", "*", "T", "", "\n\nfunc main() {}\n", 1},
	{"functype", true, "package main\n\nvar x ", "func(", "", ")", "\n\nfunc main() {}\n", 4},
	{"structtype", true, "package main\n\nvar x ", "struct{ f ", "int", " }", "\n\nfunc main() {}\n", 3},
	{"index", true, "package main\n\nfunc main() {\n\tvar a []int\n\t_ = ", "a[", "0", "]", "\n}\n", 2},
	{"call", true, "package main\n\nfunc main() {\n\tf := func(int) int { return 0 }\n\t_ = ", "f(", "0", ")", "\n}\n", 6},
	{"funclit", true, "package main\n\nfunc main() {\n\t_ = ", "func() { _ = ", "1", " }", "\n}\n", 8},
	{"selector", true, "package main\n\nfunc main() {\n\tvar a struct{}\n\t_ = a", ".b", "", "", "\n}\n", 1},
	{"conversion", true, "package main\n\nfunc main() {\n\t_ = ", "float64(int(", "1", "))", "\n}\n", 3},
	{"tmpl-paren", false, "{{ ", "(", "1", ")", " }}", 1},
	{"tmpl-not", false, "{{ ", "not ", "true", "", " }}", 1},
	{"tmpl-binary", false, "{{ ", "1+", "1", "", " }}", 1},
	{"tmpl-if", false, "", "{% if true %}", "x", "{% end %}", "", 3},
	{"tmpl-for", false, "", "{% for %}", "{% break %}", "{% end for %}", "", 3},
	{"tmpl-macro-call", false, "{% macro M(s html) %}{{ s }}{% end %}{{ ", "M(", "\"a\"", ")", " }}", 6},
	{"tmpl-using", false, "", "{% show itea; using %}", "x", "{% end using %}", "", 4},
	{"tmpl-block", false, "{%%\n", "{\n", "", "}\n", "%%}", 1},
	{"tmpl-complit", false, "{{ ", "[]any{", "", "}", " }}", 1},
	{"tmpl-html", false, "", "<div><a href=\"{{ 1 }}\">", "{{ 1 }}", "</a></div>", "", 1},
	{"tmpl-comment", false, "", "{# ", "c", " #}", "", 1},
}

// NestKinds is the number of recursive constructs of the deep-nesting family.
func NestKinds() int { return len(nestKinds) }

// DeepOf returns the input that nests construct k (index modulo NestKinds) to
// the given depth.
func DeepOf(k, depth int) Input {
	nk := nestKinds[k%len(nestKinds)]
	var b strings.Builder
	b.Grow(len(nk.pre) + depth*(len(nk.open)+len(nk.close)) + len(nk.mid) + len(nk.post))
	b.WriteString(nk.pre)
	for i := 0; i < depth; i++ {
		b.WriteString(nk.open)
	}
	b.WriteString(nk.mid)
	for i := 0; i < depth; i++ {
		b.WriteString(nk.close)
	}
	b.WriteString(nk.post)
	in := Input{Fam: fmt.Sprintf("deep:%s:%d", nk.name, depth)}
	if nk.program {
		in.Kind = "program"
		in.Files = []File{{"main.go", []byte(b.String())}}
	} else {
		in.Kind, in.Main = "template", "index.html"
		in.Files = []File{{"index.html", []byte(b.String())}}
	}
	return in
}

// Deep returns a deep-nesting input of a random construct with a depth in
// [maxDepth/8, maxDepth], divided by the construct's cost factor.
func (g *Gen) Deep(r *rand.Rand, maxDepth int) Input {
	k := r.Intn(len(nestKinds))
	d := maxDepth/8 + r.Intn(maxDepth-maxDepth/8+1)
	d /= nestKinds[k].cost
	if d < 1 {
		d = 1
	}
	return DeepOf(k, d)
}

// NestingDepth measures, independently of scriggo, how deeply a source nests: the
// maximum of the bracket depth ( ( [ { and template block openers ) and of the
// longest run of operator-like tokens without a statement end (operator chains
// build left- or right-deep trees). It is the structural predicate of the open
// finding on unbounded recursion.
func NestingDepth(src []byte) int {
	depth, maxDepth := 0, 0
	chain, maxChain := 0, 0
	for i := 0; i < len(src); i++ {
		switch c := src[i]; c {
		case '(', '[', '{':
			depth++
			if depth > maxDepth {
				maxDepth = depth
			}
			chain++
		case ')', ']', '}':
			if depth > 0 {
				depth--
			}
		case '+', '-', '*', '/', '!', '&', '|', '^', '<', '>', '.':
			chain++
		case ';', '\n':
			chain = 0
		}
		if chain > maxChain {
			maxChain = chain
		}
	}
	// template blocks and word operators
	for _, w := range []string{"{% if", "{% for", "; using", "not ", "chan ", "{% switch", "{% macro"} {
		if n := strings.Count(string(src), w); n > maxDepth {
			maxDepth = n
		}
	}
	if maxChain > maxDepth {
		return maxChain
	}
	return maxDepth
}

// ---------------------------------------------------------------- resource amplification

// ampChains are chains of dependent declarations: first value, step (P = the
// previous name). A correct implementation bounds the size of every constant;
// a missing bound makes time and memory exponential in the number of lines.
var ampChains = []struct{ name, first, step string }{
	{"rat-square", "1 / 3.0", "P * P"},
	{"rat-square-neg", "-1 / 7.0", "P * P"},
	{"rat-square-num", "3 / 2.0", "P * P"},
	{"rat-cube", "1 / 3.0", "P * P * P"},
	{"rat-recip", "1 / 3.0", "1 / (P * P + 1)"},
	{"rat-div", "1 / 3.0", "P / 7"},
	{"float-square", "1.5", "P * P"},
	{"float-square-small", "0.5", "P * P"},
	{"float-inf-sub", "1.5", "P * P - P"},
	{"int-square", "3", "P * P"},
	{"int-shift", "2", "P << 20"},
	{"shift-of-shift", "2", "1 << P"},
	{"complex-square", "1/3.0 + 1i", "P * P"},
	{"complex-div", "1/3.0 + 1i", "(1 + 1i) / (P * P)"},
	{"string-double", "\"ab\"", "P + P"},
	{"string-triple", "\"é\"", "P + P + P"},
	{"rune-string", "'a'", "P + P"},
	{"exp-literal", "1e300", "P * 1e300"},
	{"exp-literal-neg", "1e-300", "P * 1e-300"},
	{"hex-exp", "0x1p1000", "P * P"},
	{"mixed", "1 / 3.0", "P * P + 1/P"},
}

// ampSingles are one-line amplifiers.
var ampSingles = []string{
	"const c = 1 << (1 << 40)", "const c = 1 << 1000000000\nconst d = c >> 999999999", "const c = 1e1000000000", "const c = 1e-1000000000\nconst d = c * c",
	"const c = 0x1p1000000000", "const c = 0x1p-1000000000\nconst d = 1 / c", "const c = 1e100000 / 3\nconst d = c * c * c * c", "var a [1 << 30][1 << 30]int",
	"var a [1 << 20][1 << 20][1 << 20]byte", "var a [1 << 62]struct{}", "var a [1 << 40]struct{ b [1 << 40]byte }", "const c = len([1 << 40]int{})",
	"const c = 9999999999999999999999999999999999999999 * 9999999999999999999999999999999999999999", "const c = 1 / 1e-400", "const c = float32(1e38) * 1e38",
	"const c = \"a\" + \"b\"\nvar s = [len(c) << 40]byte{}", "var m = map[[1 << 30]int]int{}", "type T [1 << 40]T", "type T struct{ a [1 << 40]int; b [1 << 40]int }",
	"const c = 'a' << 1000", "const c = -1 >> 10000", "const c = ^0 << 511", "const c = 1.0 << 600", "const c = (1 << 511) * (1 << 511)", "const c = 1i * 1e400",
}

// Amp returns a small input that would amplify resources without bounds on
// constants and types: a chain of k dependent declarations (or a one-liner) at
// package level, in a function body, in template statements or in an
// imported file.
func (g *Gen) Amp(r *rand.Rand) Input {
	var lines []string
	name := ""
	last := "c"
	if r.Intn(5) == 0 {
		s := pick(r, ampSingles)
		lines = strings.Split(s, "\n")
		name = "single"
		last = ""
	} else {
		ch := ampChains[r.Intn(len(ampChains))]
		k := 24 + r.Intn(25)
		kw := "const"
		if r.Intn(6) == 0 {
			kw = "var"
		}
		lines = append(lines, kw+" c1 = "+ch.first)
		for i := 2; i <= k; i++ {
			lines = append(lines, fmt.Sprintf("%s c%d = %s", kw, i, strings.ReplaceAll(ch.step, "P", fmt.Sprintf("c%d", i-1))))
		}
		name = fmt.Sprintf("%s:%d:%s", ch.name, k, kw)
		last = fmt.Sprintf("c%d", k)
	}
	use := ""
	if last != "" {
		use = "_ = " + last
	}
	in := Input{}
	place := r.Intn(7)
	switch place {
	case 0: // package level
		in.Kind = "program"
		in.Files = []File{{"main.go", []byte("package main\n\n" + strings.Join(lines, "\n") + "\n\nfunc main() {\n\t" + use + "\n}\n")}}
	case 1: // function body
		in.Kind = "program"
		in.Files = []File{{"main.go", []byte("package main\n\nfunc main() {\n\t" + strings.Join(lines, "\n\t") + "\n\t" + use + "\n}\n")}}
	case 2: // imported package
		in.Kind = "program"
		exp := strings.ReplaceAll(strings.Join(lines, "\n"), " c", " C")
		exp = strings.ReplaceAll(strings.ReplaceAll(exp, "(c", "(C"), "-c", "-C")
		in.Files = []File{{"go.mod", []byte("module mod\n")}, {"main.go", []byte("package main\n\nimport \"mod/pkg\"\n\nfunc main() {\n\t_ = pkg.C1\n}\n")}, {"pkg/pkg.go", []byte("package pkg\n\n" + exp + "\n")}}
	case 3: // template statements
		var b strings.Builder
		for _, l := range lines {
			b.WriteString("{% " + l + " %}\n")
		}
		if last != "" {
			b.WriteString("{{ " + last + " }}")
		}
		in.Kind, in.Main = "template", "index"+Exts[r.Intn(len(Exts))]
		in.Files = []File{{in.Main, []byte(b.String())}}
	case 4: // statements block
		in.Kind, in.Main = "template", "index.html"
		in.Files = []File{{"index.html", []byte("{%%\n\t" + strings.Join(lines, "\n\t") + "\n\t" + use + "\n%%}")}}
	case 5: // imported template file
		var b strings.Builder
		for _, l := range lines {
			b.WriteString("{% " + strings.ReplaceAll(strings.ReplaceAll(strings.ReplaceAll(l, " c", " C"), "(c", "(C"), "-c", "-C") + " %}\n")
		}
		in.Kind, in.Main = "template", "index.html"
		in.Files = []File{{"index.html", []byte("{% import \"imp.html\" %}{{ C1 }}")}, {"imp.html", []byte(b.String())}}
	default: // macro body of an extending file
		in.Kind, in.Main = "template", "index.html"
		var b strings.Builder
		for _, l := range lines {
			b.WriteString("{% " + l + " %}")
		}
		in.Files = []File{{"index.html", []byte("{% extends \"layout.html\" %}{% macro Body %}" + b.String() + "{% end %}")}, {"layout.html", []byte("{{ Body() }}")}}
	}
	in.Fam = fmt.Sprintf("amp:%s:place%d", name, place)
	return in
}

// ---------------------------------------------------------------- wide functions

// wideKinds are shapes in which ONE function refers to n distinct items of a
// table that the VM indexes with one byte (Scriggo functions, native functions
// and variables, types, constants of each register kind, struct fields, macros).
// n is taken around 128 and 256, where signed/unsigned byte mistakes show.
var wideKinds = []string{"funcs", "natives", "nativevars", "types", "strings", "floats", "ints", "fields", "closures", "macros", "tmplglobals", "pkgfuncs", "methods", "pkgvar-strings", "pkgvar-funcs"}

// Wide returns a program or template in which one function refers to n distinct
// functions, native functions, types, constants, fields or macros.
func (g *Gen) Wide(r *rand.Rand) Input {
	kind := pick(r, wideKinds)
	n := []int{120, 126, 127, 128, 129, 130, 135, 200, 250, 254, 255, 256, 257, 258, 262}[r.Intn(15)]
	var top, body strings.Builder
	imports := ""
	in := Input{Kind: "program"}
	switch kind {
	case "funcs":
		for i := 0; i < n; i++ {
			fmt.Fprintf(&top, "func f%d() int { return %d }\n", i, i)
			fmt.Fprintf(&body, "\t_ = f%d()\n", i)
		}
	case "natives":
		imports = "import \"wide\"\n\n"
		for i := 0; i < n; i++ {
			fmt.Fprintf(&body, "\t_ = wide.W%d()\n", i)
		}
	case "nativevars":
		imports = "import \"wide\"\n\n"
		for i := 0; i < n; i++ {
			fmt.Fprintf(&body, "\twide.V%d++\n", i)
		}
	case "types":
		for i := 0; i < n; i++ {
			fmt.Fprintf(&top, "type T%d struct{ f%d int }\n", i, i)
			fmt.Fprintf(&body, "\t_ = interface{}(T%d{})\n", i)
		}
	case "strings":
		for i := 0; i < n; i++ {
			fmt.Fprintf(&body, "\tprintln(\"s%d\")\n", i)
		}
	case "floats":
		for i := 0; i < n; i++ {
			fmt.Fprintf(&body, "\tprintln(%d.5)\n", i)
		}
	case "ints":
		for i := 0; i < n; i++ {
			fmt.Fprintf(&body, "\tprintln(%d)\n", 1000000+i)
		}
	case "fields":
		top.WriteString("type S struct {\n")
		for i := 0; i < n; i++ {
			fmt.Fprintf(&top, "\tf%d struct{ a, b int }\n", i)
			fmt.Fprintf(&body, "\t_ = s.f%d.b\n", i)
		}
		top.WriteString("}\n\nvar s S\n")
	case "closures":
		body.WriteString("\tx := 0\n")
		for i := 0; i < n; i++ {
			fmt.Fprintf(&body, "\tg%d := func() { x += %d }\n\tg%d()\n", i, i, i)
		}
	case "pkgfuncs":
		var pk strings.Builder
		pk.WriteString("package pkg\n\n")
		for i := 0; i < n; i++ {
			fmt.Fprintf(&pk, "func F%d() int { return %d }\n", i, i)
			fmt.Fprintf(&body, "\t_ = pkg.F%d()\n", i)
		}
		in.Files = []File{{"go.mod", []byte("module mod\n")}, {"pkg/pkg.go", []byte(pk.String())}}
		imports = "import \"mod/pkg\"\n\n"
	case "pkgvar-strings": // package-level initialiser: the limit is hit in $initvars
		top.WriteString("var x = []string{")
		for i := 0; i < n; i++ {
			fmt.Fprintf(&top, "\"s%d\", ", i)
		}
		top.WriteString("}\n")
		body.WriteString("\t_ = x\n")
	case "pkgvar-funcs":
		top.WriteString("var x = []int{")
		for i := 0; i < n; i++ {
			fmt.Fprintf(&top, "f%d(), ", i)
		}
		top.WriteString("}\n")
		for i := 0; i < n; i++ {
			fmt.Fprintf(&top, "func f%d() int { return %d }\n", i, i)
		}
		body.WriteString("\t_ = x\n")
	case "methods":
		imports = "import \"strings\"\n\n"
		for i := 0; i < n; i++ {
			fmt.Fprintf(&body, "\tvar b%d strings.Builder\n\tb%d.WriteString(\"a\")\n", i, i)
		}
	case "macros", "tmplglobals":
		var t strings.Builder
		for i := 0; i < n; i++ {
			if kind == "macros" {
				fmt.Fprintf(&t, "{%% macro M%d %%}%d{%% end %%}{{ M%d() }}\n", i, i, i)
			} else {
				fmt.Fprintf(&t, "{%% var v%d = %d %%}{{ v%d }}{{ sprintf(\"%%d\", v%d) }}\n", i, i, i, i)
			}
		}
		in.Kind, in.Main = "template", "index.html"
		in.Files = []File{{"index.html", []byte(t.String())}}
		in.Fam = fmt.Sprintf("wide:%s:%d", kind, n)
		return in
	}
	src := "package main\n\n" + imports + top.String() + "\nfunc main() {\n" + body.String() + "}\n"
	in.Files = append(in.Files, File{"main.go", []byte(src)})
	in.Fam = fmt.Sprintf("wide:%s:%d", kind, n)
	return in
}
