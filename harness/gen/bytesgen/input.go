// Package bytesgen generates hostile build inputs for scriggo.Build and
// scriggo.BuildTemplate: arbitrary byte strings, grammar-aware mutations of the
// repository's template and program corpus, truncations of valid sources at byte
// offsets, type-error mutants, and multi-file sets in which a mutated file is
// extended/imported/rendered by a valid one and vice versa.
//
// The package never calls the scriggo compiler: it only produces inputs (driver
// side) and offers a recording in-memory file system and a set of native
// packages to the worker side.
package bytesgen

import (
	"encoding/base64"
	"encoding/json"
	"fmt"
	"io/fs"
	"sort"
	"strings"
	"sync"
	"testing/fstest"
	"unicode/utf8"
)

// File is one file of an input. It marshals as {"name","text"} when the content
// is valid UTF-8 (readable replay files) and as {"name","b64"} otherwise.
type File struct {
	Name string
	Data []byte
}

type fileJSON struct {
	Name string  `json:"name"`
	Text *string `json:"text,omitempty"`
	B64  *string `json:"b64,omitempty"`
}

// MarshalJSON implements json.Marshaler.
func (f File) MarshalJSON() ([]byte, error) {
	j := fileJSON{Name: f.Name}
	if utf8.Valid(f.Data) {
		s := string(f.Data)
		j.Text = &s
	} else {
		s := base64.StdEncoding.EncodeToString(f.Data)
		j.B64 = &s
	}
	return json.Marshal(j)
}

// UnmarshalJSON implements json.Unmarshaler.
func (f *File) UnmarshalJSON(b []byte) error {
	var j fileJSON
	if err := json.Unmarshal(b, &j); err != nil {
		return err
	}
	f.Name = j.Name
	switch {
	case j.B64 != nil:
		d, err := base64.StdEncoding.DecodeString(*j.B64)
		if err != nil {
			return err
		}
		f.Data = d
	case j.Text != nil:
		f.Data = []byte(*j.Text)
	default:
		f.Data = nil
	}
	return nil
}

// Input is one build input.
type Input struct {
	Kind        string `json:"kind"`           // "program" or "template"
	Main        string `json:"main,omitempty"` // template entry file
	Files       []File `json:"files"`
	Fam         string `json:"fam,omitempty"` // generator family (evidence only)
	Src         string `json:"src,omitempty"` // corpus source the input derives from (evidence only)
	Mut         string `json:"mut,omitempty"` // name of the hostile file in a multi-file set (evidence only)
	NoParseShow bool   `json:"no_parse_show,omitempty"`
}

// Size returns the total number of source bytes.
func (in *Input) Size() int {
	n := 0
	for _, f := range in.Files {
		n += len(f.Data)
	}
	return n
}

// File returns the content of the named file.
func (in *Input) File(name string) ([]byte, bool) {
	for _, f := range in.Files {
		if f.Name == name {
			return f.Data, true
		}
	}
	return nil, false
}

// Describe renders the input for a violation report.
func (in *Input) Describe(max int) string {
	var b strings.Builder
	fmt.Fprintf(&b, "%s", in.Kind)
	if in.Main != "" {
		fmt.Fprintf(&b, " main=%s", in.Main)
	}
	if in.NoParseShow {
		b.WriteString(" NoParseShortShowStmt")
	}
	for _, f := range in.Files {
		s := fmt.Sprintf("%q", f.Data)
		if len(s) > max {
			s = s[:max] + fmt.Sprintf("…(+%d)", len(s)-max)
		}
		fmt.Fprintf(&b, "\n  file %s (%d bytes): %s", f.Name, len(f.Data), s)
	}
	return b.String()
}

// Ext returns the extension of the main file of a template input ("go" for programs).
func (in *Input) Ext() string {
	if in.Kind == "program" {
		return "go"
	}
	if i := strings.LastIndexByte(in.Main, '.'); i >= 0 {
		return in.Main[i+1:]
	}
	return ""
}

// RecFS is an in-memory file system that records every successful Open of a
// regular file. It implements only fs.FS, so that fs.ReadFile and fs.ReadDir
// go through Open.
type RecFS struct {
	m      fstest.MapFS
	mu     sync.Mutex
	opened map[string]int
	order  []string
	failed []string
}

// NewRecFS builds the file system of an input. Names that are not valid
// io/fs paths are kept out (they can never be opened).
func NewRecFS(files []File) *RecFS {
	m := fstest.MapFS{}
	for _, f := range files {
		if !fs.ValidPath(f.Name) || f.Name == "." {
			continue
		}
		m[f.Name] = &fstest.MapFile{Data: f.Data, Mode: 0o644}
	}
	return &RecFS{m: m, opened: map[string]int{}}
}

// Open implements fs.FS.
func (r *RecFS) Open(name string) (fs.File, error) {
	f, err := r.m.Open(name)
	r.mu.Lock()
	if err != nil {
		r.failed = append(r.failed, name)
	} else if mf, ok := r.m[name]; ok && !mf.Mode.IsDir() {
		if r.opened[name] == 0 {
			r.order = append(r.order, name)
		}
		r.opened[name]++
	}
	r.mu.Unlock()
	return f, err
}

// Opened reports whether the regular file name was opened successfully.
func (r *RecFS) Opened(name string) bool {
	r.mu.Lock()
	defer r.mu.Unlock()
	return r.opened[name] > 0
}

// OpenedNames returns the opened regular files in first-open order.
func (r *RecFS) OpenedNames() []string {
	r.mu.Lock()
	defer r.mu.Unlock()
	return append([]string(nil), r.order...)
}

// FailedNames returns the names whose Open failed, sorted and de-duplicated.
func (r *RecFS) FailedNames() []string {
	r.mu.Lock()
	defer r.mu.Unlock()
	out := append([]string(nil), r.failed...)
	sort.Strings(out)
	var u []string
	for i, s := range out {
		if i == 0 || s != out[i-1] {
			u = append(u, s)
		}
	}
	return u
}

// Content returns the bytes of a file of the file system.
func (r *RecFS) Content(name string) ([]byte, bool) {
	f, ok := r.m[name]
	if !ok {
		return nil, false
	}
	return f.Data, true
}
