package bytesgen

import (
	"bytes"
	"math/rand"
	"unicode/utf8"
)

// Token kinds of the rough, scriggo-independent tokenizer used to choose
// mutation points. It only has to find plausible boundaries; it never decides
// anything about the code under test.
const (
	tkText = iota
	tkDelim
	tkIdent
	tkKeyword
	tkNumber
	tkString
	tkOp
	tkSpace
	tkComment
)

type tok struct {
	lo, hi int
	kind   int
}

// Delims are the template delimiters.
var Delims = []string{"{{", "}}", "{%", "%}", "{%%", "%%}", "{#", "#}"}

// Keywords are Go and template keywords known to scriggo's lexer.
var Keywords = []string{
	"break", "case", "chan", "const", "continue", "default", "defer", "else", "fallthrough", "for", "func", "go",
	"goto", "if", "import", "interface", "map", "package", "range", "return", "struct", "select", "switch", "type", "var",
	"and", "end", "contains", "extends", "in", "macro", "not", "or", "raw", "render", "show", "using",
}

var keywordSet = func() map[string]bool {
	m := map[string]bool{}
	for _, k := range Keywords {
		m[k] = true
	}
	return m
}()

// Operators and punctuation.
var Operators = []string{
	"+", "-", "*", "/", "%", "&", "|", "^", "<<", ">>", "&^", "+=", "-=", "*=", "/=", "%=", "&=", "|=", "^=", "<<=", ">>=", "&^=",
	"&&", "||", "<-", "++", "--", "==", "<", ">", "=", "!", "!=", "<=", ">=", ":=", "...", "(", ")", "[", "]", "{", "}", ",", ";", ".", ":",
}

// Specials are byte sequences that stress position bookkeeping and the lexer's
// character classes.
var Specials = []string{
	"\xEF\xBB\xBF", "\r\n", "\r", "\n", "\t", "\x00", "\f", "\v", "\u00e9", "\u65e5\u672c\u8a9e", "\u00a0", "\u2028", "\u2029", "\u0085", "\U0001F600", "\u3000",
	"\xff", "\xc3", "\xe6\x97", "\xf0\x9f\x98", "\xc0\x80", "\xed\xa0\x80", "\ufffd", "\u0661", "\u01c5", "\u200b", "\x7f", "\x1b", "\ufeff",
}

// Snips are syntactic fragments worth inserting anywhere.
var Snips = []string{
	"{{ ", " }}", "{% ", " %}", "{%% ", " %%}", "{# ", " #}", "{##", "{#", "#}", "{{", "}}", "{%", "%}", "{%%", "%%}", "{{}}", "{%%}", "{%%%%}",
	"{% end %}", "{% end if %}", "{% end for %}", "{% end macro %}", "{% end raw %}", "{% else %}", "{% else if x %}", "{% raw %}", "{% raw a %}", "{% end raw a %}",
	"{% if true %}", "{% for %}", "{% for i := 0; i < 2; i++ %}", "{% for v in list %}", "{% switch %}", "{% case 1 %}", "{% default %}", "{% select %}",
	"{% macro M %}", "{% macro M(a int) html %}", "{% macro M(s string) string %}", "{% extends \"layout.html\" %}", "{% import \"imp.html\" %}", "{% import p \"imp.html\" %}",
	"{% import \"imp.html\" for M %}", "{{ render \"partial.html\" }}", "{{ render \"/partial.html\" }}", "{{ render \"../partial.html\" }}", "{{ render \"missing.html\" default \"x\" }}",
	"{% show 1, 2 %}", "{% show M() using %}", "{{ itea; using }}", "{% var x = 1 %}", "{% const c = 1 %}", "{% x := 1 %}", "{% func f() {} %}", "{% defer f() %}", "{% go f() %}",
	"{% break %}", "{% continue %}", "{% return %}", "{% fallthrough %}", "{% goto L %}", "{% L: %}", "{% type T int %}", "{% _ = 1 %}",
	"/*", "*/", "//", "/* a\n b */", "// c\n", "`", "`a\nb`", "\"", "\"a\\", "'", "'\\", "'\\u", "\\", "\\x", "\\u12", "\\U0010FFFF", "\\400", "0x", "0b2", "0o8", "1_", "1e", "0x1p", "1.5e+", "08", "09.5", "1i", ".5", "...",
	"<script>", "</script>", "<script type=\"application/ld+json\">", "<script type=module>", "<style>", "</style>", "<style type=\"text/x\">", "<![CDATA[", "]]>", "<!--", "-->",
	"<a href=\"", "<a href=", "<img src='", "<img srcset=\"", "<a data-url=\"", "<a xmlns:x=\"", "<a title=\"", "<a title=", "<a x", "<A\tHREF\n=\n'", "<a href=\"{{ s }}\">", "=", "\">", "'>", ">", "/>", "<", "</", "<a ",
	"http://", "https://a.b/c?d=e#f", "[a](https://x.y)", "    ", "\t", "\n\n    code\n", "\\{", "\\h",
	"func() {", "func main() {", "package main\n", "import \"fmt\"\n", "import (\n\t\"fmt\"\n)\n", "struct{", "interface{}", "map[string]int{", "[]int{1, 2}", "[...]int{", "chan<- int", "<-chan int",
	"if x := 1; x > 0 {", "for {", "for i := range 10 {", "switch x := v.(type) {", "select {", "case <-c:", "default:", "return", "}\n", "{\n", "else {", "goto L", "L:", "var (", "const (", "iota", "type T = int",
	"x.(int)", "x[1:2:3]", "a, b = b, a", "x++", "<-c", "c <- 1", "&T{}", "*p", "func(a ...int)", "nil", "true", "_", "x contains y", "a and b", "not a", "a or b",
	"#!/usr/bin/env scriggo\n",
}

// tokenize splits src into rough tokens. template selects template mode (text
// outside {{ }}, {% %}, {%% %%}, {# #}); otherwise the whole source is code.
func tokenize(src []byte, template bool) []tok {
	var toks []tok
	i := 0
	code := !template
	var closer []byte
	n := len(src)
	for i < n {
		if !code {
			// text until a template opening delimiter
			j := i
			for j < n {
				if src[j] == '{' && j+1 < n && (src[j+1] == '{' || src[j+1] == '%' || src[j+1] == '#') {
					break
				}
				j++
			}
			// split text at HTML-significant characters and spaces
			k := i
			for p := i; p < j; p++ {
				switch src[p] {
				case '<', '>', '"', '\'', '=', ' ', '\n', '\t', '/', '\\':
					if p > k {
						toks = append(toks, tok{k, p, tkText})
					}
					toks = append(toks, tok{p, p + 1, tkText})
					k = p + 1
				}
			}
			if j > k {
				toks = append(toks, tok{k, j, tkText})
			}
			i = j
			if i >= n {
				break
			}
			switch {
			case src[i+1] == '#':
				// comment up to the matching #} (no nesting for this purpose)
				e := bytes.Index(src[i+2:], []byte("#}"))
				if e < 0 {
					toks = append(toks, tok{i, i + 2, tkDelim})
					i += 2
					if i < n {
						toks = append(toks, tok{i, n, tkComment})
					}
					i = n
				} else {
					toks = append(toks, tok{i, i + 2, tkDelim})
					if e > 0 {
						toks = append(toks, tok{i + 2, i + 2 + e, tkComment})
					}
					toks = append(toks, tok{i + 2 + e, i + 4 + e, tkDelim})
					i += 4 + e
				}
				continue
			case src[i+1] == '%' && i+2 < n && src[i+2] == '%':
				toks = append(toks, tok{i, i + 3, tkDelim})
				i += 3
				closer = []byte("%%}")
			case src[i+1] == '%':
				toks = append(toks, tok{i, i + 2, tkDelim})
				i += 2
				closer = []byte("%}")
			default:
				toks = append(toks, tok{i, i + 2, tkDelim})
				i += 2
				closer = []byte("}}")
			}
			code = true
			continue
		}
		// code
		if template && closer != nil && bytes.HasPrefix(src[i:], closer) {
			toks = append(toks, tok{i, i + len(closer), tkDelim})
			i += len(closer)
			code = false
			closer = nil
			continue
		}
		c := src[i]
		switch {
		case c == ' ' || c == '\t' || c == '\n' || c == '\r':
			j := i + 1
			for j < n && (src[j] == ' ' || src[j] == '\t' || src[j] == '\n' || src[j] == '\r') {
				j++
			}
			toks = append(toks, tok{i, j, tkSpace})
			i = j
		case c == '_' || c >= 'a' && c <= 'z' || c >= 'A' && c <= 'Z' || c >= 0x80:
			j := i + 1
			for j < n && (src[j] == '_' || src[j] >= 'a' && src[j] <= 'z' || src[j] >= 'A' && src[j] <= 'Z' || src[j] >= '0' && src[j] <= '9' || src[j] >= 0x80) {
				j++
			}
			k := tkIdent
			if keywordSet[string(src[i:j])] {
				k = tkKeyword
			}
			toks = append(toks, tok{i, j, k})
			i = j
		case c >= '0' && c <= '9':
			j := i + 1
			for j < n && (src[j] >= '0' && src[j] <= '9' || src[j] == '.' || src[j] == '_' || src[j] >= 'a' && src[j] <= 'z' || src[j] >= 'A' && src[j] <= 'Z') {
				j++
			}
			toks = append(toks, tok{i, j, tkNumber})
			i = j
		case c == '"' || c == '\'':
			j := i + 1
			for j < n && src[j] != c && src[j] != '\n' {
				if src[j] == '\\' && j+1 < n {
					j++
				}
				j++
			}
			if j < n && src[j] == c {
				j++
			}
			toks = append(toks, tok{i, j, tkString})
			i = j
		case c == '`':
			j := i + 1
			for j < n && src[j] != '`' {
				j++
			}
			if j < n {
				j++
			}
			toks = append(toks, tok{i, j, tkString})
			i = j
		case c == '/' && i+1 < n && src[i+1] == '/':
			j := i
			for j < n && src[j] != '\n' {
				if template && closer != nil && bytes.HasPrefix(src[j:], closer) {
					break
				}
				j++
			}
			toks = append(toks, tok{i, j, tkComment})
			i = j
		case c == '/' && i+1 < n && src[i+1] == '*':
			e := bytes.Index(src[i+2:], []byte("*/"))
			j := n
			if e >= 0 {
				j = i + 2 + e + 2
			}
			toks = append(toks, tok{i, j, tkComment})
			i = j
		default:
			j := i + 1
			// greedy two/three byte operators
			for _, l := range []int{3, 2} {
				if i+l <= n {
					s := string(src[i : i+l])
					for _, op := range Operators {
						if op == s {
							j = i + l
						}
					}
					if j > i+1 {
						break
					}
				}
			}
			toks = append(toks, tok{i, j, tkOp})
			i = j
		}
	}
	return toks
}

func pick(r *rand.Rand, list []string) string { return list[r.Intn(len(list))] }

// dictToken returns a random dictionary element.
func dictToken(r *rand.Rand) string {
	switch r.Intn(10) {
	case 0, 1:
		return pick(r, Delims)
	case 2, 3:
		return pick(r, Keywords)
	case 4:
		return pick(r, Operators)
	case 5:
		return pick(r, Specials)
	default:
		return pick(r, Snips)
	}
}

func splice(src []byte, lo, hi int, repl []byte) []byte {
	out := make([]byte, 0, len(src)-(hi-lo)+len(repl))
	out = append(out, src[:lo]...)
	out = append(out, repl...)
	out = append(out, src[hi:]...)
	return out
}

// MutOp names a mutation operator (used in evidence).
var mutOps = []string{
	"delTok", "dupTok", "swapTok", "replTok", "insTok", "identKw", "misspell", "retype", "flipDelim",
	"insBytes", "insSpecial", "delRange", "truncate", "crossover", "repeat", "flipByte", "opSwap", "decorate", "crlf", "bom",
}

// Mutate applies one mutation operator to src and returns the result and the
// operator name. other is another corpus source used for crossover.
func Mutate(r *rand.Rand, src []byte, template bool, other []byte) ([]byte, string) {
	toks := tokenize(src, template)
	if len(toks) == 0 {
		return append([]byte(dictToken(r)), src...), "insTok"
	}
	op := mutOps[r.Intn(len(mutOps))]
	t := toks[r.Intn(len(toks))]
	pickKind := func(kinds ...int) (tok, bool) {
		var c []tok
		for _, x := range toks {
			for _, k := range kinds {
				if x.kind == k {
					c = append(c, x)
				}
			}
		}
		if len(c) == 0 {
			return tok{}, false
		}
		return c[r.Intn(len(c))], true
	}
	switch op {
	case "delTok":
		return splice(src, t.lo, t.hi, nil), op
	case "dupTok":
		return splice(src, t.hi, t.hi, src[t.lo:t.hi]), op
	case "swapTok":
		u := toks[r.Intn(len(toks))]
		if u.lo < t.lo {
			t, u = u, t
		}
		if u.lo < t.hi {
			return splice(src, t.lo, t.hi, nil), "delTok"
		}
		var out []byte
		out = append(out, src[:t.lo]...)
		out = append(out, src[u.lo:u.hi]...)
		out = append(out, src[t.hi:u.lo]...)
		out = append(out, src[t.lo:t.hi]...)
		out = append(out, src[u.hi:]...)
		return out, op
	case "replTok":
		return splice(src, t.lo, t.hi, []byte(dictToken(r))), op
	case "insTok":
		at := t.lo
		if r.Intn(2) == 0 {
			at = t.hi
		}
		return splice(src, at, at, []byte(dictToken(r))), op
	case "identKw":
		if x, ok := pickKind(tkIdent, tkKeyword); ok {
			return splice(src, x.lo, x.hi, []byte(pick(r, Keywords))), op
		}
	case "misspell":
		if x, ok := pickKind(tkIdent); ok {
			return splice(src, x.hi, x.hi, []byte{"XqZ_9é"[r.Intn(5)]}), op
		}
	case "retype":
		if x, ok := pickKind(tkNumber, tkString); ok {
			repl := []string{`"str"`, "1", "1.5", "'r'", "nil", "true", "`raw`", "1i", "-1", "[]int{}", "0x7fffffffffffffffff", "1e400", "\"a\" + 1"}
			return splice(src, x.lo, x.hi, []byte(pick(r, repl))), op
		}
	case "flipDelim":
		if x, ok := pickKind(tkDelim); ok {
			return splice(src, x.lo, x.hi, []byte(pick(r, Delims))), op
		}
	case "opSwap":
		if x, ok := pickKind(tkOp); ok {
			return splice(src, x.lo, x.hi, []byte(pick(r, Operators))), op
		}
	case "insBytes":
		n := 1 + r.Intn(4)
		b := make([]byte, n)
		for i := range b {
			b[i] = byte(r.Intn(256))
		}
		at := r.Intn(len(src) + 1)
		return splice(src, at, at, b), op
	case "insSpecial":
		at := t.lo
		if r.Intn(3) == 0 {
			at = r.Intn(len(src) + 1)
		}
		return splice(src, at, at, []byte(pick(r, Specials))), op
	case "delRange":
		lo := r.Intn(len(src))
		hi := lo + 1 + r.Intn(1+min(len(src)-lo-1, 40))
		return splice(src, lo, hi, nil), op
	case "truncate":
		return append([]byte(nil), src[:r.Intn(len(src)+1)]...), op
	case "crossover":
		if len(other) > 0 {
			ot := tokenize(other, template)
			if len(ot) > 0 {
				o := ot[r.Intn(len(ot))]
				if r.Intn(2) == 0 {
					return append(append([]byte(nil), src[:t.lo]...), other[o.lo:]...), op
				}
				e := min(len(ot)-1, indexOf(ot, o)+1+r.Intn(12))
				return splice(src, t.lo, t.hi, other[o.lo:ot[e].hi]), op
			}
		}
	case "repeat":
		// repeat a token range to grow nesting, bounded
		j := min(len(toks)-1, indexOf(toks, t)+r.Intn(4))
		seg := src[t.lo:toks[j].hi]
		if len(seg) > 0 {
			times := 2 + r.Intn(60)
			if times*len(seg) > 4096 {
				times = max(2, 4096/len(seg))
			}
			return splice(src, t.lo, t.lo, bytes.Repeat(seg, times)), op
		}
	case "flipByte":
		out := append([]byte(nil), src...)
		i := r.Intn(len(out))
		out[i] ^= 1 << uint(r.Intn(8))
		return out, op
	case "decorate":
		return Decorate(r, src, template), op
	case "crlf":
		return bytes.ReplaceAll(bytes.ReplaceAll(src, []byte("\r\n"), []byte("\n")), []byte("\n"), []byte("\r\n")), op
	case "bom":
		return append([]byte("\xEF\xBB\xBF"), src...), op
	}
	// the chosen operator did not apply: fall back to a token replacement
	return splice(src, t.lo, t.hi, []byte(dictToken(r))), "replTok"
}

func indexOf(toks []tok, t tok) int {
	for i, x := range toks {
		if x == t {
			return i
		}
	}
	return 0
}

// Decorate inserts position-stressing but mostly syntax-preserving material
// (multi-byte runes in comments, strings and text, tabs, block comments with
// newlines) at several token boundaries, so that a later error position has
// multi-byte runes, tabs and multi-line tokens before it.
func Decorate(r *rand.Rand, src []byte, template bool) []byte {
	toks := tokenize(src, template)
	if len(toks) == 0 {
		return src
	}
	type ins struct {
		at int
		s  string
	}
	var list []ins
	k := 1 + r.Intn(4)
	for i := 0; i < k; i++ {
		t := toks[r.Intn(len(toks))]
		switch t.kind {
		case tkText:
			list = append(list, ins{t.lo, pick(r, []string{"é", "日本", "\t", "ü\n", "€ ", "{# ñ #}", "{# a\nbç #}"})})
		case tkString:
			if t.hi-t.lo >= 2 {
				list = append(list, ins{t.lo + 1, pick(r, []string{"é", "日本", "€", "ß"})})
			}
		case tkComment:
			list = append(list, ins{min(t.lo+2, t.hi), pick(r, []string{"é", "日本", " ü\n ", "\t"})})
		case tkSpace:
			list = append(list, ins{t.lo, pick(r, []string{"\t", "/*é*/", "/* 日\n本 */", " ", "\r\n", "/**/"})})
		default:
			list = append(list, ins{t.lo, pick(r, []string{" ", "\t", "/*é*/ ", "/* a\n b */ ", "`é\n日`+", "\"ü\"+"})})
		}
	}
	// apply from the end so offsets stay valid
	out := append([]byte(nil), src...)
	for i := 0; i < len(list); i++ {
		for j := i + 1; j < len(list); j++ {
			if list[j].at > list[i].at {
				list[i], list[j] = list[j], list[i]
			}
		}
	}
	for _, x := range list {
		at := min(x.at, len(out))
		out = splice(out, at, at, []byte(x.s))
	}
	return out
}

// RandomBytes returns an arbitrary byte string of length < maxLen drawn from
// one of several distributions (uniform bytes, ASCII-heavy, dictionary soup).
func RandomBytes(r *rand.Rand, maxLen int) []byte {
	n := r.Intn(maxLen)
	if r.Intn(3) == 0 {
		n = r.Intn(24)
	}
	var b []byte
	switch r.Intn(4) {
	case 0: // uniform
		b = make([]byte, n)
		for i := range b {
			b[i] = byte(r.Intn(256))
		}
	case 1: // printable ASCII biased to template punctuation
		const punct = "{}%#\"'`<>=/\\*.:;,()[] \n\t"
		b = make([]byte, n)
		for i := range b {
			if r.Intn(2) == 0 {
				b[i] = punct[r.Intn(len(punct))]
			} else {
				b[i] = byte(0x20 + r.Intn(0x5f))
			}
		}
	default: // dictionary soup
		for len(b) < n {
			b = append(b, dictToken(r)...)
			switch r.Intn(6) {
			case 0:
				b = append(b, ' ')
			case 1:
				b = append(b, byte(r.Intn(256)))
			case 2:
				b = append(b, 'a'+byte(r.Intn(26)))
			case 3:
				b = utf8.AppendRune(b, rune(0x80+r.Intn(0x3000)))
			}
		}
	}
	return b
}
