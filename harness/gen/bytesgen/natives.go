package bytesgen

import (
	"bytes"
	"errors"
	"fmt"
	"io"
	"math"
	"os"
	"reflect"
	"sort"
	"strconv"
	"strings"
	"sync"
	"time"
	"unicode"
	"unicode/utf8"

	"github.com/open2b/scriggo/builtin"
	"github.com/open2b/scriggo/native"
)

// Packages returns the native packages offered to built programs and templates,
// so that corpus sources importing the usual standard packages get past the type
// checker and reach the emitter and the disassembler. Nothing built is ever run.
func Packages() native.Packages {
	pkgs := basePackages()
	// "wide" offers several hundred distinct native functions and variables, so
	// that one function can refer to more of them than fit in a signed byte.
	decl := native.Declarations{}
	for i := 0; i < 300; i++ {
		i := i
		decl[fmt.Sprintf("W%d", i)] = func() int { return i }
		v := i
		decl[fmt.Sprintf("V%d", i)] = &v
	}
	pkgs["wide"] = native.Package{Name: "wide", Declarations: decl}
	return pkgs
}

func basePackages() native.Packages {
	return native.Packages{
		"fmt": native.Package{Name: "fmt", Declarations: native.Declarations{
			"Print": fmt.Print, "Printf": fmt.Printf, "Println": fmt.Println,
			"Sprint": fmt.Sprint, "Sprintf": fmt.Sprintf, "Sprintln": fmt.Sprintln,
			"Errorf": fmt.Errorf, "Fprint": fmt.Fprint, "Fprintf": fmt.Fprintf, "Fprintln": fmt.Fprintln,
			"Stringer": reflect.TypeFor[fmt.Stringer](),
		}},
		"strings": native.Package{Name: "strings", Declarations: native.Declarations{
			"Contains": strings.Contains, "HasPrefix": strings.HasPrefix, "HasSuffix": strings.HasSuffix,
			"Index": strings.Index, "Join": strings.Join, "Repeat": strings.Repeat, "Replace": strings.Replace,
			"Split": strings.Split, "ToLower": strings.ToLower, "ToUpper": strings.ToUpper, "TrimSpace": strings.TrimSpace,
			"Builder": reflect.TypeFor[strings.Builder](), "NewReader": strings.NewReader, "Fields": strings.Fields,
			"Title": strings.ToTitle, "Trim": strings.Trim, "NewReplacer": strings.NewReplacer,
		}},
		"strconv": native.Package{Name: "strconv", Declarations: native.Declarations{
			"Itoa": strconv.Itoa, "Atoi": strconv.Atoi, "Quote": strconv.Quote, "FormatInt": strconv.FormatInt,
			"ParseInt": strconv.ParseInt, "ParseFloat": strconv.ParseFloat, "FormatFloat": strconv.FormatFloat,
		}},
		"errors": native.Package{Name: "errors", Declarations: native.Declarations{
			"New": errors.New, "Is": errors.Is, "As": errors.As, "Unwrap": errors.Unwrap,
		}},
		"math": native.Package{Name: "math", Declarations: native.Declarations{
			"Abs": math.Abs, "Sqrt": math.Sqrt, "Floor": math.Floor, "Ceil": math.Ceil, "Pow": math.Pow,
			"Inf": math.Inf, "NaN": math.NaN, "IsNaN": math.IsNaN, "IsInf": math.IsInf, "Float64bits": math.Float64bits,
			"MaxInt64": native.UntypedNumericConst("9223372036854775807"), "MinInt64": native.UntypedNumericConst("-9223372036854775808"),
			"MaxInt32": native.UntypedNumericConst("2147483647"), "MaxUint32": native.UntypedNumericConst("4294967295"),
			"MaxInt8": native.UntypedNumericConst("127"), "MaxUint8": native.UntypedNumericConst("255"),
			"MaxInt16": native.UntypedNumericConst("32767"), "MaxUint16": native.UntypedNumericConst("65535"),
			"Pi":          native.UntypedNumericConst("3.14159265358979323846264338327950288419716939937510582097494459"),
			"MaxFloat64":  native.UntypedNumericConst("1.79769313486231570814527423731704356798070e+308"),
			"MaxFloat32":  native.UntypedNumericConst("3.40282346638528859811704183484516925440e+38"),
			"Copysign":    math.Copysign,
			"Signbit":     math.Signbit,
			"Float32bits": math.Float32bits,
		}},
		"sort": native.Package{Name: "sort", Declarations: native.Declarations{
			"Ints": sort.Ints, "Strings": sort.Strings, "Slice": sort.Slice, "Sort": sort.Sort,
			"Interface": reflect.TypeFor[sort.Interface](),
		}},
		"bytes": native.Package{Name: "bytes", Declarations: native.Declarations{
			"Buffer": reflect.TypeFor[bytes.Buffer](), "Equal": bytes.Equal, "NewBufferString": bytes.NewBufferString,
			"Contains": bytes.Contains, "NewBuffer": bytes.NewBuffer,
		}},
		"os": native.Package{Name: "os", Declarations: native.Declarations{
			"Exit": os.Exit, "Args": &os.Args, "Stdout": &os.Stdout, "Stderr": &os.Stderr, "Getenv": os.Getenv,
		}},
		"io": native.Package{Name: "io", Declarations: native.Declarations{
			"Writer": reflect.TypeFor[io.Writer](), "Reader": reflect.TypeFor[io.Reader](), "EOF": &io.EOF,
			"WriteString": io.WriteString, "ReadAll": io.ReadAll,
		}},
		"time": native.Package{Name: "time", Declarations: native.Declarations{
			"Now": time.Now, "Since": time.Since, "Sleep": time.Sleep, "Duration": reflect.TypeFor[time.Duration](),
			"Time": reflect.TypeFor[time.Time](), "Second": time.Second, "Millisecond": time.Millisecond,
			"After": time.After, "Month": reflect.TypeFor[time.Month](), "Date": time.Date, "UTC": &time.UTC,
		}},
		"sync": native.Package{Name: "sync", Declarations: native.Declarations{
			"Mutex": reflect.TypeFor[sync.Mutex](), "WaitGroup": reflect.TypeFor[sync.WaitGroup](),
			"Once": reflect.TypeFor[sync.Once](),
		}},
		"reflect": native.Package{Name: "reflect", Declarations: native.Declarations{
			"TypeOf": reflect.TypeOf, "ValueOf": reflect.ValueOf, "DeepEqual": reflect.DeepEqual,
			"Type": reflect.TypeFor[reflect.Type](), "Value": reflect.TypeFor[reflect.Value](), "Kind": reflect.TypeFor[reflect.Kind](),
			"Int": reflect.Int, "String": reflect.String,
		}},
		"unicode": native.Package{Name: "unicode", Declarations: native.Declarations{
			"IsLetter": unicode.IsLetter, "IsDigit": unicode.IsDigit, "IsSpace": unicode.IsSpace, "ToUpper": unicode.ToUpper,
			"MaxRune": native.UntypedNumericConst("1114111"),
		}},
		"unicode/utf8": native.Package{Name: "utf8", Declarations: native.Declarations{
			"RuneCountInString": utf8.RuneCountInString, "ValidString": utf8.ValidString, "RuneLen": utf8.RuneLen,
			"RuneError": native.UntypedNumericConst("65533"), "UTFMax": native.UntypedNumericConst("4"),
		}},
	}
}

// T is a struct type offered to templates as a global.
type T struct {
	A int
	B string
	C []string
	M map[string]int
}

// String implements fmt.Stringer.
func (t T) String() string { return t.B }

// Globals returns the template globals: scriggo's builtin declarations plus a few
// variables, functions and types frequently referred to by the corpus snippets.
func Globals() native.Declarations {
	g := native.Declarations{}
	g["abs"], g["max"], g["min"], g["join"], g["split"] = builtin.Abs, builtin.Max, builtin.Min, builtin.Join, builtin.Split
	g["toLower"], g["toUpper"], g["hasPrefix"], g["htmlEscape"] = builtin.ToLower, builtin.ToUpper, builtin.HasPrefix, builtin.HtmlEscape
	g["replace"], g["runeCount"], g["sort"], g["reverse"], g["Time"] = builtin.Replace, builtin.RuneCount, builtin.Sort, builtin.Reverse, reflect.TypeFor[builtin.Time]()
	g["html"], g["css"], g["js"], g["json"], g["markdown"] = reflect.TypeFor[native.HTML](), reflect.TypeFor[native.CSS](), reflect.TypeFor[native.JS](), reflect.TypeFor[native.JSON](), reflect.TypeFor[native.Markdown]()
	var (
		a, b, i, n, x, y int
		s, name, title   string
		ok               bool
		f                float64
		list             []int
		items            []string
		m                map[string]int
		t                T
		v                any
	)
	g["a"], g["b"], g["i"], g["n"], g["x"], g["y"] = &a, &b, &i, &n, &x, &y
	g["s"], g["name"], g["title"] = &s, &name, &title
	g["ok"], g["f"], g["list"], g["items"], g["m"], g["t"], g["v"] = &ok, &f, &list, &items, &m, &t, &v
	g["T"] = reflect.TypeFor[T]()
	g["MainSum"] = func(a, b int) int { return a + b }
	g["sprintf"] = fmt.Sprintf
	g["sprint"] = fmt.Sprint
	g["itoa"] = strconv.Itoa
	g["C1"] = native.UntypedNumericConst("42")
	g["CS"] = native.UntypedStringConst("cs")
	return g
}
