package bytesgen

import (
	"go/ast"
	"go/parser"
	"go/token"
	"io/fs"
	"os"
	"path/filepath"
	"sort"
	"strconv"
	"strings"
)

// Source is one corpus item: a single file or a multi-file set.
type Source struct {
	Name  string // where it comes from (path relative to the repository, or path#n for a snippet)
	Kind  string // "program" or "template"
	Main  string // name of the entry file inside Files ("main.go" for programs)
	Files []File // all files of the set (one for single-file sources)
	// Fragment is true for snippets that are neither a full program nor obviously
	// a template (expression/statement sources of the parser and checker tests);
	// the generator wraps them.
	Fragment bool
}

// MainData returns the content of the entry file.
func (s *Source) MainData() []byte {
	for _, f := range s.Files {
		if f.Name == s.Main {
			return f.Data
		}
	}
	return nil
}

// Corpus is the extracted repository corpus, in deterministic order.
type Corpus struct {
	Programs  []*Source // single-file programs (≤ maxSourceSize)
	Templates []*Source // single-file templates
	ProgSets  []*Source // multi-package programs (go.mod + packages)
	TmplSets  []*Source // multi-file templates
	Snippets  []*Source // program / template snippets embedded in Go test files
	Fragments []*Source // expression/statement snippets embedded in Go test files
}

const maxSourceSize = 12 << 10

var templateExts = map[string]bool{".html": true, ".css": true, ".js": true, ".json": true, ".md": true, ".txt": true}

// RepoDir returns the directory the corpus is extracted from.
func RepoDir() string {
	if d := os.Getenv("VERIF_CORPUS_REPO"); d != "" {
		return d
	}
	return "/repo"
}

// LoadCorpus extracts the corpus from the repository checkout at repo. It reads
// test/compare/testdata/** (programs, templates, *.dir sets), and the string
// literals of test/misc/*.go, internal/compiler/*_test.go and templates_test.go.
// If nothing can be read it falls back to a small embedded list, so generation
// never fails.
func LoadCorpus(repo string) *Corpus {
	c := &Corpus{}
	root := filepath.Join(repo, "test", "compare", "testdata")
	var paths []string
	filepath.WalkDir(root, func(p string, d fs.DirEntry, err error) error {
		if err != nil {
			return nil
		}
		if d.IsDir() {
			if strings.HasSuffix(p, ".dir") {
				c.addDir(repo, p)
				return filepath.SkipDir
			}
			return nil
		}
		paths = append(paths, p)
		return nil
	})
	sort.Strings(paths)
	for _, p := range paths {
		ext := filepath.Ext(p)
		if ext != ".go" && !templateExts[ext] {
			continue
		}
		b, err := os.ReadFile(p)
		if err != nil || len(b) == 0 || len(b) > maxSourceSize {
			continue
		}
		rel, _ := filepath.Rel(repo, p)
		if ext == ".go" {
			c.Programs = append(c.Programs, &Source{Name: rel, Kind: "program", Main: "main.go", Files: []File{{"main.go", b}}})
		} else {
			c.Templates = append(c.Templates, &Source{Name: rel, Kind: "template", Main: "index" + ext, Files: []File{{"index" + ext, b}}})
		}
	}
	var goFiles []string
	for _, pat := range []string{"test/misc/*.go", "internal/compiler/*_test.go", "templates_test.go", "programs_test.go", "internal/compiler/*/*_test.go"} {
		m, _ := filepath.Glob(filepath.Join(repo, pat))
		goFiles = append(goFiles, m...)
	}
	sort.Strings(goFiles)
	seen := map[string]bool{}
	for _, p := range goFiles {
		rel, _ := filepath.Rel(repo, p)
		for i, s := range stringLiterals(p) {
			if len(s) < 2 || len(s) > 3000 || seen[s] {
				continue
			}
			seen[s] = true
			name := rel + "#" + strconv.Itoa(i)
			t := strings.TrimSpace(s)
			switch {
			case strings.HasPrefix(t, "package ") && strings.Contains(t, "\n"):
				c.Snippets = append(c.Snippets, &Source{Name: name, Kind: "program", Main: "main.go", Files: []File{{"main.go", []byte(s)}}})
			case strings.Contains(s, "{{") || strings.Contains(s, "{%") || strings.Contains(s, "{#"):
				c.Snippets = append(c.Snippets, &Source{Name: name, Kind: "template", Main: "index.html", Files: []File{{"index.html", []byte(s)}}})
			default:
				if looksLikeCode(s) {
					c.Fragments = append(c.Fragments, &Source{Name: name, Kind: "fragment", Fragment: true, Files: []File{{"frag", []byte(s)}}, Main: "frag"})
				}
			}
		}
	}
	if len(c.Programs) == 0 && len(c.Templates) == 0 {
		c.fallback()
	}
	return c
}

// looksLikeCode keeps fragments that are plausibly Go expressions or statements
// (the tables of the parser and checker tests), not error messages.
func looksLikeCode(s string) bool {
	if strings.ContainsAny(s, "=()[]{}+*<>:;\"`") {
		// drop expected-error strings and printf formats that are mostly prose
		words := strings.Fields(s)
		if len(words) > 4 && !strings.ContainsAny(s, "=(){};") {
			return false
		}
		return true
	}
	return false
}

// addDir adds a *.dir multi-file set.
func (c *Corpus) addDir(repo, dir string) {
	var files []File
	total := 0
	filepath.WalkDir(dir, func(p string, d fs.DirEntry, err error) error {
		if err != nil || d.IsDir() {
			return nil
		}
		b, err := os.ReadFile(p)
		if err != nil {
			return nil
		}
		rel, _ := filepath.Rel(dir, p)
		files = append(files, File{filepath.ToSlash(rel), b})
		total += len(b)
		return nil
	})
	if len(files) == 0 || total > 4*maxSourceSize {
		return
	}
	sort.Slice(files, func(i, j int) bool { return files[i].Name < files[j].Name })
	rel, _ := filepath.Rel(repo, dir)
	hasMod, mainGo, index := false, "", ""
	for _, f := range files {
		switch {
		case f.Name == "go.mod":
			hasMod = true
		case f.Name == "main.go":
			mainGo = f.Name
		case strings.HasPrefix(f.Name, "index.") && templateExts[filepath.Ext(f.Name)]:
			index = f.Name
		}
	}
	switch {
	case mainGo != "" || hasMod:
		c.ProgSets = append(c.ProgSets, &Source{Name: rel, Kind: "program", Main: "main.go", Files: files})
	case index != "":
		c.TmplSets = append(c.TmplSets, &Source{Name: rel, Kind: "template", Main: index, Files: files})
	}
}

// stringLiterals returns the unquoted string literals of a Go file in source order.
func stringLiterals(path string) []string {
	fset := token.NewFileSet()
	f, err := parser.ParseFile(fset, path, nil, parser.SkipObjectResolution)
	if err != nil || f == nil {
		return nil
	}
	var out []string
	ast.Inspect(f, func(n ast.Node) bool {
		if imp, ok := n.(*ast.ImportSpec); ok && imp != nil {
			return false
		}
		if l, ok := n.(*ast.BasicLit); ok && l.Kind == token.STRING {
			if s, err := strconv.Unquote(l.Value); err == nil {
				out = append(out, s)
			}
		}
		return true
	})
	return out
}

func (c *Corpus) fallback() {
	add := func(kind, main, src string) {
		s := &Source{Name: "embedded:" + main, Kind: kind, Main: main, Files: []File{{main, []byte(src)}}}
		if kind == "program" {
			c.Programs = append(c.Programs, s)
		} else {
			c.Templates = append(c.Templates, s)
		}
	}
	add("program", "main.go", "package main\n\nimport \"fmt\"\n\nfunc f(a int, s string) (int, error) {\n\tif a > 0 {\n\t\treturn a + len(s), nil\n\t}\n\treturn 0, fmt.Errorf(\"bad %d\", a)\n}\n\nfunc main() {\n\tv, err := f(3, `x\ny`)\n\tfor i := 0; i < v; i++ {\n\t\tswitch {\n\t\tcase i%2 == 0:\n\t\t\tfmt.Println(i, err)\n\t\tdefault:\n\t\t\tdefer func() { recover() }()\n\t\t}\n\t}\n}\n")
	add("template", "index.html", "{% extends \"layout.html\" %}\n{% macro Body %}\n  {# a comment #}\n  {% for i, v := range []string{\"a\", \"b\"} %}<a href=\"/p?i={{ i }}\">{{ v }}</a>{% end for %}\n  {% if x := 5; x > 3 %}{{ x }}{% else %}no{% end %}\n  {%% var s = `raw` %%}\n  {{ render \"partial.html\" }}\n{% end macro %}\n")
	add("template", "index.md", "# Title {{ 1 + 2 }}\n\n    code {{ \"x\" }}\n\n[link](https://example.com/{{ \"a b\" }})\n{% raw %}{{ not parsed }}{% end raw %}\n")
}
