package bytesgen

import (
	"bytes"
	"fmt"
	"math/rand"
	"regexp"
	"strings"
)

// Exts are the six template formats.
var Exts = []string{".html", ".css", ".js", ".json", ".md", ".txt"}

// Gen produces inputs from a corpus. All methods are deterministic functions of
// the PRNG handed in.
type Gen struct {
	C *Corpus
	// singles is the list of single-file sources mutated most often.
	progs []*Source
	tmpls []*Source
}

// NewGen prepares a generator.
func NewGen(c *Corpus) *Gen {
	g := &Gen{C: c}
	g.progs = append(g.progs, c.Programs...)
	g.tmpls = append(g.tmpls, c.Templates...)
	for _, s := range c.Snippets {
		if s.Kind == "program" {
			g.progs = append(g.progs, s)
		} else {
			g.tmpls = append(g.tmpls, s)
		}
	}
	return g
}

// Valid filler files for multi-file sets, per role.
var (
	validLayout  = "<!DOCTYPE html>\n<html>\n<head><title>{{ Title() }}</title></head>\n<body>\n{# layout é #}\n{{ Body() }}\n</body>\n</html>\n"
	validLayout2 = "<html>{{ Body() }}</html>"
	validPartial = "<p class=\"p\">partial {{ 1 + 2 }} {% if true %}yes{% end %}</p>\n"
	validImp     = "{% macro M %}<b>m</b>{% end macro %}\n{% macro N(s string) %}{{ s }}{% end %}\n{% var V = 5 %}\n"
	validExtMain = "{% extends \"layout.html\" %}\n{% macro Title %}t{% end %}\n{% macro Body %}\n  body {{ 3 * 4 }}\n{% end macro %}\n"
	validRenMain = "<div>\n  {{ render \"partial.html\" }}\n</div>\n"
	validImpMain = "{% import \"imp.html\" %}\n{% import p \"imp.html\" %}\n<i>{{ M() }}{{ p.N(\"x\") }}{{ V }}</i>\n"
	validGoMod   = "module mod\n\ngo 1.21\n"
	validGoMain  = "package main\n\nimport (\n\t\"fmt\"\n\t\"mod/pkg\"\n)\n\nfunc main() {\n\tfmt.Println(pkg.F(2), pkg.V)\n}\n"
	validGoPkg   = "package pkg\n\nvar V = \"v\"\n\nfunc F(a int) int {\n\tif a > 1 {\n\t\treturn a * 2\n\t}\n\treturn a\n}\n"
)

var pathRef = regexp.MustCompile(`"(/?[A-Za-z0-9_./-]+\.(?:html|css|js|json|md|txt))"`)

func (g *Gen) randSingle(r *rand.Rand, program bool) *Source {
	if program {
		return g.progs[r.Intn(len(g.progs))]
	}
	return g.tmpls[r.Intn(len(g.tmpls))]
}

// fragment wraps an expression/statement snippet into a program or a template.
func (g *Gen) fragment(r *rand.Rand) (src []byte, program bool, name string) {
	if len(g.C.Fragments) == 0 {
		s := g.randSingle(r, false)
		return s.MainData(), false, s.Name
	}
	f := g.C.Fragments[r.Intn(len(g.C.Fragments))]
	d := string(f.MainData())
	switch r.Intn(7) {
	case 0:
		return []byte("package main\n\nfunc main() {\n\t" + d + "\n}\n"), true, f.Name
	case 1:
		return []byte("package main\n\nvar _ = " + d + "\n\nfunc main() {}\n"), true, f.Name
	case 2:
		return []byte("package main\n\n" + d + "\n\nfunc main() {}\n"), true, f.Name
	case 3:
		return []byte("{{ " + d + " }}"), false, f.Name
	case 4:
		return []byte("a{% " + d + " %}b"), false, f.Name
	case 5:
		return []byte("{%%\n" + d + "\n%%}"), false, f.Name
	default:
		return []byte("<a href=\"{{ " + d + " }}\">{% if " + d + " %}x{% end %}</a>"), false, f.Name
	}
}

func clip(b []byte) []byte {
	if len(b) > 8<<10 {
		return b[:8<<10]
	}
	return b
}

// single wraps one source text into an input.
func single(program bool, ext string, data []byte, fam, src string) Input {
	data = clip(data)
	if program {
		return Input{Kind: "program", Files: []File{{"main.go", data}}, Fam: fam, Src: src}
	}
	return Input{Kind: "template", Main: "index" + ext, Files: []File{{"index" + ext, data}}, Fam: fam, Src: src}
}

func extOf(name string) string {
	if i := strings.LastIndexByte(name, '.'); i >= 0 {
		return name[i:]
	}
	return ".html"
}

// Random returns an arbitrary-bytes input for a random format or a program.
func (g *Gen) Random(r *rand.Rand) Input {
	b := RandomBytes(r, 600)
	if r.Intn(4) == 0 {
		// a valid-looking prefix makes the bytes reach deeper states
		pre := []string{"package main\n", "{{ ", "{% ", "{%% ", "{# ", "<a href=\"", "<script>", "<style>", "{% raw %}", "package main\nfunc main() {\n", "{% macro M %}", "{% extends \"layout.html\" %}"}
		b = append([]byte(pick(r, pre)), b...)
	}
	if r.Intn(7) == 0 {
		in := single(true, "", b, "random", "")
		return in
	}
	in := single(false, Exts[r.Intn(len(Exts))], b, "random", "")
	in.NoParseShow = r.Intn(12) == 0
	return in
}

// Mutant returns a corpus source with 1..3 mutations, in a random format for
// templates (own format most of the time).
func (g *Gen) Mutant(r *rand.Rand) Input {
	var data []byte
	var program bool
	var name, ext string
	if r.Intn(5) == 0 {
		data, program, name = g.fragment(r)
		ext = ".html"
	} else {
		program = r.Intn(3) == 0
		s := g.randSingle(r, program)
		data, name, ext = s.MainData(), s.Name, extOf(s.Main)
	}
	other := g.randSingle(r, program).MainData()
	k := 1 + r.Intn(3)
	ops := ""
	for i := 0; i < k; i++ {
		var op string
		data, op = Mutate(r, data, !program, other)
		if i > 0 {
			ops += "+"
		}
		ops += op
	}
	if !program && r.Intn(3) == 0 {
		ext = Exts[r.Intn(len(Exts))]
	}
	in := single(program, ext, data, "mutant:"+ops, name)
	if !program {
		in.NoParseShow = r.Intn(20) == 0
		g.addReferenced(r, &in)
	}
	return in
}

// TypeErr returns a corpus source with one checker-level mutation (misspelled
// name, literal of another type, swapped operator) and optional decoration, so
// that type-checker errors with non-trivial prefixes are produced.
func (g *Gen) TypeErr(r *rand.Rand) Input {
	program := r.Intn(2) == 0
	var data []byte
	var name, ext string
	if r.Intn(4) == 0 {
		data, program, name = g.fragment(r)
		ext = ".html"
	} else {
		s := g.randSingle(r, program)
		data, name, ext = s.MainData(), s.Name, extOf(s.Main)
	}
	ops := []string{"misspell", "retype", "opSwap", "identKw"}
	want := ops[r.Intn(len(ops))]
	var op string
	for try := 0; try < 30; try++ {
		var d []byte
		d, op = Mutate(r, data, !program, nil)
		if op == want {
			data = d
			break
		}
	}
	fam := "typeerr:" + want
	switch r.Intn(4) {
	case 0:
		data = Decorate(r, data, !program)
		fam += "+decorate"
	case 1:
		data = bytes.ReplaceAll(bytes.ReplaceAll(data, []byte("\r\n"), []byte("\n")), []byte("\n"), []byte("\r\n"))
		fam += "+crlf"
	case 2:
		if r.Intn(3) == 0 {
			data = append([]byte("\xEF\xBB\xBF"), data...)
			fam += "+bom"
		}
	}
	in := single(program, ext, data, fam, name)
	if !program {
		g.addReferenced(r, &in)
	}
	return in
}

// Truncation returns src cut at offset n.
func (g *Gen) Truncation(s *Source, n int) Input {
	d := s.MainData()
	if n > len(d) {
		n = len(d)
	}
	in := single(s.Kind == "program", extOf(s.Main), append([]byte(nil), d[:n]...), "truncate", s.Name)
	return in
}

// TruncSources returns the deterministic list of sources used for truncation at
// every offset: a spread of programs and templates of moderate size.
func (g *Gen) TruncSources(r *rand.Rand, n int) []*Source {
	var cands []*Source
	for _, s := range g.C.Templates {
		if l := len(s.MainData()); l > 20 && l <= 4096 {
			cands = append(cands, s)
		}
	}
	np := 0
	for _, s := range g.C.Programs {
		if l := len(s.MainData()); l > 40 && l <= 2500 {
			cands = append(cands, s)
			np++
		}
	}
	for _, s := range g.C.Snippets {
		if l := len(s.MainData()); l > 30 && l <= 1500 {
			cands = append(cands, s)
		}
	}
	r.Shuffle(len(cands), func(i, j int) { cands[i], cands[j] = cands[j], cands[i] })
	// templates first half, so every format-specific lexer state is cut
	var out []*Source
	nt := 0
	for _, s := range cands {
		if len(out) >= n {
			break
		}
		if s.Kind == "template" {
			if nt >= (n*2)/3 {
				continue
			}
			nt++
		}
		out = append(out, s)
	}
	return out
}

// addReferenced adds files for the paths a template source refers to (extends,
// import, render), so that expansion proceeds into other files: mostly valid
// fillers, sometimes a mutated one, sometimes missing.
func (g *Gen) addReferenced(r *rand.Rand, in *Input) {
	main, _ := in.File(in.Main)
	seen := map[string]bool{in.Main: true}
	for _, m := range pathRef.FindAllSubmatch(main, 8) {
		p := strings.TrimPrefix(string(m[1]), "/")
		if seen[p] || strings.Contains(p, "..") || r.Intn(8) == 0 {
			continue
		}
		seen[p] = true
		var body string
		switch {
		case strings.Contains(p, "layout") || strings.Contains(p, "extend"):
			body = validLayout
		case strings.Contains(p, "imp"):
			body = validImp
		default:
			body = validPartial
		}
		in.Files = append(in.Files, File{p, []byte(body)})
	}
}

// MultiTemplate returns a multi-file template set in which one file is hostile
// (mutated, truncated or random) and the others are valid. role selects the
// relationship.
func (g *Gen) MultiTemplate(r *rand.Rand) Input {
	hostile := func() ([]byte, string) {
		switch r.Intn(6) {
		case 0:
			return RandomBytes(r, 300), "random"
		case 1:
			s := g.randSingle(r, false)
			d := s.MainData()
			return append([]byte(nil), d[:r.Intn(len(d)+1)]...), "trunc:" + s.Name
		default:
			s := g.randSingle(r, false)
			d := s.MainData()
			var op string
			k := 1 + r.Intn(2)
			for i := 0; i < k; i++ {
				d, op = Mutate(r, d, true, g.randSingle(r, false).MainData())
			}
			return d, "mut:" + op + ":" + s.Name
		}
	}
	mutateValid := func(v string) ([]byte, string) {
		// the valid filler itself, mutated: errors inside macros of included files
		d := []byte(v)
		var op string
		d, op = Mutate(r, d, true, nil)
		if r.Intn(3) == 0 {
			d = Decorate(r, d, true)
		}
		return d, "mutfill:" + op
	}
	ext := ".html"
	if r.Intn(4) == 0 {
		ext = Exts[r.Intn(len(Exts))]
	}
	var in Input
	in.Kind = "template"
	role := r.Intn(12)
	switch role {
	case 0: // valid main extends hostile layout
		h, how := hostile()
		in.Main = "index.html"
		in.Files = []File{{"index.html", []byte(validExtMain)}, {"layout.html", h}}
		in.Fam, in.Mut = "multi:extends-hostile:"+how, "layout.html"
	case 1: // valid main renders hostile partial (any format)
		h, how := hostile()
		p := "partial" + ext
		in.Main = "index.html"
		in.Files = []File{{"index.html", []byte(strings.ReplaceAll(validRenMain, "partial.html", p))}, {p, h}}
		in.Fam, in.Mut = "multi:render-hostile:"+how, p
	case 2: // valid main imports hostile file
		h, how := hostile()
		in.Main = "index.html"
		in.Files = []File{{"index.html", []byte(validImpMain)}, {"imp.html", h}}
		in.Fam, in.Mut = "multi:import-hostile:"+how, "imp.html"
	case 3: // mutated filler in an extended layout
		h, how := mutateValid(validLayout)
		in.Main = "index.html"
		in.Files = []File{{"index.html", []byte(validExtMain)}, {"layout.html", h}}
		in.Fam, in.Mut = "multi:extends-"+how, "layout.html"
	case 4: // mutated filler rendered, nested one level deeper in a sub-directory
		h, how := mutateValid(validPartial)
		in.Main = "index.html"
		in.Files = []File{
			{"index.html", []byte("<div>\n\t{{ render \"sub/mid.html\" }}\n</div>\n")},
			{"sub/mid.html", []byte("é{# c #}\n<ul>{{ render \"leaf.html\" }}{{ render \"/partial.html\" }}</ul>\n")},
			{"sub/leaf.html", h},
			{"partial.html", []byte(validPartial)},
		}
		in.Fam, in.Mut = "multi:render-nested-"+how, "sub/leaf.html"
	case 5: // mutated filler imported
		h, how := mutateValid(validImp)
		in.Main = "index.html"
		in.Files = []File{{"index.html", []byte(validImpMain)}, {"imp.html", h}}
		in.Fam, in.Mut = "multi:import-"+how, "imp.html"
	case 6: // hostile main extends a valid layout
		h, how := mutateValid(validExtMain)
		in.Main = "index.html"
		in.Files = []File{{"index.html", h}, {"layout.html", []byte(validLayout)}}
		in.Fam, in.Mut = "multi:hostile-extends:"+how, "index.html"
	case 7: // hostile main renders / imports valid files
		v := validRenMain
		if r.Intn(2) == 0 {
			v = validImpMain
		}
		h, how := mutateValid(v)
		in.Main = "index.html"
		in.Files = []File{{"index.html", h}, {"partial.html", []byte(validPartial)}, {"imp.html", []byte(validImp)}}
		in.Fam, in.Mut = "multi:hostile-includes:"+how, "index.html"
	case 8: // corpus multi-file set with one file mutated
		if len(g.C.TmplSets) > 0 {
			s := g.C.TmplSets[r.Intn(len(g.C.TmplSets))]
			in.Main = s.Main
			k := r.Intn(len(s.Files))
			for i, f := range s.Files {
				d := f.Data
				if i == k {
					var op string
					d, op = Mutate(r, d, true, nil)
					in.Mut = f.Name
					in.Fam = "multi:set:" + op
				}
				in.Files = append(in.Files, File{f.Name, clip(d)})
			}
			in.Src = s.Name
			break
		}
		fallthrough
	case 9: // cycles and self references
		in.Main = "index.html"
		switch r.Intn(4) {
		case 0:
			in.Files = []File{{"index.html", []byte("a{{ render \"index.html\" }}")}}
		case 1:
			in.Files = []File{{"index.html", []byte("{% extends \"layout.html\" %}")}, {"layout.html", []byte("{% extends \"index.html\" %}")}}
		case 2:
			in.Files = []File{{"index.html", []byte("x\n{{ render \"a.html\" }}")}, {"a.html", []byte("\n\n  {% import \"b.html\" %}")}, {"b.html", []byte("{% import \"a.html\" %}")}}
		default:
			in.Files = []File{{"index.html", []byte("{{ render \"p.html\" }}{% import \"p.html\" %}")}, {"p.html", []byte("p")}}
		}
		in.Fam, in.Mut = "multi:cycle", "index.html"
	case 10: // hostile corpus source as main with its references supplied
		h, how := hostile()
		in.Main = "index" + ext
		in.Files = []File{{in.Main, h}}
		in.Fam, in.Mut = "multi:hostile-main:"+how, in.Main
		g.addReferenced(r, &in)
	default: // cross-format: Markdown extends HTML, partials of other formats
		h, how := mutateValid("# T {{ 1 }}\n\n    code {{ 2 }}\n\n[a](https://x.y/{{ 3 }})\n{{ render \"p.js\" }}\n")
		in.Main = "index.md"
		in.Files = []File{{"index.md", h}, {"p.js", []byte("var a = {{ 5 }};\n")}}
		in.Fam, in.Mut = "multi:md:"+how, "index.md"
	}
	for i := range in.Files {
		in.Files[i].Data = clip(in.Files[i].Data)
	}
	return in
}

// MultiProgram returns a go.mod program set in which one file is hostile.
func (g *Gen) MultiProgram(r *rand.Rand) Input {
	in := Input{Kind: "program"}
	if r.Intn(10) == 0 {
		// import cycles of 1..4 packages, entered from main after 0..2 other packages
		n := 1 + r.Intn(4)
		lead := r.Intn(3)
		name := func(i int) string { return fmt.Sprintf("p%d", i) }
		files := []File{{"go.mod", []byte("module cyc\n")}}
		first := "cyc/" + name(0)
		files = append(files, File{"main.go", []byte("package main\n\nimport (\n\t\"fmt\"\n\t_ \"" + first + "\"\n)\n\nfunc main() { fmt.Println() }\n")})
		total := lead + n
		for i := 0; i < total; i++ {
			next := i + 1
			if i == total-1 {
				next = lead // close the cycle
			}
			src := fmt.Sprintf("// é\npackage %s\n\n\timport _ \"cyc/%s\"\n", name(i), name(next))
			files = append(files, File{name(i) + "/" + name(i) + ".go", []byte(src)})
		}
		in.Files = files
		in.Fam = fmt.Sprintf("multiprog:cycle:%d+%d", lead, n)
		in.Mut = files[len(files)-1].Name
		return in
	}
	files := []File{{"go.mod", []byte(validGoMod)}, {"main.go", []byte(validGoMain)}, {"pkg/pkg.go", []byte(validGoPkg)}}
	if len(g.C.ProgSets) > 0 && r.Intn(3) == 0 {
		s := g.C.ProgSets[r.Intn(len(g.C.ProgSets))]
		files = nil
		for _, f := range s.Files {
			files = append(files, File{f.Name, clip(f.Data)})
		}
		in.Src = s.Name
	}
	k := r.Intn(len(files))
	d := files[k].Data
	var how string
	switch r.Intn(5) {
	case 0:
		d, how = RandomBytes(r, 200), "random"
	case 1:
		d, how = append([]byte(nil), d[:r.Intn(len(d)+1)]...), "trunc"
	default:
		d, how = Mutate(r, d, false, g.randSingle(r, true).MainData())
		if r.Intn(3) == 0 {
			d = Decorate(r, d, false)
		}
	}
	files[k].Data = clip(d)
	in.Files = files
	in.Mut = files[k].Name
	in.Fam = fmt.Sprintf("multiprog:%s", how)
	return in
}

// Verbatim returns an unmodified corpus source (valid builds reach the emitter
// and the disassembler), in its own format or, for templates, sometimes another.
func (g *Gen) Verbatim(r *rand.Rand) Input {
	switch r.Intn(6) {
	case 0:
		if len(g.C.TmplSets) > 0 {
			s := g.C.TmplSets[r.Intn(len(g.C.TmplSets))]
			return Input{Kind: "template", Main: s.Main, Files: s.Files, Fam: "verbatim:set", Src: s.Name}
		}
	case 1:
		if len(g.C.ProgSets) > 0 {
			s := g.C.ProgSets[r.Intn(len(g.C.ProgSets))]
			return Input{Kind: "program", Files: s.Files, Fam: "verbatim:set", Src: s.Name}
		}
	case 2:
		d, program, name := g.fragment(r)
		return single(program, ".html", d, "verbatim:fragment", name)
	}
	program := r.Intn(2) == 0
	s := g.randSingle(r, program)
	ext := extOf(s.Main)
	if !program && r.Intn(4) == 0 {
		ext = Exts[r.Intn(len(Exts))]
	}
	in := single(program, ext, s.MainData(), "verbatim", s.Name)
	if !program {
		g.addReferenced(r, &in)
	}
	return in
}

// TruncInputs returns truncations of nSources corpus sources. With perSource <= 0
// every byte offset 0..len is produced; otherwise perSource offsets per source
// are sampled (always including 0, len-1 and len).
func (g *Gen) TruncInputs(r *rand.Rand, nSources, perSource int) []Input {
	var out []Input
	for _, s := range g.TruncSources(r, nSources) {
		l := len(s.MainData())
		if perSource <= 0 || perSource >= l+1 {
			for n := 0; n <= l; n++ {
				out = append(out, g.Truncation(s, n))
			}
			continue
		}
		seen := map[int]bool{}
		for _, n := range []int{0, l - 1, l} {
			if n >= 0 && !seen[n] {
				seen[n] = true
				out = append(out, g.Truncation(s, n))
			}
		}
		for len(seen) < perSource {
			n := r.Intn(l + 1)
			if !seen[n] {
				seen[n] = true
				out = append(out, g.Truncation(s, n))
			}
		}
	}
	return out
}

// Mix is a number of inputs per family.
type Mix struct {
	Random, Mutant, TypeErr, MultiT, MultiP, Verbatim int
	// structured families (structured.go); MaxDepth bounds the Deep family
	TmplSyntax, Deep, Amp, Wide int
	MaxDepth                    int
}

// Batch generates the inputs of a mix, interleaved deterministically.
func (g *Gen) Batch(r *rand.Rand, m Mix) []Input {
	var out []Input
	if m.MaxDepth <= 0 {
		m.MaxDepth = 1000
	}
	for m.Random+m.Mutant+m.TypeErr+m.MultiT+m.MultiP+m.Verbatim+m.TmplSyntax+m.Deep+m.Amp+m.Wide > 0 {
		if m.Wide > 0 {
			out = append(out, g.Wide(r))
			m.Wide--
		}
		if m.TmplSyntax > 0 {
			out = append(out, g.TemplateSyntax(r))
			m.TmplSyntax--
		}
		if m.Deep > 0 {
			out = append(out, g.Deep(r, m.MaxDepth))
			m.Deep--
		}
		if m.Amp > 0 {
			out = append(out, g.Amp(r))
			m.Amp--
		}
		if m.Random > 0 {
			out = append(out, g.Random(r))
			m.Random--
		}
		if m.Mutant > 0 {
			out = append(out, g.Mutant(r))
			m.Mutant--
		}
		if m.TypeErr > 0 {
			out = append(out, g.TypeErr(r))
			m.TypeErr--
		}
		if m.MultiT > 0 {
			out = append(out, g.MultiTemplate(r))
			m.MultiT--
		}
		if m.MultiP > 0 {
			out = append(out, g.MultiProgram(r))
			m.MultiP--
		}
		if m.Verbatim > 0 {
			out = append(out, g.Verbatim(r))
			m.Verbatim--
		}
	}
	return out
}
