package bytesgen

import (
	"encoding/json"
	"math/rand"
	"os"
	"path/filepath"
	"reflect"
	"strings"
	"testing"
)

func TestCorpusAndDeterminism(t *testing.T) {
	c := LoadCorpus(RepoDir())
	t.Logf("programs=%d templates=%d progsets=%d tmplsets=%d snippets=%d fragments=%d", len(c.Programs), len(c.Templates), len(c.ProgSets), len(c.TmplSets), len(c.Snippets), len(c.Fragments))
	if len(c.Programs) == 0 || len(c.Templates) == 0 {
		t.Fatal("empty corpus")
	}
	g := NewGen(c)
	mix := Mix{Random: 50, Mutant: 200, TypeErr: 100, MultiT: 100, MultiP: 50, Verbatim: 50}
	a := g.Batch(rand.New(rand.NewSource(5)), mix)
	b := g.Batch(rand.New(rand.NewSource(5)), mix)
	ja, _ := json.Marshal(a)
	jb, _ := json.Marshal(b)
	if string(ja) != string(jb) {
		t.Fatal("generation is not deterministic")
	}
	var back []Input
	if err := json.Unmarshal(ja, &back); err != nil {
		t.Fatal(err)
	}
	for i := range a {
		for j := range a[i].Files {
			if string(a[i].Files[j].Data) != string(back[i].Files[j].Data) || a[i].Files[j].Name != back[i].Files[j].Name {
				t.Fatalf("input %d file %d does not survive the JSON round trip: %q", i, j, a[i].Files[j].Data)
			}
		}
		if a[i].Size() > 64<<10 {
			t.Fatalf("input %d too large: %d", i, a[i].Size())
		}
	}
	fams := map[string]int{}
	for _, in := range a {
		fams[in.Fam]++
	}
	t.Logf("%d distinct families", len(fams))
	tr := g.TruncInputs(rand.New(rand.NewSource(1)), 10, 0)
	tr2 := g.TruncInputs(rand.New(rand.NewSource(1)), 10, 0)
	if !reflect.DeepEqual(tr, tr2) || len(tr) == 0 {
		t.Fatal("truncation list not deterministic")
	}
}

func TestTokenizeCoversSource(t *testing.T) {
	for _, tc := range []struct {
		src  string
		tmpl bool
	}{
		{"a <b c=\"d\">{{ x + 1 }}{% if a %}é{% end %}{# c #}{%% var s = `r` %%}", true},
		{"package main\nfunc main() { x := \"s\\\"\" /* c */ // d\n}", false},
		{"{#", true}, {"{{", true}, {"{%%", true}, {"\"", false}, {"'\\", false}, {"`", false},
	} {
		toks := tokenize([]byte(tc.src), tc.tmpl)
		pos := 0
		for _, k := range toks {
			if k.lo != pos || k.hi <= k.lo || k.hi > len(tc.src) {
				t.Fatalf("%q: bad token %+v at pos %d", tc.src, k, pos)
			}
			pos = k.hi
		}
		if pos != len(tc.src) {
			t.Fatalf("%q: tokens end at %d", tc.src, pos)
		}
	}
	r := rand.New(rand.NewSource(3))
	for i := 0; i < 3000; i++ {
		b := RandomBytes(r, 200)
		for _, tm := range []bool{true, false} {
			pos := 0
			for _, k := range tokenize(b, tm) {
				if k.lo != pos || k.hi <= k.lo || k.hi > len(b) {
					t.Fatalf("%q: bad token %+v", b, k)
				}
				pos = k.hi
			}
			if pos != len(b) {
				t.Fatalf("%q: tokens end at %d of %d", b, pos, len(b))
			}
			Mutate(r, b, tm, b)
		}
	}
}

func TestDecorateNeverPanics(t *testing.T) {
	r := rand.New(rand.NewSource(9))
	for i := 0; i < 20000; i++ {
		b := RandomBytes(r, 40)
		Decorate(r, b, i%2 == 0)
		Decorate(r, []byte("/*"), false)
		Decorate(r, []byte("{#"), true)
		Decorate(r, []byte("//"), false)
	}
}

func TestStructuredFamilies(t *testing.T) {
	g := NewGen(LoadCorpus(RepoDir()))
	r := rand.New(rand.NewSource(4))
	for i := 0; i < 3000; i++ {
		for _, in := range []Input{g.TemplateSyntax(r), g.Deep(r, 500), g.Amp(r)} {
			if len(in.Files) == 0 || in.Fam == "" || in.Size() == 0 {
				t.Fatalf("bad input %+v", in)
			}
			if in.Kind == "template" {
				if _, ok := in.File(in.Main); !ok {
					t.Fatalf("main file missing: %s", in.Describe(200))
				}
			}
		}
	}
	for k := 0; k < NestKinds(); k++ {
		in := DeepOf(k, 300)
		if d := NestingDepth(in.Files[0].Data); d < 290 {
			t.Errorf("%s: NestingDepth = %d for depth 300", in.Fam, d)
		}
	}
	if d := NestingDepth([]byte("package main\n\nfunc main() {\n\tx := f(a[1], b) + 2\n}\n")); d > 6 {
		t.Errorf("NestingDepth of ordinary code = %d", d)
	}
}

// TestDumpStructured writes one input of every wide kind (and a few others) to
// $BYTESGEN_DUMP as JSON files, for manual probing; it does nothing otherwise.
func TestDumpStructured(t *testing.T) {
	dir := os.Getenv("BYTESGEN_DUMP")
	if dir == "" {
		t.Skip("BYTESGEN_DUMP not set")
	}
	g := NewGen(LoadCorpus(RepoDir()))
	r := rand.New(rand.NewSource(11))
	seen := map[string]bool{}
	for i := 0; i < 4000; i++ {
		in := g.Wide(r)
		key := in.Fam[:strings.LastIndexByte(in.Fam, ':')]
		if in.Fam[len(in.Fam)-3:] != "257" && in.Fam[len(in.Fam)-3:] != "130" || seen[in.Fam] {
			continue
		}
		seen[in.Fam] = true
		b, _ := json.Marshal(in)
		os.WriteFile(filepath.Join(dir, strings.ReplaceAll(in.Fam, ":", "_")+".json"), b, 0o644)
		_ = key
	}
}
