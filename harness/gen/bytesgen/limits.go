package bytesgen

import (
	"os"
	"runtime/debug"
	"sync"
	"syscall"
)

// MaxStack is the cap put on the stack of every goroutine of a worker child. The
// Go default is 1 GB, which the recursive parser, type checker and emitter exhaust
// only with sources of several hundred kilobytes that take about half a minute to
// die; with 64 MiB the same unbounded recursion shows at a depth about 16 times
// smaller, in a second or two.
const MaxStack = 64 << 20

// AddressSpaceLimit is the cap put on the address space of a worker child.
const AddressSpaceLimit = 8 << 30

// LimitAddressSpace caps the address space of the calling process (not under the
// race detector, which needs a large shadow mapping), so that a build that tries to
// allocate tens of gigabytes dies at once with "out of memory" — a process death
// the driver attributes to the input — instead of thrashing until a watchdog fires.
var LimitAddressSpace = sync.OnceFunc(func() {
	if os.Getenv("VERIF_RACELOG") != "" {
		return
	}
	lim := syscall.Rlimit{Cur: AddressSpaceLimit, Max: AddressSpaceLimit}
	syscall.Setrlimit(syscall.RLIMIT_AS, &lim)
})

// LimitStack caps the goroutine stacks of the calling process to MaxStack.
var LimitStack = sync.OnceFunc(func() { debug.SetMaxStack(MaxStack) })
