package bytesgen

import (
	"os"
	"sync"
	"syscall"
)

// AddressSpaceLimit is the cap put on the address space of a worker child.
const AddressSpaceLimit = 8 << 30

// LimitAddressSpace caps the address space of the calling process (not under the
// race detector, which needs a large shadow mapping), so that a build that tries to
// allocate tens of gigabytes dies at once with "out of memory" — a process death
// the driver attributes to the input — instead of thrashing until a watchdog fires.
var LimitAddressSpace = sync.OnceFunc(func() {
	if os.Getenv("VERIF_RACELOG") != "" {
		return
	}
	lim := syscall.Rlimit{Cur: AddressSpaceLimit, Max: AddressSpaceLimit}
	syscall.Setrlimit(syscall.RLIMIT_AS, &lim)
})
