package goprog

import (
	"fmt"
	"math/rand"
	"sort"
	"strconv"
	"strings"
)

// Config controls generation.
type Config struct {
	Stmts          int  // rough statement budget of main and of each function
	Funcs          int  // number of generated functions
	Faults         bool // allow runtime faults (mostly recovered, sometimes ending the program)
	NegShift       bool // allow signed shift counts that may be negative (gc panics)
	DeferNative    bool // allow `defer println(...)` style deferred builtin/native calls
	Complex        bool // allow complex128 arithmetic
	LabelledCtl    bool // allow labelled break/continue (labels and goto are always used)
	RangePanic     bool // allow panics (recovered or not) while a for-range loop is active
	AssertMsgDT    bool // allow failed type assertions that involve a defined type (message is printed)
	DeferBuiltinDT bool // allow deferred print/println calls with arguments of defined types
	PanicDefType   bool // allow panic values of program-defined types (the message is printed if not recovered)
}

// DefaultConfig is a medium-size configuration.
func DefaultConfig() Config {
	return Config{Stmts: 14, Funcs: 5, Faults: true, Complex: true, LabelledCtl: true, NegShift: true, DeferNative: true, RangePanic: true, AssertMsgDT: true, DeferBuiltinDT: true, PanicDefType: true}
}

// Program is a generated program.
type Program struct {
	Source   string
	Features []string // constructs used (for coverage accounting)
}

type variable struct {
	name     string
	t        *Type
	readOnly bool // never assigned after declaration (small floats, loop vars, constants)
	smallF   bool // float known to hold a small integral-ish value (safe to convert to ints)
	isConst  bool // declared with const
	noAlias  bool // slice that may be appended to (never aliased)
	nonNil   bool
}

type function struct {
	name    string
	params  []*variable
	results []*Type
	pure    bool
	varT    *Type // variadic element type (last param is ...varT)
}

type scope struct {
	parent *scope
	vars   []*variable
	// control-flow context
	loops  []string // enclosing loop labels ("" for unlabelled)
	inFunc *function
	named  []*variable // named results of the enclosing function
	noCtl  bool        // inside a closure body used as expression: no break/continue to outer loops
	pure   bool        // inside a pure function: no impure calls, no faults, no globals
	quiet  bool        // no faults and no impure calls (body of a for-range loop when RangePanic is off)
}

type gen struct {
	r        *rand.Rand
	cfg      Config
	id       int
	types    []*Type // composite and defined types usable in this program
	structs  []*Type
	defined  []*Type
	funcs    []*function
	pures    []*function
	globals  []*variable
	decls    []string // top-level declarations (shuffled at the end)
	features map[string]bool
	depth    int
	helpers  map[string]string // helper functions by name
	zeroVars map[string]string // type name -> zero var name
	labelN   int
}

func (g *gen) feat(s string) { g.features[s] = true }

func (g *gen) newID(prefix string) string {
	g.id++
	return prefix + strconv.Itoa(g.id)
}

// Generate produces one program.
func Generate(r *rand.Rand, cfg Config) Program {
	g := &gen{r: r, cfg: cfg, features: map[string]bool{}, helpers: map[string]string{}, zeroVars: map[string]string{}}
	g.makeTypes()
	g.makeGlobals()
	nf := cfg.Funcs
	for i := 0; i < nf; i++ {
		g.makeFunc(i)
	}
	g.makeMain()
	// assemble
	var sb strings.Builder
	sb.WriteString("package main\n\n")
	decls := append([]string(nil), g.decls...)
	var hnames []string
	for n := range g.helpers {
		hnames = append(hnames, n)
	}
	sort.Strings(hnames)
	for _, n := range hnames {
		decls = append(decls, g.helpers[n])
	}
	var znames []string
	for tn := range g.zeroVars {
		znames = append(znames, tn)
	}
	sort.Strings(znames)
	for _, tn := range znames {
		decls = append(decls, fmt.Sprintf("var %s %s", g.zeroVars[tn], tn))
	}
	r.Shuffle(len(decls), func(i, j int) { decls[i], decls[j] = decls[j], decls[i] })
	for _, d := range decls {
		sb.WriteString(d)
		sb.WriteString("\n\n")
	}
	var feats []string
	for f := range g.features {
		feats = append(feats, f)
	}
	sort.Strings(feats)
	return Program{Source: sb.String(), Features: feats}
}

// ---------- types ----------

func (g *gen) makeTypes() {
	r := g.r
	// defined basic types
	for i := 0; i < 1+r.Intn(2); i++ {
		u := pick(r, []*Type{TInt, TInt8, TInt32, TUint16, TUint8, TFloat64, TString, TInt64, TUint32})
		t := *u
		t.Name = fmt.Sprintf("D%d", i)
		t.Under = u
		g.defined = append(g.defined, &t)
		g.decls = append(g.decls, fmt.Sprintf("type %s %s", t.Name, u.Name))
		g.feat("defined-type")
	}
	// struct types
	for i := 0; i < 1+r.Intn(3); i++ {
		st := &Type{Kind: KStruct, Name: fmt.Sprintf("S%d", i)}
		nf := 1 + r.Intn(4)
		var fs []string
		for j := 0; j < nf; j++ {
			var ft *Type
			switch {
			case r.Intn(6) == 0 && len(g.structs) > 0:
				ft = pick(r, g.structs)
			case r.Intn(7) == 0:
				ft = sliceOf(g.basic())
			case r.Intn(9) == 0:
				ft = arrayOf(1+r.Intn(3), g.basic())
			default:
				ft = g.basic()
			}
			f := Field{Name: fmt.Sprintf("F%d", j), T: ft}
			st.Fields = append(st.Fields, f)
			fs = append(fs, f.Name+" "+ft.Name)
		}
		g.structs = append(g.structs, st)
		g.decls = append(g.decls, fmt.Sprintf("type %s struct {\n\t%s\n}", st.Name, strings.Join(fs, "\n\t")))
	}
	// composite types
	add := func(t *Type) { g.types = append(g.types, t) }
	for _, s := range g.structs {
		add(s)
	}
	for i := 0; i < 3; i++ {
		add(sliceOf(g.basic()))
	}
	add(sliceOf(TInt))
	add(sliceOf(TString))
	add(sliceOf(TUint8))
	add(sliceOf(pick(r, g.structs)))
	add(arrayOf(1+r.Intn(4), g.basic()))
	add(arrayOf(2+r.Intn(3), pick(r, g.structs)))
	add(mapOf(TString, TInt))
	add(mapOf(TInt, TString))
	add(mapOf(pick(r, []*Type{TInt8, TUint16, TString, TInt64, TBool}), g.basic()))
	add(ptrTo(TInt))
	add(ptrTo(g.basic()))
	add(ptrTo(pick(r, g.structs)))
	add(funcOf([]*Type{TInt}, []*Type{TInt}))
	add(funcOf([]*Type{g.basic(), g.basic()}, []*Type{g.basic()}))
	add(TAny)
}

// basic returns a random basic type (predeclared or defined).
func (g *gen) basic() *Type {
	r := g.r
	if len(g.defined) > 0 && r.Intn(8) == 0 {
		return pick(r, g.defined)
	}
	switch r.Intn(10) {
	case 0:
		return TBool
	case 1, 2:
		return TString
	case 3:
		return pick(r, FloatTypes)
	case 4:
		if g.cfg.Complex && r.Intn(3) == 0 {
			return TComplex
		}
		return TFloat64
	default:
		return pick(r, IntTypes)
	}
}

// anyType returns a random type, basic or composite.
func (g *gen) anyType() *Type {
	if g.r.Intn(3) == 0 {
		return pick(g.r, g.types)
	}
	return g.basic()
}

func (g *gen) zero(t *Type) string {
	if v, ok := g.zeroVars[t.Name]; ok {
		return v
	}
	v := "z_" + strings.NewReplacer("[", "_", "]", "_", "*", "p", " ", "").Replace(t.Name)
	g.zeroVars[t.Name] = v
	return v
}

// nonConst turns a constant expression into a non-constant one of the same value.
func (g *gen) nonConst(code string, t *Type) string {
	switch t.Kind {
	case KBool:
		return "(" + code + " || " + g.zero(t) + ")"
	default:
		return "(" + code + " + " + g.zero(t) + ")"
	}
}

// ---------- literals ----------

func (g *gen) intLit(t *Type) string {
	r := g.r
	min, max := t.minMax()
	var v string
	switch r.Intn(10) {
	case 0:
		v = "0"
	case 1:
		v = "1"
	case 2:
		if !t.Unsigned {
			v = "-1"
		} else {
			v = strconv.FormatUint(max, 10)
		}
	case 3:
		v = strconv.FormatUint(max, 10)
	case 4:
		v = strconv.FormatInt(min, 10)
	case 5:
		v = strconv.FormatUint(max-uint64(r.Intn(3)), 10)
	case 6:
		k := uint(r.Intn(t.Bits - 1))
		v = strconv.FormatUint((uint64(1)<<k)+uint64(r.Intn(2)), 10)
	default:
		n := r.Intn(200) - 60
		if t.Unsigned && n < 0 {
			n = -n
		}
		if t.Bits == 8 && !t.Unsigned && (n > 127 || n < -128) {
			n = n % 100
		}
		v = strconv.Itoa(n)
	}
	return v
}

var floatLits = []string{"0.0", "1.0", "-1.0", "0.5", "1.5", "3.25", "-2.75", "1e10", "1e-10", "123456.789", "0.1", "-0.3", "7.0", "1e30", "2.5e-5", "255.0", "65536.0"}
var smallFloatLits = []string{"0.0", "1.0", "-1.0", "3.0", "7.5", "-2.25", "100.0", "127.9", "-128.5", "42.0"}
var stringLits = []string{`""`, `"a"`, `"hello"`, `"héllo"`, `"日本語"`, `"x\ty"`, `"\x00z"`, `"A long string, with punctuation!"`, `"\xff\xfe"`, `"😀 ok"`, `"0123456789"`, `"%d{{ }}"`}

// lit returns a constant expression of exactly type t.
func (g *gen) lit(t *Type) string {
	r := g.r
	wrap := func(def string, s string) string {
		if t.Name == def {
			if strings.HasPrefix(s, "-") {
				return "(" + s + ")"
			}
			return s
		}
		return t.Name + "(" + s + ")"
	}
	switch t.Kind {
	case KBool:
		if r.Intn(2) == 0 {
			return wrap("bool", "true")
		}
		return wrap("bool", "false")
	case KInt:
		return wrap("int", g.intLit(t))
	case KFloat:
		return wrap("float64", pick(r, floatLits))
	case KComplex:
		return fmt.Sprintf("complex(%s, %s)", pick(r, smallFloatLits), pick(r, smallFloatLits))
	case KString:
		return wrap("string", pick(r, stringLits))
	}
	panic("lit: not a basic type " + t.Name)
}

// ---------- scopes ----------

func (s *scope) all() []*variable {
	var out []*variable
	for c := s; c != nil; c = c.parent {
		out = append(out, c.vars...)
	}
	return out
}

func (s *scope) ofType(t *Type, assignable bool) []*variable {
	var out []*variable
	seen := map[string]bool{}
	for c := s; c != nil; c = c.parent {
		for i := len(c.vars) - 1; i >= 0; i-- {
			v := c.vars[i]
			if seen[v.name] {
				continue
			}
			seen[v.name] = true
			if v.t.Name == t.Name && (!assignable || !(v.readOnly || v.isConst)) {
				out = append(out, v)
			}
		}
	}
	return out
}

func (s *scope) child() *scope {
	return &scope{parent: s, loops: s.loops, inFunc: s.inFunc, named: s.named, noCtl: s.noCtl, pure: s.pure, quiet: s.quiet}
}

func (s *scope) add(v *variable) { s.vars = append(s.vars, v) }

// ---------- expressions ----------

// expr returns an expression of exactly type t. The bool result reports whether
// the expression is a constant expression.
func (g *gen) expr(sc *scope, t *Type, d int) (string, bool) {
	r := g.r
	if !t.IsBasic() {
		return g.compositeExpr(sc, t, d), false
	}
	vars := sc.ofType(t, false)
	if d <= 0 || r.Intn(5) == 0 {
		if len(vars) > 0 && r.Intn(4) != 0 {
			v := pick(r, vars)
			return v.name, v.isConst
		}
		return g.lit(t), true
	}
	switch t.Kind {
	case KBool:
		return g.boolExpr(sc, t, d)
	case KInt:
		return g.intExpr(sc, t, d)
	case KFloat:
		return g.floatExpr(sc, t, d)
	case KComplex:
		return g.complexExpr(sc, t, d)
	case KString:
		return g.stringExpr(sc, t, d)
	}
	panic("unreachable")
}

// nc returns a non-constant expression of type t.
func (g *gen) nc(sc *scope, t *Type, d int) string {
	e, c := g.expr(sc, t, d)
	if c {
		return g.nonConst(e, t)
	}
	return e
}

func under(t *Type) *Type {
	if t.Under != nil {
		return t.Under
	}
	return t
}

func (g *gen) boolExpr(sc *scope, t *Type, d int) (string, bool) {
	r := g.r
	conv := func(s string) string {
		if t.Name != "bool" {
			return t.Name + "(" + s + ")"
		}
		return s
	}
	switch r.Intn(9) {
	case 8:
		// a length compared with a value one below, equal to, or one above it
		var l string
		if vs := g.varsOfKind(sc, KSlice); len(vs) > 0 && r.Intn(3) == 0 {
			l = "len(" + pick(r, vs).name + ")"
		} else if vs := sc.ofType(TString, false); len(vs) > 0 {
			l = "len(" + pick(r, vs).name + ")"
		} else {
			l = "len(" + g.nonConst(pick(r, stringLits), TString) + ")"
		}
		x := "(" + l + " + " + g.nonConst(pick(r, []string{"(-1)", "0", "1"}), TInt) + ")"
		op := pick(r, []string{"==", "!=", "<", "<=", ">", ">="})
		g.feat("cmp-len")
		if r.Intn(2) == 0 {
			return conv("(" + x + " " + op + " " + l + ")"), false
		}
		return conv("(" + l + " " + op + " " + x + ")"), false
	case 0:
		return "!" + g.nc(sc, t, d-1), false
	case 1:
		return "(" + g.nc(sc, t, d-1) + " && " + g.nc(sc, t, d-1) + ")", false
	case 2:
		return "(" + g.nc(sc, t, d-1) + " || " + g.nc(sc, t, d-1) + ")", false
	case 3:
		ct := TString
		op := pick(r, []string{"==", "!=", "<", "<=", ">", ">="})
		g.feat("cmp-string")
		return conv("(" + g.nc(sc, ct, d-1) + " " + op + " " + g.nc(sc, ct, d-1) + ")"), false
	case 4:
		ct := pick(r, FloatTypes)
		op := pick(r, []string{"==", "!=", "<", "<=", ">", ">="})
		g.feat("cmp-" + ct.Name)
		return conv("(" + g.nc(sc, ct, d-1) + " " + op + " " + g.nc(sc, ct, d-1) + ")"), false
	case 5:
		// comparison of comparable composite values
		var cands []*Type
		for _, ct := range g.types {
			if (ct.Kind == KStruct || ct.Kind == KArray) && ct.Comparable() {
				cands = append(cands, ct)
			}
		}
		if len(cands) > 0 && len(sc.ofType(cands[0], false)) > 0 {
			ct := cands[0]
			vs := sc.ofType(ct, false)
			g.feat("cmp-composite")
			return conv("(" + pick(r, vs).name + " " + pick(r, []string{"==", "!="}) + " " + pick(r, vs).name + ")"), false
		}
		fallthrough
	default:
		ct := pick(r, IntTypes)
		if len(g.defined) > 0 && r.Intn(6) == 0 {
			if dt := pick(r, g.defined); dt.Kind == KInt {
				ct = dt
			}
		}
		op := pick(r, []string{"==", "!=", "<", "<=", ">", ">="})
		g.feat("cmp-" + under(ct).Name)
		return conv("(" + g.nc(sc, ct, d-1) + " " + op + " " + g.nc(sc, ct, d-1) + ")"), false
	}
}

// shiftCount returns a shift count expression.
func (g *gen) shiftCount(sc *scope, d int) string {
	r := g.r
	switch r.Intn(5) {
	case 0:
		return strconv.Itoa(r.Intn(70))
	case 1, 2:
		ut := pick(r, []*Type{TUint, TUint8, TUint16, TUint32, TUint64})
		g.feat("shift-count-" + ut.Name)
		if r.Intn(2) == 0 {
			return "(" + g.nc(sc, ut, d-1) + " % 70)"
		}
		return g.nc(sc, ut, d-1)
	default:
		st := pick(r, []*Type{TInt, TInt8, TInt16, TInt32, TInt64})
		g.feat("shift-count-" + st.Name)
		if g.cfg.NegShift && g.cfg.Faults && r.Intn(12) == 0 {
			g.feat("shift-count-maybe-negative")
			return g.nc(sc, st, d-1)
		}
		return "(" + g.nc(sc, st, d-1) + " & 63)"
	}
}

func (g *gen) intExpr(sc *scope, t *Type, d int) (string, bool) {
	r := g.r
	u := under(t)
	switch r.Intn(16) {
	case 0, 1, 2, 3:
		op := pick(r, []string{"+", "-", "*", "&", "|", "^", "&^"})
		g.feat("op" + op + "-" + u.Name)
		return "(" + g.nc(sc, t, d-1) + " " + op + " " + g.nc(sc, t, d-1) + ")", false
	case 4:
		op := pick(r, []string{"/", "%"})
		g.feat("op" + op + "-" + u.Name)
		return "(" + g.nc(sc, t, d-1) + " " + op + " (" + g.nc(sc, t, d-1) + " | 1))", false
	case 5, 6:
		op := pick(r, []string{"<<", ">>"})
		g.feat("op" + op + "-" + u.Name)
		return "(" + g.nc(sc, t, d-1) + " " + op + " " + g.shiftCount(sc, d) + ")", false
	case 7:
		op := pick(r, []string{"-", "^", "+"})
		g.feat("unary" + op + "-" + u.Name)
		return "(" + op + g.nc(sc, t, d-1) + ")", false
	case 8, 9:
		// conversion from another integer type
		from := pick(r, IntTypes)
		if r.Intn(5) == 0 && len(g.defined) > 0 {
			if dt := pick(r, g.defined); dt.Kind == KInt {
				from = dt
			}
		}
		g.feat("conv-" + under(from).Name + "-" + u.Name)
		return t.Name + "(" + g.nc(sc, from, d-1) + ")", false
	case 10:
		if r.Intn(2) == 0 {
			// conversion of a non-constant float at the edges of the target
			// type (the value always fits: anything else is implementation-defined)
			type edge struct {
				lit      string
				bits     int // smallest width that holds the value
				negative bool
				unsOnly  bool // fits only the unsigned type of that width
			}
			edges := []edge{
				{"13835058055282163712.0", 64, false, true}, // 1.5 * 2^63
				{"9223372036854775808.0", 64, false, true},  // 2^63
				{"18446744073709549568.0", 64, false, true}, // 2^64 - 2048
				{"9223372036854774784.0", 64, false, false}, // 2^63 - 1024
				{"-9223372036854775808.0", 64, true, false},
				{"4294967295.0", 32, false, true},
				{"2147483648.0", 32, false, true},
				{"2147483647.0", 32, false, false},
				{"-2147483648.0", 32, true, false},
				{"65535.0", 16, false, true},
				{"-32768.0", 16, true, false},
				{"255.0", 8, false, true},
				{"-128.0", 8, true, false},
				{"127.99", 8, false, false},
				{"-0.99", 8, true, false},
			}
			var ok []edge
			for _, e := range edges {
				if e.bits > u.Bits || e.negative && u.Unsigned || e.unsOnly && !u.Unsigned && e.bits == u.Bits {
					continue
				}
				ok = append(ok, e)
			}
			if len(ok) > 0 {
				e := pick(r, ok)
				ft := TFloat64
				if e.bits <= 16 && r.Intn(2) == 0 {
					ft = TFloat32
				}
				g.feat("conv-edge-" + ft.Name + "-" + u.Name)
				lit := e.lit
				if strings.HasPrefix(lit, "-") {
					lit = "(" + lit + ")"
				}
				return t.Name + "(" + g.nonConst(ft.Name+"("+lit+")", ft) + ")", false
			}
		}
		// conversion from a small float
		var sf []*variable
		for _, v := range sc.all() {
			if v.smallF {
				sf = append(sf, v)
			}
		}
		if len(sf) > 0 {
			v := pick(r, sf)
			g.feat("conv-" + v.t.Name + "-" + u.Name)
			if t.Unsigned {
				// negative float to unsigned is implementation-defined: go through a signed type
				return t.Name + "(int64(" + v.name + "))", false
			}
			return t.Name + "(" + v.name + ")", false
		}
		fallthrough
	case 11:
		if u.Name == "int" {
			conv := func(e string) string {
				if t.Name != "int" {
					return t.Name + "(" + e + ")"
				}
				return e
			}
			switch r.Intn(3) {
			case 0:
				g.feat("len-string")
				return conv("len(" + g.nc(sc, TString, d-1) + ")"), false
			case 1:
				if vs := g.varsOfKind(sc, KSlice); len(vs) > 0 {
					g.feat("len-slice")
					// cap is not observed here: the capacity after an append that
					// reallocates is implementation-defined (orderStmt observes the
					// capacities the specification defines)
					return conv("len(" + pick(r, vs).name + ")"), false
				}
			case 2:
				if vs := g.varsOfKind(sc, KMap); len(vs) > 0 {
					g.feat("len-map")
					return conv("len(" + pick(r, vs).name + ")"), false
				}
			}
			return conv("len(" + g.nc(sc, TString, d-1) + ")"), false
		}
		if u.Name == "uint8" {
			g.feat("index-string")
			h := g.helperChr()
			e := h + "(" + g.nc(sc, TString, d-1) + ", " + g.nc(sc, TInt, d-1) + ")"
			if t.Name != "uint8" {
				e = t.Name + "(" + e + ")"
			}
			return e, false
		}
		fallthrough
	case 12, 13:
		if e, ok := g.elemRead(sc, t, d); ok {
			return e, false
		}
		fallthrough
	case 14:
		if e, ok := g.pureCall(sc, t, d); ok {
			return e, false
		}
		fallthrough
	default:
		vars := sc.ofType(t, false)
		if len(vars) > 0 {
			v := pick(r, vars)
			return v.name, v.isConst
		}
		return g.lit(t), true
	}
}

func (g *gen) floatExpr(sc *scope, t *Type, d int) (string, bool) {
	r := g.r
	u := under(t)
	switch r.Intn(9) {
	case 0, 1, 2:
		op := pick(r, []string{"+", "-", "*", "/"})
		g.feat("op" + op + "-" + u.Name)
		return "(" + g.nc(sc, t, d-1) + " " + op + " " + g.nc(sc, t, d-1) + ")", false
	case 3:
		g.feat("unary--" + u.Name)
		return "(-" + g.nc(sc, t, d-1) + ")", false
	case 4:
		from := pick(r, IntTypes)
		g.feat("conv-" + from.Name + "-" + u.Name)
		return t.Name + "(" + g.nc(sc, from, d-1) + ")", false
	case 5:
		from := pick(r, FloatTypes)
		g.feat("conv-" + from.Name + "-" + u.Name)
		return t.Name + "(" + g.nc(sc, from, d-1) + ")", false
	case 6:
		if g.cfg.Complex && u.Name == "float64" {
			g.feat("real-imag")
			e := pick(r, []string{"real", "imag"}) + "(" + g.nc(sc, TComplex, d-1) + ")"
			if t.Name != "float64" {
				e = t.Name + "(" + e + ")"
			}
			return e, false
		}
		fallthrough
	case 7:
		if e, ok := g.elemRead(sc, t, d); ok {
			return e, false
		}
		fallthrough
	default:
		if e, ok := g.pureCall(sc, t, d); ok {
			return e, false
		}
		vars := sc.ofType(t, false)
		if len(vars) > 0 {
			v := pick(r, vars)
			return v.name, v.isConst
		}
		return g.lit(t), true
	}
}

func (g *gen) complexExpr(sc *scope, t *Type, d int) (string, bool) {
	r := g.r
	switch r.Intn(5) {
	case 0, 1:
		op := pick(r, []string{"+", "-", "*"})
		g.feat("op" + op + "-complex128")
		return "(" + g.nc(sc, t, d-1) + " " + op + " " + g.nc(sc, t, d-1) + ")", false
	case 2:
		g.feat("complex()")
		return "complex(" + g.nc(sc, TFloat64, d-1) + ", " + g.nc(sc, TFloat64, d-1) + ")", false
	case 3:
		g.feat("unary--complex128")
		return "(-" + g.nc(sc, t, d-1) + ")", false
	default:
		vars := sc.ofType(t, false)
		if len(vars) > 0 {
			v := pick(r, vars)
			return v.name, v.isConst
		}
		return g.lit(t), true
	}
}

func (g *gen) stringExpr(sc *scope, t *Type, d int) (string, bool) {
	r := g.r
	conv := func(s string) string {
		if t.Name != "string" {
			return t.Name + "(" + s + ")"
		}
		return s
	}
	switch r.Intn(9) {
	case 0, 1, 2:
		g.feat("op+-string")
		return "(" + g.nc(sc, t, d-1) + " + " + g.nc(sc, t, d-1) + ")", false
	case 3:
		g.feat("slice-string")
		h := g.helperSub()
		return conv(h + "(" + g.nc(sc, TString, d-1) + ", " + g.nc(sc, TInt, d-1) + ", " + g.nc(sc, TInt, d-1) + ")"), false
	case 4:
		g.feat("conv-rune-string")
		it := pick(r, []*Type{TInt32, TInt, TUint8, TUint16, TInt64})
		return conv("string(rune(" + g.nc(sc, it, d-1) + "))"), false
	case 5:
		if vs := sc.ofType(sliceOf(TUint8), false); len(vs) > 0 {
			g.feat("conv-bytes-string")
			return conv("string(" + pick(r, vs).name + ")"), false
		}
		fallthrough
	case 6:
		if e, ok := g.elemRead(sc, t, d); ok {
			return e, false
		}
		fallthrough
	case 7:
		if e, ok := g.pureCall(sc, t, d); ok {
			return e, false
		}
		fallthrough
	default:
		vars := sc.ofType(t, false)
		if len(vars) > 0 {
			v := pick(r, vars)
			return v.name, v.isConst
		}
		return g.lit(t), true
	}
}

func (g *gen) varsOfKind(sc *scope, k Kind) []*variable {
	var out []*variable
	seen := map[string]bool{}
	for _, v := range sc.all() {
		if !seen[v.name] && v.t.Kind == k {
			out = append(out, v)
		}
		seen[v.name] = true
	}
	return out
}

// elemRead reads a value of type t out of a composite variable in scope.
func (g *gen) elemRead(sc *scope, t *Type, d int) (string, bool) {
	r := g.r
	var opts []string
	seen := map[string]bool{}
	for _, v := range sc.all() {
		if seen[v.name] {
			continue
		}
		seen[v.name] = true
		switch v.t.Kind {
		case KSlice:
			if v.t.Elem.Name == t.Name {
				opts = append(opts, g.helperAt(v.t)+"("+v.name+", "+g.nc(sc, TInt, d-1)+")")
			}
		case KArray:
			if v.t.Elem.Name == t.Name {
				opts = append(opts, fmt.Sprintf("%s[int(uint(%s)%%%d)]", v.name, g.nc(sc, TInt, d-1), v.t.N))
			}
		case KMap:
			if v.t.Elem.Name == t.Name {
				opts = append(opts, v.name+"["+g.nc(sc, v.t.Key, d-1)+"]")
			}
		case KStruct:
			for _, f := range v.t.Fields {
				if f.T.Name == t.Name {
					opts = append(opts, v.name+"."+f.Name)
				}
			}
		case KPtr:
			if v.nonNil {
				if v.t.Elem.Name == t.Name {
					opts = append(opts, "(*"+v.name+")")
				}
				if v.t.Elem.Kind == KStruct {
					for _, f := range v.t.Elem.Fields {
						if f.T.Name == t.Name {
							opts = append(opts, v.name+"."+f.Name)
						}
					}
				}
			}
		}
	}
	if len(opts) == 0 {
		return "", false
	}
	g.feat("elem-read")
	return pick(r, opts), true
}

// pureCall calls a pure function whose single result has type t.
func (g *gen) pureCall(sc *scope, t *Type, d int) (string, bool) {
	var cands []*function
	for _, f := range g.pures {
		if len(f.results) == 1 && f.results[0].Name == t.Name {
			cands = append(cands, f)
		}
	}
	if len(cands) == 0 || g.depth > 3 {
		return "", false
	}
	f := pick(g.r, cands)
	g.feat("call-pure")
	return g.callExpr(sc, f, d), true
}

func (g *gen) callExpr(sc *scope, f *function, d int) string {
	var args []string
	for _, p := range f.params {
		e, _ := g.expr(sc, p.t, d-1)
		args = append(args, e)
	}
	if f.varT != nil {
		n := g.r.Intn(4)
		for i := 0; i < n; i++ {
			e, _ := g.expr(sc, f.varT, d-1)
			args = append(args, e)
		}
		g.feat("call-variadic")
	}
	return f.name + "(" + strings.Join(args, ", ") + ")"
}

// compositeExpr returns an expression of a composite type: a variable in scope or a literal.
func (g *gen) compositeExpr(sc *scope, t *Type, d int) string {
	r := g.r
	if vs := sc.ofType(t, false); len(vs) > 0 && r.Intn(3) != 0 {
		// slices that may be appended to are never aliased
		var ok []*variable
		for _, v := range vs {
			if !v.noAlias && (t.Kind != KPtr || v.nonNil) {
				ok = append(ok, v)
			}
		}
		if len(ok) > 0 {
			return pick(r, ok).name
		}
	}
	if d < 0 {
		d = 0
	}
	switch t.Kind {
	case KSlice:
		n := 1 + r.Intn(4)
		var el []string
		for i := 0; i < n; i++ {
			e, _ := g.expr(sc, t.Elem, d-1)
			el = append(el, e)
		}
		g.feat("lit-slice")
		return t.Name + "{" + strings.Join(el, ", ") + "}"
	case KArray:
		var el []string
		for i := 0; i < t.N; i++ {
			e, _ := g.expr(sc, t.Elem, d-1)
			el = append(el, e)
		}
		g.feat("lit-array")
		return t.Name + "{" + strings.Join(el, ", ") + "}"
	case KMap:
		n := r.Intn(4)
		var el []string
		keys := g.distinctLits(t.Key, n)
		for _, k := range keys {
			e, _ := g.expr(sc, t.Elem, d-1)
			el = append(el, k+": "+e)
		}
		g.feat("lit-map")
		return t.Name + "{" + strings.Join(el, ", ") + "}"
	case KStruct:
		var el []string
		keyed := r.Intn(2) == 0
		for _, f := range t.Fields {
			if keyed && r.Intn(4) == 0 {
				continue
			}
			e, _ := g.expr(sc, f.T, d-1)
			if keyed {
				el = append(el, f.Name+": "+e)
			} else {
				el = append(el, e)
			}
		}
		g.feat("lit-struct")
		return t.Name + "{" + strings.Join(el, ", ") + "}"
	case KPtr:
		// pointer to a fresh value
		if t.Elem.Kind == KStruct {
			g.feat("addr-lit")
			return "&" + g.compositeLit(sc, t.Elem, d-1)
		}
		g.feat("new")
		h := g.helperPtr(t.Elem)
		e, _ := g.expr(sc, t.Elem, d-1)
		return h + "(" + e + ")"
	case KFunc:
		return g.funcLit(sc, t)
	case KAny:
		bt := g.basic()
		e, _ := g.expr(sc, bt, d-1)
		g.feat("box-" + under(bt).Name)
		return "any(" + e + ")"
	}
	panic("compositeExpr: " + t.Name)
}

func (g *gen) compositeLit(sc *scope, t *Type, d int) string {
	saved := sc
	_ = saved
	// force a literal by using an empty scope chain for variables of t
	var el []string
	for _, f := range t.Fields {
		e, _ := g.expr(sc, f.T, d-1)
		el = append(el, e)
	}
	return t.Name + "{" + strings.Join(el, ", ") + "}"
}

func (g *gen) distinctLits(t *Type, n int) []string {
	seen := map[string]bool{}
	var out []string
	switch t.Kind {
	case KBool:
		if n > 2 {
			n = 2
		}
		vals := []string{"true", "false"}
		for i := 0; i < n; i++ {
			out = append(out, vals[i])
		}
		return out
	case KString:
		for _, i := range g.r.Perm(len(stringLits)) {
			if len(out) == n {
				break
			}
			out = append(out, stringLits[i])
		}
		return out
	case KInt:
		for len(out) < n {
			v := strconv.Itoa(g.r.Intn(100))
			if !seen[v] {
				seen[v] = true
				out = append(out, v)
			}
		}
		return out
	}
	for len(out) < n {
		v := g.lit(t)
		if !seen[v] {
			seen[v] = true
			out = append(out, v)
		} else {
			n--
		}
	}
	return out
}

// funcLit returns a closure of type t. The closure is pure with respect to its
// own parameters but may read variables of the enclosing scope.
func (g *gen) funcLit(sc *scope, t *Type) string {
	g.feat("func-lit")
	inner := &scope{parent: sc, noCtl: true, pure: sc.pure, quiet: sc.quiet}
	var ps []string
	for i, pt := range t.Params {
		v := &variable{name: g.newID("p"), t: pt, nonNil: false}
		_ = i
		inner.add(v)
		ps = append(ps, v.name+" "+pt.Name)
	}
	var rs []string
	for _, rt := range t.Results {
		rs = append(rs, rt.Name)
	}
	var rets []string
	g.depth++
	for _, rt := range t.Results {
		e, _ := g.expr(inner, rt, 2)
		rets = append(rets, e)
	}
	g.depth--
	sig := "func(" + strings.Join(ps, ", ") + ")"
	if len(rs) == 1 {
		sig += " " + rs[0]
	} else if len(rs) > 1 {
		sig += " (" + strings.Join(rs, ", ") + ")"
	}
	var use []string
	for _, v := range inner.vars {
		use = append(use, "_ = "+v.name)
	}
	body := strings.Join(use, "; ")
	if body != "" {
		body += "; "
	}
	if len(rets) > 0 {
		body += "return " + strings.Join(rets, ", ")
	}
	return sig + " { " + body + " }"
}

// ---------- helpers emitted into the program ----------

func tname(t *Type) string {
	return strings.NewReplacer("[", "_", "]", "_", "*", "p", " ", "", "(", "_", ")", "_", ",", "_").Replace(t.Name)
}

func (g *gen) helperAt(st *Type) string {
	name := "at_" + tname(st.Elem)
	if _, ok := g.helpers[name]; !ok {
		g.helpers[name] = fmt.Sprintf("func %s(s %s, i int) %s {\n\tif len(s) == 0 {\n\t\tvar z %s\n\t\treturn z\n\t}\n\treturn s[int(uint(i)%%uint(len(s)))]\n}", name, st.Name, st.Elem.Name, st.Elem.Name)
	}
	return name
}

func (g *gen) helperChr() string {
	name := "chr"
	if _, ok := g.helpers[name]; !ok {
		g.helpers[name] = "func chr(s string, i int) uint8 {\n\tif len(s) == 0 {\n\t\treturn 0\n\t}\n\treturn s[int(uint(i)%uint(len(s)))]\n}"
	}
	return name
}

func (g *gen) helperSub() string {
	name := "sub"
	if _, ok := g.helpers[name]; !ok {
		g.helpers[name] = "func sub(s string, i, j int) string {\n\tn := len(s)\n\tif n == 0 {\n\t\treturn s\n\t}\n\ta := int(uint(i) % uint(n+1))\n\tb := int(uint(j) % uint(n+1))\n\tif a > b {\n\t\ta, b = b, a\n\t}\n\treturn s[a:b]\n}"
	}
	return name
}

func (g *gen) helperPtr(t *Type) string {
	name := "ptr_" + tname(t)
	if _, ok := g.helpers[name]; !ok {
		g.helpers[name] = fmt.Sprintf("func %s(v %s) *%s {\n\tp := new(%s)\n\t*p = v\n\treturn p\n}", name, t.Name, t.Name, t.Name)
	}
	return name
}

// helperShow prints a recovered value.
func (g *gen) helperShow() string {
	name := "show"
	if _, ok := g.helpers[name]; !ok {
		g.helpers[name] = `func show(tag string, v any) {
	switch x := v.(type) {
	case nil:
		println(tag, "nil")
	case error:
		println(tag, "error", x.Error())
	case string:
		println(tag, "string", x)
	case int:
		println(tag, "int", x)
	case int8:
		println(tag, "int8", x)
	case uint16:
		println(tag, "uint16", x)
	case float64:
		println(tag, "float64", x)
	case bool:
		println(tag, "bool", x)
	default:
		println(tag, "other")
	}
}`
	}
	return name
}
