package goprog

import (
	"fmt"
	"strings"
)

func (g *gen) helperTr(t *Type) string {
	name := "tr_" + tname(t)
	if _, ok := g.helpers[name]; !ok {
		g.helpers[name] = fmt.Sprintf("func %s(tag string, v %s) %s {\n\tprintln(tag, v)\n\treturn v\n}", name, t.Name, t.Name)
	}
	return name
}

func (g *gen) globalScope() *scope {
	sc := &scope{}
	sc.vars = append(sc.vars, g.globals...)
	return sc
}

// makeGlobals declares package-level constants and variables. Initialisers
// refer only to globals of lower rank and to pure helpers, so the dependency
// graph is acyclic; the textual order is shuffled later.
func (g *gen) makeGlobals() {
	r := g.r
	sc := &scope{}
	nc := 1 + r.Intn(3)
	for i := 0; i < nc; i++ {
		t := g.basic()
		if t.Kind == KComplex {
			t = TInt
		}
		v := &variable{name: g.newID("c"), t: t, isConst: true, readOnly: true}
		g.decls = append(g.decls, fmt.Sprintf("const %s %s = %s", v.name, t.Name, g.lit(t)))
		g.globals = append(g.globals, v)
		sc.add(v)
		g.feat("global-const")
	}
	nv := 3 + r.Intn(6)
	for i := 0; i < nv; i++ {
		t := g.anyType()
		if t.Kind == KFunc {
			t = TInt
		}
		v := &variable{name: g.newID("g"), t: t, nonNil: t.Kind == KPtr}
		switch {
		case r.Intn(6) == 0:
			// no initialiser
			g.decls = append(g.decls, fmt.Sprintf("var %s %s", v.name, t.Name))
			if t.Kind == KPtr {
				v.nonNil = false
			}
			g.feat("global-zero")
		case t.Printable() && r.Intn(3) != 0:
			e, _ := g.expr(sc, t, 2)
			g.decls = append(g.decls, fmt.Sprintf("var %s %s = %s(%q, %s)", v.name, t.Name, g.helperTr(t), v.name, e))
			g.feat("global-init-traced")
		default:
			e, _ := g.expr(sc, t, 2)
			if r.Intn(2) == 0 {
				g.decls = append(g.decls, fmt.Sprintf("var %s = %s", v.name, g.typedExpr(e, t)))
			} else {
				g.decls = append(g.decls, fmt.Sprintf("var %s %s = %s", v.name, t.Name, e))
			}
			g.feat("global-init")
		}
		g.globals = append(g.globals, v)
		sc.add(v)
	}
	if r.Intn(2) == 0 {
		// a variable initialised through functions, possibly recursive, that
		// read other package-level variables: these must be initialised
		// first, whatever the textual order, and recursion is not a loop
		g.feat("global-init-through-func")
		var ints []*variable
		for _, v := range g.globals {
			if v.t == TInt && !v.isConst {
				ints = append(ints, v)
			}
		}
		base := &variable{name: g.newID("g"), t: TInt}
		g.decls = append(g.decls, fmt.Sprintf("var %s %s = %s(%q, %d)", base.name, "int", g.helperTr(TInt), base.name, 3+r.Intn(50)))
		g.globals = append(g.globals, base)
		sc.add(base)
		read := base.name
		if len(ints) > 0 && r.Intn(2) == 0 {
			read += " + " + pick(r, ints).name
		}
		f1, f2 := g.newID("initf"), g.newID("inith")
		switch r.Intn(3) {
		case 0: // plain chain
			g.decls = append(g.decls, fmt.Sprintf("func %s(n int) int {\n\treturn %s(n) + 1\n}", f1, f2))
			g.decls = append(g.decls, fmt.Sprintf("func %s(n int) int {\n\treturn %s + n\n}", f2, read))
		case 1: // self recursion
			g.decls = append(g.decls, fmt.Sprintf("func %s(n int) int {\n\tif n <= 0 {\n\t\treturn %s\n\t}\n\treturn %s(n-1) + n\n}", f1, read, f1))
			g.feat("global-init-recursive-func")
		default: // mutual recursion
			g.decls = append(g.decls, fmt.Sprintf("func %s(n int) int {\n\tif n <= 0 {\n\t\treturn %s\n\t}\n\treturn %s(n - 1)\n}", f1, read, f2))
			g.decls = append(g.decls, fmt.Sprintf("func %s(n int) int {\n\treturn %s(n) + 1\n}", f2, f1))
			g.feat("global-init-recursive-func")
		}
		v := &variable{name: g.newID("g"), t: TInt}
		if r.Intn(3) == 0 {
			// a function literal whose parameter has the name of a package-level variable used later in the expression
			g.decls = append(g.decls, fmt.Sprintf("var %s = func(%s int) int {\n\treturn %s + 1\n}(%s(%d)) + %s", v.name, base.name, base.name, f1, r.Intn(4), base.name))
			g.feat("global-init-shadowing-param")
		} else if r.Intn(2) == 0 {
			g.decls = append(g.decls, fmt.Sprintf("var %s = %s(%d)", v.name, f1, r.Intn(4)))
		} else {
			g.decls = append(g.decls, fmt.Sprintf("var %s = func() int {\n\treturn %s(%d)\n}()", v.name, f1, r.Intn(4)))
		}
		g.globals = append(g.globals, v)
		sc.add(v)
	}
	if r.Intn(3) == 0 {
		// an init function that changes a global
		var as []*variable
		for _, v := range g.globals {
			if v.t.IsBasic() && !v.isConst {
				as = append(as, v)
			}
		}
		if len(as) > 0 {
			v := pick(r, as)
			e, _ := g.expr(sc, v.t, 2)
			g.decls = append(g.decls, fmt.Sprintf("func init() {\n\tprintln(\"init\", %s)\n\t%s = %s\n}", v.name, v.name, e))
			g.feat("init-func")
		}
	}
}

// typedExpr makes sure that `var x = e` gives x the type t.
func (g *gen) typedExpr(e string, t *Type) string {
	if t.IsBasic() {
		return t.Name + "(" + e + ")"
	}
	return e
}

func (g *gen) makeFunc(idx int) {
	r := g.r
	f := &function{name: fmt.Sprintf("f%d", idx)}
	f.pure = r.Intn(2) == 0
	np := r.Intn(4)
	var sc *scope
	if f.pure {
		sc = &scope{pure: true}
	} else {
		sc = &scope{parent: g.globalScope()}
	}
	sc.inFunc = f
	var ps []string
	for i := 0; i < np; i++ {
		var t *Type
		if r.Intn(3) == 0 {
			t = pick(r, g.types)
			if t.Kind == KAny || t.Kind == KFunc {
				t = g.basic()
			}
		} else {
			t = g.basic()
		}
		v := &variable{name: g.newID("p"), t: t}
		f.params = append(f.params, v)
		sc.add(v)
		ps = append(ps, v.name+" "+t.Name)
	}
	if r.Intn(5) == 0 {
		f.varT = pick(r, []*Type{TInt, TString, TFloat64, TUint8})
		v := &variable{name: g.newID("p"), t: sliceOf(f.varT), readOnly: true}
		sc.add(v)
		ps = append(ps, v.name+" ..."+f.varT.Name)
		g.feat("variadic-func")
	}
	nr := r.Intn(3)
	if f.pure && nr == 0 {
		nr = 1
	}
	named := !f.pure && nr > 0 && r.Intn(2) == 0
	var rs []string
	for i := 0; i < nr; i++ {
		t := g.basic()
		f.results = append(f.results, t)
		if named {
			v := &variable{name: g.newID("r"), t: t}
			sc.named = append(sc.named, v)
			sc.add(v)
			rs = append(rs, v.name+" "+t.Name)
		} else {
			rs = append(rs, t.Name)
		}
	}
	b := &block{ind: 1}
	for _, p := range sc.vars {
		b.add("_ = %s", p.name)
	}
	b.add("println(%q)", "enter "+f.name)
	saveFaults := g.cfg.Faults
	if named {
		// the function's own deferred recover may set the named results
		g.feat("named-results")
		show := g.helperShow()
		b.add("defer func() {")
		b.ind++
		b.add("if e := recover(); e != nil {")
		b.ind++
		b.add("%s(%q, e)", show, g.newID("t"))
		for _, v := range sc.named {
			e, _ := g.expr(sc, v.t, 1)
			b.add("%s = %s", v.name, e)
		}
		b.ind--
		b.add("}")
		if r.Intn(2) == 0 {
			v := pick(r, sc.named)
			if v.t.Kind == KInt || v.t.Kind == KFloat {
				b.add("%s += 1", v.name)
			} else if v.t.Kind == KString {
				b.add("%s += \"!\"", v.name)
			}
			g.feat("defer-modifies-result")
		}
		b.ind--
		b.add("}()")
	}
	if f.pure {
		g.cfg.Faults = false
	}
	g.depth++
	body := sc.child()
	g.stmts(b, body, g.cfg.Stmts/2+r.Intn(g.cfg.Stmts/2+1), 2)
	if named && saveFaults && r.Intn(3) == 0 {
		// an unprotected fault recovered by the function's own deferred call
		g.feat("fault-recovered-by-named-defer")
		z := g.newID("z")
		b.add("var %s int\nprintln(%q, 10/%s)", z, g.newID("t"), z)
	}
	g.depth--
	g.cfg.Faults = saveFaults
	if nr > 0 {
		var rets []string
		for _, t := range f.results {
			e, _ := g.expr(body, t, 2)
			rets = append(rets, e)
		}
		if named && r.Intn(3) == 0 {
			for i, v := range sc.named {
				b.add("%s = %s", v.name, rets[i])
			}
			b.add("return")
			g.feat("bare-return")
		} else {
			b.add("return %s", strings.Join(rets, ", "))
		}
	}
	sig := fmt.Sprintf("func %s(%s)", f.name, strings.Join(ps, ", "))
	if nr == 1 && !named {
		sig += " " + rs[0]
	} else if nr > 0 {
		sig += " (" + strings.Join(rs, ", ") + ")"
	}
	g.decls = append(g.decls, sig+" {\n"+b.String()+"\n}")
	g.funcs = append(g.funcs, f)
	if f.pure {
		g.pures = append(g.pures, f)
		g.feat("pure-func")
	} else {
		g.feat("impure-func")
	}
}

func (g *gen) makeMain() {
	b := &block{ind: 1}
	sc := &scope{parent: g.globalScope()}
	if g.r.Intn(3) == 0 {
		g.recProbe(b)
	}
	g.stmts(b, sc, g.cfg.Stmts+g.r.Intn(g.cfg.Stmts+1), 3)
	// final state of the globals
	for _, v := range g.globals {
		if v.isConst {
			continue
		}
		vv := *v
		if vv.t.Kind == KPtr {
			vv.nonNil = false
		}
		g.trace(b, "final "+v.name, &vv)
	}
	g.decls = append(g.decls, "func main() {\n"+b.String()+"\n}")
}

// recProbe declares a recursive function whose frame has a random number of
// registers of every kind, with optional deferred calls, and calls it at the
// start of main with every depth of a range, so that the frames end at every
// offset around the sizes at which the register stacks of the VM grow.
func (g *gen) recProbe(b *block) {
	r := g.r
	g.feat("rec-probe")
	name := g.newID("rec")
	cnt := g.newID("recN")
	ni, ns, nf, ng := r.Intn(6), r.Intn(4), r.Intn(4), r.Intn(4)
	var fb strings.Builder
	fmt.Fprintf(&fb, "func %s(d int, s string, f float64) (int, string) {\n", name)
	switch r.Intn(4) {
	case 0:
		fmt.Fprintf(&fb, "\tdefer func() { %s++ }()\n", cnt)
		g.feat("rec-probe-defer")
	case 1:
		fmt.Fprintf(&fb, "\tdefer func(a, b int, t string) { %s += a + b + len(t) }(d, 1, s)\n", cnt)
		fmt.Fprintf(&fb, "\tdefer func() {\n\t\tx, y, z := d, d+1, s+\"q\"\n\t\t%s += x + y + len(z)\n\t}()\n", cnt)
		g.feat("rec-probe-defer")
	}
	fb.WriteString("\tif d == 0 {\n\t\treturn 0, s\n\t}\n")
	sum := []string{"r"}
	for i := 0; i < ni; i++ {
		fmt.Fprintf(&fb, "\ti%d := d + %d\n", i, i+1)
		sum = append(sum, fmt.Sprintf("i%d", i))
	}
	for i := 0; i < ns; i++ {
		fmt.Fprintf(&fb, "\ts%d := s + %q\n", i, strings.Repeat("a", i+1))
		sum = append(sum, fmt.Sprintf("len(s%d)", i))
	}
	for i := 0; i < nf; i++ {
		fmt.Fprintf(&fb, "\tf%d := f + %d.25\n", i, i+1)
		sum = append(sum, fmt.Sprintf("int(f%d*4)", i))
	}
	for i := 0; i < ng; i++ {
		fmt.Fprintf(&fb, "\tg%d := []int{d, %d}\n", i, i+1)
		sum = append(sum, fmt.Sprintf("g%d[0]+g%d[1]", i, i))
	}
	fb.WriteString("\tr, t := " + name + "(d-1, s, f)\n")
	fmt.Fprintf(&fb, "\treturn %s, t\n}", strings.Join(sum, " + "))
	g.decls = append(g.decls, "var "+cnt+" int", fb.String())
	per := 3 + ni + ns + nf + ng
	hi := 1200/per + 20
	if hi > 300 {
		hi = 300
	}
	acc := g.newID("acc")
	b.add("%s := 0", acc)
	b.add("for d := 1; d < %d; d++ {\n\tr, t := %s(d, \"ab\", 0.5)\n\t%s += r + len(t)\n}", hi, name, acc)
	b.add("println(%q, %s, %s)", g.newID("t"), acc, cnt)
}
