package goprog

import (
	"fmt"
	"strconv"
	"strings"
)

type block struct {
	lines []string
	ind   int
}

func (b *block) add(format string, a ...any) {
	s := format
	if len(a) > 0 {
		s = fmt.Sprintf(format, a...)
	}
	for _, l := range strings.Split(s, "\n") {
		b.lines = append(b.lines, strings.Repeat("\t", b.ind)+l)
	}
}

func (b *block) String() string { return strings.Join(b.lines, "\n") }

// trace prints the printable view of a variable.
func (g *gen) trace(b *block, tag string, v *variable) {
	b.add("%s", g.traceStmt(tag, v.name, v.t, v.nonNil))
}

func (g *gen) traceStmt(tag, expr string, t *Type, nonNil bool) string {
	q := strconv.Quote(tag)
	switch t.Kind {
	case KBool, KInt, KFloat, KComplex, KString:
		return fmt.Sprintf("println(%s, %s)", q, expr)
	case KSlice:
		if t.Elem.Printable() {
			return fmt.Sprintf("print(%s, \" len \", len(%s), \":\")\nfor _, e := range %s {\n\tprint(\" \", e)\n}\nprintln()", q, expr, expr)
		}
		return fmt.Sprintf("println(%s, \"len\", len(%s))", q, expr)
	case KArray:
		if t.Elem.Printable() {
			return fmt.Sprintf("print(%s, \":\")\nfor _, e := range %s {\n\tprint(\" \", e)\n}\nprintln()", q, expr)
		}
		return fmt.Sprintf("println(%s, \"len\", len(%s))", q, expr)
	case KMap:
		return fmt.Sprintf("println(%s, \"maplen\", len(%s))", q, expr)
	case KStruct:
		var parts []string
		for _, f := range t.Fields {
			if f.T.Printable() {
				parts = append(parts, expr+"."+f.Name)
			} else if f.T.Kind == KSlice || f.T.Kind == KArray {
				parts = append(parts, "len("+expr+"."+f.Name+")")
			}
		}
		if len(parts) == 0 {
			return fmt.Sprintf("println(%s)", q)
		}
		return fmt.Sprintf("println(%s, %s)", q, strings.Join(parts, ", "))
	case KPtr:
		if nonNil && t.Elem.Printable() {
			return fmt.Sprintf("println(%s, *%s)", q, expr)
		}
		return fmt.Sprintf("println(%s, %s == nil)", q, expr)
	case KFunc:
		return fmt.Sprintf("println(%s, %s == nil)", q, expr)
	case KAny:
		return fmt.Sprintf("%s(%s, %s)", g.helperShow(), q, expr)
	}
	return fmt.Sprintf("println(%s)", q)
}

// declare emits `name := expr` for a fresh variable of type t and registers it.
func (g *gen) declare(b *block, sc *scope, t *Type, d int) *variable {
	v := &variable{name: g.newID("v"), t: t}
	if t.Kind == KPtr {
		v.nonNil = true
	}
	if t.Kind == KSlice && g.r.Intn(2) == 0 {
		v.noAlias = true
	}
	var e string
	if v.noAlias {
		// force a fresh literal (never alias another slice)
		e = g.freshSlice(sc, t, d)
	} else if t.Kind == KFloat && g.r.Intn(4) == 0 {
		e = t.Name + "(" + pick(g.r, smallFloatLits) + ")"
		v.smallF, v.readOnly = true, true
		b.add("var %s %s = %s", v.name, t.Name, e)
		b.add("_ = %s", v.name)
		sc.add(v)
		return v
	} else {
		e, _ = g.expr(sc, t, d)
	}
	switch g.r.Intn(3) {
	case 0:
		b.add("var %s %s = %s", v.name, t.Name, e)
	default:
		if t.IsBasic() || t.Kind == KAny {
			b.add("var %s %s = %s", v.name, t.Name, e)
		} else {
			b.add("%s := %s", v.name, e)
		}
	}
	b.add("_ = %s", v.name)
	sc.add(v)
	return v
}

func (g *gen) freshSlice(sc *scope, t *Type, d int) string {
	n := 1 + g.r.Intn(4)
	var el []string
	for i := 0; i < n; i++ {
		e, _ := g.expr(sc, t.Elem, d-1)
		el = append(el, e)
	}
	return t.Name + "{" + strings.Join(el, ", ") + "}"
}

// stmts emits about n statements into b.
func (g *gen) stmts(b *block, sc *scope, n int, d int) {
	for i := 0; i < n; i++ {
		g.stmt(b, sc, d)
	}
}

func (g *gen) stmt(b *block, sc *scope, d int) {
	r := g.r
	k := r.Intn(34)
	if d <= 0 && k >= 10 && k <= 19 {
		k = r.Intn(10)
	}
	switch {
	case k < 4: // declaration + trace
		v := g.declare(b, sc, g.anyType(), 3)
		if r.Intn(2) == 0 {
			g.trace(b, g.newID("t"), v)
		}
	case k < 8: // assignment
		g.assign(b, sc)
	case k < 10: // trace some variable
		vs := sc.all()
		if len(vs) > 0 {
			g.trace(b, g.newID("t"), pick(r, vs))
		}
	case k < 12:
		g.ifStmt(b, sc, d)
	case k < 14:
		g.forStmt(b, sc, d)
	case k == 14:
		g.switchStmt(b, sc, d)
	case k == 15:
		g.typeSwitchStmt(b, sc, d)
	case k == 16:
		g.rangeStmt(b, sc, d)
	case k == 17:
		g.closureStmt(b, sc, d)
	case k == 18:
		g.deferStmt(b, sc, d)
	case k == 19:
		g.gotoStmt(b, sc, d)
	case k < 23:
		if sc.pure || sc.quiet {
			g.assign(b, sc)
		} else {
			g.callStmt(b, sc)
		}
	case k < 27:
		g.compositeStmt(b, sc)
	case k < 29:
		if g.cfg.Faults && !sc.pure && !sc.quiet {
			g.faultStmt(b, sc)
		} else {
			g.assign(b, sc)
		}
	case k == 29:
		g.ctlStmt(b, sc)
	case k == 30:
		g.anyStmt(b, sc)
	case k == 31:
		if r.Intn(2) == 0 {
			g.multiAssign(b, sc)
		} else {
			g.orderStmt(b, sc)
		}
	default:
		g.assign(b, sc)
	}
}

func (g *gen) assignable(sc *scope) []*variable {
	var out []*variable
	seen := map[string]bool{}
	for _, v := range sc.all() {
		if seen[v.name] {
			continue
		}
		seen[v.name] = true
		if !v.readOnly && !v.isConst && v.t.IsBasic() {
			out = append(out, v)
		}
	}
	return out
}

func (g *gen) assign(b *block, sc *scope) {
	r := g.r
	vs := g.assignable(sc)
	if len(vs) == 0 {
		g.declare(b, sc, g.basic(), 3)
		return
	}
	v := pick(r, vs)
	t := v.t
	switch {
	case t.Kind == KInt && r.Intn(3) == 0:
		op := pick(r, []string{"+=", "-=", "*=", "&=", "|=", "^=", "&^=", "<<=", ">>=", "/=", "%="})
		g.feat("assign" + op + "-" + under(t).Name)
		switch op {
		case "<<=", ">>=":
			b.add("%s %s %s", v.name, op, g.shiftCount(sc, 2))
		case "/=", "%=":
			b.add("%s %s (%s | 1)", v.name, op, g.nc(sc, t, 2))
		default:
			e, _ := g.expr(sc, t, 2)
			b.add("%s %s %s", v.name, op, e)
		}
	case t.Kind == KInt && r.Intn(4) == 0:
		g.feat("incdec-" + under(t).Name)
		b.add("%s%s", v.name, pick(r, []string{"++", "--"}))
	case (t.Kind == KFloat || t.Kind == KComplex) && r.Intn(3) == 0:
		op := pick(r, []string{"+=", "-=", "*="})
		g.feat("assign" + op + "-" + under(t).Name)
		e, _ := g.expr(sc, t, 2)
		b.add("%s %s %s", v.name, op, e)
	case t.Kind == KString && r.Intn(3) == 0:
		g.feat("assign+=-string")
		e, _ := g.expr(sc, t, 2)
		b.add("%s += %s", v.name, e)
	default:
		e, _ := g.expr(sc, t, 3)
		b.add("%s = %s", v.name, e)
	}
	if r.Intn(2) == 0 {
		g.trace(b, g.newID("t"), v)
	}
}

func (g *gen) multiAssign(b *block, sc *scope) {
	vs := g.assignable(sc)
	if len(vs) < 2 {
		return
	}
	a := pick(g.r, vs)
	var same []*variable
	for _, v := range vs {
		if v.t.Name == a.t.Name && v.name != a.name {
			same = append(same, v)
		}
	}
	if len(same) == 0 {
		return
	}
	c := pick(g.r, same)
	g.feat("swap-assign")
	if g.r.Intn(2) == 0 {
		b.add("%s, %s = %s, %s", a.name, c.name, c.name, a.name)
	} else {
		e1, _ := g.expr(sc, a.t, 2)
		e2, _ := g.expr(sc, a.t, 2)
		b.add("%s, %s = %s, %s", a.name, c.name, e1, e2)
	}
	g.trace(b, g.newID("t"), a)
	g.trace(b, g.newID("t"), c)
}

func (g *gen) cond(sc *scope) string {
	return g.nc(sc, TBool, 2)
}

func (g *gen) ifStmt(b *block, sc *scope, d int) {
	g.feat("if")
	r := g.r
	if r.Intn(4) == 0 {
		// if with init statement
		t := g.basic()
		e, _ := g.expr(sc, t, 2)
		v := &variable{name: g.newID("v"), t: t}
		inner := sc.child()
		inner.add(v)
		b.add("if %s := %s; %s {", v.name, e, g.cond(inner))
		b.ind++
		b.add("_ = %s", v.name)
		g.trace(b, g.newID("t"), v)
		g.stmts(b, inner.child(), 1+r.Intn(2), d-1)
		b.ind--
		b.add("} else {")
		b.ind++
		b.add("_ = %s", v.name)
		g.stmts(b, inner.child(), 1, d-1)
		b.ind--
		b.add("}")
		g.feat("if-init")
		return
	}
	b.add("if %s {", g.cond(sc))
	b.ind++
	g.stmts(b, sc.child(), 1+r.Intn(3), d-1)
	b.ind--
	switch r.Intn(3) {
	case 0:
		b.add("}")
	case 1:
		b.add("} else {")
		b.ind++
		g.stmts(b, sc.child(), 1+r.Intn(2), d-1)
		b.ind--
		b.add("}")
	default:
		b.add("} else if %s {", g.cond(sc))
		b.ind++
		g.stmts(b, sc.child(), 1+r.Intn(2), d-1)
		b.ind--
		b.add("} else {")
		b.ind++
		g.stmts(b, sc.child(), 1, d-1)
		b.ind--
		b.add("}")
	}
}

func (g *gen) forStmt(b *block, sc *scope, d int) {
	r := g.r
	g.feat("for")
	label := ""
	if r.Intn(3) == 0 && g.cfg.LabelledCtl {
		g.labelN++
		label = fmt.Sprintf("L%d", g.labelN)
	}
	iv := &variable{name: g.newID("i"), t: TInt, readOnly: true}
	inner := sc.child()
	inner.add(iv)
	inner.loops = append(append([]string(nil), sc.loops...), label)
	n := 1 + r.Intn(5)
	usedLabel := false
	body := &block{ind: b.ind + 1}
	// body
	g.stmts(body, inner.child(), 1+r.Intn(3), d-1)
	if r.Intn(2) == 0 {
		// conditional break/continue
		kw := pick(r, []string{"break", "continue"})
		target := ""
		if label != "" && r.Intn(2) == 0 {
			target = " " + label
			usedLabel = true
		}
		body.add("if %s {\n\t%s%s\n}", g.cond(inner), kw, target)
		g.feat(kw)
	}
	g.trace(body, g.newID("t"), iv)
	if label != "" && !usedLabel {
		// a label must be used
		body.add("if %s < 0 {\n\tcontinue %s\n}", iv.name, label)
	}
	style := r.Intn(5)
	if style == 0 {
		b.add("%s := 0", iv.name)
	}
	if label != "" {
		b.add("%s:", label)
		g.feat("label")
	}
	switch style {
	case 0:
		// while-style
		g.feat("for-cond")
		b.add("for %s < %d {", iv.name, n)
		b.ind++
		b.add("%s++", iv.name)
		b.lines = append(b.lines, body.lines...)
		b.ind--
		b.add("}")
		// iv declared in the enclosing scope
		sc.add(&variable{name: iv.name, t: TInt, readOnly: true})
	case 1:
		g.feat("for-down")
		b.add("for %s := %d; %s >= 0; %s-- {", iv.name, n, iv.name, iv.name)
		b.lines = append(b.lines, body.lines...)
		b.add("}")
	case 4:
		// no condition: the body leaves the loop, continue runs the post statement
		g.feat("for-no-cond")
		b.add("for %s := 0; ; %s++ {", iv.name, iv.name)
		b.ind++
		b.add("if %s >= %d {\n\tbreak\n}", iv.name, n)
		b.ind--
		b.lines = append(b.lines, body.lines...)
		b.add("}")
	default:
		b.add("for %s := 0; %s < %d; %s++ {", iv.name, iv.name, n, iv.name)
		b.lines = append(b.lines, body.lines...)
		b.add("}")
	}
}

func (g *gen) rangeStmt(b *block, sc *scope, d int) {
	r := g.r
	var cands []*variable
	for _, v := range sc.all() {
		switch v.t.Kind {
		case KSlice, KArray, KMap:
			cands = append(cands, v)
		case KString:
			cands = append(cands, v)
		}
	}
	if len(cands) == 0 {
		g.declare(b, sc, sliceOf(TInt), 2)
		return
	}
	v := pick(r, cands)
	inner := sc.child()
	inner.loops = append(append([]string(nil), sc.loops...), "")
	if !g.cfg.RangePanic {
		inner.quiet = true
	}
	switch v.t.Kind {
	case KString:
		g.feat("range-string")
		i, c := g.newID("i"), g.newID("c")
		b.add("for %s, %s := range %s {", i, c, v.name)
		b.ind++
		b.add("println(%q, %s, %s)", g.newID("t"), i, c)
		inner.add(&variable{name: i, t: TInt, readOnly: true})
		inner.add(&variable{name: c, t: TInt32, readOnly: true})
		g.stmts(b, inner.child(), r.Intn(2), d-1)
		b.ind--
		b.add("}")
	case KMap:
		// map iteration order is random: only a commutative aggregation
		g.feat("range-map")
		acc := g.newID("acc")
		b.add("%s := 0", acc)
		k, e := g.newID("k"), g.newID("e")
		b.add("for %s, %s := range %s {", k, e, v.name)
		b.ind++
		b.add("_, _ = %s, %s", k, e)
		b.add("%s += %s", acc, g.hashExpr(k, v.t.Key))
		b.add("%s += 3 * %s", acc, g.hashExpr(e, v.t.Elem))
		b.ind--
		b.add("}")
		b.add("println(%q, %s)", g.newID("t"), acc)
		sc.add(&variable{name: acc, t: TInt})
	default:
		g.feat("range-" + map[Kind]string{KSlice: "slice", KArray: "array"}[v.t.Kind])
		i, e := g.newID("i"), g.newID("e")
		ev := &variable{name: e, t: v.t.Elem, readOnly: true}
		switch r.Intn(3) {
		case 0:
			b.add("for %s := range %s {", i, v.name)
			b.ind++
			b.add("println(%q, %s)", g.newID("t"), i)
		default:
			b.add("for %s, %s := range %s {", i, e, v.name)
			b.ind++
			b.add("_, _ = %s, %s", i, e)
			g.trace(b, g.newID("t"), ev)
			inner.add(ev)
		}
		inner.add(&variable{name: i, t: TInt, readOnly: true})
		g.stmts(b, inner.child(), r.Intn(2), d-1)
		b.ind--
		b.add("}")
	}
}

// hashExpr maps a value of a basic type to an int for commutative aggregation.
func (g *gen) hashExpr(e string, t *Type) string {
	switch t.Kind {
	case KBool:
		return "func() int { if " + e + " { return 1 }; return 2 }()"
	case KInt:
		return "int(" + e + ")"
	case KFloat:
		return "func() int { if " + e + " > 0 { return 1 }; return 2 }()"
	case KString:
		return "len(" + e + ")"
	}
	return "1"
}

func (g *gen) switchStmt(b *block, sc *scope, d int) {
	r := g.r
	g.feat("switch")
	if r.Intn(3) == 0 {
		// tagless
		g.feat("switch-tagless")
		b.add("switch {")
		n := 1 + r.Intn(3)
		for i := 0; i < n; i++ {
			b.add("case %s:", g.cond(sc))
			b.ind++
			inner := sc.child()
			g.stmts(b, inner, 1+r.Intn(2), d-1)
			b.add("println(%q)", g.newID("t"))
			if i < n-1 && r.Intn(4) == 0 {
				b.add("fallthrough")
				g.feat("fallthrough")
			}
			b.ind--
		}
		b.add("default:")
		b.ind++
		b.add("println(%q)", g.newID("t"))
		b.ind--
		b.add("}")
		return
	}
	t := pick(r, []*Type{TInt, TString, TInt8, TUint8, TInt32, TBool, TUint16})
	tag := g.nc(sc, t, 2)
	if t.Kind == KInt {
		tag = "(" + tag + " % 6)"
	}
	b.add("switch %s {", tag)
	lits := g.distinctLits(t, 2+r.Intn(3))
	if t.Kind == KInt {
		lits = nil
		for _, i := range r.Perm(6)[:3] {
			lits = append(lits, strconv.Itoa(i))
		}
	}
	for i := 0; i < len(lits); i++ {
		if i+1 < len(lits) && r.Intn(3) == 0 {
			b.add("case %s, %s:", lits[i], lits[i+1])
			i++
		} else {
			b.add("case %s:", lits[i])
		}
		b.ind++
		g.stmts(b, sc.child(), 1, d-1)
		b.add("println(%q)", g.newID("t"))
		if i < len(lits)-1 && r.Intn(4) == 0 {
			b.add("fallthrough")
			g.feat("fallthrough")
		} else if r.Intn(5) == 0 {
			b.add("if %s {\n\tbreak\n}", g.cond(sc))
			b.add("println(%q)", g.newID("t"))
			g.feat("switch-break")
		}
		b.ind--
	}
	if r.Intn(3) != 0 {
		b.add("default:")
		b.ind++
		b.add("println(%q)", g.newID("t"))
		b.ind--
	}
	b.add("}")
}

func (g *gen) typeSwitchStmt(b *block, sc *scope, d int) {
	r := g.r
	g.feat("type-switch")
	bt := g.basic()
	e, _ := g.expr(sc, bt, 2)
	a := g.newID("a")
	b.add("var %s any = %s", a, e)
	x := g.newID("x")
	b.add("switch %s := %s.(type) {", x, a)
	seen := map[string]bool{}
	cands := []*Type{bt, TInt, TString, TFloat64, TBool, TUint8, TInt32}
	r.Shuffle(len(cands), func(i, j int) { cands[i], cands[j] = cands[j], cands[i] })
	for _, ct := range cands[:4] {
		// uint8/byte and int32/rune are identical types: key by underlying name for predeclared
		if seen[ct.Name] {
			continue
		}
		seen[ct.Name] = true
		b.add("case %s:", ct.Name)
		b.ind++
		b.add("println(%q, %s)", g.newID("t"), x)
		b.ind--
	}
	b.add("default:")
	b.ind++
	b.add("_ = %s", x)
	b.add("println(%q)", g.newID("t"))
	b.ind--
	b.add("}")
}

// anyStmt exercises interface values: assertion with comma-ok and equality.
func (g *gen) anyStmt(b *block, sc *scope) {
	r := g.r
	g.feat("any")
	bt := g.basic()
	e, _ := g.expr(sc, bt, 2)
	a := g.newID("a")
	b.add("var %s any = %s", a, e)
	ot := g.basic()
	x, ok := g.newID("x"), g.newID("ok")
	b.add("%s, %s := %s.(%s)", x, ok, a, ot.Name)
	b.add("println(%q, %s, %s)", g.newID("t"), x, ok)
	g.feat("assert-commaok")
	if r.Intn(2) == 0 {
		e2, _ := g.expr(sc, bt, 2)
		b.add("println(%q, %s == any(%s), %s != nil)", g.newID("t"), a, e2, a)
		g.feat("any-eq")
	}
	if r.Intn(2) == 0 {
		y := g.newID("y")
		b.add("%s := %s.(%s)", y, a, bt.Name)
		b.add("println(%q, %s)", g.newID("t"), y)
		g.feat("assert")
	}
	sc.add(&variable{name: a, t: TAny})
}

func (g *gen) closureStmt(b *block, sc *scope, d int) {
	r := g.r
	g.feat("closure")
	// a closure capturing and modifying a variable of the enclosing scope
	vs := g.assignable(sc)
	if len(vs) == 0 {
		g.declare(b, sc, TInt, 2)
		vs = g.assignable(sc)
		if len(vs) == 0 {
			return
		}
	}
	cv := pick(r, vs)
	c := g.newID("c")
	pt := g.basic()
	p := &variable{name: g.newID("p"), t: pt}
	inner := &scope{parent: sc, noCtl: true, pure: sc.pure, quiet: sc.quiet}
	inner.add(p)
	e, _ := g.expr(inner, cv.t, 2)
	b.add("%s := func(%s %s) %s {", c, p.name, pt.Name, cv.t.Name)
	b.ind++
	b.add("_ = %s", p.name)
	b.add("%s = %s", cv.name, e)
	if r.Intn(2) == 0 {
		g.stmts(b, inner.child(), 1, 0)
	}
	b.add("return %s", cv.name)
	b.ind--
	b.add("}")
	n := 1 + r.Intn(3)
	for i := 0; i < n; i++ {
		a, _ := g.expr(sc, pt, 1)
		rv := g.newID("r")
		b.add("%s := %s(%s)", rv, c, a)
		b.add("println(%q, %s, %s)", g.newID("t"), rv, cv.name)
	}
	if r.Intn(3) == 0 {
		// closure returned from a closure (counter pattern)
		g.feat("closure-counter")
		mk, k := g.newID("mk"), g.newID("k")
		b.add("%s := func() func() int {\n\tn := 0\n\treturn func() int {\n\t\tn += 2\n\t\treturn n\n\t}\n}", mk)
		b.add("%s := %s()", k, mk)
		b.add("println(%q, %s(), %s(), %s()())", g.newID("t"), k, k, mk)
	}
}

func (g *gen) deferStmt(b *block, sc *scope, d int) {
	r := g.r
	g.feat("defer")
	// run inside an immediately-invoked function so that the deferred calls run here
	vs := g.assignable(sc)
	b.add("func() {")
	b.ind++
	inner := &scope{parent: sc, noCtl: true, pure: sc.pure, quiet: sc.quiet}
	n := 1 + r.Intn(3)
	for i := 0; i < n; i++ {
		switch r.Intn(4) {
		case 0:
			if g.cfg.DeferNative {
				bt := g.basic()
				if !g.cfg.DeferBuiltinDT {
					bt = under(bt)
				}
				e, _ := g.expr(inner, bt, 1)
				b.add("defer println(%q, %s)", g.newID("t"), e)
				g.feat("defer-builtin")
				break
			}
			fallthrough
		case 1:
			// deferred closure with argument evaluated now
			t := g.basic()
			e, _ := g.expr(inner, t, 2)
			p := g.newID("p")
			b.add("defer func(%s %s) {\n\tprintln(%q, %s)\n}(%s)", p, t.Name, g.newID("t"), p, e)
			g.feat("defer-arg")
		default:
			if len(vs) > 0 {
				v := pick(r, vs)
				e, _ := g.expr(inner, v.t, 2)
				b.add("defer func() {\n\t%s = %s\n\t%s\n}()", v.name, e, g.traceStmt(g.newID("t"), v.name, v.t, false))
			} else {
				b.add("defer func() {\n\tprintln(%q)\n}()", g.newID("t"))
			}
		}
		if r.Intn(2) == 0 {
			g.stmts(b, inner.child(), 1, 0)
		}
	}
	if r.Intn(3) == 0 {
		// loop of defers: LIFO order
		g.feat("defer-loop")
		b.add("for i := 0; i < 3; i++ {\n\tdefer func(k int) {\n\t\tprintln(%q, k)\n\t}(i)\n}", g.newID("t"))
	}
	b.ind--
	b.add("}()")
}

func (g *gen) gotoStmt(b *block, sc *scope, d int) {
	if sc.inFunc == nil && !sc.noCtl && len(sc.loops) == 0 {
		// only at function level of main-like scopes; keep it simple: a counting loop
	}
	g.feat("goto")
	g.labelN++
	l := fmt.Sprintf("G%d", g.labelN)
	i := g.newID("i")
	b.add("{")
	b.ind++
	b.add("%s := 0", i)
	b.add("%s:", l)
	b.add("if %s < %d {", i, 2+g.r.Intn(3))
	b.ind++
	b.add("%s++", i)
	b.add("println(%q, %s)", g.newID("t"), i)
	b.add("goto %s", l)
	b.ind--
	b.add("}")
	b.ind--
	b.add("}")
}

// ctlStmt emits a break/continue of an enclosing loop, guarded by a condition.
func (g *gen) ctlStmt(b *block, sc *scope) {
	if len(sc.loops) == 0 || sc.noCtl {
		return
	}
	kw := pick(g.r, []string{"break", "continue"})
	l := sc.loops[g.r.Intn(len(sc.loops))]
	if l != "" && g.r.Intn(2) == 0 {
		b.add("if %s {\n\t%s %s\n}", g.cond(sc), kw, l)
		g.feat(kw + "-label")
		return
	}
	b.add("if %s {\n\t%s\n}", g.cond(sc), kw)
	g.feat(kw)
}

// callStmt calls a generated function as a statement.
func (g *gen) callStmt(b *block, sc *scope) {
	if len(g.funcs) == 0 {
		return
	}
	r := g.r
	// functions may only call functions declared before them (no recursion)
	limit := len(g.funcs)
	if sc.inFunc != nil {
		for i, f := range g.funcs {
			if f == sc.inFunc {
				limit = i
			}
		}
	}
	if limit == 0 {
		return
	}
	f := g.funcs[r.Intn(limit)]
	g.feat("call")
	call := g.callExpr(sc, f, 2)
	if len(f.results) == 0 {
		b.add("%s", call)
		return
	}
	var names []string
	var vars []*variable
	for _, rt := range f.results {
		v := &variable{name: g.newID("v"), t: rt, nonNil: rt.Kind == KPtr}
		names = append(names, v.name)
		vars = append(vars, v)
	}
	b.add("%s := %s", strings.Join(names, ", "), call)
	for _, v := range vars {
		b.add("_ = %s", v.name)
		g.trace(b, g.newID("t"), v)
		sc.add(v)
	}
	if len(f.results) > 1 {
		g.feat("call-multi-result")
	}
}

// compositeStmt mutates composite values.
func (g *gen) compositeStmt(b *block, sc *scope) {
	r := g.r
	var cands []*variable
	seen := map[string]bool{}
	for _, v := range sc.all() {
		if seen[v.name] || v.readOnly {
			seen[v.name] = true
			continue
		}
		seen[v.name] = true
		switch v.t.Kind {
		case KSlice, KArray, KMap, KStruct:
			cands = append(cands, v)
		case KPtr:
			if v.nonNil {
				cands = append(cands, v)
			}
		}
	}
	if len(cands) == 0 {
		g.declare(b, sc, pick(r, g.types), 2)
		return
	}
	v := pick(r, cands)
	t := v.t
	switch t.Kind {
	case KSlice:
		switch {
		case v.noAlias && r.Intn(2) == 0:
			g.feat("append")
			n := 1 + r.Intn(3)
			var el []string
			for i := 0; i < n; i++ {
				e, _ := g.expr(sc, t.Elem, 2)
				el = append(el, e)
			}
			b.add("%s = append(%s, %s)", v.name, v.name, strings.Join(el, ", "))
		case !v.noAlias && r.Intn(3) == 0:
			// re-slice into a new view (the base is never appended to)
			g.feat("slice-slice")
			w := &variable{name: g.newID("v"), t: t}
			b.add("%s := %s[len(%s)/2:]", w.name, v.name, v.name)
			b.add("_ = %s", w.name)
			sc.add(w)
			g.trace(b, g.newID("t"), w)
			return
		case r.Intn(4) == 0 && t.Elem.IsBasic():
			g.feat("copy")
			b.add("println(%q, copy(%s, %s))", g.newID("t"), v.name, g.freshSlice(sc, t, 2))
		default:
			g.feat("index-assign-slice")
			e, _ := g.expr(sc, t.Elem, 2)
			b.add("if len(%s) > 0 {\n\t%s[int(uint(%s)%%uint(len(%s)))] = %s\n}", v.name, v.name, g.nc(sc, TInt, 1), v.name, e)
		}
	case KArray:
		if r.Intn(3) == 0 {
			// arrays are values: copy then modify the copy
			g.feat("array-copy")
			w := &variable{name: g.newID("v"), t: t}
			b.add("%s := %s", w.name, v.name)
			e, _ := g.expr(sc, t.Elem, 2)
			b.add("%s[%d] = %s", w.name, r.Intn(t.N), e)
			sc.add(w)
			g.trace(b, g.newID("t"), w)
		} else {
			g.feat("index-assign-array")
			e, _ := g.expr(sc, t.Elem, 2)
			b.add("%s[int(uint(%s)%%%d)] = %s", v.name, g.nc(sc, TInt, 1), t.N, e)
		}
	case KMap:
		switch r.Intn(4) {
		case 0:
			g.feat("delete")
			k, _ := g.expr(sc, t.Key, 2)
			b.add("delete(%s, %s)", v.name, k)
		case 1:
			g.feat("map-commaok")
			k, _ := g.expr(sc, t.Key, 2)
			x, ok := g.newID("x"), g.newID("ok")
			b.add("%s, %s := %s[%s]", x, ok, v.name, k)
			b.add("%s", g.traceStmt(g.newID("t"), x, t.Elem, false))
			b.add("println(%q, %s)", g.newID("t"), ok)
			return
		default:
			g.feat("map-assign")
			k, _ := g.expr(sc, t.Key, 2)
			e, _ := g.expr(sc, t.Elem, 2)
			b.add("%s[%s] = %s", v.name, k, e)
			if t.Elem.Kind == KInt && r.Intn(3) == 0 {
				b.add("%s[%s]++", v.name, k)
				g.feat("map-incdec")
			}
		}
	case KStruct:
		f := pick(r, t.Fields)
		if f.T.IsBasic() {
			g.feat("field-assign")
			e, _ := g.expr(sc, f.T, 2)
			b.add("%s.%s = %s", v.name, f.Name, e)
		}
		if r.Intn(3) == 0 {
			g.feat("struct-copy")
			w := &variable{name: g.newID("v"), t: t}
			b.add("%s := %s", w.name, v.name)
			b.add("_ = %s", w.name)
			for _, f2 := range t.Fields {
				if f2.T.IsBasic() {
					e, _ := g.expr(sc, f2.T, 1)
					b.add("%s.%s = %s", w.name, f2.Name, e)
					break
				}
			}
			sc.add(w)
			g.trace(b, g.newID("t"), w)
		}
	case KPtr:
		if t.Elem.IsBasic() {
			g.feat("ptr-assign")
			e, _ := g.expr(sc, t.Elem, 2)
			b.add("*%s = %s", v.name, e)
		} else if t.Elem.Kind == KStruct {
			f := pick(r, t.Elem.Fields)
			if f.T.IsBasic() {
				g.feat("ptr-field-assign")
				e, _ := g.expr(sc, f.T, 2)
				b.add("%s.%s = %s", v.name, f.Name, e)
			}
		}
		// address-of an existing variable
		if r.Intn(3) == 0 {
			if vs := sc.ofType(t.Elem, true); len(vs) > 0 {
				tv := pick(r, vs)
				if !tv.noAlias {
					g.feat("addr-of-var")
					b.add("%s = &%s", v.name, tv.name)
					if t.Elem.IsBasic() {
						e, _ := g.expr(sc, t.Elem, 1)
						b.add("*%s = %s", v.name, e)
						g.trace(b, g.newID("t"), tv)
					}
				}
			}
		}
	}
	g.trace(b, g.newID("t"), v)
}

// faultStmt emits one operation that faults at run time (or may), usually
// inside a function that recovers and prints the panic value.
func (g *gen) faultStmt(b *block, sc *scope) {
	r := g.r
	g.feat("fault")
	var op string
	switch r.Intn(12) {
	case 0:
		z := g.newID("z")
		t := pick(r, IntTypes)
		op = fmt.Sprintf("var %s %s\nprintln(%q, %s / %s)", z, t.Name, g.newID("t"), g.nc(sc, t, 1), z)
		g.feat("fault-div0-" + t.Name)
	case 1:
		z := g.newID("z")
		t := pick(r, IntTypes)
		op = fmt.Sprintf("var %s %s\nprintln(%q, %s %% %s)", z, t.Name, g.newID("t"), g.nc(sc, t, 1), z)
		g.feat("fault-rem0-" + t.Name)
	case 2:
		s := g.newID("s")
		op = fmt.Sprintf("%s := []int{1, 2, 3}\nprintln(%q, %s[%s])", s, g.newID("t"), s, g.nc(sc, TInt, 1))
		g.feat("fault-index-slice")
	case 3:
		s := g.newID("s")
		i := g.newID("i")
		op = fmt.Sprintf("%s := [4]string{}\n%s := %s\nprintln(%q, %s[%s])", s, i, g.nc(sc, TInt, 1), g.newID("t"), s, i)
		g.feat("fault-index-array")
	case 4:
		p := g.newID("p")
		t := g.basic()
		op = fmt.Sprintf("var %s *%s\nprintln(%q, *%s)", p, t.Name, g.newID("t"), p)
		g.feat("fault-nil-deref")
	case 5:
		m := g.newID("m")
		op = fmt.Sprintf("var %s map[string]int\n%s[\"a\"] = 1\nprintln(%q, len(%s))", m, m, g.newID("t"), m)
		g.feat("fault-nil-map")
	case 6:
		a := g.newID("a")
		bt, ot := g.basic(), g.basic()
		if !g.cfg.AssertMsgDT {
			bt, ot = under(bt), under(ot)
		}
		e, _ := g.expr(sc, bt, 1)
		op = fmt.Sprintf("var %s any = %s\nprintln(%q, %s.(%s))", a, e, g.newID("t"), a, ot.Name)
		g.feat("fault-assert")
	case 7:
		t := pick(r, []*Type{TInt, TString, TInt8, TUint16, TFloat64, TBool, TFloat32, TUint8, TInt64})
		if g.cfg.Complex && r.Intn(6) == 0 {
			t = TComplex
		}
		if r.Intn(3) == 0 {
			// possibly a defined type: gc prints it as pkg.T(value)
			t = g.basic()
			if !g.cfg.PanicDefType {
				t = under(t)
			}
		}
		e, _ := g.expr(sc, t, 1)
		op = fmt.Sprintf("panic(%s)", e)
		g.feat("fault-panic-" + t.Name)
	case 8:
		s := g.newID("s")
		op = fmt.Sprintf("%s := %s\nprintln(%q, %s[%s])", s, g.nc(sc, TString, 1), g.newID("t"), s, g.nc(sc, TInt, 1))
		g.feat("fault-index-string")
	case 9:
		var f string
		f = g.newID("f")
		op = fmt.Sprintf("var %s func(int) int\nprintln(%q, %s(1))", f, g.newID("t"), f)
		g.feat("fault-nil-func")
	case 10:
		p := g.newID("p")
		st := pick(r, g.structs)
		op = fmt.Sprintf("var %s *%s\n%s.%s = %s.%s\nprintln(%q)", p, st.Name, p, st.Fields[0].Name, p, st.Fields[0].Name, g.newID("t"))
		g.feat("fault-nil-field")
	default:
		a, c := g.newID("a"), g.newID("c")
		op = fmt.Sprintf("var %s any = []int{1}\nvar %s any = []int{1}\nprintln(%q, %s == %s)", a, c, g.newID("t"), a, c)
		g.feat("fault-uncomparable")
	}
	if r.Intn(12) == 0 && !sc.noCtl {
		// unprotected: ends the program with an unrecovered panic (only at statement level)
		g.feat("fault-unrecovered")
		b.add("{")
		b.ind++
		b.add("%s", op)
		b.ind--
		b.add("}")
		return
	}
	show := g.helperShow()
	b.add("func() {")
	b.ind++
	switch r.Intn(4) {
	case 0:
		// recover and re-panic with another value, recovered by an outer defer
		g.feat("repanic")
		b.add("defer func() {\n\t%s(%q, recover())\n}()", show, g.newID("t"))
		b.add("defer func() {\n\tr := recover()\n\t%s(%q, r)\n\tpanic(%q)\n}()", show, g.newID("t"), g.newID("again"))
	case 1:
		// a deferred call that does not recover, then one that does
		b.add("defer func() {\n\t%s(%q, recover())\n}()", show, g.newID("t"))
		b.add("defer func() {\n\tprintln(%q)\n}()", g.newID("t"))
	default:
		b.add("defer func() {\n\t%s(%q, recover())\n}()", show, g.newID("t"))
	}
	b.add("%s", op)
	b.add("println(%q)", g.newID("unreached?"))
	b.ind--
	b.add("}()")
}

// orderStmt exercises evaluation-order rules of the specification: the index
// operands of a tuple assignment are evaluated before any assignment, and the
// range expression of an array is evaluated once (the loop sees a copy).
func (g *gen) orderStmt(b *block, sc *scope) {
	r := g.r
	kind := r.Intn(9)
	if kind == 6 && (sc.quiet || sc.pure) {
		// no panics, not even recovered ones, where the scope forbids them
		// (the body of a for-range loop while finding C01-F4 is open)
		kind = 5
	}
	switch kind {
	case 4:
		// closures created in loops capture the variables of their own
		// iteration; function values are appended to a slice
		g.feat("closures-in-loops")
		fs, tag := g.newID("fs"), g.newID("t")
		b.add("var %s []func() int", fs)
		b.add("for i := 0; i < %d; i++ {\n\t%s = append(%s, func() int {\n\t\treturn i * 10\n\t})\n}", 2+r.Intn(3), fs, fs)
		b.add("for k, v := range []int{5, 6, 7} {\n\t%s = append(%s, func() int {\n\t\treturn k*100 + v\n\t}, %s[0])\n}", fs, fs, fs)
		b.add("for i, j := 0, 9; i < 2; i, j = i+1, j-1 {\n\tp := &i\n\t%s = append(%s, func() int {\n\t\t*p += 0\n\t\treturn *p + j\n\t})\n\tif i == 0 {\n\t\tcontinue\n\t}\n\ti += 0\n}", fs, fs)
		b.add("for n, f := range %s {\n\tprintln(%q, n, f())\n}", fs, tag)
	case 5:
		// keyed composite literals: the length is the maximum index plus one
		g.feat("keyed-literals")
		tag := g.newID("t")
		k1, k2 := 1+r.Intn(4), r.Intn(3)
		a, c, e := g.newID("a"), g.newID("a"), g.newID("a")
		b.add("%s := []int{%d: 1, %d: 5, 7}", a, k1+k2+1, k2)
		b.add("%s := []string{%d: \"x\", \"y\", %d: \"z\"}", c, k1, k1+3+k2)
		b.add("%s := [...]int8{%d: 1, %d: 3}", e, k1+k2+2, k2)
		b.add("println(%q, len(%s), cap(%s), len(%s), len(%s))", tag, a, a, c, e)
		b.add("for i, v := range %s {\n\tprintln(%q, i, v)\n}", a, tag)
		b.add("for i, v := range %s {\n\tprintln(%q, i, v)\n}", c, tag)
	case 6:
		// named results changed by deferred closures, also after a recovered panic
		g.feat("named-results-deferred")
		tag := g.newID("t")
		f1, f2, f3 := g.newID("nr"), g.newID("nr"), g.newID("nr")
		b.add("%s := func() (err any) {\n\tdefer func() {\n\t\terr = %s\n\t}()\n\treturn 5\n}", f1, pick(r, []string{`"set"`, "7.5", "[]int{1}", "nil"}))
		b.add("%s := func() (n int, err any, s string) {\n\tdefer func() {\n\t\terr = recover()\n\t\tn += 2\n\t\ts += \"!\"\n\t}()\n\tn, s = 1, \"a\"\n\tvar m map[string]int\n\tm[\"k\"] = 1\n\treturn 9, nil, \"z\"\n}", f2)
		b.add("%s := func() (e error, f func() int) {\n\tdefer func() {\n\t\tif r := recover(); r != nil {\n\t\t\te = r.(error)\n\t\t\tf = func() int { return 3 }\n\t\t}\n\t}()\n\tvar p *int\n\t_ = *p\n\treturn nil, nil\n}", f3)
		b.add("%s(%q, %s())", g.helperShow(), tag, f1)
		b.add("{\n\tn, err, s := %s()\n\t%s(%q, err)\n\tprintln(%q, n, s)\n}", f2, g.helperShow(), tag, tag)
		b.add("{\n\te, f := %s()\n\tprintln(%q, e != nil, f != nil && f() == 3)\n}", f3, tag)
	case 7:
		// elements and fields of package-level arrays and structs: their
		// address is the address of the variable, tuple assignments assign all of them
		g.feat("global-elements")
		tag := g.newID("t")
		ga, gs := g.newID("ga"), g.newID("gs")
		g.decls = append(g.decls, fmt.Sprintf("var %s = [3]int{1, 2, 3}", ga), fmt.Sprintf("var %s = struct{ A, B int }{1, 2}", gs))
		b.add("{\n\tp, q := &%s[0], &%s.A\n\t*p, *q = 5, 6\n\tprintln(%q, %s[0], %s.A)\n}", ga, gs, tag, ga, gs)
		b.add("%s[0], %s[%d] = 8, 9", ga, ga, 1+r.Intn(2))
		b.add("%s.A, %s.B = 10, 11", gs, gs)
		b.add("func() {\n\t%s[1], %s.B = %s[1]+20, %s.B+30\n\tr := &%s[2]\n\t*r++\n}()", ga, gs, ga, gs, ga)
		b.add("println(%q, %s[0], %s[1], %s[2], %s.A, %s.B)", tag, ga, ga, ga, gs, gs)
		// a local variable that hides a package-level one is not taken for it
		b.add("{\n\t%s := [4]int{7, 8}\n\t%s := struct{ A, B, C int }{1, 2, 3}\n\tp := &%s[3]\n\t*p = 4\n\t%s[0], %s[1] = %s[1], %s[0]\n\tq := &%s.C\n\t*q += 5\n\t%s.A, %s.B = %s.B, %s.A\n\tprintln(%q, %s[0], %s[1], %s[3], %s.A, %s.B, %s.C)\n}", ga, gs, ga, ga, ga, ga, ga, gs, gs, gs, gs, gs, tag, ga, ga, ga, gs, gs, gs)
		b.add("println(%q, %s[0], %s[1], %s.A, %s.B)", tag, ga, ga, gs, gs)
		// arrays and structs are passed by value, also from package-level
		// and captured variables, to calls, deferred calls and closures
		wr := g.newID("wr")
		b.add("%s := func(a [3]int, s struct{ A, B int }) int {\n\ta[0], s.A = 99, 98\n\ta[1]++\n\treturn a[0] + a[1] + s.A\n}", wr)
		b.add("println(%q, %s(%s, %s), %s[0], %s[1], %s.A)", tag, wr, ga, gs, ga, ga, gs)
		la := g.newID("la")
		b.add("%s := %s", la, ga)
		b.add("func() {\n\tdefer %s(%s, %s)\n\tprintln(%q, %s(%s, %s), %s[0])\n}()", wr, ga, gs, tag, wr, la, gs, la)
		b.add("println(%q, %s[0], %s[1], %s[0], %s.A)", tag, ga, ga, la, gs)
	case 8:
		// operands of comparisons with a length are evaluated in source order
		g.feat("len-compare-order")
		tag := g.newID("t")
		ti, ts := g.helperTr(TInt), g.helperTr(TString)
		op := pick(r, []string{"<", "<=", ">", ">=", "==", "!="})
		b.add("if %s(%q, %d) %s len(%s(%q, %s)) {\n\tprintln(%q, \"yes\")\n}", ti, tag+"a", r.Intn(5), op, ts, tag+"b", pick(r, stringLits), tag)
		b.add("for i := 0; len(%s(%q, \"ab\")) %s %s(%q, i); i++ {\n\tif i > 3 {\n\t\tbreak\n\t}\n}", ts, tag+"c", op, ti, tag+"d")
	case 3:
		// an append that exactly fills, falls short of, or exceeds the
		// capacity: the result shares the backing array in the first two cases
		g.feat("append-alias")
		t := pick(r, BasicTypes)
		if t.Kind == KComplex {
			t = TInt64
		}
		n, k := r.Intn(3), 1+r.Intn(3)
		c := n + k
		s0, full, res := g.newID("s"), g.newID("full"), g.newID("r")
		b.add("%s := make([]%s, %d, %d)", s0, t.Name, n, c)
		b.add("%s := %s[:%d]", full, s0, c)
		add := k + r.Intn(3) - 1 // k-1, k or k+1 elements
		if add < 1 {
			add = 1
		}
		var vals []string
		for i := 0; i < add; i++ {
			vals = append(vals, g.lit(t))
		}
		if r.Intn(2) == 0 {
			b.add("%s := append(%s, %s)", res, s0, strings.Join(vals, ", "))
		} else {
			b.add("%s := append(%s, []%s{%s}...)", res, s0, t.Name, strings.Join(vals, ", "))
		}
		b.add("%s[0] = %s", res, g.lit(t))
		tag := g.newID("t")
		if add <= k {
			b.add("println(%q, len(%s), cap(%s))", tag, res, res)
		} else {
			b.add("println(%q, len(%s))", tag, res)
		}
		b.add("println(%q, cap(%s), cap(%s[1:]), len(%s[:1:%d]), cap(%s[:1:%d]))", tag, full, full, full, c, full, c)
		b.add("for _, e := range %s {\n\tprintln(%q, e)\n}", full, tag)
		b.add("for _, e := range %s {\n\tprintln(%q, e)\n}", res, tag)
	case 0:
		g.feat("tuple-assign-index-operand")
		i, s := g.newID("i"), g.newID("s")
		b.add("%s := %d", i, r.Intn(2))
		b.add("%s := []int{10, 20, 30}", s)
		b.add("%s, %s[%s] = %d, %s", i, s, i, 1+r.Intn(2), g.nc(sc, TInt, 1))
		b.add("println(%q, %s, %s[0], %s[1], %s[2])", g.newID("t"), i, s, s, s)
		m := g.newID("m")
		k := g.newID("k")
		b.add("%s := map[string]int{}", m)
		b.add("%s := \"a\"", k)
		b.add("%s, %s[%s] = \"b\", 7", k, m, k)
		b.add("println(%q, %s, %s[\"a\"], %s[\"b\"])", g.newID("t"), k, m, m)
	case 1:
		g.feat("range-array-copy")
		a := g.newID("a")
		n := 2 + r.Intn(3)
		b.add("%s := [%d]int{}", a, n)
		b.add("for i := range %s {\n\t%s[i] = i + 1\n}", a, a)
		b.add("for i, v := range %s {\n\t%s[%d] = 100 + i\n\tprintln(%q, i, v)\n}", a, a, n-1, g.newID("t"))
		b.add("println(%q, %s[%d])", g.newID("t"), a, n-1)
		// ranging over a pointer to the array or over a slice of it sees the writes
		b.add("for i, v := range &%s {\n\t%s[%d] = 200 + i\n\tprintln(%q, i, v)\n}", a, a, n-1, g.newID("t"))
		b.add("for i, v := range %s[:] {\n\t%s[%d] = 300 + i\n\tprintln(%q, i, v)\n}", a, a, n-1, g.newID("t"))
	default:
		g.feat("variadic-nil")
		f := g.newID("vf")
		b.add("%s := func(xs ...int) (bool, int) {\n\treturn xs == nil, len(xs)\n}", f)
		b.add("{\n\tisNil, n := %s()\n\tprintln(%q, isNil, n)\n}", f, g.newID("t"))
		b.add("{\n\tisNil, n := %s(1, 2)\n\tprintln(%q, isNil, n)\n}", f, g.newID("t"))
		b.add("{\n\tisNil, n := %s([]int{}...)\n\tprintln(%q, isNil, n)\n}", f, g.newID("t"))
		b.add("{\n\tisNil, n := %s(nil...)\n\tprintln(%q, isNil, n)\n}", f, g.newID("t"))
	}
}
