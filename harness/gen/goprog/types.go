// Package goprog generates typed random Go programs in the subset Scriggo
// implements. Every program is terminating by construction, free of schedule-
// and address-dependence and prints a trace with println.
package goprog

import (
	"fmt"
	"math/rand"
	"strings"
)

// Kind classifies a type.
type Kind int

const (
	KBool Kind = iota
	KInt
	KFloat
	KComplex
	KString
	KSlice
	KArray
	KMap
	KStruct
	KPtr
	KFunc
	KAny
)

// Type describes a Go type of the generated program.
type Type struct {
	Kind     Kind
	Name     string // Go syntax
	Bits     int    // ints and floats
	Unsigned bool
	Elem     *Type
	Key      *Type
	N        int     // array length
	Fields   []Field // struct
	Params   []*Type // func
	Results  []*Type // func
	Under    *Type   // defined type: underlying basic type
}

// Field is a struct field.
type Field struct {
	Name string
	T    *Type
}

func (t *Type) String() string { return t.Name }

// IsBasic reports whether t is bool, numeric or string (possibly defined).
func (t *Type) IsBasic() bool { return t.Kind <= KString }

// Printable reports whether println(v) prints a deterministic text for t.
func (t *Type) Printable() bool { return t.Kind <= KString }

// Comparable reports whether == is defined and cannot panic.
func (t *Type) Comparable() bool {
	switch t.Kind {
	case KBool, KInt, KFloat, KComplex, KString:
		return true
	case KArray:
		return t.Elem.Comparable()
	case KStruct:
		for _, f := range t.Fields {
			if !f.T.Comparable() {
				return false
			}
		}
		return true
	}
	return false
}

func intType(name string, bits int, unsigned bool) *Type {
	return &Type{Kind: KInt, Name: name, Bits: bits, Unsigned: unsigned}
}

var (
	TBool    = &Type{Kind: KBool, Name: "bool"}
	TInt     = intType("int", 64, false)
	TInt8    = intType("int8", 8, false)
	TInt16   = intType("int16", 16, false)
	TInt32   = intType("int32", 32, false)
	TInt64   = intType("int64", 64, false)
	TUint    = intType("uint", 64, true)
	TUint8   = intType("uint8", 8, true)
	TUint16  = intType("uint16", 16, true)
	TUint32  = intType("uint32", 32, true)
	TUint64  = intType("uint64", 64, true)
	TUintptr = intType("uintptr", 64, true)
	TFloat32 = &Type{Kind: KFloat, Name: "float32", Bits: 32}
	TFloat64 = &Type{Kind: KFloat, Name: "float64", Bits: 64}
	TComplex = &Type{Kind: KComplex, Name: "complex128", Bits: 128}
	TString  = &Type{Kind: KString, Name: "string"}
	TAny     = &Type{Kind: KAny, Name: "any"}
)

// IntTypes lists every integer type.
var IntTypes = []*Type{TInt, TInt8, TInt16, TInt32, TInt64, TUint, TUint8, TUint16, TUint32, TUint64, TUintptr}

// FloatTypes lists the floating-point types.
var FloatTypes = []*Type{TFloat32, TFloat64}

// BasicTypes lists the predeclared basic types used by the generator.
var BasicTypes = append(append([]*Type{TBool, TString, TComplex}, IntTypes...), FloatTypes...)

func sliceOf(e *Type) *Type { return &Type{Kind: KSlice, Name: "[]" + e.Name, Elem: e} }
func arrayOf(n int, e *Type) *Type {
	return &Type{Kind: KArray, Name: fmt.Sprintf("[%d]%s", n, e.Name), Elem: e, N: n}
}
func mapOf(k, v *Type) *Type {
	return &Type{Kind: KMap, Name: "map[" + k.Name + "]" + v.Name, Key: k, Elem: v}
}
func ptrTo(e *Type) *Type { return &Type{Kind: KPtr, Name: "*" + e.Name, Elem: e} }
func funcOf(params, results []*Type) *Type {
	var p, r []string
	for _, t := range params {
		p = append(p, t.Name)
	}
	for _, t := range results {
		r = append(r, t.Name)
	}
	name := "func(" + strings.Join(p, ", ") + ")"
	if len(r) == 1 {
		name += " " + r[0]
	} else if len(r) > 1 {
		name += " (" + strings.Join(r, ", ") + ")"
	}
	return &Type{Kind: KFunc, Name: name, Params: params, Results: results}
}

func pick[T any](r *rand.Rand, xs []T) T { return xs[r.Intn(len(xs))] }

// minMax returns the range of an integer type as decimal literal bounds that fit in int64/uint64.
func (t *Type) minMax() (min int64, max uint64) {
	if t.Unsigned {
		if t.Bits == 64 {
			return 0, ^uint64(0)
		}
		return 0, (uint64(1) << uint(t.Bits)) - 1
	}
	return -(int64(1) << uint(t.Bits-1)), (uint64(1) << uint(t.Bits-1)) - 1
}
