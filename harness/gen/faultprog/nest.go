package faultprog

import (
	"fmt"
	"math/rand"
	"regexp"
	"strings"
)

// NestOpts controls GenNest.
type NestOpts struct {
	// ClosureOnly declares every function as a closure variable inside main, so
	// that the same statements can be placed in a template {%% %%} block.
	ClosureOnly bool
	// NativeEscape allows a panic to leave a closure called by a native function.
	NativeEscape bool
	// DeferRecover allows the statement `defer recover()` (off: what the gc runtime
	// reports for it depends on frame-pointer matching details, not on the spec).
	DeferRecover bool
	// NoDeferFuncVar replaces `defer fN()` by `defer func() { fN() }()` in ClosureOnly
	// programs, where fN is a function value held in a captured variable.
	NoDeferFuncVar bool
	MaxFuncs       int // number of functions besides main (default 4)
	MaxDepth       int // nesting depth of closures (default 3)
}

// Nest is a generated panic/defer/recover/Stop/Fatal program.
type Nest struct {
	Src string // Go program (package main, imports "errors" and "pkg")
	// Tmpl is the template mirror (index.html) of a ClosureOnly program: the same
	// statements inside a {%% %%} block. TmplOffset is the number of lines to add
	// to a line of Src to get the line of the same statement in Tmpl.
	Tmpl       string
	TmplOffset int
	// SiteLines maps the line (in Src) of every statement that can panic to its
	// site id.
	SiteLines map[int]int
	// DerefLines are the lines (in Src) of the sites that dereference a nil pointer.
	DerefLines []int
}

type nestGen struct {
	r      *rand.Rand
	o      NestOpts
	lines  []string
	sites  map[int]int
	derefs []int
	nSite  int
	nTick  int
	nFuncs int
	budget int // remaining statements
}

func (g *nestGen) emit(ind int, s string) int {
	g.lines = append(g.lines, strings.Repeat("\t", ind)+s)
	return len(g.lines)
}

func (g *nestGen) tick() int { g.nTick++; return g.nTick }

// site emits a statement that panics and records its line.
func (g *nestGen) site(ind int) {
	g.nSite++
	n := g.nSite
	var s string
	switch g.r.Intn(16) {
	case 12:
		s = fmt.Sprintf("pkg.Got(pkg.NilT().N + %d)", n)
	case 13:
		// a deferred builtin or native call that panics when the function ends
		if g.r.Intn(2) == 0 {
			s = fmt.Sprintf("defer panic(pkg.Uniq(\"dp%d\"))", n)
		} else {
			s = fmt.Sprintf("defer pkg.PanicDef(%d)", n)
		}
	case 14, 15:
		// the value of a panic that native code recovered from a callback is passed
		// to panic again: a new panic at this statement
		g.emit(ind, fmt.Sprintf("v%d := pkg.CallRec(func() {", n))
		g.emit(ind+1, fmt.Sprintf("panic(pkg.Uniq(\"p%d\"))", n))
		g.emit(ind, "})")
		s = fmt.Sprintf("panic(v%d)", n)
	// The values of explicit panics are unique per execution (pkg.Uniq* append a
	// call counter): the gc runtime prints two adjacent panics with the identical
	// value as one "[recovered, repanicked]" line, which must stay unambiguous.
	case 0, 1, 2:
		s = fmt.Sprintf("panic(pkg.Uniq(\"p%d\"))", n)
	case 3:
		s = fmt.Sprintf("panic(pkg.UniqInt(%d))", 1000+n)
	case 4:
		s = fmt.Sprintf("panic(pkg.UniqErr(\"e%d\"))", n)
	case 5:
		s = fmt.Sprintf("pkg.Got(pkg.Ints[pkg.Zero()+%d])", n+10)
	case 6:
		s = fmt.Sprintf("pkg.NilMap[\"k\"] = %d", n)
	case 7:
		s = fmt.Sprintf("pkg.Got(%d / pkg.Zero())", n)
	case 8:
		s = fmt.Sprintf("pkg.Got(pkg.Box(%d).(string))", n)
	case 9:
		s = fmt.Sprintf("pkg.PanicEnv(%d)", n)
	case 10:
		s = "pkg.NilFunc()()"
	case 11:
		s = fmt.Sprintf("pkg.Got(*pkg.NilIntPtr + %d)", n)
	}
	line := g.emit(ind, s)
	g.sites[line] = n
	if strings.Contains(s, "*pkg.NilIntPtr") || strings.Contains(s, "pkg.NilT().N") {
		g.derefs = append(g.derefs, line)
	}
}

// body emits statements of a function body. fi is the index of the enclosing
// declared function (callees have a greater index), deferred reports whether the
// body is (directly) the body of a deferred closure.
func (g *nestGen) body(ind, depth, fi int, deferred bool) {
	n := 1 + g.r.Intn(4)
	if deferred && g.r.Intn(3) > 0 {
		g.recoverStmt(ind)
		// a handler that, after recovering, runs code that panics and recovers on
		// its own, and may then fail itself
		if g.r.Intn(3) == 0 {
			g.selfRecovered(ind)
			if g.r.Intn(2) == 0 {
				g.site(ind)
				return
			}
		}
	}
	for i := 0; i < n && g.budget > 0; i++ {
		g.budget--
		switch k := g.r.Intn(108); {
		case k >= 100:
			g.selfRecovered(ind)
		case k < 20:
			g.emit(ind, fmt.Sprintf("pkg.Tick(%d)", g.tick()))
		case k < 31:
			if fi < g.nFuncs {
				g.emit(ind, fmt.Sprintf("f%d()", fi+1+g.r.Intn(g.nFuncs-fi)))
			} else {
				g.emit(ind, fmt.Sprintf("pkg.Tick(%d)", g.tick()))
			}
		case k < 37:
			if depth < g.o.MaxDepth {
				g.emit(ind, "func() {")
				g.body(ind+1, depth+1, fi, false)
				g.emit(ind, "}()")
			}
		case k < 54:
			if depth < g.o.MaxDepth {
				g.emit(ind, "defer func() {")
				g.body(ind+1, depth+1, fi, true)
				g.emit(ind, "}()")
			}
		case k < 58:
			if fi < g.nFuncs {
				callee := fi + 1 + g.r.Intn(g.nFuncs-fi)
				if g.o.ClosureOnly && g.o.NoDeferFuncVar {
					g.emit(ind, "defer func() {")
					g.emit(ind+1, fmt.Sprintf("f%d()", callee))
					g.emit(ind, "}()")
				} else {
					g.emit(ind, fmt.Sprintf("defer f%d()", callee))
				}
			}
		case k < 63:
			switch g.r.Intn(3) {
			case 0:
				g.emit(ind, fmt.Sprintf("defer pkg.Tick(%d)", g.tick()))
			case 1:
				g.emit(ind, fmt.Sprintf("defer pkg.TickEnv(%d)", g.tick()))
			default:
				g.emit(ind, fmt.Sprintf("defer pkg.Var(%d, 2)", g.tick()))
			}
		case k < 79:
			if g.r.Intn(3) == 0 {
				g.emit(ind, "if pkg.Zero() == 0 {")
				g.site(ind + 1)
				g.emit(ind, "}")
			} else {
				g.site(ind)
				return
			}
		case k < 84:
			g.recoverStmt(ind)
		case k < 90:
			if depth < g.o.MaxDepth {
				g.emit(ind, "pkg.Call(func() {")
				if !g.o.NativeEscape {
					g.emit(ind+1, "defer func() {")
					g.emit(ind+2, "pkg.Got(recover())")
					g.emit(ind+1, "}()")
				}
				g.body(ind+1, depth+1, fi, false)
				g.emit(ind, "})")
			}
		case k < 93:
			if g.hostExit(ind, "Stop", g.r.Intn(len(StopErrs))) {
				return
			}
		case k < 95:
			if g.hostExit(ind, "Fatal", g.r.Intn(len(FatalVals))) {
				return
			}
		default:
			if depth < g.o.MaxDepth {
				g.emit(ind, "if pkg.Zero() == 0 {")
				g.body(ind+1, depth+1, fi, false)
				g.emit(ind, "}")
			}
		}
	}
}

// selfRecovered emits a call in which a panic is raised and recovered.
func (g *nestGen) selfRecovered(ind int) {
	g.emit(ind, "func() {")
	g.emit(ind+1, "defer func() {")
	g.emit(ind+2, "pkg.Got(recover())")
	g.emit(ind+1, "}()")
	g.site(ind + 1)
	g.emit(ind, "}()")
}

// hostExit emits a call of Env.Stop or Env.Fatal through one of the host entry points
// that receive an Env: plain native, variadic native, method, method value, callback,
// deferred native, deferred method value. It reports whether the statement ends the
// body (the deferred forms do not).
func (g *nestGen) hostExit(ind int, what string, i int) bool {
	switch g.r.Intn(8) {
	case 0, 1:
		g.emit(ind, fmt.Sprintf("pkg.%s(%d)", what, i))
	case 2:
		g.emit(ind, fmt.Sprintf("pkg.%sVar(%d, \"a\", nil, 3)", what, i))
	case 3:
		g.emit(ind, fmt.Sprintf("pkg.NewT().%sM(%d)", what, i))
	case 4:
		g.emit(ind, "{")
		g.emit(ind+1, fmt.Sprintf("m := pkg.NewT().%sM", what))
		g.emit(ind+1, fmt.Sprintf("m(%d)", i))
		g.emit(ind, "}")
	case 5:
		g.emit(ind, "pkg.Call(func() {")
		g.emit(ind+1, fmt.Sprintf("pkg.%s(%d)", what, i))
		g.emit(ind, "})")
	case 6:
		g.emit(ind, fmt.Sprintf("defer pkg.%sVar(%d)", what, i))
		return false
	default:
		g.emit(ind, fmt.Sprintf("defer pkg.NewT().%sM(%d)", what, i))
		return false
	}
	return true
}

func (g *nestGen) recoverStmt(ind int) {
	switch g.r.Intn(7) {
	case 0:
		g.emit(ind, "recover()")
	case 1:
		g.emit(ind, "pkg.Got(recover())")
	case 2:
		g.emit(ind, "if r := recover(); r != nil {")
		g.emit(ind+1, fmt.Sprintf("pkg.Tick(%d)", g.tick()))
		line := g.emit(ind+1, "panic(r)")
		g.nSite++
		g.sites[line] = g.nSite
		g.emit(ind, "}")
	case 3:
		g.emit(ind, "if recover() != nil {")
		g.site(ind + 1)
		g.emit(ind, "}")
	case 4:
		g.emit(ind, "{")
		g.emit(ind+1, "r := recover()")
		g.emit(ind+1, "pkg.Got(r)")
		g.emit(ind+1, "pkg.Got(recover())")
		g.emit(ind, "}")
	case 5:
		if g.o.DeferRecover {
			g.emit(ind, "defer recover()")
		} else {
			g.emit(ind, "recover()")
		}
	case 6:
		g.emit(ind, "if r := recover(); r != nil {")
		g.emit(ind+1, fmt.Sprintf("pkg.Tick(%d)", g.tick()))
		g.emit(ind, "}")
	}
}

// GenNest generates one program.
func GenNest(r *rand.Rand, o NestOpts) Nest {
	if o.MaxFuncs == 0 {
		o.MaxFuncs = 4
	}
	if o.MaxDepth == 0 {
		o.MaxDepth = 3
	}
	g := &nestGen{r: r, o: o, sites: map[int]int{}, budget: 40}
	g.nFuncs = 1 + r.Intn(o.MaxFuncs)
	head := []string{"package main", "", "import (", "\t\"errors\"", "\t\"pkg\"", ")", "", "var _ = errors.New", "var _ = pkg.Tick", ""}
	g.lines = append(g.lines, head...)
	if o.ClosureOnly {
		g.emit(0, "func main() {")
		bodyStart := len(g.lines) // statements start on the next line
		var names []string
		for i := 1; i <= g.nFuncs; i++ {
			names = append(names, fmt.Sprintf("f%d", i))
		}
		g.emit(1, "var "+strings.Join(names, ", ")+" func()")
		for i := g.nFuncs; i >= 1; i-- {
			g.emit(1, fmt.Sprintf("f%d = func() {", i))
			g.budget = 8
			g.body(2, 1, i, false)
			g.emit(1, "}")
		}
		for i := 1; i <= g.nFuncs; i++ {
			g.emit(1, fmt.Sprintf("_ = f%d", i))
		}
		g.budget = 14
		g.body(1, 0, 0, false)
		bodyEnd := len(g.lines)
		g.emit(0, "}")
		src := strings.Join(g.lines, "\n") + "\n"
		// template mirror: the statements of main inside a {%% %%} block
		thead := []string{"{% import \"errors\" %}{% import \"pkg\" %}{% var _ = errors.New %}{% var _ = pkg.Tick %}", "<p>head</p>", "{%%"}
		var tl []string
		tl = append(tl, thead...)
		tl = append(tl, g.lines[bodyStart:bodyEnd]...)
		tl = append(tl, "%%}", "<p>tail</p>")
		return Nest{Src: src, Tmpl: strings.Join(tl, "\n") + "\n", TmplOffset: len(thead) - bodyStart, SiteLines: g.sites, DerefLines: g.derefs}
	}
	for i := g.nFuncs; i >= 1; i-- {
		g.emit(0, fmt.Sprintf("func f%d() {", i))
		g.budget = 8
		g.body(1, 0, i, false)
		g.emit(0, "}")
		g.emit(0, "")
	}
	g.emit(0, "func main() {")
	g.budget = 14
	g.body(1, 0, 0, false)
	g.emit(0, "}")
	return Nest{Src: strings.Join(g.lines, "\n") + "\n", SiteLines: g.sites, DerefLines: g.derefs}
}

// GcProgram rewrites program i into a file of package progs (all reference programs
// are compiled as one package): the functions f<n> and main get the prefix P<i>_ and
// pkg is imported from module verifref. Line numbers are preserved.
func GcProgram(src string, i int) string {
	s := strings.Replace(src, "package main\n", "package progs\n", 1)
	s = strings.Replace(s, "\t\"pkg\"\n", "\t\"verifref/pkg\"\n", 1)
	s = gcFuncName.ReplaceAllString(s, fmt.Sprintf("${1}P%d_${2}", i))
	return s
}

var gcFuncName = regexp.MustCompile(`(^|[^A-Za-z0-9_."])(f[0-9]+\b|main\(\))`)

// ClosureOnlyTmpl reports whether the nest has a template mirror.
func (n Nest) ClosureOnlyTmpl() bool { return n.Tmpl != "" }
