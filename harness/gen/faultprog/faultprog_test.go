package faultprog

import (
	"go/ast"
	"go/importer"
	"go/parser"
	"go/token"
	"go/types"
	"math/rand"
	"strings"
	"testing"
)

// pkgImporter resolves "pkg" to the reference implementation GcPkg and everything
// else through the source importer.
type pkgImporter struct {
	std types.Importer
	pkg *types.Package
}

func (p *pkgImporter) Import(path string) (*types.Package, error) {
	if path == "pkg" || path == "verifref/pkg" {
		return p.pkg, nil
	}
	return p.std.Import(path)
}

func newImporter(t *testing.T) *pkgImporter {
	fset := token.NewFileSet()
	std := importer.ForCompiler(fset, "source", nil)
	f, err := parser.ParseFile(fset, "pkg.go", GcPkg, 0)
	if err != nil {
		t.Fatal(err)
	}
	conf := types.Config{Importer: std}
	pkg, err := conf.Check("pkg", fset, []*ast.File{f}, nil)
	if err != nil {
		t.Fatal(err)
	}
	return &pkgImporter{std: std, pkg: pkg}
}

func check(t *testing.T, imp types.Importer, name, src string) {
	fset := token.NewFileSet()
	f, err := parser.ParseFile(fset, name, src, 0)
	if err != nil {
		t.Fatalf("%s: %v\n%s", name, err, src)
	}
	conf := types.Config{Importer: imp}
	if _, err := conf.Check("main", fset, []*ast.File{f}, nil); err != nil {
		t.Fatalf("%s: %v\n%s", name, err, src)
	}
}

// TestProgramsAreValidGo type-checks every (placement, fault) program with go/types:
// a build error reported by scriggo for one of them is then scriggo's, not ours.
// The natives that exist only for templates (TickEnv with Env, …) have the same
// names in GcPkg.
func TestProgramsAreValidGo(t *testing.T) {
	imp := newImporter(t)
	nf := len(Faults)
	for pi, pl := range Placements {
		for fi, f := range Faults {
			if !ProgFaultOK(f) {
				continue
			}
			g := Faults[(fi*7+pi+3)%nf]
			h := Faults[(fi*13+pi+5)%nf]
			for !ProgFaultOK(g) || !ProgFaultOK(h) {
				g, h = Faults[0], Faults[1]
			}
			p := pl.Build(f, g, h)
			if strings.Contains(p.Src, "@") && strings.Contains(p.Src, "@F") {
				t.Fatalf("unreplaced hole in %s/%s", pl.Name, f.Name)
			}
			check(t, imp, pl.Name+"/"+f.Name, p.Src)
		}
	}
}

func TestNestsAreValidGo(t *testing.T) {
	imp := newImporter(t)
	r := rand.New(rand.NewSource(5))
	for i := 0; i < 600; i++ {
		n := GenNest(r, NestOpts{ClosureOnly: i%3 == 0, NativeEscape: true, NoDeferFuncVar: i%2 == 0})
		check(t, imp, "nest", n.Src)
		if n.ClosureOnlyTmpl() != (i%3 == 0) {
			t.Fatalf("template mirror presence")
		}
		for line := range n.SiteLines {
			if line <= 0 {
				t.Fatal("bad site line")
			}
		}
	}
}

func TestDeterminism(t *testing.T) {
	a := GenNest(rand.New(rand.NewSource(9)), NestOpts{})
	b := GenNest(rand.New(rand.NewSource(9)), NestOpts{})
	if a.Src != b.Src {
		t.Fatal("GenNest is not deterministic")
	}
	x := GenWTemplate(rand.New(rand.NewSource(9)), "plain", 3)
	y := GenWTemplate(rand.New(rand.NewSource(9)), "plain", 3)
	if x.Files[x.Main] != y.Files[y.Main] {
		t.Fatal("GenWTemplate is not deterministic")
	}
}
