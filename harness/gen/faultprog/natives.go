package faultprog

import (
	"errors"
	"fmt"
	"reflect"
	"strconv"
	"strings"

	"github.com/open2b/scriggo/native"
)

// Log is the event log shared by the natives of one run.
type Log struct {
	Events    []string
	StopIdx   int // index passed to Stop (-1: not called)
	FatalIdx  int // index passed to Fatal (-1: not called)
	AfterStop int // events recorded after Stop or Fatal was called
	max       int
}

// NewLog returns an empty log.
func NewLog() *Log { return &Log{StopIdx: -1, FatalIdx: -1, max: 20000} }

// Add records one event.
func (l *Log) Add(ev string) {
	if l.StopIdx >= 0 || l.FatalIdx >= 0 {
		l.AfterStop++
	}
	if len(l.Events) < l.max {
		l.Events = append(l.Events, ev)
	}
}

// String joins the events.
func (l *Log) String() string { return strings.Join(l.Events, " ") }

// StopErrs are the errors passed to Env.Stop: Run must return exactly these values.
var StopErrs = []error{
	errors.New("stop zero"),
	errors.New("stop one"),
	&StopErr{"stop two"},
	fmt.Errorf("wrapped: %w", errors.New("stop three")),
}

// StopErr is an error of pointer type.
type StopErr struct{ S string }

func (e *StopErr) Error() string { return e.S }

// FatalVals are the values passed to Env.Fatal: Run must panic with exactly these.
var FatalVals = []any{
	"fatal zero",
	errors.New("fatal one"),
	&StopErr{"fatal two"},
	12345,
}

// T is a native type with methods.
type T struct {
	N int
	l *Log
}

// PM has a pointer receiver.
func (t *T) PM() { t.l.Add("PM") }

// VM has a value receiver.
func (t T) VM() int { t.l.Add("VM"); return t.N }

// Add has a pointer receiver, an argument and a result.
func (t *T) Add(n int) int { t.N += n; t.l.Add("Add" + strconv.Itoa(n)); return t.N }

// Boom panics.
func (t *T) Boom() { panic("method boom") }

// StopM calls Env.Stop from a method.
func (t *T) StopM(env native.Env, i int) { stopWith(t.l, env, i) }

// FatalM calls Env.Fatal from a method.
func (t *T) FatalM(env native.Env, i int) { fatalWith(t.l, env, i) }

func stopWith(l *Log, env native.Env, i int) {
	l.Add("STOP" + strconv.Itoa(i))
	l.StopIdx = i
	env.Stop(StopErrs[i%len(StopErrs)])
}

func fatalWith(l *Log, env native.Env, i int) {
	l.Add("FATAL" + strconv.Itoa(i))
	l.FatalIdx = i
	env.Fatal(FatalVals[i%len(FatalVals)])
}

// envVal is the common part of the values whose Env-stringer method acts when the
// value is shown: Action is "tick", "stop" or "fatal".
type envVal struct {
	Action string
	Idx    int
	l      *Log
}

func (v envVal) act(env native.Env) string {
	switch v.Action {
	case "stop":
		stopWith(v.l, env, v.Idx)
	case "fatal":
		fatalWith(v.l, env, v.Idx)
	default:
		v.l.Add("EV" + strconv.Itoa(v.Idx))
	}
	return "ev" + strconv.Itoa(v.Idx)
}

// One type per Env-stringer interface, so that a show can only go through that one.
type (
	EnvStr  struct{ envVal }
	EnvHTML struct{ envVal }
	EnvCSS  struct{ envVal }
	EnvJS   struct{ envVal }
	EnvJSON struct{ envVal }
	EnvMD   struct{ envVal }
)

func (v EnvStr) String(env native.Env) string           { return v.act(env) }
func (v EnvHTML) HTML(env native.Env) native.HTML       { return native.HTML(v.act(env)) }
func (v EnvCSS) CSS(env native.Env) native.CSS          { return native.CSS(v.act(env)) }
func (v EnvJS) JS(env native.Env) native.JS             { return native.JS("\"" + v.act(env) + "\"") }
func (v EnvJSON) JSON(env native.Env) native.JSON       { return native.JSON("\"" + v.act(env) + "\"") }
func (v EnvMD) Markdown(env native.Env) native.Markdown { return native.Markdown(v.act(env)) }

// EnvValue returns a value of the Env-stringer kind "str", "html", "css", "js", "json"
// or "md".
func EnvValue(l *Log, kind, action string, idx int) any {
	ev := envVal{Action: action, Idx: idx, l: l}
	switch kind {
	case "html":
		return EnvHTML{ev}
	case "css":
		return EnvCSS{ev}
	case "js":
		return EnvJS{ev}
	case "json":
		return EnvJSON{ev}
	case "md":
		return EnvMD{ev}
	}
	return EnvStr{ev}
}

// Native struct types with embedded pointers: the fields Y, Z and W of NE1 are
// promoted through *NE2 and *NE2.*NE3.
type (
	NE3 struct {
		Z int
		W string
	}
	NE2 struct {
		*NE3
		Y int
	}
	NE1 struct {
		*NE2
		X int
	}
)

// Str is a native Stringer.
type Str string

func (s Str) String() string { return string(s) }

// Packages returns the native packages of the generated programs, logging to l.
func Packages(l *Log) native.Packages {
	var nilIntPtr *int
	var nilMap map[string]int
	ints := []int{1, 2, 3}
	return native.Packages{
		"errors": native.Package{Name: "errors", Declarations: native.Declarations{
			"New": errors.New,
		}},
		"pkg": native.Package{Name: "pkg", Declarations: Declarations(l, &nilIntPtr, &nilMap, &ints)},
	}
}

// Declarations returns the declarations of package pkg (also usable as template globals).
func Declarations(l *Log, nilIntPtr **int, nilMap *map[string]int, ints *[]int) native.Declarations {
	uniq := 0
	return native.Declarations{
		"Uniq":    func(s string) string { uniq++; return s + "." + strconv.Itoa(uniq) },
		"UniqInt": func(n int) int { uniq++; return n*1000 + uniq },
		"UniqErr": func(s string) error { uniq++; return errors.New(s + "." + strconv.Itoa(uniq)) },
		"Tick":    func(n int) { l.Add("T" + strconv.Itoa(n)) },
		"TickEnv": func(env native.Env, n int) { l.Add("TE" + strconv.Itoa(n)) },
		"Var":     func(xs ...int) { l.Add("V" + strconv.Itoa(len(xs))) },
		"VarEnv":  func(env native.Env, s string, xs ...any) { l.Add("VE" + s + strconv.Itoa(len(xs))) },
		"Sink": func(v any) {
			if v == nil {
				l.Add("S:nil")
			} else {
				l.Add("S:" + reflect.TypeOf(v).Kind().String())
			}
		},
		"Zero": func() int { return 0 },
		"Box":  func(n int) any { return n },
		"Got": func(v any) {
			if v == nil {
				l.Add("G0")
			} else {
				l.Add("G1")
			}
		},
		"Print":   func(args ...any) { l.Add("P" + strconv.Itoa(len(args))) },
		"CallStr": func(f func() string) string { l.Add("CS<"); s := f(); l.Add("CS>"); return s },
		"Call":    func(f func()) { l.Add("C<"); f(); l.Add("C>") },
		"CallEnv": func(env native.Env, f func()) { l.Add("CE<"); f(); l.Add("CE>") },
		"CallRet": func(f func(int) int, x int) int { l.Add("CR<"); n := f(x); l.Add("CR>"); return n },
		"MaybeCall": func(f func()) {
			if f != nil {
				f()
			}
		},
		"Stop":     func(env native.Env, i int) { stopWith(l, env, i) },
		"Fatal":    func(env native.Env, i int) { fatalWith(l, env, i) },
		"StopVar":  func(env native.Env, i int, xs ...any) { stopWith(l, env, i) },
		"FatalVar": func(env native.Env, i int, xs ...any) { fatalWith(l, env, i) },
		"EV":       func(kind, action string, idx int) any { return EnvValue(l, kind, action, idx) },
		"PanicStr": func() { panic("native boom") },
		"PanicErr": func() { panic(errors.New("native error")) },
		"PanicEnv": func(env native.Env, n int) { panic("native env " + strconv.Itoa(n)) },
		"PanicVar": func(xs ...int) { panic("native variadic " + strconv.Itoa(len(xs))) },
		"EmbNil":   &NE1{},
		"EmbHalf":  &NE1{NE2: &NE2{}},
		"EmbFull":  &NE1{NE2: &NE2{NE3: &NE3{Z: 1, W: "w"}, Y: 2}},
		"NewEmb":   func() *NE1 { return &NE1{NE2: &NE2{}} },
		"NilFunc":  func() func() { return nil },
		"NilT":     func() *T { return nil },
		"PanicDef": func(n int) { panic("deferred native " + strconv.Itoa(n)) },
		// CallRec calls f and returns the value of the panic it recovered (nil if f
		// did not panic). The panic of an interpreted function reaches native code as
		// a value with a Message method that returns the value passed to panic.
		"CallRec": func(f func()) (v any) {
			defer func() {
				v = recover()
				if m, ok := v.(interface{ Message() any }); ok {
					v = m.Message()
				}
				l.Add("CRr")
			}()
			l.Add("CR<")
			f()
			return nil
		},
		// CallRecRaw is CallRec without unwrapping.
		"CallRecRaw": func(f func()) (v any) {
			defer func() { v = recover() }()
			f()
			return nil
		},
		"NewT":      func() *T { return &T{N: 1, l: l} },
		"T":         reflect.TypeFor[T](),
		"Str":       reflect.TypeFor[Str](),
		"NilIntPtr": nilIntPtr,
		"NilMap":    nilMap,
		"Ints":      ints,
	}
}

// GcPkg is the source of package pkg for gc reference builds: the same API, events
// written unbuffered to standard output one per line; Stop and Fatal end the
// process (no deferred call runs, like the documented behaviour of Env.Stop/Fatal).
const GcPkg = `package pkg

import (
	"errors"
	"os"
	"reflect"
	"strconv"
)

func add(s string) { os.Stdout.WriteString(s + "\n") }

type T struct {
	N int
}

func (t *T) PM()           { add("PM") }
func (t T) VM() int        { add("VM"); return t.N }
func (t *T) Add(n int) int { t.N += n; add("Add" + strconv.Itoa(n)); return t.N }
func (t *T) Boom()         { panic("method boom") }

type Str string

func (s Str) String() string { return string(s) }

type NE3 struct {
	Z int
	W string
}

type NE2 struct {
	*NE3
	Y int
}

type NE1 struct {
	*NE2
	X int
}

var EmbNil = NE1{}
var EmbHalf = NE1{NE2: &NE2{}}
var EmbFull = NE1{NE2: &NE2{NE3: &NE3{Z: 1, W: "w"}, Y: 2}}

func NewEmb() *NE1 { return &NE1{NE2: &NE2{}} }

var NilIntPtr *int
var NilMap map[string]int
var Ints = []int{1, 2, 3}

func Tick(n int)                  { add("T" + strconv.Itoa(n)) }
func TickEnv(n int)               { add("TE" + strconv.Itoa(n)) }
func Var(xs ...int)               { add("V" + strconv.Itoa(len(xs))) }
func VarEnv(s string, xs ...any)  { add("VE" + s + strconv.Itoa(len(xs))) }
func Zero() int                   { return 0 }

var uniq int

func Uniq(s string) string   { uniq++; return s + "." + strconv.Itoa(uniq) }
func UniqInt(n int) int      { uniq++; return n*1000 + uniq }
func UniqErr(s string) error { uniq++; return errors.New(s + "." + strconv.Itoa(uniq)) }
func Box(n int) any               { return n }
func Got(v any) {
	if v == nil {
		add("G0")
	} else {
		add("G1")
	}
}
func Call(f func())               { add("C<"); f(); add("C>") }
func CallEnv(f func())            { add("CE<"); f(); add("CE>") }
func CallRet(f func(int) int, x int) int { add("CR<"); n := f(x); add("CR>"); return n }
func MaybeCall(f func()) {
	if f != nil {
		f()
	}
}
func Sink(v any) {
	if v == nil {
		add("S:nil")
	} else {
		add("S:" + reflect.TypeOf(v).Kind().String())
	}
}
func Stop(i int)  { add("STOP" + strconv.Itoa(i)); os.Exit(0) }
func Fatal(i int) { add("FATAL" + strconv.Itoa(i)); os.Exit(0) }
func StopVar(i int, xs ...any)  { Stop(i) }
func FatalVar(i int, xs ...any) { Fatal(i) }
func (t *T) StopM(i int)        { Stop(i) }
func (t *T) FatalM(i int)       { Fatal(i) }
func PanicStr()   { panic("native boom") }
func PanicErr()   { panic(errors.New("native error")) }
func PanicEnv(n int)      { panic("native env " + strconv.Itoa(n)) }
func PanicVar(xs ...int)  { panic("native variadic " + strconv.Itoa(len(xs))) }
func NilFunc() func()     { return nil }
func NilT() *T            { return nil }
func PanicDef(n int)      { panic("deferred native " + strconv.Itoa(n)) }
func CallRec(f func()) (v any) {
	defer func() {
		v = recover()
		add("CRr")
	}()
	add("CR<")
	f()
	return nil
}
func CallRecRaw(f func()) (v any) {
	defer func() { v = recover() }()
	f()
	return nil
}
func NewT() *T            { return &T{N: 1} }
`
