package faultprog

import (
	"errors"
	"fmt"
	"math/rand"
	"strings"
	"time"

	"github.com/open2b/scriggo/native"
)

// WTemplate is a template for the failing-writer check (C13).
type WTemplate struct {
	Files map[string]string
	Main  string
	// Class is "plain" (no recover, no deferred output: a failed write must end the
	// run with the writer's error and nothing may be written afterwards), "recover"
	// (the writes whose bytes start with RecoverMark are made inside a macro that
	// recovers: a failure there is recovered, Run returns nil and the output goes on
	// after the macro) or "deferred" (a deferred macro call writes DeferMark text when
	// the template body ends, also after a failed write).
	Class string
	// Features lists the constructs used (for coverage signatures).
	Features []string
}

// Marks used by the "recover" and "deferred" classes.
const (
	RecoverMark = "r~"
	DeferMark   = "d~"
	// DeferredFrom is the text that directly follows the defer statement of a
	// "deferred" template.
	DeferredFrom = "<p>body1;</p>"
)

// WGlobals returns the globals of the C13 templates.
func WGlobals() native.Declarations {
	s := "a<b&\"c'?d e"
	n := 42
	m := map[string]any{"k": 1, "z": []int{1, 2}, "a": "x\"y"}
	sl := []int{3, 1, 2}
	ss := []string{"p", "q?", "r&"}
	st := struct {
		Name string `json:"name"`
		Age  int
		Tags []string
	}{"N<", 7, []string{"t", "u"}}
	md := native.Markdown("para *em* and `code`\n\n- item <b>\n- two\n")
	h := native.HTML("<i>raw</i>")
	b := []byte("by<tes")
	tm := time.Date(2024, 2, 29, 10, 11, 12, 0, time.UTC)
	var e error = errors.New("err<or>")
	var str any = strStringer{"str&inger"}
	empty := ""
	q := "x?y=1&z"
	return native.Declarations{
		"s": &s, "n": &n, "m": &m, "sl": &sl, "ss": &ss, "st": &st, "md": &md, "h": &h, "b": &b,
		"tm": &tm, "e": &e, "str": &str, "empty": &empty, "q": &q,
		"upper": strings.ToUpper,
	}
}

type wgen struct {
	r     *rand.Rand
	n     int
	feats map[string]bool
	files map[string]string
	depth int
}

func (g *wgen) id() int { g.n++; return g.n }

func (g *wgen) feat(f string) { g.feats[f] = true }

func (g *wgen) pick(a ...string) string { return a[g.r.Intn(len(a))] }

// value returns an expression that can be shown in HTML.
func (g *wgen) value() string {
	return g.pick("s", "n", "h", "b", "tm", "e", "str", "empty", "q", "n + 1", "upper(s)", "3.5", "true", "len(sl)", "s[1:3]", "ss[1]", "m[\"k\"]")
}

// jsValue returns an expression that can be shown in JavaScript and JSON.
func (g *wgen) jsValue() string {
	return g.pick("s", "n", "sl", "ss", "st", "m", "b", "tm", "e", "empty", "3.5", "true", "m[\"z\"]")
}

func (g *wgen) scalar() string {
	return g.pick("s", "n", "h", "e", "str", "empty", "q", "upper(s)", "ss[2]", "n * 2")
}

// htmlPiece returns one piece of HTML template source.
func (g *wgen) htmlPiece() string {
	g.depth++
	defer func() { g.depth-- }()
	k := g.r.Intn(24)
	if g.depth > 3 && k > 9 {
		k = g.r.Intn(10)
	}
	switch k {
	case 0, 1:
		g.feat("text")
		return fmt.Sprintf("<p>t%d;</p>\n", g.id())
	case 2:
		g.feat("show_html")
		return fmt.Sprintf("<b>{{ %s }}</b>", g.value())
	case 3:
		g.feat("show_attr")
		return fmt.Sprintf("<div title=\"x{{ %s }}y\" class={{ %s }}>", g.scalar(), g.pick("n", "s", "empty")) + "</div>"
	case 4:
		g.feat("show_url")
		return fmt.Sprintf("<a href=\"/p/{{ %s }}?a={{ %s }}&b={{ %s }}#{{ %s }}\">l</a>", g.scalar(), g.scalar(), g.scalar(), g.scalar())
	case 5:
		g.feat("show_url_state")
		return fmt.Sprintf("<a href=\"{{ %s }}{{ %s }}?{{ %s }}\">l</a><img srcset=\"{{ %s }} 1x, {{ %s }} 2x\">", g.pick("q", "s", "empty"), g.pick("empty", "q", "n"), g.scalar(), g.scalar(), g.scalar())
	case 6:
		g.feat("show_js")
		return fmt.Sprintf("<script>var v%d = {{ %s }}; var w = \"{{ %s }}\";</script>", g.id(), g.jsValue(), g.scalar())
	case 7:
		g.feat("show_css")
		return fmt.Sprintf("<style>a { width: {{ %s }}; b: \"{{ %s }}\" }</style>", g.pick("n", "s", "3.5"), g.scalar())
	case 8:
		g.feat("show_jsonld")
		return fmt.Sprintf("<script type=\"application/ld+json\">{\"a\": {{ %s }}, \"b\": \"{{ %s }}\"}</script>", g.jsValue(), g.scalar())
	case 9:
		g.feat("show_md_value")
		return "<section>{{ md }}</section>"
	case 10:
		g.feat("if")
		return fmt.Sprintf("{%% if %s %%}%s{%% else %%}%s{%% end %%}", g.pick("n > 3", "s == \"\"", "len(sl) == 3"), g.htmlPiece(), g.htmlPiece())
	case 11:
		g.feat("for")
		return fmt.Sprintf("{%% for i, x := range %s %%}<li>{{ i }}:{{ x }}%s</li>{%% end %%}", g.pick("sl", "ss"), g.htmlPiece())
	case 12:
		g.feat("macro")
		name := fmt.Sprintf("M%d", g.id())
		return fmt.Sprintf("{%% macro %s(a string, k int) %%}<u>{{ a }}%s{{ k }}</u>{%% end %%}%s{{ %s(%s, %d) }}{{ %s(\"z\", n) }}", name, g.htmlPiece(), g.htmlPiece(), name, g.pick("s", "\"lit\"", "q"), g.id(), name)
	case 13:
		g.feat("macro_string")
		name := fmt.Sprintf("S%d", g.id())
		return fmt.Sprintf("{%% macro %s string %%}str%d{{ %s }}{%% end %%}<q>{{ %s() }}</q><a title=\"{{ %s() }}\">", name, g.id(), g.scalar(), name, name) + "</a>"
	case 14:
		g.feat("macro_markdown_in_html")
		name := fmt.Sprintf("K%d", g.id())
		return fmt.Sprintf("{%% macro %s markdown %%}# head %d\n\npara {{ %s }} *em*\n\n- one\n- two {{ n }}\n{%% end %%}<article>{{ %s() }}</article>", name, g.id(), g.scalar(), name)
	case 15:
		g.feat("render_html")
		name := fmt.Sprintf("part%d.html", g.id())
		g.files[name] = fmt.Sprintf("<aside>p%d;{{ %s }}%s</aside>", g.id(), g.value(), g.htmlPiece())
		return fmt.Sprintf("{{ render \"%s\" }}", name)
	case 16:
		g.feat("render_md_in_html")
		name := fmt.Sprintf("doc%d.md", g.id())
		g.files[name] = fmt.Sprintf("# doc %d\n\ntext {{ %s }} and **bold**\n\n1. a\n2. b {{ n }}\n", g.id(), g.scalar())
		return fmt.Sprintf("<main>{{ render \"%s\" }}</main>", name)
	case 17:
		g.feat("using")
		return fmt.Sprintf("{%% show itea; using %%}u%d;{{ %s }}{%% end using %%}", g.id(), g.scalar())
	case 18:
		g.feat("using_macro")
		return fmt.Sprintf("{%% show itea(2); using macro(k int) string %%}um%d;{{ k }}{%% end using %%}", g.id())
	case 19:
		g.feat("block_code")
		x := g.id()
		return fmt.Sprintf("{%%%%\n\tx%d := n * 2\n\tshow x%d, \" \", s\n%%%%}", x, x)
	case 20:
		g.feat("raw")
		return fmt.Sprintf("{%% raw %%}{{ raw%d }}{%% end raw %%}", g.id())
	case 21:
		g.feat("show_multi")
		return fmt.Sprintf("{%% show %s, %s, \"lit\" %%}", g.scalar(), g.scalar())
	case 22:
		g.feat("switch")
		return fmt.Sprintf("{%% switch n %%}{%% case 1 %%}one{%% case 42 %%}%s{%% default %%}d{%% end %%}", g.htmlPiece())
	default:
		g.feat("comment")
		return fmt.Sprintf("{# c%d #}<!-- html comment {{ n }} -->", g.id())
	}
}

// GenWTemplate generates one template of the given class.
func GenWTemplate(r *rand.Rand, class string, idx int) WTemplate {
	g := &wgen{r: r, feats: map[string]bool{}, files: map[string]string{}}
	var b strings.Builder
	main := "index.html"
	switch {
	case class == "plain" && idx%9 == 7:
		// Markdown main file
		main = "index.md"
		g.feat("main_md")
		fmt.Fprintf(&b, "# title {{ s }}\n\npara {{ n }} {{ h }} {{ md }}\n\n\tcode {{ s }}\n\n{%% for x in ss %%}- {{ x }}\n{%% end %%}\n")
	case class == "plain" && idx%9 == 8:
		main = g.pick("index.js", "index.css", "index.json", "index.txt")
		g.feat("main_" + main[6:])
		switch main {
		case "index.js":
			fmt.Fprintf(&b, "var a = {{ m }};\nvar s = \"{{ s }}\";\nvar t = {{ tm }};\n{%% for x in sl %%}f({{ x }});\n{%% end %%}")
		case "index.css":
			fmt.Fprintf(&b, "a { width: {{ n }}px; content: \"{{ s }}\"; }\n{%% if n > 1 %%}b { c: {{ s }} }{%% end %%}\n")
		case "index.json":
			fmt.Fprintf(&b, "{\"a\": {{ m }}, \"b\": \"{{ s }}\", \"c\": {{ st }}, \"d\": [{%% for i, x := range sl %%}{%% if i > 0 %%},{%% end %%}{{ x }}{%% end %%}]}\n")
		default:
			fmt.Fprintf(&b, "text {{ s }} {{ n }} {{ ss[0] }}\n{%% macro T %%}m{{ q }}{%% end %%}{{ T() }}\n")
		}
	case class == "plain" && idx%9 == 6:
		// extends + import
		g.feat("extends")
		g.feat("import")
		g.files["layout.html"] = "<html><head>{{ Title() }}</head><body>{{ Body() }}</body>t" + fmt.Sprint(g.id()) + ";</html>\n"
		g.files["lib.html"] = "{% macro Box(a string) %}<div class=box>{{ a }}" + g.htmlPiece() + "</div>{% end %}"
		fmt.Fprintf(&b, "{%% extends \"layout.html\" %%}{%% import \"lib.html\" %%}{%% macro Title %%}<title>{{ s }}</title>{%% end %%}{%% macro Body %%}%s{{ Box(q) }}%s{%% end %%}", g.htmlPiece(), g.htmlPiece())
	default:
		n := 3 + r.Intn(6)
		fmt.Fprintf(&b, "<!DOCTYPE html>\n")
		for i := 0; i < n; i++ {
			b.WriteString(g.htmlPiece())
		}
		switch class {
		case "recover":
			// macro R recovers a failed write made by its own body; its chunks are marked
			g.feat("recover_macro")
			fmt.Fprintf(&b, "{%% macro R(a string) %%}{%%%% defer func() { recover() }() %%%%}%s1;{{ a }}%s2;{%% end %%}", RecoverMark, RecoverMark)
			fmt.Fprintf(&b, "<p>before;</p>{{ R(\"%sarg\") }}<p>after;</p>{{ R(\"%sarg2\") }}<p>end;</p>", RecoverMark, RecoverMark)
		case "deferred":
			g.feat("deferred_macro")
			fmt.Fprintf(&b, "{%% macro D %%}%s1;%s2;{%% end %%}", DeferMark, DeferMark)
			if g.r.Intn(2) == 0 {
				fmt.Fprintf(&b, "{%%%% defer D() %%%%}<p>body1;</p>%s<p>body2;</p>", g.htmlPiece())
			} else {
				fmt.Fprintf(&b, "{%% defer D() %%}<p>body1;</p>%s<p>body2;</p>", g.htmlPiece())
			}
		}
	}
	g.files[main] = b.String()
	var feats []string
	for f := range g.feats {
		feats = append(feats, f)
	}
	sortStrings(feats)
	return WTemplate{Files: g.files, Main: main, Class: class, Features: feats}
}
