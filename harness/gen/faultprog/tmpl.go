package faultprog

import (
	"errors"
	"fmt"
	"math"
	"strings"
	"time"
	"unsafe"

	"github.com/open2b/scriggo/native"
)

// TmplPlacement is a set of template files with @F@ holes for fault statements.
// The statements are placed inside {%% %%} blocks (or func literal bodies), so they
// are Go statements exactly like in programs.
type TmplPlacement struct {
	Name  string
	Main  string
	Files map[string]string
}

const tmplImports = "{% import \"pkg\" %}{% import \"errors\" %}{% var _ = errors.New %}{% var _ = pkg.Tick %}"

// TmplPlacements is the table of template placements.
var TmplPlacements = []TmplPlacement{
	{Name: "t_top", Main: "index.html", Files: map[string]string{
		"index.html": tmplImports + "<p>a</p>\n{%%\n@F0@\n%%}\n<p>b</p>"}},
	{Name: "t_closure", Main: "index.html", Files: map[string]string{
		"index.html": tmplImports + "a{%%\n\tf := func() int {\n@F2@\n\t\treturn 1\n\t}\n%%}b{{ f() }}c"}},
	{Name: "t_closure_recovered", Main: "index.html", Files: map[string]string{
		"index.html": tmplImports + "a{%%\n\tf := func() (n int) {\n\t\tdefer func() {\n\t\t\tif recover() != nil {\n\t\t\t\tn = 7\n\t\t\t}\n\t\t}()\n@F2@\n\t\treturn 1\n\t}\n%%}b{{ f() }}c{{ f() }}d"}},
	{Name: "t_closure_deferred", Main: "index.html", Files: map[string]string{
		"index.html": tmplImports + "a{%%\n\tf := func() {\n\t\tdefer func() {\n@F3@\n\t\t}()\n\t\tpanic(\"first\")\n\t}\n\tf()\n%%}b"}},
	{Name: "t_closure_deferred_native", Main: "index.html", Files: map[string]string{
		"index.html": tmplImports + "a{%%\n\tf := func() {\n\t\tdefer pkg.TickEnv(1)\n\t\tdefer pkg.Tick(2)\n@F2@\n\t}\n\tf()\n%%}b"}},
	{Name: "t_closure_deferred_native_recovered", Main: "index.html", Files: map[string]string{
		"index.html": tmplImports + "a{%%\n\tf := func() {\n\t\tdefer func() {\n\t\t\trecover()\n\t\t}()\n\t\tdefer pkg.TickEnv(1)\n@F2@\n\t}\n\tf()\n%%}b<i>{{ 1 }}</i>"}},
	{Name: "t_closure_defer_native_then_text", Main: "index.html", Files: map[string]string{
		"index.html": tmplImports + "a{%%\n\tfunc() {\n\t\tdefer pkg.Tick(1)\n\t\tfunc() {\n\t\t\tdefer func() {\n\t\t\t\trecover()\n\t\t\t}()\n@F3@\n\t\t}()\n\t}()\n%%}text{{ 1 }}<a href=\"{{ 2 }}\">x</a>"}},
	{Name: "t_if_cond", Main: "index.html", Files: map[string]string{
		"index.html": tmplImports + "{%%\n\tf := func() bool {\n@F2@\n\t\treturn true\n\t}\n%%}a{% if f() %}yes{% else %}no{% end %}b"}},
	{Name: "t_for", Main: "index.html", Files: map[string]string{
		"index.html": tmplImports + "{%%\n\tf := func() []int {\n@F2@\n\t\treturn []int{1, 2}\n\t}\n%%}a{% for i, x := range f() %}{{ i }}{{ x }}{% end for %}b"}},
	{Name: "t_macro", Main: "index.html", Files: map[string]string{
		"index.html": tmplImports + "{% macro M(x int) %}<b>{{ x }}{%%\n@F0@\n%%}</b>{% end macro %}a{{ M(1) }}b{{ M(2) }}c"}},
	{Name: "t_macro_string", Main: "index.html", Files: map[string]string{
		"index.html": tmplImports + "{% macro M string %}x{%%\n@F0@\n%%}y{% end macro %}a{{ M() }}b"}},
	{Name: "t_macro_markdown", Main: "index.html", Files: map[string]string{
		"index.html": tmplImports + "{% macro M markdown %}# t\n\n*x*{%%\n@F0@\n%%}y{% end macro %}<div>{{ M() }}</div>"}},
	{Name: "t_macro_imported", Main: "index.html", Files: map[string]string{
		"index.html": "{% import \"imp.html\" %}a{{ M() }}b",
		"imp.html":   tmplImports + "{% macro M %}i{%%\n@F0@\n%%}j{% end %}"}},
	{Name: "t_macro_imported_named", Main: "index.html", Files: map[string]string{
		"index.html":   "{% import lib \"dir/imp.html\" %}a{{ lib.M() }}b",
		"dir/imp.html": tmplImports + "{% var V = func() int {\n@F0@\n\treturn 1\n}() %}{% macro M %}i{{ V }}j{% end %}"}},
	{Name: "t_render", Main: "index.html", Files: map[string]string{
		"index.html": "a{{ render \"part.html\" }}b",
		"part.html":  tmplImports + "p{%%\n@F0@\n%%}q"}},
	{Name: "t_render_md", Main: "index.html", Files: map[string]string{
		"index.html": "<div>{{ render \"part.md\" }}</div>",
		"part.md":    tmplImports + "# p\n{%%\n@F0@\n%%}\nq *z*"}},
	{Name: "t_extends", Main: "index.html", Files: map[string]string{
		"index.html":  "{% extends \"layout.html\" %}" + tmplImports + "{% macro Body %}x{%%\n@F0@\n%%}y{% end %}",
		"layout.html": "<html>{{ Body() }}</html>"}},
	{Name: "t_using", Main: "index.html", Files: map[string]string{
		"index.html": tmplImports + "a{% show itea; using %}u{%%\n@F0@\n%%}v{% end using %}b"}},
	{Name: "t_using_macro", Main: "index.html", Files: map[string]string{
		"index.html": tmplImports + "a{% show itea(2); using macro(n int) string %}u{{ n }}{%%\n@F0@\n%%}v{% end using %}b"}},
	{Name: "t_native_closure", Main: "index.html", Files: map[string]string{
		"index.html": tmplImports + "a{%%\n\tpkg.Call(func() {\n@F2@\n\t})\n%%}b"}},
	{Name: "t_native_macro", Main: "index.html", Files: map[string]string{
		"index.html": tmplImports + "{% macro M string %}m{%%\n@F0@\n%%}n{% end %}a{{ pkg.CallStr(M) }}b"}},
	{Name: "t_stop_in_macro", Main: "index.html", Files: map[string]string{
		"index.html": tmplImports + "{% macro M %}m{% pkg.Stop(1) %}n{% end %}a{%%\n\tf := func() {\n\t\tdefer func() {\n\t\t\tM()\n\t\t}()\n@F2@\n\t}\n\tf()\n%%}b"}},
	{Name: "t_js", Main: "index.js", Files: map[string]string{
		"index.js": tmplImports + "var a = 1;\n{%%\n@F0@\n%%}\nvar b = 2;"}},
	{Name: "t_md", Main: "index.md", Files: map[string]string{
		"index.md": tmplImports + "# a\n\n{%%\n@F0@\n%%}\n\nb"}},
	{Name: "t_attr", Main: "index.html", Files: map[string]string{
		"index.html": tmplImports + "{%%\n\tf := func() string {\n@F2@\n\t\treturn \"x\"\n\t}\n%%}<a href=\"/p?a={{ f() }}&b={{ f() }}\" title=\"{{ f() }}\">t</a>"}},
}

// Build instantiates the placement with one fault.
func (p TmplPlacement) Build(f Fault) map[string]string {
	out := map[string]string{}
	stm := strings.ReplaceAll(f.Stmts, "print(", "pkg.Print(")
	for name, src := range p.Files {
		for n := 0; n <= 4; n++ {
			tag := fmt.Sprintf("@F%d@", n)
			if strings.Contains(src, tag) {
				body := "{\n" + indent(stm, 1) + "\n}"
				src = strings.Replace(src, tag, indent(body, n), 1)
			}
		}
		out[name] = src
	}
	return out
}

// TmplFaultOK reports whether the fault can be placed in a template: declarations
// of named types are not available inside {%% %%} blocks of every placement, so the
// faults that need package-level declarations are left to the programs.
func TmplFaultOK(f Fault) bool { return f.Decls == "" && !f.NoTmpl }

// ProgFaultOK reports whether the fault can be placed in a program.
func ProgFaultOK(f Fault) bool { return !f.TmplOnly }

// ---------------------------------------------------------------------------
// Context × value matrix.

// CtxTemplate is a one-file template that shows the global v (type any) in one
// context. Two more globals, u and w, let a few templates show several values.
type CtxTemplate struct {
	Name string
	File string
	Src  string
}

// CtxTemplates lists the contexts.
var CtxTemplates = []CtxTemplate{
	{"html_text", "index.html", "<p>{{ v }}</p>"},
	{"html_tag", "index.html", "<div {{ v }}>x</div>"},
	{"attr_dq", "index.html", "<div title=\"a{{ v }}b\">x</div>"},
	{"attr_sq", "index.html", "<div title='{{ v }}'>x</div>"},
	{"attr_unq", "index.html", "<div title={{ v }}>x</div>"},
	{"url_dq", "index.html", "<a href=\"{{ v }}\">x</a>"},
	{"url_unq", "index.html", "<a href={{ v }}>x</a>"},
	{"url_path_query", "index.html", "<a href=\"/p/{{ v }}?a={{ v }}&b={{ v }}#{{ v }}\">x</a>"},
	{"url_src", "index.html", "<img src='{{ v }}?{{ v }}'>"},
	{"url_srcset", "index.html", "<img srcset=\"{{ v }} 1x, {{ v }}?{{ v }} 2x\">"},
	{"url_action", "index.html", "<form action=\"{{ v }}{{ v }}\"></form>"},
	{"script_js", "index.html", "<script>var x = {{ v }};</script>"},
	{"script_js_dq", "index.html", "<script>var x = \"{{ v }}\";</script>"},
	{"script_js_sq", "index.html", "<script>var x = '{{ v }}';</script>"},
	{"script_jsonld", "index.html", "<script type=\"application/ld+json\">{\"a\": {{ v }}, \"b\": \"{{ v }}\"}</script>"},
	{"style_css", "index.html", "<style>a { width: {{ v }}; }</style>"},
	{"style_css_str", "index.html", "<style>a { b: \"{{ v }}\"; c: '{{ v }}' }</style>"},
	{"attr_style", "index.html", "<div style=\"width: {{ v }}\">x</div>"},
	{"attr_onclick", "index.html", "<div onclick=\"f({{ v }}, '{{ v }}')\">x</div>"},
	{"file_js", "index.js", "var x = {{ v }}; var y = \"{{ v }}\";"},
	{"file_css", "index.css", "a { width: {{ v }}; b: \"{{ v }}\" }"},
	{"file_json", "index.json", "{\"a\": {{ v }}, \"b\": \"{{ v }}\"}"},
	{"file_md", "index.md", "# t {{ v }}\n\npara {{ v }}\n\n\tcode {{ v }}\n\n    spaces {{ v }}\n"},
	{"file_txt", "index.txt", "t {{ v }}"},
	{"md_in_html", "index.html", "{% macro M markdown %}*a* {{ v }}{% end %}<div>{{ M() }}</div>"},
	{"html_if", "index.html", "{% if v %}t{% else %}f{% end %}"},
	{"html_switch", "index.html", "{% switch v %}{% case 1 %}one{% case \"a\" %}a{% default %}d{% end %}"},
	{"html_eq", "index.html", "{{ v == v }} {{ v != nil }}"},
}

// Stringer types used as values.
type (
	strStringer  struct{ S string }
	htmlStringer struct{ S string }
	jsStringer   struct{ S string }
	errValue     struct{ S string }
	envStringer  struct{ S string }
	person       struct {
		Name  string `json:"name"`
		Age   int    `json:"age,omitempty"`
		Skip  string `json:"-"`
		inner int
		Next  *person
		Any   any
		Tags  []string
	}
	onlyUnexported struct{ a, b int }
	namedString    string
	namedInt       int
	namedSlice     []string
	namedMap       map[string]int
)

func (s strStringer) String() string           { return s.S }
func (s htmlStringer) HTML() native.HTML       { return native.HTML(s.S) }
func (s jsStringer) JS() native.JS             { return native.JS(s.S) }
func (e errValue) Error() string               { return e.S }
func (s envStringer) String(native.Env) string { return s.S }

// ValueNames lists the names of the dictionary values in a fixed order.
var ValueNames []string

var valueTable = map[string]func() any{}

func addValue(name string, f func() any) {
	ValueNames = append(ValueNames, name)
	valueTable[name] = f
}

// Value constructs the dictionary value with the given name.
func Value(name string) (any, bool) {
	f, ok := valueTable[name]
	if !ok {
		return nil, false
	}
	return f(), true
}

func init() {
	strs := map[string]string{
		"s_empty": "", "s_q": "?", "s_aqb": "a?b", "s_amp": "&", "s_hash": "#", "s_space": "a b",
		"s_html": "<>\"'&", "s_script": "</script><script>alert(1)</script>", "s_comment": "--><!--",
		"s_ls": "a\u2028b\u2029", "s_badutf8": "a\xffb\xc0", "s_js": "javascript:alert(1)",
		"s_nul": "a\x00b", "s_nl": "a\r\nb\n", "s_bom": "\ufeffx", "s_nonchar": "\ufffe\uffff",
		"s_cssend": "*/ } </style>", "s_tpl": "${x}`", "s_backslash": "\\\"\\'", "s_comma": "a,b 2x",
		"s_pct": "%zz%", "s_amp_end": "a?b&", "s_q_end": "a?", "s_uni": "é日本🎉", "s_md": "# *a* [b](c) `d`\n\n\tcode",
		"s_entity": "&amp;&#x3c;&lt", "s_eq": "a=b", "s_slash": "/", "s_cdata": "]]>",
	}
	names := make([]string, 0, len(strs))
	for k := range strs {
		names = append(names, k)
	}
	sortStrings(names)
	for _, k := range names {
		s := strs[k]
		addValue(k, func() any { return s })
	}
	addValue("s_long", func() any { return strings.Repeat("ab<&\"'?", 2000) })
	addValue("nil", func() any { return nil })
	addValue("true", func() any { return true })
	addValue("int", func() any { return 42 })
	addValue("int_neg", func() any { return -7 })
	addValue("int8_min", func() any { return int8(-128) })
	addValue("int64_min", func() any { return int64(math.MinInt64) })
	addValue("uint64_max", func() any { return uint64(math.MaxUint64) })
	addValue("uintptr", func() any { return uintptr(77) })
	addValue("rune", func() any { return 'x' })
	addValue("byte", func() any { return byte(200) })
	addValue("float", func() any { return 1.5 })
	addValue("float_nan", func() any { return math.NaN() })
	addValue("float_inf", func() any { return math.Inf(1) })
	addValue("float_neginf", func() any { return math.Inf(-1) })
	addValue("float_negzero", func() any { return math.Copysign(0, -1) })
	addValue("float_huge", func() any { return 1e300 })
	addValue("float_tiny", func() any { return 5e-324 })
	addValue("float32", func() any { return float32(0.1) })
	addValue("float32_nan", func() any { return float32(math.NaN()) })
	addValue("complex128", func() any { return complex(1, -2) })
	addValue("complex64", func() any { return complex64(complex(0, 3)) })
	addValue("complex_nan", func() any { return complex(math.NaN(), math.Inf(1)) })
	addValue("bytes_nil", func() any { return []byte(nil) })
	addValue("bytes", func() any { return []byte("x<y\xff") })
	addValue("ints", func() any { return []int{1, 2} })
	addValue("ints_nil", func() any { return []int(nil) })
	addValue("ints_empty", func() any { return []int{} })
	addValue("anys", func() any { return []any{nil, 1, "a<", []any{}, map[string]any{"k": nil}} })
	addValue("array", func() any { return [2]string{"a", "b"} })
	addValue("array0", func() any { return [0]int{} })
	addValue("strs", func() any { return []string{"a", "</script>"} })
	addValue("map_str_any", func() any { return map[string]any{"a": 1, "b": "x", "c": nil, "d": []int{1}} })
	addValue("map_nil", func() any { return map[string]int(nil) })
	addValue("map_int_str", func() any { return map[int]string{1: "a", 2: "b"} })
	addValue("map_bool", func() any { return map[bool]int{true: 1} })
	addValue("map_float_nan", func() any { return map[float64]int{math.NaN(): 1, 2: 2} })
	addValue("map_any_any", func() any { return map[any]any{nil: 1, 2: "b", "c": 3.5} })
	addValue("map_struct_key", func() any { return map[[2]int]string{{1, 2}: "a"} })
	addValue("map_stringer_key", func() any { return map[strStringer]int{{"k"}: 1} })
	addValue("map_chan_val", func() any { return map[string]chan int{"c": nil} })
	addValue("struct", func() any { return person{Name: "N<", Age: 3, Tags: []string{"t"}, Any: 1} })
	addValue("struct_ptr", func() any { return &person{Name: "P", Next: &person{Name: "Q"}} })
	addValue("struct_ptr_nil", func() any { return (*person)(nil) })
	addValue("struct_unexported", func() any { return onlyUnexported{1, 2} })
	addValue("struct_empty", func() any { return struct{}{} })
	addValue("struct_anon", func() any { return struct{ A, B int }{1, 2} })
	addValue("struct_with_chan", func() any {
		return struct {
			C chan int
			F func()
		}{}
	})
	addValue("ptr_int", func() any { n := 5; return &n })
	addValue("ptr_int_nil", func() any { return (*int)(nil) })
	addValue("ptr_ptr", func() any { n := 5; p := &n; return &p })
	addValue("ptr_str", func() any { s := "<s>"; return &s })
	addValue("unsafe_ptr", func() any { n := 5; return unsafe.Pointer(&n) })
	addValue("unsafe_ptr_nil", func() any { return unsafe.Pointer(nil) })
	addValue("chan", func() any { return make(chan int) })
	addValue("chan_nil", func() any { return (chan int)(nil) })
	addValue("func", func() any { return func() {} })
	addValue("func_nil", func() any { return (func())(nil) })
	addValue("func_ret", func() any { return func() string { return "r" } })
	addValue("error", func() any { return errors.New("e<&") })
	addValue("error_custom", func() any { return errValue{"c\"'"} })
	addValue("error_ptr_nil", func() any { return (*StopErr)(nil) })
	addValue("stringer", func() any { return strStringer{"<s>?&"} })
	addValue("stringer_ptr", func() any { return &strStringer{"p"} })
	addValue("env_stringer", func() any { return envStringer{"env<"} })
	addValue("html_stringer", func() any { return htmlStringer{"<i>h</i>"} })
	addValue("js_stringer", func() any { return jsStringer{"alert(1)"} })
	addValue("native_html", func() any { return native.HTML("<b>&amp;</b>") })
	addValue("native_js", func() any { return native.JS("alert('</script>')") })
	addValue("native_css", func() any { return native.CSS("red; } </style>") })
	addValue("native_json", func() any { return native.JSON("{\"a\":[1,") })
	addValue("native_md", func() any { return native.Markdown("*x* <script>") })
	addValue("named_string", func() any { return namedString("ns?") })
	addValue("named_int", func() any { return namedInt(3) })
	addValue("named_slice", func() any { return namedSlice{"a"} })
	addValue("named_map", func() any { return namedMap{"a": 1} })
	addValue("time_zero", func() any { return time.Time{} })
	addValue("time_now", func() any { return time.Date(2024, 2, 29, 23, 59, 59, 999999999, time.UTC) })
	addValue("time_zone", func() any { return time.Date(2024, 1, 1, 0, 0, 0, 0, time.FixedZone("X", -(5*3600+30*60))) })
	addValue("time_neg", func() any { return time.Date(-5, 1, 1, 0, 0, 0, 0, time.UTC) })
	addValue("time_year_5digits", func() any { return time.Date(12345, 1, 1, 0, 0, 0, 0, time.UTC) })
	addValue("time_year_huge", func() any { return time.Date(2000000, 1, 1, 0, 0, 0, 0, time.UTC) })
	addValue("time_year_neg_huge", func() any { return time.Date(-2000000, 1, 1, 0, 0, 0, 0, time.UTC) })
	addValue("time_ptr", func() any { t := time.Unix(0, 0).UTC(); return &t })
	addValue("time_ptr_nil", func() any { return (*time.Time)(nil) })
	addValue("duration", func() any { return 90 * time.Second })
	addValue("cyclic_pointer", func() any { n := &person{Name: "c"}; n.Next = n; return n })
	addValue("cyclic_pointer_2", func() any { a := &person{Name: "a"}; b := &person{Name: "b", Next: a}; a.Next = b; return *a })
	addValue("cyclic_map", func() any { m := map[string]any{"a": 1}; m["self"] = m; return m })
	addValue("cyclic_slice", func() any { s := []any{1, nil}; s[1] = s; return s })
	addValue("cyclic_any_field", func() any { n := &person{Name: "x"}; n.Any = []any{map[string]any{"p": n}}; return n })
	addValue("nested_deep", func() any {
		var v any = "x"
		for i := 0; i < 50; i++ {
			if i%2 == 0 {
				v = []any{v}
			} else {
				v = map[string]any{"k": v}
			}
		}
		return v
	})
}

func sortStrings(a []string) {
	for i := 1; i < len(a); i++ {
		for j := i; j > 0 && a[j] < a[j-1]; j-- {
			a[j], a[j-1] = a[j-1], a[j]
		}
	}
}

// ---------------------------------------------------------------------------
// URL attribute state sequences.

// URLTexts are the literal parts of a URL attribute value.
var URLTexts = []string{"?", "&", "#", "a", "/", "=", ",", " ", "?a=", "&amp;", "?&", "a?b=c&"}

// URLValues are the shown values of a URL attribute value.
var URLValues = []string{"", "?", "a?b", "&", "#", "a", "a&", "b?", ",", " ", "a b", "é", "=", "%", "?&", "&?"}

// URLAttrs are the attribute skeletons; %s is the attribute value.
var URLAttrs = []struct{ Name, Fmt string }{
	{"href_dq", "<a href=\"%s\">x</a>"},
	{"href_sq", "<a href='%s'>x</a>"},
	{"href_unq", "<a href=%s>x</a>"},
	{"src_dq", "<img src=\"%s\">"},
	{"srcset_dq", "<img srcset=\"%s\">"},
	{"two_attrs", "<a href=\"%[1]s\" title=\"t\" href=\"%[1]s\">x</a>"},
}

// URLSeqTemplate builds the template for a part sequence. A part "" is a hole
// (shown global h0, h1, …, in order), any other part is literal text.
func URLSeqTemplate(attrFmt string, parts []string) (src string, holes int) {
	var b strings.Builder
	for _, p := range parts {
		if p == "" {
			fmt.Fprintf(&b, "{{ h%d }}", holes)
			holes++
		} else {
			b.WriteString(p)
		}
	}
	val := b.String()
	if strings.Contains(attrFmt, "%[1]s") {
		// the second occurrence reuses the same holes
		return fmt.Sprintf(attrFmt, val), holes
	}
	return fmt.Sprintf(attrFmt, val), holes
}
