// Package faultprog generates fault-heavy Go programs and templates for the
// run-time properties C05 (no host panic), C12 (Stop/Fatal/panic reporting) and
// C13 (failing writer).
//
// Everything here is a pure function of its arguments: no randomness that is not
// passed in, no map-iteration-order dependence.
package faultprog

import (
	"fmt"
	"strings"
)

// Fault is one way for interpreted code to fail at run time.
//
// Stmts are Go statements (one per line, no surrounding braces). They declare the
// variables they use, so they can be dropped into any function body or block. The
// statements are valid Go for the gc compiler too (no constant faults that the
// type checker would reject).
type Fault struct {
	Name   string
	Decls  string // package-level declarations the statements need (programs)
	Stmts  string
	Panics bool   // Go semantics: executing Stmts panics
	Msg    string // substring of the gc panic text ("" = not checked)
	NoTmpl bool   // not usable inside a template {%% %%} block
	// TmplOnly: the statements use template-only syntax (the contains operator):
	// not placed in programs and not valid Go.
	TmplOnly bool
	// Go: the statements use the go statement: the case is built with AllowGoStmt.
	Go bool
}

// declS is shared by the faults that need a struct type.
const declS = "type S2 struct {\n\tX int\n\tF float64\n}\n\ntype S struct {\n\tX int\n\tY string\n\tF float64\n\tP *S2\n\tA any\n}\n"

// declEmb declares structs that embed pointers, three levels deep: the fields X, Y, Z
// and W of EO are promoted through *E1, *E1.*E2 and *E1.*E2.*E3.
const declEmb = "type E3 struct {\n\tZ int\n\tW string\n}\n\ntype E2 struct {\n\t*E3\n\tY int\n}\n\ntype E1 struct {\n\t*E2\n\tX float64\n}\n\ntype EO struct {\n\t*E1\n\tV int\n}\n"

// Faults is the table of fault kinds.
var Faults = []Fault{
	// integer division
	{Name: "div_int", Stmts: "z := 0\nprint(10 / z)", Panics: true, Msg: "integer divide by zero"},
	{Name: "rem_int", Stmts: "z := 0\nprint(10 % z)", Panics: true, Msg: "integer divide by zero"},
	{Name: "div_int8", Stmts: "var z int8\nvar a int8 = 5\nprint(a / z)", Panics: true, Msg: "integer divide by zero"},
	{Name: "rem_uint16", Stmts: "var z uint16\nvar a uint16 = 5\nprint(a % z)", Panics: true, Msg: "integer divide by zero"},
	{Name: "div_int64", Stmts: "var z int64\nvar a int64 = 5\nprint(a / z)", Panics: true, Msg: "integer divide by zero"},
	{Name: "div_uint", Stmts: "var z uint\nvar a uint = 5\nprint(a / z)", Panics: true, Msg: "integer divide by zero"},
	{Name: "div_assign", Stmts: "z := 0\na := 7\na /= z\nprint(a)", Panics: true, Msg: "integer divide by zero"},
	{Name: "rem_assign", Stmts: "z := 0\na := 7\na %= z\nprint(a)", Panics: true, Msg: "integer divide by zero"},
	{Name: "div_minint", Stmts: "a := -9223372036854775807 - 1\nm := -1\nprint(a / m)\nprint(a % m)"},
	// nil pointer dereference
	{Name: "nilptr_read_int", Stmts: "var p *int\nprint(*p)", Panics: true, Msg: "nil pointer dereference"},
	{Name: "nilptr_write_int", Stmts: "var p *int\n*p = 1", Panics: true, Msg: "nil pointer dereference"},
	{Name: "nilptr_read_string", Stmts: "var p *string\nprint(*p)", Panics: true, Msg: "nil pointer dereference"},
	{Name: "nilptr_write_string", Stmts: "var p *string\n*p = \"a\"", Panics: true, Msg: "nil pointer dereference"},
	{Name: "nilptr_read_float", Stmts: "var p *float64\nprint(*p)", Panics: true, Msg: "nil pointer dereference"},
	{Name: "nilptr_write_float", Stmts: "var p *float64\n*p = 1.5", Panics: true, Msg: "nil pointer dereference"},
	{Name: "nilptr_read_bool", Stmts: "var p *bool\nprint(*p)", Panics: true, Msg: "nil pointer dereference"},
	{Name: "nilptr_write_slice", Stmts: "var p *[]int\n*p = nil", Panics: true, Msg: "nil pointer dereference"},
	{Name: "nilptr_read_slice", Stmts: "var p *[]int\nprint(len(*p))", Panics: true, Msg: "nil pointer dereference"},
	{Name: "nilptr_incr", Stmts: "var p *int\n*p++", Panics: true, Msg: "nil pointer dereference"},
	{Name: "nilptr_opassign", Stmts: "var p *int\n*p += 2", Panics: true, Msg: "nil pointer dereference"},
	{Name: "nilptr_field_read", Decls: declS, Stmts: "var s *S\nprint(s.X)", Panics: true, Msg: "nil pointer dereference"},
	{Name: "nilptr_field_write", Decls: declS, Stmts: "var s *S\ns.X = 1", Panics: true, Msg: "nil pointer dereference"},
	{Name: "nilptr_field_read_string", Decls: declS, Stmts: "var s *S\nprint(s.Y)", Panics: true, Msg: "nil pointer dereference"},
	{Name: "nilptr_field_write_string", Decls: declS, Stmts: "var s *S\ns.Y = \"q\"", Panics: true, Msg: "nil pointer dereference"},
	{Name: "nilptr_field_nested", Decls: declS, Stmts: "s := &S{}\nprint(s.P.X)", Panics: true, Msg: "nil pointer dereference"},
	{Name: "nilptr_field_nested_write", Decls: declS, Stmts: "s := &S{}\ns.P.F = 2", Panics: true, Msg: "nil pointer dereference"},
	{Name: "nilptr_field_addr", Decls: declS, Stmts: "var s *S\nq := &s.X\nprint(*q)", Panics: true, Msg: "nil pointer dereference"},
	{Name: "nilptr_struct_copy", Decls: declS, Stmts: "var s *S\nt := *s\nprint(t.X)", Panics: true, Msg: "nil pointer dereference"},
	{Name: "nilptr_array_index", Stmts: "var pa *[3]int\ni := 1\nprint(pa[i])", Panics: true, Msg: "nil pointer dereference"},
	{Name: "nilptr_array_set", Stmts: "var pa *[3]int\ni := 1\npa[i] = 4", Panics: true, Msg: "nil pointer dereference"},
	{Name: "nilptr_array_slice", Stmts: "var pa *[3]int\ns := pa[:]\nprint(len(s))", Panics: true, Msg: "nil pointer dereference"},
	{Name: "nilptr_array_range", Stmts: "var pa *[3]int\nfor _, v := range pa {\n\tprint(v)\n}", Panics: true, Msg: "nil pointer dereference"},
	{Name: "nil_iface_method", Stmts: "var e error\nprint(e.Error())", Panics: true, Msg: "nil pointer dereference"},
	// promoted fields through nil embedded pointers (nil at level 1, 2 and 3)
	{Name: "emb1_read", Decls: declEmb, Stmts: "var o EO\nprint(o.X)", Panics: true, Msg: "nil pointer dereference"},
	{Name: "emb1_write", Decls: declEmb, Stmts: "var o EO\no.X = 1.5", Panics: true, Msg: "nil pointer dereference"},
	{Name: "emb1_addr", Decls: declEmb, Stmts: "var o EO\np := &o.X\nprint(*p)", Panics: true, Msg: "nil pointer dereference"},
	{Name: "emb2_read", Decls: declEmb, Stmts: "o := EO{E1: &E1{}}\nprint(o.Y)", Panics: true, Msg: "nil pointer dereference"},
	{Name: "emb2_write", Decls: declEmb, Stmts: "o := &EO{E1: &E1{}}\no.Y = 2", Panics: true, Msg: "nil pointer dereference"},
	{Name: "emb2_incr", Decls: declEmb, Stmts: "o := EO{E1: &E1{}}\no.Y++", Panics: true, Msg: "nil pointer dereference"},
	{Name: "emb3_read", Decls: declEmb, Stmts: "o := EO{E1: &E1{E2: &E2{}}}\nprint(o.Z)", Panics: true, Msg: "nil pointer dereference"},
	{Name: "emb3_read_string", Decls: declEmb, Stmts: "o := &EO{E1: &E1{E2: &E2{}}}\nprint(o.W)", Panics: true, Msg: "nil pointer dereference"},
	{Name: "emb3_write_string", Decls: declEmb, Stmts: "o := EO{E1: &E1{E2: &E2{}}}\no.W = \"w\"", Panics: true, Msg: "nil pointer dereference"},
	{Name: "emb3_addr", Decls: declEmb, Stmts: "o := &EO{E1: &E1{E2: &E2{}}}\np := &o.Z\n*p = 3", Panics: true, Msg: "nil pointer dereference"},
	{Name: "emb3_through_level1_nil", Decls: declEmb, Stmts: "var o EO\nprint(o.Z, o.W)", Panics: true, Msg: "nil pointer dereference"},
	{Name: "emb_outer_nil", Decls: declEmb, Stmts: "var o *EO\nprint(o.Z)", Panics: true, Msg: "nil pointer dereference"},
	{Name: "emb_embedded_ptr_value", Decls: declEmb, Stmts: "var o EO\nprint(o.E1 == nil, o.V)\ne := o.E1\nprint(e.X)", Panics: true, Msg: "nil pointer dereference"},
	{Name: "emb_ok", Decls: declEmb, Stmts: "o := EO{E1: &E1{E2: &E2{E3: &E3{Z: 1}}}}\no.W = \"w\"\no.Y++\np := &o.X\n*p = 2\nprint(o.Z, o.W, o.Y, o.X)"},
	{Name: "emb_native1_read", Stmts: "print(pkg.EmbNil.Y)", Panics: true, Msg: "nil pointer dereference"},
	{Name: "emb_native1_write", Stmts: "pkg.EmbNil.Y = 3", Panics: true, Msg: "nil pointer dereference"},
	{Name: "emb_native2_read", Stmts: "print(pkg.EmbHalf.Z, pkg.EmbHalf.W)", Panics: true, Msg: "nil pointer dereference"},
	{Name: "emb_native2_write", Stmts: "pkg.EmbHalf.W = \"w\"", Panics: true, Msg: "nil pointer dereference"},
	{Name: "emb_native2_addr", Stmts: "p := &pkg.EmbHalf.Z\nprint(*p)", Panics: true, Msg: "nil pointer dereference"},
	{Name: "emb_native_ptr_read", Stmts: "e := pkg.NewEmb()\nprint(e.Y)\nprint(e.Z)", Panics: true, Msg: "nil pointer dereference"},
	{Name: "emb_native_ok", Stmts: "print(pkg.EmbFull.Y, pkg.EmbFull.Z, pkg.EmbFull.W)"},
	// index out of range
	{Name: "index_slice_read", Stmts: "a := []int{1, 2}\ni := 5\nprint(a[i])", Panics: true, Msg: "index out of range [5] with length 2"},
	{Name: "index_slice_write", Stmts: "a := []int{1, 2}\ni := 5\na[i] = 1", Panics: true, Msg: "index out of range [5] with length 2"},
	{Name: "index_slice_neg", Stmts: "a := []int{1, 2}\ni := -1\nprint(a[i])", Panics: true, Msg: "index out of range [-1]"},
	{Name: "index_slice_string_elem", Stmts: "a := []string{\"x\"}\ni := 1\nprint(a[i])", Panics: true, Msg: "index out of range [1] with length 1"},
	{Name: "index_slice_string_write", Stmts: "a := []string{\"x\"}\ni := 3\na[i] = \"y\"", Panics: true, Msg: "index out of range [3] with length 1"},
	{Name: "index_slice_float_write", Stmts: "a := []float64{1}\ni := 3\na[i] = 2.5", Panics: true, Msg: "index out of range [3] with length 1"},
	{Name: "index_slice_any", Stmts: "a := []any{1}\ni := 2\nprint(a[i] == nil)", Panics: true, Msg: "index out of range [2] with length 1"},
	{Name: "index_nil_slice", Stmts: "var a []string\ni := 0\nprint(a[i])", Panics: true, Msg: "index out of range [0] with length 0"},
	{Name: "index_array_read", Stmts: "var arr [3]int\ni := 3\nprint(arr[i])", Panics: true, Msg: "index out of range [3] with length 3"},
	{Name: "index_array_write", Stmts: "var arr [3]int\ni := 4\narr[i] = 1", Panics: true, Msg: "index out of range [4] with length 3"},
	{Name: "index_string", Stmts: "s := \"ab\"\ni := 7\nprint(s[i])", Panics: true, Msg: "index out of range [7] with length 2"},
	{Name: "index_string_neg", Stmts: "s := \"ab\"\ni := -2\nprint(s[i])", Panics: true, Msg: "index out of range [-2]"},
	{Name: "index_addr", Stmts: "a := []int{1}\ni := 2\np := &a[i]\nprint(*p)", Panics: true, Msg: "index out of range [2] with length 1"},
	{Name: "index_incr", Stmts: "a := []int{1}\ni := 2\na[i]++", Panics: true, Msg: "index out of range [2] with length 1"},
	{Name: "index_slice_of_slices", Stmts: "a := [][]int{{1}}\ni := 0\nj := 3\nprint(a[i][j])", Panics: true, Msg: "index out of range [3] with length 1"},
	{Name: "index_uint8_index", Stmts: "a := []int{1}\nvar i uint8 = 200\nprint(a[i])", Panics: true, Msg: "index out of range [200] with length 1"},
	// slice bounds
	{Name: "slice_low_gt_high", Stmts: "a := []int{1, 2, 3}\ni, j := 2, 1\nprint(len(a[i:j]))", Panics: true, Msg: "slice bounds out of range"},
	{Name: "slice_high_gt_cap", Stmts: "a := []int{1, 2, 3}\nj := 10\nprint(len(a[:j]))", Panics: true, Msg: "slice bounds out of range"},
	{Name: "slice_neg", Stmts: "a := []int{1, 2, 3}\ni := -1\nprint(len(a[i:]))", Panics: true, Msg: "slice bounds out of range"},
	{Name: "slice_3index", Stmts: "a := []int{1, 2, 3}\nk := 9\nprint(len(a[0:1:k]))", Panics: true, Msg: "slice bounds out of range"},
	{Name: "slice_3index_order", Stmts: "a := []int{1, 2, 3}\nj, k := 3, 2\nprint(len(a[0:j:k]))", Panics: true, Msg: "slice bounds out of range"},
	{Name: "slice_string", Stmts: "s := \"abc\"\ni, j := 2, 1\nprint(s[i:j])", Panics: true, Msg: "slice bounds out of range"},
	{Name: "slice_string_high", Stmts: "s := \"abc\"\nj := 9\nprint(s[:j])", Panics: true, Msg: "slice bounds out of range"},
	{Name: "slice_array", Stmts: "var arr [3]int\nj := 5\ns := arr[:j]\nprint(len(s))", Panics: true, Msg: "slice bounds out of range"},
	{Name: "slice_nil", Stmts: "var a []int\nj := 1\nprint(len(a[:j]))", Panics: true, Msg: "slice bounds out of range"},
	// type assertions
	{Name: "assert_int_string", Stmts: "var x any = 1\nprint(x.(string))", Panics: true, Msg: "interface conversion: interface {} is int, not string"},
	{Name: "assert_nil_int", Stmts: "var x any\nprint(x.(int))", Panics: true, Msg: "interface conversion: interface {} is nil, not int"},
	{Name: "assert_string_error", Stmts: "var x any = \"s\"\nprint(x.(error).Error())", Panics: true, Msg: "interface conversion: string is not error: missing method Error"},
	{Name: "assert_nil_error", Stmts: "var x any\nprint(x.(error).Error())", Panics: true, Msg: "interface conversion: interface is nil, not error"},
	{Name: "assert_slice", Stmts: "var x any = []int{1}\nprint(len(x.(map[string]int)))", Panics: true, Msg: "interface conversion: interface {} is []int, not map[string]int"},
	{Name: "assert_defined_type", Decls: declS, Stmts: "var x any = 1\nprint(x.(S).X)", Panics: true, Msg: "interface conversion"},
	{Name: "assert_defined_ptr", Decls: declS, Stmts: "var x any = S{}\nprint(x.(*S).X)", Panics: true, Msg: "interface conversion"},
	{Name: "assert_float", Stmts: "var x any = 1.5\nprint(x.(float32))", Panics: true, Msg: "interface conversion: interface {} is float64, not float32"},
	{Name: "assert_error_iface", Stmts: "var e error\nvar x any = e\nprint(x.(int))", Panics: true, Msg: "interface conversion: interface {} is nil, not int"},
	// channels
	{Name: "close_closed", Stmts: "c := make(chan int, 1)\nclose(c)\nclose(c)", Panics: true, Msg: "close of closed channel"},
	{Name: "close_nil", Stmts: "var c chan int\nclose(c)", Panics: true, Msg: "close of nil channel"},
	{Name: "send_closed", Stmts: "c := make(chan int, 1)\nclose(c)\nc <- 1", Panics: true, Msg: "send on closed channel"},
	{Name: "send_closed_string", Stmts: "c := make(chan string, 1)\nclose(c)\nc <- \"a\"", Panics: true, Msg: "send on closed channel"},
	{Name: "select_send_closed", Stmts: "c := make(chan int, 1)\nclose(c)\nselect {\ncase c <- 1:\n\tprint(1)\ndefault:\n\tprint(2)\n}", Panics: true, Msg: "send on closed channel"},
	{Name: "recv_closed", Stmts: "c := make(chan int, 1)\nclose(c)\nv, ok := <-c\nprint(v, ok)"},
	// maps
	{Name: "nilmap_write", Stmts: "var m map[string]int\nm[\"a\"] = 1", Panics: true, Msg: "assignment to entry in nil map"},
	{Name: "nilmap_write_int_key", Stmts: "var m map[int][]int\nm[1] = nil", Panics: true, Msg: "assignment to entry in nil map"},
	{Name: "nilmap_incr", Stmts: "var m map[string]int\nm[\"a\"]++", Panics: true, Msg: "assignment to entry in nil map"},
	{Name: "nilmap_write_any", Stmts: "var m map[any]any\nm[1] = \"x\"", Panics: true, Msg: "assignment to entry in nil map"},
	{Name: "nilmap_read", Stmts: "var m map[string]int\nprint(m[\"a\"], len(m))\ndelete(m, \"a\")"},
	{Name: "unhashable_write", Stmts: "m := map[any]int{}\nvar k any = []int{1}\nm[k] = 1", Panics: true, Msg: "hash of unhashable type []int"},
	{Name: "unhashable_read", Stmts: "m := map[any]int{}\nvar k any = []int{1}\nprint(m[k])", Panics: true, Msg: "hash of unhashable type []int"},
	{Name: "unhashable_delete", Stmts: "m := map[any]int{}\nvar k any = map[string]int{}\ndelete(m, k)", Panics: true, Msg: "hash of unhashable type map[string]int"},
	{Name: "unhashable_literal", Stmts: "var k any = []int{1}\nm := map[any]int{k: 1}\nprint(len(m))", Panics: true, Msg: "hash of unhashable type []int"},
	{Name: "unhashable_func_key", Stmts: "m := map[any]int{}\nvar k any = func() {}\nm[k] = 2", Panics: true, Msg: "hash of unhashable type func()"},
	{Name: "unhashable_commaok", Stmts: "m := map[any]int{}\nvar k any = []int{1}\nv, ok := m[k]\nprint(v, ok)", Panics: true, Msg: "hash of unhashable type []int"},
	// comparisons
	{Name: "uncomparable_eq", Stmts: "var a, b any = []int{1}, []int{1}\nprint(a == b)", Panics: true, Msg: "comparing uncomparable type []int"},
	{Name: "uncomparable_ne", Stmts: "var a, b any = map[int]int{}, map[int]int{}\nprint(a != b)", Panics: true, Msg: "comparing uncomparable type map[int]int"},
	{Name: "uncomparable_if", Stmts: "var a, b any = []int{1}, []int{1}\nif a == b {\n\tprint(1)\n}", Panics: true, Msg: "comparing uncomparable type []int"},
	{Name: "uncomparable_switch", Stmts: "var a, b any = []int{1}, []int{1}\nswitch a {\ncase b:\n\tprint(1)\n}", Panics: true, Msg: "comparing uncomparable type []int"},
	{Name: "uncomparable_struct", Decls: declS, Stmts: "a := S{A: []int{1}}\nb := S{A: []int{1}}\nprint(a == b)", Panics: true, Msg: "comparing uncomparable type []int"},
	{Name: "uncomparable_array", Stmts: "a := [1]any{[]int{1}}\nb := [1]any{[]int{1}}\nprint(a == b)", Panics: true, Msg: "comparing uncomparable type []int"},
	{Name: "uncomparable_func", Stmts: "var a, b any = func() {}, func() {}\nprint(a == b)", Panics: true, Msg: "comparing uncomparable type func()"},
	// explicit panics
	{Name: "panic_string", Stmts: "panic(\"boom\")", Panics: true, Msg: "boom"},
	{Name: "panic_int", Stmts: "panic(42)", Panics: true, Msg: "42"},
	{Name: "panic_error", Stmts: "panic(errors.New(\"an error\"))", Panics: true, Msg: "an error"},
	{Name: "panic_nil", Stmts: "panic(nil)", Panics: true, Msg: "panic called with nil argument"},
	{Name: "panic_float", Stmts: "panic(1.5)", Panics: true},
	{Name: "panic_bool", Stmts: "panic(true)", Panics: true, Msg: "true"},
	{Name: "panic_struct", Decls: declS, Stmts: "panic(S{X: 3})", Panics: true},
	{Name: "panic_struct_ptr", Decls: declS, Stmts: "panic(&S{X: 3})", Panics: true},
	{Name: "panic_slice", Stmts: "panic([]int{1, 2})", Panics: true},
	{Name: "panic_map", Stmts: "panic(map[string]int{\"a\": 1})", Panics: true},
	{Name: "panic_func", Stmts: "panic(func() {})", Panics: true},
	{Name: "panic_defined_string", Decls: "type Str string\n", Stmts: "panic(Str(\"ds\"))", Panics: true, Msg: "ds"},
	{Name: "panic_defined_int", Decls: "type Num int\n", Stmts: "panic(Num(7))", Panics: true, Msg: "7"},
	{Name: "panic_rune", Stmts: "panic('x')", Panics: true, Msg: "120"},
	{Name: "panic_uint8", Stmts: "panic(uint8(200))", Panics: true, Msg: "200"},
	{Name: "panic_complex", Stmts: "panic(complex(1, 2))", Panics: true},
	{Name: "panic_chan", Stmts: "panic(make(chan int))", Panics: true},
	{Name: "panic_nil_error", Stmts: "var e error\npanic(e)", Panics: true, Msg: "panic called with nil argument"},
	{Name: "panic_native_value", Stmts: "panic(pkg.NewT())", Panics: true, NoTmpl: false},
	{Name: "panic_native_stringer", Stmts: "panic(pkg.Str(\"strs\"))", Panics: true, Msg: "strs"},
	// conversions
	{Name: "conv_slice_to_array_ptr", Stmts: "s := []int{1, 2}\na := (*[4]int)(s)\nprint(len(a))", Panics: true, Msg: "cannot convert slice with length 2 to array or pointer to array with length 4"},
	{Name: "conv_float_overflow", Stmts: "f := 1e300\nprint(int8(f), uint8(f), int64(f), uint64(f), int32(-f))\ng := float32(f)\nprint(g)"},
	{Name: "conv_nan", Stmts: "z := 0.0\nf := z / z\nprint(int(f), uint(f), int8(f))"},
	{Name: "conv_inf", Stmts: "z := 0.0\nf := 1 / z\nprint(int(f), uint32(f), int16(-f))"},
	{Name: "conv_int_wrap", Stmts: "a := 300\nprint(int8(a), uint8(a), uint16(-a), string(rune(a)), string(rune(-1)))"},
	{Name: "conv_string_rune_huge", Stmts: "a := 1 << 40\nprint(string(rune(a)))"},
	{Name: "float_divzero", Stmts: "z := 0.0\nprint(1/z, -1/z, z/z)"},
	{Name: "int_overflow", Stmts: "a := 9223372036854775807\na++\nprint(a)\nvar b int8 = 127\nb++\nprint(b)\nvar c uint8\nc--\nprint(c)"},
	{Name: "shift_neg", Stmts: "s := -1\nprint(1 << s)", Panics: true, Msg: "negative shift amount"},
	{Name: "shift_neg_right", Stmts: "s := -3\na := 8\nprint(a >> s)", Panics: true, Msg: "negative shift amount"},
	{Name: "shift_huge", Stmts: "s := 200\nprint(1<<s, -8>>s, uint8(1)<<s)"},
	// make
	{Name: "makeslice_neg_len", Stmts: "n := -1\nprint(len(make([]int, n)))", Panics: true, Msg: "makeslice: len out of range"},
	{Name: "makeslice_neg_cap", Stmts: "n := -1\nprint(len(make([]int, 0, n)))", Panics: true, Msg: "makeslice: cap out of range"},
	{Name: "makeslice_len_gt_cap", Stmts: "n := 1\nprint(len(make([]int, 2, n)))", Panics: true, Msg: "makeslice: cap out of range"},
	{Name: "makeslice_huge", Stmts: "n := 1 << 62\nprint(len(make([]int, n)))", Panics: true, Msg: "makeslice: len out of range"},
	{Name: "makeslice_huge_string", Stmts: "n := 1 << 62\nprint(len(make([]string, n)))", Panics: true, Msg: "makeslice: len out of range"},
	{Name: "makechan_neg", Stmts: "n := -1\nc := make(chan int, n)\nprint(cap(c))", Panics: true, Msg: "makechan: size out of range"},
	{Name: "makechan_huge", Stmts: "n := 1 << 62\nc := make(chan int, n)\nprint(cap(c))", Panics: true, Msg: "makechan: size out of range"},
	{Name: "makemap_neg", Stmts: "n := -1\nm := make(map[int]int, n)\nprint(len(m))"},
	// calls
	{Name: "nilfunc_call", Stmts: "var f func()\nf()", Panics: true, Msg: "nil pointer dereference"},
	{Name: "nilfunc_call_args", Stmts: "var f func(int, string) int\nprint(f(1, \"a\"))", Panics: true, Msg: "nil pointer dereference"},
	{Name: "nilfunc_defer", Stmts: "var f func()\ndefer f()\nprint(1)", Panics: true, Msg: "nil pointer dereference"},
	{Name: "nilfunc_native_ret", Stmts: "f := pkg.NilFunc()\nf()", Panics: true, Msg: "nil pointer dereference"},
	{Name: "nilfunc_in_struct", Stmts: "var s struct{ F func(int) }\ns.F(1)", Panics: true, Msg: "nil pointer dereference"},
	{Name: "nilfunc_in_map", Stmts: "m := map[string]func(){}\nm[\"x\"]()", Panics: true, Msg: "nil pointer dereference"},
	// native functions and methods of native types
	{Name: "native_panic_string", Stmts: "pkg.PanicStr()", Panics: true, Msg: "native boom"},
	{Name: "native_panic_error", Stmts: "pkg.PanicErr()", Panics: true, Msg: "native error"},
	{Name: "native_panic_env", Stmts: "pkg.PanicEnv(3)", Panics: true, Msg: "native env 3"},
	{Name: "native_panic_variadic", Stmts: "pkg.PanicVar(1, 2, 3)", Panics: true, Msg: "native variadic 3"},
	{Name: "native_method_nil_value_recv", Stmts: "var t *pkg.T\nf := t.VM\nprint(f())", Panics: true, Msg: "nil pointer dereference"},
	{Name: "native_method_nil_call", Stmts: "var t *pkg.T\nprint(t.VM())", Panics: true, Msg: "nil pointer dereference"},
	{Name: "native_method_panics", Stmts: "t := pkg.NewT()\nt.Boom()", Panics: true, Msg: "method boom"},
	{Name: "native_method_value_panics", Stmts: "t := pkg.NewT()\nf := t.Boom\nf()", Panics: true, Msg: "method boom"},
	{Name: "native_field_nil", Stmts: "var t *pkg.T\nprint(t.N)", Panics: true, Msg: "nil pointer dereference"},
	{Name: "native_field_nil_write", Stmts: "var t *pkg.T\nt.N = 3", Panics: true, Msg: "nil pointer dereference"},
	{Name: "native_var_nil_ptr", Stmts: "print(*pkg.NilIntPtr)", Panics: true, Msg: "nil pointer dereference"},
	{Name: "native_var_nil_map", Stmts: "pkg.NilMap[\"a\"] = 1", Panics: true, Msg: "assignment to entry in nil map"},
	{Name: "native_var_index", Stmts: "i := 9\nprint(pkg.Ints[i])", Panics: true, Msg: "index out of range [9] with length 3"},
	{Name: "native_callback_nil", Stmts: "var f func()\npkg.MaybeCall(f)"},
	// sequences of select statements whose send cases, at the same case index, send values
	// of different types of the same kind (the VM reuses the holders of the cases)
	{Name: "select_send_slices", NoTmpl: true, Stmts: "c1 := make(chan []int, 1)\nc2 := make(chan []string, 1)\nc3 := make(chan [][]byte, 1)\nselect {\ncase c1 <- []int{1}:\ndefault:\n}\nselect {\ncase c2 <- []string{\"a\", \"b\"}:\ndefault:\n}\nselect {\ncase c3 <- nil:\ndefault:\n}\nprint(len(<-c1), len(<-c2), len(<-c3))"},
	{Name: "select_send_pointers", NoTmpl: true, Stmts: "c1 := make(chan *int, 1)\nc2 := make(chan *string, 1)\nc3 := make(chan *[]int, 1)\nn, s := 1, \"a\"\nselect {\ncase c1 <- &n:\n}\nselect {\ncase c2 <- &s:\n}\nselect {\ncase c3 <- nil:\n}\nprint(*<-c1, *<-c2, <-c3 == nil)"},
	{Name: "select_send_structs", NoTmpl: true, Stmts: "c1 := make(chan struct{ A int }, 1)\nc2 := make(chan struct{ B string }, 1)\nc3 := make(chan struct{}, 1)\nselect {\ncase c1 <- struct{ A int }{1}:\ndefault:\n}\nselect {\ncase c2 <- struct{ B string }{\"b\"}:\ndefault:\n}\nselect {\ncase c3 <- struct{}{}:\ndefault:\n}\nprint((<-c1).A, (<-c2).B, len(c3))"},
	{Name: "select_send_interfaces", NoTmpl: true, Stmts: "c1 := make(chan any, 1)\nc2 := make(chan error, 1)\nselect {\ncase c1 <- 5:\ndefault:\n}\nselect {\ncase c2 <- errors.New(\"e\"):\ndefault:\n}\nselect {\ncase c1 <- \"s\":\ndefault:\n}\nprint((<-c1).(int), (<-c2).Error())"},
	{Name: "select_send_maps_funcs_chans", NoTmpl: true, Stmts: "m1 := make(chan map[string]int, 1)\nm2 := make(chan map[int]string, 1)\nf1 := make(chan func(), 1)\nf2 := make(chan func(int) int, 1)\nk1 := make(chan chan int, 1)\nk2 := make(chan chan string, 1)\nselect {\ncase m1 <- map[string]int{\"a\": 1}:\ncase f1 <- func() {}:\n}\nselect {\ncase m2 <- map[int]string{1: \"a\"}:\ncase f2 <- func(x int) int { return x }:\n}\nselect {\ncase k1 <- make(chan int):\ndefault:\n}\nselect {\ncase k2 <- make(chan string):\ndefault:\n}\nprint(len(m1)+len(f1), len(m2)+len(f2), len(k1), len(k2))"},
	{Name: "select_send_arrays_named", Decls: "type Num int\n\ntype Str string\n", Stmts: "a1 := make(chan [2]int, 1)\na2 := make(chan [3]int, 1)\nn1 := make(chan int, 1)\nn2 := make(chan Num, 1)\ns1 := make(chan string, 1)\ns2 := make(chan Str, 1)\nselect {\ncase a1 <- [2]int{1, 2}:\ncase n1 <- 1:\ncase s1 <- \"a\":\n}\nselect {\ncase a2 <- [3]int{1, 2, 3}:\ncase n2 <- Num(2):\ncase s2 <- Str(\"b\"):\n}\nprint(len(a1)+len(n1)+len(s1), len(a2)+len(n2)+len(s2))"},
	{Name: "select_send_loop_types", NoTmpl: true, Stmts: "ci := make(chan []int, 4)\ncs := make(chan []string, 4)\ncp := make(chan *int, 4)\ncq := make(chan *string, 4)\nfor i := 0; i < 4; i++ {\n\tif i%2 == 0 {\n\t\tselect {\n\t\tcase ci <- []int{i}:\n\t\tcase cp <- &i:\n\t\t}\n\t} else {\n\t\tselect {\n\t\tcase cs <- []string{\"x\"}:\n\t\tcase cq <- nil:\n\t\t}\n\t}\n}\nprint(len(ci)+len(cp), len(cs)+len(cq))"},
	// the contains operator of templates (its map, slice and string forms are evaluated
	// by the If instruction)
	{Name: "contains_map_unhashable_key", TmplOnly: true, Stmts: "m := map[any]int{}\nvar k any = []int{1}\nprint(m contains k)", Panics: true, Msg: "hash of unhashable type"},
	{Name: "not_contains_map_unhashable_key", TmplOnly: true, Stmts: "m := map[any]int{1: 1}\nvar k any = map[string]int{}\nprint(m not contains k)", Panics: true, Msg: "hash of unhashable type"},
	{Name: "contains_map_func_key", TmplOnly: true, Stmts: "m := map[any]string{}\nvar k any = func() {}\nif m contains k {\n\tprint(1)\n}", Panics: true, Msg: "hash of unhashable type"},
	{Name: "contains_map_struct_key", TmplOnly: true, Stmts: "m := map[any]string{}\nvar k any = struct{ A any }{[]int{1}}\nprint(m contains k)", Panics: true, Msg: "hash of unhashable type"},
	{Name: "contains_slice_uncomparable", TmplOnly: true, Stmts: "s := []any{1, []int{1}}\nvar k any = []int{1}\nprint(s contains k)", Panics: true, Msg: "comparing uncomparable type"},
	{Name: "contains_slice_uncomparable_map", TmplOnly: true, Stmts: "s := []any{map[int]int{}}\nvar k any = map[int]int{}\nif s not contains k {\n\tprint(1)\n}", Panics: true, Msg: "comparing uncomparable type"},
	{Name: "contains_array_uncomparable", TmplOnly: true, Stmts: "s := [2]any{func() {}, 1}\nvar k any = func() {}\nprint(s contains k)", Panics: true, Msg: "comparing uncomparable type"},
	{Name: "contains_nil_map", TmplOnly: true, Stmts: "var m map[any]int\nvar k any = []int{1}\nprint(m contains k, m contains nil)"},
	{Name: "contains_ok", TmplOnly: true, Stmts: "s := []any{1, \"a\", nil}\nvar k any = \"a\"\nprint(s contains k, s contains nil, \"abc\" contains \"b\", \"abc\" contains 'c', map[string]int{\"a\": 1} contains \"a\")"},
	// go statements (built with AllowGoStmt)
	{Name: "go_nil_func", Go: true, Stmts: "var f func()\ngo f()", Panics: true, Msg: "go of nil func value"},
	{Name: "go_nil_func_args", Go: true, Stmts: "var f func(int, string)\ngo f(1, \"a\")", Panics: true, Msg: "go of nil func value"},
	{Name: "go_nil_native_func", Go: true, Stmts: "go pkg.NilFunc()()", Panics: true, Msg: "go of nil func value"},
	{Name: "go_ok", Go: true, Stmts: "c := make(chan int)\ngo func() {\n\tc <- 1\n}()\nprint(<-c)"},
	// append / copy / string building (no fault, exercised for the conversion paths)
	{Name: "append_nil", Stmts: "var a []int\na = append(a, 1, 2)\nvar b []int\na = append(a, b...)\nprint(len(a), copy(a, b))"},
	{Name: "string_index_range", Stmts: "s := \"a\\xffb\"\nfor i, r := range s {\n\tprint(i, r)\n}"},
}

// FaultByName returns the fault with the given name.
func FaultByName(name string) (Fault, bool) {
	for _, f := range Faults {
		if f.Name == name {
			return f, true
		}
	}
	return Fault{}, false
}

// indent indents every line of s by n tabs.
func indent(s string, n int) string {
	pad := strings.Repeat("\t", n)
	lines := strings.Split(s, "\n")
	for i, l := range lines {
		if l != "" {
			lines[i] = pad + l
		}
	}
	return strings.Join(lines, "\n")
}

// Placement is a program skeleton with holes: @F@ is replaced by the statements of
// the fault under test (indented to the hole), @G@ by a second copy (used by the
// placements that fault twice) and @D@ by the package-level declarations.
type Placement struct {
	Name string
	Src  string
	// Fatal reports that the placement calls pkg.Fatal: a host panic with the Fatal
	// value is the documented outcome.
	NoTmpl bool
}

const progHead = "package main\n\nimport (\n\t\"errors\"\n\t\"pkg\"\n)\n\nvar _ = errors.New\nvar _ = pkg.Tick\n\n@D@\n"

// Placements is the table of program placements.
var Placements = []Placement{
	{Name: "top", Src: "func main() {\n\tpkg.Tick(1)\n@F1@\n\tpkg.Tick(2)\n}\n"},
	{Name: "func", Src: "func f() {\n@F1@\n}\n\nfunc main() {\n\tpkg.Tick(1)\n\tf()\n\tpkg.Tick(2)\n}\n"},
	{Name: "func_result", Src: "func f(a int, s string) (int, string) {\n@F1@\n\treturn a + 1, s + \"!\"\n}\n\nfunc main() {\n\tx, y := f(1, \"a\")\n\tprint(x, y)\n}\n"},
	{Name: "func_named_result", Src: "func f() (n int, err error) {\n\tdefer func() {\n\t\tif r := recover(); r != nil {\n\t\t\terr = errors.New(\"recovered\")\n\t\t\tn = 7\n\t\t}\n\t}()\n@F1@\n\treturn 1, nil\n}\n\nfunc main() {\n\tn, err := f()\n\tprint(n, err != nil)\n}\n"},
	{Name: "closure", Src: "func main() {\n\tg := func() {\n@F2@\n\t}\n\tg()\n\tpkg.Tick(2)\n}\n"},
	{Name: "closure_captured", Src: "func main() {\n\tn := 0\n\ts := \"s\"\n\tg := func(k int) int {\n\t\tn += k\n\t\ts += \"x\"\n@F2@\n\t\treturn n\n\t}\n\tprint(g(1), s)\n}\n"},
	{Name: "closure_immediate", Src: "func main() {\n\tfunc() {\n@F2@\n\t}()\n\tpkg.Tick(2)\n}\n"},
	{Name: "deferred", Src: "func main() {\n\tdefer func() {\n@F2@\n\t}()\n\tpkg.Tick(1)\n}\n"},
	{Name: "deferred_in_func", Src: "func f() int {\n\tdefer func() {\n@F2@\n\t}()\n\treturn 3\n}\n\nfunc main() {\n\tprint(f())\n\tpkg.Tick(2)\n}\n"},
	{Name: "deferred_while_panicking", Src: "func main() {\n\tdefer func() {\n@F2@\n\t}()\n\tpanic(\"first\")\n}\n"},
	{Name: "deferred_while_faulting", Src: "func f() {\n\tdefer func() {\n@F2@\n\t}()\n@G1@\n}\n\nfunc main() {\n\tf()\n}\n"},
	{Name: "defer_after_fault", Src: "func main() {\n\tdefer func() {\n\t\tpkg.Tick(2)\n\t}()\n\tdefer pkg.Tick(3)\n@F1@\n}\n"},
	{Name: "recovered", Src: "func main() {\n\tdefer func() {\n\t\tr := recover()\n\t\tpkg.Sink(r)\n\t\tpkg.Tick(9)\n\t}()\n@F1@\n}\n"},
	{Name: "recovered_print", Src: "func main() {\n\tdefer func() {\n\t\tr := recover()\n\t\tif e, ok := r.(error); ok {\n\t\t\tprint(e.Error())\n\t\t} else if s, ok := r.(string); ok {\n\t\t\tprint(s)\n\t\t}\n\t}()\n@F1@\n}\n"},
	{Name: "recovered_continue", Src: "func f() {\n\tdefer func() {\n\t\trecover()\n\t}()\n@F1@\n}\n\nfunc main() {\n\tf()\n\tpkg.Tick(3)\n\tf()\n\tpkg.Tick(4)\n}\n"},
	{Name: "recovered_loop", Src: "func f(i int) (r int) {\n\tdefer func() {\n\t\tif recover() != nil {\n\t\t\tr = -i\n\t\t}\n\t}()\n\tif i%2 == 0 {\n@F2@\n\t}\n\treturn i\n}\n\nfunc main() {\n\tfor i := 0; i < 6; i++ {\n\t\tprint(f(i))\n\t}\n}\n"},
	{Name: "recover_refault", Src: "func main() {\n\tdefer func() {\n\t\trecover()\n@F2@\n\t}()\n\tpanic(\"first\")\n}\n"},
	{Name: "recover_repanic", Src: "func main() {\n\tdefer func() {\n\t\tr := recover()\n\t\tpanic(r)\n\t}()\n@F1@\n}\n"},
	{Name: "recover_repanic_other", Src: "func f() {\n\tdefer func() {\n\t\tr := recover()\n\t\tpkg.Sink(r)\n\t\tpanic(\"replaced\")\n\t}()\n@F1@\n}\n\nfunc main() {\n\tdefer pkg.Tick(5)\n\tf()\n}\n"},
	{Name: "double_defer_fault", Src: "func main() {\n\tdefer func() {\n\t\trecover()\n\t}()\n\tdefer func() {\n@F2@\n\t}()\n@G1@\n}\n"},
	{Name: "triple_fault_chain", Src: "func main() {\n\tdefer func() {\n@F2@\n\t}()\n\tdefer func() {\n@G2@\n\t}()\n@H1@\n}\n"},
	{Name: "defer_in_defer", Src: "func main() {\n\tdefer func() {\n\t\tdefer func() {\n\t\t\trecover()\n\t\t\tpkg.Tick(4)\n\t\t}()\n@F2@\n\t}()\n\tpanic(\"x\")\n}\n"},
	{Name: "recover_in_callee_of_deferred", Src: "func h() {\n\tdefer func() {\n\t\trecover()\n\t}()\n@F1@\n}\n\nfunc main() {\n\tdefer func() {\n\t\th()\n\t\tpkg.Tick(6)\n\t}()\n\tpanic(\"outer\")\n}\n"},
	{Name: "deep", Src: "func f5() {\n@F1@\n}\n\nfunc f4() {\n\tdefer pkg.Tick(4)\n\tf5()\n}\n\nfunc f3() int {\n\tdefer func() {\n\t\tpkg.Tick(3)\n\t}()\n\tf4()\n\treturn 1\n}\n\nfunc f2(s string) string {\n\tx := f3()\n\treturn s + string(rune('a'+x))\n}\n\nfunc f1() {\n\tdefer func() {\n\t\tr := recover()\n\t\tpkg.Sink(r)\n\t\tpanic(r)\n\t}()\n\tprint(f2(\"q\"))\n}\n\nfunc main() {\n\tf1()\n}\n"},
	{Name: "native_closure", Src: "func main() {\n\tpkg.Call(func() {\n@F2@\n\t})\n\tpkg.Tick(2)\n}\n"},
	{Name: "native_closure_env", Src: "func main() {\n\tpkg.CallEnv(func() {\n@F2@\n\t})\n\tpkg.Tick(2)\n}\n"},
	{Name: "native_closure_args", Src: "func main() {\n\tn := pkg.CallRet(func(x int) int {\n@F2@\n\t\treturn x * 2\n\t}, 4)\n\tprint(n)\n}\n"},
	{Name: "native_closure_recovered_inside", Src: "func main() {\n\tpkg.Call(func() {\n\t\tdefer func() {\n\t\t\trecover()\n\t\t}()\n@F2@\n\t})\n\tpkg.Tick(2)\n}\n"},
	{Name: "native_closure_recovered_outside", Src: "func main() {\n\tdefer func() {\n\t\tr := recover()\n\t\tpkg.Sink(r)\n\t\tpkg.Tick(3)\n\t}()\n\tpkg.Call(func() {\n@F2@\n\t})\n\tpkg.Tick(2)\n}\n"},
	{Name: "native_closure_nested", Src: "func main() {\n\tpkg.Call(func() {\n\t\tpkg.CallEnv(func() {\n@F3@\n\t\t})\n\t})\n}\n"},
	{Name: "native_closure_deferred", Src: "func main() {\n\tg := func() {\n@F2@\n\t}\n\tdefer pkg.Call(g)\n\tpkg.Tick(1)\n}\n"},
	{Name: "native_closure_deferred_panicking", Src: "func main() {\n\tg := func() {\n\t\tpkg.Tick(7)\n\t}\n\tdefer pkg.Call(g)\n@F1@\n}\n"},
	{Name: "deferred_native", Src: "func main() {\n\tdefer pkg.Tick(1)\n@F1@\n}\n"},
	{Name: "deferred_native_env", Src: "func main() {\n\tdefer pkg.TickEnv(1)\n@F1@\n}\n"},
	{Name: "deferred_println", Src: "func main() {\n\tdefer println(\"x\", 1)\n@F1@\n}\n"},
	{Name: "deferred_print", Src: "func main() {\n\tdefer print(\"x\")\n@F1@\n}\n"},
	{Name: "deferred_native_variadic", Src: "func main() {\n\tdefer pkg.Var(1, 2, 3)\n\tdefer pkg.Var()\n@F1@\n}\n"},
	{Name: "deferred_native_variadic_env", Src: "func main() {\n\tdefer pkg.VarEnv(\"a\", 1, \"b\", nil)\n@F1@\n}\n"},
	{Name: "deferred_native_in_func", Src: "func f() {\n\tdefer pkg.TickEnv(1)\n\tdefer pkg.Tick(2)\n@F1@\n}\n\nfunc main() {\n\tdefer func() {\n\t\trecover()\n\t\tpkg.Tick(3)\n\t}()\n\tf()\n}\n"},
	{Name: "deferred_native_recovered_after", Src: "func main() {\n\tdefer func() {\n\t\trecover()\n\t}()\n\tdefer pkg.TickEnv(1)\n@F1@\n}\n"},
	{Name: "deferred_native_panics", Src: "func main() {\n\tdefer pkg.PanicStr()\n@F1@\n}\n"},
	{Name: "deferred_native_panics_env", Src: "func main() {\n\tdefer func() {\n\t\trecover()\n\t}()\n\tdefer pkg.PanicEnv(1)\n@F1@\n}\n"},
	{Name: "deferred_native_stop", Src: "func main() {\n\tdefer pkg.Stop(1)\n@F1@\n}\n"},
	{Name: "deferred_native_fatal", Src: "func main() {\n\tdefer pkg.Fatal(1)\n@F1@\n}\n"},
	{Name: "deferred_method_value", Src: "func main() {\n\tt := pkg.NewT()\n\tdefer t.PM()\n\tdefer t.VM()\n@F1@\n}\n"},
	{Name: "deferred_method_value_var", Src: "func main() {\n\tt := pkg.NewT()\n\tf := t.PM\n\tg := t.Add\n\tdefer f()\n\tdefer g(2)\n@F1@\n}\n"},
	{Name: "deferred_closure_stop", Src: "func main() {\n\tdefer func() {\n\t\tpkg.Stop(2)\n\t}()\n@F1@\n}\n"},
	{Name: "deferred_closure_fatal", Src: "func main() {\n\tdefer func() {\n\t\tpkg.Fatal(2)\n\t}()\n@F1@\n}\n"},
	{Name: "stop_before", Src: "func main() {\n\tdefer pkg.Tick(8)\n\tif pkg.Zero() == 0 {\n\t\tpkg.Stop(0)\n\t}\n@F1@\n}\n"},
	{Name: "global_init", Src: "var g = f()\n\nfunc f() int {\n@F1@\n\treturn 1\n}\n\nfunc main() {\n\tprint(g)\n}\n"},
	{Name: "in_loop", Src: "func main() {\n\tfor i := 0; i < 3; i++ {\n\t\tif i == 2 {\n@F3@\n\t\t}\n\t}\n}\n"},
	{Name: "in_range", Src: "func main() {\n\tfor k, x := range map[string]int{\"a\": 1} {\n\t\tprint(k, x)\n@F2@\n\t}\n}\n"},
	{Name: "in_switch", Src: "func main() {\n\tvar x any = 1\n\tswitch x.(type) {\n\tcase int:\n@F2@\n\tcase string:\n\t\tprint(2)\n\t}\n}\n"},
	{Name: "in_select", Src: "func main() {\n\tc := make(chan int, 1)\n\tc <- 1\n\tselect {\n\tcase v := <-c:\n\t\tprint(v)\n@F2@\n\t}\n}\n"},
	{Name: "defer_arg", Src: "func h(x int) {\n\tpkg.Tick(x)\n}\n\nfunc k() int {\n@F1@\n\treturn 1\n}\n\nfunc main() {\n\tdefer h(k())\n\tpkg.Tick(0)\n}\n"},
	{Name: "call_arg", Src: "func k() int {\n@F1@\n\treturn 1\n}\n\nfunc main() {\n\tpkg.Var(1, k(), 3)\n\tpkg.Tick(k())\n}\n"},
	{Name: "tailcall", Src: "func f() int {\n@F1@\n\treturn 1\n}\n\nfunc g() int {\n\treturn f()\n}\n\nfunc main() {\n\tprint(g())\n}\n"},
	{Name: "labeled", Src: "func main() {\nouter:\n\tfor i := 0; i < 2; i++ {\n\t\tfor j := 0; j < 2; j++ {\n\t\t\tif j == 1 {\n\t\t\t\tbreak outer\n\t\t\t}\n\t\t\tif i == 1 {\n@F4@\n\t\t\t}\n\t\t}\n\t}\n}\n"},
	{Name: "many_locals", Src: "func f(a, b, c int, s, t string, x, y float64, v any) (int, string) {\n\tdefer func() {\n\t\tr := recover()\n\t\tpkg.Sink(r)\n\t\tprint(a, b, c, s, t, x, y, v == nil)\n\t}()\n\td := a + b\n\tu := s + t\n\tw := x * y\n@F1@\n\tprint(d, u, w)\n\treturn d, u\n}\n\nfunc main() {\n\tn, s := f(1, 2, 3, \"a\", \"b\", 1.5, 2.5, nil)\n\tprint(n, s)\n}\n"},
}

// PlacementByName returns the placement with the given name.
func PlacementByName(name string) (Placement, bool) {
	for _, p := range Placements {
		if p.Name == name {
			return p, true
		}
	}
	return Placement{}, false
}

// Program is a generated program.
type Program struct {
	Src string
	// FaultLines maps a hole letter (F, G, H) to the 1-based line of the last
	// statement of the fault placed there (the statement that fails).
	FaultLines map[string]int
}

// Build instantiates a placement with up to three faults (F, G, H holes).
func (p Placement) Build(f, g, h Fault) Program {
	decls := map[string]bool{}
	var d strings.Builder
	for i, x := range []Fault{f, g, h} {
		if !strings.Contains(p.Src, "@"+"FGH"[i:i+1]) {
			continue
		}
		if x.Decls != "" && !decls[x.Decls] {
			decls[x.Decls] = true
			d.WriteString(x.Decls)
		}
	}
	src := strings.Replace(progHead, "@D@", d.String(), 1) + p.Src
	holes := map[string]Fault{"F": f, "G": g, "H": h}
	for _, letter := range []string{"F", "G", "H"} {
		for n := 1; n <= 4; n++ {
			tag := fmt.Sprintf("@%s%d@", letter, n)
			if strings.Contains(src, tag) {
				body := "{\n" + indent(holes[letter].Stmts, 1) + "\n}"
				src = strings.Replace(src, tag, indent(body, n), 1)
			}
		}
	}
	return Program{Src: src}
}
