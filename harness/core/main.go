package core

import (
	"encoding/json"
	"fmt"
	"os"
	"path/filepath"
	"time"
)

func newDriver(p Prop, tier string, seed int64) (*Driver, func(), error) {
	root := os.Getenv("VERIF_ROOT")
	if root == "" {
		root = "/verif"
	}
	exe, err := os.Executable()
	if err != nil {
		return nil, nil, err
	}
	tmp := os.Getenv("VERIF_TMP")
	if tmp == "" {
		tmp = os.TempDir()
	}
	scratch, err := os.MkdirTemp(tmp, "vcheck-"+p.ID()+"-")
	if err != nil {
		return nil, nil, err
	}
	known, err := LoadFindings(root, p.ID())
	if err != nil {
		os.RemoveAll(scratch)
		return nil, nil, err
	}
	d := &Driver{Prop: p, Tier: tier, Seed: seed, Root: root, Scratch: scratch, T: newTally(), Start: time.Now(),
		known: known, exe: exe, violSeen: map[string]bool{}}
	return d, func() { os.RemoveAll(scratch) }, nil
}

// DriverMain runs one check and returns the process exit code.
func DriverMain(id, tier string) int {
	p := Lookup(id)
	if p == nil {
		fmt.Fprintln(os.Stderr, "unknown property", id)
		return 2
	}
	if tier != "quick" && tier != "thorough" {
		fmt.Fprintln(os.Stderr, "tier must be quick or thorough")
		return 2
	}
	d, cleanup, err := newDriver(p, tier, Seed())
	if err != nil {
		fmt.Fprintln(os.Stderr, "driver:", err)
		return 2
	}
	defer cleanup()
	d.ReplayFindings()
	if err := p.Drive(d); err != nil {
		fmt.Fprintf(os.Stderr, "check %s: harness error: %v\n", id, err)
		d.WriteEvidence()
		cleanup()
		return 2
	}
	if err := d.WriteEvidence(); err != nil {
		fmt.Fprintln(os.Stderr, "evidence:", err)
		return 2
	}
	t := d.T
	fmt.Printf("SUMMARY property=%s tier=%s seed=%d evaluations=%d distinct_nontrivial=%d violations=%d inconclusive=%d skipped=%d wall_s=%.1f\n",
		id, tier, d.Seed, t.Evaluations, len(t.Distinct), t.Violations, t.Inconclusive, t.Skipped, time.Since(d.Start).Seconds())
	for k, v := range t.Counts {
		fmt.Printf("  monitor %s=%d\n", k, v)
	}
	if t.Violations > 0 {
		return 1
	}
	if t.Evaluations == 0 || len(t.Distinct) < 2 {
		fmt.Printf("BROKEN property=%s the monitors observed nothing (evaluations=%d distinct=%d)\n", id, t.Evaluations, len(t.Distinct))
		return 2
	}
	return 0
}

// ReplayMain re-executes the case of a replay file with the same oracle.
func ReplayMain(path string) int {
	b, err := os.ReadFile(path)
	if err != nil {
		fmt.Fprintln(os.Stderr, err)
		return 2
	}
	var rp Replay
	if err := json.Unmarshal(b, &rp); err != nil {
		fmt.Fprintln(os.Stderr, "bad replay file:", err)
		return 2
	}
	p := Lookup(rp.Property)
	if p == nil {
		fmt.Fprintln(os.Stderr, "unknown property", rp.Property)
		return 2
	}
	d, cleanup, err := newDriver(p, rp.Tier, rp.Seed)
	if err != nil {
		fmt.Fprintln(os.Stderr, err)
		return 2
	}
	defer cleanup()
	d.known = nil
	var r Result
	if rpl, ok := p.(Replayer); ok {
		r = rpl.ReplayCase(d, rp.Case)
	} else {
		r = d.Run([]Case{rp.Case}, RunOpts{Workers: 1, NoTally: true})[0]
	}
	out, _ := json.MarshalIndent(r, "", " ")
	fmt.Println(string(out))
	if r.Status == Violation || r.Status == Crash {
		abs, _ := filepath.Abs(path)
		fmt.Printf("VIOLATION property=%s replay=%s\n", rp.Property, abs)
		return 1
	}
	return 0
}
